(* driver for the model of the dynamic interpreter (internal/pure/onthefly, TL1 paths):
   argv[1] = schema IR file (kernel dump WITHOUT constant instantiation: the kernel the interpreter runs on),
   argv[2] = file with len(NatParams()) of every instance, one per line, in instance order;
   one operation per line, same line protocol as drv_tl1.ml / the overlay harness verif_otf_test.go *)
open Conv
open BinNums
open PrimModel
open Tl1Model
open OflyModel
open Schema_io

let schema = load_schema Sys.argv.(1)
let np =
  let ic = open_in Sys.argv.(2) in
  let acc = ref [] in
  (try while true do
         let l = String.trim (input_line ic) in
         if l <> "" then acc := nat_of_int (int_of_string l) :: !acc
       done with End_of_file -> ());
  close_in ic;
  List.rev !acc

let fuel_for (b : coq_N list) = nat_of_int (64 + 4 * List.length b)
let cf = nat_of_int (List.length schema + 1)          (* CreateValue recursion: at most one level per instance *)

(* instances that do not reach a dictionary: greatest fixpoint, computed here (untrusted) and CHECKED by the extracted df_ok *)
let df : bool list =
  let n = List.length schema in
  let a = Array.make n true in
  let sa = Array.of_list schema in
  let changed = ref true in
  while !changed do
    changed := false;
    Array.iteri (fun i d ->
      if a.(i) then begin
        let ok = (match d with TDict (_, _) -> false | _ -> true)
                 && List.for_all (fun t -> let j = int_of_nat t in j < n && a.(j)) (refs d) in
        if not ok then (a.(i) <- false; changed := true)
      end) sa
  done;
  Array.to_list a

let rec split_bar (toks : string list) (acc : string list) : string list * string list =
  match toks with
  | "|" :: rest -> (List.rev acc, rest)
  | t :: rest -> split_bar rest (t :: acc)
  | [] -> (List.rev acc, [])

let b2s b = if b then "1" else "0"

let run toks =
  match toks with
  (* rw1 <san> <tid> <name> <boxed> <hex> : CreateValue, ReadTL1, WriteTL1 of what was read (san is ignored:
     the interpreter has no length-sanity check) *)
  | ["rw1"; _san; tid; _name; boxed; h] ->
      let b = bytes_of_hex h in
      let t = nat_of_int (int_of_string tid) in
      (match orw1 (fuel_for b) cf schema np t (boxed = "0") b with
       | ObsOk (consumed, Some w) -> "ok " ^ string_of_int (int_of_nat consumed) ^ " " ^ hex_of_bytes w
       | ObsOk (consumed, None) -> "ok " ^ string_of_int (int_of_nat consumed) ^ " writeerr"
       | ObsEof -> "eof"
       | ObsReject -> "reject"
       | ObsPanic -> "panic"
       | ObsUnsupported -> "unsupported"
       | ObsFuel -> "fuel")
  (* rw1x2 <tid> <name> <boxed> <hex1> <hex2> : ReadTL1(hex1) into a fresh value, then ReadTL1(hex2) into the same value, WriteTL1 *)
  | ["rw1x2"; tid; _name; boxed; h1; h2] ->
      let b1 = bytes_of_hex h1 and b2 = bytes_of_hex h2 in
      let t = nat_of_int (int_of_string tid) in
      (match orw1x2 (fuel_for (b1 @ b2)) cf schema np t (boxed = "0") b1 b2 with
       | ObsOk (consumed, Some w) -> "ok " ^ string_of_int (int_of_nat consumed) ^ " " ^ hex_of_bytes w
       | ObsOk (consumed, None) -> "ok " ^ string_of_int (int_of_nat consumed) ^ " writeerr"
       | ObsEof -> "eof"
       | ObsReject -> "reject"
       | ObsPanic -> "panic"
       | ObsUnsupported -> "first-failed"
       | ObsFuel -> "fuel")
  (* enc <san> <tid> <name> <boxed> <ps..> | <value> : WriteTL1 of the interpreter value holding the wire value *)
  | "enc" :: _san :: tid :: _name :: boxed :: rest ->
      let (ps, vt) = split_bar rest [] in
      let (v, _) = parse_value vt in
      (match oenc (nat_of_int 4096) cf schema np (nat_of_int (int_of_string tid)) (boxed = "0") (List.map n_of_dec ps) v with
       | Some w -> "ok " ^ hex_of_bytes w
       | None -> "none")
  (* dec <san> <tid> <name> <boxed> <hex> : the wire value held by the interpreter value after ReadTL1 *)
  | ["dec"; _san; tid; _name; boxed; h] ->
      let b = bytes_of_hex h in
      let t = nat_of_int (int_of_string tid) in
      (match ocreate cf schema t with
       | None -> "unsupported"
       | Some v0 ->
           (match oread (fuel_for b) cf schema np t (boxed = "0") [] v0 b with
            | Some (OOk ((v, rest), _)) -> "ok " ^ value_to_string (kabs v) ^ " | " ^ hex_of_bytes rest
            | Some OEof -> "eof" | Some OErr -> "reject" | Some OPanic -> "panic" | None -> "fuel"))
  (* unstable <san> <tid> <name> <boxed> <hex> : does the input contain a dictionary with more than 12 elements and a
     duplicate key?  (there slices.SortFunc does not specify which of the equal keys survives) *)
  | ["unstable"; _san; tid; _name; boxed; h] ->
      let b = bytes_of_hex h in
      let t = nat_of_int (int_of_string tid) in
      (match ocreate cf schema t with
       | None -> "unsupported"
       | Some v0 ->
           (match oread_gen (fun l -> l) (fuel_for b) cf schema np t (boxed = "0") [] v0 b with
            | Some (OOk ((v, _), _)) -> "ok " ^ b2s (kdict_unstable v)
            | _ -> "ok 0"))
  (* the schema conditions of the theorems of Props/C12.v, evaluated on this dump *)
  | ["wf"] ->
      "ok wf_schema=" ^ b2s (wf_schema schema) ^ " ofly_ok=" ^ b2s (ofly_ok schema np)
      ^ " create_total=" ^ b2s (create_total cf schema) ^ " nodict=" ^ b2s (nodict schema)
      ^ " notl1_free=" ^ b2s (notl1_free schema) ^ " np_len=" ^ b2s (List.length np = List.length schema)
      ^ " df_ok=" ^ b2s (df_ok schema df)
      ^ " dfree=" ^ (match List.filter (fun i -> List.nth df i) (List.init (List.length df) (fun i -> i)) with
                     | [] -> "-" | l -> String.concat "," (List.map string_of_int l))
  (* which instance breaks ofly_ok (diagnostics) *)
  | ["wfwhy"] ->
      let bad = ref [] in
      List.iteri (fun i d -> if not (otydef_ok schema np (nat_of_int i) d) then bad := string_of_int i :: !bad) schema;
      "ok " ^ String.concat "," (List.rev !bad)
  | l -> "driver-error unknown op " ^ String.concat " " l

let () = each_line run
