(* driver of the Reg family: argv[1] = schema IR file (lib/schema_ir.py), argv[2] = per-instance
   metadata file (lib/reg_lib.py); one operation per line *)
open Conv
open BinNums
open PrimModel
open Tl1Model
open RegModel
open RegAccModel
open Schema_io

let schema = load_schema Sys.argv.(1)

let bytes_of_string (s : string) : coq_N list =
  List.init (String.length s) (fun i -> n_of_int (Char.code s.[i]))
let string_of_bytes (b : coq_N list) : string =
  String.concat "" (List.map (fun c -> String.make 1 (Char.chr (int_of_n c))) b)
let unhexname s = bytes_of_hex s

let af_info : (int * int, bool * coq_N option * bool) Hashtbl.t = Hashtbl.create 64

(* metadata file: "af <tid> <field> <isbit> <tl2bit|-> <omitted>", "anns <hex>*" and "meta <id> <namehex> <top> <fun> <maybe> <origin2> <tl2> <utag> <annhex>*" *)
let (all_anns, metas) =
  if Array.length Sys.argv < 3 then ([], []) else begin
    let ic = open_in Sys.argv.(2) in
    let anns = ref [] and ms = ref [] in
    (try while true do
       match split_ws (input_line ic) with
       | "anns" :: l -> anns := List.map unhexname l
       | "meta" :: _id :: name :: top :: fn :: mb :: o2 :: tl2 :: utag :: al ->
           ms := { m_name = unhexname name; m_top = (top = "1"); m_fun = (fn = "1"); m_maybe = (mb = "1");
                   m_origin2 = (o2 = "1"); m_tl2 = (tl2 = "1"); m_utag = n_of_dec utag;
                   m_anns = List.map unhexname al } :: !ms
       | ["af"; tid; i; isbit; tb; om] ->
           Hashtbl.replace af_info (int_of_string tid, int_of_string i)
             (isbit = "1", (if tb = "-" then None else Some (n_of_dec tb)), om = "1")
       | [] -> ()
       | l -> failwith ("bad meta line " ^ String.concat " " l)
     done with End_of_file -> ());
    close_in ic;
    (!anns, List.rev !ms)
  end

let reg = lazy (registry all_anns schema metas)
let cands = lazy (cands_from all_anns O schema metas)
let fuel_for (b : coq_N list) = nat_of_int (64 + 4 * List.length b)
let b01 b = if b then "true" else "false"
let tag8 (t : coq_N) = Printf.sprintf "%08x" (int_of_n t)
let opt_name = function Some n -> string_of_bytes n | None -> "none"

let rec split_bar (toks : string list) (acc : string list) : string list * string list =
  match toks with
  | "|" :: rest -> (List.rev acc, rest)
  | t :: rest -> split_bar rest (t :: acc)
  | [] -> (List.rev acc, [])

let show_dres = function
  | None -> "fuel"
  | Some Eof -> "eof"
  | Some Reject -> "reject"
  | Some (Ok _) -> "ok"

let fresh_name (it : item) = opt_name (obj_name schema metas it.it_ty (fresh_value schema it.it_ty))
let fresh_tag (it : item) =
  match obj_tag schema it.it_ty (fresh_value schema it.it_ty) with Some t -> tag8 t | None -> "none"

let show_item (it : item) : string =
  let r = Lazy.force reg in
  let bits = String.concat "" (List.mapi (fun i _ -> if ann_flag it.it_ann (nat_of_int i) then "1" else "0") all_anns) in
  let tagrt = (match by_tag r it.it_tag with
               | None -> "none"
               | Some it' -> if bytes_eqb it'.it_name it.it_name then "same" else "other:" ^ string_of_bytes it'.it_name) in
  let namert = (match by_name r it.it_name with
                | None -> "none"
                | Some it' -> if it' = it then "same" else "other") in
  let factag = (match by_tag r it.it_tag with None -> "none" | Some it' -> fresh_name it') in
  Printf.sprintf "ok %s %s fun=%s tl1=%s tl2=%s ann=%s/%d namert=%s tagrt=%s obj=%s,%s fn=%s facname=%s factag=%s facfn=%s box=ok"
    (string_of_bytes it.it_name) (tag8 it.it_tag) (b01 it.it_fun) (b01 it.it_tl1) (b01 it.it_tl2)
    (if bits = "" then "-" else bits) (List.length all_anns) namert tagrt (fresh_name it) (fresh_tag it)
    (if it.it_fun then fresh_name it else "none") (fresh_name it) factag
    (if it.it_fun then fresh_name it else "none")

(* ---- C43: accessors of one struct *)
let afs_of (tid : int) : (coq_N * afield list) option =
  match List.nth_opt schema tid with
  | Some (TStruct (tag, fds)) ->
      Some (tag, List.mapi (fun i fd ->
        let (b, t, o) = (try Hashtbl.find af_info (tid, i) with Not_found -> (false, None, false)) in
        { af_field = fd; af_isbit = b; af_tl2bit = t; af_omitted = o }) fds)
  | _ -> None

let rec take n l = if n = 0 then ([], l) else match l with x :: r -> let (a, b) = take (n - 1) r in (x :: a, b) | [] -> failwith "take"

let acc_codes afs = String.concat "," (List.map (fun af ->
  if has_acc af then (if af.af_isbit then "S-I" else "SCI") else "---") afs)

let observe tag afs (st : ostate * coq_N list) : string =
  let (o, ps) = st in
  let idx = List.mapi (fun i af -> (i, af)) afs in
  let accs = List.filter (fun (_, af) -> has_acc af) idx in
  let bits f l = if l = [] then "-" else String.concat "" (List.map (fun (i, af) -> if f i af then "1" else "0") l) in
  let is = bits (fun i _ -> acc_isset afs (nat_of_int i) st) accs in
  let js = bits (fun i _ -> json_present afs (nat_of_int i) st) accs in
  let t2 = bits (fun _ af -> match af.af_tl2bit with Some b -> BinNat.N.testbit o.o_tl2 b | None -> false)
             (List.filter (fun (_, af) -> af.af_tl2bit <> None) accs) in
  let t1 = (match enc_obj false schema tag true ps afs o with Some b -> hex_of_bytes b | None -> "err") in
  Printf.sprintf "is=%s t1=%s js=%s t2=%s" is t1 js t2

let run_acc tid ps psd steps : string =
  match afs_of tid with
  | None -> "not-a-struct"
  | Some (tag, afs) ->
      let t = nat_of_int tid in
      let dec pp h =
        let b = bytes_of_hex h in
        (match dec1 (fuel_for b) false schema t true pp b with
         | Some (Ok (VStruct fs, _)) -> Some fs
         | _ -> None) in
      let out = Buffer.create 256 in
      Buffer.add_string out ("acc=" ^ acc_codes afs);
      let st = ref (fresh_obj afs, ps) in
      let failed = ref None in
      List.iter (fun step ->
        if !failed = None then begin
          (match String.split_on_char ':' step with
           | ["fresh"] -> st := (fresh_obj afs, ps)
           | ["read"; h] ->
               (match dec ps h with Some fs -> st := (of_wire afs fs, ps) | None -> failed := Some "read-failed")
           | ["set"; i; ext; h] ->
               (match dec psd h with
                | Some fs ->
                    (match List.nth_opt fs (int_of_string i) with
                     | Some (Some x) -> st := acc_set afs (nat_of_int (int_of_string i)) x (ext = "1") !st
                     | _ -> failed := Some "donor-absent")
                | None -> failed := Some "donor-read-failed")
           | ["setb"; i; v; ext] -> st := acc_setbit afs (nat_of_int (int_of_string i)) (v = "1") (ext = "1") !st
           | ["clear"; i; ext] -> st := acc_clear afs (nat_of_int (int_of_string i)) (ext = "1") !st
           | _ -> failed := Some ("bad-step:" ^ step));
          (match !failed with
           | None -> Buffer.add_string out (" | " ^ observe tag afs !st)
           | Some e -> Buffer.add_string out (" | " ^ e))
        end) steps;
      Buffer.contents out

(* ---- C10: string (map-backed) vs bytes (slice-backed) variants *)
let slice_schema = lazy (RegBytesModel.to_slice schema)

let run_brw san tid h : string =
  let b = bytes_of_hex h in
  let t = nat_of_int tid in
  let rw sch =
    (match dec1 (fuel_for b) san sch t false [] b with
     | Some (Ok (v, rest)) ->
         (match enc1 false sch t false [] v with
          | Some w -> (Some v, "ok:" ^ string_of_int (List.length b - List.length rest) ^ ":" ^ hex_of_bytes w)
          | None -> (Some v, "writeerr"))
     | r -> (None, show_dres r)) in
  let (vs, rs) = rw schema in
  let (vb, rb) = rw (Lazy.force slice_schema) in
  let sorted = (match vb with Some v -> if RegBytesModel.dicts_sorted schema t v then "1" else "0" | None -> "-") in
  let normok = (match vs, vb with
                | Some a, Some b' -> if RegBytesModel.norm schema t b' = a then "1" else "0"
                | _ -> "-") in
  Printf.sprintf "s=%s b=%s sorted=%s norm=%s" rs rb sorted normok

let run toks =
  match toks with
  (* brw <san> <tid> <name> <hex> : read boxed + rewrite with the string variant and with the bytes variant *)
  | ["brw"; san; tid; _name; h] -> run_brw (san = "1") (int_of_string tid) h
  (* encb <san> <tid> <name> <boxed> <ps..> | <value> : writer of the bytes variant (dictionaries are vectors) *)
  | "encb" :: san :: tid :: _name :: boxed :: rest ->
      let (ps, vt) = split_bar rest [] in
      let (v, _) = parse_value vt in
      (match enc1 (san = "1") (Lazy.force slice_schema) (nat_of_int (int_of_string tid)) (boxed = "0") (List.map n_of_dec ps) v with
       | Some b -> "ok " ^ hex_of_bytes b
       | None -> "none")
  (* acc <tid> <path> <nps> <ps..> <psd..> <nf> <names..> | <steps..> *)
  | "acc" :: tid :: _path :: nps :: rest ->
      let n = int_of_string nps in
      let (ps, rest) = take n rest in
      let (psd, rest) = take n rest in
      let (_, steps) = split_bar rest [] in
      run_acc (int_of_string tid) (List.map n_of_dec ps) (List.map n_of_dec psd) steps
  | ["regcheck"] ->
      let c = Lazy.force cands in
      Printf.sprintf "ok wf=%s meta=%s anns=%s names=%s tags=%s cands=%d"
        (b01 (wf_schema schema)) (b01 (meta_okb schema metas)) (b01 (anns_okb all_anns))
        (b01 (names_okb c)) (b01 (tags_okb c)) (List.length c)
  | ["regcount"] -> "ok " ^ string_of_int (List.length (Lazy.force reg))
  | "regname" :: name :: _ ->
      (match by_name (Lazy.force reg) (bytes_of_string name) with Some it -> show_item it | None -> "none")
  | "regtag" :: tag :: _ ->
      (match by_tag (Lazy.force reg) (n_of_dec tag) with Some it -> show_item it | None -> "none")
  (* regbox <tid> <name> <hex> <seed|-> : the object holding the value whose boxed encoding is <hex>: name/tag it
     reports and the first 4 bytes it writes (Go obtains the object by reading <hex>, or by FillRandom(seed)) *)
  | ["regbox"; tid; _name; h; _seed] ->
      let b = bytes_of_hex h in
      let t = nat_of_int (int_of_string tid) in
      (match dec1 (fuel_for b) false schema t false [] b with
       | Some (Ok (v, _rest)) ->
           (match enc1 false schema t false [] v with
            | Some w ->
                let first4 = List.filteri (fun i _ -> i < 4) w in
                Printf.sprintf "ok %s %s %s" (opt_name (obj_name schema metas t v))
                  (match obj_tag schema t v with Some x -> tag8 x | None -> "none") (hex_of_bytes first4)
            | None -> "writeerr")
       | r -> show_dres r)
  (* enc <san> <tid> <name> <boxed> <ps..> | <value> : model writer on a given wire value *)
  | "enc" :: san :: tid :: _name :: boxed :: rest ->
      let (ps, vt) = split_bar rest [] in
      let (v, _) = parse_value vt in
      (match enc1 (san = "1") schema (nat_of_int (int_of_string tid)) (boxed = "0") (List.map n_of_dec ps) v with
       | Some b -> "ok " ^ hex_of_bytes b
       | None -> "none")
  | l -> "driver-error unknown op " ^ String.concat " " l

let () = each_line run
