(* driver of the Reg family: argv[1] = schema IR file (lib/schema_ir.py), argv[2] = per-instance
   metadata file (lib/reg_lib.py); one operation per line *)
open Conv
open BinNums
open PrimModel
open Tl1Model
open RegModel
open Schema_io

let schema = load_schema Sys.argv.(1)

let bytes_of_string (s : string) : coq_N list =
  List.init (String.length s) (fun i -> n_of_int (Char.code s.[i]))
let string_of_bytes (b : coq_N list) : string =
  String.concat "" (List.map (fun c -> String.make 1 (Char.chr (int_of_n c))) b)
let unhexname s = bytes_of_hex s

(* metadata file: "anns <hex>*" and "meta <id> <namehex> <top> <fun> <maybe> <origin2> <tl2> <utag> <annhex>*" *)
let (all_anns, metas) =
  if Array.length Sys.argv < 3 then ([], []) else begin
    let ic = open_in Sys.argv.(2) in
    let anns = ref [] and ms = ref [] in
    (try while true do
       match split_ws (input_line ic) with
       | "anns" :: l -> anns := List.map unhexname l
       | "meta" :: _id :: name :: top :: fn :: mb :: o2 :: tl2 :: utag :: al ->
           ms := { m_name = unhexname name; m_top = (top = "1"); m_fun = (fn = "1"); m_maybe = (mb = "1");
                   m_origin2 = (o2 = "1"); m_tl2 = (tl2 = "1"); m_utag = n_of_dec utag;
                   m_anns = List.map unhexname al } :: !ms
       | [] -> ()
       | l -> failwith ("bad meta line " ^ String.concat " " l)
     done with End_of_file -> ());
    close_in ic;
    (!anns, List.rev !ms)
  end

let reg = lazy (registry all_anns schema metas)
let cands = lazy (cands_from all_anns O schema metas)
let fuel_for (b : coq_N list) = nat_of_int (64 + 4 * List.length b)
let b01 b = if b then "true" else "false"
let tag8 (t : coq_N) = Printf.sprintf "%08x" (int_of_n t)
let opt_name = function Some n -> string_of_bytes n | None -> "none"

let rec split_bar (toks : string list) (acc : string list) : string list * string list =
  match toks with
  | "|" :: rest -> (List.rev acc, rest)
  | t :: rest -> split_bar rest (t :: acc)
  | [] -> (List.rev acc, [])

let show_dres = function
  | None -> "fuel"
  | Some Eof -> "eof"
  | Some Reject -> "reject"
  | Some (Ok _) -> "ok"

let fresh_name (it : item) = opt_name (obj_name schema metas it.it_ty (fresh_value schema it.it_ty))
let fresh_tag (it : item) =
  match obj_tag schema it.it_ty (fresh_value schema it.it_ty) with Some t -> tag8 t | None -> "none"

let show_item (it : item) : string =
  let r = Lazy.force reg in
  let bits = String.concat "" (List.mapi (fun i _ -> if ann_flag it.it_ann (nat_of_int i) then "1" else "0") all_anns) in
  let tagrt = (match by_tag r it.it_tag with
               | None -> "none"
               | Some it' -> if bytes_eqb it'.it_name it.it_name then "same" else "other:" ^ string_of_bytes it'.it_name) in
  let namert = (match by_name r it.it_name with
                | None -> "none"
                | Some it' -> if it' = it then "same" else "other") in
  let factag = (match by_tag r it.it_tag with None -> "none" | Some it' -> fresh_name it') in
  Printf.sprintf "ok %s %s fun=%s tl1=%s tl2=%s ann=%s/%d namert=%s tagrt=%s obj=%s,%s fn=%s facname=%s factag=%s facfn=%s"
    (string_of_bytes it.it_name) (tag8 it.it_tag) (b01 it.it_fun) (b01 it.it_tl1) (b01 it.it_tl2)
    (if bits = "" then "-" else bits) (List.length all_anns) namert tagrt (fresh_name it) (fresh_tag it)
    (if it.it_fun then fresh_name it else "none") (fresh_name it) factag
    (if it.it_fun then fresh_name it else "none")

let run toks =
  match toks with
  | ["regcheck"] ->
      let c = Lazy.force cands in
      Printf.sprintf "ok wf=%s meta=%s anns=%s names=%s tags=%s cands=%d"
        (b01 (wf_schema schema)) (b01 (meta_okb schema metas)) (b01 (anns_okb all_anns))
        (b01 (names_okb c)) (b01 (tags_okb c)) (List.length c)
  | ["regcount"] -> "ok " ^ string_of_int (List.length (Lazy.force reg))
  | "regname" :: name :: _ ->
      (match by_name (Lazy.force reg) (bytes_of_string name) with Some it -> show_item it | None -> "none")
  | "regtag" :: tag :: _ ->
      (match by_tag (Lazy.force reg) (n_of_dec tag) with Some it -> show_item it | None -> "none")
  (* regbox <tid> <name> <hex> <seed|-> : the object holding the value whose boxed encoding is <hex>: name/tag it
     reports and the first 4 bytes it writes (Go obtains the object by reading <hex>, or by FillRandom(seed)) *)
  | ["regbox"; tid; _name; h; _seed] ->
      let b = bytes_of_hex h in
      let t = nat_of_int (int_of_string tid) in
      (match dec1 (fuel_for b) false schema t false [] b with
       | Some (Ok (v, _rest)) ->
           (match enc1 false schema t false [] v with
            | Some w ->
                let first4 = List.filteri (fun i _ -> i < 4) w in
                Printf.sprintf "ok %s %s %s" (opt_name (obj_name schema metas t v))
                  (match obj_tag schema t v with Some x -> tag8 x | None -> "none") (hex_of_bytes first4)
            | None -> "writeerr")
       | r -> show_dres r)
  (* enc <san> <tid> <name> <boxed> <ps..> | <value> : model writer on a given wire value *)
  | "enc" :: san :: tid :: _name :: boxed :: rest ->
      let (ps, vt) = split_bar rest [] in
      let (v, _) = parse_value vt in
      (match enc1 (san = "1") schema (nat_of_int (int_of_string tid)) (boxed = "0") (List.map n_of_dec ps) v with
       | Some b -> "ok " ^ hex_of_bytes b
       | None -> "none")
  | l -> "driver-error unknown op " ^ String.concat " " l

let () = each_line run
