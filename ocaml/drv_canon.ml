(* driver for the Canon model (C21, C23, C25): one operation per line.
     c23 <dump>                  -> <hex canon> <tag> <gen_crc> <wf>
     c21 <dump>                  -> <hex print1> <wf>
     c21tl <dump> <dump> ...     -> <hex print_tl>
     c25 <dump>                  -> <hex canon_line> <wf>
   <wf> = wf_comb (the hypothesis of the theorems, "1"/"0"; the implementation side always says 1)
     c25l <hex file> <dump> ...  -> <hex listing>          (file, dump pairs)
     bare256                     -> 256 x "0"/"1": bare_marker for the one-byte name b
   <dump> is the S-expression written by overlay/internal/tlast/verif_canon_test.go. *)
open Conv
open CanonModel

type sx = A of string | L of sx list

let tokenize (s : string) : string list =
  let toks = ref [] and buf = Buffer.create 16 in
  let flush () = if Buffer.length buf > 0 then (toks := Buffer.contents buf :: !toks; Buffer.clear buf) in
  String.iter (fun c ->
    match c with
    | '(' -> flush (); toks := "(" :: !toks
    | ')' -> flush (); toks := ")" :: !toks
    | ' ' | '\t' -> flush ()
    | c -> Buffer.add_char buf c) s;
  flush ();
  List.rev !toks

(* parses a sequence of s-expressions *)
let parse_all (toks : string list) : sx list =
  let rec items acc = function
    | [] -> (List.rev acc, [])
    | ")" :: r -> (List.rev acc, ")" :: r)
    | "(" :: r ->
        let (inner, r') = items [] r in
        (match r' with
         | ")" :: r'' -> items (L inner :: acc) r''
         | _ -> failwith "sexp: missing )")
    | a :: r -> items (A a :: acc) r in
  match items [] toks with
  | (l, []) -> l
  | _ -> failwith "sexp: unbalanced )"

let bad what = failwith ("dump: bad " ^ what)
let str_of = function A h -> bytes_of_hex h | _ -> bad "string"
let bool_of = function A "1" -> true | A "0" -> false | _ -> bad "bool"
let num_of = function A d -> n_of_dec d | _ -> bad "number"
let name_of = function L [A "N"; ns; nm] -> { n_ns = str_of ns; n_name = str_of nm } | _ -> bad "name"
let arith_of = function
  | L (A "a" :: res :: nums) -> { a_nums = List.map num_of nums; a_res = num_of res }
  | _ -> bad "arith"
let rec tref_of = function
  | L [A "t"; nm; bare; L (A "O" :: args)] -> TypeRef (name_of nm, List.map aot_of args, bool_of bare)
  | _ -> bad "typeref"
and aot_of = function
  | L [A "o"; isar; ar; t] -> Aot (bool_of isar, arith_of ar, tref_of t)
  | _ -> bad "aot"
let mask_of = function
  | A "-" -> None
  | L [A "m"; nm; bit] -> Some { m_name = str_of nm; m_bit = num_of bit }
  | _ -> bad "mask"
let scale_of = function
  | L [A "s"; isar; ar; sc] -> { s_isarith = bool_of isar; s_arith = arith_of ar; s_scale = str_of sc }
  | _ -> bad "scale"
let rec field_of = function
  | L [A "f"; nm; mask; excl; isrep; L [A "R"; rexp; sc; L (A "F" :: rep)]; t] ->
      Field (str_of nm, mask_of mask, bool_of excl, bool_of isrep, bool_of rexp, scale_of sc,
             List.map field_of rep, tref_of t)
  | _ -> bad "field"
let targ_of = function L [nm; isnat] -> { ta_name = str_of nm; ta_isnat = bool_of isnat } | _ -> bad "targ"
let comb_of = function
  | L [A "C"; builtin; isfunc; L (A "M" :: mods); nm; id; expl; L (A "A" :: targs); L (A "F" :: fields);
       L [A "D"; dn; L (A "S" :: dargs)]; fd] ->
      { c_builtin = bool_of builtin; c_isfunc = bool_of isfunc; c_mods = List.map str_of mods;
        c_name = name_of nm; c_id = num_of id; c_explicit = bool_of expl;
        c_targs = List.map targ_of targs; c_fields = List.map field_of fields;
        c_typedecl = { td_name = name_of dn; td_args = List.map str_of dargs }; c_funcdecl = tref_of fd }
  | _ -> bad "combinator"

let combs_of (toks : string list) : comb list = List.map comb_of (parse_all (tokenize (String.concat " " toks)))
let one_comb toks = match combs_of toks with [c] -> c | _ -> bad "op (one combinator expected)"

let rec pairs = function
  | [] -> []
  | A f :: c :: r -> (bytes_of_hex f, comb_of c) :: pairs r
  | _ -> bad "listing op"

let wf c = if wf_comb c then " 1" else " 0"

let run = function
  | "c23" :: d -> let c = one_comb d in
      hex_of_bytes (canon c) ^ " " ^ dec_of_n (tag c) ^ " " ^ dec_of_n (gen_crc c) ^ wf c
  | "c21" :: d -> let c = one_comb d in hex_of_bytes (print1 c) ^ wf c
  | "c21tl" :: d -> hex_of_bytes (print_tl (combs_of d))
  | "c25" :: d -> let c = one_comb d in hex_of_bytes (canon_line c) ^ wf c
  | "c25l" :: d -> hex_of_bytes (listing (pairs (parse_all (tokenize (String.concat " " d)))))
  | ["bare256"] ->
      String.concat "" (List.init 256 (fun b ->
        if bare_marker { n_ns = []; n_name = [byte_tab.(b)] } true then "1" else "0"))
  | l -> "driver-error unknown op " ^ (match l with x :: _ -> x | [] -> "")

let () = each_line run
