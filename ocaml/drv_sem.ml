(* driver for the semaphore model (C42): one sequential history per line, same protocol as
   overlay/internal/vkgo/pkg/semaphore/verif_sem_test.go (TestVerifSemSeq) *)
open Conv
open SemModel

let ids_of_events evs =
  List.filter_map (function EAdmit (Some id, _, _, _) -> Some (dec_of_n id) | _ -> None) evs

let join = function [] -> "-" | l -> String.concat "," l

let res_s = function
  | RFast -> "F" | RQueued -> "Q" | RDoomed -> "D" | RTry true -> "T1" | RTry false -> "T0"
  | ROk -> "K" | RPanic -> "P" | RErr -> "E" | RNone -> "N"

let dump buf r adm (s : state) =
  Buffer.add_char buf ' ';
  Buffer.add_string buf r; Buffer.add_char buf '|';
  Buffer.add_string buf (join adm); Buffer.add_char buf '|';
  Buffer.add_string buf (dec_of_z s.cur); Buffer.add_char buf '|';
  Buffer.add_string buf (dec_of_z s.size); Buffer.add_char buf '|';
  Buffer.add_string buf (join (List.map (fun (i, n) -> dec_of_n i ^ ":" ^ dec_of_z n) s.waiters));
  Buffer.add_char buf '|';
  Buffer.add_string buf (join (List.map (fun (i, _) -> dec_of_n i) s.doomed))

(* code_guard = the cancel-path guard of the current code (>=, F4 repaired) *)
let one s o = let ((s', r), ev) = step code_guard s o in (s', r, ev)

let run = function
  | "h" :: size0 :: toks ->
      let buf = Buffer.create 256 in
      Buffer.add_string buf "ok";
      let s = ref (init (z_of_dec size0)) in
      List.iter (fun tok ->
        let arg = String.sub tok 1 (String.length tok - 1) in
        let simple o =
          let (s', r, ev) = one !s o in
          s := s'; dump buf (res_s r) (ids_of_events ev) s' in
        match tok.[0] with
        | 'a' -> simple (OAcquire (z_of_dec arg))
        | 't' -> simple (OTry (z_of_dec arg))
        | 'r' -> simple (ORelease (z_of_dec arg))
        | 'f' -> simple (OForce (z_of_dec arg))
        | 's' -> simple (OResize (z_of_dec arg))
        | 'c' -> simple (OCancel (n_of_dec arg))
        | 'x' ->
            (* the cancel/admit race: Release(n) runs between ctx.Done() and the waiter's second
               critical section, i.e. the sequential history is release; cancel *)
            let i = String.index arg ':' in
            let n = z_of_dec (String.sub arg 0 i) in
            let k = n_of_dec (String.sub arg (i + 1) (String.length arg - i - 1)) in
            let (s1, r1, ev1) = one !s (ORelease n) in
            let (s2, r2, ev2) = one s1 (OCancel k) in
            s := s2; dump buf (res_s r1 ^ res_s r2) (ids_of_events (ev1 @ ev2)) s2
        | _ -> Buffer.add_string buf " bad-token") toks;
      Buffer.contents buf
  | "mix" :: _ ->
      (* concurrent mix: every hold is released at the end, so the quiescent state is cur = 0, empty queue *)
      let s = init (z_of_int 0) in
      "ok mix cur=" ^ dec_of_z s.cur ^ " q=" ^ string_of_int (List.length s.waiters) ^ " stuck=0"
  | l -> "driver-error unknown op " ^ String.concat " " l

let () = each_line run
