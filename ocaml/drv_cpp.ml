(* driver for the C++ runtime model (C31): one operation per line, same protocol as
   harness/cpp/primdriver.cpp.

   pr  <prim> <chunk> <hex>                        read one primitive; the connector hands out buffers of
                                                   <chunk> bytes (0 = the whole input at once)
        -> ok <value> <consumed> | eof | reject
   prn <prim> <chunk> <hexprefix> <n> <byte> <hexsuffix>   same, input = prefix ++ n * byte ++ suffix
   pw  <prim> <first>:<chunk>:<cap> <value>        write one primitive into an output connector with <cap>
                                                   bytes of room, first buffer <first> bytes, then <chunk> each,
                                                   all pre-filled with 0xAA
        -> ok <bytes> | writeerr
   pwn string <first>:<chunk>:<cap> <n> <byte>     same, value = n * byte
   rw1 <san> <tid> <name> <boxed> <hex>            (needs argv[1] = schema IR file) the generated-code model
                                                   cpp_rw1: read a fresh object, write it back
        -> ok <consumed> <hex> | ok <consumed> writeerr | eof | reject | fuel
   <prim> = nat | int | float | long | double | string | bool:<false tag>:<true tag>
   values: decimal raw bit pattern, hex (strings), 0/1 (bool); byte strings longer than 64 bytes are
   printed as #<len>:<sum of bytes>:<first 16 hex>:<last 16 hex> *)
open Conv
open BinNums
open Datatypes
open PrimModel
open Tl1Model
open CppModel
open CppCodecModel

let schema = lazy (Schema_io.load_schema Sys.argv.(1))

let show_bytes (bs : coq_N list) : string =
  let n = List.length bs in
  if n <= 64 then hex_of_bytes bs
  else begin
    let sum = List.fold_left (fun a b -> (a + int_of_n b) land 0xffffffff) 0 bs in
    let a = Array.of_list bs in
    let sub i k = hex_of_bytes (Array.to_list (Array.sub a i k)) in
    Printf.sprintf "#%d:%d:%s:%s" n sum (sub 0 16) (sub (n - 16) 16)
  end

let prim_of (s : string) : prim =
  match String.split_on_char ':' s with
  | ["nat"] -> PNat | ["int"] -> PInt | ["float"] -> PFloat | ["long"] -> PLong | ["double"] -> PDouble
  | ["string"] -> PString
  | ["bool"; f; t] -> PBool (n_of_dec f, n_of_dec t)
  | _ -> failwith ("bad prim " ^ s)

let show_value = function
  | VNum n -> dec_of_n n
  | VStr b -> show_bytes b
  | VBool b -> if b then "1" else "0"
  | _ -> "?"

let parse_value (p : prim) (s : string) : value =
  match p with
  | PString -> VStr (bytes_of_hex s)
  | PBool _ -> VBool (s = "1")
  | _ -> VNum (n_of_dec s)

let rec rep n x acc = if n <= 0 then acc else rep (n - 1) x (x :: acc)

let do_read p chunk (input : coq_N list) : string =
  let s = istream_chunked (nat_of_int chunk) input in
  match iobs (cpp_read_prim p s) with
  | Ok (v, rest) -> "ok " ^ show_value v ^ " " ^ string_of_int (List.length input - List.length rest)
  | Eof -> "eof"
  | Reject -> "reject"

(* the buffers of the output connector of primdriver.cpp *)
let out_blocks (spec : string) : coq_N list list =
  match List.map int_of_string (String.split_on_char ':' spec) with
  | [first; chunk; cap] ->
      let garbage k = rep k (n_of_int 0xAA) [] in
      let rec go left k acc =
        if left <= 0 then List.rev acc
        else let k' = if k <= 0 then left else min k left in go (left - k') chunk (garbage k' :: acc) in
      go cap (if first > 0 then first else chunk) []
  | _ -> failwith ("bad blocks " ^ spec)

let do_write p spec (v : value) : string =
  let o = { o_done = []; o_buf = []; o_more = out_blocks spec; o_err = None } in
  match cpp_write_prim p v o with
  | None -> "driver-error value does not fit the primitive"
  | Some r -> (match oobs r with Some b -> "ok " ^ show_bytes b | None -> "writeerr")

let run = function
  | ["pr"; p; chunk; h] -> do_read (prim_of p) (int_of_string chunk) (bytes_of_hex h)
  | ["prn"; p; chunk; pre; n; byte; suf] ->
      let body = rep (int_of_string n) (List.hd (bytes_of_hex byte)) (bytes_of_hex suf) in
      do_read (prim_of p) (int_of_string chunk) (List.rev_append (List.rev (bytes_of_hex pre)) body)
  | ["pw"; p; spec; v] -> let p = prim_of p in do_write p spec (parse_value p v)
  | ["pwn"; "string"; spec; n; byte] ->
      do_write PString spec (VStr (rep (int_of_string n) (List.hd (bytes_of_hex byte)) []))
  | ["rw1"; _san; tid; _name; boxed; h] ->
      let b = bytes_of_hex h in
      (match cpp_rw1 (nat_of_int (64 + 4 * List.length b)) (Lazy.force schema) (nat_of_int (int_of_string tid)) (boxed = "0") b with
       | CRwOk (consumed, Some w) -> "ok " ^ string_of_int (int_of_nat consumed) ^ " " ^ hex_of_bytes w
       | CRwOk (consumed, None) -> "ok " ^ string_of_int (int_of_nat consumed) ^ " writeerr"
       | CRwEof -> "eof"
       | CRwReject -> "reject"
       | CRwFuel -> "fuel")
  | l -> "driver-error unknown op " ^ String.concat " " l

let () = each_line run
