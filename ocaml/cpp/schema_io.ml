(* Loader for the schema IR file written by lib/schema_ir.py from the kernel dump, and the
   textual value syntax shared with the Go/Python side.  Trusted glue. *)
open Conv
open Tl1Model

let parse_natarg (s : string) : natarg =
  match String.split_on_char ':' s with
  | ["num"; n] -> NNum (n_of_dec n)
  | ["field"; i] -> NField (nat_of_int (int_of_string i))
  | ["param"; i] -> NParam (nat_of_int (int_of_string i))
  | _ -> failwith ("bad natarg " ^ s)

(* field <ty> <bare> <mask> <nargs> <args...> ; mask = - | <natarg>@<bit> *)
let parse_field (toks : string list) : field =
  match toks with
  | "field" :: ty :: bare :: mask :: _nargs :: args ->
      let m = if mask = "-" then None else
        (match String.split_on_char '@' mask with
         | [a; bit] -> Some (parse_natarg a, n_of_dec bit)
         | _ -> failwith "bad mask") in
      { f_ty = nat_of_int (int_of_string ty); f_bare = (bare = "1"); f_mask = m;
        f_args = List.map parse_natarg args }
  | _ -> failwith ("bad field line: " ^ String.concat " " toks)

let parse_prim (toks : string list) : prim =
  match toks with
  | ["nat"] -> PNat | ["int"] -> PInt | ["float"] -> PFloat
  | ["long"] -> PLong | ["double"] -> PDouble | ["string"] -> PString
  | ["bool"; f; t] -> PBool (n_of_dec f, n_of_dec t)
  | _ -> PNoTL1

let load_schema (path : string) : tydef list =
  let ic = open_in path in
  let lines = ref [] in
  (try while true do lines := input_line ic :: !lines done with End_of_file -> ());
  close_in ic;
  let lines = List.rev !lines in
  let rec go (ls : string list) (acc : tydef list) : tydef list =
    match ls with
    | [] -> List.rev acc
    | l :: rest ->
        (match split_ws l with
         | [] -> go rest acc
         | "prim" :: _id :: p -> go rest (TPrim (parse_prim p) :: acc)
         | ["struct"; _id; tag; nf] ->
             let n = int_of_string nf in
             let rec take k ls fs = if k = 0 then (List.rev fs, ls) else
               (match ls with x :: r -> take (k - 1) r (parse_field (split_ws x) :: fs) | [] -> failwith "eof in struct") in
             let (fs, rest') = take n rest [] in
             go rest' (TStruct (n_of_dec tag, fs) :: acc)
         | "union" :: _id :: _nv :: vars ->
             go rest (TUnion (List.map (fun v -> nat_of_int (int_of_string v)) vars) :: acc)
         | ["array"; _id; kind] ->
             (match rest with
              | fl :: rest' ->
                  let k = (match String.split_on_char ':' kind with
                           | ["vector"] -> AVector | ["dyn"] -> ATupleDyn
                           | ["fixed"; n] -> ATupleFixed (n_of_dec n) | _ -> failwith "bad array kind") in
                  go rest' (TArray (k, parse_field (split_ws fl)) :: acc)
              | [] -> failwith "eof in array")
         | "dict" :: _id :: kp ->
             (match rest with
              | fl :: rest' -> go rest' (TDict (parse_prim kp, parse_field (split_ws fl)) :: acc)
              | [] -> failwith "eof in dict")
         | _ -> failwith ("bad schema line: " ^ l))
  in go lines []

(* value syntax: n<dec> | s<hex or -> | b0 | b1 | ( S <o>* ) | ( U <idx> <o>* ) | ( A <v>* ) ; o = _ | v *)
let rec parse_value (toks : string list) : value * string list =
  match toks with
  | "(" :: "S" :: rest -> let (fs, r) = parse_opts rest [] in (VStruct fs, r)
  | "(" :: "U" :: idx :: rest -> let (fs, r) = parse_opts rest [] in (VUnion (nat_of_int (int_of_string idx), fs), r)
  | "(" :: "A" :: rest -> let (es, r) = parse_vals rest [] in (VArr es, r)
  | t :: rest when String.length t > 0 && t.[0] = 'n' -> (VNum (n_of_dec (String.sub t 1 (String.length t - 1))), rest)
  | t :: rest when String.length t > 0 && t.[0] = 's' -> (VStr (bytes_of_hex (String.sub t 1 (String.length t - 1))), rest)
  | "b0" :: rest -> (VBool false, rest)
  | "b1" :: rest -> (VBool true, rest)
  | t :: _ -> failwith ("bad value token " ^ t)
  | [] -> failwith "unexpected end of value"
and parse_opts toks acc =
  match toks with
  | ")" :: rest -> (List.rev acc, rest)
  | "_" :: rest -> parse_opts rest (None :: acc)
  | _ -> let (v, r) = parse_value toks in parse_opts r (Some v :: acc)
and parse_vals toks acc =
  match toks with
  | ")" :: rest -> (List.rev acc, rest)
  | _ -> let (v, r) = parse_value toks in parse_vals r (v :: acc)

let rec print_value (buf : Buffer.t) (v : value) : unit =
  match v with
  | VNum n -> Buffer.add_string buf ("n" ^ dec_of_n n)
  | VStr s -> Buffer.add_string buf ("s" ^ hex_of_bytes s)
  | VBool b -> Buffer.add_string buf (if b then "b1" else "b0")
  | VStruct fs -> Buffer.add_string buf "( S"; List.iter (print_opt buf) fs; Buffer.add_string buf " )"
  | VUnion (i, fs) -> Buffer.add_string buf ("( U " ^ string_of_int (int_of_nat i)); List.iter (print_opt buf) fs; Buffer.add_string buf " )"
  | VArr es -> Buffer.add_string buf "( A"; List.iter (fun e -> Buffer.add_char buf ' '; print_value buf e) es; Buffer.add_string buf " )"
and print_opt buf o =
  Buffer.add_char buf ' ';
  match o with None -> Buffer.add_char buf '_' | Some v -> print_value buf v

let value_to_string v = let b = Buffer.create 64 in print_value b v; Buffer.contents b
