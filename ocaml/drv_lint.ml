(* driver for the Lint family (C24 tags, C28/C29/C30 linter): one operation per line *)
open Conv
open LintModel

(* OCaml string <-> Coq string (trusted glue) *)
let coq_of_char (c : char) : Ascii.ascii =
  let n = Char.code c in
  let b i = (n lsr i) land 1 = 1 in
  Ascii.Ascii (b 0, b 1, b 2, b 3, b 4, b 5, b 6, b 7)
let char_of_coq (Ascii.Ascii (b0, b1, b2, b3, b4, b5, b6, b7)) : char =
  let v b i = if b then 1 lsl i else 0 in
  Char.chr (v b0 0 + v b1 1 + v b2 2 + v b3 3 + v b4 4 + v b5 5 + v b6 6 + v b7 7)
let coq_of_string (s : string) : String0.string =
  let r = ref String0.EmptyString in
  for i = String.length s - 1 downto 0 do r := String0.String (coq_of_char s.[i], !r) done;
  !r
let string_of_coq (s : String0.string) : string =
  let b = Buffer.create 16 in
  let rec go = function
    | String0.EmptyString -> ()
    | String0.String (c, r) -> Buffer.add_char b (char_of_coq c); go r in
  go s; Buffer.contents b

(* ---- S-expressions over the token list *)
type sx = A of string | L of sx list
let rec parse_sx (toks : string list) : sx * string list =
  match toks with
  | [] -> failwith "sexp: unexpected end"
  | "(" :: r ->
      let rec items acc r =
        match r with
        | ")" :: r' -> (L (List.rev acc), r')
        | [] -> failwith "sexp: missing )"
        | _ -> let (x, r') = parse_sx r in items (x :: acc) r' in
      items [] r
  | ")" :: _ -> failwith "sexp: unexpected )"
  | a :: r -> (A a, r)

let atom_str = function
  | A s when String.length s >= 1 && s.[0] = '\'' -> coq_of_string (String.sub s 1 (String.length s - 1))
  | _ -> failwith "sexp: string atom expected"
let atom_bool = function A "1" -> true | A "0" -> false | _ -> failwith "sexp: bool expected"
let atom_n = function A s -> n_of_dec s | _ -> failwith "sexp: number expected"

let rec ty_of_sx = function
  | L [A "n"; v] -> TNat (atom_n v)
  | L (A "t" :: name :: bare :: args) -> TRef (atom_str name, atom_bool bare, List.map ty_of_sx args)
  | _ -> failwith "sexp: type expected"
let field_of_sx = function
  | L [A "f"; name; mask; rep; t] ->
      let m = (match mask with
               | A "-" -> None
               | L [A "m"; mn; bit] -> Some (atom_str mn, atom_n bit)
               | _ -> failwith "sexp: mask expected") in
      { f_name = atom_str name; f_mask = m; f_rep = atom_str rep; f_ty = ty_of_sx t }
  | _ -> failwith "sexp: field expected"
let targ_of_sx = function
  | L [A "a"; name; isnat] -> { ta_name = atom_str name; ta_nat = atom_bool isnat }
  | _ -> failwith "sexp: template argument expected"
let comb_of_sx = function
  | L [A "c"; name; tag; builtin; isfun; L targs; L fields; tname; res] ->
      { c_name = atom_str name; c_tag = atom_n tag; c_builtin = atom_bool builtin; c_fun = atom_bool isfun;
        c_targs = List.map targ_of_sx targs; c_fields = List.map field_of_sx fields;
        c_tname = atom_str tname; c_res = ty_of_sx res }
  | _ -> failwith "sexp: combinator expected"
let schema_of_sx = function
  | L cs -> List.map comb_of_sx cs
  | _ -> failwith "sexp: schema expected"

let code_name = function
  | RCtorRemoved -> "ctor-removed" | RCtorsRemoved -> "ctors-removed" | RUnionBare -> "union-bare"
  | RUnionCtor -> "union-ctor" | RFnRemoved -> "fn-removed" | RNewFnFirst -> "newfn-first"
  | RLessFields -> "less-fields" | RLessTArgs -> "less-targs" | RRefChanged -> "ref-changed"
  | RArgChanged -> "arg-changed" | RMaskAdded -> "mask-added" | RMaskRemoved -> "mask-removed"
  | RMaskRef -> "mask-ref" | RMaskBit -> "mask-bit" | RFnAppendNat -> "fn-append-nat"
  | RFnUnusedMask -> "fn-unused-mask" | RFnNewMaskUnused -> "fn-newmask-unused" | RNewNoMask -> "new-nomask"
  | RBitUsed -> "bit-used" | RAllBitsUsed -> "all-bits-used" | RRepChanged -> "rep-changed"
let show_verdict = function
  | Accept -> "accept" | Reject c -> "reject " ^ code_name c | Crash -> "crash"

(* tag entries: kind:'name:tag separated by commas; kind 1c/1f = TL1, 2 = TL2 *)
let tagents (s : string) : tagent list =
  if s = "-" then [] else
  List.map (fun e ->
    match String.split_on_char ':' e with
    | [k; name; tag] when String.length name >= 1 && name.[0] = '\'' ->
        { te_name = coq_of_string (String.sub name 1 (String.length name - 1)); te_tag = n_of_dec tag;
          te_kind = (if k = "2" then K2 else K1) }
    | _ -> failwith ("bad tag entry " ^ e)) (String.split_on_char ',' s)
let show_tagres = function
  | TagsOk -> "ok"
  | TagZero n -> "zero " ^ string_of_coq n
  | TagDup (n, t) -> "dup " ^ string_of_coq n ^ " " ^ dec_of_n t

let fixes_of = function
  | "cur" -> no_fixes
  | "fixed" -> all_fixes
  | s when String.length s = 3 ->
      { fx_bare = s.[0] = '1'; fx_args = s.[1] = '1'; fx_rep = s.[2] = '1' }
  | s -> failwith ("bad variant " ^ s)

let run = function
  | ["tags"; s] -> show_tagres (tags_check (tagents s))
  | ["ltags"; s] ->
      show_tagres (tags_check_legacy (List.map (fun e -> (e.te_name, e.te_tag)) (tagents s)))
  | "lint" :: variant :: rest ->
      let (o, rest) = parse_sx rest in
      let (n, rest) = parse_sx rest in
      if rest <> [] then failwith "lint: trailing tokens";
      show_verdict (lint_with (fixes_of variant) (schema_of_sx o) (schema_of_sx n))
  | l -> "driver-error unknown op " ^ String.concat " " (match l with x :: _ -> [x] | [] -> [])

let () = each_line run
