(* driver for M9 Frame (C35 packet framing) and M9b FrameHdr (C40 RPC headers): one operation per line.
   Same op lines as overlay/pkg/rpc/verif_frame_test.go; the output is the part of the Go result line in
   front of " | ".  Only glue lives here: parsing of op tokens, printing, cutting a stream by a chunk
   schedule; everything that is computed comes from the extracted Coq definitions. *)
open Conv
open BinNums
open PrimModel
open FrameModel
open FrameHdrModel

let split c s = String.split_on_char c s

(* ------------------------------------------------------------------ C35 *)

let poly_of = function "0" -> poly_ieee | _ -> poly_castagnoli

let mk_cfg pv enc crc = { c_pv = n_of_dec pv; c_enc = (enc = "1"); c_poly = poly_of crc }

(* Go-level ops -> model ops *)
let parse_ops (s : string) : wop list list =
  if s = "-" then [] else
  List.map (fun it ->
    match split ':' it with
    | ["F"] -> [WFlush]
    | ["P"; t; b] -> [WPkt { p_type = n_of_dec t; p_body = bytes_of_hex b }; WFlush]
    | ["N"; t; b] -> [WPkt { p_type = n_of_dec t; p_body = bytes_of_hex b }]
    | ["W"; t; b1; b2] -> [WPkt { p_type = n_of_dec t; p_body = bytes_of_hex b1 @ bytes_of_hex b2 }; WFlush]
    | _ -> failwith ("bad op " ^ it)) (split ',' s)

let parse_sched (s : string) : int list =
  if s = "-" then [] else List.map int_of_string (split ',' s)

(* cut [bs] into the chunks a connection with this schedule delivers to a reader that always asks for more
   than a chunk (the model reader is insensitive to the exact cut, see chunking_irrelevant) *)
let chunks_of (sched : int list) (bs : coq_N list) : coq_N list list =
  match sched with
  | [] -> [bs]
  | _ ->
    let arr = Array.of_list sched in
    let rec take k l acc = if k = 0 then (List.rev acc, l) else
        match l with [] -> (List.rev acc, []) | x :: r -> take (k - 1) r (x :: acc) in
    let rec go i l acc =
      match l with
      | [] -> List.rev acc
      | _ -> let (c, r) = take arr.(i mod Array.length arr) l [] in go (i + 1) r (c :: acc) in
    go 0 bs []

let recv_string (ps : packet list) : string =
  match ps with
  | [] -> "-"
  | _ -> String.concat ";" (List.map (fun p -> dec_of_n p.p_type ^ ":" ^ hex_of_bytes p.p_body) ps)

let verdict_string = function VEof -> "eof" | VUnexp -> "unexp" | VErr -> "err" | VFuel -> "fuel"

(* run the writer model op by op (to report the index of a failing write) *)
type 'a outcome2 = Done of 'a | Failed of int | Refused of string

let run_writer cfg seq0 (ops : wop list list) : coq_N list outcome2 =
  let st = ref { w_seq = seq0; w_pend = []; w_pos = N0 } in
  let out = ref [] in
  let rec go i = function
    | [] -> Done ()
    | o :: r ->
      (match write_ops cfg !st o with
       | None -> Failed i
       | Some (b, st') -> out := b :: !out; st := st'; go (i + 1) r) in
  match go 0 ops with
  | Failed i -> Failed i
  | Refused s -> Refused s
  | Done () ->
    (match write_ops cfg !st [WFlush] with
     | Some (b, _) -> Done (List.concat (List.rev (b :: !out)))
     | None -> failwith "flush failed")

(* toy involutive "cipher" to exercise the CBC layer and the encrypted chunked reader of the model *)
let toy (b : coq_N list) : coq_N list = List.rev_map (fun x -> BinNat.N.coq_lxor x (n_of_int 0xA5)) b
let toy_iv = List.init 16 (fun i -> n_of_int (i * 7 + 1))

let whole_blocks (bs : coq_N list) : coq_N list = List.concat (fst (blocks_of bs))

let stream_op corrupt f =
  match f with
  | pv :: enc :: crc :: seq0 :: _rb :: _wb :: sched :: ops :: rest ->
    let cfg = mk_cfg pv enc crc in
    let seq0 = z_of_dec seq0 in
    let sched = parse_sched sched in
    (match run_writer cfg seq0 (parse_ops ops) with
     | Failed i -> "werr " ^ string_of_int i
     | Refused s -> s
     | Done out ->
       if not cfg.c_enc then begin
         let wire =
           if corrupt then
             (match rest with
              | [off; x] ->
                let off = int_of_string off and x = n_of_dec x in
                if off >= List.length out then None
                else Some (List.mapi (fun i b -> if i = off then BinNat.N.coq_lxor b x else b) out)
              | _ -> failwith "corrupt: bad arguments")
           else Some out in
         match wire with
         | None -> "bad-offset"
         | Some wire ->
           let (ps, v) = read_chunked cfg seq0 (chunks_of sched wire) in
           (* redundant by chunking_irrelevant; kept as a cheap self-check of the extraction on small streams *)
           let (ps2, v2) = if List.length wire <= 1500 then read_stream cfg seq0 wire else (ps, v) in
           if (ps, v) <> (ps2, v2) then "model-selfcheck-failed chunked/flat"
           else if corrupt then Printf.sprintf "ok recv=%s end=%s" (recv_string ps) (verdict_string v)
           else Printf.sprintf "ok wire=%s recv=%s end=%s" (hex_of_bytes out) (recv_string ps) (verdict_string v)
       end else if corrupt then "ok enc"
       else begin
         let plain = whole_blocks out in
         let (ps, v) = read_stream cfg seq0 plain in
         (* the CBC layer and the decrypting chunked reader of the model, on a toy cipher (small streams) *)
         let small = List.length out <= 1500 in
         let wire = if small then wire_enc toy toy_iv out else [] in
         let (ps2, v2) = if small then read_cchunked toy cfg seq0 toy_iv (chunks_of sched wire) else (ps, v) in
         if (ps, v) <> (ps2, v2) || (small && wire_dec toy toy_iv wire <> plain) then "model-selfcheck-failed cbc"
         else Printf.sprintf "ok plain=%s recv=%s end=%s" (hex_of_bytes plain) (recv_string ps) (verdict_string v)
       end)
  | _ -> failwith "stream: bad arguments"

let hs_op f =
  match f with
  | [pvreq; enc; _rb; _wb; _sched; c2s; s2c] ->
    let pv = min (int_of_string pvreq) 2 in
    let cfg = { c_pv = n_of_int pv; c_enc = (enc = "1"); c_poly = poly_castagnoli } in
    let dir ops =
      match run_writer cfg Z0 (parse_ops ops) with
      | Failed i -> failwith ("write error " ^ string_of_int i)
      | Refused s -> failwith s
      | Done out ->
        let s = if cfg.c_enc then whole_blocks out else out in
        let (ps, v) = read_stream cfg Z0 s in
        (hex_of_bytes s, recv_string ps, verdict_string v) in
    let (a1, a2, a3) = dir c2s in
    let (b1, b2, b3) = dir s2c in
    Printf.sprintf "ok pv=%d/%d enc=%s crc=1/1 c2s=%s rc2s=%s ec2s=%s s2c=%s rs2c=%s es2c=%s" pv pv enc a1 a2 a3 b1 b2 b3
  | _ -> failwith "hs: bad arguments"

let readraw_op f =
  match f with
  | [pv; enc; crc; seq0; _rb; sched; h] ->
    let cfg = mk_cfg pv enc crc in
    let seq0 = z_of_dec seq0 in
    let data = bytes_of_hex h in
    let (ps, v) =
      if cfg.c_enc then read_stream cfg seq0 (whole_blocks data)
      else read_chunked cfg seq0 (chunks_of (parse_sched sched) data) in
    Printf.sprintf "ok recv=%s end=%s" (recv_string ps) (verdict_string v)
  | _ -> failwith "readraw: bad arguments"

let readplain_op f =
  match f with
  | [pv; enc; crc; seq0; h] ->
    let cfg = mk_cfg pv enc crc in
    let (ps, v) = read_stream cfg (z_of_dec seq0) (bytes_of_hex h) in
    Printf.sprintf "ok recv=%s end=%s" (recv_string ps) (verdict_string v)
  | _ -> failwith "readplain: bad arguments"

(* ------------------------------------------------------------------ C40 *)

let sub s = if s = "." then [] else bytes_of_hex s
let subhex b = match b with [] -> "." | _ -> hex_of_bytes b
let nd = n_of_dec
let dn = dec_of_n

let list_tok f s = if s = "-" then [] else List.map f (split ',' s)
let tok_list f l = match l with [] -> "-" | _ -> String.concat "," (List.map f l)

let kv_long s = match split ':' s with [k; v] -> (sub k, nd v) | _ -> failwith "bad k:v"
let kv_str s = match split ':' s with [k; v] -> (sub k, sub v) | _ -> failwith "bad k:v"

let parse_req_extra (f : string array) : req_extra =
  let pq = match split ':' f.(11) with
    | ["P"; a; b] -> PPrepare { u_lo = nd a; u_hi = nd b }
    | ["C"; a; b; c; d] -> PCommit ({ u_lo = nd a; u_hi = nd b }, { u_lo = nd c; u_hi = nd d })
    | _ -> failwith "bad persistent" in
  let tc = match split ':' f.(12) with
    | [m; lo; hi; p; s] -> { tc_mask = nd m; tc_id = { u_lo = nd lo; u_hi = nd hi }; tc_parent = nd p; tc_source = sub s }
    | _ -> failwith "bad trace" in
  { rq_flags = nd f.(0); rq_requester_id = nd f.(1);
    (* a Go map literal with repeated keys keeps the last one: same canonicalisation as the reader *)
    rq_wait_shards = dict_of (list_tok kv_long f.(2));
    rq_wait_binlog_pos = nd f.(3);
    rq_string_forward_keys = list_tok sub f.(4); rq_int_forward_keys = list_tok nd f.(5);
    rq_string_forward = sub f.(6); rq_int_forward = nd f.(7); rq_custom_timeout_ms = nd f.(8);
    rq_supported_compression = nd f.(9); rq_random_delay = nd f.(10); rq_persistent = pq; rq_trace = tc;
    rq_exec_ctx = sub f.(13) }

let req_extra_string (e : req_extra) : string =
  let pq = match e.rq_persistent with
    | PPrepare q -> Printf.sprintf "P:%s:%s" (dn q.u_lo) (dn q.u_hi)
    | PCommit (q, s) -> Printf.sprintf "C:%s:%s:%s:%s" (dn q.u_lo) (dn q.u_hi) (dn s.u_lo) (dn s.u_hi) in
  let t = e.rq_trace in
  String.concat " " [
    dn e.rq_flags; dn e.rq_requester_id;
    tok_list (fun (k, v) -> subhex k ^ ":" ^ dn v) e.rq_wait_shards;
    dn e.rq_wait_binlog_pos;
    tok_list subhex e.rq_string_forward_keys; tok_list dn e.rq_int_forward_keys;
    subhex e.rq_string_forward; dn e.rq_int_forward; dn e.rq_custom_timeout_ms; dn e.rq_supported_compression;
    dn e.rq_random_delay; pq;
    Printf.sprintf "%s:%s:%s:%s:%s" (dn t.tc_mask) (dn t.tc_id.u_lo) (dn t.tc_id.u_hi) (dn t.tc_parent) (subhex t.tc_source);
    subhex e.rq_exec_ctx ]

let parse_resp_extra (f : string array) : resp_extra =
  let p = match split ':' f.(3) with
    | [a; b; c] -> { pid_ip = nd a; pid_port_pid = nd b; pid_utime = nd c }
    | _ -> failwith "bad pid" in
  { rs_flags = nd f.(0); rs_binlog_pos = nd f.(1); rs_binlog_time = nd f.(2); rs_engine_pid = p;
    rs_request_size = nd f.(4); rs_response_size = nd f.(5); rs_failed_subqueries = nd f.(6);
    rs_compression_version = nd f.(7);
    rs_stats = dict_of (list_tok kv_str f.(8)); rs_shards_binlog_pos = dict_of (list_tok kv_long f.(9));
    rs_epoch_number = nd f.(10); rs_view_number = nd f.(11) }

let resp_extra_string (e : resp_extra) : string =
  let p = e.rs_engine_pid in
  String.concat " " [
    dn e.rs_flags; dn e.rs_binlog_pos; dn e.rs_binlog_time;
    Printf.sprintf "%s:%s:%s" (dn p.pid_ip) (dn p.pid_port_pid) (dn p.pid_utime);
    dn e.rs_request_size; dn e.rs_response_size; dn e.rs_failed_subqueries; dn e.rs_compression_version;
    tok_list (fun (k, v) -> subhex k ^ ":" ^ subhex v) e.rs_stats;
    tok_list (fun (k, v) -> subhex k ^ ":" ^ dn v) e.rs_shards_binlog_pos;
    dn e.rs_epoch_number; dn e.rs_view_number ]

let b01 b = if b then "1" else "0"

let parsed_req_string (q : parsed_req) : string =
  Printf.sprintf "%s %s %s %s %s %s" (dn q.q_id) (dn q.q_actor) (b01 q.q_tl2) (dn q.q_tag) (hex_of_bytes q.q_body)
    (req_extra_string q.q_extra)

let res_string f = function Ok a -> f a | Eof -> "eof" | Reject -> "reject"

let parsed_resp_string (a : parsed_resp) : string =
  let o = match a.a_out with
    | OBody b -> "B:" ^ hex_of_bytes b
    | OError (c, d, r) -> Printf.sprintf "E:%s:%s:%s" (dn c) (subhex d) (subhex r) in
  Printf.sprintf "%s %s %s" (dn a.a_id) o (resp_extra_string a.a_extra)

let err_tok s = if s = "-" then None else
    match split ':' s with [c; d] -> Some (nd c, sub d) | _ -> failwith "bad err"

let req_op (f : string array) =
  let tl2 = f.(2) = "1" in
  let e = parse_req_extra (Array.sub f 4 14) in
  match prepare_request (nd f.(0)) (nd f.(1)) e tl2 (bytes_of_hex f.(3)) with
  | None -> "toolarge"
  | Some w -> "ok " ^ hex_of_bytes w ^ " " ^ res_string parsed_req_string (parse_request w)

let resp_prepare qid mask tl2 body err e =
  match prepare_response qid mask tl2 e err body with
  | PNoResult -> Refused "noresult"
  | PTooLarge -> Refused "toolarge"
  | PWire w -> Done w

let resp_op (f : string array) =
  let tl2 = f.(2) = "1" in
  let e = parse_resp_extra (Array.sub f 5 12) in
  match resp_prepare (nd f.(0)) (nd f.(1)) tl2 (bytes_of_hex f.(3)) (err_tok f.(4)) e with
  | Refused s -> s
  | Failed _ -> "driver-error"
  | Done w -> "ok " ^ hex_of_bytes w ^ " " ^ res_string parsed_resp_string (parse_response tl2 w)

let rt_op (f : string array) =
  let tl2 = f.(2) = "1" in
  let e = parse_req_extra (Array.sub f 4 14) in
  match prepare_request (nd f.(0)) (nd f.(1)) e tl2 (bytes_of_hex f.(3)) with
  | None -> "toolarge"
  | Some w ->
    (match parse_request w with
     | Ok q ->
       let re = parse_resp_extra (Array.sub f 20 12) in
       let head = "ok " ^ hex_of_bytes w ^ " " ^ parsed_req_string q in
       (* the handler context answers with what it parsed: query id, flags of the extra, body format *)
       (match resp_prepare q.q_id q.q_extra.rq_flags q.q_tl2 (bytes_of_hex f.(18)) (err_tok f.(19)) re with
        | Refused s -> head ^ " " ^ s
        | Failed _ -> "driver-error"
        | Done rw -> head ^ " ok " ^ hex_of_bytes rw ^ " " ^ res_string parsed_resp_string (parse_response tl2 rw))
     | r -> "ok " ^ hex_of_bytes w ^ " " ^ res_string parsed_req_string r)

(* e2e n <33 tokens per call>: path (d direct | l longpoll, answered after FinishLongpoll | e longpoll, answered by
   SendEmptyResponse | c longpoll, cancelled by the client) + the 32 tokens of an rt op; every call is computed from
   its own tokens only *)
let e2e_call (g : string array) : string =
  let path = g.(0) in
  let f = Array.sub g 1 32 in
  let tl2 = f.(2) = "1" in
  let e = parse_req_extra (Array.sub f 4 14) in
  match prepare_request (nd f.(0)) (nd f.(1)) e tl2 (bytes_of_hex f.(3)) with
  | None -> "toolarge"
  | Some w ->
    (match parse_request w with
     | Ok q ->
       let seen = Printf.sprintf "%s %s %s %s %s" (dn q.q_actor) (b01 q.q_tl2) (dn q.q_tag) (hex_of_bytes q.q_body)
           (req_extra_string q.q_extra) in
       if path = "c" then seen ^ " => cancelled" else
       let re = parse_resp_extra (Array.sub f 20 12) in
       let respond = if path = "d" then respond_direct q else respond_longpoll q in
       (match respond re (err_tok f.(19)) (bytes_of_hex f.(18)) with
        | PNoResult -> seen ^ " => noresult"
        | PTooLarge -> seen ^ " => toolarge"
        | PWire rw ->
          (match parse_response tl2 rw with
           | Ok a ->
             let o = match a.a_out with
               | OBody b -> "B:" ^ hex_of_bytes b
               | OError (c, d, r) -> Printf.sprintf "E:%s:%s:%s" (dn c) (subhex d) (subhex r) in
             seen ^ " => " ^ o ^ " " ^ resp_extra_string a.a_extra
           | Eof -> seen ^ " => eof" | Reject -> seen ^ " => reject"))
     | Eof -> "eof" | Reject -> "reject")

let e2e_op (f : string list) : string =
  match f with
  | n :: rest ->
    let n = int_of_string n in
    let a = Array.of_list rest in
    "ok " ^ String.concat " ; " (List.init n (fun i -> e2e_call (Array.sub a (33 * i) 33)))
  | _ -> failwith "e2e: bad arguments"

(* lpfields <name> ...: which of the named members belong to what the longpoll record saves (handlerContextFields) *)
let hfield_name = function
  | HF_actorID -> "actorID" | HF_requestExtraFieldsmask -> "requestExtraFieldsmask" | HF_reqTag -> "reqTag"
  | HF_bodyFormatTL2 -> "bodyFormatTL2" | HF_noResult -> "noResult"

let lpfields_op (names : string list) : string =
  let saved = List.map hfield_name saved_fields in
  "ok " ^ String.concat " " (List.map (fun n -> n ^ "=" ^ (if List.mem n saved then "1" else "0")) names)

let run = function
  | "stream" :: f -> stream_op false f
  | "corrupt" :: f -> stream_op true f
  | "hs" :: f -> hs_op f
  | "readplain" :: f -> readplain_op f
  | "readraw" :: f -> readraw_op f
  | "req" :: f -> req_op (Array.of_list f)
  | ["preq"; h] -> (match parse_request (bytes_of_hex h) with Ok q -> "ok " ^ parsed_req_string q | Eof -> "eof" | Reject -> "reject")
  | ["presp"; tl2; h] ->
    (match parse_response (tl2 = "1") (bytes_of_hex h) with Ok a -> "ok " ^ parsed_resp_string a | Eof -> "eof" | Reject -> "reject")
  | "resp" :: f -> resp_op (Array.of_list f)
  | "rt" :: f -> rt_op (Array.of_list f)
  | "e2e" :: f -> e2e_op f
  | "lpfields" :: f -> lpfields_op f
  | l -> "driver-error unknown op " ^ String.concat " " l

let () = each_line run
