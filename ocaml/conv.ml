(* Conversions between OCaml values and the extracted Coq datatypes (trusted glue). *)
open BinNums
open Datatypes

let rec pos_of_int (i : int) : positive =
  if i = 1 then Coq_xH
  else if i land 1 = 0 then Coq_xO (pos_of_int (i lsr 1))
  else Coq_xI (pos_of_int (i lsr 1))

let n_of_int (i : int) : coq_N = if i = 0 then N0 else Npos (pos_of_int i)

let rec int_of_pos (p : positive) : int =
  match p with Coq_xH -> 1 | Coq_xO q -> 2 * int_of_pos q | Coq_xI q -> 2 * int_of_pos q + 1

(* only for values known to fit in 62 bits *)
let int_of_n (n : coq_N) : int = match n with N0 -> 0 | Npos p -> int_of_pos p

let z_of_int (i : int) : coq_Z =
  if i = 0 then Z0 else if i > 0 then Zpos (pos_of_int i) else Zneg (pos_of_int (-i))
let int_of_z (z : coq_Z) : int =
  match z with Z0 -> 0 | Zpos p -> int_of_pos p | Zneg p -> - (int_of_pos p)

let rec nat_of_int (i : int) : nat = if i <= 0 then O else S (nat_of_int (i - 1))
let rec int_of_nat (n : nat) : int =
  let rec go acc = function O -> acc | S m -> go (acc + 1) m in go 0 n

(* arbitrary-size decimal <-> N, through the extracted arithmetic *)
let ten = n_of_int 10
let n_of_dec (s : string) : coq_N =
  let acc = ref N0 in
  String.iter (fun c ->
    if c < '0' || c > '9' then failwith ("n_of_dec: " ^ s);
    acc := BinNat.N.add (BinNat.N.mul !acc ten) (n_of_int (Char.code c - 48))) s;
  !acc
let dec_of_n (n : coq_N) : string =
  if n = N0 then "0" else begin
    let buf = Buffer.create 20 in
    let cur = ref n in
    while !cur <> N0 do
      let (q, r) = BinNat.N.div_eucl !cur ten in
      Buffer.add_char buf (Char.chr (48 + int_of_n r));
      cur := q
    done;
    let s = Buffer.contents buf in
    let l = String.length s in
    String.init l (fun i -> s.[l - 1 - i])
  end
let z_of_dec (s : string) : coq_Z =
  if String.length s > 0 && s.[0] = '-' then
    BinInt.Z.opp (BinInt.Z.of_N (n_of_dec (String.sub s 1 (String.length s - 1))))
  else BinInt.Z.of_N (n_of_dec s)
let dec_of_z (z : coq_Z) : string =
  match z with
  | Z0 -> "0"
  | Zpos p -> dec_of_n (Npos p)
  | Zneg p -> "-" ^ dec_of_n (Npos p)

(* bytes <-> hex; "-" denotes the empty string so that fields never vanish *)
let byte_tab : coq_N array = Array.init 256 n_of_int
let hexv c =
  match c with
  | '0'..'9' -> Char.code c - 48
  | 'a'..'f' -> Char.code c - 87
  | 'A'..'F' -> Char.code c - 55
  | _ -> failwith "bad hex"
let bytes_of_hex (s : string) : coq_N list =
  if s = "-" then [] else begin
    let l = String.length s / 2 in
    let rec go i acc =
      if i < 0 then acc
      else go (i - 1) (byte_tab.(hexv s.[2 * i] * 16 + hexv s.[2 * i + 1]) :: acc) in
    go (l - 1) []
  end
let hex_of_bytes (bs : coq_N list) : string =
  match bs with
  | [] -> "-"
  | _ ->
    let buf = Buffer.create 64 in
    List.iter (fun b -> Buffer.add_string buf (Printf.sprintf "%02x" (int_of_n b))) bs;
    Buffer.contents buf

let bits_of_string (s : string) : bool list =
  if s = "-" then [] else List.init (String.length s) (fun i -> s.[i] = '1')
let string_of_bits (v : bool list) : string =
  match v with [] -> "-" | _ -> String.concat "" (List.map (fun b -> if b then "1" else "0") v)

let split_ws (s : string) : string list =
  List.filter (fun x -> x <> "") (String.split_on_char ' ' s)

(* run [f] on every line of stdin, printing one result line per input line *)
(* Per-operation time limit for the extracted model (seconds, environment variable VERIF_OP_LIMIT; unset or 0 = no limit; C01/C02/C11 set 10): the list-based model needs
   time proportional to decoded element counts, so a hostile count over zero-size elements (e.g. 3*10^9 x `true`) would
   otherwise run for hours.  Such an operation answers "crash model-timeout" and is not compared. *)
exception Model_timeout
let op_limit = (try float_of_string (Sys.getenv "VERIF_OP_LIMIT") with _ -> 0.0)
let arm () = if op_limit > 0.0 then ignore (Unix.setitimer Unix.ITIMER_REAL { Unix.it_interval = 0.0; Unix.it_value = op_limit })
let disarm () = ignore (Unix.setitimer Unix.ITIMER_REAL { Unix.it_interval = 0.0; Unix.it_value = 0.0 })

let each_line (f : string list -> string) : unit =
  Sys.set_signal Sys.sigalrm (Sys.Signal_handle (fun _ -> raise Model_timeout));
  (try
    while true do
      let line = input_line stdin in
      let out = (try (arm (); let r = f (split_ws line) in disarm (); r) with
                 | Model_timeout -> disarm (); "crash model-timeout"
                 | Stack_overflow -> disarm (); "model-stack-overflow"
                 | Failure m -> disarm (); "driver-error " ^ m) in
      print_string out; print_char '\n'; flush stdout
    done
  with End_of_file -> ());
  flush stdout
