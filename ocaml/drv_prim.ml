(* driver for M1 Prim (C33): one operation per line *)
open Conv
open PrimModel

let res2 f = function
  | Ok (a, r) -> "ok " ^ f a ^ " " ^ hex_of_bytes r
  | Eof -> "eof"
  | Reject -> "reject"

let run = function
  | ["str1_w"; h] ->
      (match str1_w (bytes_of_hex h) with Some b -> "ok " ^ hex_of_bytes b | None -> "none")
  | ["str1_r"; h] -> res2 hex_of_bytes (str1_r (bytes_of_hex h))
  | ["str1_rw"; h] ->
      (match str1_r (bytes_of_hex h) with
       | Ok (s, r) -> "ok " ^ hex_of_bytes s ^ " " ^ hex_of_bytes r ^ " " ^
                      (match str1_w s with Some b -> hex_of_bytes b | None -> "none")
       | Eof -> "eof" | Reject -> "reject")
  | ["size2_rw"; h] ->
      (match size2_r (bytes_of_hex h) with
       | Ok (n, r) -> "ok " ^ dec_of_n n ^ " " ^ hex_of_bytes r ^ " " ^ hex_of_bytes (size2_w n)
       | Eof -> "eof" | Reject -> "reject")
  | ["size2_w"; d] -> let n = n_of_dec d in
      "ok " ^ hex_of_bytes (size2_w n) ^ " " ^ dec_of_n (size2_len n)
  | ["size2_r"; h] -> res2 dec_of_n (size2_r (bytes_of_hex h))
  | ["str2_w"; h] -> "ok " ^ hex_of_bytes (str2_w (bytes_of_hex h))
  | ["str2_r"; h] -> res2 hex_of_bytes (str2_r (bytes_of_hex h))
  | ["bitvec_w"; bits] -> "ok " ^ hex_of_bytes (bitvec2_w (bits_of_string bits))
  | ["bitvec_r"; n; h] ->
      res2 string_of_bits (bitvec2_r (nat_of_int (int_of_string n)) (bytes_of_hex h))
  | ["nat_r"; h] -> res2 dec_of_n (nat_r (bytes_of_hex h))
  | ["long_r"; h] -> res2 dec_of_n (long_r (bytes_of_hex h))
  | ["bool1_r"; f; t; h] ->
      res2 (fun b -> if b then "true" else "false") (bool1_r (n_of_dec f) (n_of_dec t) (bytes_of_hex h))
  | l -> "driver-error unknown op " ^ String.concat " " l

let () = each_line run
