(* driver for the Algo model (C41): one history per line, one token per operation
   (same protocol as overlay/internal/vkgo/pkg/algo/verif_algo_test.go) *)
open Conv
open AlgoModel

let zs z = string_of_int (int_of_z z)
let arg s = String.sub s 1 (String.length s - 1)
let zint s = match int_of_string_opt s with Some i -> z_of_int i | None -> failwith ("bad int " ^ s)
let zarg s = zint (arg s)
let pair s =
  let a = arg s in
  match String.index_opt a ',' with
  | Some i -> (zint (String.sub a 0 i), zint (String.sub a (i + 1) (String.length a - i - 1)))
  | None -> failwith ("bad pair " ^ s)

let rec dump buf t =
  match t with
  | Leaf -> Buffer.add_char buf '.'
  | Node (l, k, v, h, r) ->
    Buffer.add_char buf '('; dump buf l;
    Buffer.add_string buf (Printf.sprintf ",%s:%s:%s," (zs k) (zs v) (zs h));
    dump buf r; Buffer.add_char buf ')'

exception Stop

let run_tree ops =
  let buf = Buffer.create 256 in
  let t = ref Leaf in
  let ok = ref true in
  (try
    List.iter (fun op ->
      Buffer.add_char buf ' ';
      let c = op.[0] in
      if c = 'D' then begin
        Buffer.add_char buf 'D'; dump buf !t;
        Buffer.add_string buf (";live=" ^ zs (size !t))
      end else begin
        let o = match c with
          | 's' -> let (k, v) = pair op in TSet (k, v)
          | 'd' -> TDel (zarg op)
          | 'u' -> let (k, v) = pair op in TUpd (k, v)
          | 'g' -> TGet (zarg op)
          | 'f' -> TFront | 'b' -> TBack | 'e' -> TEmpty | 'm' -> TMore1
          | _ -> failwith ("unknown tree op " ^ op) in
        match tree_step go_new_height !t o with
        | None -> Buffer.add_string buf "PANIC:tree"; ok := false; raise Stop
        | Some (t', ob) ->
          t := t';
          let cs = String.make 1 c in
          Buffer.add_string buf (match ob with
            | OUnit -> cs
            | OBool b -> cs ^ (if b then "1" else "0")
            | OVal None -> cs ^ "-"
            | OVal (Some v) -> cs ^ zs v
            | OEntry None -> cs ^ "!"
            | OEntry (Some (k, v)) -> cs ^ zs k ^ "," ^ zs v)
      end) ops
  with Stop -> ());
  (if !ok then "ok" else "bug") ^ Buffer.contents buf

let zlist l = String.concat "," (List.map zs l)
let panic_name = function
  | PEmpty -> "empty" | PIndexNeg -> "neg" | PIndexRange -> "range"
  | PInvReserve -> "inv-reserve" | PInvPush -> "inv-push" | PRuntime -> "runtime"

let zero = z_of_int 0

let run_ring ops =
  let buf = Buffer.create 256 in
  let st = ref (empty_ring, empty_ring) in
  let ok = ref true in
  (try
    List.iter (fun op ->
      Buffer.add_char buf ' ';
      let c = op.[0] in
      if c = 'D' then begin
        let (a, b) = !st in
        Buffer.add_string buf (Printf.sprintf "D%s,%s,[%s]/%s,%s,[%s]"
          (zs a.read_pos) (zs a.write_pos) (zlist a.elements)
          (zs b.read_pos) (zs b.write_pos) (zlist b.elements))
      end else begin
        let o = match c with
          | 'p' -> RPush (zarg op) | 'o' -> RPop | 'f' -> RFront | 'i' -> RIndex (zarg op)
          | 'r' -> RReserve (zarg op) | 'c' -> RClear | 'w' -> RSwap | 'a' -> RAssign
          | 'l' -> RLenCap | 'S' -> RSlices
          | _ -> failwith ("unknown ring op " ^ op) in
        match ring_step zero !st o with
        | Panic p -> Buffer.add_string buf ("PANIC:" ^ panic_name p); ok := false; raise Stop
        | Ok (st', ob) ->
          st := st';
          let cs = String.make 1 c in
          Buffer.add_string buf (match ob with
            | RUnit -> cs
            | RVal x -> cs ^ zs x
            | RMisuse p -> cs ^ "!" ^ panic_name p
            | RLC (l, cp) -> cs ^ zs l ^ "," ^ zs cp
            | RSl (s1, s2) -> cs ^ zlist s1 ^ "|" ^ zlist s2)
      end) ops
  with Stop -> ());
  (if !ok then "ok" else "bug") ^ Buffer.contents buf

let run = function
  | "T" :: ops -> run_tree ops
  | "R" :: ops -> run_ring ops
  | l -> "driver-error unknown line " ^ String.concat " " l

let () = each_line run
