(* driver for the Udp model (C36).
   stdin : the operation lines of the check (new <mode> <seed> | c <hex> | settle | flush | fuzz ...)
   argv 1: file with one line of *events* per operation line, as reported by the Go harness: the abstract
           inputs of the model (which message was submitted, how it was cut, which chunks were put into
           which datagram, which datagram was delivered / lost / duplicated, which acks were applied).
   One model instance per destination transport (connections into different transports share nothing);
   connection index inside an instance = source transport.
   Output per line: the same state projection the Go harness prints (mode d), "-" for the other modes. *)
open BinNums
open Conv
open UdpModel

let limit = sim_limit
let maxwin = sim_maxwin
let nt = int_of_nat sim_transports

let models : state array ref = ref [||]
let ids : int list array ref = ref [||]          (* ids.(dst): Go datagram ids, parallel to (st_net models.(dst)) *)
let where : (int, int) Hashtbl.t = Hashtbl.create 97 (* datagram id -> destination transport *)
let rolls : (int * int, int * int) Hashtbl.t = Hashtbl.create 97
let mode = ref 'd'
let errors : string list ref = ref []

let err s = errors := s :: !errors

let reset () =
  models := Array.init nt (fun _ -> init sim_transports);
  ids := Array.make nt [];
  Hashtbl.reset where;
  Hashtbl.reset rolls;
  errors := []

let ints_of s sep = List.map int_of_string (List.filter (fun x -> x <> "") (String.split_on_char sep s))

let net_len m = List.length (st_net m)

let index_of id l =
  let rec go i = function [] -> -1 | x :: r -> if x = id then i else go (i + 1) r in go 0 l

let rec remove_at i = function
  | [] -> []
  | x :: r -> if i = 0 then r else x :: remove_at (i - 1) r

let fnv (m : coq_N list) : int =
  List.fold_left (fun h b -> ((h lxor (int_of_n b)) * 16777619) land 0xffffffff) 2166136261 m

let digest m = Printf.sprintf "%d.%08x" (List.length m) (fnv m)

(* rolling content hash per connection, maintained incrementally: (dst, src) -> (messages hashed, hash) *)
let roll_step (roll : int) (m : coq_N list) : int =
  let h = ref 2166136261 in
  for i = 0 to 3 do h := ((!h lxor ((roll lsr (8 * i)) land 0xff)) * 16777619) land 0xffffffff done;
  List.iter (fun b -> h := ((!h lxor (int_of_n b)) * 16777619) land 0xffffffff) m;
  !h
let roll_of (dst : int) (src : int) (deliv : coq_N list list) : int =
  let (n0, r0) = (match Hashtbl.find_opt rolls (dst, src) with Some x -> x | None -> (0, 0)) in
  let rec drop k l = if k = 0 then l else (match l with [] -> [] | _ :: t -> drop (k - 1) t) in
  let r = List.fold_left roll_step r0 (drop n0 deliv) in
  Hashtbl.replace rolls (dst, src) (List.length deliv, r); r

let event (e : string) : unit =
  let kind = e.[0] in
  let body = String.sub e 1 (String.length e - 1) in
  let f = String.split_on_char ',' body in
  match kind, f with
  | 'S', [src; dst; h] ->
      let src = int_of_string src and dst = int_of_string dst in
      !models.(dst) <- submit (nat_of_int src) (bytes_of_hex h) !models.(dst)
  | 'C', [src; dst; sizes] ->
      let src = int_of_string src and dst = int_of_string dst in
      let m = !models.(dst) in
      let before = List.length (s_done (sndr (getc (nat_of_int src) m))) in
      let m' = slice (nat_of_int src) (List.map n_of_int (ints_of sizes '.')) m in
      if List.length (s_done (sndr (getc (nat_of_int src) m'))) <> before + 1 then err ("BADSLICE:" ^ e);
      !models.(dst) <- m'
  | 'W', [id; src; dst; first; count; payloads] ->
      let id = int_of_string id and src = int_of_string src and dst = int_of_string dst in
      let count = int_of_string count in
      if count > 0 then begin
        let m = !models.(dst) in
        let m' = send (nat_of_int src) (n_of_dec first) (n_of_int count) m in
        if net_len m' <> net_len m + 1 then err ("BADSEND:" ^ e)
        else begin
          (* the bytes on the wire under label first+i must be chunk first+i of the model's table *)
          let chunks = s_chunks (sndr (getc (nat_of_int src) m)) in
          let f0 = int_of_string first in
          let ds = String.split_on_char '/' payloads in
          if List.length ds <> count then err ("BADPAYLOADS:" ^ e)
          else List.iteri (fun i d ->
              match List.nth_opt chunks (f0 + i) with
              | Some ch -> if digest ch.c_data <> d then err (Printf.sprintf "LABEL-%d-CARRIES-OTHER-BYTES:%s" (f0 + i) e)
              | None -> err ("BADSEND:" ^ e)) ds;
          !models.(dst) <- m';
          !ids.(dst) <- !ids.(dst) @ [id];
          Hashtbl.replace where id dst
        end
      end
  | 'A', [sd_; rc_; p; ft; set] ->
      let sd_ = int_of_string sd_ and rc_ = int_of_string rc_ in
      let p = if p = "-" then N0 else BinNat.N.add (n_of_dec p) (n_of_int 1) in
      let range = if ft = "-" then [] else
          (match ints_of ft '-' with
           | [a; b] -> List.init (max 0 (b - a + 1)) (fun i -> n_of_int (a + i))
           | _ -> failwith "bad ack range") in
      let set = if set = "-" then [] else List.map n_of_int (ints_of set '.') in
      let m = !models.(rc_) in
      let m' = ack_emit (nat_of_int sd_) p (range @ set) m in
      if net_len m' <> net_len m + 1 then err ("BADACK:" ^ e)
      else !models.(rc_) <- deliver limit maxwin (nat_of_int (net_len m)) m'
  | 'R', [id] | 'L', [id] ->
      let id = int_of_string id in
      (match Hashtbl.find_opt where id with
       | None -> ()
       | Some dst ->
           let i = index_of id !ids.(dst) in
           if i < 0 then err ("UNKNOWN-DATAGRAM:" ^ e)
           else begin
             !models.(dst) <- (if kind = 'R' then deliver limit maxwin (nat_of_int i) !models.(dst)
                               else lose (nat_of_int i) !models.(dst));
             !ids.(dst) <- remove_at i !ids.(dst);
             Hashtbl.remove where id
           end)
  | 'D', [id; nid] ->
      let id = int_of_string id and nid = int_of_string nid in
      (match Hashtbl.find_opt where id with
       | None -> ()
       | Some dst ->
           let i = index_of id !ids.(dst) in
           if i < 0 then err ("UNKNOWN-DATAGRAM:" ^ e)
           else begin
             !models.(dst) <- dup (nat_of_int i) !models.(dst);
             !ids.(dst) <- !ids.(dst) @ [nid];
             Hashtbl.replace where nid dst
           end)
  | _ -> err ("BADEVENT:" ^ e)

let events (line : string) =
  if line <> "-" && line <> "" then
    List.iter (fun e -> if e <> "" then event e) (String.split_on_char ' ' line)

let lst = function [] -> "-" | l -> String.concat "," l

let state_of (t : int) : string =
  let m = !models.(t) in
  let q = List.map (fun w -> string_of_int (int_of_nat w) ^ ":" ^ dec_of_n (r_req (rcvr (getc w m)))) (st_wait m) in
  let ins = ref [] and outs = ref [] in
  for p = nt - 1 downto 0 do
    let r = rcvr (getc (nat_of_int p) m) in
    let nd = List.length (r_deliv r) in
    if not (r_prefix r = N0 && r_total r = N0 && nd = 0) then
      ins := (string_of_int p ^ ":" ^ dec_of_n (r_prefix r) ^ ":" ^ dec_of_n (r_total r) ^ ":" ^ string_of_int nd ^ ":" ^
              Printf.sprintf "%08x" (roll_of t p (r_deliv r))) :: !ins;
    let sd = sndr (getc (nat_of_int t) !models.(p)) in
    let nx = List.length (s_chunks sd) in
    if not (s_prefix sd = N0 && nx = 0) then
      outs := (string_of_int p ^ ":" ^ dec_of_n (s_prefix sd) ^ ":" ^ string_of_int nx) :: !outs
  done;
  "T" ^ string_of_int t ^ " m=" ^ dec_of_n (st_acq m) ^ " q=" ^ lst q ^ " in=" ^ lst !ins ^ " out=" ^ lst !outs

let final_of (ms : state array) : string =
  let parts = ref [] and mem = ref [] in
  for src = nt - 1 downto 0 do
    for dst = nt - 1 downto 0 do
      let d = r_deliv (rcvr (getc (nat_of_int src) ms.(dst))) in
      if d <> [] then
        parts := (string_of_int src ^ ">" ^ string_of_int dst ^ ":" ^ String.concat "," (List.map digest d)) :: !parts
    done
  done;
  for t = nt - 1 downto 0 do
    let m = ms.(t) in
    if not (st_acq m = N0 && st_wait m = []) then
      mem := (string_of_int t ^ ":" ^ dec_of_n (st_acq m) ^ ":" ^ string_of_int (List.length (st_wait m))) :: !mem
  done;
  "delivered=" ^ (match !parts with [] -> "-" | l -> String.concat ";" l) ^
  " mem=" ^ (match !mem with [] -> "0" | l -> String.concat "," l)

let with_errors s =
  match !errors with
  | [] -> s
  | l -> let r = "MODEL-REJECTS " ^ String.concat " " (List.rev l) ^ " :: " ^ s in errors := []; r

let evf = ref None
let next_events () =
  match !evf with
  | None -> "-"
  | Some ch -> (try input_line ch with End_of_file -> "-")

let run (f : string list) : string =
  let ev = next_events () in
  match f with
  | ["new"; m; _] -> mode := m.[0]; reset (); "ok"
  | ["c"; h] ->
      if !mode <> 'd' then "-"
      else begin
        events ev;
        if String.length h >= 4 then
          with_errors (state_of (int_of_string ("0x" ^ String.sub h 2 2) land (nt - 1)))
        else with_errors "-"
      end
  | ["settle"] | ["flush"] ->
      if !mode <> 'd' then "-"
      else begin
        (* the model's own fair completion, from the state before the implementation's settle phase *)
        let own = Array.map (fun m -> complete limit maxwin m) !models in
        let f2 = final_of own in
        events ev;
        let f1 = final_of !models in
        if f1 = f2 then with_errors f1
        else with_errors ("MODEL-COMPLETION-DIFFERS followed-implementation[" ^ f1 ^ "] own-completion[" ^ f2 ^ "]")
      end
  | "fuzz" :: _ -> "-"
  | l -> "driver-error unknown op " ^ String.concat " " l

let () =
  if Array.length Sys.argv > 1 then evf := Some (open_in Sys.argv.(1));
  reset ();
  each_line run
