(* driver for the Fmt2 model (C22): one operation per line.
     fmt <dump> <dump> ...   -> <hex fmt2 default_options file> <hex fmt2 canonical_options file>
     lex <hex text>          -> err | ok <kind>:<hex val> ...           (lex2)
     pty <hex text>          -> lexerr | omit | fail | ok <tref dump> <tokens left>   (parse_ty_bytes)
     trim <hex text>         -> <hex trim_space text>
     wf <dump>               -> <wf_comb default><wf_comb canonical> <wf2_comb default-bar><wf2_comb canonical-bar>   (hypotheses of C22_roundtrip)
     parse <hex text>        -> err | ok <dump> ...      (parse2: lex2, then the ParseTL2File model; comments erased)
   <dump> is the S-expression written by overlay/internal/tlast/verif_fmt2_test.go. *)
open Conv
open Fmt2Model
open Fmt2LexModel
open Fmt2ParseModel

type sx = A of string | L of sx list

let tokenize (s : string) : string list =
  let toks = ref [] and buf = Buffer.create 16 in
  let flush () = if Buffer.length buf > 0 then (toks := Buffer.contents buf :: !toks; Buffer.clear buf) in
  String.iter (fun c ->
    match c with
    | '(' -> flush (); toks := "(" :: !toks
    | ')' -> flush (); toks := ")" :: !toks
    | ' ' | '\t' -> flush ()
    | c -> Buffer.add_char buf c) s;
  flush ();
  List.rev !toks

let parse_all (toks : string list) : sx list =
  let rec items acc = function
    | [] -> (List.rev acc, [])
    | ")" :: r -> (List.rev acc, ")" :: r)
    | "(" :: r ->
        let (inner, r') = items [] r in
        (match r' with
         | ")" :: r'' -> items (L inner :: acc) r''
         | _ -> failwith "sexp: missing )")
    | a :: r -> items (A a :: acc) r in
  match items [] toks with
  | (l, []) -> l
  | _ -> failwith "sexp: unbalanced )"

let bad what = failwith ("dump: bad " ^ what)
let str_of = function A h -> bytes_of_hex h | _ -> bad "string"
let bool_of = function A "1" -> true | A "0" -> false | _ -> bad "bool"
let num_of = function A d -> n_of_dec d | _ -> bad "number"
let cmt_of = function L [A "c"; s] -> str_of s | _ -> bad "comment"
let name_of = function L [A "N"; ns; nm] -> { tn_ns = str_of ns; tn_name = str_of nm } | _ -> bad "name"
let rec tref_of = function
  | L (A "n" :: nm :: bare :: args) -> TApp (name_of nm, bool_of bare, List.map arg_of args)
  | L [A "b"; A "-"; e] -> TArr (tref_of e)
  | L [A "b"; i; e] -> TIdx (arg_of i, tref_of e)
  | _ -> bad "typeref"
and arg_of = function
  | L [A "#"; n] -> ANum (num_of n)
  | t -> ATy (tref_of t)
let field_of = function
  | L [A "f"; nm; opt; ign; c; t] ->
      { f_name = str_of nm; f_opt = bool_of opt; f_ign = bool_of ign; f_comment = cmt_of c; f_type = tref_of t }
  | _ -> bad "field"
let variant_of = function
  | L [A "v"; nm; c; L [A "a"; t]] -> { v_name = str_of nm; v_comment = cmt_of c; v_body = VAlias (tref_of t) }
  | L [A "v"; nm; c; L (A "f" :: fs)] -> { v_name = str_of nm; v_comment = cmt_of c; v_body = VFields (List.map field_of fs) }
  | _ -> bad "variant"
let def_of = function
  | L [A "a"; t] -> DAlias (tref_of t)
  | L (A "s" :: fs) -> DStruct (List.map field_of fs)
  | L (A "u" :: vs) -> DUnion (List.map variant_of vs)
  | _ -> bad "definition"
let param_of = function L [nm; isnat] -> { tp_name = str_of nm; tp_isnat = bool_of isnat } | _ -> bad "template argument"
let decl_of = function
  | L [A "T"; nm; magic; L (A "P" :: ps); d] -> DType (name_of nm, num_of magic, List.map param_of ps, def_of d)
  | L [A "F"; nm; magic; L (A "L" :: args); d] -> DFunc (name_of nm, num_of magic, List.map field_of args, def_of d)
  | _ -> bad "declaration"
let comb_of = function
  | L [A "C"; c; L (A "A" :: anns); d] -> { c_comment = cmt_of c; c_anns = List.map str_of anns; c_decl = decl_of d }
  | _ -> bad "combinator"

let combs_of (toks : string list) : comb list = List.map comb_of (parse_all (tokenize (String.concat " " toks)))

(* the same S-expression syntax as the Go harness writes *)
let dump_name n = "(N " ^ hex_of_bytes n.tn_ns ^ " " ^ hex_of_bytes n.tn_name ^ ")"
let rec dump_tref = function
  | TApp (nm, bare, args) ->
      "(n " ^ dump_name nm ^ " " ^ (if bare then "1" else "0") ^ String.concat "" (List.map (fun a -> " " ^ dump_arg a) args) ^ ")"
  | TArr e -> "(b - " ^ dump_tref e ^ ")"
  | TIdx (i, e) -> "(b " ^ dump_arg i ^ " " ^ dump_tref e ^ ")"
and dump_arg = function
  | ANum n -> "(# " ^ dec_of_n n ^ ")"
  | ATy t -> dump_tref t

let b01 b = if b then "1" else "0"
let dump_field f =
  " (f " ^ hex_of_bytes f.f_name ^ " " ^ b01 f.f_opt ^ " " ^ b01 f.f_ign ^ " (c " ^ hex_of_bytes f.f_comment ^ ") " ^ dump_tref f.f_type ^ ")"
let dump_fields fs = String.concat "" (List.map dump_field fs)
let dump_variant v =
  " (v " ^ hex_of_bytes v.v_name ^ " (c " ^ hex_of_bytes v.v_comment ^ ") " ^
  (match v.v_body with VAlias t -> "(a " ^ dump_tref t ^ ")" | VFields fs -> "(f" ^ dump_fields fs ^ ")") ^ ")"
let dump_def = function
  | DAlias t -> "(a " ^ dump_tref t ^ ")"
  | DStruct fs -> "(s" ^ dump_fields fs ^ ")"
  | DUnion vs -> "(u" ^ String.concat "" (List.map dump_variant vs) ^ ")"
let dump_comb c =
  "(C (c " ^ hex_of_bytes c.c_comment ^ ") (A" ^ String.concat "" (List.map (fun a -> " " ^ hex_of_bytes a) c.c_anns) ^ ") " ^
  (match c.c_decl with
   | DType (nm, magic, ps, d) ->
       "(T " ^ dump_name nm ^ " " ^ dec_of_n magic ^ " (P" ^
       String.concat "" (List.map (fun p -> " (" ^ hex_of_bytes p.tp_name ^ " " ^ b01 p.tp_isnat ^ ")") ps) ^ ") " ^ dump_def d
   | DFunc (nm, magic, args, d) ->
       "(F " ^ dump_name nm ^ " " ^ dec_of_n magic ^ " (L" ^ dump_fields args ^ ") " ^ dump_def d) ^ "))"

let first_byte = function [] -> 0 | b :: _ -> int_of_n b
let is_lc b = b >= 97 && b <= 122
let kind_of = function
  | KIdent (ns, nm) -> (if is_lc (first_byte nm) then "lc" else "uc") ^ (if ns = [] then "" else "ns")
  | KNum _ -> "num" | KCrc _ -> "crc" | KAnn _ -> "ann" | KDep _ -> "dep" | KType -> "type"
  | KNumSign -> "nsign" | KUnderscore -> "p95" | KFunEq -> "funeq" | KAlias -> "alias"
  | KP c -> "p" ^ string_of_int (int_of_n c)

let run = function
  | "fmt" :: d ->
      let f = combs_of d in
      hex_of_bytes (fmt2 default_options f) ^ " " ^ hex_of_bytes (fmt2 canonical_options f)
  | ["lex"; h] ->
      (match lex2 (bytes_of_hex h) with
       | None -> "err"
       | Some ts -> String.concat " " ("ok" :: List.map (fun t -> kind_of t ^ ":" ^ hex_of_bytes (tok_val t)) ts))
  | ["pty"; h] ->
      (match parse_ty_bytes (bytes_of_hex h) with
       | None -> "lexerr"
       | Some POmit -> "omit"
       | Some PFail -> "fail"
       | Some (POk (t, rest)) -> "ok " ^ dump_tref t ^ " " ^ string_of_int (List.length rest))
  | "wf" :: d ->
      (match combs_of d with
       | [c] ->
           let b x = if x then "1" else "0" in
           b (Fmt2PrintProofs.wf_comb default_options c) ^ b (Fmt2PrintProofs.wf_comb canonical_options c) ^ " " ^
           b (Fmt2ParseProofs.wf2_comb (Fmt2PrintProofs.comb_bar default_options c) c) ^
           b (Fmt2ParseProofs.wf2_comb (Fmt2PrintProofs.comb_bar canonical_options c) c)
       | _ -> bad "op (one combinator expected)")
  | ["parse"; h] ->
      (match parse2 (bytes_of_hex h) with
       | None -> "err"
       | Some cs -> String.concat " " ("ok" :: List.map dump_comb cs))
  | ["trim"; h] -> hex_of_bytes (trim_space (bytes_of_hex h))
  | l -> "driver-error unknown op " ^ (match l with x :: _ -> x | [] -> "")

let () = each_line run
