(* driver for M10 Outdir (C16, C15): one operation per line.

   hist <variant> <out> <marker> <init> <steps>
     variant  pure | legacy | legacycpp   (e2e:<id> = pure, e2elp:<id> = legacy, e2elc:<id> = legacycpp:
              the implementation side runs the real generator binaries)
     out      path of the output directory inside the sandbox root ("a/b"; "." = root)
     marker   marker file name relative to out (ignored for the legacy variants)
     init     "-" or comma list of  d:<path> | f:<path>:<hex>
     steps    ';' list of  g:<mc hex>:<items>   items = "-" or comma list of <name>=<hex>
                           m:<muts>             muts  = comma list of d:<path> | f:<path>:<hex> | x:<path>
   -> results joined by " | ":  init <dump> first, then per step  ok <dump> | refused <dump> | failed (stops) | m <dump>
      dump = "-" or comma list, sorted: "<path>/" (dir)  "<path>=<hex>@w" (written in this step) "@k" (kept)
   walk <ext> <roots> <tree>   -> ok <comma list> | err
   consts                      -> names the Go code must agree on *)
open Conv
open OutdirModel

let str_of_string (s : string) : str = List.init (String.length s) (fun i -> byte_tab.(Char.code s.[i]))
let string_of_str (s : str) : string =
  let b = Buffer.create 16 in
  List.iter (fun c -> Buffer.add_char b (Char.chr (int_of_n c))) s;
  Buffer.contents b

let path_of_string (s : string) : path =
  if s = "." then [] else List.map str_of_string (String.split_on_char '/' s)
let string_of_path (p : path) : string =
  match p with [] -> "." | _ -> String.concat "/" (List.map string_of_str p)

let split c s = if s = "-" || s = "" then [] else String.split_on_char c s

let f_rmall (_ : node option) : node option option = Some None

(* foreign modification of the tree (not part of the code under test) *)
let apply_mut (root : node) (m : string) : node =
  match String.split_on_char ':' m with
  | ["d"; p] -> (match os_mkdir_all root (path_of_string p) with Some r -> r | None -> root)
  | ["f"; p; h] ->
      let pp = path_of_string p in
      (match os_mkdir_all root (List0.removelast pp) with
       | None -> root   (* impossible modifications are skipped, as in the Go harness *)
       | Some root -> (match os_write_file root pp (bytes_of_hex h) N0 with Some r -> r | None -> root))
  | ["x"; p] -> (match alter f_rmall root (path_of_string p) with Some r -> r | None -> root)
  | _ -> failwith ("bad mutation " ^ m)

let dump (root : node) (now : BinNums.coq_N) : string =
  let acc = ref [] in
  let rec go (pre : string) (n : node) =
    match n with
    | File (c, st) -> acc := (pre ^ "=" ^ hex_of_bytes c ^ (if st = now then "@w" else "@k")) :: !acc
    | Dir ch ->
        if pre <> "" then acc := (pre ^ "/") :: !acc;
        List.iter (fun (x, m) -> go (if pre = "" then string_of_str x else pre ^ "/" ^ string_of_str x) m) ch in
  go "" root;
  match List.sort compare !acc with [] -> "-" | l -> String.concat "," l

let parse_items (s : string) : (path * str) list =
  List.map (fun it ->
    match String.split_on_char '=' it with
    | [n; h] -> (path_of_string n, bytes_of_hex h)
    | _ -> failwith ("bad item " ^ it)) (split ',' s)

let run_hist variant out marker init steps =
  let out = path_of_string out and marker = path_of_string marker in
  let root = List.fold_left apply_mut (Dir []) (split ',' init) in
  let res = Buffer.create 256 in
  let add s = if Buffer.length res > 0 then Buffer.add_string res " | "; Buffer.add_string res s in
  let never = n_of_int (1 lsl 60) in
  add ("init " ^ dump root never);
  let rec go root i = function
    | [] -> ()
    | s :: rest ->
      let now = n_of_int i in
      (match String.index_opt s ':' with
       | Some 1 when s.[0] = 'm' ->
           let root = List.fold_left apply_mut root (split ',' (String.sub s 2 (String.length s - 2))) in
           add ("m " ^ dump root never); go root (i + 1) rest
       | Some 1 when s.[0] = 'g' ->
           (match String.split_on_char ':' s with
            | [_; mc; items] ->
                let gen = parse_items items in
                let v = List.hd (String.split_on_char ':' variant) in
                let r = (match v with
                  | "pure" | "e2e" -> outdir_write keep_none root out gen marker now
                  | "legacy" | "e2elp" -> legacy_write keep_none root out gen (bytes_of_hex mc) now
                  | "legacycpp" | "e2elc" -> legacy_write keep_cpp root out gen (bytes_of_hex mc) now
                  | _ -> failwith "bad variant") in
                (match r with
                 | Ok fs -> add ("ok " ^ dump fs now); go fs (i + 1) rest
                 | Refused fs -> add ("refused " ^ dump fs now); go fs (i + 1) rest
                 | Failed _ -> add "failed")
            | _ -> failwith ("bad step " ^ s))
       | _ -> failwith ("bad step " ^ s)) in
  go root 1 (split ';' steps);
  Buffer.contents res

let run = function
  | ["hist"; variant; out; marker; init; steps] -> run_hist variant out marker init steps
  | ["walk"; ext; roots; tree] ->
      let root = List.fold_left apply_mut (Dir []) (split ',' tree) in
      (match walk_deterministic (str_of_string ext) root (List.map path_of_string (split ',' roots)) with
       | Some l -> "ok " ^ (match l with [] -> "-" | _ -> String.concat "," (List.map string_of_str l))
       | None -> "err")
  | ["consts"] ->
      "legacy_marker=" ^ string_of_str OutdirConsts.legacy_markerFile ^
      " gengo_marker=" ^ string_of_path gengo_marker ^
      " basictl=" ^ string_of_str gengo_basictl
  | l -> "driver-error unknown op " ^ String.concat " " l

let () = each_line run
