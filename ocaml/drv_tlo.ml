(* driver for the Tlo family: one operation per line.
   tlo <version> <now> <n> C ...     model of GenerateTLO on the combinators dumped by the overlay translator
   tlsir                              the Coq constant TloModel.tls_ir in the line format of lib/schema_ir.write_ir_file *)
open Conv
open BinNums
open Datatypes
open Tl1Model
open TloModel
open TloMigModel

let bool_of s = (s = "1")
let nat_int s = int_of_string s

(* token stream helpers *)
let take_n (n : int) (f : string list -> 'a * string list) (toks : string list) : 'a list * string list =
  let rec go k toks acc = if k = 0 then (List.rev acc, toks) else let (x, r) = f toks in go (k - 1) r (x :: acc) in
  go n toks []

let p_hex = function t :: r -> (bytes_of_hex t, r) | [] -> failwith "eof"
let p_targ = function n :: k :: r -> ({ ta_name = bytes_of_hex n; ta_nat = bool_of k }, r) | _ -> failwith "targ"
let p_field = function n :: v :: e :: r -> ({ cf_name = bytes_of_hex n; cf_natvar = bool_of v; cf_excl = bool_of e }, r) | _ -> failwith "field"

let p_comb (toks : string list) : comb * string list =
  match toks with
  | "C" :: name :: tag :: isf :: res :: arity :: nm :: r ->
      let (mods, r) = take_n (nat_int nm) p_hex r in
      (match r with
       | nt :: r ->
           let (targs, r) = take_n (nat_int nt) p_targ r in
           (match r with
            | nf :: r ->
                let (fields, r) = take_n (nat_int nf) p_field r in
                ({ c_name = bytes_of_hex name; c_tag = n_of_dec tag; c_fun = bool_of isf; c_res = bytes_of_hex res;
                   c_arity = n_of_dec arity; c_mods = mods; c_targs = targs; c_fields = fields }, r)
            | [] -> failwith "comb: fields")
       | [] -> failwith "comb: targs")
  | _ -> failwith "comb"

let hexs (b : coq_N list) = hex_of_bytes b
let dn = dec_of_n

let show_type (t : ttype) =
  String.concat " " [dn t.t_name; hexs t.t_id; dn t.t_cnum; dn t.t_flags; dn t.t_arity; dn t.t_ptype]

let show_rhs = function
  | RVar n -> "v " ^ dn n
  | RExpr (name, None) -> "e " ^ dn name ^ " -"
  | RExpr (name, Some l) ->
      String.concat " " (["e"; dn name; string_of_int (List.length l)] @
                         List.concat_map (fun (k, i) -> [(if k then "1" else "0"); dn i]) l)

let show_entry (e : centry) =
  String.concat " "
    (["E"; dn e.ce_name; hexs e.ce_id; dn e.ce_tname; dn e.ce_flags; (if e.ce_builtin then "1" else "0"); dn e.ce_argsnum;
      string_of_int (List.length e.ce_targs)] @
     List.concat_map (fun a -> [hexs a.ao_id; dn a.ao_flags; dn a.ao_var; dn a.ao_tname]) e.ce_targs @
     [string_of_int (List.length e.ce_fields)] @ List.map hexs e.ce_fields @ ["R"; show_rhs e.ce_right])

let show_desc (d : tlo_desc) =
  String.concat " "
    (["ok"; "V"; dn d.d_version; dn d.d_date; "T"; string_of_int (List.length d.d_types)] @ List.map show_type d.d_types @
     ["C"; string_of_int (List.length d.d_constructors)] @ List.map show_entry d.d_constructors @
     ["F"; string_of_int (List.length d.d_functions)] @ List.map show_entry d.d_functions)

(* tls_ir in the IR file format *)
let show_natarg = function
  | NNum n -> "num:" ^ dn n
  | NField i -> "field:" ^ string_of_int (int_of_nat i)
  | NParam i -> "param:" ^ string_of_int (int_of_nat i)
let show_field (f : field) =
  let m = match f.f_mask with None -> "-" | Some (a, bit) -> show_natarg a ^ "@" ^ dn bit in
  String.concat " " (["field"; string_of_int (int_of_nat f.f_ty); (if f.f_bare then "1" else "0"); m;
                      string_of_int (List.length f.f_args)] @ List.map show_natarg f.f_args)
let show_prim = function
  | PNat -> "nat" | PInt -> "int" | PFloat -> "float" | PLong -> "long" | PDouble -> "double" | PString -> "string"
  | PBool (f, t) -> "bool " ^ dn f ^ " " ^ dn t
  | PNoTL1 -> "notl1"
let show_tydef (i : int) = function
  | TPrim p -> [Printf.sprintf "prim %d %s" i (show_prim p)]
  | TStruct (tag, fs) -> Printf.sprintf "struct %d %s %d" i (dn tag) (List.length fs) :: List.map show_field fs
  | TUnion vs -> [String.concat " " (["union"; string_of_int i; string_of_int (List.length vs)] @ List.map (fun v -> string_of_int (int_of_nat v)) vs)]
  | TArray (k, ef) ->
      let ks = match k with AVector -> "vector" | ATupleDyn -> "dyn" | ATupleFixed n -> "fixed:" ^ dn n in
      [Printf.sprintf "array %d %s" i ks; show_field ef]
  | TDict (kp, ef) -> [Printf.sprintf "dict %d %s" i (show_prim kp); show_field ef]

(* C27: TL2 views (lib/tlo_lib.py: mig_view_lines) *)
let opt_n s = if s = "-" then None else Some (n_of_dec s)
let nat_s s = nat_of_int (int_of_string s)
let load_view (path : string) : mdef list =
  let ic = open_in path in
  let lines = ref [] in
  (try while true do lines := input_line ic :: !lines done with End_of_file -> ());
  close_in ic;
  let parse l =
    match split_ws l with
    | ["prim"; n] -> MPrim (bytes_of_hex n)
    | ["alias"; t] -> MAlias (nat_s t)
    | "struct" :: name :: uidx :: fn :: res :: nf :: rest ->
        let rec fields k toks acc =
          if k = 0 then List.rev acc else
          (match toks with
           | n :: bit :: isbit :: ty :: r ->
               fields (k - 1) r ({ mf_attr = { fa_name = bytes_of_hex n; fa_bit = opt_n bit; fa_isbit = (isbit = "1") }; mf_ty = nat_s ty } :: acc)
           | _ -> failwith "view: field") in
        MStruct ({ sa_name = bytes_of_hex name; sa_uidx = n_of_dec uidx; sa_fun = opt_n fn },
                 fields (int_of_string nf) rest [],
                 (if res = "-" then None else Some (nat_s res)))
    | "union" :: en :: mb :: nn :: rest ->
        let k = int_of_string nn in
        let names = List.filteri (fun i _ -> i < k) rest in
        (match List.filteri (fun i _ -> i >= k) rest with
         | _nv :: vs -> MUnion ({ ua_enum = (en = "1"); ua_maybe = (mb = "1"); ua_names = List.map bytes_of_hex names }, List.map nat_s vs)
         | [] -> failwith "view: union")
    | ["array"; fixed; e] -> MArray (opt_n fixed, nat_s e)
    | ["dict"; e] -> MDict (nat_s e)
    | _ -> failwith ("view: bad line " ^ l) in
  List.map parse (List.rev !lines)

let parse_pairs (toks : string list) : (nat * nat) list =
  List.map (fun t -> match String.split_on_char ',' t with
                     | [a; b] -> (nat_s a, nat_s b)
                     | _ -> failwith "pair") toks

let rec split_at_bar toks acc = match toks with
  | "|" :: r -> (List.rev acc, r)
  | t :: r -> split_at_bar r (t :: acc)
  | [] -> (List.rev acc, [])

let run toks =
  match toks with
  (* equiv <viewA> <viewB> <a,b>* | <root a,b>* : the certified checker on a candidate correspondence *)
  | "equiv" :: fa :: fb :: rest ->
      let (ps, rs) = split_at_bar rest [] in
      let a = load_view fa and b = load_view fb in
      let phi = parse_pairs ps and roots = parse_pairs rs in
      if not (roots_covered a b phi roots) then "ok false roots-not-covered"
      else if tl2_equiv a b phi then "ok true"
      else "ok false" ^ String.concat "" (List.map (fun (x, y) -> Printf.sprintf " %d,%d" (int_of_nat x) (int_of_nat y)) (all_bad a b phi))
  | "tlo" :: version :: now :: n :: rest ->
      let (cs, _) = take_n (nat_int n) p_comb rest in
      (match tlo (n_of_dec version) (n_of_dec now) cs with
       | Some d -> show_desc d
       | None -> "none")
  | ["tlsir"] -> "ok " ^ String.concat ";" (List.concat (List.mapi show_tydef tls_ir))
  | l -> "driver-error unknown op " ^ String.concat " " l

let () = each_line run
