(* driver for the schema-IR TL2 codec: argv[1] = schema IR file (lib/tl2_lib.py); one operation per line *)
open Conv
open BinNums
open Datatypes
open PrimModel
open Tl1Model
open Tl2Model
open Schema_io2
open Relax2

let schema = load_schema Sys.argv.(1)
let x = load_x ()
let fuel_for (b : coq_N list) = nat_of_int (64 + 8 * List.length b + 2 * List.length schema)
let tid s = nat_of_int (int_of_string s)

let show_err = function
  | None -> "fuel"
  | Some (Ok _) -> "ok"
  | Some _ -> "err"

let rewrite t v = match enc2 schema x t false v with Some w -> hex_of_bytes w | None -> "writeerr"

let rec split_bar (toks : string list) (acc : string list) : string list * string list =
  match toks with
  | "|" :: rest -> (List.rev acc, rest)
  | t :: rest -> split_bar rest (t :: acc)
  | [] -> (List.rev acc, [])

let run toks =
  match toks with
  (* enc <san> <tid> <name> <boxed> <ps..> | <value> : TL1 model writer on a given wire value (as drv_tl1) *)
  | "enc" :: san :: t :: _name :: boxed :: rest ->
      let (ps, vt) = split_bar rest [] in
      let (v, _) = parse_value vt in
      (match enc1 (san = "1") schema (tid t) (boxed = "0") (List.map n_of_dec ps) v with
       | Some b -> "ok " ^ hex_of_bytes b
       | None -> "none")
  | ["wf"] -> if wf2 schema x then "ok true" else "ok false"
  (* wfwhy: which instances fail which part of wf2 (diagnostics for the evidence) *)
  | ["wfwhy"] ->
      let bad = ref [] in
      List.iteri (fun i d ->
        let t = nat_of_int i in
        if not (tydef_ok2 schema x t d) then bad := (string_of_int i ^ ":side-info") :: !bad;
        (match d, dflt schema t with
         | TPrim PNoTL1, _ -> ()
         | _, None -> bad := (string_of_int i ^ ":no-finite-default") :: !bad
         | _ -> ())) schema;
      if not (wf_schema schema) then bad := "tl1-wf" :: !bad;
      "ok " ^ (if !bad = [] then "-" else String.concat "," (List.rev !bad))
  (* rw2 <tid> <name> <hex>: read TL2, then write back what was read *)
  | ["rw2"; t; _name; h] ->
      let b = bytes_of_hex h in
      let t = tid t in
      (match dec2 (fuel_for b) schema x t b with
       | Some (Ok (v, rest)) ->
           "ok " ^ string_of_int (List.length b - List.length rest) ^ " " ^ rewrite t v
       | r -> show_err r)
  (* val2 <tid> <name> <hex>: decoded value *)
  | ["val2"; t; _name; h] ->
      let b = bytes_of_hex h in
      (match dec2 (fuel_for b) schema x (tid t) b with
       | Some (Ok (v, rest)) -> "ok " ^ value_to_string v ^ " | " ^ hex_of_bytes rest
       | r -> show_err r)
  (* conv <san> <tid> <name> <boxed> <hex>: TL1 -> TL2 -> TL1 through the model *)
  | ["conv"; san; t; _name; boxed; h] ->
      let b = bytes_of_hex h in
      let t = tid t in
      let bare = (boxed = "0") in
      (match dec1 (fuel_for b) (san = "1") schema t bare [] b with
       | Some (Ok (v, rest)) ->
           let consumed = List.length b - List.length rest in
           (match enc2 schema x t false v with
            | None -> "ok " ^ string_of_int consumed ^ " writeerr2"
            | Some b2 ->
                (match dec2 (fuel_for b2) schema x t b2 with
                 | Some (Ok (v2, [])) ->
                     "ok " ^ string_of_int consumed ^ " " ^ hex_of_bytes b2 ^ " " ^
                     (match enc1 false schema t bare [] v2 with Some w -> hex_of_bytes w | None -> "writeerr1")
                 | Some (Ok (_, _)) -> "ok " ^ string_of_int consumed ^ " " ^ hex_of_bytes b2 ^ " trailing2"
                 | r -> "ok " ^ string_of_int consumed ^ " " ^ hex_of_bytes b2 ^ " read2-" ^ show_err r))
       | None -> "fuel"
       | Some _ -> "err1")
  (* reenc <tid> <name> <seed> <hex>: an admissible re-encoding of the value read from <hex>
     (untrusted generator ocaml/tl2/relax2.ml; its admissibility is what the model's reader and
     the Go reader are then asked about) *)
  | ["reenc"; t; _name; seed; h] ->
      let b = bytes_of_hex h in
      let t = tid t in
      (match dec2 (fuel_for b) schema x t b with
       | Some (Ok (v, [])) ->
           (match relax schema x (int_of_string seed) t v with
            | Some (b', kinds) -> "ok " ^ hex_of_bytes b' ^ " " ^ (if kinds = [] then "none" else String.concat "+" kinds)
            | None -> "none")
       | Some (Ok (_, _)) -> "trailing"
       | r -> show_err r)
  | l -> "driver-error unknown op " ^ String.concat " " l

let () = each_line run
