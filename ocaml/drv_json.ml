(* driver for the JSON mapping model (C05, C06): argv[1] = annotated schema IR file; one operation per line *)
open Conv
open BinNums
open PrimModel
open Tl1Model
open JprimModel
open JsonModel
open JsonAltModel
open Jschema_io

let js = load_jschema Sys.argv.(1)
(* argv[2] = "1": the TL1 reader under the default --checkLengthSanity (inputs Go refuses are refused here too) *)
let san = Array.length Sys.argv > 2 && Sys.argv.(2) = "1"
let schema = List.map fst js
let fuel_for (b : coq_N list) = nat_of_int (64 + 4 * List.length b)
let jfuel = nat_of_int 400

(* ---- float <-> text oracle: a table filled by "ftab" lines (texts produced by strconv on the Go side);
   texts outside the table are parsed with the C library (only reached by mutated inputs) ---- *)
let ftab : (bool * string, string) Hashtbl.t = Hashtbl.create 64      (* (is64, bits) -> text hex *)
let rtab : (bool * string, coq_N) Hashtbl.t = Hashtbl.create 64        (* (is64, text hex) -> bits *)
let wanted : (string, unit) Hashtbl.t = Hashtbl.create 16
let recording = ref false

let ffmt (is64 : bool) (b : coq_N) : coq_N list =
  let k = (is64, dec_of_n b) in
  match Hashtbl.find_opt ftab k with
  | Some h -> bytes_of_hex h
  | None ->
      Hashtbl.replace wanted ((if is64 then "64:" else "32:") ^ dec_of_n b) ();
      if !recording then [n_of_int 48] else failwith ("float text missing for " ^ dec_of_n b)

let string_of_bytes (l : coq_N list) = String.init (List.length l) (fun i -> Char.chr (int_of_n (List.nth l i)))

let number_like (s : string) =
  s <> "" && (let ok = ref true in
    String.iter (fun c -> match c with '0'..'9' | '-' | '+' | '.' | 'e' | 'E' -> () | _ -> ok := false) s; !ok)
  && (match s.[String.length s - 1] with '0'..'9' -> true | _ -> false)
  && (match s.[0] with '0'..'9' | '-' | '+' -> true | _ -> false)

let n_of_int64_bits (x : int64) : coq_N =
  n_of_dec (Printf.sprintf "%Lu" x)

let fparse (is64 : bool) (t : coq_N list) : coq_N option =
  match Hashtbl.find_opt rtab (is64, hex_of_bytes t) with
  | Some b -> Some b
  | None ->
      let s = string_of_bytes t in
      if not (number_like s) then None else
      (match float_of_string_opt s with
       | None -> None
       | Some x ->
           if is64 then (if Float.is_integer x || Float.is_finite x then Some (n_of_int64_bits (Int64.bits_of_float x)) else None)
           else
             let y = Int32.float_of_bits (Int32.bits_of_float x) in
             if Float.is_finite y then Some (n_of_dec (Printf.sprintf "%lu" (Int32.bits_of_float x))) else None)

let jw = jsonw ffmt js
let jr = jsonr fparse js jfuel

let rec split_bar (toks : string list) (acc : string list) : string list * string list =
  match toks with
  | "|" :: rest -> (List.rev acc, rest)
  | t :: rest -> split_bar rest (t :: acc)
  | [] -> (List.rev acc, [])

let tid s = nat_of_int (int_of_string s)

let decode t boxed h =
  let b = bytes_of_hex h in
  match dec1 (fuel_for b) san schema t (boxed = "0") [] b with
  | Some (Ok (v, [])) -> Some v
  | _ -> None

let tl1_boxed t v =
  match enc1 false schema t false [] v with Some w -> hex_of_bytes w | None -> "writeerr"

let show_res t (r : value jres) =
  match r with
  | JOk v -> "ok " ^ tl1_boxed t v
  | JReject -> "reject"
  | JUnrep -> "unrep"
  | JFuel -> "fuel"

let b01 b = if b then "1" else "0"

let run toks =
  match toks with
  | ["ftab"; w; bits; h] ->
      let is64 = (w = "64") in
      Hashtbl.replace ftab (is64, bits) h;
      Hashtbl.replace rtab (is64, h) (n_of_dec bits);
      "ok"
  (* floats <tid> <boxed> <tl1hex>: finite float bit patterns the writer needs texts for *)
  | ["floats"; t; boxed; h] ->
      (match decode (tid t) boxed h with
       | None -> "badtl1"
       | Some v ->
           Hashtbl.reset wanted; recording := true;
           (try ignore (jw (tid t) [] v) with _ -> ());
           recording := false;
           "ok " ^ String.concat "," (Hashtbl.fold (fun k () acc -> k :: acc) wanted []))
  (* jw1 <tid> <boxed> <tl1hex>: canonical JSON text of the decoded value; tree validity; text validity (Jprim recogniser) *)
  | ["jw1"; t; boxed; h] ->
      (match decode (tid t) boxed h with
       | None -> "badtl1"
       | Some v ->
           (match jw (tid t) [] v with
            | None -> "none"
            | Some j ->
                let txt = jprint j in
                "ok " ^ hex_of_bytes txt ^ " " ^ b01 (jvalid j) ^ " " ^ b01 (valid_json_text txt)))
  (* enc <tid> <boxed> | <value>: TL1 bytes of a wire value (the input of every other op) *)
  | "enc" :: t :: boxed :: "|" :: vt ->
      let (v, _) = parse_value vt in
      (match enc1 false schema (tid t) (boxed = "0") [] v with
       | Some b -> "ok " ^ hex_of_bytes b
       | None -> "none")
  (* jwv <tid> <ps..> | <value> *)
  | "jwv" :: t :: rest ->
      let (ps, vt) = split_bar rest [] in
      let (v, _) = parse_value vt in
      (match jw (tid t) (List.map n_of_dec ps) v with
       | None -> "none"
       | Some j -> "ok " ^ hex_of_bytes (jprint j) ^ " " ^ b01 (jvalid j))
  (* diag <tid> <boxed> <tl1hex>: which constructs of the value the JSON text cannot carry (side conditions of the
     round-trip theorem): 1 = -0.0 omitted, 2 = NaN payload, 3 = non-UTF-8 dict key (F9), 4 = dict key changed by the escaper *)
  | ["diag"; t; boxed; h] ->
      (match decode (tid t) boxed h with
       | None -> "badtl1"
       | Some v ->
           let l = List.sort_uniq compare (List.map int_of_n (jdiag js (tid t) [] false v)) in
           "ok " ^ (if l = [] then "-" else String.concat "," (List.map string_of_int l)))
  (* rt <tid> <boxed> <tl1hex>: model round trip: write, read back, TL1 boxed re-encoding *)
  | ["rt"; t; boxed; h] ->
      (match decode (tid t) boxed h with
       | None -> "badtl1"
       | Some v ->
           (match jw (tid t) [] v with
            | None -> "none"
            | Some j -> show_res (tid t) (jr (tid t) [] (Some j)) ^ " orig " ^ tl1_boxed (tid t) v))
  (* alt <tid> <boxed> <tl1hex> <seed>: an alternative spelling, the model's verdict and re-encoding *)
  | ["alt"; t; boxed; h; seed] ->
      (match decode (tid t) boxed h with
       | None -> "badtl1"
       | Some v ->
           (match jsonw_alt ffmt js true (n_of_dec seed) (tid t) [] v with
            | None -> "none"
            | Some j ->
                let canon = (match jw (tid t) [] v with Some c -> c = j | None -> false) in
                "ok " ^ hex_of_bytes (jprint j) ^ " " ^ b01 canon ^ " " ^ show_res (tid t) (jr (tid t) [] (Some j))))
  (* mut <tid> <boxed> <tl1hex> <seed>: a mutation of the canonical JSON *)
  | ["mut"; t; boxed; h; seed] ->
      (match decode (tid t) boxed h with
       | None -> "badtl1"
       | Some v ->
           (match jw (tid t) [] v with
            | None -> "none"
            | Some j0 ->
                let j = mutate (nat_of_int 6) (n_of_dec seed) j0 in
                "ok " ^ hex_of_bytes (jprint j) ^ " " ^ b01 (j = j0) ^ " " ^ show_res (tid t) (jr (tid t) [] (Some j))))
  (* mvar <tid> <boxed> <tl1hex> <seed>: every Maybe-like object of the tree (canonical spelling for an even seed, an
     alternative one otherwise) in every shape the Maybe reader has a rule for, both member orders; a window of at most 39 consecutive ones:
     ok <texthex>:<verdict words joined by ':'> ... *)
  | ["mvar"; t; boxed; h; seed] ->
      (match decode (tid t) boxed h with
       | None -> "badtl1"
       | Some v ->
           let sd = n_of_dec seed in
           let even = (match BinNat.N.div_eucl sd (n_of_int 2) with (_, r) -> r = N0) in
           let base = if even then jw (tid t) [] v else jsonw_alt ffmt js true sd (tid t) [] v in
           (match base with
            | None -> "none"
            | Some j0 ->
                let vs = jvariants j0 in
                let n = List.length vs in
                let win = 39 in
                let off = if n <= win then 0 else (int_of_string (String.sub seed (max 0 (String.length seed - 4)) (min 4 (String.length seed)))) mod (n - win + 1) in
                let sel = List.filteri (fun i _ -> i >= off && i < off + win) vs in
                let item j = hex_of_bytes (jprint j) ^ ":" ^ String.concat ":" (String.split_on_char ' ' (show_res (tid t) (jr (tid t) [] (Some j)))) in
                "ok " ^ string_of_int n ^ " " ^ String.concat " " (List.map item sel)))
  | ["wf"] -> if wf_jschema js then "ok true" else "ok false"
  | l -> "driver-error unknown op " ^ String.concat " " l

let () = each_line run
