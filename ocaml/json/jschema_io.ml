(* Loader for the annotated schema IR file written by lib/json_lib.py from the kernel dump (the Coq
   [jschema] of Json/JsonModel.v), and the textual value syntax shared with the Python side.  Trusted glue.

   prim <id> <prim tokens>
   struct <id> <tag> <nfields> <hasTL2 0|1> <typedef 0|1>
     jfield <namehex> <isbit 0|1> field <ty> <bare> <mask> <nargs> <args...>      (nfields lines)
   union <id> <nvariants> <hasTL2> <isEnum> <isMaybe> <variant ids...>
     vname <tlnamehex> <variantnamehex>                                         (nvariants lines)
   array <id> vector|dyn|fixed:<n>   + one field line
   dict <id> <key prim tokens>       + one field line *)
open Conv
open Tl1Model
open JsonModel

let parse_natarg (s : string) : natarg =
  match String.split_on_char ':' s with
  | ["num"; n] -> NNum (n_of_dec n)
  | ["field"; i] -> NField (nat_of_int (int_of_string i))
  | ["param"; i] -> NParam (nat_of_int (int_of_string i))
  | _ -> failwith ("bad natarg " ^ s)

let parse_field (toks : string list) : field =
  match toks with
  | "field" :: ty :: bare :: mask :: _nargs :: args ->
      let m = if mask = "-" then None else
        (match String.split_on_char '@' mask with
         | [a; bit] -> Some (parse_natarg a, n_of_dec bit)
         | _ -> failwith "bad mask") in
      { f_ty = nat_of_int (int_of_string ty); f_bare = (bare = "1"); f_mask = m;
        f_args = List.map parse_natarg args }
  | _ -> failwith ("bad field line: " ^ String.concat " " toks)

let parse_prim (toks : string list) : prim =
  match toks with
  | ["nat"] -> PNat | ["int"] -> PInt | ["float"] -> PFloat
  | ["long"] -> PLong | ["double"] -> PDouble | ["string"] -> PString
  | ["bool"; f; t] -> PBool (n_of_dec f, n_of_dec t)
  | _ -> PNoTL1

let b1 s = (s = "1")

let load_jschema (path : string) : (tydef * jann) list =
  let ic = open_in path in
  let lines = ref [] in
  (try while true do lines := input_line ic :: !lines done with End_of_file -> ());
  close_in ic;
  let lines = List.rev !lines in
  let rec take k ls f acc = if k = 0 then (List.rev acc, ls) else
    (match ls with x :: r -> take (k - 1) r f (f (split_ws x) :: acc) | [] -> failwith "eof in block") in
  let rec go (ls : string list) acc =
    match ls with
    | [] -> List.rev acc
    | l :: rest ->
        (match split_ws l with
         | [] -> go rest acc
         | "prim" :: _id :: p -> go rest ((TPrim (parse_prim p), ANone) :: acc)
         | ["struct"; _id; tag; nf; tl2; td] ->
             let (fs, rest') = take (int_of_string nf) rest (fun toks ->
               match toks with
               | "jfield" :: nm :: bit :: ftoks -> ({ jf_name = bytes_of_hex nm; jf_bit = b1 bit }, parse_field ftoks)
               | _ -> failwith "bad jfield line") [] in
             go rest' ((TStruct (n_of_dec tag, List.map snd fs), AStruct (b1 tl2, b1 td, List.map fst fs)) :: acc)
         | "union" :: _id :: nv :: tl2 :: en :: mb :: vars ->
             let (vns, rest') = take (int_of_string nv) rest (fun toks ->
               match toks with
               | ["vname"; a; b] -> { vn_tl = bytes_of_hex a; vn_var = bytes_of_hex b }
               | _ -> failwith "bad vname line") [] in
             go rest' ((TUnion (List.map (fun v -> nat_of_int (int_of_string v)) vars), AUnion (b1 tl2, b1 en, b1 mb, vns)) :: acc)
         | ["array"; _id; kind] ->
             (match rest with
              | fl :: rest' ->
                  let k = (match String.split_on_char ':' kind with
                           | ["vector"] -> AVector | ["dyn"] -> ATupleDyn
                           | ["fixed"; n] -> ATupleFixed (n_of_dec n) | _ -> failwith "bad array kind") in
                  go rest' ((TArray (k, parse_field (split_ws fl)), ANone) :: acc)
              | [] -> failwith "eof in array")
         | "dict" :: _id :: kp ->
             (match rest with
              | fl :: rest' -> go rest' ((TDict (parse_prim kp, parse_field (split_ws fl)), ANone) :: acc)
              | [] -> failwith "eof in dict")
         | _ -> failwith ("bad schema line: " ^ l))
  in go lines []

(* value syntax: n<dec> | s<hex or -> | b0 | b1 | ( S <o>* ) | ( U <idx> <o>* ) | ( A <v>* ) ; o = _ | v *)
let rec parse_value (toks : string list) : value * string list =
  match toks with
  | "(" :: "S" :: rest -> let (fs, r) = parse_opts rest [] in (VStruct fs, r)
  | "(" :: "U" :: idx :: rest -> let (fs, r) = parse_opts rest [] in (VUnion (nat_of_int (int_of_string idx), fs), r)
  | "(" :: "A" :: rest -> let (es, r) = parse_vals rest [] in (VArr es, r)
  | t :: rest when String.length t > 0 && t.[0] = 'n' -> (VNum (n_of_dec (String.sub t 1 (String.length t - 1))), rest)
  | t :: rest when String.length t > 0 && t.[0] = 's' -> (VStr (bytes_of_hex (String.sub t 1 (String.length t - 1))), rest)
  | "b0" :: rest -> (VBool false, rest)
  | "b1" :: rest -> (VBool true, rest)
  | t :: _ -> failwith ("bad value token " ^ t)
  | [] -> failwith "unexpected end of value"
and parse_opts toks acc =
  match toks with
  | ")" :: rest -> (List.rev acc, rest)
  | "_" :: rest -> parse_opts rest (None :: acc)
  | _ -> let (v, r) = parse_value toks in parse_opts r (Some v :: acc)
and parse_vals toks acc =
  match toks with
  | ")" :: rest -> (List.rev acc, rest)
  | _ -> let (v, r) = parse_value toks in parse_vals r (v :: acc)
