(* driver of the Obj family: argv[1] = schema IR file, argv[2] = generator-facts file;
   one operation per line *)
open Conv
open BinNums
open Datatypes
open PrimModel
open Tl1Model
open ObjRandModel
open ObjReuseModel
open ObjResModel
open Schema_io
open Xschema_io

let schema = load_schema Sys.argv.(1)
let xs = if Array.length Sys.argv > 2 then load_xschema Sys.argv.(2) else []

let tid s = nat_of_int (int_of_string s)
let fuel_tab : (string, nat) Hashtbl.t = Hashtbl.create 7
let fuel_of (s : string) : nat =
  match Hashtbl.find_opt fuel_tab s with
  | Some n -> n
  | None -> let n = nat_of_int (int_of_string s) in Hashtbl.replace fuel_tab s n; n

(* the splitmix stream with the draw budget of the Go harness (ops_obj.go objDrawBudget): reading the word
   at position >= budget raises, exactly where Go's (budget+1)-th draw panics *)
exception Draw_budget
let draw_budget = n_of_int 60000
let budgeted (seed : coq_N) : coq_N -> coq_N =
  fun i -> if BinNat.N.ltb i draw_budget then splitmix seed i else raise Draw_budget

let rec split_bar (toks : string list) (acc : string list) : string list * string list =
  match toks with
  | "|" :: rest -> (List.rev acc, rest)
  | t :: rest -> split_bar rest (t :: acc)
  | [] -> (List.rev acc, [])

let run toks =
  match toks with
  (* enc <san> <tid> <name> <boxed> <ps..> | <value> : model writer on a given wire value (as drv_tl1) *)
  | "enc" :: san :: t :: _name :: boxed :: rest ->
      let (ps, vt) = split_bar rest [] in
      let (v, _) = parse_value vt in
      (match enc1 (san = "1") schema (tid t) (boxed = "0") (List.map n_of_dec ps) v with
       | Some b -> "ok " ^ hex_of_bytes b
       | None -> "none")
  (* rand <tid> <name> <seed> <fuel> : FillRandom from the splitmix stream of <seed>, written TL1 boxed *)
  | ["rand"; t; _name; seed; fuel] ->
      (match (try Some (fill_random (fuel_of fuel) schema xs (tid t) [] (budgeted (n_of_dec seed))) with Draw_budget -> None) with
       | Some (FOk (v, _)) ->
           (match enc1 false schema (tid t) false [] v with
            | Some b -> "ok " ^ hex_of_bytes b
            | None -> "encnone " ^ value_to_string v)
       | Some FFuel -> "fuel"
       | Some FBad -> "bad"
       | None -> "budget")
  (* randv: the value itself *)
  | ["randv"; t; _name; seed; fuel] ->
      (match fill_random (fuel_of fuel) schema xs (tid t) [] (splitmix (n_of_dec seed)) with
       | FOk (v, st) -> "ok " ^ value_to_string v ^ " | pos " ^ dec_of_n st.rs_pos ^ " cur " ^ dec_of_n st.rs_cur
       | FFuel -> "fuel"
       | FBad -> "bad")
  (* hist <tid> <san> <reset fuel> <step>... : one object reused through the history (C09).
     step = R | 1b:<hex> | 1r:<hex> | anything else (TL2 / JSON steps: no model prediction, printed as -) *)
  | "hist" :: t :: san :: rf :: steps ->
      let ty = tid t in
      let rfuel = nat_of_int (int_of_string rf) in
      let st = ref OFresh in
      let wr o = match oenc schema ty false [] o with Some w -> hex_of_bytes w | None -> "writeerr" in
      let one step =
        if step = "R" then begin
          st := oreset rfuel schema ty !st;
          "R," ^ wr !st
        end else
          match String.index_opt step ':' with
          | None -> "-"
          | Some i ->
              let kind = String.sub step 0 i in
              if kind <> "1b" && kind <> "1r" then "-" else begin
                let b = bytes_of_hex (String.sub step (i + 1) (String.length step - i - 1)) in
                match dinto (nat_of_int (64 + 4 * List.length b)) (nat_of_int 6) (san = "1") schema ty (kind = "1r") [] !st b with
                | Some (Ok (o, rest)) ->
                    st := o;
                    "ok_" ^ string_of_int (List.length b - List.length rest) ^ "," ^ wr o
                | Some Eof -> "eof,-"
                | Some Reject -> "reject,-"
                | None -> "fuel,-"
              end in
      "ok " ^ String.concat " ; " (List.map one steps)
  (* res <san> <function tid> <result tid> <result bare 0|1> <nargs> <natarg>... | <request TL1 boxed hex> <result hex> :
     C07, the TL1 leg of the result transcoders under the environment of the request *)
  | "res" :: san :: ft :: rt :: rbare :: _n :: rest ->
      let (args, tail) = split_bar rest [] in
      (match tail with
       | [req; resb] ->
           let fr = { fr_ty = tid rt; fr_bare = (rbare = "1"); fr_args = List.map parse_natarg args } in
           let rq = bytes_of_hex req and rb = bytes_of_hex resb in
           let fuel = nat_of_int (64 + 4 * (List.length rq + List.length rb)) in
           (match tr11_req fuel (san = "1") schema (tid ft) fr rq rb with
            | Some (TrOk (c, Some w)) -> "ok " ^ string_of_int (int_of_nat c) ^ " " ^ hex_of_bytes w
            | Some (TrOk (c, None)) -> "ok " ^ string_of_int (int_of_nat c) ^ " writeerr"
            | Some TrEof -> "eof"
            | Some TrReject -> "reject"
            | Some TrFuel -> "fuel"
            | None -> "badrequest")
       | _ -> "driver-error res: expected <request hex> <result hex>")
  (* randres <function tid> <result tid> <result bare 0|1> <nargs> <natarg>... | <request TL1 boxed hex> <seed> <fuel> :
     FillRandomResultTL1 of the function holding that request: the result type filled under the request's environment (C18) *)
  | "randres" :: ft :: rt :: rbare :: _n :: rest ->
      let (args, tail) = split_bar rest [] in
      (match tail with
       | [req; seed; fuel] ->
           let rq = bytes_of_hex req in
           (match dec1 (nat_of_int (64 + 4 * List.length rq)) false schema (tid ft) false [] rq with
            | Some (Ok (q, _)) ->
                let fr = { fr_ty = tid rt; fr_bare = (rbare = "1"); fr_args = List.map parse_natarg args } in
                let ps = result_env q fr in
                (match (try Some (fill_random (fuel_of fuel) schema xs (tid rt) ps (budgeted (n_of_dec seed))) with Draw_budget -> None) with
                 | Some (FOk (v, _)) ->
                     (match enc1 false schema (tid rt) (rbare = "1") ps v with
                      | Some b -> "ok " ^ hex_of_bytes b
                      | None -> "encnone")
                 | Some FFuel -> "fuel"
                 | Some FBad -> "bad"
                 | None -> "budget")
            | _ -> "badrequest")
       | _ -> "driver-error randres")
  (* renv <function tid> <nargs> <natarg>... | <request hex> : the result environment of a request *)
  | "renv" :: ft :: _n :: rest ->
      let (args, tail) = split_bar rest [] in
      (match tail with
       | [req] ->
           let rq = bytes_of_hex req in
           (match dec1 (nat_of_int (64 + 4 * List.length rq)) false schema (tid ft) false [] rq with
            | Some (Ok (q, _)) ->
                "ok " ^ String.concat " " (List.map dec_of_n (result_env q { fr_ty = O; fr_bare = false; fr_args = List.map parse_natarg args }))
            | _ -> "badrequest")
       | _ -> "driver-error renv")
  | ["xwf"] -> if xwf schema xs then "ok true" else "ok false"
  | "ranked" :: rk -> if ranked schema (List.map (fun s -> nat_of_int (int_of_string s)) rk) then "ok true" else "ok false"
  | ["wf"] -> if wf_schema schema then "ok true" else "ok false"
  | l -> "driver-error unknown op " ^ String.concat " " l

let () = each_line run
