(* driver of the Obj family: argv[1] = schema IR file, argv[2] = generator-facts file;
   one operation per line *)
open Conv
open BinNums
open PrimModel
open Tl1Model
open ObjRandModel
open Schema_io
open Xschema_io

let schema = load_schema Sys.argv.(1)
let xs = if Array.length Sys.argv > 2 then load_xschema Sys.argv.(2) else []

let tid s = nat_of_int (int_of_string s)

let run toks =
  match toks with
  (* rand <tid> <name> <seed> <fuel> : FillRandom from the splitmix stream of <seed>, written TL1 boxed *)
  | ["rand"; t; _name; seed; fuel] ->
      (match fill_random (nat_of_int (int_of_string fuel)) schema xs (tid t) [] (splitmix (n_of_dec seed)) with
       | FOk (v, _) ->
           (match enc1 false schema (tid t) false [] v with
            | Some b -> "ok " ^ hex_of_bytes b
            | None -> "encnone " ^ value_to_string v)
       | FFuel -> "fuel"
       | FBad -> "bad")
  (* randv: the value itself *)
  | ["randv"; t; _name; seed; fuel] ->
      (match fill_random (nat_of_int (int_of_string fuel)) schema xs (tid t) [] (splitmix (n_of_dec seed)) with
       | FOk (v, st) -> "ok " ^ value_to_string v ^ " | pos " ^ dec_of_n st.rs_pos ^ " cur " ^ dec_of_n st.rs_cur
       | FFuel -> "fuel"
       | FBad -> "bad")
  | ["xwf"] -> if xwf schema xs then "ok true" else "ok false"
  | "ranked" :: rk -> if ranked schema (List.map (fun s -> nat_of_int (int_of_string s)) rk) then "ok true" else "ok false"
  | ["wf"] -> if wf_schema schema then "ok true" else "ok false"
  | l -> "driver-error unknown op " ^ String.concat " " l

let () = each_line run
