(* driver for the Rpc models (C38 RpcMux, C39 Admission): one operation per line

   alloc <last> <n>              n query IDs from ClientImpl.GetRequest with lastQueryID = last
                                 -> "ok <q1>,<q2>,... last=<counter>"
   pc <op> ...                   clientConn pending-calls logic, state dumped after every op (joined by " | ")
       s:<fail>:<n|p|f>            setupCallLocked of a new call (deadline none/past/future); calls are numbered 0,1,..
       m                           moveRequestsToSendLocked
       f:<i> / f:u<k>              finishCall for call i / for the never allocated query ID 5+k
       c:<i>                       cancelCallImpl
       w:<i>                       ClientImpl.doWait with a cancelled context, then PutResponse (Response recycled)
       x:<good>                    dropClientConn + continueRunningImpl(good)   (massCancelRequestsLocked)
       k  u  h                     close / setClientConn / shutdown
   mon <event> ...               the monitor [accepts]:  c:<q>:<b>:<fail>:<tmo>  s:<q>:<b>  x:<q>  d:<q>:<kind>:<b>  kc  ks
                                 -> "accept <n>" | "reject <index>"
   wp <create> <op> ...          worker pool: g | p:<k> (k-th busy worker) | a (one hour passes) | gc:<ms> | cl ; dump after every op
   adm <limit> <buf> <op> ...    request memory: a:<id>:<len> | r:<k> (k-th admitted) | w:<k> (k-th blocked) ; dump after every op *)
open Conv
open BinNums
open Datatypes
open RpcModel

let split_colon s = String.split_on_char ':' s
let lst f = function [] -> "-" | l -> String.concat "," (List.map f l)
let b01 b = if b then "1" else "0"
let isort l = List.sort compare l
let sortn l = List.sort (fun a b -> compare (int_of_n a) (int_of_n b)) l

(* ---------------------------------------------------------------- pc *)

let outcome_name = function
  | ORespOk _ | OSrvErr _ | OSrvGen -> "resp"
  | OCancelled -> "cancel" | OTimeout -> "timeout"
  | OClosedSideEffect -> "side" | OClosedNoSideEffect -> "noside" | ODeadline -> "deadline"
  | OClientClosed -> "closed"

let run_pc (ops : string list) : string =
  let last = ref (n_of_int 1000) in
  let qids : (int * coq_N) list ref = ref [] in     (* call index -> qid *)
  let dls : (int * string) list ref = ref [] in
  let ncalls = ref 0 in
  let st = ref cs_init in
  let inchan : int list ref = ref [] in      (* calls whose result sits in singleResult *)
  let returned : int list ref = ref [] in    (* calls whose doWait returned (Response recycled) *)
  let started : int list ref = ref [] in
  let idx_of q = try string_of_int (fst (List.find (fun (_, q') -> q' = q) !qids)) with Not_found -> "?" ^ dec_of_n q in
  let qid_of i = List.assoc i !qids in
  let expired q =
    (try List.assoc (fst (List.find (fun (_, q') -> q' = q) !qids)) !dls = "p" with Not_found -> false) in
  let dump res dlv =
    let calls = isort (List.map (fun (q, c) -> (int_of_string (idx_of q), c.c_sent)) !st.cs_calls) in
    let wq = List.sort compare (List.map (function WReq q -> "r" ^ idx_of q | WCancel q -> "c" ^ idx_of q) !st.cs_writeQ) in
    List.iter (fun (q, _) -> try inchan := int_of_string (idx_of q) :: !inchan with _ -> ()) dlv;
    let dlv = List.sort compare (List.map (fun (q, o) -> idx_of q ^ "=" ^ outcome_name o) dlv) in
    Printf.sprintf "%s calls=%s wq=%s inf=%s sh=%s fin=%s up=%s cl=%s wt=%s dlv=%s chan=%s" res
      (lst (fun (i, s) -> string_of_int i ^ (if s then "s" else "u")) calls)
      (lst (fun x -> x) wq) (dec_of_z !st.cs_inFlight)
      (b01 !st.cs_isShutdown) (b01 !st.cs_wantsFin) (b01 !st.cs_connUp) (b01 !st.cs_closed) (b01 !st.cs_waiting)
      (lst (fun x -> x) dlv) (lst string_of_int (List.sort compare !inchan)) in
  let outs = ref [] in
  let panicked = ref false in
  List.iter (fun op ->
    if not !panicked then begin
      let r =
        match split_colon op with
        | ["s"; fail; dl] ->
            let (l1, q) = alloc_qid !last in
            last := l1;
            let i = !ncalls in
            incr ncalls;
            qids := (i, q) :: !qids;
            dls := (i, dl) :: !dls;
            let (s1, o) = cl_setup !st q (fail = "1") (n_of_int (i + 1)) in
            st := s1;
            if o = None then started := i :: !started;
            Some (dump (match o with None -> "ok" | Some o -> outcome_name o) [])
        | ["m"] ->
            (match cl_move !st with
             | None -> None
             | Some (s1, out) ->
                 st := s1;
                 (* sorted: after a massCancel the Go queue is refilled in map-iteration order *)
                 Some (dump ("out=" ^ lst (fun x -> x) (List.sort compare (List.map (function WReq q -> "r" ^ idx_of q | WCancel q -> "c" ^ idx_of q) out))) []))
        | ["f"; i] ->
            let q = if i.[0] = 'u' then n_of_int (5 + int_of_string (String.sub i 1 (String.length i - 1)))
                    else qid_of (int_of_string i) in
            (match cl_finish !st q with
             | None -> None
             | Some (s1, d) ->
                 st := s1;
                 Some (dump (match d with Some _ -> "owned=1" | None -> "owned=0")
                         (match d with Some c -> [(q, ORespOk c.c_body)] | None -> [])))
        | ["c"; i] ->
            let i = int_of_string i in
            let q = qid_of i in
            (match cl_cancel !st q (List.assoc i !dls = "p") with
             | None -> None
             | Some (s1, found) -> st := s1; Some (dump ("found=" ^ b01 found) []))
        | ["w"; i] ->
            (* doWait with a cancelled context, then PutResponse: if the result is already in the channel either
               select case may run; both leave the same state: call not pending, channel empty *)
            let i = int_of_string i in
            if not (List.mem i !started) || List.mem i !returned then Some "not-allowed"
            else begin
              let q = qid_of i in
              let r =
                if List.mem i !inchan then Some !st
                else (match cl_cancel !st q (List.assoc i !dls = "p") with Some (s1, _) -> Some s1 | None -> None) in
              match r with
              | None -> None
              | Some s1 ->
                  st := s1;
                  inchan := List.filter (fun x -> x <> i) !inchan;
                  returned := i :: !returned;
                  Some (dump "ret dirty=0" [])
            end
        | ["x"; good] ->
            (match cl_disconnect !st (good = "1") expired with
             | None -> None
             | Some (s1, ds) ->
                 st := s1;
                 let cont = (not s1.cs_closed) && s1.cs_calls <> [] in
                 Some (dump ("cont=" ^ b01 cont) ds))
        | ["k"] -> st := cl_close !st; Some (dump "ok" [])
        | ["u"] -> let (s1, ok) = cl_setconn !st in st := s1; Some (dump ("set=" ^ b01 ok) [])
        | ["h"] -> st := cl_shutdown !st; Some (dump "ok" [])
        | _ -> failwith ("pc: bad op " ^ op) in
      match r with
      | Some s -> outs := s :: !outs
      | None -> panicked := true; outs := "panic" :: !outs
    end) ops;
  String.concat " | " (List.rev !outs)

(* ---------------------------------------------------------------- mon *)

let kind_of = function
  | "ok" -> KOk | "srverr" -> KSrvErr | "srvgen" -> KSrvGen | "cancel" -> KCancel | "timeout" -> KTimeout
  | "closed" -> KClosed | "clientclosed" -> KClientClosed
  | k -> failwith ("mon: bad kind " ^ k)

let oevent_of tok =
  match split_colon tok with
  | ["c"; q; b; fail; tmo] -> OCall (n_of_dec q, n_of_dec b, fail = "1", tmo = "1")
  | ["s"; q; b] -> OSrv (n_of_dec q, n_of_dec b)
  | ["x"; q] -> OCancelReq (n_of_dec q)
  | ["d"; q; k; b] -> ODone (n_of_dec q, kind_of k, n_of_dec b)
  | ["kc"] -> OCloseClient
  | ["ks"] -> OCloseServer
  | _ -> failwith ("mon: bad event " ^ tok)

let run_mon toks =
  let h = List.map oevent_of toks in
  match mon_run (final_kind h) m_init h N0 with
  | Coq_inl m -> if all_returned m then "accept " ^ string_of_int (List.length h) else "reject not-all-returned"
  | Coq_inr i -> "reject " ^ dec_of_n i

(* ---------------------------------------------------------------- wp *)

let gc_dur = n_of_int 60000   (* workerGCDuration in ms *)

let run_wp create ops =
  let s = ref (ws_init (z_of_int (int_of_string create))) in
  let clk = ref (n_of_int 1000) in   (* model clock, ms; "a" lets one hour pass *)
  let dump res closedch =
    let p = !s.ws_pool in
    Printf.sprintf "%s created=%s free=%s busy=%s closed=%s chclosed=%s" res (dec_of_z p.wp_created)
      (lst (fun (w, _) -> dec_of_n w) p.wp_free)
      (lst dec_of_n (sortn !s.ws_busy)) (b01 p.wp_closed)
      (lst dec_of_n (sortn closedch)) in
  let outs = List.map (fun op ->
    match split_colon op with
    | ["g"] ->
        let (t, r) = wp_get !s.ws_pool in
        (match r with
         | GWait -> dump "wait" []
         | GClosed -> s := { !s with ws_pool = t }; dump "closed" []
         | GReuse w -> s := { !s with ws_pool = t; ws_busy = w :: !s.ws_busy }; dump ("reuse:" ^ dec_of_n w) []
         | GNew ->
             let w = !s.ws_next in
             s := { ws_pool = t; ws_busy = w :: !s.ws_busy; ws_next = BinNat.N.add w (n_of_int 1) };
             dump ("new:" ^ dec_of_n w) [])
    | ["p"; k] ->
        (* Put of the k-th (mod) busy worker, busy workers sorted by id *)
        (match sortn !s.ws_busy with
         | [] -> "not-allowed"
         | bs ->
             let w = List.nth bs (int_of_string k mod List.length bs) in
             let (t, cl) = wp_put !s.ws_pool w !clk gc_dur in
             s := { !s with ws_pool = t; ws_busy = removeN w !s.ws_busy };
             dump ("put:" ^ dec_of_n w) cl)
    | ["a"] ->
        clk := BinNat.N.add !clk (n_of_int 3600000);
        dump "aged" []
    | ["gc"; ms] ->
        let (t, g) = wp_gc !s.ws_pool (BinNat.N.add !clk (n_of_dec ms)) in
        s := { !s with ws_pool = t };
        dump "gc" (match g with Some w -> [w] | None -> [])
    | ["cl"] ->
        let (t, cl) = wp_close !s.ws_pool in
        s := { !s with ws_pool = t };
        dump "close" cl
    | _ -> failwith ("wp: bad op " ^ op)) ops in
  String.concat " | " outs

(* ---------------------------------------------------------------- adm *)

let run_adm limit buf ops =
  let a = ref (adm_init (z_of_dec limit) (z_of_dec buf)) in
  let doomed = ref [] in
  let dump res =
    Printf.sprintf "%s cur=%s held=%s wait=%s doomed=%s" res (dec_of_z !a.ad_sem.sm_cur)
      (lst dec_of_n (sortn (List.map fst !a.ad_held)))
      (lst dec_of_n (List.map fst !a.ad_sem.sm_wait))
      (lst dec_of_n (sortn !doomed)) in
  let outs = List.map (fun op ->
    match split_colon op with
    | ["a"; id; len] ->
        let id = n_of_dec id and len = z_of_dec len in
        let before = List.length !a.ad_held and wbefore = List.length !a.ad_sem.sm_wait in
        (match adm_step !a (AArrive (id, len)) with
         | None -> "not-allowed"
         | Some a1 ->
             a := a1;
             if List.length a1.ad_held > before then dump "admitted"
             else if List.length a1.ad_sem.sm_wait > wbefore then dump "queued"
             else (doomed := id :: !doomed; dump "doomed"))
    | ["r"; k] ->
        (* release of the k-th (mod) admitted request, sorted by id *)
        (match sortn (List.map fst !a.ad_held) with
         | [] -> "not-allowed"
         | hs ->
             let id = List.nth hs (int_of_string k mod List.length hs) in
             (match adm_step !a (ARelease id) with
              | None -> "model-none"
              | Some a1 -> a := a1; dump ("released:" ^ dec_of_n id)))
    | ["w"; k] ->
        (* the connection of the k-th (mod) blocked request closes: queued ones in queue order, then doomed ones by id *)
        (match List.map fst !a.ad_sem.sm_wait @ sortn !doomed with
         | [] -> "not-allowed"
         | ws ->
             let id = List.nth ws (int_of_string k mod List.length ws) in
             if List.mem id !doomed then (doomed := List.filter (fun x -> x <> id) !doomed; dump ("cancelled:" ^ dec_of_n id))
             else (match adm_step !a (ACancelWait id) with
                   | None -> "model-none"
                   | Some a1 -> a := a1; dump ("cancelled:" ^ dec_of_n id)))
    | _ -> failwith ("adm: bad op " ^ op)) ops in
  String.concat " | " outs

let run = function
  | ["alloc"; last; n] ->
      let (qs, l) = alloc_many (nat_of_int (int_of_string n)) (n_of_dec last) in
      "ok " ^ lst dec_of_n qs ^ " last=" ^ dec_of_n l
  | "pc" :: ops -> run_pc ops
  | "mon" :: toks -> run_mon toks
  | "wp" :: create :: ops -> run_wp create ops
  | "adm" :: limit :: buf :: ops -> run_adm limit buf ops
  | l -> "driver-error unknown op " ^ String.concat " " l

let () = each_line run
