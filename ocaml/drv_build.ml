(* driver for the Build model (C14): one operation per line.  Names are plain ASCII tokens,
   "-" is the empty string.
     dec <fill 0|1> n1 n2 ...        -> ok r1 r2 ...     one Deconflicter, requests in order
     camel s | upfirst s | lowfirst s | ident s
     const <tlname> | file <tlname> | global <tlname>
     struct f1:k f2:k ...            -> ok F1,F2 | A1,A2 | E1,E2 (all Go names | accessors | emitted fields)
                                        k = n (no accessors) N (bit, no accessors) b (bit, Set/IsSet) f (Set/Clear/IsSet) F (bit with Clear: unused)
     oblig_consts n... | oblig_files n... | oblig_dirs n... | oblig_globals n... | oblig_fields <m1,m2,..|-> f:k ...
     racc <GoType> f1,f2             -> ok SetGoTypeF1AndF2    result-mask accessor of a function
     oblig_methods <r1,r2|-> f:k ... -> the struct's accessors and the given result accessors are pairwise distinct
     lists                           -> struct_methods | function_methods | helper_idents | always | closed *)
open Conv
open BuildModel

let str_of_string (s : string) : str =
  if s = "-" then [] else List.init (String.length s) (fun i -> byte_tab.(Char.code s.[i]))
let string_of_str (s : str) : string =
  match s with
  | [] -> "-"
  | _ -> let b = Buffer.create 16 in
         List.iter (fun c -> Buffer.add_char b (Char.chr (int_of_n c))) s;
         Buffer.contents b

let tlname_of_string (s : string) : tlname =
  match String.index_opt s '.' with
  | Some i -> { ns = str_of_string (String.sub s 0 i);
                nm = str_of_string (String.sub s (i + 1) (String.length s - i - 1)) }
  | None -> { ns = []; nm = str_of_string s }

let field_of_string (s : string) : field_spec =
  match String.rindex_opt s ':' with
  | Some i ->
      let k = String.sub s (i + 1) (String.length s - i - 1) in
      { fname = str_of_string (String.sub s 0 i);
        facc = (match k with "n" | "N" -> AccNone | "b" -> AccBit | "f" | "F" -> AccFull | _ -> failwith ("bad kind " ^ s));
        fbit = (k = "N" || k = "b" || k = "F") }
  | None -> failwith ("bad field " ^ s)

let names (l : str list) : string = match l with [] -> "-" | _ -> String.concat "," (List.map string_of_str l)
let words (l : str list) : string = String.concat " " (List.map string_of_str l)
let b2s b = if b then "true" else "false"

let run = function
  | "dec" :: fill :: reqs ->
      let st0 = if fill = "1" then fill_golang [] else [] in
      let (_, rs) = dec_run st0 (List.map str_of_string reqs) in
      "ok " ^ words rs
  | ["camel"; s] -> "ok " ^ string_of_str (camel (str_of_string s))
  | ["upfirst"; s] -> "ok " ^ string_of_str (to_upper_first (str_of_string s))
  | ["lowfirst"; s] -> "ok " ^ string_of_str (to_lower_first (str_of_string s))
  | ["ident"; s] -> "ok " ^ b2s (go_ident (str_of_string s))
  | ["const"; n] -> "ok " ^ string_of_str (const_name (tlname_of_string n))
  | ["global"; n] -> "ok " ^ string_of_str (global_head (tlname_of_string n))
  | ["file"; n] -> "ok " ^ string_of_str (file_name (tlname_of_string n))
  | "struct" :: fs ->
      let fl = List.map field_of_string fs in
      let (gos, accs) = struct_scope fl in
      "ok " ^ names gos ^ " | " ^ names accs ^ " | " ^ names (struct_emitted_fields fl)
  | "oblig_consts" :: ns -> "ok " ^ b2s (consts_ok (List.map tlname_of_string ns))
  | "oblig_files" :: ns -> "ok " ^ b2s (files_ok (List.map tlname_of_string ns))
  | "oblig_dirs" :: ns -> "ok " ^ b2s (dirs_ok (List.map tlname_of_string ns))
  | "oblig_globals" :: ns -> "ok " ^ b2s (globals_ok (List.map tlname_of_string ns))
  | "oblig_fields" :: ms :: fs ->
      let ms = if ms = "-" then [] else List.map str_of_string (String.split_on_char ',' ms) in
      "ok " ^ b2s (fields_ok ms (List.map field_of_string fs))
  | ["racc"; aff; fs] ->
      "ok " ^ string_of_str (result_accessor (str_of_string aff) (List.map str_of_string (String.split_on_char ',' fs)))
  | "oblig_methods" :: raccs :: fs ->
      let raccs = if raccs = "-" then [] else List.map str_of_string (String.split_on_char ',' raccs) in
      "ok " ^ b2s (methods_ok (List.map field_of_string fs) raccs)
  | ["lists"] -> "ok " ^ names struct_methods ^ " | " ^ names function_methods ^ " | " ^ names helper_idents
                 ^ " | " ^ names struct_methods_always ^ " | " ^ names struct_methods_closed
  | l -> "driver-error unknown op " ^ String.concat " " l

let () = each_line run
