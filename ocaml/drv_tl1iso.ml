(* driver for the extracted IR isomorphism checker (Tl1IsoModel.ir_iso); one operation per line:
     iso <indep IR file> <kernel IR file> <r0> <r1> ...   r_i = kernel index of independent instance i
     sim <indep IR file> <kernel IR file> <r0> <r1> ...   simulation only (no injectivity)
     eqb <IR file> <IR file>                              identical numbering
     wf  <IR file>                                        wf_schema *)
open Conv
open Tl1Model
open Tl1IsoModel
open Schema_io

let nats l = List.map (fun x -> nat_of_int (int_of_string x)) l
let show b = if b then "ok true" else "ok false"

let run toks =
  match toks with
  | "iso" :: f1 :: f2 :: r -> show (ir_iso (nats r) (load_schema f1) (load_schema f2))
  | "sim" :: f1 :: f2 :: r -> show (ir_sim (nats r) (load_schema f1) (load_schema f2))
  | ["eqb"; f1; f2] -> show (schema_eqb (load_schema f1) (load_schema f2))
  | ["wf"; f1] -> show (wf_schema (load_schema f1))
  | l -> "driver-error unknown op " ^ String.concat " " l

let () = each_line run
