(* driver for the schema-IR TL1 codec: argv[1] = schema IR file; one operation per line *)
open Conv
open BinNums
open PrimModel
open Tl1Model
open Schema_io

let schema = load_schema Sys.argv.(1)
let fuel_for (b : coq_N list) = nat_of_int (64 + 4 * List.length b)

let rec split_bar (toks : string list) (acc : string list) : string list * string list =
  match toks with
  | "|" :: rest -> (List.rev acc, rest)
  | t :: rest -> split_bar rest (t :: acc)
  | [] -> (List.rev acc, [])

let show_dres = function
  | None -> "fuel"
  | Some Eof -> "eof"
  | Some Reject -> "reject"
  | Some (Ok _) -> "ok"

let run toks =
  match toks with
  (* enc <san> <tid> <name> <boxed> <ps..> | <value> : model writer on a given wire value *)
  | "enc" :: san :: tid :: _name :: boxed :: rest ->
      let (ps, vt) = split_bar rest [] in
      let (v, _) = parse_value vt in
      (match enc1 (san = "1") schema (nat_of_int (int_of_string tid)) (boxed = "0") (List.map n_of_dec ps) v with
       | Some b -> "ok " ^ hex_of_bytes b
       | None -> "none")
  (* rw1 <san> <tid> <name> <boxed> <hex> : read, then write back what was read *)
  | ["rw1"; san; tid; _name; boxed; h] ->
      let b = bytes_of_hex h in
      let t = nat_of_int (int_of_string tid) in
      (match dec1 (fuel_for b) (san = "1") schema t (boxed = "0") [] b with
       | Some (Ok (v, rest)) ->
           let consumed = List.length b - List.length rest in
           "ok " ^ string_of_int consumed ^ " " ^
           (match enc1 false schema t (boxed = "0") [] v with Some w -> hex_of_bytes w | None -> "writeerr")
       | r -> show_dres r)
  (* dec <san> <tid> <name> <boxed> <hex> : decoded value text *)
  | ["dec"; san; tid; _name; boxed; h] ->
      let b = bytes_of_hex h in
      (match dec1 (fuel_for b) (san = "1") schema (nat_of_int (int_of_string tid)) (boxed = "0") [] b with
       | Some (Ok (v, rest)) -> "ok " ^ value_to_string v ^ " | " ^ hex_of_bytes rest
       | r -> show_dres r)
  | ["wf"] -> if wf_schema schema then "ok true" else "ok false"
  | l -> "driver-error unknown op " ^ String.concat " " l

(* results of earlier lines are flushed before an operation starts, so that a caller that caps this process's memory
   (lib/vlib.run_lines_resilient) can tell which line it died on *)
let () = each_line (fun toks -> flush stdout; run toks)
