(* driver for the Jprim model (C34): one operation per line *)
open Conv
open JprimModel

let b01 b = if b then "1" else "0"
let opt f = function Some x -> f x | None -> "none"
let rd f = function Some x -> "ok " ^ f x | None -> "reject"
let nbits s = n_of_int (int_of_string s)

(* strconv.AppendFloat / ParseFloat are parameters of the model; never reached for the
   special values, which are the only floats the model is asked about *)
let no_fmt _ = []
let no_parse _ = None

let fl eb mb d =
  let b = n_of_dec d in
  if fl_is_nan eb mb b || fl_is_inf eb mb b then
    let t = jw_float eb mb no_fmt b in
    "special " ^ hex_of_bytes t ^ " " ^ opt dec_of_n (jr_float eb mb no_parse t)
  else "fin ok"

let run = function
  | ["str"; h] ->
      let s = bytes_of_hex h in
      let a = json_write_string s in
      "ok " ^ hex_of_bytes a ^ " " ^ opt hex_of_bytes (jstr_read a)
      ^ " v=" ^ b01 (valid_json_text a) ^ " u=" ^ b01 (utf8_valid s)
  | ["jvalid"; h] -> "v=" ^ b01 (valid_json_text (bytes_of_hex h))
  | ["unesc"; h] -> rd hex_of_bytes (json_unescape (bytes_of_hex h))
  | [("u8" | "u32" | "u64") as k; d] ->
      let bits = nbits (String.sub k 1 (String.length k - 1)) in
      let t = jw_uint (n_of_dec d) in
      "ok " ^ hex_of_bytes t ^ " " ^ opt dec_of_n (jr_uint bits t)
  | [("i32" | "i64") as k; d] ->
      let bits = nbits (String.sub k 1 (String.length k - 1)) in
      let t = jw_int (z_of_dec d) in
      "ok " ^ hex_of_bytes t ^ " " ^ opt dec_of_z (jr_int bits t)
  | ["bool"; d] ->
      let t = jw_bool (d = "1") in
      "ok " ^ hex_of_bytes t ^ " " ^ opt (fun b -> if b then "true" else "false") (jr_bool t)
  | [("ru8" | "ru32" | "ru64") as k; h] ->
      let bits = nbits (String.sub k 2 (String.length k - 2)) in
      rd dec_of_n (jr_uint bits (bytes_of_hex h))
  | [("ri32" | "ri64") as k; h] ->
      let bits = nbits (String.sub k 2 (String.length k - 2)) in
      rd dec_of_z (jr_int bits (bytes_of_hex h))
  | ["rbool"; h] -> rd (fun b -> if b then "true" else "false") (jr_bool (bytes_of_hex h))
  | ["f64"; d] -> fl (n_of_int 11) (n_of_int 52) d
  | ["f32"; d] -> fl (n_of_int 8) (n_of_int 23) d
  | l -> "driver-error unknown op " ^ String.concat " " l

let () = each_line run
