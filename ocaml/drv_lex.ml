(* driver for the lexer model (family Lex: C19, C20): one input text per line
   op:   tl <lang 1|2> <allowBuiltin 0|1> <allowDirty 0|1> <hex text>
   out:  <ok|err|panic|nofuel> n=.. all=.. rest=.. vok=.. rec=.. T=<type,len,line,col,slo,off;...> E=<-|msg18hex@outer@begin@end@corrupted> F=<tokerr|tokens|panic>
         PM=<ok|tokerr|panic|nofuel|err:msg30hex@outer@begin@end>   (parser models: TL1 for lang 1, TL2 for lang 2) *)
open Conv
open LexModel
open LexParse1Model
open LexParse2Model

let si = string_of_int
let pos_s (p : pos) =
  si (int_of_n p.p_line) ^ "." ^ si (int_of_n p.p_col) ^ "." ^ si (int_of_n p.p_slo) ^ "." ^ si (int_of_n p.p_off)

let msg = function
  | E_cr -> "carriage-return (\\r) must be followed by line-feed (\\n)"
  | E_utf8 -> "utf-8 character expected"
  | E_multiline -> "multiline comments are not part of language"
  | E_slash -> "'//' expected as a comment start"
  | E_underscore -> "identifier cannot start with underscore"
  | E_undefined -> "undefined symbol: "
  | E_modifier -> "combinator modifier should start from lower case letter"
  | E_tag -> "expect tag with exactly 8 lowercase hex digits here"
  | E_number -> "expect only decimal digits in number here"
  | E_namespace -> "namespace identifier should start from lower case letter"
  | E_illegalTL1 -> "illegal token for TL1: "
  | E_illegalTL2 | E_illegalTL2_arith | E_illegalTL2_boxed | E_illegalTL2_sections -> "illegal token for TL2: "
  | E1_lcname -> "low-case name (with optional namespace) expected"
  | E1_ucname -> "upper-case name (with optional namespace) expected"
  | E1_varname -> "name without namespace expected"
  | E1_tag_conv -> "error converting constructor tag to uint32: "
  | E1_targ_colon -> "':' after template argument name expected"
  | E1_targ_type -> "template argument type can be either 'Type' or '#'"
  | E1_targ_close -> "'}' after template argument type expected"
  | E1_rparen -> "')' expected"
  | E1_const_overflow -> "constant overflows uint32: strconv.ParseUint"
  | E1_arith_expected -> "arithmetic expression expected after '+'"
  | E1_arith_overflow -> "arithmetic expression overflows uint32"
  | E1_lsq_after_star -> "'[' is expected after '*'"
  | E1_bitnum -> "expecting decimal bitmask bit number"
  | E1_bitmask_conv -> "error converting bitmask to uint32: "
  | E1_q_after_mask -> "'?' expected after field bitmask "
  | E1_field_type -> "field type is expected here (missed '()' around complex type?)"
  | E1_return_type -> "return type is expected here"
  | E1_q_in_function -> "'?' (legacy builtin type body) is not allowed in functions"
  | E1_eq_after_q -> "'=' expected after '?' (legacy builtin type body)"
  | E1_semicolon -> "';' or type argument expected"
  | E1_round_not_allowed -> "for historic reasons, round brackets are not allowed here"
  | E1_rparen_or_type -> "')' or type is expected here"
  | E1_comma_gt_type -> "',', '>' or type expected here"
  | E1_gt_or_type -> "'>' or type expected here"
  | E1_name -> "name (with optional namespace) expected"
  | E2_type_name -> "expected type name"
  | E2_func_or_type -> "expected either function or type declaration"
  | E2_semicolon -> "expected semicolon in the end of combinator definition"
  | E2_uint_conv -> "strconv.ParseUint"
  | E2_magic_zero -> "magic should not be 0, use 'openssl rand -hex 4'"
  | E2_func_magic -> "function must have magic, use 'openssl rand -hex 4'"
  | E2_cant_parse_decl -> "can't parse type declaration"
  | E2_targ_decl -> "expected type argument declaration"
  | E2_targs_close -> "can't stop parse template arguments without closing brackets"
  | E2_wrong_brackets -> "wrong type of opening brackets for generics"
  | E2_alias_ref -> "expected reference to type for aliasing"
  | E2_first_variant_fail -> "can't parse first variant"
  | E2_first_variant_expected -> "expected first variant of union"
  | E2_variant_after_bar -> "expected union variant definition after vertical var"
  | E2_at_least_1 -> "expected at least 1 variants of union type"
  | E2_one_constructor -> "union with one constructor can't be without vertical bar before declaration"
  | E2_colon_after_constructor -> "unexpected colon after one field union constructor declaration"
  | E2_ignored_optional -> "ignored field can't be optional"
  | E2_no_colon -> "can't parse field since there is no colon after field name declaration"
  | E2_field_type -> "expected type of field"
  | E2_type_arg -> "expected type argument"
  | E2_type_args_close -> "can't parse type arguments without closing bracket in the end"
  | E2_sq_close -> "expected closing square bracket"
  | E2_array_type -> "expected array type argument"
  | E2_targ_unexpected -> "unexpected token during type argument declaration"
  | E2_type_category -> "unexpected type category "

(* the long messages of the TL2 classes differ after the quoted token; the class is visible in the suffix *)
let cls = function
  | E_illegalTL2_arith -> "a" | E_illegalTL2_boxed -> "b" | E_illegalTL2_sections -> "s" | _ -> "-"

let hex_of_string (s : string) =
  let buf = Buffer.create 40 in
  String.iter (fun c -> Buffer.add_string buf (Printf.sprintf "%02x" (Char.code c))) s;
  Buffer.contents buf

let prefix18 s = if String.length s <= 18 then s else String.sub s 0 18
let prefix30 s = if String.length s <= 30 then s else String.sub s 0 30

let run = function
  | ["tl"; lg; b; d; h] ->
    let text = if h = "-" then "" else h in
    let s = bytes_of_hex h in
    let raw = Array.of_list (List.map int_of_n s) in
    let n = Array.length raw in
    ignore text;
    let o = { o_builtin = (b = "1"); o_dirty = (d = "1"); o_lang = (if lg = "2" then TL2 else TL1) } in
    (match generateTokens o s with
     | Panic -> "panic"
     | NoFuel -> "nofuel"
     | Ok r ->
       let buf = Buffer.create 256 in
       let vok = ref true in
       let chk (t : token) =
         let off = int_of_n t.t_pos.p_off in
         let l = List.length t.t_val in
         if off + l > n then vok := false
         else List.iteri (fun i c -> if raw.(off + i) <> int_of_n c then vok := false) t.t_val in
       List.iter chk r.r_all;
       List.iter (fun (t : token) ->
           Buffer.add_string buf (si (int_of_z t.t_type)); Buffer.add_char buf ',';
           Buffer.add_string buf (si (List.length t.t_val)); Buffer.add_char buf ',';
           Buffer.add_string buf (si (int_of_n t.t_pos.p_line)); Buffer.add_char buf ',';
           Buffer.add_string buf (si (int_of_n t.t_pos.p_col)); Buffer.add_char buf ',';
           Buffer.add_string buf (si (int_of_n t.t_pos.p_slo)); Buffer.add_char buf ',';
           Buffer.add_string buf (si (int_of_n t.t_pos.p_off)); Buffer.add_char buf ';') r.r_toks;
       let recomb = recombineTokens r in
       let rec_ok = (List.map int_of_n recomb = Array.to_list raw) in
       let e = match r.r_err with
         | None -> "-"
         | Some e ->
           hex_of_string (prefix18 (msg e.e_kind)) ^ cls e.e_kind ^ "@" ^ pos_s e.e_outer ^ "@" ^ pos_s (e_begin e) ^ "@" ^ pos_s (e_end e)
           ^ "@" ^ (if errCorrupted (n_of_int n) e then "1" else "0") in
       let f = match parseFront o s with
         | Ok (F_tokerr _) -> "tokerr" | Ok (F_tokens _) -> "tokens" | Panic -> "panic" | NoFuel -> "nofuel" in
       (match r.r_err with None -> "ok" | Some _ -> "err")
       ^ " n=" ^ si (List.length r.r_toks) ^ " all=" ^ si (List.length r.r_all) ^ " rest=" ^ si (List.length r.r_rest)
       ^ " vok=" ^ (if !vok then "1" else "0") ^ " rec=" ^ (if rec_ok then "1" else "0")
       ^ " T=" ^ (if Buffer.length buf = 0 then "-" else Buffer.contents buf)
       ^ " E=" ^ e ^ " F=" ^ f ^ " PM=" ^
       (match (if lg = "2" then parseTL2File o s else parseTLFile o s) with
        | PR_ok -> "ok"
        | PR_err (true, _) -> "tokerr"
        | PR_err (false, e) ->
          "err:" ^ hex_of_string (prefix30 (msg e.e_kind)) ^ "@" ^ pos_s e.e_outer ^ "@" ^ pos_s (e_begin e) ^ "@" ^ pos_s (e_end e)
        | PR_panic -> "panic"
        | PR_nofuel -> "nofuel"))
  | l -> "driver-error unknown op " ^ String.concat " " l

let () = each_line run
