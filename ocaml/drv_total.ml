(* C08 driver: argv[1] = schema IR file; one operation per line.
   The ranking is state: `setrank` installs it, `rd8` then reads with exactly the fuel of
   theorem C08_total_ranked; without a valid ranking `rd8` uses a large fixed fuel, and the
   answer `fuel` is the model's prediction that the reader diverges. *)
open Conv
open BinNums
open PrimModel
open Tl1Model
open Tl1TotalModel
open Schema_io

let schema = load_schema Sys.argv.(1)
let rank : Datatypes.nat list option ref = ref None
let big_fuel = nat_of_int 20000

let rec nat_list_of (l : string list) = List.map (fun x -> nat_of_int (int_of_string x)) l

let show_dres = function
  | None -> "fuel"
  | Some Eof -> "eof"
  | Some Reject -> "reject"
  | Some (Ok _) -> "ok"

let run toks =
  match toks with
  | ["wf"] -> if wf_schema schema then "ok true" else "ok false"
  (* productive: the certificates computed inside the model *)
  | ["productive"] ->
      let r = auto_rank schema in
      let dc = auto_dc schema in
      (if ranked schema dc r then "ok true" else "ok false") ^ " " ^
      String.concat "" (List.map (fun b -> if b then "1" else "0") dc) ^ " " ^
      String.concat "," (List.map (fun n -> string_of_int (int_of_nat n)) r)
  (* setrank <dc bits> r0 r1 ...: check explicit certificates with the verified checker and install the ranking *)
  | "setrank" :: dcs :: rs ->
      let r = nat_list_of rs in
      let dc = List.init (String.length dcs) (fun i -> dcs.[i] = '1') in
      if ranked schema dc r then begin
        rank := Some r;
        "ok true " ^ string_of_int (int_of_nat (max_rank r))
      end else begin rank := None; "ok false" end
  | ["norank"] -> rank := None; "ok"
  (* rd8 <san> <tid> <name> <boxed> <hex> : verdict [+ consumed] | elements requested by the top-level call *)
  | ["rd8"; san; tid; _name; boxed; h] ->
      let b = bytes_of_hex h in
      let t = nat_of_int (int_of_string tid) in
      let fuel = (match !rank with Some r -> fuel_bound r b | None -> big_fuel) in
      (match dec1 fuel (san = "1") schema t (boxed = "0") [] b with
       | Some (Ok (_, rest)) -> "ok " ^ string_of_int (List.length b - List.length rest)
       | r -> show_dres r)
  (* fuelof <hex>: the fuel rd8 would use *)
  | ["fuelof"; h] ->
      let b = bytes_of_hex h in
      (match !rank with Some r -> "ok " ^ string_of_int (int_of_nat (fuel_bound r b)) | None -> "ok none")
  (* req <san> <tid> <boxed> <hex> <ps...>: elements the (sequence) reader call is about to materialise *)
  | "req" :: san :: tid :: boxed :: h :: ps ->
      let b = bytes_of_hex h in
      (match elems_requested (san = "1") schema (nat_of_int (int_of_string tid)) (boxed = "0") (List.map n_of_dec ps) b with
       | Some n -> "ok " ^ dec_of_n n
       | None -> "none")
  | l -> "driver-error unknown op " ^ String.concat " " l

let () = each_line run
