(* driver for the Acks model (C37): one operation per line
     seq <prefix0> <f1> <t1> <f2> <t2> ...   fresh state with ackPrefix = prefix0, all AddAckRange calls, dump
     reset <prefix0>                         set the persistent state, dump
     add <f> <t>                             AddAckRange on the persistent state, dump
     seqx <d> <prefix0> <f1> <t1> ...        for every (f,t) with 0 <= f <= t < d in lexicographic order:
                                             as seq with (f,t) appended; the dumps joined by " | "
   dump = "ok p=<prefix> r=<ranges> ack=<prefix>;<from-to>;<set> nack=<ranges>"  ("-" = absent/empty) *)
open Conv
open AcksModel

let rng (f, t) = dec_of_n f ^ "-" ^ dec_of_n t
let lst f = function [] -> "-" | l -> String.concat "," (List.map f l)

let dump (a : acks) : string =
  let h = build_ack a in
  "ok p=" ^ dec_of_n a.ackPrefix ^ " r=" ^ lst rng a.ranges ^
  " ack=" ^ (match h.ah_prefix with Some p -> dec_of_n p | None -> "-") ^ ";" ^
            (match h.ah_range with Some r -> rng r | None -> "-") ^ ";" ^
            (match h.ah_set with Some s -> lst dec_of_n s | None -> "-") ^
  " nack=" ^ (match build_nack a with Some l -> lst rng l | None -> "-")

let rec pairs = function
  | [] -> []
  | f :: t :: r -> (n_of_dec f, n_of_dec t) :: pairs r
  | _ -> failwith "odd number of bounds"

let st = ref acks_empty

let run = function
  | "seq" :: p0 :: r -> dump (run_from { ackPrefix = n_of_dec p0; ranges = [] } (pairs r))
  | "seqx" :: d :: p0 :: r ->
      let base = run_from { ackPrefix = n_of_dec p0; ranges = [] } (pairs r) in
      let d = int_of_string d in
      let outs = ref [] in
      for f = 0 to d - 1 do
        for t = f to d - 1 do
          outs := dump (add (n_of_int f) (n_of_int t) base) :: !outs
        done
      done;
      String.concat " | " (List.rev !outs)
  | ["reset"; p0] -> st := { ackPrefix = n_of_dec p0; ranges = [] }; dump !st
  | ["add"; f; t] -> st := add (n_of_dec f) (n_of_dec t) !st; dump !st
  | l -> "driver-error unknown op " ^ String.concat " " l

let () = each_line run
