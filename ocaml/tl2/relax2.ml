(* UNTRUSTED generator of admissible TL2 re-encodings of a value (C13): huge-form sizes at any
   size position, explicitly written default fields, explicit zero presence blocks instead of
   trimming, an explicit variant index 0, appended unknown fields (extra presence bits / extra
   blocks + bytes) at the end of an object body, junk after the last array element, fixed
   tuples with trailing default elements cut, dictionaries in another key order, any non-zero
   byte for true.  Nothing here is relied upon: what it emits is judged by the model's reader
   (extracted [dec2]) and by the Go reader. *)
open Conv
open BinNums
open Datatypes
open PrimModel
open Tl1Model
open Tl2Model

exception Bad

let kinds : (string, unit) Hashtbl.t = Hashtbl.create 8
let mark k = Hashtbl.replace kinds k ()
let st = ref (Random.State.make [| 0 |])
let chance p = Random.State.float !st 1.0 < p
let rint n = Random.State.int !st n

let nb (i : int) : coq_N = byte_tab.(i land 255)
let le_int k i = List.init k (fun j -> nb ((i lsr (8 * j)) land 255))
let huge = int_of_n PrimConsts.hugeStringMarker

(* probability of the 9-byte spelling of a size-like number (object size, string length, element
   count, variant index); one seed in three spells EVERY one of them that way *)
let huge_p = ref 0.15
let size_w (n : int) : coq_N list =
  if chance !huge_p then (mark "huge-size"; nb huge :: le_int 8 n) else size2_w (n_of_int n)

let junk () = List.init (1 + rint 6) (fun _ -> nb (rint 256))

let rec chunk l = match l with [] -> [] | _ ->
  let rec take k l = if k = 0 then ([], l) else match l with [] -> ([], []) | a :: r -> let (p, q) = take (k - 1) r in (a :: p, q) in
  let (p, q) = take 8 l in p :: chunk q

let bits_byte (g : bool list) : int = List.fold_right (fun b acc -> (if b then 1 else 0) + 2 * acc) g 0

let rec enc (s : schema) (x : tl2x) (t : nat) (ze : bool) (v : value) : coq_N list =
  match List.nth_opt s (int_of_nat t) with
  | None -> raise Bad
  | Some (TPrim p) ->
      (match p, v with
       | PString, VStr str ->
           if ze && str = [] then (if chance 0.1 then (mark "explicit-default"; size_w 0) else [])
           else size_w (List.length str) @ str
       | PBool _, VBool true -> if chance 0.2 then (mark "bool-nonzero"; [nb (1 + rint 255)]) else [nb 1]
       | _, _ ->
           (match enc_prim2 p ze v with
            | Some [] ->
                if chance 0.1 then (mark "explicit-default";
                                    match enc_prim2 p false (norm_prim p true v) with Some b -> b | None -> raise Bad)
                else []
            | Some b -> b
            | None -> raise Bad))
  | Some (TStruct (_, fds)) ->
      (match v with
       | VStruct fs ->
           if x.x_alias t then
             (match fds, fs with
              | [fd], [Some v'] -> enc s x fd.f_ty ze v'
              | _ -> raise Bad)
           else obj s x t ze 0 fds fs
       | _ -> raise Bad)
  | Some (TUnion vars) ->
      (match v with
       | VUnion (idx, fs) ->
           (match List.nth_opt vars (int_of_nat idx) with
            | Some vt ->
                (match List.nth_opt s (int_of_nat vt) with
                 | Some (TStruct (_, fds)) -> obj s x vt ze (int_of_nat idx) fds fs
                 | _ -> raise Bad)
            | None -> raise Bad)
       | _ -> raise Bad)
  | Some (TArray (k, ef)) ->
      (match v with
       | VArr es ->
           let es = (match k with
             | ATupleFixed _ ->
                 (match dflt s ef.f_ty with
                  | Some d when chance 0.3 ->
                      let r = List.rev es in
                      let rec cut l n = match l with e :: tl when e = d && n > 0 -> cut tl (n - 1) | _ -> l in
                      let r' = cut r (rint (List.length es + 1)) in
                      if List.length r' < List.length r then mark "tuple-cut";
                      List.rev r'
                  | _ -> es)
             | _ -> es) in
           arr s x ze ef es
       | _ -> raise Bad)
  | Some (TDict (_, ef)) ->
      (match v with
       | VArr es ->
           let es = if List.length es >= 2 && chance 0.3 then begin
             mark "dict-order";
             let a = Array.of_list es in
             for i = Array.length a - 1 downto 1 do
               let j = rint (i + 1) in let tmp = a.(i) in a.(i) <- a.(j); a.(j) <- tmp
             done; Array.to_list a end else es in
           arr s x ze ef es
       | _ -> raise Bad)

and arr s x ze ef es =
  if es = [] then begin
    if ze && not (chance 0.1) then []
    else if chance 0.8 then size_w 0
    else begin mark "empty-explicit";
      let body = size_w 0 @ (if chance 0.3 then (mark "array-junk"; junk ()) else []) in
      size_w (List.length body) @ body end
  end else begin
    let body = size_w (List.length es) @ List.concat (List.map (enc s x ef.f_ty false) es) in
    let body = if chance 0.1 then (mark "array-junk"; body @ junk ()) else body in
    size_w (List.length body) @ body
  end

and obj s x t ze idx fds fs =
  if List.length fds <> List.length fs then raise Bad;
  let items = List.mapi (fun i (fd, ov) ->
    if masked fd then
      (match ov with
       | None -> None
       | Some v -> if x.x_bit t (nat_of_int i) then Some [] else Some (enc s x fd.f_ty false v))
    else
      (match ov with
       | None -> raise Bad
       | Some v ->
           if is_empty_struct s fd.f_ty then None
           else (match enc s x fd.f_ty true v with [] -> None | p -> Some p)))
    (List.combine fds fs) in
  let idx = if idx = 0 then int_of_n (x.x_uidx t) else idx in
  let idxslot = if idx <> 0 then Some (size_w idx)
    else if chance 0.05 then (mark "explicit-index0"; Some (size_w 0)) else None in
  let groups = chunk (idxslot :: items) in
  let n = List.length groups in
  let nonempty g = List.exists (fun o -> o <> None) g in
  let kmin = List.fold_left (fun acc (i, g) -> if nonempty g then i + 1 else acc) 0 (List.mapi (fun i g -> (i, g)) groups) in
  let k = if kmin < n && chance 0.25 then (mark "zero-blocks"; kmin + 1 + rint (n - kmin)) else kmin in
  let body = List.concat (List.mapi (fun i g ->
    if i >= k then [] else begin
      let m = List.length g in
      let blk = bits_byte (List.map (fun o -> o <> None) g) in
      let pl = List.concat (List.map (function Some p -> p | None -> []) g) in
      if i = n - 1 && k = n && chance 0.2 then begin
        let extra = if m < 8 then (rint (1 lsl (8 - m))) lsl m else 0 in
        let more = if extra = 0 || chance 0.5 then [nb (rint 256)] @ junk () else [] in
        mark "unknown-fields";
        (nb (blk lor extra) :: pl) @ (if extra <> 0 then junk () else []) @ more
      end else nb blk :: pl
    end) groups) in
  if body = [] then (if ze && not (chance 0.1) then [] else size_w 0)
  else size_w (List.length body) @ body

let relax (s : schema) (x : tl2x) (seed : int) (t : nat) (v : value) : (coq_N list * string list) option =
  st := Random.State.make [| seed |];
  Hashtbl.reset kinds;
  huge_p := (if seed mod 3 = 0 then 1.0 else 0.15);
  if seed mod 3 = 0 then mark "all-sizes-huge";
  try
    let b = enc s x t false v in
    Some (b, List.sort compare (Hashtbl.fold (fun k () acc -> k :: acc) kinds []))
  with Bad -> None
