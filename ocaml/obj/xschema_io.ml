(* Loader for the generator-facts file written by lib/obj_lib.py next to the schema IR
   (one entry per type instance, same order).  Trusted glue.
     x <tid> plain | x <tid> maybe | x <tid> struct <n>   followed by n lines
     xf <rec 0|1> none|size|mask:<bits>:<also 0|1> *)
open Conv
open ObjRandModel

let parse_use (s : string) : natuse =
  match String.split_on_char ':' s with
  | ["none"] -> UNone
  | ["size"] -> USize
  | ["mask"; bits; also] -> UMask (n_of_dec bits, also = "1")
  | _ -> failwith ("bad use " ^ s)

let load_xschema (path : string) : xdef list =
  let ic = open_in path in
  let lines = ref [] in
  (try while true do lines := input_line ic :: !lines done with End_of_file -> ());
  close_in ic;
  let rec go ls acc =
    match ls with
    | [] -> List.rev acc
    | l :: rest ->
        (match split_ws l with
         | [] -> go rest acc
         | ["x"; _; "plain"] -> go rest (XPlain :: acc)
         | ["x"; _; "maybe"] -> go rest (XMaybe :: acc)
         | ["x"; _; "struct"; n] ->
             let rec take k ls fs = if k = 0 then (List.rev fs, ls) else
               (match ls with
                | x :: r ->
                    (match split_ws x with
                     | ["xf"; rc; u] -> take (k - 1) r ({ xf_rec = (rc = "1"); xf_use = parse_use u } :: fs)
                     | _ -> failwith ("bad xf line " ^ x))
                | [] -> failwith "eof in x struct") in
             let (fs, rest') = take (int_of_string n) rest [] in
             go rest' (XStruct fs :: acc)
         | _ -> failwith ("bad x line: " ^ l))
  in go (List.rev !lines) []
