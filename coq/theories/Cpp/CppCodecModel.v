(** M-Cpp, part 2 -- the TL1 read / write code that `tlgen --language=cpp` generates
    (internal/tlcodegen/type_rw_{struct,union,tuple,maybe,bool,primitive}_cpp.go) over the schema IR
    of Tl1Model, on top of the runtime model CppModel.  Executable definitions only.

    What is transcribed (the rules, not the text of each generated function):
    - struct  `XRead(s, item)`: the fields in declaration order; a field under a mask is read iff
      `(mask & (1<<bit)) != 0` where mask is an earlier # field of the same struct or a nat parameter,
      else reset; every callee failure is `return false` (for struct / union typed fields
      `return s.set_error_unknown_scenario()`, which cannot change an error that is already set and
      -- [cpp_fail_has_error] -- a failing callee has always set one);
      `XReadBoxed`: `if (!s.nat_read_exact_tag(tag)) return false; return XRead(s, item);`
    - union   `XReadBoxed`: `nat_read(tag)`, `switch (tag)` over the variants in declaration order,
      `default: return s.set_error_union_tag()`; a union has no bare reader;
    - vector  `nat_read(len)`, `// TODO - check length sanity`, `item.resize(len)`, the elements in order;
      dynamic tuple `item.resize(nat_n)`; fixed tuple std::array<T, n>: n elements; no length check at all (F31);
    - dictionary (std::map): `nat_read(len)`, `len` times { read an entry; `item[el.key] = el.value` };
    - writers: the mirror image; vector `nat_write(item.size())` (uint32_t truncation), dynamic tuple
      `if (item.size() != nat_n) return s.set_error_sequence_length()`, union `nat_write(tags[index])`,
      map entries in key order.
    Values: the wire values of Tl1Model ([None] = field whose mask bit is clear: the C++ object holds
    the reset value there and never writes it).  `Maybe` is an ordinary two-variant union in the IR;
    the generated C++ reads it with bool_read + std::optional, which observes the same bytes and error
    classes (bool_read's continue-on-foreign-tag is modelled where it matters: at Bool). *)
From Coq Require Export List NArith Bool.
From TLV Require Export Cpp.CppModel.
Export ListNotations.
Open Scope N_scope.

(** * Flat reader, parametric in the primitive reader ([gdec1 dec_prim] is [dec1] without length sanity) *)
Section Flat.
  Variable dp : prim -> bytes -> res (value * bytes).

  Fixpoint gdec1 (fuel : nat) (s : schema) (t : nat) (bare : bool) (ps : list N) (b : bytes) : dres :=
    match fuel with
    | O => None
    | S fuel' =>
        match nth_error s t with
        | None => Some Reject
        | Some (TPrim p) => Some (dp p b)
        | Some (TStruct tag fds) =>
            let go b' :=
              match dec_fields (gdec1 fuel' s) ps fds [] b' with
              | None => None
              | Some (Ok (fs, r)) => Some (Ok (VStruct fs, r))
              | Some Eof => Some Eof
              | Some Reject => Some Reject
              end in
            if bare then go b
            else match nat_r b with
                 | Ok (tg, b') => if tg =? tag then go b' else Some Reject
                 | Eof => Some Eof
                 | Reject => Some Reject
                 end
        | Some (TUnion vars) =>
            if bare then Some Reject else
            match nat_r b with
            | Ok (tg, b') =>
                match find_variant s vars tg O with
                | Some (idx, fds) =>
                    match dec_fields (gdec1 fuel' s) ps fds [] b' with
                    | None => None
                    | Some (Ok (fs, r)) => Some (Ok (VUnion idx fs, r))
                    | Some Eof => Some Eof
                    | Some Reject => Some Reject
                    end
                | None => Some Reject
                end
            | Eof => Some Eof
            | Reject => Some Reject
            end
        | Some (TArray k ef) =>
            if negb bare then Some Reject else
            let eargs := eval_args ps [] (f_args ef) in
            let elems n b' :=
              match dec_elems (gdec1 fuel' s (f_ty ef) (f_bare ef) eargs) n b' with
              | None => None
              | Some (Ok (es, r)) => Some (Ok (VArr es, r))
              | Some Eof => Some Eof
              | Some Reject => Some Reject
              end in
            match k with
            | AVector =>
                match nat_r b with
                | Ok (n, b') => elems n b'
                | Eof => Some Eof
                | Reject => Some Reject
                end
            | ATupleDyn => elems (nth 0 ps 0) b
            | ATupleFixed c => elems c b
            end
        | Some (TDict kp ef) =>
            if negb bare then Some Reject else
            let eargs := eval_args ps [] (f_args ef) in
            match nat_r b with
            | Ok (n, b') =>
                match dec_elems (gdec1 fuel' s (f_ty ef) (f_bare ef) eargs) n b' with
                | None => None
                | Some (Ok (es, r)) => Some (Ok (VArr (fold_left (fun acc e => dict_insert kp e acc) es []), r))
                | Some Eof => Some Eof
                | Some Reject => Some Reject
                end
            | Eof => Some Eof
            | Reject => Some Reject
            end
        end
    end.
End Flat.

(** * The generated readers over a tl_istream *)
Definition cres (A : Type) := option (bool * A * istream).    (* [None] = out of fuel *)

(** the fields of a struct, in order; [acc] = the fields read so far (mask and size arguments refer to them) *)
Fixpoint cpp_dec_fields (rec : nat -> bool -> list N -> istream -> cres value)
         (ps : list N) (fds : list field) (acc : list (option value)) (st : istream)
  : cres (list (option value)) :=
  match fds with
  | [] => Some (true, acc, st)
  | fd :: fds' =>
      if field_present ps acc fd then                (* (mask & (1<<bit)) != 0, or no mask *)
        match rec (f_ty fd) (f_bare fd) (eval_args ps acc (f_args fd)) st with
        | None => None
        | Some (false, v, st') => Some (false, acc, st')                       (* return false *)
        | Some (true, v, st') => cpp_dec_fields rec ps fds' (acc ++ [Some v]) st'
        end
      else cpp_dec_fields rec ps fds' (acc ++ [None]) st                       (* reset *)
  end.

(** `for (auto && el : item) { if (!read(el)) return false; }` over [n] elements, [n] from the wire:
    binary iteration as in Tl1Model.pos_iter, stopping at the first false *)
Definition cstate := (list value * istream)%type.
Definition cstep (rec : istream -> cres value) (st : cstate) : option (bool * cstate) :=
  match rec (snd st) with
  | None => None
  | Some (ok, v, s') => Some (ok, (if ok then v :: fst st else fst st, s'))
  end.
Definition cbind (x : option (bool * cstate)) (f : cstate -> option (bool * cstate)) : option (bool * cstate) :=
  match x with
  | None => None
  | Some (true, st) => f st
  | Some (false, st) => Some (false, st)
  end.
Fixpoint cpos_iter (f : cstate -> option (bool * cstate)) (p : positive) (st : cstate) : option (bool * cstate) :=
  match p with
  | xH => f st
  | xO p' => cbind (cpos_iter f p' st) (cpos_iter f p')
  | xI p' => cbind (f st) (fun st1 => cbind (cpos_iter f p' st1) (cpos_iter f p'))
  end.
Definition cpp_dec_elems (rec : istream -> cres value) (n : N) (st : istream) : cres (list value) :=
  match n with
  | N0 => Some (true, [], st)
  | Npos p =>
      match cpos_iter (cstep rec) p ([], st) with
      | None => None
      | Some (ok, (acc, st')) => Some (ok, rev acc, st')
      end
  end.

(** `switch (tag)` over the variants of a union, in declaration order *)
Fixpoint cpp_switch (s : schema) (vars : list nat) (tag : N) (idx : nat) : option (nat * list field) :=
  match vars with
  | [] => None                                                                  (* default: *)
  | vt :: vars' =>
      match nth_error s vt with
      | Some (TStruct tg fds) => if tag =? tg then Some (idx, fds) else cpp_switch s vars' tag (S idx)
      | _ => cpp_switch s vars' tag (S idx)
      end
  end.

Definition vdefault : value := VNum 0.     (* content of an object that could not be read: never observed *)

Fixpoint cpp_dec1 (fuel : nat) (s : schema) (t : nat) (bare : bool) (ps : list N) (st : istream) : cres value :=
  match fuel with
  | O => None
  | S fuel' =>
      match nth_error s t with
      | None => Some (false, vdefault, i_set_error E_UNKNOWN st)          (* no such type: no code *)
      | Some (TPrim p) => Some (cpp_read_prim p st)
      | Some (TStruct tag fds) =>
          let go st1 :=
            match cpp_dec_fields (cpp_dec1 fuel' s) ps fds [] st1 with
            | None => None
            | Some (ok, fs, st2) => Some (ok, VStruct fs, st2)
            end in
          if bare then go st
          else
            let '(ok, st1) := cpp_nat_read_exact_tag tag st in
            if negb ok then Some (false, vdefault, st1) else go st1
      | Some (TUnion vars) =>
          if bare then Some (false, vdefault, i_set_error E_UNKNOWN st) else     (* a union has no bare reader *)
          let '(ok, tg, st1) := cpp_nat_read st in
          if negb ok then Some (false, vdefault, st1) else
          match cpp_switch s vars tg O with
          | Some (idx, fds) =>
              match cpp_dec_fields (cpp_dec1 fuel' s) ps fds [] st1 with
              | None => None
              | Some (ok2, fs, st2) => Some (ok2, VUnion idx fs, st2)
              end
          | None => Some (false, vdefault, i_set_error E_TAG st1)              (* set_error_union_tag *)
          end
      | Some (TArray k ef) =>
          if negb bare then Some (false, vdefault, i_set_error E_UNKNOWN st) else  (* arrays have no boxed reader *)
          let eargs := eval_args ps [] (f_args ef) in
          let elems n st1 :=
            match cpp_dec_elems (cpp_dec1 fuel' s (f_ty ef) (f_bare ef) eargs) n st1 with
            | None => None
            | Some (ok, es, st2) => Some (ok, VArr es, st2)
            end in
          match k with
          | AVector =>
              let '(ok, n, st1) := cpp_nat_read st in
              if negb ok then Some (false, vdefault, st1) else elems n st1   (* TODO - check length sanity *)
          | ATupleDyn => elems (nth 0 ps 0) st
          | ATupleFixed c => elems c st
          end
      | Some (TDict kp ef) =>
          if negb bare then Some (false, vdefault, i_set_error E_UNKNOWN st) else
          let eargs := eval_args ps [] (f_args ef) in
          let '(ok, n, st1) := cpp_nat_read st in
          if negb ok then Some (false, vdefault, st1) else
          match cpp_dec_elems (cpp_dec1 fuel' s (f_ty ef) (f_bare ef) eargs) n st1 with
          | None => None
          | Some (ok2, es, st2) =>
              (* item[el.key] = el.value, entry by entry: std::map keeps the keys ordered, an equal key is replaced *)
              Some (ok2, VArr (fold_left (fun acc e => dict_insert kp e acc) es []), st2)
          end
      end
  end.

(** * The generated writers over a tl_ostream.  [None] = the value is not an object of the C++ type
    (wrong shape, a present field without value, an unordered map): nothing to run. *)
Definition wres := option (bool * ostream).

Section CEncHelpers.
  Variable rec : nat -> bool -> list N -> value -> ostream -> wres.
  Variable ps : list N.
  Variable all : list (option value).

  Fixpoint cpp_enc_fields (fds : list field) (vs : list (option value)) (o : ostream) {struct vs} : wres :=
    match fds, vs with
    | [], [] => Some (true, o)
    | fd :: fds', ov :: vs' =>
        let present := field_present ps all fd in
        match ov with
        | Some v =>
            if present then
              match rec (f_ty fd) (f_bare fd) (eval_args ps all (f_args fd)) v o with
              | None => None
              | Some (false, o1) => Some (false, o1)
              | Some (true, o1) => cpp_enc_fields fds' vs' o1
              end
            else None
        | None => if present then None else cpp_enc_fields fds' vs' o
        end
    | _, _ => None
    end.
End CEncHelpers.

Section CEncElems.
  Variable rec : value -> ostream -> wres.
  Fixpoint cpp_enc_elems (es : list value) (o : ostream) : wres :=
    match es with
    | [] => Some (true, o)
    | e :: es' =>
        match rec e o with
        | None => None
        | Some (false, o1) => Some (false, o1)
        | Some (true, o1) => cpp_enc_elems es' o1
        end
    end.
End CEncElems.

Definition wthen (r : bool * ostream) (f : ostream -> wres) : wres :=
  let '(ok, o1) := r in if negb ok then Some (false, o1) else f o1.

Fixpoint cpp_enc1 (s : schema) (t : nat) (bare : bool) (ps : list N) (v : value) (o : ostream) {struct v} : wres :=
  match nth_error s t with
  | None => None
  | Some (TPrim p) => cpp_write_prim p v o
  | Some (TStruct tag fds) =>
      match v with
      | VStruct fs =>
          let body o1 := cpp_enc_fields (fun t' b' ps' v' o' => cpp_enc1 s t' b' ps' v' o') ps fs fds fs o1 in
          if bare then body o else wthen (cpp_nat_write tag o) body
      | _ => None
      end
  | Some (TUnion vars) =>
      match v with
      | VUnion idx fs =>
          if bare then None else
          match nth_error vars idx with
          | Some vt =>
              match nth_error s vt with
              | Some (TStruct tag fds) =>
                  wthen (cpp_nat_write tag o)                                   (* nat_write(tbl_tl_tag[index]) *)
                        (cpp_enc_fields (fun t' b' ps' v' o' => cpp_enc1 s t' b' ps' v' o') ps fs fds fs)
              | _ => None
              end
          | None => None
          end
      | _ => None
      end
  | Some (TArray k ef) =>
      match v with
      | VArr es =>
          if negb bare then None else
          let n := lenN es in
          let eargs := eval_args ps [] (f_args ef) in
          let body := cpp_enc_elems (fun e o' => cpp_enc1 s (f_ty ef) (f_bare ef) eargs e o') es in
          match k with
          | AVector => wthen (cpp_nat_write n o) body                           (* nat_write(item.size()) *)
          | ATupleDyn => if negb (n =? nth 0 ps 0) then Some (false, o_set_error E_SEQLEN o) else body o
          | ATupleFixed c => if n =? c then body o else None                     (* std::array<T, c> *)
          end
      | _ => None
      end
  | Some (TDict kp ef) =>
      match v with
      | VArr es =>
          if negb bare then None else
          if negb (keys_sorted kp es) then None else                            (* not a std::map *)
          let eargs := eval_args ps [] (f_args ef) in
          wthen (cpp_nat_write (lenN es) o)
                (cpp_enc_elems (fun e o' => cpp_enc1 s (f_ty ef) (f_bare ef) eargs e o') es)
      | _ => None
      end
  end.

(** * What harness/cpp/driver.cpp prints for `rw1`: read a fresh object, write it back *)
Inductive crw_out :=
| CRwOk (consumed : nat) (rewritten : option bytes)
| CRwEof
| CRwReject
| CRwFuel.

(** the output connector of the driver: a growing string -- here: one buffer with [room] bytes of garbage *)
Definition ostream_of (room : nat) : ostream := mkO [] [] [repeat 170 room] None.

Definition cpp_rw1 (fuel : nat) (s : schema) (t : nat) (bare : bool) (b : bytes) : crw_out :=
  match cpp_dec1 fuel s t bare [] (istream_of b) with
  | None => CRwFuel
  | Some r =>
      match iobs r with
      | Ok (v, rest) =>
          CRwOk (length b - length rest)
                (match cpp_enc1 s t bare [] v (ostream_of (2 * length b + 64)) with
                 | Some w => oobs w
                 | None => None
                 end)
      | Eof => CRwEof
      | Reject => CRwReject
      end
  end.
