(** M-Cpp [Cpp] -- the C++ TL1 runtime `basictl` (pkg/basictl_cpp/io_streams.{h,cpp}; the copy that
    `tlgen --language=cpp` emits lives in internal/tlcodegen/helpers_cpp_generated.go) as executable
    Gallina, transcribed statement by statement: same branches, same order, same arithmetic
    (size_t = 64 bit, uint32_t wrap-around, shifts and masks as written).
    Executable definitions only; proofs live in CppProofs.v.

    Every literal and named constant the transcription uses comes from [Gen/CppConsts.v]
    (T-const, regenerated on every run from BOTH copies of the C++ source: [cpp_*] = the embedded
    copy that is actually emitted and compiled, [pkg_*] = pkg/basictl_cpp).

    Streams.  A [tl_istream] reads through a window [ptr, end_block) of the current buffer and
    asks its connector for the next buffer when the window is exhausted ([grow_buffer]).
    The model keeps: the window content [i_cur], the buffers the connector will hand out next
    [i_more] (after the last one the connector returns an empty span, as
    [tl_istream_string::get_buffer] does), and the sticky [error] field.  Connector errors
    ([tl_connector_error]) are not modelled: the string connectors used by the harness never
    return one.  A [tl_ostream] is the same with a writable window [o_buf] (its current -- garbage --
    content matters: the fast paths write it out of order) and [o_done] = every byte before [ptr]. *)
From Coq Require Export List NArith Bool.
From TLV Require Export Gen.CppConsts Prim.PrimModel Tl1.Tl1Model.
Export ListNotations.
Open Scope N_scope.

(** enum class tl_error_type (errors.h) *)
Inductive cerr := E_EOF | E_SEQLEN | E_PADDING | E_TAG | E_UNKNOWN.

Definition takeN {A} (n : N) (l : list A) : list A := firstn (N.to_nat n) l.
Definition dropN {A} (n : N) (l : list A) : list A := skipn (N.to_nat n) l.

(** unsigned negation and complement at the width of the C++ type *)
Definition two64 : N := 18446744073709551616.
Definition two32 : N := 4294967296.
Definition neg64 (x : N) : N := (two64 - x mod two64) mod two64.     (* -x on size_t *)
Definition not32 (x : N) : N := N.lxor (x mod two32) (two32 - 1).    (* ~x on unsigned int *)

(** comparison operators of the C++ source, extracted by T-const as codes (Gen/CppConsts.v:
    "<" 0, "<=" 1, ">" 2, ">=" 3, "==" 4, "!=" 5): [cmp_op code a b] is `a OP b` *)
Definition cmp_op (c : N) (a b : N) : bool :=
  if c =? 0 then a <? b else if c =? 1 then a <=? b else if c =? 2 then b <? a else if c =? 3 then b <=? a
  else if c =? 4 then a =? b else negb (a =? b).

(** * tl_istream *)
Record istream := mkI { i_cur : bytes; i_more : list bytes; i_err : option cerr }.

(** set_error: `if (!error.has_value()) error = ...; return false;` *)
Definition i_set_error (e : cerr) (s : istream) : istream :=
  match i_err s with
  | Some _ => s
  | None => mkI (i_cur s) (i_more s) (Some e)
  end.

(** grow_buffer: ptr = end_block; provider->advance(...); next buffer (or an empty span) *)
Definition i_grow (s : istream) : istream :=
  match i_more s with
  | [] => mkI [] [] (i_err s)
  | b :: m => mkI b m (i_err s)
  end.

(** ensure_byte *)
Definition cpp_ensure_byte (s : istream) : bool * istream :=
  match i_cur s with
  | [] =>                                    (* ptr >= end_block *)
      let s1 := i_grow s in
      match i_cur s1 with
      | [] => (false, i_set_error E_EOF s1)   (* ptr == end_block *)
      | _ :: _ => (true, s1)
      end
  | _ :: _ => (true, s)
  end.

(** the loop shared (textually, twice) by fetch_data2 and fetch_data_append:
      for (; ptr + size > end_block;) { copy [ptr, end_block); size -= end_block - ptr; grow_buffer();
                                        if (ptr == end_block) return set_error_eof(); }
      copy size bytes; ptr += size; return true;
    result: the bytes copied ([None] = EOF), the new window, the remaining buffers *)
Fixpoint fetch_loop (cur : bytes) (more : list bytes) (size : N) (acc : bytes) {struct more}
  : option bytes * bytes * list bytes :=
  if lenN cur <? size then
    match more with
    | [] => (None, [], [])
    | b :: m =>
        match b with
        | [] => (None, [], m)
        | _ :: _ => fetch_loop b m (size - lenN cur) (acc ++ cur)
        end
    end
  else (Some (acc ++ takeN size cur), dropN size cur, more).

Definition cpp_fetch_data2 (size : N) (s : istream) : bool * bytes * istream :=
  match fetch_loop (i_cur s) (i_more s) size [] with
  | (Some d, c, m) => (true, d, mkI c m (i_err s))
  | (None, c, m) => (false, [], i_set_error E_EOF (mkI c m (i_err s)))
  end.

(** fetch_data_append(value, size): same loop, destination = end of [value] *)
Definition cpp_fetch_data_append (value : bytes) (size : N) (s : istream) : bool * bytes * istream :=
  match fetch_loop (i_cur s) (i_more s) size [] with
  | (Some d, c, m) => (true, value ++ d, mkI c m (i_err s))
  | (None, c, m) => (false, value, i_set_error E_EOF (mkI c m (i_err s)))
  end.

(** fetch_data *)
Definition cpp_fetch_data (size : N) (s : istream) : bool * bytes * istream :=
  if lenN (i_cur s) <? size then cpp_fetch_data2 size s
  else (true, takeN size (i_cur s), mkI (dropN size (i_cur s)) (i_more s) (i_err s)).

(** fetch_pad: uint32_t x = 0; fetch_data(&x, len); x != 0 -> string_padding *)
Definition cpp_fetch_pad (len : N) (s : istream) : bool * istream :=
  let '(ok, d, s1) := cpp_fetch_data len s in
  if negb ok then (false, s1)
  else if cmp_op cpp_fp_cmp (cpp_fp_word_init + le_val d) 0 then (false, i_set_error E_PADDING s1)
  else (true, s1).

(** nat_read / int_read / long_read / float_read / double_read (io_streams.h): one shape,
    the size constant differs.  The value is the raw little-endian bit pattern. *)
Definition cpp_scalar_read (sz : N) (s : istream) : bool * N * istream :=
  if lenN (i_cur s) <? sz then
    let '(ok, d, s1) := cpp_fetch_data2 sz s in (ok, le_val d, s1)
  else (true, le_val (takeN sz (i_cur s)), mkI (dropN sz (i_cur s)) (i_more s) (i_err s)).

Definition cpp_nat_read := cpp_scalar_read cpp_nat_read_size.
Definition cpp_int_read := cpp_scalar_read cpp_int_read_size.
Definition cpp_long_read := cpp_scalar_read cpp_long_read_size.
Definition cpp_float_read := cpp_scalar_read cpp_float_read_size.
Definition cpp_double_read := cpp_scalar_read cpp_double_read_size.

(** nat_read_exact_tag *)
Definition cpp_nat_read_exact_tag (tag : N) (s : istream) : bool * istream :=
  let '(ok, actual, s1) := cpp_nat_read s in
  if negb ok then (false, s1)
  else if negb (tag =? actual) then (false, i_set_error E_TAG s1)
  else (true, s1).

(** bool_read.  NB: on a foreign tag it records the error but RETURNS TRUE with value = false
    (`set_error(...)` is called without `return`). *)
Definition cpp_bool_read (f t : N) (s : istream) : bool * bool * istream :=
  let '(ok, tag, s1) := cpp_nat_read s in
  if negb ok then (false, false, s1)
  else if tag =? t then (true, true, s1)
  else
    let s2 := if negb (tag =? f) then i_set_error E_TAG s1 else s1 in
    (true, false, s2).

(** string_read *)
Definition cpp_string_read (s : istream) : bool * bytes * istream :=
  let '(ok0, s1) := cpp_ensure_byte s in
  if negb ok0 then (false, [], s1) else
  match i_cur s1 with
  | [] => (false, [], s1)                              (* not reachable after ensure_byte *)
  | b0 :: _ =>
      let len := b0 in                                 (* size_t(static_cast<unsigned char>( *ptr)) *)
      if cmp_op cpp_sr_cmp_big len cpp_TL_BIG_STRING_MARKER then
        if cmp_op cpp_sr_cmp_huge len cpp_TL_BIG_STRING_MARKER then (false, [], i_set_error E_SEQLEN s1) else
        let '(ok1, len32, s2) := cpp_nat_read s1 in
        if negb ok1 then (false, [], s2) else
        let len := N.shiftr len32 cpp_sr_len_shift in
        let '(ok2, v, s3) := cpp_fetch_data_append [] len s2 in
        if negb ok2 then (false, v, s3) else
        let '(ok3, s4) := cpp_fetch_pad (N.land (neg64 len) cpp_sr_pad_mask) s3 in
        if negb ok3 then (false, v, s4) else (true, v, s4)
      else
        let pad := N.land (neg64 (len + cpp_sr_len_byte)) cpp_sr_pad_mask in
        let fullLen := cpp_sr_len_byte + len + pad in
        if cmp_op cpp_sr_cmp_fit fullLen (lenN (i_cur s1)) then                    (* ptr + fullLen > end_block *)
          let s2 := mkI (dropN cpp_sr_len_byte (i_cur s1)) (i_more s1) (i_err s1) in    (* ptr += 1 *)
          let '(ok2, v, s3) := cpp_fetch_data_append [] len s2 in
          if negb ok2 then (false, v, s3) else
          let '(ok3, s4) := cpp_fetch_pad pad s3 in
          if negb ok3 then (false, v, s4) else (true, v, s4)
        else
          (* fast path: the whole string is in the window *)
          let x := le_val (takeN cpp_sr_word (dropN (fullLen - cpp_sr_word) (i_cur s1))) in
          if cmp_op cpp_sr_cmp_pad (N.land x (not32 (N.shiftr cpp_sr_ones (cpp_sr_byte_bits * pad)))) 0
          then (false, [], i_set_error E_PADDING s1)
          else (true, takeN len (dropN cpp_sr_len_byte (i_cur s1)),
                mkI (dropN fullLen (i_cur s1)) (i_more s1) (i_err s1))
  end.

(** what harness/cpp observes of a read: `if (!ok || is.has_error()) return classify(is.get_error())`,
    STREAM_EOF -> eof, any other error (or none) -> reject; otherwise the value and the unread input *)
Definition i_rest (s : istream) : bytes := i_cur s ++ concat (i_more s).

Definition iobs {A} (r : bool * A * istream) : res (A * bytes) :=
  let '(ok, v, s) := r in
  match i_err s with
  | Some E_EOF => Eof
  | Some _ => Reject
  | None => if ok then Ok (v, i_rest s) else Reject
  end.

Definition iobs0 (r : bool * istream) : res (unit * bytes) :=
  let '(ok, s) := r in iobs (ok, tt, s).

(** a fresh stream over a string connector: null window, the whole string is the first buffer *)
Definition istream_of (b : bytes) : istream :=
  mkI [] (match b with [] => [] | _ :: _ => [b] end) None.

(** the connector of harness/cpp/primdriver.cpp: buffers of at most [k] bytes *)
Fixpoint chunks_aux (fuel : nat) (k : nat) (b : bytes) : list bytes :=
  match fuel with
  | O => []
  | S fuel' =>
      match b with
      | [] => []
      | _ :: _ => firstn k b :: chunks_aux fuel' k (skipn k b)
      end
  end.
Definition chunks (k : nat) (b : bytes) : list bytes :=
  match k with O => (match b with [] => [] | _ :: _ => [b] end) | S _ => chunks_aux (length b) k b end.
Definition istream_chunked (k : nat) (b : bytes) : istream := mkI [] (chunks k b) None.

(** * tl_ostream *)
Record ostream := mkO { o_done : bytes; o_buf : bytes; o_more : list bytes; o_err : option cerr }.

Definition o_set_error (e : cerr) (o : ostream) : ostream :=
  match o_err o with
  | Some _ => o
  | None => mkO (o_done o) (o_buf o) (o_more o) (Some e)
  end.

(** memory writes into the window, relative to [ptr]; [ptr += n] *)
Definition write_at (buf : bytes) (off : N) (d : bytes) : bytes :=
  takeN off buf ++ d ++ dropN (off + lenN d) buf.
Definition o_write_at (off : N) (d : bytes) (o : ostream) : ostream :=
  mkO (o_done o) (write_at (o_buf o) off d) (o_more o) (o_err o).
Definition o_advance (n : N) (o : ostream) : ostream :=
  mkO (o_done o ++ takeN n (o_buf o)) (dropN n (o_buf o)) (o_more o) (o_err o).

(** store_data2:
      for (; ptr + size > end_block;) { memcpy(ptr, data, end_block - ptr); data += ..; size -= ..; grow_buffer();
                                        if (ptr == end_block) return set_error_eof(); }
      memcpy(ptr, data, size); ptr += size; return true; *)
Fixpoint store_loop (done buf : bytes) (more : list bytes) (data : bytes) {struct more}
  : bool * bytes * bytes * list bytes :=
  if lenN buf <? lenN data then
    let k := lenN buf in
    let done1 := done ++ takeN k data in
    match more with
    | [] => (false, done1, [], [])
    | b :: m =>
        match b with
        | [] => (false, done1, [], m)
        | _ :: _ => store_loop done1 b m (dropN k data)
        end
    end
  else (true, done ++ takeN (lenN data) (write_at buf 0 data), dropN (lenN data) buf, more).

Definition cpp_store_data2 (data : bytes) (o : ostream) : bool * ostream :=
  match store_loop (o_done o) (o_buf o) (o_more o) data with
  | (true, d, b, m) => (true, mkO d b m (o_err o))
  | (false, d, b, m) => (false, o_set_error E_EOF (mkO d b m (o_err o)))
  end.

(** store_data *)
Definition cpp_store_data (data : bytes) (o : ostream) : bool * ostream :=
  if lenN (o_buf o) <? lenN data then cpp_store_data2 data o
  else (true, o_advance (lenN data) (o_write_at 0 data o)).

(** store_pad:
      for (; ptr + size > end_block;) { memset(ptr, 0, end_block - ptr); size -= ..; grow_buffer(); EOF check }
      if (size != 0) { ptr[0] = 0; ptr[size - 1] = 0; ptr[size / 2] = 0; ptr += size; } *)
Fixpoint pad_loop (done buf : bytes) (more : list bytes) (size : N) {struct more}
  : bool * bytes * bytes * list bytes * N :=
  if lenN buf <? size then
    let k := lenN buf in
    let done1 := done ++ zeros k in
    match more with
    | [] => (false, done1, [], [], size - k)
    | b :: m =>
        match b with
        | [] => (false, done1, [], m, size - k)
        | _ :: _ => pad_loop done1 b m (size - k)
        end
    end
  else (true, done, buf, more, size).

Definition cpp_store_pad (size : N) (o : ostream) : bool * ostream :=
  match pad_loop (o_done o) (o_buf o) (o_more o) size with
  | (false, d, b, m, _) => (false, o_set_error E_EOF (mkO d b m (o_err o)))
  | (true, d, b, m, sz) =>
      let o1 := mkO d b m (o_err o) in
      if negb (sz =? 0) then
        (true, o_advance sz (o_write_at (sz / 2) [0] (o_write_at (sz - 1) [0] (o_write_at 0 [0] o1))))
      else (true, o1)
  end.

(** nat_write / int_write / long_write / float_write / double_write: [v] is the raw bit pattern;
    the parameter type (uint32_t, int64_t, ...) truncates it to [sz] bytes *)
Definition cpp_scalar_write (sz : N) (v : N) (o : ostream) : bool * ostream :=
  let data := le_bytes (N.to_nat sz) v in
  if lenN (o_buf o) <? sz then cpp_store_data2 data o
  else (true, o_advance sz (o_write_at 0 data o)).

Definition cpp_nat_write := cpp_scalar_write cpp_nat_write_size.
Definition cpp_int_write := cpp_scalar_write cpp_int_write_size.
Definition cpp_long_write := cpp_scalar_write cpp_long_write_size.
Definition cpp_float_write := cpp_scalar_write cpp_float_write_size.
Definition cpp_double_write := cpp_scalar_write cpp_double_write_size.

(** string_write *)
Definition cpp_string_write (value : bytes) (o : ostream) : bool * ostream :=
  let len := lenN value in
  if cmp_op cpp_sw_cmp_tiny len cpp_TL_MAX_TINY_STRING_LEN then
    if cmp_op cpp_sw_cmp_big len cpp_TL_BIG_STRING_LEN then (false, o_set_error E_SEQLEN o) else
    let p := (N.lor (N.shiftl len cpp_sw_len_shift) cpp_TL_BIG_STRING_MARKER) mod two32 in   (* uint32_t p *)
    let '(ok1, o1) := cpp_store_data (le_bytes (N.to_nat cpp_sw_hdr_size) p) o in
    if negb ok1 then (false, o1) else
    let '(ok2, o2) := cpp_store_data value o1 in
    if negb ok2 then (false, o2) else
    let '(ok3, o3) := cpp_store_pad (N.land (neg64 len) cpp_sw_pad_mask) o2 in
    if negb ok3 then (false, o3) else (true, o3)
  else
    let pad := N.land (neg64 (len + cpp_sw_len_byte)) cpp_sw_pad_mask in
    let fullLen := cpp_sw_len_byte + len + pad in
    if cmp_op cpp_sw_cmp_fit fullLen (lenN (o_buf o)) then                       (* ptr + fullLen > end_block *)
      let p := len mod 256 in                                     (* static_cast<unsigned char>(len) *)
      let '(ok1, o1) := cpp_store_data (le_bytes (N.to_nat cpp_sw_tiny_hdr_size) p) o in
      if negb ok1 then (false, o1) else
      let '(ok2, o2) := cpp_store_data value o1 in
      if negb ok2 then (false, o2) else
      let '(ok3, o3) := cpp_store_pad pad o2 in
      if negb ok3 then (false, o3) else (true, o3)
    else
      (* fast path: padding word first, then the length byte, then the content *)
      let o1 := o_write_at (fullLen - cpp_sw_word) (le_bytes (N.to_nat cpp_sw_word) 0) o in
      let o2 := o_write_at 0 [len mod 256] o1 in
      let o3 := o_write_at cpp_sw_len_byte value o2 in
      (true, o_advance fullLen o3).

(** what harness/cpp observes of a write: `if (!ok || os.has_error()) writeerr`, else every byte before ptr *)
Definition oobs (r : bool * ostream) : option bytes :=
  let '(ok, o) := r in
  match o_err o with
  | Some _ => None
  | None => if ok then Some (o_done o) else None
  end.

(** room left in the window and in the buffers still to come *)
Definition o_room (o : ostream) : N := lenN (o_buf o) + lenN (concat (o_more o)).

(** * The primitives as the generator uses them (internal/tlcodegen/tlgen.go: cppFunctionSuffix
    nat/int/long/float/double/string; type_rw_bool_cpp.go: bool_read(item, false_tag, true_tag) and
    nat_write(item ? true_tag : false_tag)), over the schema IR's [prim] and [value] (Tl1Model).
    [PNoTL1] (byte, bit, uint64) has no C++ TL1 code at all: modelled as an error. *)
Definition cpp_read_prim (p : prim) (s : istream) : bool * value * istream :=
  match p with
  | PNat => let '(ok, n, s1) := cpp_nat_read s in (ok, VNum n, s1)
  | PInt => let '(ok, n, s1) := cpp_int_read s in (ok, VNum n, s1)
  | PFloat => let '(ok, n, s1) := cpp_float_read s in (ok, VNum n, s1)
  | PLong => let '(ok, n, s1) := cpp_long_read s in (ok, VNum n, s1)
  | PDouble => let '(ok, n, s1) := cpp_double_read s in (ok, VNum n, s1)
  | PString => let '(ok, v, s1) := cpp_string_read s in (ok, VStr v, s1)
  | PBool f t => let '(ok, b, s1) := cpp_bool_read f t s in (ok, VBool b, s1)
  | PNoTL1 => (false, VNum 0, i_set_error E_UNKNOWN s)
  end.

(** [None]: the value does not have the C++ type of the primitive (it cannot even be passed) *)
Definition cpp_write_prim (p : prim) (v : value) (o : ostream) : option (bool * ostream) :=
  match p, v with
  | PNat, VNum n => Some (cpp_nat_write n o)
  | PInt, VNum n => Some (cpp_int_write n o)
  | PFloat, VNum n => Some (cpp_float_write n o)
  | PLong, VNum n => Some (cpp_long_write n o)
  | PDouble, VNum n => Some (cpp_double_write n o)
  | PString, VStr b => Some (cpp_string_write b o)
  | PBool f t, VBool b => Some (cpp_nat_write (if b then t else f) o)
  | _, _ => None
  end.

(** the C++ string reader as a function of the unread input (CppProofs.cpp_string_read_spec: this is
    what [cpp_string_read] computes, for every split into buffers), and the primitives likewise *)
Definition cpp_str_flat (r : bytes) : res (bytes * bytes) :=
  match r with
  | [] => Eof
  | b0 :: r1 =>
      if cpp_TL_BIG_STRING_MARKER <=? b0 then
        if cpp_TL_BIG_STRING_MARKER <? b0 then Reject else
        match r1 with
        | x1 :: x2 :: x3 :: r4 => let l := le_val [x1; x2; x3] in str1_body l l r4
        | _ => Eof
        end
      else str1_body b0 (b0 + 1) r1
  end.

Definition cpp_prim_flat (p : prim) (b : bytes) : res (value * bytes) :=
  match p with
  | PString => match cpp_str_flat b with Ok (s, r) => Ok (VStr s, r) | Eof => Eof | Reject => Reject end
  | _ => dec_prim p b
  end.
