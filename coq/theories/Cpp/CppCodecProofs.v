(** Proofs about the model of the generated C++ TL1 code [CppCodecModel]:
    (1) over every split of the input into connector buffers, with the sticky error field and
        bool_read's continue-after-error, the generated reader observes exactly the flat function
        [gdec1 cpp_prim_flat] of the unread input;
    (2) [gdec1 dec_prim] is Go's [dec1] (no length sanity), and whatever Go reads from an input shorter
        than 2^24 bytes C++ reads identically;
    (3) the generated writer appends exactly the bytes of [enc1]. *)
From Coq Require Import List NArith Bool Lia ZArith ZifyN ZifyNat ZifyBool.
From TLV Require Import Prim.PrimModel Prim.PrimProofs Tl1.Tl1Model Tl1.Tl1Proofs Cpp.CppModel Cpp.CppProofs Cpp.CppCodecModel.
Import ListNotations.
Open Scope N_scope.
Ltac Zify.zify_post_hook ::= Z.div_mod_to_equations.

(** * The error field is sticky *)
Lemma set_error_sticky e' s e : i_err s = Some e -> i_err (i_set_error e' s) = Some e.
Proof. unfold i_set_error. intros H. now rewrite H. Qed.

Ltac stk := repeat match goal with |- context [if ?c then _ else _] => destruct c end;
            cbn [fst snd]; try assumption; try (apply set_error_sticky; assumption).

Lemma ensure_byte_sticky s e : i_err s = Some e -> i_err (snd (cpp_ensure_byte s)) = Some e.
Proof.
  intros H. unfold cpp_ensure_byte, i_grow. destruct (i_cur s); [|exact H].
  destruct (i_more s) as [|b m]; cbn; [now apply set_error_sticky|].
  destruct b; cbn; [now apply set_error_sticky|exact H].
Qed.

Lemma fetch_data2_sticky n s e : i_err s = Some e -> i_err (snd (cpp_fetch_data2 n s)) = Some e.
Proof.
  intros H. unfold cpp_fetch_data2. destruct (fetch_loop _ _ _ _) as [[[d|] c] m]; cbn; [exact H|].
  now apply set_error_sticky.
Qed.

Lemma fetch_data_append_sticky v n s e : i_err s = Some e -> i_err (snd (cpp_fetch_data_append v n s)) = Some e.
Proof.
  intros H. unfold cpp_fetch_data_append. destruct (fetch_loop _ _ _ _) as [[[d|] c] m]; cbn; [exact H|].
  now apply set_error_sticky.
Qed.

Lemma fetch_data_sticky n s e : i_err s = Some e -> i_err (snd (cpp_fetch_data n s)) = Some e.
Proof.
  intros H. unfold cpp_fetch_data. destruct (lenN (i_cur s) <? n); [now apply fetch_data2_sticky|exact H].
Qed.

Lemma fetch_pad_sticky n s e : i_err s = Some e -> i_err (snd (cpp_fetch_pad n s)) = Some e.
Proof.
  intros H. unfold cpp_fetch_pad. pose proof (fetch_data_sticky n s e H) as H1.
  destruct (cpp_fetch_data n s) as [[ok d] s1]. cbn [snd] in H1. stk.
Qed.

Lemma scalar_read_sticky sz s e : i_err s = Some e -> i_err (snd (cpp_scalar_read sz s)) = Some e.
Proof.
  intros H. unfold cpp_scalar_read. destruct (lenN (i_cur s) <? sz); [|exact H].
  pose proof (fetch_data2_sticky sz s e H) as H1. destruct (cpp_fetch_data2 sz s) as [[ok d] s1]. exact H1.
Qed.

Lemma exact_tag_sticky tag s e : i_err s = Some e -> i_err (snd (cpp_nat_read_exact_tag tag s)) = Some e.
Proof.
  intros H. unfold cpp_nat_read_exact_tag, cpp_nat_read. pose proof (scalar_read_sticky cpp_nat_read_size s e H) as H1.
  destruct (cpp_scalar_read cpp_nat_read_size s) as [[ok n] s1]. cbn [snd] in H1. stk.
Qed.

Lemma bool_read_sticky f t s e : i_err s = Some e -> i_err (snd (cpp_bool_read f t s)) = Some e.
Proof.
  intros H. unfold cpp_bool_read, cpp_nat_read. pose proof (scalar_read_sticky cpp_nat_read_size s e H) as H1.
  destruct (cpp_scalar_read cpp_nat_read_size s) as [[ok n] s1]. cbn [snd] in H1. stk.
Qed.

Lemma body_sticky (len pad : N) s2 e : i_err s2 = Some e ->
  i_err (snd (let '(ok2, v, s3) := cpp_fetch_data_append [] len s2 in
              if negb ok2 then (false, v, s3) else
              let '(ok3, s4) := cpp_fetch_pad pad s3 in
              if negb ok3 then (false, v, s4) else (true, v, s4))) = Some e.
Proof.
  intros H. pose proof (fetch_data_append_sticky [] len s2 e H) as H1.
  destruct (cpp_fetch_data_append [] len s2) as [[ok2 v] s3]. cbn [snd] in H1. destruct ok2; cbn [negb]; [|exact H1].
  pose proof (fetch_pad_sticky pad s3 e H1) as H2. destruct (cpp_fetch_pad pad s3) as [ok3 s4]. cbn [snd] in H2.
  destruct ok3; exact H2.
Qed.

Lemma string_read_sticky s e : i_err s = Some e -> i_err (snd (cpp_string_read s)) = Some e.
Proof.
  intros H. unfold cpp_string_read. pose proof (ensure_byte_sticky s e H) as H0.
  destruct (cpp_ensure_byte s) as [ok0 s1]. cbn in H0. destruct ok0; cbn [negb]; [|exact H0].
  destruct (i_cur s1) as [|b0 c]; [exact H0|].
  destruct (cmp_op cpp_sr_cmp_big b0 cpp_TL_BIG_STRING_MARKER).
  - destruct (cmp_op cpp_sr_cmp_huge b0 cpp_TL_BIG_STRING_MARKER); [now apply set_error_sticky|].
    unfold cpp_nat_read. pose proof (scalar_read_sticky cpp_nat_read_size s1 e H0) as H1.
    destruct (cpp_scalar_read cpp_nat_read_size s1) as [[ok1 n] s2]. cbn in H1. destruct ok1; cbn [negb]; [|exact H1].
    now apply body_sticky.
  - destruct (cmp_op cpp_sr_cmp_fit _ _).
    + now apply body_sticky.
    + destruct (cmp_op cpp_sr_cmp_pad _ _); [now apply set_error_sticky|exact H0].
Qed.

Lemma read_prim_sticky p s e : i_err s = Some e -> i_err (snd (cpp_read_prim p s)) = Some e.
Proof.
  intros H. destruct p; cbn [cpp_read_prim].
  1-5: unfold cpp_nat_read, cpp_int_read, cpp_float_read, cpp_long_read, cpp_double_read;
       match goal with |- context [cpp_scalar_read ?sz ?x] =>
         pose proof (scalar_read_sticky sz x e H) as H1; destruct (cpp_scalar_read sz x) as [[ok n] s1]; exact H1 end.
  - pose proof (string_read_sticky s e H) as H1. destruct (cpp_string_read s) as [[ok v] s1]. exact H1.
  - pose proof (bool_read_sticky ftag ttag s e H) as H1. destruct (cpp_bool_read ftag ttag s) as [[ok v] s1]. exact H1.
  - now apply set_error_sticky.
Qed.

(** * Live and dead streams *)
Definition iwfb (st : istream) : Prop := iwf st /\ bytes_ok (i_rest st).
Definition dead (st : istream) : Prop := exists e, i_err st = Some e /\ e <> E_EOF.

(** "the C++ reader [cr] behaves like the flat reader [fr]": agreement on success and on eof; when the
    flat reader rejects, the C++ one ends (if it ends) with a non-eof error -- possibly having returned true *)
Definition sim {A} (cr : istream -> cres A) (fr : bytes -> option (res (A * bytes))) : Prop :=
  forall st, iwfb st ->
    match fr (i_rest st) with
    | None => True
    | Some (Ok (v, rest)) => exists st', cr st = Some (true, v, st') /\ iwfb st' /\ i_rest st' = rest
    | Some Eof => exists v st', cr st = Some (false, v, st') /\ i_err st' = Some E_EOF
    | Some Reject => match cr st with None => True | Some (ok, v, st') => dead st' end
    end.

Definition sticky {A} (cr : istream -> cres A) : Prop :=
  forall st e, i_err st = Some e -> match cr st with None => True | Some (ok, v, st') => i_err st' = Some e end.

(** ** primitives *)
Lemma fixed_rest_ok sz b n r : bytes_ok b -> fixed_r sz b = Ok (n, r) -> bytes_ok r.
Proof. unfold fixed_r. destruct (lenN b <? sz); [discriminate|]. intros H E. injection E as _ <-. now apply bytes_ok_dropN. Qed.

Lemma nat_r_rest_ok b n r : bytes_ok b -> nat_r b = Ok (n, r) -> bytes_ok r.
Proof. rewrite nat_r_fixed. apply fixed_rest_ok. Qed.

Lemma long_r_rest_ok b n r : bytes_ok b -> long_r b = Ok (n, r) -> bytes_ok r.
Proof. rewrite long_r_fixed. apply fixed_rest_ok. Qed.

Lemma str1_body_rest_ok l p b v r : bytes_ok b -> str1_body l p b = Ok (v, r) -> bytes_ok r.
Proof.
  unfold str1_body. destruct (lenN b <? l); [discriminate|]. destruct (lenN b <? l + padding_len p); [discriminate|].
  destruct (all_zero _); [|discriminate]. intros H E. injection E as _ <-.
  fold (dropN l b). fold (dropN (padding_len p) (dropN l b)). now apply bytes_ok_dropN, bytes_ok_dropN.
Qed.

Lemma cpp_str_flat_rest_ok b v r : bytes_ok b -> cpp_str_flat b = Ok (v, r) -> bytes_ok r.
Proof.
  intros H. unfold cpp_str_flat. destruct b as [|b0 r1]; [discriminate|].
  apply bytes_ok_cons_inv in H as [_ H1].
  destruct (cpp_TL_BIG_STRING_MARKER <=? b0).
  - destruct (cpp_TL_BIG_STRING_MARKER <? b0); [discriminate|].
    destruct r1 as [|x1 [|x2 [|x3 r4]]]; try discriminate.
    apply bytes_ok_cons_inv in H1 as [_ H1]. apply bytes_ok_cons_inv in H1 as [_ H1]. apply bytes_ok_cons_inv in H1 as [_ H1].
    now apply str1_body_rest_ok.
  - now apply str1_body_rest_ok.
Qed.

Lemma cpp_read_prim_sim p : prim_wf p -> sim (fun st => Some (cpp_read_prim p st)) (fun b => Some (cpp_prim_flat p b)).
Proof.
  intros Hp st [Hw Hok]. cbn beta.
  assert (Hscalar : forall (rd : istream -> bool * N * istream) (fr : bytes -> res (N * bytes)),
            ispec (rd st) (fr (i_rest st)) -> (forall n r, fr (i_rest st) = Ok (n, r) -> bytes_ok r) ->
            match (match fr (i_rest st) with Ok (n, r) => Ok (VNum n, r) | Eof => Eof | Reject => Reject end) with
            | Ok (v, rest) => exists st', (let '(ok, n, s1) := rd st in (ok, VNum n, s1)) = (true, v, st') /\ iwfb st' /\ i_rest st' = rest
            | Eof => exists v st', (let '(ok, n, s1) := rd st in (ok, VNum n, s1)) = (false, v, st') /\ i_err st' = Some E_EOF
            | Reject => dead (snd (let '(ok, n, s1) := rd st in (ok, VNum n, s1)))
            end).
  { intros rd fr H Hr. destruct (rd st) as [[ok n] s1]. destruct (fr (i_rest st)) as [[n' r]| |] eqn:E; cbn in H.
    - destruct H as (-> & -> & Hw1 & Hr1). exists s1. repeat split; auto; try apply Hw1. rewrite Hr1. eapply Hr; reflexivity.
    - destruct H as (-> & H). eauto.
    - destruct H as (-> & e & H & Hne). exists e. auto. }
  destruct p; cbn [cpp_read_prim cpp_prim_flat dec_prim].
  - pose proof (Hscalar cpp_nat_read nat_r (cpp_nat_read_spec st Hw) (fun n r => nat_r_rest_ok _ n r Hok)) as H.
    destruct (nat_r (i_rest st)) as [[n r]| |]; [destruct H as (st' & -> & H); eauto|destruct H as (v & st' & -> & H); eauto|].
    destruct (cpp_nat_read st) as [[ok n] s1]. exact H.
  - pose proof (Hscalar cpp_int_read nat_r (cpp_int_read_spec st Hw) (fun n r => nat_r_rest_ok _ n r Hok)) as H.
    destruct (nat_r (i_rest st)) as [[n r]| |]; [destruct H as (st' & -> & H); eauto|destruct H as (v & st' & -> & H); eauto|].
    destruct (cpp_int_read st) as [[ok n] s1]. exact H.
  - pose proof (Hscalar cpp_float_read nat_r (cpp_float_read_spec st Hw) (fun n r => nat_r_rest_ok _ n r Hok)) as H.
    destruct (nat_r (i_rest st)) as [[n r]| |]; [destruct H as (st' & -> & H); eauto|destruct H as (v & st' & -> & H); eauto|].
    destruct (cpp_float_read st) as [[ok n] s1]. exact H.
  - pose proof (Hscalar cpp_long_read long_r (cpp_long_read_spec st Hw) (fun n r => long_r_rest_ok _ n r Hok)) as H.
    destruct (long_r (i_rest st)) as [[n r]| |]; [destruct H as (st' & -> & H); eauto|destruct H as (v & st' & -> & H); eauto|].
    destruct (cpp_long_read st) as [[ok n] s1]. exact H.
  - pose proof (Hscalar cpp_double_read long_r (cpp_double_read_spec st Hw) (fun n r => long_r_rest_ok _ n r Hok)) as H.
    destruct (long_r (i_rest st)) as [[n r]| |]; [destruct H as (st' & -> & H); eauto|destruct H as (v & st' & -> & H); eauto|].
    destruct (cpp_double_read st) as [[ok n] s1]. exact H.
  - pose proof (cpp_string_read_spec st Hw Hok) as H. destruct (cpp_string_read st) as [[ok v] s1].
    destruct (cpp_str_flat (i_rest st)) as [[v' r]| |] eqn:E; cbn in H.
    + destruct H as (-> & -> & Hw1 & Hr1). exists s1. repeat split; auto; try apply Hw1. rewrite Hr1.
      eapply cpp_str_flat_rest_ok; eauto.
    + destruct H as (-> & H). eauto.
    + destruct H as (-> & e & H & Hne). exists e. auto.
  - pose proof (cpp_bool_read_spec ftag ttag st Hp Hw) as H.
    destruct (bool1_r ftag ttag (i_rest st)) as [[v r]| |] eqn:E.
    + destruct (cpp_bool_read ftag ttag st) as [[ok v'] s1]. cbn in H. destruct H as (-> & -> & Hw1 & Hr1).
      exists s1. repeat split; auto; try apply Hw1. rewrite Hr1.
      unfold bool1_r in E. destruct (nat_r (i_rest st)) as [[tg r']| |] eqn:En; try discriminate.
      assert (r = r') as ->. { destruct (tg =? ftag); [congruence|]. destruct (tg =? ttag); congruence. }
      eapply nat_r_rest_ok; eauto.
    + destruct (cpp_bool_read ftag ttag st) as [[ok v'] s1]. cbn in H. destruct H as (-> & H). eauto.
    + destruct H as (tg & r & s1 & _ & -> & He & _). exists E_TAG. split; [exact He|discriminate].
  - exists E_UNKNOWN. destruct Hw as [He _]. cbn. rewrite i_set_error_err by assumption. split; [reflexivity|discriminate].
Qed.

Lemma cpp_read_prim_sticky p : sticky (fun st => Some (cpp_read_prim p st)).
Proof.
  intros st e H. pose proof (read_prim_sticky p st e H) as H1. destruct (cpp_read_prim p st) as [[ok v] s1]. exact H1.
Qed.

(** ** fields *)
Definition rsim (crec : nat -> bool -> list N -> istream -> cres value) (frec : nat -> bool -> list N -> bytes -> dres) : Prop :=
  forall t b ps, sim (crec t b ps) (frec t b ps).
Definition rsticky (crec : nat -> bool -> list N -> istream -> cres value) : Prop :=
  forall t b ps, sticky (crec t b ps).

Lemma fields_sticky crec ps : rsticky crec -> forall fds acc, sticky (cpp_dec_fields crec ps fds acc).
Proof.
  intros Hs. induction fds as [|fd fds IH]; intros acc st e He; cbn [cpp_dec_fields]; [exact He|].
  destruct (field_present ps acc fd); [|now apply IH].
  specialize (Hs (f_ty fd) (f_bare fd) (eval_args ps acc (f_args fd)) st e He).
  destruct (crec _ _ _ st) as [[[ok v] st']|]; [|exact I]. destruct ok; [now apply IH|exact Hs].
Qed.

Lemma fields_sim crec frec ps : rsim crec frec -> rsticky crec ->
  forall fds acc, sim (cpp_dec_fields crec ps fds acc) (dec_fields frec ps fds acc).
Proof.
  intros Hsim Hst. induction fds as [|fd fds IH]; intros acc st Hw; cbn [cpp_dec_fields dec_fields].
  - exists st. auto.
  - destruct (field_present ps acc fd); [|now apply IH].
    specialize (Hsim (f_ty fd) (f_bare fd) (eval_args ps acc (f_args fd)) st Hw).
    destruct (frec _ _ _ (i_rest st)) as [[[v rest]| |]|].
    + destruct Hsim as (st' & -> & Hw' & <-). now apply IH.
    + destruct Hsim as (v & st' & -> & He). eauto.
    + destruct (crec _ _ _ st) as [[[ok v] st']|]; [|exact I]. destruct ok; [|exact Hsim].
      destruct Hsim as (e & He & Hne).
      pose proof (fields_sticky crec ps Hst fds (acc ++ [Some v]) st' e He) as H.
      destruct (cpp_dec_fields crec ps fds (acc ++ [Some v]) st') as [[[ok2 fs] st2]|]; [|exact I]. exists e. auto.
    + exact I.
Qed.

(** ** element loops *)
Definition live (c : cstate) (f : estate) : Prop := fst c = fst f /\ iwfb (snd c) /\ i_rest (snd c) = snd f.

Definition step_sim (fc : cstate -> option (bool * cstate)) (ff : estate -> option (res estate)) : Prop :=
  forall c f, live c f ->
    match ff f with
    | None => True
    | Some (Ok f') => exists c', fc c = Some (true, c') /\ live c' f'
    | Some Eof => exists c', fc c = Some (false, c') /\ i_err (snd c') = Some E_EOF
    | Some Reject => match fc c with None => True | Some (ok, c') => dead (snd c') end
    end.

Definition step_sticky (fc : cstate -> option (bool * cstate)) : Prop :=
  forall c e, i_err (snd c) = Some e -> match fc c with None => True | Some (ok, c') => i_err (snd c') = Some e end.

Lemma bind_sticky f1 f2 : step_sticky f1 -> step_sticky f2 -> step_sticky (fun c => cbind (f1 c) f2).
Proof.
  intros H1 H2 c e He. specialize (H1 c e He). unfold cbind. destruct (f1 c) as [[ok c']|]; [|exact I].
  destruct ok; [now apply H2|exact H1].
Qed.

Lemma iter_sticky fc : step_sticky fc -> forall p, step_sticky (cpos_iter fc p).
Proof.
  intros H. induction p as [p IH|p IH|]; cbn [cpos_iter].
  - apply (bind_sticky fc _ H). now apply bind_sticky.
  - now apply bind_sticky.
  - exact H.
Qed.

Lemma bind_sim f1c f1f f2c f2f : step_sim f1c f1f -> step_sim f2c f2f -> step_sticky f2c ->
  step_sim (fun c => cbind (f1c c) f2c) (fun f => obind (f1f f) f2f).
Proof.
  intros H1 H2 Hs c f Hl. specialize (H1 c f Hl). unfold cbind, obind.
  destruct (f1f f) as [[f'| |]|].
  - destruct H1 as (c' & -> & Hl'). now apply H2.
  - destruct H1 as (c' & -> & He). eauto.
  - destruct (f1c c) as [[ok c']|]; [|exact I]. destruct ok; [|exact H1].
    destruct H1 as (e & He & Hne). specialize (Hs c' e He).
    destruct (f2c c') as [[ok2 c2]|]; [|exact I]. exists e. auto.
  - exact I.
Qed.

Lemma iter_sim fc ff : step_sim fc ff -> step_sticky fc -> forall p, step_sim (cpos_iter fc p) (pos_iter ff p).
Proof.
  intros H Hs. induction p as [p IH|p IH|]; cbn [cpos_iter pos_iter].
  - apply (bind_sim fc ff _ _ H).
    + apply bind_sim; auto. now apply iter_sticky.
    + apply bind_sticky; now apply iter_sticky.
  - apply bind_sim; auto. now apply iter_sticky.
  - exact H.
Qed.

Lemma cstep_sticky (cr : istream -> cres value) : sticky cr -> step_sticky (cstep cr).
Proof.
  intros H c e He. unfold cstep. specialize (H (snd c) e He). destruct (cr (snd c)) as [[[ok v] s']|]; [|exact I]. exact H.
Qed.

Lemma cstep_sim (cr : istream -> cres value) (fr : bytes -> dres) : sim cr fr -> step_sim (cstep cr) (estep fr).
Proof.
  intros H c f (Ha & Hw & Hr). unfold cstep, estep. specialize (H (snd c) Hw). rewrite Hr in H.
  destruct (fr (snd f)) as [[[v b']| |]|].
  - destruct H as (st' & -> & Hw' & Hr'). eexists. split; [reflexivity|]. cbn. repeat split; auto; try apply Hw'. now rewrite Ha.
  - destruct H as (v & st' & -> & He). eauto.
  - destruct (cr (snd c)) as [[[ok v] st']|]; [|exact I]. exact H.
  - exact I.
Qed.

Lemma elems_sticky (cr : istream -> cres value) n : sticky cr -> sticky (cpp_dec_elems cr n).
Proof.
  intros H st e He. unfold cpp_dec_elems. destruct n as [|p]; [exact He|].
  pose proof (iter_sticky _ (cstep_sticky cr H) p ([], st) e He) as Hi.
  destruct (cpos_iter (cstep cr) p ([], st)) as [[ok [acc st']]|]; [|exact I]. exact Hi.
Qed.

Lemma elems_sim (cr : istream -> cres value) (fr : bytes -> dres) n : sim cr fr -> sticky cr ->
  sim (cpp_dec_elems cr n) (dec_elems fr n).
Proof.
  intros H Hs st Hw. unfold cpp_dec_elems, dec_elems. destruct n as [|p].
  - exists st. auto.
  - pose proof (iter_sim _ _ (cstep_sim cr fr H) (cstep_sticky cr Hs) p ([], st) ([], i_rest st)) as Hi.
    specialize (Hi ltac:(repeat split; auto; apply Hw)).
    destruct (pos_iter (estep fr) p ([], i_rest st)) as [[[acc b']| |]|].
    + destruct Hi as ([acc' st'] & -> & Ha & Hw' & Hr'). cbn in *. subst. eauto.
    + destruct Hi as ([acc' st'] & -> & He). cbn in *. eauto.
    + destruct (cpos_iter (cstep cr) p ([], st)) as [[ok [acc st']]|]; [|exact I]. exact Hi.
    + exact I.
Qed.

(** ** the generated readers *)
Lemma nat_read_sticky s e : i_err s = Some e -> i_err (snd (cpp_nat_read s)) = Some e.
Proof. apply scalar_read_sticky. Qed.

Theorem cpp_dec1_sticky s : forall fuel, rsticky (cpp_dec1 fuel s).
Proof.
  induction fuel as [|fuel IH]; intros t bare ps st e He; cbn [cpp_dec1]; [exact I|].
  destruct (nth_error s t) as [[p|tag fds|vars|k ef|kp ef]|].
  - pose proof (read_prim_sticky p st e He) as H. destruct (cpp_read_prim p st) as [[ok v] s1]. exact H.
  - assert (Hgo : forall st1, i_err st1 = Some e ->
              match (match cpp_dec_fields (cpp_dec1 fuel s) ps fds [] st1 with
                     | None => None | Some (ok, fs, st2) => Some (ok, VStruct fs, st2) end) with
              | None => True | Some (ok, v, st') => i_err st' = Some e end).
    { intros st1 H1. pose proof (fields_sticky _ ps IH fds [] st1 e H1) as H.
      destruct (cpp_dec_fields _ ps fds [] st1) as [[[ok fs] st2]|]; [exact H|exact I]. }
    destruct bare; [now apply Hgo|].
    pose proof (exact_tag_sticky tag st e He) as H. destruct (cpp_nat_read_exact_tag tag st) as [ok st1]. cbn [snd] in H.
    destruct ok; cbn [negb]; [now apply Hgo|exact H].
  - destruct bare; [now apply set_error_sticky|].
    pose proof (nat_read_sticky st e He) as H. destruct (cpp_nat_read st) as [[ok tg] st1]. cbn [snd] in H.
    destruct ok; cbn [negb]; [|exact H].
    destruct (cpp_switch s vars tg 0) as [[idx fds]|]; [|now apply set_error_sticky].
    pose proof (fields_sticky _ ps IH fds [] st1 e H) as H2.
    destruct (cpp_dec_fields _ ps fds [] st1) as [[[ok fs] st2]|]; [exact H2|exact I].
  - destruct (negb bare); [now apply set_error_sticky|].
    assert (Hel : forall n st1, i_err st1 = Some e ->
              match (match cpp_dec_elems (cpp_dec1 fuel s (f_ty ef) (f_bare ef) (eval_args ps [] (f_args ef))) n st1 with
                     | None => None | Some (ok, es, st2) => Some (ok, VArr es, st2) end) with
              | None => True | Some (ok, v, st') => i_err st' = Some e end).
    { intros n st1 H1. pose proof (elems_sticky _ n (IH (f_ty ef) (f_bare ef) (eval_args ps [] (f_args ef))) st1 e H1) as H.
      destruct (cpp_dec_elems _ n st1) as [[[ok es] st2]|]; [exact H|exact I]. }
    destruct k; [|now apply Hel|now apply Hel].
    pose proof (nat_read_sticky st e He) as H. destruct (cpp_nat_read st) as [[ok n] st1]. cbn [snd] in H.
    destruct ok; cbn [negb]; [now apply Hel|exact H].
  - destruct (negb bare); [now apply set_error_sticky|].
    pose proof (nat_read_sticky st e He) as H. destruct (cpp_nat_read st) as [[ok n] st1]. cbn [snd] in H.
    destruct ok; cbn [negb]; [|exact H].
    pose proof (elems_sticky _ n (IH (f_ty ef) (f_bare ef) (eval_args ps [] (f_args ef))) st1 e H) as H2.
    destruct (cpp_dec_elems _ n st1) as [[[ok es] st2]|]; [exact H2|exact I].
  - now apply set_error_sticky.
Qed.

Lemma cpp_switch_find s vars tag : forall idx, cpp_switch s vars tag idx = find_variant s vars tag idx.
Proof.
  induction vars as [|vt vars IH]; intros idx; cbn [cpp_switch find_variant]; [reflexivity|].
  destruct (nth_error s vt) as [[p|tg fds|vs|k ef|kp ef]|]; auto. rewrite N.eqb_sym. destruct (tg =? tag); auto.
Qed.

Lemma nat_read_sim : sim (fun st => Some (cpp_nat_read st)) (fun b => Some (nat_r b)).
Proof.
  intros st [Hw Hok]. pose proof (cpp_nat_read_spec st Hw) as H. destruct (cpp_nat_read st) as [[ok n] s1].
  destruct (nat_r (i_rest st)) as [[n' r]| |] eqn:E; cbn in H.
  - destruct H as (-> & -> & Hw1 & Hr1). exists s1. repeat split; auto; try apply Hw1. rewrite Hr1. eapply nat_r_rest_ok; eauto.
  - destruct H as (-> & H). eauto.
  - destruct H as (-> & e & H & Hne). exists e. auto.
Qed.

Theorem cpp_dec1_sim s : wf_schema s = true ->
  forall fuel, rsim (cpp_dec1 fuel s) (gdec1 cpp_prim_flat fuel s).
Proof.
  intros Hwf. induction fuel as [|fuel IH]; intros t bare ps st Hw; cbn [cpp_dec1 gdec1]; [exact I|].
  pose proof (cpp_dec1_sticky s fuel) as Hst.
  destruct (nth_error s t) as [[p|tag fds|vars|k ef|kp ef]|] eqn:Et.
  - (* primitive *)
    assert (Hp : prim_wf p).
    { pose proof (wf_lookup s t _ Hwf Et) as H. destruct p; cbn in *; auto.
      apply andb_prop in H as [_ H]. apply negb_true_iff, N.eqb_neq in H. exact H. }
    exact (cpp_read_prim_sim p Hp st Hw).
  - (* struct *)
    assert (Hgo : sim (fun st1 => match cpp_dec_fields (cpp_dec1 fuel s) ps fds [] st1 with
                                  | None => None | Some (ok, fs, st2) => Some (ok, VStruct fs, st2) end)
                      (fun b' => match dec_fields (gdec1 cpp_prim_flat fuel s) ps fds [] b' with
                                 | None => None | Some (Ok (fs, r)) => Some (Ok (VStruct fs, r))
                                 | Some Eof => Some Eof | Some Reject => Some Reject end)).
    { intros st1 Hw1. pose proof (fields_sim _ _ ps IH Hst fds [] st1 Hw1) as H.
      destruct (dec_fields _ ps fds [] (i_rest st1)) as [[[fs r]| |]|].
      - destruct H as (st' & -> & H). eauto.
      - destruct H as (fs & st' & -> & H). eauto.
      - destruct (cpp_dec_fields _ ps fds [] st1) as [[[ok fs] st2]|]; [exact H|exact I].
      - exact I. }
    destruct bare; [exact (Hgo st Hw)|].
    destruct Hw as [Hw Hok].
    pose proof (cpp_nat_read_exact_tag_spec tag st Hw) as H. unfold tag_r in H.
    destruct (cpp_nat_read_exact_tag tag st) as [ok st1].
    destruct (nat_r (i_rest st)) as [[tg b']| |] eqn:En; cbn in H.
    + destruct (tg =? tag); cbn in H.
      * destruct H as (-> & _ & Hw1 & Hr1). cbn [negb]. rewrite <- Hr1. apply Hgo. split; [exact Hw1|].
        rewrite Hr1. eapply nat_r_rest_ok; eauto.
      * destruct H as (-> & e & He & Hne). cbn. exists e. auto.
    + destruct H as (-> & He). cbn. eauto.
    + destruct H as (-> & e & He & Hne). cbn. exists e. auto.
  - (* union *)
    destruct bare.
    { destruct Hw as [[He _] _]. exists E_UNKNOWN. rewrite i_set_error_err by assumption. split; [reflexivity|discriminate]. }
    pose proof (nat_read_sim st Hw) as H. cbn beta in H.
    destruct (nat_r (i_rest st)) as [[tg b']| |] eqn:En.
    + destruct H as (st1 & E1 & Hw1 & Hr1). injection E1 as E1. rewrite E1. cbn [negb].
      rewrite cpp_switch_find. destruct (find_variant s vars tg 0) as [[idx fds]|].
      * pose proof (fields_sim _ _ ps IH Hst fds [] st1 Hw1) as H. rewrite Hr1 in H.
        destruct (dec_fields _ ps fds [] b') as [[[fs r]| |]|].
        -- destruct H as (st' & -> & H). eauto.
        -- destruct H as (fs & st' & -> & H). eauto.
        -- destruct (cpp_dec_fields _ ps fds [] st1) as [[[ok fs] st2]|]; [exact H|exact I].
        -- exact I.
      * destruct Hw1 as [[He1 _] _]. exists E_TAG. rewrite i_set_error_err by assumption. split; [reflexivity|discriminate].
    + destruct H as (v & st1 & E1 & He). injection E1 as E1. rewrite E1. cbn. eauto.
    + destruct (cpp_nat_read st) as [[ok n] st1]. destruct ok; cbn [negb].
      * exfalso. exact (nat_r_not_reject _ En).
      * exact H.
  - (* arrays *)
    destruct bare; cbn [negb].
    2:{ destruct Hw as [[He _] _]. exists E_UNKNOWN. rewrite i_set_error_err by assumption. split; [reflexivity|discriminate]. }
    set (eargs := eval_args ps [] (f_args ef)).
    assert (Hel : forall n, sim (fun st1 => match cpp_dec_elems (cpp_dec1 fuel s (f_ty ef) (f_bare ef) eargs) n st1 with
                                            | None => None | Some (ok, es, st2) => Some (ok, VArr es, st2) end)
                                (fun b' => match dec_elems (gdec1 cpp_prim_flat fuel s (f_ty ef) (f_bare ef) eargs) n b' with
                                           | None => None | Some (Ok (es, r)) => Some (Ok (VArr es, r))
                                           | Some Eof => Some Eof | Some Reject => Some Reject end)).
    { intros n st1 Hw1. pose proof (elems_sim _ _ n (IH (f_ty ef) (f_bare ef) eargs) (Hst (f_ty ef) (f_bare ef) eargs) st1 Hw1) as H.
      destruct (dec_elems _ n (i_rest st1)) as [[[es r]| |]|].
      - destruct H as (st' & -> & H). eauto.
      - destruct H as (es & st' & -> & H). eauto.
      - destruct (cpp_dec_elems _ n st1) as [[[ok es] st2]|]; [exact H|exact I].
      - exact I. }
    destruct k; [|exact (Hel _ st Hw)|exact (Hel _ st Hw)].
    pose proof (nat_read_sim st Hw) as H. cbn beta in H.
    destruct (nat_r (i_rest st)) as [[n b']| |] eqn:En.
    + destruct H as (st1 & E1 & Hw1 & Hr1). injection E1 as E1. rewrite E1. cbn [negb]. rewrite <- Hr1. now apply Hel.
    + destruct H as (v & st1 & E1 & He). injection E1 as E1. rewrite E1. cbn. eauto.
    + exfalso. exact (nat_r_not_reject _ En).
  - (* dictionary *)
    destruct bare; cbn [negb].
    2:{ destruct Hw as [[He _] _]. exists E_UNKNOWN. rewrite i_set_error_err by assumption. split; [reflexivity|discriminate]. }
    pose proof (nat_read_sim st Hw) as H. cbn beta in H.
    destruct (nat_r (i_rest st)) as [[n b']| |] eqn:En.
    + destruct H as (st1 & E1 & Hw1 & Hr1). injection E1 as E1. rewrite E1. cbn [negb].
      pose proof (elems_sim _ _ n (IH (f_ty ef) (f_bare ef) (eval_args ps [] (f_args ef))) (Hst (f_ty ef) (f_bare ef) (eval_args ps [] (f_args ef))) st1 Hw1) as H. rewrite Hr1 in H.
      destruct (dec_elems _ n b') as [[[es r]| |]|].
      * destruct H as (st' & -> & H). eauto.
      * destruct H as (es & st' & -> & H). eauto.
      * destruct (cpp_dec_elems _ n st1) as [[[ok es] st2]|]; [exact H|exact I].
      * exact I.
    + destruct H as (v & st1 & E1 & He). injection E1 as E1. rewrite E1. cbn. eauto.
    + exfalso. exact (nat_r_not_reject _ En).
  - (* unknown type *)
    destruct Hw as [[He _] _]. exists E_UNKNOWN. rewrite i_set_error_err by assumption. split; [reflexivity|discriminate].
Qed.

(** ** what the harness observes of the generated reader = the flat function of the unread input *)
Theorem cpp_dec1_observes s : wf_schema s = true -> forall fuel t bare ps st r f, iwfb st ->
  cpp_dec1 fuel s t bare ps st = Some r ->
  gdec1 cpp_prim_flat fuel s t bare ps (i_rest st) = Some f ->
  iobs r = f.
Proof.
  intros Hwf fuel t bare ps st r f Hw Hc Hf.
  pose proof (cpp_dec1_sim s Hwf fuel t bare ps st Hw) as H. rewrite Hf, Hc in H.
  destruct f as [[v rest]| |].
  - destruct H as (st' & E & [[He _] _] & <-). injection E as ->. cbn. now rewrite He.
  - destruct H as (v & st' & E & He). injection E as ->. cbn. now rewrite He.
  - destruct r as [[ok v] st']. destruct H as (e & He & Hne). cbn. rewrite He. destruct e; congruence.
Qed.

(** the generated reader terminates (within the same fuel) whenever the flat function accepts or hits eof *)
Theorem cpp_dec1_defined s : wf_schema s = true -> forall fuel t bare ps st f, iwfb st ->
  gdec1 cpp_prim_flat fuel s t bare ps (i_rest st) = Some f -> f <> Reject ->
  exists r, cpp_dec1 fuel s t bare ps st = Some r.
Proof.
  intros Hwf fuel t bare ps st f Hw Hf Hne.
  pose proof (cpp_dec1_sim s Hwf fuel t bare ps st Hw) as H. rewrite Hf in H.
  destruct f as [[v rest]| |]; [| |congruence].
  - destruct H as (st' & -> & _). eauto.
  - destruct H as (v & st' & -> & _). eauto.
Qed.

(** * The flat C++ reader against Go's [dec1] *)
Lemma dec_fields_ext rec1 rec2 ps : (forall t b a x, rec1 t b a x = rec2 t b a x) ->
  forall fds acc b, dec_fields rec1 ps fds acc b = dec_fields rec2 ps fds acc b.
Proof.
  intros H. induction fds as [|fd fds IH]; intros acc b; cbn [dec_fields]; [reflexivity|].
  destruct (field_present ps acc fd); [|apply IH]. rewrite H.
  destruct (rec2 _ _ _ b) as [[[v b']| |]|]; auto.
Qed.

Lemma pos_iter_ext f1 f2 : (forall st, f1 st = f2 st) -> forall p st, pos_iter f1 p st = pos_iter f2 p st.
Proof.
  intros H. induction p as [p IH|p IH|]; intros st; cbn [pos_iter].
  - rewrite H. destruct (f2 st) as [[st1| |]|]; cbn [obind]; auto. rewrite IH.
    destruct (pos_iter f2 p st1) as [[st2| |]|]; cbn [obind]; auto.
  - rewrite IH. destruct (pos_iter f2 p st) as [[st2| |]|]; cbn [obind]; auto.
  - apply H.
Qed.

Lemma dec_elems_ext (r1 r2 : bytes -> dres) : (forall b, r1 b = r2 b) -> forall n b, dec_elems r1 n b = dec_elems r2 n b.
Proof.
  intros H n b. unfold dec_elems. destruct n as [|p]; [reflexivity|].
  rewrite (pos_iter_ext (estep r1) (estep r2)); [reflexivity|]. intros st. unfold estep. now rewrite H.
Qed.

(** [gdec1] with Go's primitive reader is Go's reader without length sanity *)
Theorem gdec1_go s : forall fuel t bare ps b, gdec1 dec_prim fuel s t bare ps b = dec1 fuel false s t bare ps b.
Proof.
  induction fuel as [|fuel IH]; intros t bare ps b; cbn [gdec1 dec1]; [reflexivity|].
  destruct (nth_error s t) as [[p|tag fds|vars|k ef|kp ef]|]; try reflexivity.
  - rewrite (dec_fields_ext _ _ ps IH). destruct bare; [reflexivity|].
    destruct (nat_r b) as [[tg b']| |]; try reflexivity. now rewrite (dec_fields_ext _ _ ps IH).
  - destruct bare; [reflexivity|]. destruct (nat_r b) as [[tg b']| |]; try reflexivity.
    destruct (find_variant s vars tg 0) as [[idx fds]|]; [|reflexivity]. now rewrite (dec_fields_ext _ _ ps IH).
  - destruct (negb bare); [reflexivity|]. unfold read_count. cbn [andb].
    destruct k.
    + destruct (nat_r b) as [[n b']| |]; try reflexivity. now rewrite (dec_elems_ext _ _ (IH _ _ _)).
    + now rewrite (dec_elems_ext _ _ (IH _ _ _)).
    + now rewrite (dec_elems_ext _ _ (IH _ _ _)).
  - destruct (negb bare); [reflexivity|]. unfold read_count. cbn [andb].
    destruct (nat_r b) as [[n b']| |]; try reflexivity. now rewrite (dec_elems_ext _ _ (IH _ _ _)).
Qed.

(** accepted results carry over from one primitive reader to another that accepts at least as much,
    on inputs of at most [M] bytes; the unread rest never grows *)
Section Mono.
  Variable M : N.
  Variables dp1 dp2 : prim -> bytes -> res (value * bytes).
  Hypothesis Hdp : forall p b v r, lenN b <= M -> dp1 p b = Ok (v, r) -> dp2 p b = Ok (v, r) /\ lenN r <= lenN b.

  Definition rmono (r1 r2 : bytes -> dres) : Prop :=
    forall b v r, lenN b <= M -> r1 b = Some (Ok (v, r)) -> r2 b = Some (Ok (v, r)) /\ lenN r <= lenN b.

  Lemma fields_mono rec1 rec2 ps : (forall t b a, rmono (rec1 t b a) (rec2 t b a)) ->
    forall fds acc b fs r, lenN b <= M -> dec_fields rec1 ps fds acc b = Some (Ok (fs, r)) ->
      dec_fields rec2 ps fds acc b = Some (Ok (fs, r)) /\ lenN r <= lenN b.
  Proof.
    intros H. induction fds as [|fd fds IH]; intros acc b fs r Hb; cbn [dec_fields].
    - intros E. injection E as <- <-. split; [reflexivity|unfold bytes in *; lia].
    - destruct (field_present ps acc fd); [|now apply IH].
      destruct (rec1 _ _ _ b) as [[[v b']| |]|] eqn:E1; try discriminate.
      destruct (H _ _ _ b v b' Hb E1) as [-> Hl]. intros E.
      destruct (IH (acc ++ [Some v]) b' fs r ltac:(unfold bytes in *; lia) E) as [-> Hl2]. split; [reflexivity|unfold bytes in *; lia].
  Qed.

  Lemma nat_r_len b n r : nat_r b = Ok (n, r) -> lenN r <= lenN b.
  Proof. rewrite nat_r_fixed. unfold fixed_r. destruct (lenN b <? 4); [discriminate|]. intros E. injection E as _ <-. rewrite lenN_dropN. lia. Qed.

  Lemma iter_mono f1 f2 :
    (forall st st', lenN (snd st) <= M -> f1 st = Some (Ok st') -> f2 st = Some (Ok st') /\ lenN (snd st') <= lenN (snd st)) ->
    forall p st st', lenN (snd st) <= M -> pos_iter f1 p st = Some (Ok st') ->
      pos_iter f2 p st = Some (Ok st') /\ lenN (snd st') <= lenN (snd st).
  Proof.
    intros H. induction p as [p IH|p IH|]; intros st st' Hb; cbn [pos_iter].
    - destruct (f1 st) as [[st1| |]|] eqn:E1; cbn [obind]; try discriminate.
      destruct (H st st1 Hb E1) as [-> L1]. cbn [obind].
      destruct (pos_iter f1 p st1) as [[st2| |]|] eqn:E2; cbn [obind]; try discriminate.
      assert (Hb1 : lenN (snd st1) <= M) by (clear - Hb L1; unfold bytes in *; lia).
      destruct (IH st1 st2 Hb1 E2) as [-> L2]. cbn [obind]. intros E3.
      assert (Hb2 : lenN (snd st2) <= M) by (clear - Hb1 L2; unfold bytes in *; lia).
      destruct (IH st2 st' Hb2 E3) as [-> L3]. split; [reflexivity|clear - L1 L2 L3; unfold bytes in *; lia].
    - destruct (pos_iter f1 p st) as [[st2| |]|] eqn:E2; cbn [obind]; try discriminate.
      destruct (IH st st2 Hb E2) as [-> L2]. cbn [obind]. intros E3.
      assert (Hb2 : lenN (snd st2) <= M) by (clear - Hb L2; unfold bytes in *; lia).
      destruct (IH st2 st' Hb2 E3) as [-> L3]. split; [reflexivity|clear - L2 L3; unfold bytes in *; lia].
    - apply H; assumption.
  Qed.

  Lemma elems_mono (r1 r2 : bytes -> dres) : rmono r1 r2 ->
    forall n b es r, lenN b <= M -> dec_elems r1 n b = Some (Ok (es, r)) ->
      dec_elems r2 n b = Some (Ok (es, r)) /\ lenN r <= lenN b.
  Proof.
    intros H n b es r Hb. unfold dec_elems. destruct n as [|p].
    - intros E. injection E as <- <-. split; [reflexivity|unfold bytes in *; lia].
    - match goal with |- context [pos_iter (estep r1) p ?x] =>
        destruct (pos_iter (estep r1) p x) as [[[acc b']| |]|] eqn:E1 end; try discriminate.
      assert (Hs : forall st st', lenN (snd st) <= M -> estep r1 st = Some (Ok st') ->
                     estep r2 st = Some (Ok st') /\ lenN (snd st') <= lenN (snd st)).
      { intros st st' Hl. unfold estep, rmono in *. unfold bytes in *.
        destruct (r1 (snd st)) as [[[v b2]| |]|] eqn:E; try discriminate.
        destruct (H _ _ _ Hl E) as [E' L]. rewrite E'. intros E2. injection E2 as <-. split; [reflexivity|exact L]. }
      destruct (iter_mono _ _ Hs p ([], b) (acc, b') Hb E1) as [E' L].
      match goal with |- context [pos_iter (estep r2) p ?x] =>
        replace (pos_iter (estep r2) p x) with (Some (Ok (acc, b'))) by (symmetry; exact E') end.
      intros E. injection E as <- <-. split; [reflexivity|exact L].
  Qed.

  Theorem gdec1_mono s : forall fuel t bare ps, rmono (gdec1 dp1 fuel s t bare ps) (gdec1 dp2 fuel s t bare ps).
  Proof.
    induction fuel as [|fuel IH]; intros t bare ps b v r Hb; cbn [gdec1]; [discriminate|].
    destruct (nth_error s t) as [[p|tag fds|vars|k ef|kp ef]|]; try discriminate.
    - intros E. injection E as E. destruct (Hdp p b v r Hb E) as [-> L]. auto.
    - assert (Hgo : forall b', lenN b' <= M ->
                match dec_fields (gdec1 dp1 fuel s) ps fds [] b' with
                | None => None | Some (Ok (fs, r)) => Some (Ok (VStruct fs, r)) | Some Eof => Some Eof | Some Reject => Some Reject end
                = Some (Ok (v, r)) ->
                match dec_fields (gdec1 dp2 fuel s) ps fds [] b' with
                | None => None | Some (Ok (fs, r)) => Some (Ok (VStruct fs, r)) | Some Eof => Some Eof | Some Reject => Some Reject end
                = Some (Ok (v, r)) /\ lenN r <= lenN b').
      { intros b' Hb'. destruct (dec_fields (gdec1 dp1 fuel s) ps fds [] b') as [[[fs r']| |]|] eqn:E1; try discriminate.
        destruct (fields_mono _ _ ps IH fds [] b' fs r' Hb' E1) as [-> L]. intros E. injection E as <- <-. auto. }
      destruct bare; [now apply Hgo|].
      destruct (nat_r b) as [[tg b']| |] eqn:En; try discriminate. pose proof (nat_r_len _ _ _ En) as Ln.
      destruct (tg =? tag); [|discriminate]. intros E. destruct (Hgo b' ltac:(unfold bytes in *; lia) E) as [-> L]. split; [reflexivity|unfold bytes in *; lia].
    - destruct bare; [discriminate|].
      destruct (nat_r b) as [[tg b']| |] eqn:En; try discriminate. pose proof (nat_r_len _ _ _ En) as Ln.
      destruct (find_variant s vars tg 0) as [[idx fds]|]; [|discriminate].
      destruct (dec_fields (gdec1 dp1 fuel s) ps fds [] b') as [[[fs r']| |]|] eqn:E1; try discriminate.
      destruct (fields_mono _ _ ps IH fds [] b' fs r' ltac:(unfold bytes in *; lia) E1) as [-> L]. intros E. injection E as <- <-. split; [reflexivity|unfold bytes in *; lia].
    - destruct (negb bare); [discriminate|].
      assert (Hel : forall n b', lenN b' <= M ->
                match dec_elems (gdec1 dp1 fuel s (f_ty ef) (f_bare ef) (eval_args ps [] (f_args ef))) n b' with
                | None => None | Some (Ok (es, r)) => Some (Ok (VArr es, r)) | Some Eof => Some Eof | Some Reject => Some Reject end
                = Some (Ok (v, r)) ->
                match dec_elems (gdec1 dp2 fuel s (f_ty ef) (f_bare ef) (eval_args ps [] (f_args ef))) n b' with
                | None => None | Some (Ok (es, r)) => Some (Ok (VArr es, r)) | Some Eof => Some Eof | Some Reject => Some Reject end
                = Some (Ok (v, r)) /\ lenN r <= lenN b').
      { intros n b' Hb'. destruct (dec_elems (gdec1 dp1 fuel s _ _ _) n b') as [[[es r']| |]|] eqn:E1; try discriminate.
        destruct (elems_mono _ _ (IH _ _ _) n b' es r' Hb' E1) as [-> L]. intros E. injection E as <- <-. auto. }
      destruct k; [|now apply Hel|now apply Hel].
      destruct (nat_r b) as [[n b']| |] eqn:En; try discriminate. pose proof (nat_r_len _ _ _ En) as Ln.
      intros E. destruct (Hel n b' ltac:(unfold bytes in *; lia) E) as [-> L]. split; [reflexivity|unfold bytes in *; lia].
    - destruct (negb bare); [discriminate|].
      destruct (nat_r b) as [[n b']| |] eqn:En; try discriminate. pose proof (nat_r_len _ _ _ En) as Ln.
      destruct (dec_elems (gdec1 dp1 fuel s _ _ _) n b') as [[[es r']| |]|] eqn:E1; try discriminate.
      destruct (elems_mono _ _ (IH _ _ _) n b' es r' ltac:(unfold bytes in *; lia) E1) as [-> L]. intros E. injection E as <- <-. split; [reflexivity|unfold bytes in *; lia].
  Qed.
End Mono.

(** ** Go's primitive reader vs the C++ one on inputs shorter than 2^24 bytes *)
Lemma fixed_r_len sz b n r : fixed_r sz b = Ok (n, r) -> lenN r <= lenN b.
Proof. unfold fixed_r. destruct (lenN b <? sz); [discriminate|]. intros E. injection E as _ <-. rewrite lenN_dropN. lia. Qed.

Lemma str1_body_len l p b v r : str1_body l p b = Ok (v, r) -> lenN r <= lenN b /\ l <= lenN b.
Proof.
  unfold str1_body. destruct (lenN b <? l) eqn:E1; [discriminate|]. destruct (lenN b <? l + padding_len p); [discriminate|].
  destruct (all_zero _); [|discriminate]. intros E. injection E as _ <-.
  fold (dropN l b). fold (dropN (padding_len p) (dropN l b)). rewrite !lenN_dropN. lia.
Qed.

Lemma go_prim_le_cpp p b v r : lenN b <= maxMediumStringLen ->
  dec_prim p b = Ok (v, r) -> cpp_prim_flat p b = Ok (v, r) /\ lenN r <= lenN b.
Proof.
  intros Hb. destruct p; cbn [dec_prim cpp_prim_flat].
  1-3: rewrite nat_r_fixed; destruct (fixed_r 4 b) as [[n r']| |] eqn:E; try discriminate;
       intros E2; injection E2 as <- <-; split; [reflexivity|now apply fixed_r_len in E].
  1-2: rewrite long_r_fixed; destruct (fixed_r 8 b) as [[n r']| |] eqn:E; try discriminate;
       intros E2; injection E2 as <- <-; split; [reflexivity|now apply fixed_r_len in E].
  - destruct (str1_r b) as [[s r']| |] eqn:E; try discriminate. intros E2. injection E2 as <- <-.
    unfold str1_r in E. unfold cpp_str_flat. destruct b as [|b0 r1]; [discriminate|]. rewrite lenN_cons in Hb.
    unfold cpp_TL_BIG_STRING_MARKER, tinyStringLen, mediumStringMarker, maxMediumStringLen in *.
    destruct (b0 <=? 253) eqn:Et.
    + replace (254 <=? b0) with false by lia. rewrite E. split; [reflexivity|].
      apply str1_body_len in E. rewrite lenN_cons. lia.
    + destruct (b0 =? 254) eqn:Em.
      * apply N.eqb_eq in Em. subst b0. change (254 <=? 254) with true. change (254 <? 254) with false. cbn iota.
        destruct r1 as [|x1 [|x2 [|x3 r4]]]; try discriminate. cbn zeta in *.
        destruct (le_val [x1; x2; x3] <=? 253); [discriminate|]. rewrite E. split; [reflexivity|].
        apply str1_body_len in E. rewrite !lenN_cons. lia.
      * exfalso. destruct r1 as [|x1 [|x2 [|x3 [|x4 [|x5 [|x6 [|x7 r8]]]]]]]; try discriminate. cbn zeta in E.
        destruct (maxInt <? _); [discriminate|]. destruct (_ <=? 16777215) eqn:El; [discriminate|].
        apply str1_body_len in E. rewrite !lenN_cons in Hb. lia.
  - unfold bool1_r. rewrite nat_r_fixed. destruct (fixed_r 4 b) as [[n r']| |] eqn:E; try discriminate.
    apply fixed_r_len in E. destruct (n =? ftag); [|destruct (n =? ttag)]; intros E2; try discriminate;
      injection E2 as <- <-; split; auto.
  - discriminate.
Qed.

(** C++ reads whatever Go reads (no length sanity on either side), with the same value and the same unread
    rest, from every input of at most 2^24-1 bytes -- split into buffers in any way *)
Theorem cpp_reads_what_go_reads s : wf_schema s = true ->
  forall fuel t bare ps st v rest, iwfb st -> lenN (i_rest st) <= maxMediumStringLen ->
  dec1 fuel false s t bare ps (i_rest st) = Some (Ok (v, rest)) ->
  exists st', cpp_dec1 fuel s t bare ps st = Some (true, v, st') /\ iwf st' /\ i_rest st' = rest.
Proof.
  intros Hwf fuel t bare ps st v rest Hw Hb Hd. rewrite <- gdec1_go in Hd.
  destruct (gdec1_mono maxMediumStringLen dec_prim cpp_prim_flat go_prim_le_cpp s fuel t bare ps _ v rest Hb Hd) as [Hf _].
  pose proof (cpp_dec1_sim s Hwf fuel t bare ps st Hw) as H. rewrite Hf in H.
  destruct H as (st' & E & [Hw' _] & Hr). eauto.
Qed.

(** F32 at this level: a byte string Go rejects and the generated C++ code reads *)
Theorem cpp_codec_accepts_what_go_rejects_refuted :
  exists s t b, wf_schema s = true /\ bytes_ok b /\
    dec1 5 false s t true [] b = Some Reject /\
    (exists v st', cpp_dec1 5 s t true [] (istream_of b) = Some (true, v, st') /\ i_err st' = None).
Proof.
  exists [TPrim PString; TStruct 7 [mkField 0 true None []]], 1%nat, [254; 1; 0; 0; 65; 0; 0; 0].
  split; [reflexivity|]. split; [repeat constructor|]. split; [vm_compute; reflexivity|].
  eexists. eexists. split; vm_compute; reflexivity.
Qed.

(** * The generated writers *)
Fixpoint strs_short (v : value) : bool :=
  match v with
  | VStr s => lenN s <=? cpp_TL_BIG_STRING_LEN
  | VStruct fs | VUnion _ fs => forallb (fun o => match o with Some x => strs_short x | None => true end) fs
  | VArr es => forallb strs_short es
  | _ => true
  end.

(** "[w] appends exactly [enc] when there is room for it, and fails with EOF otherwise" *)
Definition wspec (w : ostream -> wres) (enc : bytes) : Prop :=
  forall o, owf o -> exists r, w o = Some r /\ if o_room o <? lenN enc then ofail r else ospec r o enc.

Lemma wspec_nil : wspec (fun o => Some (true, o)) [].
Proof.
  intros o Hw. eexists. split; [reflexivity|]. change (lenN (@nil N)) with 0. replace (o_room o <? 0) with false by lia.
  unfold ospec. cbn [fst snd]. rewrite app_nil_r. change (lenN (@nil N)) with 0. repeat split; auto; try apply Hw. lia.
Qed.

Lemma wthen_spec (A : ostream -> bool * ostream) B e1 e2 : ostep A e1 -> wspec B e2 ->
  wspec (fun o => wthen (A o) B) (e1 ++ e2).
Proof.
  intros HA HB o Hw. unfold wthen. specialize (HA o Hw). rewrite lenN_app. destruct (A o) as [ok o1].
  destruct (o_room o <? lenN e1) eqn:E1.
  - destruct HA as [H1 H2]. cbn in H1, H2. subst ok. cbn [negb]. eexists. split; [reflexivity|].
    replace (o_room o <? lenN e1 + lenN e2) with true by lia. split; [reflexivity|exact H2].
  - destruct HA as (H1 & Hw1 & Hd1 & Hr1). cbn [fst snd] in *. subst ok. cbn [negb].
    destruct (HB o1 Hw1) as (r & -> & Hr). eexists. split; [reflexivity|].
    destruct (o_room o1 <? lenN e2) eqn:E2.
    + replace (o_room o <? lenN e1 + lenN e2) with true by lia. exact Hr.
    + replace (o_room o <? lenN e1 + lenN e2) with false by lia.
      destruct Hr as (R1 & R2 & R3 & R4). unfold ospec. repeat split; auto; try apply R2.
      * rewrite R3, Hd1. now rewrite app_assoc.
      * rewrite lenN_app. lia.
Qed.

(** sequencing two generated writers: `if (!A) return false; B` *)
Lemma wseq_spec (A : ostream -> wres) (B : ostream -> wres) e1 e2 : wspec A e1 -> wspec B e2 ->
  wspec (fun o => match A o with None => None | Some (false, o1) => Some (false, o1) | Some (true, o1) => B o1 end) (e1 ++ e2).
Proof.
  intros HA HB o Hw. destruct (HA o Hw) as (r1 & -> & H1). rewrite lenN_app. destruct r1 as [ok o1].
  destruct (o_room o <? lenN e1) eqn:E1.
  - destruct H1 as [H1 H2]. cbn in H1, H2. subst ok. eexists. split; [reflexivity|].
    replace (o_room o <? lenN e1 + lenN e2) with true by lia. split; [reflexivity|exact H2].
  - destruct H1 as (H1 & Hw1 & Hd1 & Hr1). cbn [fst snd] in *. subst ok.
    destruct (HB o1 Hw1) as (r & -> & Hr). eexists. split; [reflexivity|].
    destruct (o_room o1 <? lenN e2) eqn:E2.
    + replace (o_room o <? lenN e1 + lenN e2) with true by lia. exact Hr.
    + replace (o_room o <? lenN e1 + lenN e2) with false by lia.
      destruct Hr as (R1 & R2 & R3 & R4). unfold ospec. repeat split; auto; try apply R2.
      * rewrite R3, Hd1. now rewrite app_assoc.
      * rewrite lenN_app. lia.
Qed.

Lemma cpp_enc_fields_spec (crec : nat -> bool -> list N -> value -> ostream -> wres)
      (rec : nat -> bool -> list N -> value -> option bytes) ps all : forall vs fds enc,
  Forall (Popt (fun v => forall t bare ps enc, rec t bare ps v = Some enc -> strs_short v = true -> wspec (crec t bare ps v) enc)) vs ->
  forallb (fun o => match o with Some x => strs_short x | None => true end) vs = true ->
  enc_fields rec ps all fds vs = Some enc ->
  wspec (cpp_enc_fields crec ps all fds vs) enc.
Proof.
  induction vs as [|ov vs IH]; intros fds enc HF Hs H; destruct fds as [|fd fds]; cbn [enc_fields cpp_enc_fields] in *; try discriminate.
  - injection H as <-. exact wspec_nil.
  - apply Forall_cons_iff in HF as [Hov HF']. cbn [forallb] in Hs. apply andb_prop in Hs as [Hs1 Hs2].
    destruct ov as [v|].
    + destruct (field_present ps all fd); [|discriminate].
      destruct (rec (f_ty fd) (f_bare fd) (eval_args ps all (f_args fd)) v) as [b1|] eqn:E1; [|discriminate]. cbn [bind_opt] in H.
      destruct (enc_fields rec ps all fds vs) as [b2|] eqn:E2; [|discriminate]. cbn [bind_opt] in H. injection H as <-.
      cbn [Popt] in Hov. apply (wseq_spec _ _ b1 b2 (Hov _ _ _ b1 ltac:(first [exact E1|reflexivity]) Hs1) (IH fds b2 HF' Hs2 ltac:(first [exact E2|reflexivity]))).
    + destruct (field_present ps all fd); [discriminate|]. now apply IH.
Qed.

Lemma cpp_enc_elems_spec (crec : value -> ostream -> wres) (rec : value -> option bytes) : forall es enc,
  Forall (fun e => forall enc, rec e = Some enc -> strs_short e = true -> wspec (crec e) enc) es ->
  forallb strs_short es = true ->
  enc_elems rec es = Some enc -> wspec (cpp_enc_elems crec es) enc.
Proof.
  induction es as [|e es IH]; intros enc HF Hs H; cbn [enc_elems cpp_enc_elems] in *.
  - injection H as <-. exact wspec_nil.
  - apply Forall_cons_iff in HF as [He HF']. cbn [forallb] in Hs. apply andb_prop in Hs as [Hs1 Hs2].
    destruct (rec e) as [b1|] eqn:E1; [|discriminate]. cbn [bind_opt] in H.
    destruct (enc_elems rec es) as [b2|] eqn:E2; [|discriminate]. cbn [bind_opt] in H. injection H as <-.
    apply (wseq_spec _ _ b1 b2 (He b1 ltac:(first [exact E1|reflexivity]) Hs1) (IH b2 HF' Hs2 ltac:(first [exact E2|reflexivity]))).
Qed.

Lemma nat_write_step n : ostep (cpp_nat_write n) (nat_w n).
Proof. intros o Hw. exact (cpp_scalar_write_spec 4 n o Hw). Qed.

Theorem cpp_enc1_spec s : forall v t bare ps enc,
  enc1 false s t bare ps v = Some enc -> strs_short v = true -> wspec (cpp_enc1 s t bare ps v) enc.
Proof.
  induction v as [n|str|bv|fs IH|idx fs IH|es IH] using value_ind'; intros t bare ps enc H Hs;
    cbn [enc1 cpp_enc1] in *; destruct (nth_error s t) as [d|] eqn:Et; try discriminate;
    destruct d as [p|tag fds|vars|k ef|kp ef]; try discriminate;
    try (match goal with H : enc_prim ?p ?v = Some _ |- _ =>
           intros o Hw; apply (cpp_write_prim_eq_go p v enc H); [|exact Hw];
           destruct p; cbn in *; auto; try discriminate; apply N.leb_le; assumption end).
  - (* struct *)
    destruct (enc_fields _ ps fs fds fs) as [body|] eqn:EF; [|discriminate]. cbn [bind_opt] in H.
    pose proof (cpp_enc_fields_spec (fun t' b' ps' v' o' => cpp_enc1 s t' b' ps' v' o')
                  (fun t' b' ps' v' => enc1 false s t' b' ps' v') ps fs fs fds body IH Hs EF) as HB.
    destruct bare; injection H as <-; [exact HB|].
    exact (wthen_spec _ _ _ _ (nat_write_step tag) HB).
  - (* union *)
    destruct bare; [discriminate|]. destruct (nth_error vars idx) as [vt|]; [|discriminate].
    destruct (nth_error s vt) as [[p|tag fds|vars'|k ef|kp ef]|]; try discriminate.
    destruct (enc_fields _ ps fs fds fs) as [body|] eqn:EF; [|discriminate]. cbn [bind_opt] in H. injection H as <-.
    pose proof (cpp_enc_fields_spec (fun t' b' ps' v' o' => cpp_enc1 s t' b' ps' v' o')
                  (fun t' b' ps' v' => enc1 false s t' b' ps' v') ps fs fs fds body IH Hs EF) as HB.
    exact (wthen_spec _ _ _ _ (nat_write_step tag) HB).
  - (* arrays *)
    destruct (negb bare); [discriminate|].
    destruct (enc_elems _ es) as [body|] eqn:EE; [|discriminate]. cbn [bind_opt] in H.
    assert (HF : Forall (fun e => forall enc0, enc1 false s (f_ty ef) (f_bare ef) (eval_args ps [] (f_args ef)) e = Some enc0 ->
                                   strs_short e = true ->
                                   wspec (cpp_enc1 s (f_ty ef) (f_bare ef) (eval_args ps [] (f_args ef)) e) enc0) es).
    { rewrite Forall_forall in *. intros e He enc0 H0 Hs0. now apply IH. }
    pose proof (cpp_enc_elems_spec (fun e o' => cpp_enc1 s (f_ty ef) (f_bare ef) (eval_args ps [] (f_args ef)) e o')
                  (fun e => enc1 false s (f_ty ef) (f_bare ef) (eval_args ps [] (f_args ef)) e) es body HF Hs EE) as HB.
    unfold sane_ok in H. rewrite ?andb_true_r in H. destruct k.
    + destruct (lenN es <? 4294967296); [|discriminate]. injection H as <-.
      exact (wthen_spec _ _ _ _ (nat_write_step (lenN es)) HB).
    + destruct (lenN es =? nth 0 ps 0); [|discriminate]. injection H as <-. exact HB.
    + destruct (lenN es =? n); [|discriminate]. injection H as <-. exact HB.
  - (* dictionary *)
    destruct (negb bare); [discriminate|].
    destruct (enc_elems _ es) as [body|] eqn:EE; [|discriminate]. cbn [bind_opt] in H.
    assert (HF : Forall (fun e => forall enc0, enc1 false s (f_ty ef) (f_bare ef) (eval_args ps [] (f_args ef)) e = Some enc0 ->
                                   strs_short e = true ->
                                   wspec (cpp_enc1 s (f_ty ef) (f_bare ef) (eval_args ps [] (f_args ef)) e) enc0) es).
    { rewrite Forall_forall in *. intros e He enc0 H0 Hs0. now apply IH. }
    pose proof (cpp_enc_elems_spec (fun e o' => cpp_enc1 s (f_ty ef) (f_bare ef) (eval_args ps [] (f_args ef)) e o')
                  (fun e => enc1 false s (f_ty ef) (f_bare ef) (eval_args ps [] (f_args ef)) e) es body HF Hs EE) as HB.
    unfold sane_ok in H. rewrite ?andb_true_r in H.
    destruct (lenN es <? 4294967296); cbn [andb] in H; [|discriminate].
    destruct (keys_sorted kp es); [|discriminate]. injection H as <-. cbn [negb].
    exact (wthen_spec _ _ _ _ (nat_write_step (lenN es)) HB).
Qed.

(** * A failing generated reader has always recorded an error
    (so `return s.set_error_unknown_scenario();` after a failed callee changes nothing: [i_set_error] keeps
    an error that is already set) *)
Lemma set_error_some e s : i_err (i_set_error e s) <> None.
Proof. unfold i_set_error. destruct (i_err s) eqn:E; cbn; congruence. Qed.

Lemma set_error_idem e s : i_err s <> None -> i_set_error e s = s.
Proof. unfold i_set_error. destruct (i_err s); congruence. Qed.

Lemma fetch_data2_ferr n s : fst (fst (cpp_fetch_data2 n s)) = false -> i_err (snd (cpp_fetch_data2 n s)) <> None.
Proof. unfold cpp_fetch_data2. destruct (fetch_loop _ _ _ _) as [[[d|] c] m]; cbn; [discriminate|]. intros _. apply set_error_some. Qed.

Lemma fetch_data_append_ferr v n s : fst (fst (cpp_fetch_data_append v n s)) = false -> i_err (snd (cpp_fetch_data_append v n s)) <> None.
Proof. unfold cpp_fetch_data_append. destruct (fetch_loop _ _ _ _) as [[[d|] c] m]; cbn; [discriminate|]. intros _. apply set_error_some. Qed.

Lemma fetch_data_ferr n s : fst (fst (cpp_fetch_data n s)) = false -> i_err (snd (cpp_fetch_data n s)) <> None.
Proof. unfold cpp_fetch_data. destruct (lenN (i_cur s) <? n); [apply fetch_data2_ferr|discriminate]. Qed.

Lemma fetch_pad_ferr n s : fst (cpp_fetch_pad n s) = false -> i_err (snd (cpp_fetch_pad n s)) <> None.
Proof.
  unfold cpp_fetch_pad. pose proof (fetch_data_ferr n s) as H. destruct (cpp_fetch_data n s) as [[ok d] s1]. cbn [fst snd] in H.
  destruct ok; cbn [negb]; [|intros _; now apply H].
  destruct (cmp_op cpp_fp_cmp _ _); cbn; [intros _; apply set_error_some|discriminate].
Qed.

Lemma scalar_read_ferr sz s : fst (fst (cpp_scalar_read sz s)) = false -> i_err (snd (cpp_scalar_read sz s)) <> None.
Proof.
  unfold cpp_scalar_read. destruct (lenN (i_cur s) <? sz); [|discriminate].
  pose proof (fetch_data2_ferr sz s) as H. destruct (cpp_fetch_data2 sz s) as [[ok d] s1]. exact H.
Qed.

Lemma exact_tag_ferr tag s : fst (cpp_nat_read_exact_tag tag s) = false -> i_err (snd (cpp_nat_read_exact_tag tag s)) <> None.
Proof.
  unfold cpp_nat_read_exact_tag, cpp_nat_read. pose proof (scalar_read_ferr cpp_nat_read_size s) as H.
  destruct (cpp_scalar_read cpp_nat_read_size s) as [[ok n] s1]. cbn [fst snd] in H.
  destruct ok; cbn [negb]; [|intros _; now apply H].
  destruct (negb _); cbn; [intros _; apply set_error_some|discriminate].
Qed.

Lemma bool_read_ferr f t s : fst (fst (cpp_bool_read f t s)) = false -> i_err (snd (cpp_bool_read f t s)) <> None.
Proof.
  unfold cpp_bool_read, cpp_nat_read. pose proof (scalar_read_ferr cpp_nat_read_size s) as H.
  destruct (cpp_scalar_read cpp_nat_read_size s) as [[ok n] s1]. cbn [fst snd] in H.
  destruct ok; cbn [negb]; [|intros _; now apply H]. destruct (n =? t); cbn; discriminate.
Qed.

Lemma body_ferr (len pad : N) s2 :
  let r := (let '(ok2, v, s3) := cpp_fetch_data_append [] len s2 in
            if negb ok2 then (false, v, s3) else
            let '(ok3, s4) := cpp_fetch_pad pad s3 in
            if negb ok3 then (false, v, s4) else (true, v, s4)) in
  fst (fst r) = false -> i_err (snd r) <> None.
Proof.
  cbn zeta. pose proof (fetch_data_append_ferr [] len s2) as H1.
  destruct (cpp_fetch_data_append [] len s2) as [[ok2 v] s3]. cbn [fst snd] in H1.
  destruct ok2; cbn [negb]; [|intros _; now apply H1].
  pose proof (fetch_pad_ferr pad s3) as H2. destruct (cpp_fetch_pad pad s3) as [ok3 s4]. cbn [fst snd] in H2.
  destruct ok3; cbn [negb]; [discriminate|intros _; now apply H2].
Qed.

Lemma ensure_byte_true s s1 : cpp_ensure_byte s = (true, s1) -> i_cur s1 <> [].
Proof.
  unfold cpp_ensure_byte. destruct (i_cur s) as [|x c] eqn:Ec.
  - destruct (i_cur (i_grow s)) as [|y c'] eqn:Eg; [discriminate|]. intros E. injection E as <-. congruence.
  - intros E. injection E as <-. congruence.
Qed.

Lemma string_read_ferr s : fst (fst (cpp_string_read s)) = false -> i_err (snd (cpp_string_read s)) <> None.
Proof.
  unfold cpp_string_read.
  assert (H0 : fst (cpp_ensure_byte s) = false -> i_err (snd (cpp_ensure_byte s)) <> None).
  { unfold cpp_ensure_byte. destruct (i_cur s); [|discriminate]. destruct (i_cur (i_grow s)); cbn; [intros _; apply set_error_some|discriminate]. }
  pose proof (ensure_byte_true s) as Ht.
  destruct (cpp_ensure_byte s) as [ok0 s1]. cbn [fst snd] in H0. destruct ok0; cbn [negb]; [|intros _; now apply H0].
  specialize (Ht s1 eq_refl).
  destruct (i_cur s1) as [|b0 c] eqn:Ec; [congruence|].
  destruct (cmp_op cpp_sr_cmp_big b0 cpp_TL_BIG_STRING_MARKER).
  - destruct (cmp_op cpp_sr_cmp_huge b0 cpp_TL_BIG_STRING_MARKER); [intros _; apply set_error_some|].
    unfold cpp_nat_read. pose proof (scalar_read_ferr cpp_nat_read_size s1) as H1.
    destruct (cpp_scalar_read cpp_nat_read_size s1) as [[ok1 n] s2]. cbn [fst snd] in H1.
    destruct ok1; cbn [negb]; [|intros _; now apply H1]. apply body_ferr.
  - destruct (cmp_op cpp_sr_cmp_fit _ _); [apply body_ferr|].
    destruct (cmp_op cpp_sr_cmp_pad _ _); cbn; [intros _; apply set_error_some|discriminate].
Qed.

Lemma read_prim_ferr p s : fst (fst (cpp_read_prim p s)) = false -> i_err (snd (cpp_read_prim p s)) <> None.
Proof.
  destruct p; cbn [cpp_read_prim].
  1-5: unfold cpp_nat_read, cpp_int_read, cpp_float_read, cpp_long_read, cpp_double_read;
       match goal with |- context [cpp_scalar_read ?sz ?x] =>
         pose proof (scalar_read_ferr sz x) as H1; destruct (cpp_scalar_read sz x) as [[ok n] s1]; exact H1 end.
  - pose proof (string_read_ferr s) as H1. destruct (cpp_string_read s) as [[ok v] s1]. exact H1.
  - pose proof (bool_read_ferr ftag ttag s) as H1. destruct (cpp_bool_read ftag ttag s) as [[ok v] s1]. exact H1.
  - intros _. apply set_error_some.
Qed.

Definition ferr {A} (cr : istream -> cres A) : Prop :=
  forall st v st', cr st = Some (false, v, st') -> i_err st' <> None.

Lemma fields_ferr crec ps : (forall t b a, ferr (crec t b a)) -> forall fds acc, ferr (cpp_dec_fields crec ps fds acc).
Proof.
  intros H. induction fds as [|fd fds IH]; intros acc st v st'; cbn [cpp_dec_fields]; [discriminate|].
  destruct (field_present ps acc fd); [|apply IH].
  destruct (crec _ _ _ st) as [[[ok x] st1]|] eqn:E; [|discriminate].
  destruct ok; [apply IH|]. intros E2. injection E2 as _ <-. eapply H; eauto.
Qed.

Lemma iter_ferr (fc : cstate -> option (bool * cstate)) :
  (forall c c', fc c = Some (false, c') -> i_err (snd c') <> None) ->
  forall p c c', cpos_iter fc p c = Some (false, c') -> i_err (snd c') <> None.
Proof.
  intros H. induction p as [p IH|p IH|]; intros c c'; cbn [cpos_iter]; unfold cbind.
  - destruct (fc c) as [[ok c1]|] eqn:E1; [|discriminate]. destruct ok.
    + destruct (cpos_iter fc p c1) as [[ok2 c2]|] eqn:E2; [|discriminate]. destruct ok2; [apply IH|].
      intros E. injection E as <-. eapply IH; eauto.
    + intros E. injection E as <-. eapply H; eauto.
  - destruct (cpos_iter fc p c) as [[ok2 c2]|] eqn:E2; [|discriminate]. destruct ok2; [apply IH|].
    intros E. injection E as <-. eapply IH; eauto.
  - apply H.
Qed.

Lemma elems_ferr (cr : istream -> cres value) n : ferr cr -> ferr (cpp_dec_elems cr n).
Proof.
  intros H st v st'. unfold cpp_dec_elems. destruct n as [|p]; [discriminate|].
  destruct (cpos_iter (cstep cr) p ([], st)) as [[ok [acc st1]]|] eqn:E; [|discriminate].
  intros E2. injection E2 as -> _ <-.
  eapply (iter_ferr (cstep cr)) in E; [exact E|].
  intros c c'. unfold cstep. destruct (cr (snd c)) as [[[ok x] s']|] eqn:Ec; [|discriminate].
  intros E3. injection E3 as -> <-. cbn. eapply H; eauto.
Qed.

Theorem cpp_fail_has_error s : forall fuel t bare ps, ferr (cpp_dec1 fuel s t bare ps).
Proof.
  induction fuel as [|fuel IH]; intros t bare ps st v st'; cbn [cpp_dec1]; [discriminate|].
  destruct (nth_error s t) as [[p|tag fds|vars|k ef|kp ef]|].
  - intros E. injection E as E. pose proof (read_prim_ferr p st) as H. rewrite E in H. now apply H.
  - assert (Hgo : forall st1, match cpp_dec_fields (cpp_dec1 fuel s) ps fds [] st1 with
                              | None => None | Some (ok, fs, st2) => Some (ok, VStruct fs, st2) end = Some (false, v, st') ->
                              i_err st' <> None).
    { intros st1. destruct (cpp_dec_fields _ ps fds [] st1) as [[[ok fs] st2]|] eqn:E; [|discriminate].
      intros E2. injection E2 as -> _ <-. eapply (fields_ferr _ ps IH); eauto. }
    destruct bare; [apply Hgo|].
    pose proof (exact_tag_ferr tag st) as H. destruct (cpp_nat_read_exact_tag tag st) as [ok st1]. cbn [fst snd] in H.
    destruct ok; cbn [negb]; [apply Hgo|]. intros E. injection E as _ <-. now apply H.
  - destruct bare; [intros E; injection E as _ <-; apply set_error_some|].
    pose proof (scalar_read_ferr cpp_nat_read_size st) as H. unfold cpp_nat_read.
    destruct (cpp_scalar_read cpp_nat_read_size st) as [[ok tg] st1]. cbn [fst snd] in H.
    destruct ok; cbn [negb]; [|intros E; injection E as _ <-; now apply H].
    destruct (cpp_switch s vars tg 0) as [[idx fds]|]; [|intros E; injection E as _ <-; apply set_error_some].
    destruct (cpp_dec_fields _ ps fds [] st1) as [[[ok fs] st2]|] eqn:E; [|discriminate].
    intros E2. injection E2 as -> _ <-. eapply (fields_ferr _ ps IH); eauto.
  - destruct (negb bare); [intros E; injection E as _ <-; apply set_error_some|].
    assert (Hel : forall n st1, match cpp_dec_elems (cpp_dec1 fuel s (f_ty ef) (f_bare ef) (eval_args ps [] (f_args ef))) n st1 with
                                | None => None | Some (ok, es, st2) => Some (ok, VArr es, st2) end = Some (false, v, st') ->
                                i_err st' <> None).
    { intros n st1. destruct (cpp_dec_elems _ n st1) as [[[ok es] st2]|] eqn:E; [|discriminate].
      intros E2. injection E2 as -> _ <-. eapply (elems_ferr _ n (IH _ _ _)); eauto. }
    destruct k; [|apply Hel|apply Hel].
    pose proof (scalar_read_ferr cpp_nat_read_size st) as H. unfold cpp_nat_read.
    destruct (cpp_scalar_read cpp_nat_read_size st) as [[ok n] st1]. cbn [fst snd] in H.
    destruct ok; cbn [negb]; [apply Hel|]. intros E. injection E as _ <-. now apply H.
  - destruct (negb bare); [intros E; injection E as _ <-; apply set_error_some|].
    pose proof (scalar_read_ferr cpp_nat_read_size st) as H. unfold cpp_nat_read.
    destruct (cpp_scalar_read cpp_nat_read_size st) as [[ok n] st1]. cbn [fst snd] in H.
    destruct ok; cbn [negb]; [|intros E; injection E as _ <-; now apply H].
    destruct (cpp_dec_elems _ n st1) as [[[ok es] st2]|] eqn:E; [|discriminate].
    intros E2. injection E2 as -> _ <-. eapply (elems_ferr _ n (IH _ _ _)); eauto.
  - intros E. injection E as _ <-. apply set_error_some.
Qed.

(** hence `return s.set_error_unknown_scenario()` after a failed generated reader is the identity on the stream *)
Corollary set_error_unknown_scenario_is_noop s fuel t bare ps st v st' :
  cpp_dec1 fuel s t bare ps st = Some (false, v, st') -> i_set_error E_UNKNOWN st' = st'.
Proof. intros H. apply set_error_idem. eapply cpp_fail_has_error; eauto. Qed.

(** * What the C31 driver observes: the generated C++ code reads the bytes the Go writer produced for a
    value and writes back identical bytes *)
Lemma ostream_of_wf room : (0 < room)%nat -> owf (ostream_of room) /\ o_room (ostream_of room) = N.of_nat room /\ o_done (ostream_of room) = [].
Proof.
  intros H. unfold ostream_of, owf, o_room. cbn. repeat split.
  - constructor; [|constructor]. destruct room; [lia|discriminate].
  - rewrite app_nil_r. unfold lenN. now rewrite repeat_length.
Qed.

Theorem cpp_rw1_written s : wf_schema s = true ->
  forall v fuel t bare b rest,
    (vdepth v <= fuel)%nat ->
    enc1 false s t bare [] v = Some b ->
    bytes_ok (b ++ rest) -> lenN (b ++ rest) <= maxMediumStringLen -> strs_short v = true ->
    cpp_rw1 fuel s t bare (b ++ rest) = CRwOk (length b) (Some b).
Proof.
  intros Hwf v fuel t bare b rest Hd He Hok Hlen Hs. unfold cpp_rw1.
  pose proof (enc1_dec1 false s Hwf v fuel Hd t bare [] b rest He) as Hdec.
  destruct (istream_of_wf (b ++ rest)) as [Hw Hr].
  assert (Hwb : iwfb (istream_of (b ++ rest))) by (split; [exact Hw|now rewrite Hr]).
  rewrite <- Hr in Hdec, Hlen.
  destruct (cpp_reads_what_go_reads s Hwf fuel t bare [] _ v rest Hwb Hlen Hdec) as (st' & -> & [He' _] & Hr').
  cbn [iobs]. rewrite He', Hr'.
  destruct (ostream_of_wf (2 * length (b ++ rest) + 64) ltac:(lia)) as (Ho & Hroom & Hdone).
  destruct (cpp_enc1_spec s v t bare [] b He Hs _ Ho) as (r & -> & Hsp).
  replace (o_room (ostream_of (2 * length (b ++ rest) + 64)) <? lenN b) with false in Hsp
    by (rewrite Hroom; unfold lenN; rewrite app_length; lia).
  rewrite (ospec_oobs _ _ _ Hsp), Hdone. cbn [app]. f_equal. rewrite app_length. lia.
Qed.
