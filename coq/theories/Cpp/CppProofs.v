(** Proofs about the C++ runtime model [CppModel]: every primitive of tl_istream / tl_ostream,
    for every split of the input/output into connector buffers, equals the Go-side model
    (Prim.PrimModel / Tl1.Tl1Model) -- or differs exactly as stated. *)
From Coq Require Import List NArith Bool Lia ZArith ZifyN ZifyNat ZifyBool.
From TLV Require Import Prim.PrimModel Prim.PrimProofs Tl1.Tl1Model Cpp.CppModel.
Import ListNotations.
Open Scope N_scope.
Ltac Zify.zify_post_hook ::= Z.div_mod_to_equations.

(** the comparison operators extracted from the C++ source, as the comparisons they are *)
Lemma cmp_ops a b :
  cmp_op cpp_sr_cmp_big a b = (b <=? a) /\ cmp_op cpp_sr_cmp_huge a b = (b <? a) /\ cmp_op cpp_sr_cmp_fit a b = (b <? a)
  /\ cmp_op cpp_sr_cmp_pad a b = negb (a =? b) /\ cmp_op cpp_sw_cmp_tiny a b = (b <? a) /\ cmp_op cpp_sw_cmp_big a b = (b <? a)
  /\ cmp_op cpp_sw_cmp_fit a b = (b <? a) /\ cmp_op cpp_fp_cmp a b = negb (a =? b).
Proof. repeat split. Qed.
Ltac norm_cmp :=
  repeat match goal with
         | |- context [cmp_op cpp_sr_cmp_big ?a ?b] => change (cmp_op cpp_sr_cmp_big a b) with (b <=? a)
         | |- context [cmp_op cpp_sr_cmp_huge ?a ?b] => change (cmp_op cpp_sr_cmp_huge a b) with (b <? a)
         | |- context [cmp_op cpp_sr_cmp_fit ?a ?b] => change (cmp_op cpp_sr_cmp_fit a b) with (b <? a)
         | |- context [cmp_op cpp_sr_cmp_pad ?a ?b] => change (cmp_op cpp_sr_cmp_pad a b) with (negb (a =? b))
         | |- context [cmp_op cpp_sw_cmp_tiny ?a ?b] => change (cmp_op cpp_sw_cmp_tiny a b) with (b <? a)
         | |- context [cmp_op cpp_sw_cmp_big ?a ?b] => change (cmp_op cpp_sw_cmp_big a b) with (b <? a)
         | |- context [cmp_op cpp_sw_cmp_fit ?a ?b] => change (cmp_op cpp_sw_cmp_fit a b) with (b <? a)
         | |- context [cmp_op cpp_fp_cmp ?a ?b] => change (cmp_op cpp_fp_cmp a b) with (negb (a =? b))
         end.

(** * takeN / dropN *)
Lemma lenN_length {A} (l : list A) : N.to_nat (lenN l) = length l.
Proof. unfold lenN. lia. Qed.

Lemma lenN_takeN {A} n (l : list A) : lenN (takeN n l) = N.min n (lenN l).
Proof. unfold takeN, lenN. rewrite firstn_length. lia. Qed.

Lemma lenN_dropN {A} n (l : list A) : lenN (dropN n l) = lenN l - n.
Proof. unfold dropN, lenN. rewrite skipn_length. lia. Qed.

Lemma takeN_dropN {A} n (l : list A) : takeN n l ++ dropN n l = l.
Proof. apply firstn_skipn. Qed.

Lemma takeN_all {A} n (l : list A) : lenN l <= n -> takeN n l = l.
Proof. intros. unfold takeN. apply firstn_all2. unfold lenN in *. lia. Qed.

Lemma dropN_all {A} n (l : list A) : lenN l <= n -> dropN n l = [].
Proof. intros. unfold dropN. apply skipn_all2. unfold lenN in *. lia. Qed.

Lemma takeN_0 {A} (l : list A) : takeN 0 l = [].
Proof. reflexivity. Qed.
Lemma dropN_0 {A} (l : list A) : dropN 0 l = l.
Proof. reflexivity. Qed.

Lemma takeN_app_le {A} n (a b : list A) : n <= lenN a -> takeN n (a ++ b) = takeN n a.
Proof.
  intros. unfold takeN. rewrite firstn_app.
  replace (N.to_nat n - length a)%nat with 0%nat by (unfold lenN in *; lia).
  cbn. apply app_nil_r.
Qed.

Lemma takeN_app_ge {A} n (a b : list A) : lenN a <= n -> takeN n (a ++ b) = a ++ takeN (n - lenN a) b.
Proof.
  intros. unfold takeN. rewrite firstn_app. f_equal.
  - apply firstn_all2. unfold lenN in *. lia.
  - f_equal. unfold lenN in *. lia.
Qed.

Lemma dropN_app_le {A} n (a b : list A) : n <= lenN a -> dropN n (a ++ b) = dropN n a ++ b.
Proof.
  intros. unfold dropN. rewrite skipn_app.
  replace (N.to_nat n - length a)%nat with 0%nat by (unfold lenN in *; lia). reflexivity.
Qed.

Lemma dropN_app_ge {A} n (a b : list A) : lenN a <= n -> dropN n (a ++ b) = dropN (n - lenN a) b.
Proof.
  intros. unfold dropN. rewrite skipn_app.
  rewrite (skipn_all2 a) by (unfold lenN in *; lia). cbn. f_equal. unfold lenN in *. lia.
Qed.

Lemma dropN_dropN {A} n m (l : list A) : dropN n (dropN m l) = dropN (m + n) l.
Proof.
  unfold dropN. replace (N.to_nat (m + n)) with (N.to_nat m + N.to_nat n)%nat by lia.
  revert l. induction (N.to_nat m); intros l; cbn; [reflexivity|].
  destruct l; [now rewrite skipn_nil|apply IHn0].
Qed.

Lemma takeN_takeN {A} n m (l : list A) : n <= m -> takeN n (takeN m l) = takeN n l.
Proof. intros. unfold takeN. rewrite firstn_firstn. f_equal. lia. Qed.

Lemma takeN_dropN_split {A} n m (l : list A) : takeN (n + m) l = takeN n l ++ takeN m (dropN n l).
Proof.
  unfold takeN, dropN. replace (N.to_nat (n + m)) with (N.to_nat n + N.to_nat m)%nat by lia.
  revert l. induction (N.to_nat n); intros l; cbn.
  - reflexivity.
  - destruct l; cbn. now rewrite firstn_nil. now rewrite IHn0.
Qed.

Lemma lenN_0_nil {A} (l : list A) : lenN l = 0 -> l = [].
Proof. destruct l; [reflexivity|]. rewrite lenN_cons. lia. Qed.

Lemma lenN_concat_cons (b : bytes) (m : list bytes) : lenN (concat (b :: m)) = lenN b + lenN (concat m).
Proof. cbn [concat]. apply lenN_app. Qed.

(** * well-formed streams *)
Definition blocks_ok (m : list bytes) : Prop := Forall (fun b => b <> []) m.
Definition iwf (s : istream) : Prop := i_err s = None /\ blocks_ok (i_more s).

(** the relation "this C++ call behaves like this flat reader result" *)
Definition ispec {A} (r : bool * A * istream) (flat : res (A * bytes)) : Prop :=
  match flat with
  | Ok (v, rest) => fst (fst r) = true /\ snd (fst r) = v /\ iwf (snd r) /\ i_rest (snd r) = rest
  | Eof => fst (fst r) = false /\ i_err (snd r) = Some E_EOF
  | Reject => fst (fst r) = false /\ exists e, i_err (snd r) = Some e /\ e <> E_EOF
  end.

Lemma ispec_iobs {A} (r : bool * A * istream) flat : ispec r flat -> iobs r = flat.
Proof.
  destruct r as [[ok v] s]. unfold ispec, iobs. destruct flat as [[v' rest]| |]; cbn [fst snd].
  - intros (-> & -> & [He _] & <-). now rewrite He.
  - intros (_ & ->). reflexivity.
  - intros (_ & e & -> & Hne). destruct e; congruence.
Qed.

(** * the fetch loop *)
Lemma fetch_loop_spec : forall more cur size acc, blocks_ok more ->
  let all := cur ++ concat more in
  if lenN all <? size
  then fst (fst (fetch_loop cur more size acc)) = None
  else exists c m, fetch_loop cur more size acc = (Some (acc ++ takeN size all), c, m)
                   /\ c ++ concat m = dropN size all /\ blocks_ok m.
Proof.
  induction more as [|b m IH]; intros cur size acc Hb all; subst all.
  - cbn [concat fetch_loop]. rewrite app_nil_r.
    destruct (lenN cur <? size) eqn:E; [reflexivity|].
    exists (dropN size cur), []. cbn [concat]. now rewrite app_nil_r.
  - inversion Hb as [|? ? Hbne Hm]; subst.
    cbn [fetch_loop]. destruct (lenN cur <? size) eqn:E.
    + destruct b as [|b0 b']; [congruence|].
      specialize (IH (b0 :: b') (size - lenN cur) (acc ++ cur) Hm). cbn zeta in IH.
      cbn [concat]. rewrite !lenN_app in *.
      destruct (lenN (b0 :: b') + lenN (concat m) <? size - lenN cur) eqn:E2.
      * apply N.ltb_lt in E, E2.
        assert (lenN cur + (lenN (b0 :: b') + lenN (concat m)) <? size = true) as -> by (apply N.ltb_lt; clear - E E2; lia).
        exact IH.
      * apply N.ltb_lt in E. apply N.ltb_ge in E2.
        assert (lenN cur + (lenN (b0 :: b') + lenN (concat m)) <? size = false) as -> by (apply N.ltb_ge; clear - E E2; lia).
        destruct IH as (c & m' & -> & H1 & H2). exists c, m'. split; [|split; [|exact H2]].
        -- f_equal. f_equal. rewrite <- app_assoc. f_equal. rewrite (takeN_app_ge size cur) by (clear - E; lia). reflexivity.
        -- rewrite H1. rewrite (dropN_app_ge size cur) by (clear - E; lia). reflexivity.
    + assert (lenN (cur ++ concat (b :: m)) <? size = false) as -> by (rewrite lenN_app; lia).
      exists (dropN size cur), (b :: m). split; [|split; [|exact Hb]].
      * now rewrite takeN_app_le by lia.
      * now rewrite dropN_app_le by lia.
Qed.

(** flat reader of [size] raw bytes *)
Definition raw_r (size : N) (b : bytes) : res (bytes * bytes) :=
  if lenN b <? size then Eof else Ok (takeN size b, dropN size b).

Lemma cpp_fetch_data2_spec size s : iwf s -> ispec (cpp_fetch_data2 size s) (raw_r size (i_rest s)).
Proof.
  intros [He Hb]. unfold cpp_fetch_data2, raw_r, i_rest.
  pose proof (fetch_loop_spec (i_more s) (i_cur s) size [] Hb) as H. cbn zeta in H.
  destruct (lenN (i_cur s ++ concat (i_more s)) <? size).
  - destruct (fetch_loop (i_cur s) (i_more s) size []) as [[[d|] c] m]; cbn in H; [discriminate|].
    cbn. unfold i_set_error. cbn. rewrite He. cbn. auto.
  - destruct H as (c & m & -> & H1 & H2). cbn. repeat split; auto.
Qed.

Lemma cpp_fetch_data_append_spec size s : iwf s ->
  ispec (cpp_fetch_data_append [] size s) (raw_r size (i_rest s)).
Proof.
  intros [He Hb]. unfold cpp_fetch_data_append, raw_r, i_rest.
  pose proof (fetch_loop_spec (i_more s) (i_cur s) size [] Hb) as H. cbn zeta in H.
  destruct (lenN (i_cur s ++ concat (i_more s)) <? size).
  - destruct (fetch_loop (i_cur s) (i_more s) size []) as [[[d|] c] m]; cbn in H; [discriminate|].
    cbn. unfold i_set_error. cbn. rewrite He. cbn. auto.
  - destruct H as (c & m & -> & H1 & H2). cbn. repeat split; auto.
Qed.

Lemma cpp_fetch_data_spec size s : iwf s -> ispec (cpp_fetch_data size s) (raw_r size (i_rest s)).
Proof.
  intros Hw. unfold cpp_fetch_data. destruct (lenN (i_cur s) <? size) eqn:E.
  - now apply cpp_fetch_data2_spec.
  - destruct Hw as [He Hb]. unfold raw_r, i_rest. rewrite lenN_app.
    replace (lenN (i_cur s) + lenN (concat (i_more s)) <? size) with false by lia.
    cbn. repeat split; auto.
    + now rewrite takeN_app_le by lia.
    + now rewrite dropN_app_le by lia.
Qed.

(** * scalar reads *)
Definition fixed_r (sz : N) (b : bytes) : res (N * bytes) :=
  if lenN b <? sz then Eof else Ok (le_val (takeN sz b), dropN sz b).

Lemma cpp_scalar_read_spec sz s : iwf s -> ispec (cpp_scalar_read sz s) (fixed_r sz (i_rest s)).
Proof.
  intros Hw. unfold cpp_scalar_read, fixed_r. destruct (lenN (i_cur s) <? sz) eqn:E.
  - pose proof (cpp_fetch_data2_spec sz s Hw) as H. unfold raw_r in H.
    destruct (cpp_fetch_data2 sz s) as [[ok d] s1].
    destruct (lenN (i_rest s) <? sz); cbn in *.
    + exact H.
    + destruct H as (-> & -> & H1 & H2). auto.
  - destruct Hw as [He Hb]. unfold i_rest. rewrite lenN_app.
    replace (lenN (i_cur s) + lenN (concat (i_more s)) <? sz) with false by lia.
    cbn. repeat split; auto.
    + now rewrite takeN_app_le by lia.
    + now rewrite dropN_app_le by lia.
Qed.

Lemma nat_r_fixed b : nat_r b = fixed_r 4 b.
Proof.
  unfold fixed_r. destruct b as [|b0 [|b1 [|b2 [|b3 r]]]]; try reflexivity.
  rewrite !lenN_cons. replace (1 + (1 + (1 + (1 + lenN r))) <? 4) with false by lia. reflexivity.
Qed.

Lemma long_r_fixed b : long_r b = fixed_r 8 b.
Proof.
  unfold fixed_r. destruct b as [|b0 [|b1 [|b2 [|b3 [|b4 [|b5 [|b6 [|b7 r]]]]]]]]; try reflexivity.
  rewrite !lenN_cons.
  replace (1 + (1 + (1 + (1 + (1 + (1 + (1 + (1 + lenN r))))))) <? 8) with false by lia. reflexivity.
Qed.

Definition map_res {A B} (f : A -> B) (r : res (A * bytes)) : res (B * bytes) :=
  match r with Ok (a, b) => Ok (f a, b) | Eof => Eof | Reject => Reject end.

Lemma ispec_map {A B} (f : A -> B) ok v s flat :
  ispec (ok, v, s) flat -> ispec (ok, f v, s) (map_res f flat).
Proof.
  unfold ispec. destruct flat as [[a b]| |]; cbn; auto.
  intros (-> & -> & H); auto.
Qed.

Theorem cpp_nat_read_spec s : iwf s -> ispec (cpp_nat_read s) (nat_r (i_rest s)).
Proof. intros. rewrite nat_r_fixed. now apply cpp_scalar_read_spec. Qed.
Theorem cpp_int_read_spec s : iwf s -> ispec (cpp_int_read s) (nat_r (i_rest s)).
Proof. intros. rewrite nat_r_fixed. now apply cpp_scalar_read_spec. Qed.
Theorem cpp_float_read_spec s : iwf s -> ispec (cpp_float_read s) (nat_r (i_rest s)).
Proof. intros. rewrite nat_r_fixed. now apply cpp_scalar_read_spec. Qed.
Theorem cpp_long_read_spec s : iwf s -> ispec (cpp_long_read s) (long_r (i_rest s)).
Proof. intros. rewrite long_r_fixed. now apply cpp_scalar_read_spec. Qed.
Theorem cpp_double_read_spec s : iwf s -> ispec (cpp_double_read s) (long_r (i_rest s)).
Proof. intros. rewrite long_r_fixed. now apply cpp_scalar_read_spec. Qed.

(** * nat_read_exact_tag, bool_read *)
Definition tag_r (tag : N) (b : bytes) : res (unit * bytes) :=
  match nat_r b with
  | Ok (t, r) => if t =? tag then Ok (tt, r) else Reject
  | Eof => Eof
  | Reject => Reject
  end.

Lemma i_set_error_err e s : i_err s = None -> i_err (i_set_error e s) = Some e.
Proof. unfold i_set_error. intros ->. reflexivity. Qed.

Theorem cpp_nat_read_exact_tag_spec tag s : iwf s ->
  ispec (let '(ok, s1) := cpp_nat_read_exact_tag tag s in (ok, tt, s1)) (tag_r tag (i_rest s)).
Proof.
  intros Hw. pose proof (cpp_nat_read_spec s Hw) as H. unfold cpp_nat_read_exact_tag, tag_r.
  destruct (cpp_nat_read s) as [[ok n] s1]. destruct (nat_r (i_rest s)) as [[t r]| |]; cbn in H.
  - destruct H as (-> & -> & [He Hb] & Hr). cbn. rewrite N.eqb_sym. destruct (t =? tag); cbn.
    + repeat split; auto.
    + split; auto. exists E_TAG. rewrite i_set_error_err by auto. split; congruence.
  - destruct H as (-> & H). cbn. auto.
  - destruct H as (-> & H). cbn. auto.
Qed.

Lemma nat_r_not_reject b : nat_r b <> Reject.
Proof. destruct b as [|b0 [|b1 [|b2 [|b3 r]]]]; discriminate. Qed.

(** bool_read: a foreign tag sets the error but the call returns true: only the error is observable.
    Go tests the false tag first, C++ the true tag: they agree because the two tags of a Bool differ
    ([wf_schema]: tydef_ok (TPrim (PBool f t)) demands f <> t). *)
Theorem cpp_bool_read_obs f t s : f <> t -> iwf s -> iobs (cpp_bool_read f t s) = bool1_r f t (i_rest s).
Proof.
  intros Hft Hw. pose proof (cpp_nat_read_spec s Hw) as H. unfold cpp_bool_read, bool1_r.
  destruct (cpp_nat_read s) as [[ok n] s1]. destruct (nat_r (i_rest s)) as [[tg r]| |]; cbn in H.
  - destruct H as (-> & -> & [He Hb] & Hr). cbn [negb].
    destruct (tg =? t) eqn:Et; destruct (tg =? f) eqn:Ef; cbn.
    + apply N.eqb_eq in Et, Ef. congruence.
    + rewrite He, Hr. reflexivity.
    + rewrite He, Hr. reflexivity.
    + rewrite i_set_error_err by auto. reflexivity.
  - destruct H as (-> & H). cbn. now rewrite H.
  - destruct H as (-> & e & H & Hne). cbn. rewrite H. destruct e; congruence.
Qed.

(** the precise shape, for the codec layer: on a foreign tag ok = true, value = false, error E_TAG,
    and the four tag bytes are consumed *)
Theorem cpp_bool_read_spec f t s : f <> t -> iwf s ->
  match bool1_r f t (i_rest s) with
  | Reject => exists tg r s1, nat_r (i_rest s) = Ok (tg, r) /\ cpp_bool_read f t s = (true, false, s1)
                              /\ i_err s1 = Some E_TAG /\ blocks_ok (i_more s1) /\ i_rest s1 = r
  | flat => ispec (cpp_bool_read f t s) flat
  end.
Proof.
  intros Hft Hw. pose proof (cpp_nat_read_spec s Hw) as H. unfold cpp_bool_read, bool1_r.
  pose proof (nat_r_not_reject (i_rest s)) as Hnr.
  destruct (cpp_nat_read s) as [[ok n] s1]. destruct (nat_r (i_rest s)) as [[tg r]| |]; cbn in H.
  - destruct H as (-> & -> & [He Hb] & Hr). cbn [negb].
    destruct (tg =? t) eqn:Et; destruct (tg =? f) eqn:Ef; cbn.
    + apply N.eqb_eq in Et, Ef. congruence.
    + repeat split; auto.
    + repeat split; auto.
    + exists tg, r, (i_set_error E_TAG s1). repeat split; auto.
      * now apply i_set_error_err.
      * unfold i_set_error. now rewrite He.
      * unfold i_set_error, i_rest. now rewrite He.
  - destruct H as (-> & H). cbn. auto.
  - congruence.
Qed.

(** * string_read *)
Lemma neg64_pad x : x < two64 -> N.land (neg64 x) 3 = padding_len x.
Proof.
  intros Hx. change 3 with (N.ones 2). rewrite N.land_ones. unfold neg64, padding_len, two64 in *.
  change (2 ^ 2) with 4. lia.
Qed.

Lemma le_val_zero d : (le_val d =? 0) = all_zero d.
Proof.
  induction d as [|b r IH]; [reflexivity|]. unfold all_zero in *. cbn [le_val forallb]. rewrite <- IH.
  destruct (b =? 0) eqn:E1; destruct (le_val r =? 0) eqn:E2; cbn [andb]; lia.
Qed.

Definition pad_r (n : N) (b : bytes) : res (unit * bytes) :=
  if lenN b <? n then Eof else if all_zero (takeN n b) then Ok (tt, dropN n b) else Reject.

Lemma cpp_fetch_pad_spec n s : iwf s ->
  ispec (let '(ok, s1) := cpp_fetch_pad n s in (ok, tt, s1)) (pad_r n (i_rest s)).
Proof.
  intros Hw. pose proof (cpp_fetch_data_spec n s Hw) as H. unfold cpp_fetch_pad, pad_r, raw_r in *. norm_cmp.
  destruct (cpp_fetch_data n s) as [[ok d] s1]. destruct (lenN (i_rest s) <? n); cbn in H.
  - destruct H as (-> & H). cbn. auto.
  - destruct H as (-> & -> & [He Hb] & Hr). cbn [negb]. norm_cmp. change cpp_fp_word_init with 0. rewrite N.add_0_l.
    rewrite le_val_zero. destruct (all_zero (takeN n (i_rest s))); cbn.
    + repeat split; auto.
    + split; auto. exists E_PADDING. rewrite i_set_error_err by auto. split; congruence.
Qed.

(** the code shared by the medium branch and the tiny slow path: content, then padding *)
Definition body_code (len pad : N) (s2 : istream) : bool * bytes * istream :=
  let '(ok2, v, s3) := cpp_fetch_data_append [] len s2 in
  if negb ok2 then (false, v, s3) else
  let '(ok3, s4) := cpp_fetch_pad pad s3 in
  if negb ok3 then (false, v, s4) else (true, v, s4).

Lemma body_code_spec len p s2 : iwf s2 ->
  ispec (body_code len (padding_len p) s2) (str1_body len p (i_rest s2)).
Proof.
  intros Hw. unfold body_code, str1_body.
  pose proof (cpp_fetch_data_append_spec len s2 Hw) as H. unfold raw_r in H.
  destruct (cpp_fetch_data_append [] len s2) as [[ok2 v] s3].
  destruct (lenN (i_rest s2) <? len) eqn:E1; cbn in H.
  - destruct H as (-> & H). cbn. auto.
  - destruct H as (-> & -> & Hw3 & Hr3). cbn [negb].
    pose proof (cpp_fetch_pad_spec (padding_len p) s3 Hw3) as H. unfold pad_r in H.
    destruct (cpp_fetch_pad (padding_len p) s3) as [ok3 s4]. rewrite Hr3 in H.
    rewrite lenN_dropN in H.
    assert ((lenN (i_rest s2) - len <? padding_len p) = (lenN (i_rest s2) <? len + padding_len p)) as Eq by lia.
    rewrite Eq in H. destruct (lenN (i_rest s2) <? len + padding_len p); cbn in H.
    + destruct H as (-> & H). cbn. auto.
    + fold (takeN len (i_rest s2)). fold (dropN len (i_rest s2)).
      fold (takeN (padding_len p) (dropN len (i_rest s2))).
      destruct (all_zero (takeN (padding_len p) (dropN len (i_rest s2)))); cbn in H.
      * destruct H as (-> & _ & Hw4 & Hr4). cbn. split; [reflexivity|split; [reflexivity|split; [exact Hw4|exact Hr4]]].
      * destruct H as (-> & H). cbn. auto.
Qed.

(** the fast path's padding test *)
Lemma land_shiftl_ones x k m :
  N.land x (N.shiftl (N.ones m) k) = N.shiftl (N.land (N.shiftr x k) (N.ones m)) k.
Proof.
  apply N.bits_inj. intro i. rewrite N.land_spec.
  destruct (N.lt_ge_cases i k) as [Hlt|Hge].
  - rewrite !N.shiftl_spec_low by assumption. apply andb_false_r.
  - rewrite !N.shiftl_spec_high' by assumption. rewrite N.land_spec, N.shiftr_spec'.
    now rewrite N.sub_add by assumption.
Qed.

Lemma pad_mask_check w0 w1 w2 w3 pad : w0 < 256 -> w1 < 256 -> w2 < 256 -> w3 < 256 -> pad < 4 ->
  (N.land (le_val [w0; w1; w2; w3]) (not32 (N.shiftr cpp_sr_ones (cpp_sr_byte_bits * pad))) =? 0)
  = all_zero (dropN (4 - pad) [w0; w1; w2; w3]).
Proof.
  intros H0 H1 H2 H3 Hp.
  assert (pad = 0 \/ pad = 1 \/ pad = 2 \/ pad = 3) as [-> | [-> | [-> | ->]]] by lia.
  - replace (not32 _) with 0 by (vm_compute; reflexivity). rewrite N.land_0_r. reflexivity.
  - replace (not32 _) with (N.shiftl (N.ones 8) 24) by (vm_compute; reflexivity).
    rewrite land_shiftl_ones, N.land_ones, N.shiftr_div_pow2, N.shiftl_mul_pow2.
    change (2 ^ 24) with 16777216. change (2 ^ 8) with 256. cbn [le_val].
    change (dropN (4 - 1) [w0; w1; w2; w3]) with [w3]. cbn [all_zero forallb]. rewrite andb_true_r.
    destruct (w3 =? 0) eqn:E; lia.
  - replace (not32 _) with (N.shiftl (N.ones 16) 16) by (vm_compute; reflexivity).
    rewrite land_shiftl_ones, N.land_ones, N.shiftr_div_pow2, N.shiftl_mul_pow2.
    change (2 ^ 16) with 65536. cbn [le_val].
    change (dropN (4 - 2) [w0; w1; w2; w3]) with [w2; w3]. cbn [all_zero forallb]. rewrite andb_true_r.
    destruct (w2 =? 0) eqn:E; destruct (w3 =? 0) eqn:E'; cbn [andb]; lia.
  - replace (not32 _) with (N.shiftl (N.ones 24) 8) by (vm_compute; reflexivity).
    rewrite land_shiftl_ones, N.land_ones, N.shiftr_div_pow2, N.shiftl_mul_pow2.
    change (2 ^ 24) with 16777216. change (2 ^ 8) with 256. cbn [le_val].
    change (dropN (4 - 3) [w0; w1; w2; w3]) with [w1; w2; w3]. cbn [all_zero forallb]. rewrite andb_true_r.
    destruct (w1 =? 0) eqn:E0; destruct (w2 =? 0) eqn:E; destruct (w3 =? 0) eqn:E'; cbn [andb]; lia.
Qed.

Lemma bytes_ok_app a b : bytes_ok (a ++ b) -> bytes_ok a /\ bytes_ok b.
Proof. unfold bytes_ok. apply Forall_app. Qed.

Lemma bytes_ok_takeN n l : bytes_ok l -> bytes_ok (takeN n l).
Proof. intros H. rewrite <- (takeN_dropN n l) in H. now apply bytes_ok_app in H. Qed.

Lemma bytes_ok_dropN n l : bytes_ok l -> bytes_ok (dropN n l).
Proof. intros H. rewrite <- (takeN_dropN n l) in H. now apply bytes_ok_app in H. Qed.

Lemma dropN_cons {A} n (x : A) l : dropN (1 + n) (x :: l) = dropN n l.
Proof. unfold dropN. replace (N.to_nat (1 + n)) with (S (N.to_nat n)) by lia. reflexivity. Qed.

Lemma list4 {A} (l : list A) : lenN l = 4 -> exists a b c d, l = [a; b; c; d].
Proof.
  destruct l as [|a [|b [|c [|d [|e r]]]]]; rewrite ?lenN_cons, ?lenN_nil; try lia.
  intros _. now exists a, b, c, d.
Qed.

(** the last [pad] bytes of the word read at [F - 4] are the bytes at [F - pad] *)
Lemma last_word_tail (c : bytes) F pad : 4 <= F -> pad <= 4 -> F <= lenN c ->
  dropN (4 - pad) (takeN 4 (dropN (F - 4) c)) = takeN pad (dropN (F - pad) c).
Proof.
  intros HF Hp Hc.
  replace (takeN 4 (dropN (F - 4) c)) with (takeN ((4 - pad) + pad) (dropN (F - 4) c)) by (f_equal; lia).
  rewrite takeN_dropN_split, dropN_dropN.
  rewrite dropN_app_ge by (rewrite lenN_takeN, lenN_dropN; lia).
  rewrite lenN_takeN, lenN_dropN.
  replace (4 - pad - N.min (4 - pad) (lenN c - (F - 4))) with 0 by lia.
  rewrite dropN_0. do 2 f_equal. lia.
Qed.

Lemma cpp_ensure_byte_spec s : iwf s ->
  match i_rest s with
  | [] => fst (cpp_ensure_byte s) = false /\ i_err (snd (cpp_ensure_byte s)) = Some E_EOF
  | b0 :: _ => fst (cpp_ensure_byte s) = true /\ iwf (snd (cpp_ensure_byte s))
               /\ i_rest (snd (cpp_ensure_byte s)) = i_rest s
               /\ exists c, i_cur (snd (cpp_ensure_byte s)) = b0 :: c
  end.
Proof.
  intros [He Hb]. unfold cpp_ensure_byte, i_rest, i_grow. destruct s as [cur more err]; cbn in *. subst err.
  destruct cur as [|c0 c]; cbn.
  - destruct more as [|b m]; cbn; [auto|].
    inversion Hb as [|? ? Hbne Hm]; subst. destruct b as [|b0 b]; [congruence|]. cbn.
    repeat split; auto. eauto.
  - repeat split; auto. eauto.
Qed.

Theorem cpp_string_read_spec s : iwf s -> bytes_ok (i_rest s) ->
  ispec (cpp_string_read s) (cpp_str_flat (i_rest s)).
Proof.
  intros Hw Hok. pose proof (cpp_ensure_byte_spec s Hw) as H0. unfold cpp_string_read. norm_cmp.
  destruct (cpp_ensure_byte s) as [ok0 s1]. cbn [fst snd] in H0.
  destruct (i_rest s) as [|b0 r1] eqn:Hrest.
  { destruct H0 as (-> & H0). cbn. auto. }
  destruct H0 as (-> & Hw1 & Hr1 & c1 & Hc1). cbn [negb]. rewrite Hc1. norm_cmp.
  assert (Hb0 : b0 < 256) by (inversion Hok; assumption).
  assert (Hr1' : r1 = c1 ++ concat (i_more s1)).
  { unfold i_rest in Hr1. rewrite Hc1 in Hr1. cbn in Hr1. congruence. }
  unfold cpp_str_flat.
  destruct (cpp_TL_BIG_STRING_MARKER <=? b0) eqn:Ebig.
  - destruct (cpp_TL_BIG_STRING_MARKER <? b0) eqn:Ehuge.
    + cbn. split; auto. exists E_SEQLEN. destruct Hw1 as [He1 _]. rewrite i_set_error_err by auto. split; congruence.
    + assert (b0 = 254) as -> by (unfold cpp_TL_BIG_STRING_MARKER in *; lia).
      pose proof (cpp_nat_read_spec s1 Hw1) as Hn. rewrite Hr1 in Hn.
      destruct (cpp_nat_read s1) as [[ok1 len32] s2].
      destruct r1 as [|x1 [|x2 [|x3 r4]]]; cbn [nat_r] in Hn; unfold ispec in Hn; cbn [fst snd] in Hn;
        try (destruct Hn as (-> & Hn); cbn; now auto).
      destruct Hn as (-> & -> & Hw2 & Hr2). cbn [negb].
      assert (Hx : x1 < 256 /\ x2 < 256 /\ x3 < 256).
      { inversion Hok as [|? ? _ Hok1]; subst. inversion Hok1 as [|? ? ? Hok2]; subst.
        inversion Hok2 as [|? ? ? Hok3]; subst. inversion Hok3; subst. auto. }
      assert (Hl : N.shiftr (le_val [254; x1; x2; x3]) cpp_sr_len_shift = le_val [x1; x2; x3]).
      { change cpp_sr_len_shift with 8. rewrite N.shiftr_div_pow2. change (2 ^ 8) with 256. cbn [le_val]. lia. }
      rewrite Hl. set (l := le_val [x1; x2; x3]).
      assert (Hlb : l < two64) by (subst l; cbn [le_val]; unfold two64; lia).
      change cpp_sr_pad_mask with 3. rewrite (neg64_pad l Hlb).
      pose proof (body_code_spec l l s2 Hw2) as Hbody. rewrite Hr2 in Hbody. exact Hbody.
  - assert (Hb253 : b0 <= 253) by (unfold cpp_TL_BIG_STRING_MARKER in *; lia).
    change cpp_sr_len_byte with 1. change cpp_sr_pad_mask with 3. change cpp_sr_word with 4.
    rewrite (neg64_pad (b0 + 1)) by (unfold two64; lia).
    set (pad := padding_len (b0 + 1)).
    assert (Hpad : pad < 4 /\ (b0 + 1 + pad) mod 4 = 0) by apply padding_len_spec.
    destruct (lenN (b0 :: c1) <? 1 + b0 + pad) eqn:Efit.
    + (* slow path *)
      change (dropN 1 (b0 :: c1)) with c1.
      set (s2 := mkI c1 (i_more s1) (i_err s1)).
      assert (Hw2 : iwf s2) by (destruct Hw1; split; assumption).
      pose proof (body_code_spec b0 (b0 + 1) s2 Hw2) as Hbody.
      replace (i_rest s2) with r1 in Hbody by (rewrite Hr1'; reflexivity). exact Hbody.
    + (* fast path *)
      rewrite lenN_cons in Efit. set (F := 1 + b0 + pad) in *.
      assert (HF4 : 4 <= F) by (subst F; lia).
      assert (HFc : F <= lenN (b0 :: c1)) by (rewrite lenN_cons; lia).
      assert (Hokc : bytes_ok (b0 :: c1)).
      { rewrite Hr1' in Hok. change (b0 :: c1 ++ concat (i_more s1)) with ((b0 :: c1) ++ concat (i_more s1)) in Hok.
        now apply bytes_ok_app in Hok. }
      pose proof (last_word_tail (b0 :: c1) F pad HF4 ltac:(lia) HFc) as Htail.
      assert (Hlen4 : lenN (takeN 4 (dropN (F - 4) (b0 :: c1))) = 4)
        by (rewrite lenN_takeN, lenN_dropN; lia).
      destruct (list4 _ Hlen4) as (w0 & w1 & w2 & w3 & Hw4).
      assert (Hwok : bytes_ok [w0; w1; w2; w3]).
      { rewrite <- Hw4. apply bytes_ok_takeN, bytes_ok_dropN, Hokc. }
      rewrite Hw4 in *.
      assert (Hwb : w0 < 256 /\ w1 < 256 /\ w2 < 256 /\ w3 < 256).
      { inversion Hwok as [|? ? ? Hk1]; subst. inversion Hk1 as [|? ? ? Hk2]; subst.
        inversion Hk2 as [|? ? ? Hk3]; subst. inversion Hk3; subst. auto. }
      destruct Hwb as (? & ? & ? & ?).
      rewrite pad_mask_check by (auto; lia). rewrite Htail.
      replace (F - pad) with (1 + b0) by (subst F; lia). rewrite dropN_cons.
      (* the Go side on r1 = c1 ++ rest *)
      unfold str1_body. rewrite Hr1'. fold pad.
      rewrite lenN_app.
      replace (lenN c1 + lenN (concat (i_more s1)) <? b0) with false by lia.
      replace (lenN c1 + lenN (concat (i_more s1)) <? b0 + pad) with false by lia.
      fold (takeN b0 (c1 ++ concat (i_more s1))). fold (dropN b0 (c1 ++ concat (i_more s1))).
      rewrite takeN_app_le by lia. rewrite dropN_app_le by lia.
      fold (takeN pad (dropN b0 c1 ++ concat (i_more s1))).
      fold (dropN pad (dropN b0 c1 ++ concat (i_more s1))).
      rewrite takeN_app_le by (rewrite lenN_dropN; lia).
      rewrite dropN_app_le by (rewrite lenN_dropN; lia).
      destruct (all_zero (takeN pad (dropN b0 c1))); cbn [negb].
      * cbn. destruct Hw1 as [He1 Hb1]. split; [reflexivity|split; [reflexivity|split; [split; assumption|]]].
        unfold i_rest. cbn. f_equal. rewrite dropN_dropN.
        replace F with (1 + (b0 + pad)) by (subst F; lia). now rewrite dropN_cons.
      * cbn. split; auto. exists E_PADDING. destruct Hw1 as [He1 _].
        rewrite i_set_error_err by auto. split; congruence.
Qed.

(** ** C++ string_read vs Go StringRead: exactly where they differ *)
Definition str_huge_form (r : bytes) : bool :=
  match r with b0 :: _ => b0 =? hugeStringMarker | [] => false end.
Definition str_medium_noncanonical (r : bytes) : bool :=
  match r with
  | b0 :: x1 :: x2 :: x3 :: _ => (b0 =? mediumStringMarker) && (le_val [x1; x2; x3] <=? tinyStringLen)
  | _ => false
  end.

Theorem cpp_str_flat_eq_go r : bytes_ok r ->
  str_huge_form r = false -> str_medium_noncanonical r = false -> cpp_str_flat r = str1_r r.
Proof.
  intros Hok Hh Hm. destruct r as [|b0 r1]; [reflexivity|].
  assert (Hb0 : b0 < 256) by (inversion Hok; assumption).
  unfold cpp_str_flat, str1_r. cbn in Hh.
  unfold cpp_TL_BIG_STRING_MARKER, tinyStringLen, mediumStringMarker, hugeStringMarker in *.
  destruct (254 <=? b0) eqn:E1.
  - destruct (254 <? b0) eqn:E2; [lia|].
    assert (b0 = 254) as -> by lia. change (254 <=? 253) with false. change (254 =? 254) with true. cbn iota.
    destruct r1 as [|x1 [|x2 [|x3 r4]]]; try reflexivity.
    unfold str_medium_noncanonical, mediumStringMarker, tinyStringLen in Hm. change (254 =? 254) with true in Hm. cbn [andb] in Hm.
    cbn zeta. rewrite Hm. reflexivity.
  - replace (b0 <=? 253) with true by lia. reflexivity.
Qed.

(** F32: the medium form with a length that fits the tiny form: Go rejects, C++ reads it *)
Theorem cpp_str_flat_medium_noncanonical x1 x2 x3 r4 :
  le_val [x1; x2; x3] <= tinyStringLen ->
  str1_r (mediumStringMarker :: x1 :: x2 :: x3 :: r4) = Reject /\
  cpp_str_flat (mediumStringMarker :: x1 :: x2 :: x3 :: r4)
  = str1_body (le_val [x1; x2; x3]) (le_val [x1; x2; x3]) r4.
Proof.
  intros H. split.
  - unfold str1_r. change (mediumStringMarker <=? tinyStringLen) with false. cbn iota.
    rewrite N.eqb_refl. cbn zeta. now replace (le_val [x1; x2; x3] <=? tinyStringLen) with true by lia.
  - reflexivity.
Qed.

Theorem cpp_string_read_accepts_noncanonical_refuted :
  exists r v rest, bytes_ok r /\ str1_r r = Reject /\ cpp_str_flat r = Ok (v, rest).
Proof.
  exists [254; 1; 0; 0; 65; 0; 0; 0], [65], []. split; [|split]; [|vm_compute; reflexivity..].
  repeat constructor.
Qed.

(** the huge form (0xff + 7 length bytes): C++ always answers sequence_length *)
Theorem cpp_str_flat_huge r1 : cpp_str_flat (hugeStringMarker :: r1) = Reject.
Proof. reflexivity. Qed.

(** ... while Go reads back every string of 2^24 .. 2^56-1 bytes that its writer wrote *)
Theorem cpp_string_read_rejects_huge_refuted : forall s rest,
  maxMediumStringLen < lenN s <= maxHugeStringLen ->
  exists b, str1_w s = Some b /\ str1_r (b ++ rest) = Ok (s, rest) /\ cpp_str_flat (b ++ rest) = Reject.
Proof.
  intros s rest [Hlo Hhi]. destruct (str1_w_defined s Hhi) as [b Hb]. exists b.
  split; [exact Hb|]. split; [now apply str1_roundtrip|].
  unfold str1_w, str1_hdr in Hb.
  replace (lenN s <=? tinyStringLen) with false in Hb by (unfold tinyStringLen, maxMediumStringLen in *; lia).
  replace (lenN s <=? maxMediumStringLen) with false in Hb by lia.
  replace (lenN s <=? maxHugeStringLen) with true in Hb by lia.
  injection Hb as <-. reflexivity.
Qed.

Theorem huge_string_exists : exists s : bytes, maxMediumStringLen < lenN s <= maxHugeStringLen.
Proof.
  exists (zeros 16777216). rewrite zeros_length. unfold maxMediumStringLen, maxHugeStringLen. lia.
Qed.

(** error classes also differ on a truncated huge header: Go eof, C++ reject *)
Theorem cpp_string_read_huge_class_refuted : str1_r [255] = Eof /\ cpp_str_flat [255] = Reject.
Proof. split; reflexivity. Qed.

(** * tl_ostream *)
Definition owf (o : ostream) : Prop := o_err o = None /\ blocks_ok (o_more o).

(** "this C++ call appended exactly [enc] and used exactly that much room" *)
Definition ospec (r : bool * ostream) (o : ostream) (enc : bytes) : Prop :=
  fst r = true /\ owf (snd r) /\ o_done (snd r) = o_done o ++ enc /\ o_room (snd r) + lenN enc = o_room o.

Definition ofail (r : bool * ostream) : Prop := fst r = false /\ o_err (snd r) = Some E_EOF.

Lemma ospec_oobs r o enc : ospec r o enc -> oobs r = Some (o_done o ++ enc).
Proof. destruct r as [ok o1]. intros (H1 & [H2 _] & H3 & _). cbn in *. subst. now rewrite H2, H3. Qed.

Lemma ofail_oobs r : ofail r -> oobs r = None.
Proof. destruct r as [ok o1]. intros (H1 & H2). cbn in *. now rewrite H2. Qed.

Lemma write_at_0_take buf d : lenN d <= lenN buf -> takeN (lenN d) (write_at buf 0 d) = d.
Proof.
  intros. unfold write_at. rewrite takeN_0. cbn [app]. rewrite takeN_app_le by lia. now apply takeN_all.
Qed.

Lemma store_loop_spec : forall more done buf data, blocks_ok more ->
  if lenN buf + lenN (concat more) <? lenN data
  then fst (fst (fst (store_loop done buf more data))) = false
  else exists b' m', store_loop done buf more data = (true, done ++ data, b', m') /\ blocks_ok m'
                     /\ lenN b' + lenN (concat m') + lenN data = lenN buf + lenN (concat more).
Proof.
  induction more as [|b m IH]; intros done buf data Hb.
  - cbn [concat store_loop]. rewrite lenN_nil, N.add_0_r.
    destruct (lenN buf <? lenN data) eqn:E; [reflexivity|].
    exists (dropN (lenN data) buf), []. rewrite write_at_0_take by lia.
    split; [reflexivity|split; [constructor|]]. rewrite lenN_dropN. cbn. lia.
  - inversion Hb as [|? ? Hbne Hm]; subst. cbn [store_loop]. rewrite lenN_concat_cons.
    destruct (lenN buf <? lenN data) eqn:E.
    + destruct b as [|b0 b']; [congruence|].
      specialize (IH (done ++ takeN (lenN buf) data) (b0 :: b') (dropN (lenN buf) data) Hm).
      rewrite lenN_dropN in IH.
      destruct (lenN (b0 :: b') + lenN (concat m) <? lenN data - lenN buf) eqn:E2.
      * assert (lenN buf + (lenN (b0 :: b') + lenN (concat m)) <? lenN data = true) as ->
          by (apply N.ltb_lt; apply N.ltb_lt in E, E2; clear - E E2; lia).
        exact IH.
      * assert (lenN buf + (lenN (b0 :: b') + lenN (concat m)) <? lenN data = false) as ->
          by (apply N.ltb_ge; apply N.ltb_lt in E; apply N.ltb_ge in E2; clear - E E2; lia).
        destruct IH as (b2 & m2 & -> & H1 & H2). exists b2, m2. split; [|split; [exact H1|]].
        -- rewrite <- app_assoc, takeN_dropN. reflexivity.
        -- apply N.ltb_lt in E. clear - E H2. lia.
    + assert (lenN buf + (lenN b + lenN (concat m)) <? lenN data = false) as ->
        by (apply N.ltb_ge; apply N.ltb_ge in E; clear - E; lia).
      exists (dropN (lenN data) buf), (b :: m). rewrite write_at_0_take by (apply N.ltb_ge in E; exact E).
      split; [reflexivity|split; [exact Hb|]]. rewrite lenN_dropN, lenN_concat_cons.
      apply N.ltb_ge in E. clear - E. lia.
Qed.

Lemma o_set_error_err e o : o_err o = None -> o_err (o_set_error e o) = Some e.
Proof. unfold o_set_error. intros ->. reflexivity. Qed.

Lemma cpp_store_data2_spec data o : owf o ->
  if o_room o <? lenN data then ofail (cpp_store_data2 data o) else ospec (cpp_store_data2 data o) o data.
Proof.
  intros [He Hb]. unfold cpp_store_data2, o_room.
  pose proof (store_loop_spec (o_more o) (o_done o) (o_buf o) data Hb) as H.
  destruct (lenN (o_buf o) + lenN (concat (o_more o)) <? lenN data).
  - destruct (store_loop (o_done o) (o_buf o) (o_more o) data) as [[[ok d] b] m]. cbn in H. subst ok.
    split; cbn; [reflexivity|]. now apply o_set_error_err.
  - destruct H as (b' & m' & -> & H1 & H2). unfold ospec, owf, o_room. cbn. repeat split; auto.
Qed.

Lemma cpp_store_data_spec data o : owf o ->
  if o_room o <? lenN data then ofail (cpp_store_data data o) else ospec (cpp_store_data data o) o data.
Proof.
  intros Hw. unfold cpp_store_data. destruct (lenN (o_buf o) <? lenN data) eqn:E.
  - now apply cpp_store_data2_spec.
  - destruct Hw as [He Hb]. unfold o_room.
    replace (lenN (o_buf o) + lenN (concat (o_more o)) <? lenN data) with false by lia.
    unfold ospec, owf, o_room, o_advance, o_write_at. cbn [fst snd o_done o_buf o_more o_err].
    rewrite write_at_0_take by lia.
    repeat split; auto. unfold write_at. rewrite takeN_0. cbn [app].
    rewrite dropN_app_ge by lia. rewrite N.sub_diag, dropN_0, N.add_0_l, lenN_dropN. lia.
Qed.

(** scalar writes *)
Theorem cpp_scalar_write_spec sz v o : owf o ->
  if o_room o <? sz then ofail (cpp_scalar_write sz v o)
  else ospec (cpp_scalar_write sz v o) o (le_bytes (N.to_nat sz) v).
Proof.
  intros Hw. unfold cpp_scalar_write.
  assert (Hl : lenN (le_bytes (N.to_nat sz) v) = sz) by (rewrite lenN_le_bytes; lia).
  destruct (lenN (o_buf o) <? sz) eqn:E.
  - pose proof (cpp_store_data2_spec (le_bytes (N.to_nat sz) v) o Hw) as H. now rewrite Hl in H.
  - pose proof (cpp_store_data_spec (le_bytes (N.to_nat sz) v) o Hw) as H. rewrite Hl in H.
    unfold cpp_store_data in H. rewrite Hl, E in H. exact H.
Qed.

(** store_pad *)
Lemma zeros_app a b : zeros a ++ zeros b = zeros (a + b).
Proof. unfold zeros. rewrite <- repeat_app. f_equal. lia. Qed.

Lemma pad_loop_spec : forall more done buf size, blocks_ok more ->
  if lenN buf + lenN (concat more) <? size
  then fst (fst (fst (fst (pad_loop done buf more size)))) = false
  else exists b' m' sz', pad_loop done buf more size = (true, done ++ zeros (size - sz'), b', m', sz')
                         /\ blocks_ok m' /\ sz' <= lenN b' /\ sz' <= size
                         /\ lenN b' + lenN (concat m') + (size - sz') = lenN buf + lenN (concat more).
Proof.
  induction more as [|b m IH]; intros done buf size Hb.
  - cbn [concat pad_loop]. rewrite lenN_nil, N.add_0_r.
    destruct (lenN buf <? size) eqn:E; [reflexivity|].
    exists buf, [], size. rewrite N.sub_diag. cbn [zeros N.to_nat repeat]. rewrite app_nil_r.
    split; [reflexivity|split; [constructor|]]. cbn. lia.
  - inversion Hb as [|? ? Hbne Hm]; subst. cbn [pad_loop]. rewrite lenN_concat_cons.
    destruct (lenN buf <? size) eqn:E.
    + destruct b as [|b0 b']; [congruence|].
      specialize (IH (done ++ zeros (lenN buf)) (b0 :: b') (size - lenN buf) Hm).
      destruct (lenN (b0 :: b') + lenN (concat m) <? size - lenN buf) eqn:E2.
      * assert (lenN buf + (lenN (b0 :: b') + lenN (concat m)) <? size = true) as ->
          by (apply N.ltb_lt; apply N.ltb_lt in E, E2; clear - E E2; lia).
        exact IH.
      * assert (lenN buf + (lenN (b0 :: b') + lenN (concat m)) <? size = false) as ->
          by (apply N.ltb_ge; apply N.ltb_lt in E; apply N.ltb_ge in E2; clear - E E2; lia).
        destruct IH as (b2 & m2 & sz2 & -> & H1 & H2 & H3 & H4). exists b2, m2, sz2.
        split; [|split; [exact H1|split; [exact H2|]]].
        -- rewrite <- app_assoc, zeros_app. apply N.ltb_lt in E.
           replace (lenN buf + (size - lenN buf - sz2)) with (size - sz2) by (clear - E H3; lia). reflexivity.
        -- apply N.ltb_lt in E. clear - E H3 H4. lia.
    + assert (lenN buf + (lenN b + lenN (concat m)) <? size = false) as ->
        by (apply N.ltb_ge; apply N.ltb_ge in E; clear - E; lia).
      exists buf, (b :: m), size. rewrite N.sub_diag. cbn [zeros N.to_nat repeat]. rewrite app_nil_r.
      split; [reflexivity|split; [exact Hb|]]. rewrite lenN_concat_cons. apply N.ltb_ge in E. clear - E. lia.
Qed.

Lemma three_writes b sz : 0 < sz <= 3 -> sz <= lenN b ->
  takeN sz (write_at (write_at (write_at b 0 [0]) (sz - 1) [0]) (sz / 2) [0]) = zeros sz
  /\ dropN sz (write_at (write_at (write_at b 0 [0]) (sz - 1) [0]) (sz / 2) [0]) = dropN sz b.
Proof.
  intros Hs Hl. assert (sz = 1 \/ sz = 2 \/ sz = 3) as [-> | [-> | ->]] by lia.
  - destruct b as [|x0 t]; [rewrite lenN_nil in Hl; lia|]. split; reflexivity.
  - destruct b as [|x0 [|x1 t]]; rewrite ?lenN_cons, ?lenN_nil in Hl; try lia. split; reflexivity.
  - destruct b as [|x0 [|x1 [|x2 t]]]; rewrite ?lenN_cons, ?lenN_nil in Hl; try lia. split; reflexivity.
Qed.

Theorem cpp_store_pad_spec size o : owf o -> size <= 3 ->
  if o_room o <? size then ofail (cpp_store_pad size o) else ospec (cpp_store_pad size o) o (zeros size).
Proof.
  intros [He Hb] Hs. unfold cpp_store_pad, o_room.
  pose proof (pad_loop_spec (o_more o) (o_done o) (o_buf o) size Hb) as H.
  destruct (lenN (o_buf o) + lenN (concat (o_more o)) <? size).
  - destruct (pad_loop (o_done o) (o_buf o) (o_more o) size) as [[[[ok d] b] m] sz]. cbn in H. subst ok.
    split; cbn; [reflexivity|]. now apply o_set_error_err.
  - destruct H as (b' & m' & sz' & -> & H1 & H2 & H3 & H4).
    destruct (sz' =? 0) eqn:Ez; cbn [negb].
    + apply N.eqb_eq in Ez. subst sz'. rewrite N.sub_0_r in *.
      unfold ospec, owf, o_room. cbn. rewrite zeros_length. repeat split; auto.
    + destruct (three_writes b' sz' ltac:(lia) H2) as [T1 T2].
      unfold ospec, owf, o_room, o_advance, o_write_at. cbn [fst snd o_done o_buf o_more o_err].
      rewrite T1, T2, <- app_assoc, zeros_app, lenN_dropN, zeros_length.
      replace (size - sz' + sz') with size by lia. repeat split; auto. lia.
Qed.

(** * string_write *)
Definition ostep (A : ostream -> bool * ostream) (e : bytes) : Prop :=
  forall o, owf o -> if o_room o <? lenN e then ofail (A o) else ospec (A o) o e.

Definition seq3 (A B C : ostream -> bool * ostream) (o : ostream) : bool * ostream :=
  let '(ok1, o1) := A o in
  if negb ok1 then (false, o1) else
  let '(ok2, o2) := B o1 in
  if negb ok2 then (false, o2) else
  let '(ok3, o3) := C o2 in
  if negb ok3 then (false, o3) else (true, o3).

Lemma seq3_spec A B C e1 e2 e3 : ostep A e1 -> ostep B e2 -> ostep C e3 -> ostep (seq3 A B C) (e1 ++ e2 ++ e3).
Proof.
  intros HA HB HC o Hw. unfold seq3. rewrite !lenN_app.
  specialize (HA o Hw). destruct (A o) as [ok1 o1].
  destruct (o_room o <? lenN e1) eqn:E1.
  { destruct HA as [H1 H2]. cbn in H1, H2. subst ok1. cbn [negb].
    replace (o_room o <? lenN e1 + (lenN e2 + lenN e3)) with true by lia. split; [reflexivity|assumption]. }
  destruct HA as (H1 & Hw1 & Hd1 & Hr1). cbn [fst snd] in *. subst ok1. cbn [negb].
  specialize (HB o1 Hw1). destruct (B o1) as [ok2 o2].
  destruct (o_room o1 <? lenN e2) eqn:E2.
  { destruct HB as [H1 H2]. cbn in H1, H2. subst ok2. cbn [negb].
    replace (o_room o <? lenN e1 + (lenN e2 + lenN e3)) with true by lia. split; [reflexivity|assumption]. }
  destruct HB as (H2 & Hw2 & Hd2 & Hr2). cbn [fst snd] in *. subst ok2. cbn [negb].
  specialize (HC o2 Hw2). destruct (C o2) as [ok3 o3].
  destruct (o_room o2 <? lenN e3) eqn:E3.
  { destruct HC as [H1 H2]. cbn in H1, H2. subst ok3. cbn [negb].
    replace (o_room o <? lenN e1 + (lenN e2 + lenN e3)) with true by lia. split; [reflexivity|assumption]. }
  destruct HC as (H3 & Hw3 & Hd3 & Hr3). cbn [fst snd] in *. subst ok3. cbn [negb].
  replace (o_room o <? lenN e1 + (lenN e2 + lenN e3)) with false by lia.
  unfold ospec. cbn [fst snd]. split; [reflexivity|split; [exact Hw3|split]].
  - rewrite Hd3, Hd2, Hd1. now rewrite <- !app_assoc.
  - rewrite !lenN_app. lia.
Qed.

Lemma lor_shiftl8 a b : b < 256 -> N.lor (N.shiftl a 8) b = a * 256 + b.
Proof.
  intros Hb.
  assert (Hl : N.land (N.shiftl a 8) b = 0).
  { apply N.bits_inj_0. intro i. rewrite N.land_spec.
    destruct (N.lt_ge_cases i 8) as [Hlt|Hge].
    - now rewrite N.shiftl_spec_low.
    - destruct (N.eq_dec b 0) as [->|Hnz]; [now rewrite N.bits_0, andb_false_r|].
      rewrite (N.bits_above_log2 b i), andb_false_r; [reflexivity|].
      apply N.lt_le_trans with 8; [|assumption]. apply N.log2_lt_pow2; [lia|]. exact Hb. }
  rewrite <- N.lxor_lor by assumption. rewrite <- N.add_nocarry_lxor by assumption.
  now rewrite N.shiftl_mul_pow2.
Qed.

Lemma medium_header l : cpp_TL_MAX_TINY_STRING_LEN < l -> l <= cpp_TL_BIG_STRING_LEN ->
  le_bytes (N.to_nat cpp_sw_hdr_size) ((N.lor (N.shiftl l cpp_sw_len_shift) cpp_TL_BIG_STRING_MARKER) mod two32)
  = mediumStringMarker :: le_bytes 3 l.
Proof.
  unfold cpp_TL_MAX_TINY_STRING_LEN, cpp_TL_BIG_STRING_LEN, cpp_sw_len_shift, cpp_TL_BIG_STRING_MARKER,
    cpp_sw_hdr_size, two32, mediumStringMarker. intros H1 H2.
  rewrite lor_shiftl8 by lia. rewrite N.mod_small by lia.
  change (N.to_nat 4) with 4%nat. cbn [le_bytes]. f_equal; [lia|].
  replace ((l * 256 + 254) / 256) with l by lia. reflexivity.
Qed.

Lemma fast_tiny_layout buf value pad F : lenN value <= 253 -> pad < 4 -> F mod 4 = 0 ->
  F = 1 + lenN value + pad -> F <= lenN buf ->
  takeN F (write_at (write_at (write_at buf (F - 4) (le_bytes 4 0)) 0 [lenN value mod 256]) 1 value)
    = [lenN value] ++ value ++ zeros pad
  /\ dropN F (write_at (write_at (write_at buf (F - 4) (le_bytes 4 0)) 0 [lenN value mod 256]) 1 value)
    = dropN F buf.
Proof.
  intros Hl Hp Hm HF Hb. rewrite (N.mod_small (lenN value)) by lia.
  assert (HF4 : 4 <= F) by lia.
  set (b1 := write_at buf (F - 4) (le_bytes 4 0)).
  (* everything from 1 + len on in b1: the last pad zero bytes of the word, then the old buffer *)
  assert (Htail : dropN (1 + lenN value) b1 = zeros pad ++ dropN F buf).
  { subst b1. unfold write_at. change (lenN (le_bytes 4 0)) with 4.
    rewrite dropN_app_ge by (rewrite lenN_takeN; lia). rewrite lenN_takeN.
    replace (1 + lenN value - N.min (F - 4) (lenN buf)) with (4 - pad) by lia.
    rewrite dropN_app_le by (change (lenN (le_bytes 4 0)) with 4; lia).
    replace (F - 4 + 4) with F by lia. f_equal.
    assert (pad = 0 \/ pad = 1 \/ pad = 2 \/ pad = 3) as [-> | [-> | [-> | ->]]] by lia; reflexivity. }
  assert (Hb2 : write_at b1 0 [lenN value] = lenN value :: dropN 1 b1).
  { unfold write_at. rewrite takeN_0. reflexivity. }
  assert (Hb3 : write_at (write_at b1 0 [lenN value]) 1 value = [lenN value] ++ value ++ zeros pad ++ dropN F buf).
  { rewrite Hb2. unfold write_at. change (takeN 1 (lenN value :: dropN 1 b1)) with [lenN value].
    rewrite dropN_cons, dropN_dropN, Htail. reflexivity. }
  rewrite Hb3. split.
  - rewrite !app_assoc. rewrite takeN_app_le by (rewrite !lenN_app, zeros_length, lenN_cons, lenN_nil; lia).
    apply takeN_all. rewrite !lenN_app, zeros_length, lenN_cons, lenN_nil. lia.
  - rewrite !app_assoc. rewrite dropN_app_ge by (rewrite !lenN_app, zeros_length, lenN_cons, lenN_nil; lia).
    rewrite !lenN_app, zeros_length, lenN_cons, lenN_nil.
    replace (F - (1 + 0 + lenN value + pad)) with 0 by lia.
    apply dropN_0.
Qed.

Theorem cpp_string_write_spec value enc : lenN value <= cpp_TL_BIG_STRING_LEN ->
  str1_w value = Some enc -> ostep (cpp_string_write value) enc.
Proof.
  intros Hbig Henc. unfold ostep. intros o Hw. unfold cpp_string_write. cbv zeta. norm_cmp.
  unfold str1_w, str1_hdr in Henc.
  destruct (cpp_TL_MAX_TINY_STRING_LEN <? lenN value) eqn:Et.
  - (* medium form *)
    replace (lenN value <=? tinyStringLen) with false in Henc
      by (unfold tinyStringLen, cpp_TL_MAX_TINY_STRING_LEN in *; lia).
    replace (lenN value <=? maxMediumStringLen) with true in Henc
      by (unfold maxMediumStringLen, cpp_TL_BIG_STRING_LEN in *; lia).
    injection Henc as <-.
    replace (cpp_TL_BIG_STRING_LEN <? lenN value) with false by lia.
    rewrite medium_header by lia.
    change cpp_sw_pad_mask with 3.
    rewrite neg64_pad by (unfold two64, cpp_TL_BIG_STRING_LEN in *; lia).
    pose proof (seq3_spec (cpp_store_data (mediumStringMarker :: le_bytes 3 (lenN value)))
                          (cpp_store_data value) (cpp_store_pad (padding_len (lenN value)))
                          (mediumStringMarker :: le_bytes 3 (lenN value)) value (zeros (padding_len (lenN value)))) as H.
    apply H; clear H; try assumption; unfold ostep; intros o' Hw'.
    + now apply cpp_store_data_spec.
    + now apply cpp_store_data_spec.
    + rewrite zeros_length. apply cpp_store_pad_spec; [assumption|]. pose proof (padding_len_spec (lenN value)). lia.
  - (* tiny form *)
    assert (Hl : lenN value <= 253) by (unfold cpp_TL_MAX_TINY_STRING_LEN in *; lia).
    replace (lenN value <=? tinyStringLen) with true in Henc by (unfold tinyStringLen; lia).
    injection Henc as <-.
    change cpp_sw_len_byte with 1. change cpp_sw_pad_mask with 3. change cpp_sw_word with 4.
    rewrite neg64_pad by (unfold two64; lia).
    set (pad := padding_len (lenN value + 1)).
    assert (Hpad : pad < 4 /\ (lenN value + 1 + pad) mod 4 = 0) by apply padding_len_spec.
    destruct (lenN (o_buf o) <? 1 + lenN value + pad) eqn:Efit.
    + (* slow path *)
      change (N.to_nat cpp_sw_tiny_hdr_size) with 1%nat. cbn [le_bytes].
      rewrite !(N.mod_small (lenN value)) by lia.
      pose proof (seq3_spec (cpp_store_data [lenN value]) (cpp_store_data value) (cpp_store_pad pad)
                            [lenN value] value (zeros pad)) as H.
      apply H; clear H; try assumption; unfold ostep; intros o' Hw'.
      * now apply cpp_store_data_spec.
      * now apply cpp_store_data_spec.
      * rewrite zeros_length. apply cpp_store_pad_spec; [assumption|lia].
    + (* fast path *)
      destruct Hw as [He Hb].
      destruct (fast_tiny_layout (o_buf o) value pad (1 + lenN value + pad) Hl ltac:(lia)
                  ltac:(replace (1 + lenN value + pad) with (lenN value + 1 + pad) by lia; tauto)
                  eq_refl ltac:(lia)) as [T1 T2].
      change ([lenN value] ++ value ++ zeros pad) with (lenN value :: value ++ zeros pad) in *.
      assert (Hlen : lenN (lenN value :: value ++ zeros pad) = 1 + lenN value + pad)
        by (rewrite lenN_cons, !lenN_app, zeros_length; lia).
      rewrite Hlen. unfold o_room.
      replace (lenN (o_buf o) + lenN (concat (o_more o)) <? 1 + lenN value + pad) with false by lia.
      unfold ospec, owf, o_room, o_advance, o_write_at. cbn [fst snd o_done o_buf o_more o_err].
      change (N.to_nat 4) with 4%nat.
      rewrite T1, T2, Hlen, lenN_dropN. repeat split; auto. lia.
Qed.

(** a string above TL_BIG_STRING_LEN is refused (Go writes the huge form up to 2^56-1 bytes) *)
Theorem cpp_string_write_too_long value o : o_err o = None -> cpp_TL_BIG_STRING_LEN < lenN value ->
  oobs (cpp_string_write value o) = None.
Proof.
  intros He H. unfold cpp_string_write. cbv zeta. norm_cmp.
  replace (cpp_TL_MAX_TINY_STRING_LEN <? lenN value) with true
    by (unfold cpp_TL_MAX_TINY_STRING_LEN, cpp_TL_BIG_STRING_LEN in *; lia).
  replace (cpp_TL_BIG_STRING_LEN <? lenN value) with true by lia.
  cbn. now rewrite o_set_error_err.
Qed.

Theorem cpp_string_write_refuses_huge_refuted : exists value, forall o, o_err o = None ->
  str1_w value <> None /\ oobs (cpp_string_write value o) = None.
Proof.
  exists (zeros 16777216). intros o He. split.
  - destruct (str1_w_defined (zeros 16777216)) as [b Hb]; [rewrite zeros_length; unfold maxHugeStringLen; lia|].
    congruence.
  - apply cpp_string_write_too_long; [assumption|]. rewrite zeros_length. unfold cpp_TL_BIG_STRING_LEN. lia.
Qed.

(** * The primitives as the generator calls them, against [dec_prim] / [enc_prim] (the Go side) *)
Lemma iobs_map {A B} (f : A -> B) ok v s : iobs (ok, f v, s) = map_res f (iobs (ok, v, s)).
Proof. unfold iobs, map_res. destruct (i_err s) as [[]|]; try reflexivity. now destruct ok. Qed.

Definition prim_wf (p : prim) : Prop :=
  match p with PBool f t => f <> t | _ => True end.

(** inputs on which C++ string_read is specified to differ from Go (F32; strings >= 2^24 bytes) *)
Definition str_input_ok (p : prim) (r : bytes) : Prop :=
  match p with
  | PString => str_huge_form r = false /\ str_medium_noncanonical r = false
  | _ => True
  end.

Theorem cpp_read_prim_eq_go p s : iwf s -> bytes_ok (i_rest s) -> prim_wf p -> str_input_ok p (i_rest s) ->
  iobs (cpp_read_prim p s) = dec_prim p (i_rest s).
Proof.
  intros Hw Hok Hp Hs. destruct p; cbn [cpp_read_prim dec_prim].
  - pose proof (ispec_iobs _ _ (cpp_nat_read_spec s Hw)) as H.
    destruct (cpp_nat_read s) as [[ok n] s1]. rewrite (iobs_map VNum), H. now destruct (nat_r (i_rest s)) as [[]| |].
  - pose proof (ispec_iobs _ _ (cpp_int_read_spec s Hw)) as H.
    destruct (cpp_int_read s) as [[ok n] s1]. rewrite (iobs_map VNum), H. now destruct (nat_r (i_rest s)) as [[]| |].
  - pose proof (ispec_iobs _ _ (cpp_float_read_spec s Hw)) as H.
    destruct (cpp_float_read s) as [[ok n] s1]. rewrite (iobs_map VNum), H. now destruct (nat_r (i_rest s)) as [[]| |].
  - pose proof (ispec_iobs _ _ (cpp_long_read_spec s Hw)) as H.
    destruct (cpp_long_read s) as [[ok n] s1]. rewrite (iobs_map VNum), H. now destruct (long_r (i_rest s)) as [[]| |].
  - pose proof (ispec_iobs _ _ (cpp_double_read_spec s Hw)) as H.
    destruct (cpp_double_read s) as [[ok n] s1]. rewrite (iobs_map VNum), H. now destruct (long_r (i_rest s)) as [[]| |].
  - pose proof (ispec_iobs _ _ (cpp_string_read_spec s Hw Hok)) as H. destruct Hs as [Hs1 Hs2].
    rewrite (cpp_str_flat_eq_go _ Hok Hs1 Hs2) in H.
    destruct (cpp_string_read s) as [[ok v] s1]. rewrite (iobs_map VStr), H. now destruct (str1_r (i_rest s)) as [[]| |].
  - pose proof (cpp_bool_read_obs ftag ttag s Hp Hw) as H.
    destruct (cpp_bool_read ftag ttag s) as [[ok v] s1]. rewrite (iobs_map VBool), H.
    now destruct (bool1_r ftag ttag (i_rest s)) as [[]| |].
  - destruct Hw as [He _]. unfold iobs. now rewrite i_set_error_err.
Qed.

(** without the guard: what C++ string_read computes on every input *)
Theorem cpp_read_string_general s : iwf s -> bytes_ok (i_rest s) ->
  iobs (cpp_read_prim PString s) = map_res VStr (cpp_str_flat (i_rest s)).
Proof.
  intros Hw Hok. pose proof (ispec_iobs _ _ (cpp_string_read_spec s Hw Hok)) as H. cbn [cpp_read_prim].
  destruct (cpp_string_read s) as [[ok v] s1]. now rewrite (iobs_map VStr), H.
Qed.

Definition str_value_ok (p : prim) (v : value) : Prop :=
  match p, v with
  | PString, VStr b => lenN b <= cpp_TL_BIG_STRING_LEN
  | _, _ => True
  end.

Theorem cpp_write_prim_eq_go p v enc : enc_prim p v = Some enc -> str_value_ok p v ->
  forall o, owf o ->
  exists r, cpp_write_prim p v o = Some r /\ if o_room o <? lenN enc then ofail r else ospec r o enc.
Proof.
  intros He Hs o Hw.
  destruct p, v; cbn [enc_prim] in He; try discriminate; cbn [cpp_write_prim]; eexists; (split; [reflexivity|]).
  1-3: destruct (n <? 4294967296); [|discriminate]; injection He as <-;
       pose proof (cpp_scalar_write_spec 4 n o Hw) as H; exact H.
  1-2: destruct (n <? 18446744073709551616); [|discriminate]; injection He as <-;
       pose proof (cpp_scalar_write_spec 8 n o Hw) as H; exact H.
  - cbn in Hs. exact (cpp_string_write_spec s enc Hs He o Hw).
  - injection He as <-. exact (cpp_scalar_write_spec 4 (if b then ttag else ftag) o Hw).
Qed.

Corollary cpp_write_prim_obs p v enc o : enc_prim p v = Some enc -> str_value_ok p v -> owf o ->
  lenN enc <= o_room o ->
  match cpp_write_prim p v o with Some r => oobs r | None => None end = Some (o_done o ++ enc).
Proof.
  intros He Hs Hw Hr. destruct (cpp_write_prim_eq_go p v enc He Hs o Hw) as (r & -> & H).
  replace (o_room o <? lenN enc) with false in H by lia. now apply ospec_oobs.
Qed.

(** a value the C++ type cannot even hold has no Go encoding either *)
Theorem cpp_write_prim_none p v o : cpp_write_prim p v o = None -> enc_prim p v = None.
Proof. destruct p, v; cbn; intros H; try reflexivity; discriminate. Qed.

(** * T-const: pkg/basictl_cpp and the copy embedded in helpers_cpp_generated.go carry the same constants *)
Theorem cpp_runtime_copies_agree :
  [pkg_TL_MAX_TINY_STRING_LEN; pkg_TL_BIG_STRING_LEN; pkg_TL_BIG_STRING_MARKER; pkg_TL_INT32_SIZE; pkg_TL_UINT32_SIZE;
   pkg_TL_INT64_SIZE; pkg_TL_FLOAT32_SIZE; pkg_TL_FLOAT64_SIZE; pkg_nat_read_size; pkg_int_read_size; pkg_long_read_size;
   pkg_float_read_size; pkg_double_read_size; pkg_nat_write_size; pkg_int_write_size; pkg_long_write_size;
   pkg_float_write_size; pkg_double_write_size; pkg_sr_len_shift; pkg_sr_pad_mask; pkg_sr_len_byte; pkg_sr_word;
   pkg_sr_ones; pkg_sr_byte_bits; pkg_sw_len_shift; pkg_sw_pad_mask; pkg_sw_hdr_size; pkg_sw_tiny_hdr_size;
   pkg_sw_len_byte; pkg_sw_word; pkg_fp_word_init; pkg_sr_cmp_big; pkg_sr_cmp_huge; pkg_sr_cmp_fit; pkg_sr_cmp_pad;
   pkg_sw_cmp_tiny; pkg_sw_cmp_big; pkg_sw_cmp_fit; pkg_fp_cmp]
  = [cpp_TL_MAX_TINY_STRING_LEN; cpp_TL_BIG_STRING_LEN; cpp_TL_BIG_STRING_MARKER; cpp_TL_INT32_SIZE; cpp_TL_UINT32_SIZE;
     cpp_TL_INT64_SIZE; cpp_TL_FLOAT32_SIZE; cpp_TL_FLOAT64_SIZE; cpp_nat_read_size; cpp_int_read_size; cpp_long_read_size;
     cpp_float_read_size; cpp_double_read_size; cpp_nat_write_size; cpp_int_write_size; cpp_long_write_size;
     cpp_float_write_size; cpp_double_write_size; cpp_sr_len_shift; cpp_sr_pad_mask; cpp_sr_len_byte; cpp_sr_word;
     cpp_sr_ones; cpp_sr_byte_bits; cpp_sw_len_shift; cpp_sw_pad_mask; cpp_sw_hdr_size; cpp_sw_tiny_hdr_size;
     cpp_sw_len_byte; cpp_sw_word; cpp_fp_word_init; cpp_sr_cmp_big; cpp_sr_cmp_huge; cpp_sr_cmp_fit; cpp_sr_cmp_pad;
     cpp_sw_cmp_tiny; cpp_sw_cmp_big; cpp_sw_cmp_fit; cpp_fp_cmp].
Proof. reflexivity. Qed.

(** ... and the C++ limits coincide with Go's tiny / medium limits and marker *)
Theorem cpp_go_constants_agree :
  cpp_TL_MAX_TINY_STRING_LEN = tinyStringLen /\ cpp_TL_BIG_STRING_LEN = maxMediumStringLen
  /\ cpp_TL_BIG_STRING_MARKER = mediumStringMarker.
Proof. repeat split. Qed.

(** streams built by the harness are well-formed *)
Lemma chunks_aux_ok fuel k b : blocks_ok (chunks_aux fuel (S k) b) /\
  ((length b <= fuel)%nat -> concat (chunks_aux fuel (S k) b) = b).
Proof.
  revert b. induction fuel as [|fuel IH]; intros b.
  - split; [constructor|]. destruct b; cbn; [reflexivity|lia].
  - destruct b as [|x b]; [split; [constructor|reflexivity]|].
    cbn [chunks_aux]. destruct (IH (skipn (S k) (x :: b))) as [I1 I2]. split.
    + constructor; [cbn; discriminate|exact I1].
    + intros Hl. cbn [concat]. rewrite I2; [apply firstn_skipn|].
      rewrite skipn_length. cbn [length] in *. lia.
Qed.

Theorem istream_chunked_wf k b : iwf (istream_chunked k b) /\ i_rest (istream_chunked k b) = b.
Proof.
  unfold istream_chunked, iwf, i_rest, chunks. cbn [i_err i_more i_cur app]. destruct k as [|k].
  - destruct b; repeat split; try constructor; try discriminate; cbn; try constructor. now rewrite app_nil_r.
  - destruct (chunks_aux_ok (length b) k b) as [H1 H2]. repeat split; auto.
Qed.

Theorem istream_of_wf b : iwf (istream_of b) /\ i_rest (istream_of b) = b.
Proof. exact (istream_chunked_wf 0 b). Qed.
