(** M [Jprim] -- JSON primitive writers of pkg/basictl/basictl.go (JSONWriteString /
    JSONWriteStringBytes, JSONWriteUint32/Int32/Int64/Uint64/Byte/Bool, JSONWriteFloat32/64)
    and the decoders their output is read back with (Json2Read* helpers emitted by
    internal/puregen/gengo/qt_helpers.qtpl over the easyjson lexer).
    Executable definitions only; proofs live in JprimProofs.v.

    From /repo (T-const, regenerated on every run, Gen/PrimConsts.v): [safeSet], [hex],
    [binaryJSONStringStart], [binaryJSONStringEnd].
    From the Go standard library (modelled by their documented semantics, tied by the
    correspondence run): utf8.Valid / utf8.DecodeRune, base64.StdEncoding,
    strconv.AppendUint/AppendInt/ParseUint/ParseInt base 10.
    strconv.AppendFloat/ParseFloat on finite values are NOT modelled: they are parameters
    ([fmt], [parse]) of the float functions. *)
From Coq Require Export List NArith ZArith Bool.
From TLV Require Export Prim.PrimModel.
Export ListNotations.
Open Scope N_scope.

Definition in_rng (lo hi b : N) : bool := (lo <=? b) && (b <=? hi).

(** * UTF-8 (unicode/utf8) *)

Definition RuneError : N := 65533.

(** utf8.DecodeRune: (rune, size).  (RuneError, 1) for every ill-formed prefix
    (continuation byte first, overlong C0/C1/E0 80..9F/F0 80..8F, surrogates ED A0..BF,
    above U+10FFFF F4 90.. / F5.., truncated), (RuneError, 0) for the empty input. *)
Definition decode_rune (s : bytes) : N * nat :=
  match s with
  | [] => (RuneError, 0%nat)
  | b0 :: r =>
      if b0 <? 128 then (b0, 1%nat)
      else if b0 <? 194 then (RuneError, 1%nat)
      else if b0 <? 224 then
        match r with
        | b1 :: _ =>
            if in_rng 128 191 b1 then ((b0 - 192) * 64 + (b1 - 128), 2%nat)
            else (RuneError, 1%nat)
        | _ => (RuneError, 1%nat)
        end
      else if b0 <? 240 then
        let lo := if b0 =? 224 then 160 else 128 in
        let hi := if b0 =? 237 then 159 else 191 in
        match r with
        | b1 :: b2 :: _ =>
            if in_rng lo hi b1 && in_rng 128 191 b2
            then ((b0 - 224) * 4096 + (b1 - 128) * 64 + (b2 - 128), 3%nat)
            else (RuneError, 1%nat)
        | _ => (RuneError, 1%nat)
        end
      else if b0 <? 245 then
        let lo := if b0 =? 240 then 144 else 128 in
        let hi := if b0 =? 244 then 143 else 191 in
        match r with
        | b1 :: b2 :: b3 :: _ =>
            if in_rng lo hi b1 && in_rng 128 191 b2 && in_rng 128 191 b3
            then ((b0 - 240) * 262144 + (b1 - 128) * 4096 + (b2 - 128) * 64 + (b3 - 128), 4%nat)
            else (RuneError, 1%nat)
        | _ => (RuneError, 1%nat)
        end
      else (RuneError, 1%nat)
  end.

Definition bad_rune (c : N) (size : nat) : bool := (c =? RuneError) && Nat.eqb size 1.

(** utf8.Valid / utf8.ValidString: every position decodes to something other than
    (RuneError, 1).  [fuel] >= length suffices (each step consumes >= 1 byte). *)
Fixpoint utf8_valid_aux (fuel : nat) (s : bytes) : bool :=
  match s with
  | [] => true
  | _ =>
      match fuel with
      | O => false
      | S f =>
          let (c, size) := decode_rune s in
          if bad_rune c size then false else utf8_valid_aux f (skipn size s)
      end
  end.
Definition utf8_valid (s : bytes) : bool := utf8_valid_aux (length s) s.

(** utf8.EncodeRune (surrogates and values above U+10FFFF become U+FFFD) *)
Definition utf8_enc (c : N) : bytes :=
  if c <? 128 then [c]
  else if c <? 2048 then [192 + c / 64; 128 + c mod 64]
  else if in_rng 55296 57343 c || (1114111 <? c) then [239; 191; 189]
  else if c <? 65536 then [224 + c / 4096; 128 + (c / 64) mod 64; 128 + c mod 64]
  else [240 + c / 262144; 128 + (c / 4096) mod 64; 128 + (c / 64) mod 64; 128 + c mod 64].

(** * base64.StdEncoding (padded, standard alphabet) *)

Definition b64_alphabet : bytes :=
  [65; 66; 67; 68; 69; 70; 71; 72; 73; 74; 75; 76; 77; 78; 79; 80; 81; 82; 83; 84; 85; 86; 87; 88; 89; 90;
   97; 98; 99; 100; 101; 102; 103; 104; 105; 106; 107; 108; 109; 110; 111; 112; 113; 114; 115; 116; 117;
   118; 119; 120; 121; 122; 48; 49; 50; 51; 52; 53; 54; 55; 56; 57; 43; 47].
Definition b64c (i : N) : N := nth (N.to_nat i) b64_alphabet 0.

Fixpoint b64_enc (s : bytes) : bytes :=
  match s with
  | [] => []
  | a :: r1 =>
      match r1 with
      | [] => [b64c (a / 4); b64c ((a mod 4) * 16); 61; 61]
      | b :: r2 =>
          match r2 with
          | [] => [b64c (a / 4); b64c ((a mod 4) * 16 + b / 16); b64c ((b mod 16) * 4); 61]
          | c :: r3 =>
              b64c (a / 4) :: b64c ((a mod 4) * 16 + b / 16) ::
              b64c ((b mod 16) * 4 + c / 64) :: b64c (c mod 64) :: b64_enc r3
          end
      end
  end.

Definition b64i (c : N) : option N :=
  if in_rng 65 90 c then Some (c - 65)
  else if in_rng 97 122 c then Some (c - 71)
  else if in_rng 48 57 c then Some (c + 4)
  else if c =? 43 then Some 62
  else if c =? 47 then Some 63
  else None.

(** StdEncoding.Decode without the CR/LF skipping (neither can occur inside a JSON string):
    quanta of 4, padding only in the last quantum, unused trailing bits ignored (non-strict). *)
Fixpoint b64_dec (s : bytes) : option bytes :=
  match s with
  | [] => Some []
  | c1 :: r1 =>
    match r1 with
    | c2 :: r2 =>
      match r2 with
      | c3 :: r3 =>
        match r3 with
        | c4 :: r =>
            match b64i c1, b64i c2 with
            | Some i1, Some i2 =>
                let o1 := i1 * 4 + i2 / 16 in
                match r with
                | [] =>
                    if c3 =? 61 then (if c4 =? 61 then Some [o1] else None)
                    else
                      match b64i c3 with
                      | Some i3 =>
                          let o2 := (i2 mod 16) * 16 + i3 / 4 in
                          if c4 =? 61 then Some [o1; o2]
                          else
                            match b64i c4 with
                            | Some i4 => Some [o1; o2; (i3 mod 4) * 64 + i4]
                            | None => None
                            end
                      | None => None
                      end
                | _ =>
                    match b64i c3, b64i c4 with
                    | Some i3, Some i4 =>
                        match b64_dec r with
                        | Some t => Some (o1 :: (i2 mod 16) * 16 + i3 / 4 :: (i3 mod 4) * 64 + i4 :: t)
                        | None => None
                        end
                    | _, _ => None
                    end
                end
            | _, _ => None
            end
        | [] => None
        end
      | [] => None
      end
    | [] => None
    end
  end.

(** * JSONWriteString / JSONWriteStringBytes *)

Definition hexd (i : N) : N := nth (N.to_nat i) hex 0.
Definition safe (b : N) : bool := nth (N.to_nat b) safeSet false.

(** what follows the backslash for a non-safe byte below utf8.RuneSelf *)
Definition esc_ascii (b : N) : bytes :=
  if (b =? 92) || (b =? 34) then [b]
  else if b =? 10 then [110]
  else if b =? 13 then [114]
  else if b =? 9 then [116]
  else [117; 48; 48; hexd (b / 16); hexd (b mod 16)].

(** the escaping loop; the Go code copies the unescaped spans s[start:i] lazily, which
    is flattened here (each byte is emitted when passed).  [fuel] >= length. *)
Fixpoint esc_loop (fuel : nat) (s : bytes) : bytes :=
  match fuel with
  | O => []
  | S f =>
      match s with
      | [] => []
      | b :: r =>
          if b <? 128 then
            if safe b then b :: esc_loop f r
            else 92 :: esc_ascii b ++ esc_loop f r
          else
            let (c, size) := decode_rune s in
            if bad_rune c size
            then [92; 117; 102; 102; 102; 100] ++ esc_loop f (skipn size s)
            else if (c =? 8232) || (c =? 8233)
            then [92; 117; 50; 48; 50; hexd (c mod 16)] ++ esc_loop f (skipn size s)
            else firstn size s ++ esc_loop f (skipn size s)
      end
  end.

Definition json_write_string (s : bytes) : bytes :=
  if negb (utf8_valid s)
  then binaryJSONStringStart ++ b64_enc s ++ binaryJSONStringEnd
  else 34 :: esc_loop (length s) s ++ [34].

(** * RFC 8259 recogniser (specification side) *)

Definition is_ws (c : N) : bool := (c =? 32) || (c =? 9) || (c =? 10) || (c =? 13).
Fixpoint skip_ws (s : bytes) : bytes :=
  match s with
  | c :: r => if is_ws c then skip_ws r else s
  | [] => []
  end.
Definition is_digit (c : N) : bool := in_rng 48 57 c.
Definition is_hex (c : N) : bool := is_digit c || in_rng 97 102 c || in_rng 65 70 c.
Definition simple_esc (e : N) : option N :=
  if e =? 34 then Some 34 else if e =? 92 then Some 92 else if e =? 47 then Some 47
  else if e =? 98 then Some 8 else if e =? 102 then Some 12 else if e =? 110 then Some 10
  else if e =? 114 then Some 13 else if e =? 116 then Some 9 else None.

(** string = quotation-mark *char quotation-mark; [p_chars] starts after the opening
    quote and returns what follows the closing quote *)
Fixpoint p_chars (s : bytes) : option bytes :=
  match s with
  | [] => None
  | c :: r =>
      if c =? 34 then Some r
      else if c =? 92 then
        match r with
        | e :: r1 =>
            if e =? 117 then
              match r1 with
              | h1 :: r2 =>
                match r2 with
                | h2 :: r3 =>
                  match r3 with
                  | h3 :: r4 =>
                    match r4 with
                    | h4 :: r5 =>
                        if is_hex h1 && is_hex h2 && is_hex h3 && is_hex h4 then p_chars r5 else None
                    | [] => None
                    end
                  | [] => None
                  end
                | [] => None
                end
              | [] => None
              end
            else
              match simple_esc e with
              | Some _ => p_chars r1
              | None => None
              end
        | [] => None
        end
      else if c <? 32 then None
      else p_chars r
  end.

Fixpoint skip_digits (s : bytes) : bytes :=
  match s with
  | c :: r => if is_digit c then skip_digits r else s
  | [] => []
  end.
Definition p_digits1 (s : bytes) : option bytes :=
  match s with
  | c :: r => if is_digit c then Some (skip_digits r) else None
  | [] => None
  end.
(** [ frac ] [ exp ] *)
Definition p_frac_exp (s : bytes) : option bytes :=
  let after_frac :=
    match s with
    | c :: r => if c =? 46 then p_digits1 r else Some s
    | [] => Some s
    end in
  match after_frac with
  | None => None
  | Some s2 =>
      match s2 with
      | c :: r =>
          if (c =? 101) || (c =? 69) then
            match r with
            | d :: r2 => if (d =? 43) || (d =? 45) then p_digits1 r2 else p_digits1 r
            | [] => None
            end
          else Some s2
      | [] => Some s2
      end
  end.
(** number = [ minus ] int [ frac ] [ exp ] *)
Definition p_number (s : bytes) : option bytes :=
  let s1 := match s with c :: r => if c =? 45 then r else s | [] => s end in
  match s1 with
  | c :: r =>
      if c =? 48 then p_frac_exp r
      else if in_rng 49 57 c then p_frac_exp (skip_digits r)
      else None
  | [] => None
  end.

Fixpoint strip_prefix (p s : bytes) : option bytes :=
  match p with
  | [] => Some s
  | a :: p' =>
      match s with
      | b :: s' => if a =? b then strip_prefix p' s' else None
      | [] => None
      end
  end.

(** value = false / null / true / object / array / number / string, with insignificant
    whitespace; mutually recursive on [fuel] (2 * length + 2 is always enough) *)
Fixpoint p_value (f : nat) (s : bytes) : option bytes :=
  match f with
  | O => None
  | S f' =>
      match skip_ws s with
      | [] => None
      | c :: r =>
          if c =? 34 then p_chars r
          else if c =? 123 then
            match skip_ws r with
            | d :: r1 => if d =? 125 then Some r1 else p_members f' (skip_ws r)
            | [] => None
            end
          else if c =? 91 then
            match skip_ws r with
            | d :: r1 => if d =? 93 then Some r1 else p_elems f' (skip_ws r)
            | [] => None
            end
          else if c =? 116 then strip_prefix [114; 117; 101] r
          else if c =? 102 then strip_prefix [97; 108; 115; 101] r
          else if c =? 110 then strip_prefix [117; 108; 108] r
          else p_number (c :: r)
      end
  end
with p_elems (f : nat) (s : bytes) : option bytes :=
  match f with
  | O => None
  | S f' =>
      match p_value f' s with
      | None => None
      | Some r =>
          match skip_ws r with
          | d :: r1 => if d =? 44 then p_elems f' r1 else if d =? 93 then Some r1 else None
          | [] => None
          end
      end
  end
with p_members (f : nat) (s : bytes) : option bytes :=
  match f with
  | O => None
  | S f' =>
      match skip_ws s with
      | q :: r0 =>
          if q =? 34 then
            match p_chars r0 with
            | None => None
            | Some r =>
                match skip_ws r with
                | c :: r1 =>
                    if c =? 58 then
                      match p_value f' r1 with
                      | None => None
                      | Some r2 =>
                          match skip_ws r2 with
                          | d :: r3 =>
                              if d =? 44 then p_members f' r3
                              else if d =? 125 then Some r3 else None
                          | [] => None
                          end
                      end
                    else None
                | [] => None
                end
            end
          else None
      | [] => None
      end
  end.

Definition is_nil {A} (l : list A) : bool := match l with [] => true | _ => false end.

(** JSON-text = ws value ws, encoded in UTF-8 (RFC 8259 sections 2 and 8.1) *)
Definition json_grammar_ok (t : bytes) : bool :=
  match p_value (2 * length t + 2) t with
  | Some r => is_nil (skip_ws r)
  | None => false
  end.
Definition valid_json_text (t : bytes) : bool := utf8_valid t && json_grammar_ok t.

(** * RFC 8259 string decoding (specification side) *)

Definition hexv (c : N) : N :=
  if is_digit c then c - 48 else if in_rng 97 102 c then c - 87 else c - 55.
Definition hex4 (h1 h2 h3 h4 : N) : N := ((hexv h1 * 16 + hexv h2) * 16 + hexv h3) * 16 + hexv h4.
Definition ucons (d : bytes) (x : option (bytes * bytes)) : option (bytes * bytes) :=
  match x with Some (o, r) => Some (d ++ o, r) | None => None end.

(** after the opening quote: (decoded bytes, rest after the closing quote).  \uXXXX is
    a UTF-16 code unit: a high surrogate followed by an escaped low surrogate is one code
    point, an unpaired surrogate becomes U+FFFD (as encoding/json and easyjson do). *)
Fixpoint unesc_chars (s : bytes) : option (bytes * bytes) :=
  match s with
  | [] => None
  | c :: r =>
      if c =? 34 then Some ([], r)
      else if c =? 92 then
        match r with
        | e :: r1 =>
            if e =? 117 then
              match r1 with
              | h1 :: r2 =>
                match r2 with
                | h2 :: r3 =>
                  match r3 with
                  | h3 :: r4 =>
                    match r4 with
                    | h4 :: r5 =>
                        if is_hex h1 && is_hex h2 && is_hex h3 && is_hex h4 then
                          let cu := hex4 h1 h2 h3 h4 in
                          if in_rng 55296 56319 cu then
                            match r5 with
                            | b :: q1 =>
                              match q1 with
                              | u :: q2 =>
                                match q2 with
                                | l1 :: q3 =>
                                  match q3 with
                                  | l2 :: q4 =>
                                    match q4 with
                                    | l3 :: q5 =>
                                      match q5 with
                                      | l4 :: q6 =>
                                          if (b =? 92) && (u =? 117) && is_hex l1 && is_hex l2 && is_hex l3 && is_hex l4
                                             && in_rng 56320 57343 (hex4 l1 l2 l3 l4)
                                          then ucons (utf8_enc (65536 + (cu - 55296) * 1024 + (hex4 l1 l2 l3 l4 - 56320)))
                                                     (unesc_chars q6)
                                          else ucons [239; 191; 189] (unesc_chars r5)
                                      | [] => ucons [239; 191; 189] (unesc_chars r5)
                                      end
                                    | [] => ucons [239; 191; 189] (unesc_chars r5)
                                    end
                                  | [] => ucons [239; 191; 189] (unesc_chars r5)
                                  end
                                | [] => ucons [239; 191; 189] (unesc_chars r5)
                                end
                              | [] => ucons [239; 191; 189] (unesc_chars r5)
                              end
                            | [] => ucons [239; 191; 189] (unesc_chars r5)
                            end
                          else ucons (utf8_enc cu) (unesc_chars r5)
                        else None
                    | [] => None
                    end
                  | [] => None
                  end
                | [] => None
                end
              | [] => None
              end
            else
              match simple_esc e with
              | Some d => ucons [d] (unesc_chars r1)
              | None => None
              end
        | [] => None
        end
      else if c <? 32 then None
      else ucons [c] (unesc_chars r)
  end.

(** the whole token, quotes included *)
Definition json_unescape (t : bytes) : option bytes :=
  match t with
  | q :: r =>
      if q =? 34 then
        match unesc_chars r with
        | Some (d, []) => Some d
        | _ => None
        end
      else None
  | [] => None
  end.

(** what a reader of a TL string field recovers (Json2ReadString / Json2ReadStringBytes):
    a JSON string token is unescaped; otherwise the text must be the object
    {"base64":"<standard padded base64>"} (modelled for the exact text the writer emits:
    no whitespace, single key). *)
Definition jstr_read (t : bytes) : option bytes :=
  match t with
  | c :: _ =>
      if c =? 34 then json_unescape t
      else
        match strip_prefix binaryJSONStringStart t with
        | Some m =>
            let n := (length m - length binaryJSONStringEnd)%nat in
            if is_nil (skipn n m) then None
            else
              match strip_prefix binaryJSONStringEnd (skipn n m) with
              | Some [] => b64_dec (firstn n m)
              | _ => None
              end
        | None => None
        end
  | [] => None
  end.

(** * integers: strconv.AppendUint / AppendInt, base 10 *)

Fixpoint dec_digits (fuel : nat) (n : N) (acc : bytes) : bytes :=
  match fuel with
  | O => acc
  | S f => if n <? 10 then (48 + n) :: acc else dec_digits f (n / 10) ((48 + n mod 10) :: acc)
  end.
Definition print_N (n : N) : bytes := dec_digits (S (N.to_nat (N.size n))) n [].
Definition print_Z (z : Z) : bytes :=
  if (z <? 0)%Z then 45 :: print_N (Z.to_N (- z)) else print_N (Z.to_N z).

(** JSONWriteByte / JSONWriteUint32 / JSONWriteUint64 (argument already in range) *)
Definition jw_uint (v : N) : bytes := print_N v.
(** JSONWriteInt32 / JSONWriteInt64 *)
Definition jw_int (v : Z) : bytes := print_Z v.
(** JSONWriteBool: strconv.FormatBool *)
Definition jw_bool (b : bool) : bytes :=
  if b then [116; 114; 117; 101] else [102; 97; 108; 115; 101].

(** readers: easyjson number token handed to strconv.ParseUint / ParseInt (base 10,
    bitSize [bits]); the whole input is the token (Lexer.Consumed afterwards). *)
Fixpoint digits_val_aux (s : bytes) (acc : N) : option N :=
  match s with
  | [] => Some acc
  | c :: r => if is_digit c then digits_val_aux r (acc * 10 + (c - 48)) else None
  end.
Definition digits_val (s : bytes) : option N :=
  match s with [] => None | _ => digits_val_aux s 0 end.

(** strconv.ParseUint(s, 10, bits) / strconv.ParseInt(s, 10, bits) *)
Definition parse_uint (bits : N) (s : bytes) : option N :=
  match digits_val s with
  | Some n => if n <? 2 ^ bits then Some n else None
  | None => None
  end.
Definition parse_int (bits : N) (s : bytes) : option Z :=
  match s with
  | c :: r =>
      if c =? 45 then
        match digits_val r with
        | Some n => if n <=? 2 ^ (bits - 1) then Some (- Z.of_N n)%Z else None
        | None => None
        end
      else
        match digits_val (if c =? 43 then r else s) with
        | Some n => if n <? 2 ^ (bits - 1) then Some (Z.of_N n) else None
        | None => None
        end
  | [] => None
  end.
(** Json2ReadByte/Uint32/Uint64 and Json2ReadInt32/Int64: a string token is unescaped and
    parsed; otherwise the text is a number token (first byte '-' or a digit) *)
Definition jr_uint (bits : N) (t : bytes) : option N :=
  match t with
  | c :: _ =>
      if c =? 34 then
        match json_unescape t with Some src => parse_uint bits src | None => None end
      else parse_uint bits t
  | [] => None
  end.
Definition jr_int (bits : N) (t : bytes) : option Z :=
  match t with
  | c :: _ =>
      if c =? 34 then
        match json_unescape t with Some src => parse_int bits src | None => None end
      else if c =? 43 then None
      else parse_int bits t
  | [] => None
  end.
Definition bytes_eqb (a b : bytes) : bool :=
  match strip_prefix a b with Some [] => true | _ => false end.
Definition jr_bool (t : bytes) : option bool :=
  if bytes_eqb t [116; 114; 117; 101] then Some true
  else if bytes_eqb t [102; 97; 108; 115; 101] then Some false
  else None.

(** * floats: bit patterns; finite values go through the strconv parameters *)

Definition str_NaN : bytes := [34; 78; 97; 78; 34].        (* "\"NaN\"" *)
Definition str_pInf : bytes := [34; 43; 73; 110; 102; 34]. (* "\"+Inf\"" *)
Definition str_nInf : bytes := [34; 45; 73; 110; 102; 34]. (* "\"-Inf\"" *)

(** IEEE-754 layout: [eb] exponent bits, [mb] mantissa bits *)
Definition fl_exp (eb mb b : N) : N := (b / 2 ^ mb) mod 2 ^ eb.
Definition fl_man (mb b : N) : N := b mod 2 ^ mb.
Definition fl_neg (eb mb b : N) : bool := negb ((b / 2 ^ (eb + mb)) mod 2 =? 0).
Definition fl_is_nan (eb mb b : N) : bool := (fl_exp eb mb b =? 2 ^ eb - 1) && negb (fl_man mb b =? 0).
Definition fl_is_inf (eb mb b : N) : bool := (fl_exp eb mb b =? 2 ^ eb - 1) && (fl_man mb b =? 0).
Definition fl_pinf (eb mb : N) : N := (2 ^ eb - 1) * 2 ^ mb.
Definition fl_ninf (eb mb : N) : N := 2 ^ (eb + mb) + fl_pinf eb mb.
(** what strconv.ParseFloat("NaN") yields after the conversion to the target width:
    math.NaN() = 0x7FF8000000000001; float32(math.NaN()) = 0x7FC00000 *)
Definition fl_nan (eb mb : N) : N := if mb =? 52 then fl_pinf eb mb + 2 ^ 51 + 1 else fl_pinf eb mb + 2 ^ (mb - 1).

(** jsonWriteFloatSpecial + JSONWriteFloat32/64; [fmt] = strconv.AppendFloat(nil, v, 'f', -1, bits) *)
Definition jw_float (eb mb : N) (fmt : N -> bytes) (b : N) : bytes :=
  if fl_is_nan eb mb b then str_NaN
  else if fl_is_inf eb mb b && negb (fl_neg eb mb b) then str_pInf
  else if fl_is_inf eb mb b && fl_neg eb mb b then str_nInf
  else fmt b.

(** Json2ReadFloat32/64: a string token is unescaped and given to strconv.ParseFloat,
    whose handling of exactly the three strings the writer emits is transcribed
    (strconv.special); everything else is the parameter [parse] = ParseFloat on the text. *)
Definition jr_float (eb mb : N) (parse : bytes -> option N) (t : bytes) : option N :=
  match t with
  | c :: _ =>
      if c =? 34 then
        match json_unescape t with
        | Some src =>
            if bytes_eqb src [78; 97; 78] then Some (fl_nan eb mb)
            else if bytes_eqb src [43; 73; 110; 102] then Some (fl_pinf eb mb)
            else if bytes_eqb src [45; 73; 110; 102] then Some (fl_ninf eb mb)
            else parse src
        | None => None
        end
      else parse t
  | [] => None
  end.

(** instances *)
Definition jw_float64 := jw_float 11 52.
Definition jw_float32 := jw_float 8 23.
Definition jr_float64 := jr_float 11 52.
Definition jr_float32 := jr_float 8 23.
