(** Proofs about [Jprim], part 1: UTF-8 well-formedness ([utf8_valid] <-> inductive [Utf8]). *)
From Coq Require Import ZArith Lia ZifyN ZifyNat ZifyBool.
From TLV Require Import Jprim.JprimModel.
Ltac Zify.zify_post_hook ::= Z.div_mod_to_equations.
Open Scope N_scope.

(** finite sweeps: a boolean check over 0..n-1, computed by the kernel, gives the universal fact *)
Definition rangeN (n : nat) : list N := map N.of_nat (seq 0 n).
Lemma rangeN_forall (n : nat) (P : N -> bool) :
  forallb P (rangeN n) = true -> forall i, (N.to_nat i < n)%nat -> P i = true.
Proof.
  intros H i Hi. rewrite forallb_forall in H. apply H.
  unfold rangeN. apply in_map_iff. exists (N.to_nat i). split; [lia|].
  apply in_seq. lia.
Qed.

(** ** well-formed multi-byte sequences *)
Inductive wf_seq : bytes -> N -> Prop :=
| W2 b0 b1 : 194 <= b0 < 224 -> in_rng 128 191 b1 = true ->
    wf_seq [b0; b1] ((b0 - 192) * 64 + (b1 - 128))
| W3 b0 b1 b2 : 224 <= b0 < 240 ->
    in_rng (if b0 =? 224 then 160 else 128) (if b0 =? 237 then 159 else 191) b1 = true ->
    in_rng 128 191 b2 = true ->
    wf_seq [b0; b1; b2] ((b0 - 224) * 4096 + (b1 - 128) * 64 + (b2 - 128))
| W4 b0 b1 b2 b3 : 240 <= b0 < 245 ->
    in_rng (if b0 =? 240 then 144 else 128) (if b0 =? 244 then 143 else 191) b1 = true ->
    in_rng 128 191 b2 = true -> in_rng 128 191 b3 = true ->
    wf_seq [b0; b1; b2; b3] ((b0 - 240) * 262144 + (b1 - 128) * 4096 + (b2 - 128) * 64 + (b3 - 128)).

Inductive Utf8 : bytes -> Prop :=
| U_nil : Utf8 []
| U_ascii b r : b < 128 -> Utf8 r -> Utf8 (b :: r)
| U_seq ch c r : wf_seq ch c -> Utf8 r -> Utf8 (ch ++ r).

Lemma wf_seq_len ch c : wf_seq ch c -> (2 <= length ch <= 4)%nat.
Proof. destruct 1; cbn; lia. Qed.

Lemma wf_seq_high ch c : wf_seq ch c -> Forall (fun b => 128 <= b < 256) ch.
Proof.
  destruct 1; unfold in_rng in *; repeat constructor; try lia;
  repeat match goal with H : context [if ?c then _ else _] |- _ => destruct c end; lia.
Qed.

Lemma decode_rune_seq ch c r : wf_seq ch c -> decode_rune (ch ++ r) = (c, length ch).
Proof.
  destruct 1 as [b0 b1 H0 H1|b0 b1 b2 H0 H1 H2|b0 b1 b2 b3 H0 H1 H2 H3]; cbn [app length decode_rune].
  - destruct (b0 <? 128) eqn:E1; [lia|]. destruct (b0 <? 194) eqn:E2; [lia|].
    destruct (b0 <? 224) eqn:E3; [|lia]. now rewrite H1.
  - destruct (b0 <? 128) eqn:E1; [lia|]. destruct (b0 <? 194) eqn:E2; [lia|].
    destruct (b0 <? 224) eqn:E3; [lia|]. destruct (b0 <? 240) eqn:E4; [|lia].
    now rewrite H1, H2.
  - destruct (b0 <? 128) eqn:E1; [lia|]. destruct (b0 <? 194) eqn:E2; [lia|].
    destruct (b0 <? 224) eqn:E3; [lia|]. destruct (b0 <? 240) eqn:E4; [lia|].
    destruct (b0 <? 245) eqn:E5; [|lia]. now rewrite H1, H2, H3.
Qed.

Lemma wf_seq_not_bad ch c : wf_seq ch c -> bad_rune c (length ch) = false.
Proof. intros H. pose proof (wf_seq_len _ _ H). unfold bad_rune. destruct (length ch) as [|[|n]]; lia. Qed.

(** what DecodeRune returns on a non-empty input *)
Lemma decode_rune_spec s : s <> [] ->
  let (c, size) := decode_rune s in
  bad_rune c size = true \/
  (exists b r, s = b :: r /\ b < 128 /\ c = b /\ size = 1%nat) \/
  (exists ch r, s = ch ++ r /\ wf_seq ch c /\ size = length ch).
Proof.
  destruct s as [|b0 r]; [congruence|intros _]. cbn [decode_rune].
  destruct (b0 <? 128) eqn:E1.
  { right; left. exists b0, r. repeat split; lia. }
  destruct (b0 <? 194) eqn:E2; [left; reflexivity|].
  destruct (b0 <? 224) eqn:E3.
  { destruct r as [|b1 r]; [left; reflexivity|].
    destruct (in_rng 128 191 b1) eqn:R1; [|left; reflexivity].
    right; right. exists [b0; b1], r. repeat split. constructor; [lia|assumption]. }
  destruct (b0 <? 240) eqn:E4.
  { destruct r as [|b1 [|b2 r]]; try (left; reflexivity).
    destruct (in_rng _ _ b1) eqn:R1; [|left; reflexivity].
    destruct (in_rng 128 191 b2) eqn:R2; [|left; reflexivity]. cbn [andb].
    right; right. exists [b0; b1; b2], r. repeat split. constructor; [lia|assumption..]. }
  destruct (b0 <? 245) eqn:E5; [|left; reflexivity].
  destruct r as [|b1 [|b2 [|b3 r]]]; try (left; reflexivity).
  destruct (in_rng _ _ b1) eqn:R1; [|left; reflexivity].
  destruct (in_rng 128 191 b2) eqn:R2; [|left; reflexivity].
  destruct (in_rng 128 191 b3) eqn:R3; [|left; reflexivity]. cbn [andb].
  right; right. exists [b0; b1; b2; b3], r. repeat split. constructor; [lia|assumption..].
Qed.

Lemma skipn_app_len {A} (a b : list A) : skipn (length a) (a ++ b) = b.
Proof. induction a; cbn; auto. Qed.
Lemma firstn_app_len {A} (a b : list A) : firstn (length a) (a ++ b) = a.
Proof. induction a; cbn; congruence. Qed.

Lemma utf8_valid_aux_Utf8 f : forall s, utf8_valid_aux f s = true -> Utf8 s.
Proof.
  induction f as [|f IH]; intros s H.
  - destruct s; [constructor|discriminate].
  - destruct s as [|b r]; [constructor|].
    cbn [utf8_valid_aux] in H.
    pose proof (decode_rune_spec (b :: r) ltac:(congruence)) as S.
    destruct (decode_rune (b :: r)) as [c size].
    destruct (bad_rune c size) eqn:B; [discriminate|].
    destruct S as [S|[(b' & r' & E & Hb & -> & ->)|(ch & r' & E & W & ->)]]; [congruence| |].
    + inversion E; subst. cbn [skipn] in H. constructor; auto.
    + rewrite E in *. rewrite skipn_app_len in H. econstructor; eauto.
Qed.

Lemma Utf8_utf8_valid_aux s : Utf8 s -> forall f, (length s <= f)%nat -> utf8_valid_aux f s = true.
Proof.
  induction 1 as [|b r Hb _ IH|ch c r W _ IH]; intros f Hf.
  - destruct f; reflexivity.
  - destruct f as [|f]; [cbn in Hf; lia|]. cbn [utf8_valid_aux decode_rune].
    destruct (b <? 128) eqn:E; [|lia].
    replace (bad_rune b 1) with false by (unfold bad_rune, RuneError; lia).
    cbn [skipn]. apply IH. cbn in Hf; lia.
  - pose proof (wf_seq_len _ _ W) as L. rewrite app_length in Hf.
    destruct f as [|f]; [lia|].
    destruct (ch ++ r) eqn:E; [destruct ch; cbn in *; [lia|discriminate]|].
    rewrite <- E. cbn [utf8_valid_aux]. rewrite E at 1. rewrite (decode_rune_seq _ _ r W).
    rewrite (wf_seq_not_bad _ _ W), skipn_app_len. apply IH. lia.
Qed.

Theorem utf8_valid_iff s : utf8_valid s = true <-> Utf8 s.
Proof.
  split; [apply utf8_valid_aux_Utf8|]. intros H. now apply Utf8_utf8_valid_aux.
Qed.

Lemma Utf8_app a b : Utf8 a -> Utf8 b -> Utf8 (a ++ b).
Proof.
  induction 1; cbn [app]; auto.
  - constructor; auto.
  - rewrite <- app_assoc. econstructor; eauto.
Qed.

Lemma Utf8_ascii s : Forall (fun b => b < 128) s -> Utf8 s.
Proof. induction 1; constructor; auto. Qed.

Lemma Utf8_bytes_ok s : Utf8 s -> bytes_ok s.
Proof.
  induction 1.
  - constructor.
  - constructor; [unfold byte_ok; lia|assumption].
  - apply Forall_app; split; [|assumption].
    eapply Forall_impl; [|apply (wf_seq_high _ _ H)]. unfold byte_ok; cbn; lia.
Qed.
