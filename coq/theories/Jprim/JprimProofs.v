(** Proofs about [Jprim], part 4: decimal integers, bool, floats (specials proved; finite values under Section hypotheses about strconv). *)
From Coq Require Import ZArith Lia ZifyN ZifyNat ZifyBool.
From TLV Require Import Prim.PrimProofs Jprim.JprimModel.
From TLV Require Export Jprim.JprimUtf8 Jprim.JprimEsc Jprim.JprimStr.
Ltac Zify.zify_post_hook ::= Z.div_mod_to_equations.
Open Scope N_scope.

(** ** decimal printer *)
Lemma dec_digits_acc f : forall n acc, dec_digits f n acc = dec_digits f n [] ++ acc.
Proof.
  induction f as [|f IH]; intros n acc; cbn [dec_digits]; [reflexivity|].
  destruct (n <? 10); [reflexivity|].
  rewrite (IH _ (_ :: acc)), (IH _ [_]), <- app_assoc. reflexivity.
Qed.

Lemma digits_val_aux_snoc l : forall a c, is_digit c = true ->
  digits_val_aux (l ++ [c]) a = option_map (fun v => v * 10 + (c - 48)) (digits_val_aux l a).
Proof.
  induction l as [|d l IH]; intros a c Hc; cbn [app digits_val_aux].
  - rewrite Hc. reflexivity.
  - destruct (is_digit d); [now apply IH|reflexivity].
Qed.

Lemma dec_digits_S f n acc : dec_digits (S f) n acc =
  if n <? 10 then (48 + n) :: acc else dec_digits f (n / 10) ((48 + n mod 10) :: acc).
Proof. reflexivity. Qed.

(** digits of [n], most significant first: parse back to [n]; all digits; no leading zero *)
Lemma dec_digits_spec f : forall n, n < 2 ^ N.of_nat f ->
  digits_val_aux (dec_digits (S f) n []) 0 = Some n
  /\ exists d ds, dec_digits (S f) n [] = d :: ds /\ is_digit d = true /\ forallb is_digit ds = true
                  /\ (d = 48 -> n = 0 /\ ds = []).
Proof.
  induction f as [|f IH]; intros n Hn.
  - assert (n = 0) by (cbn in Hn; lia). subst n. cbn. split; [reflexivity|].
    exists 48, []. repeat split; reflexivity.
  - rewrite dec_digits_S. destruct (n <? 10) eqn:E.
    + cbn [digits_val_aux]. unfold is_digit, in_rng.
      replace ((48 <=? 48 + n) && (48 + n <=? 57)) with true by lia.
      split; [f_equal; lia|]. exists (48 + n), []. repeat split; try lia; reflexivity.
    + assert (Hq : n / 10 < 2 ^ N.of_nat f).
      { replace (N.of_nat (S f)) with (N.succ (N.of_nat f)) in Hn by lia.
        rewrite N.pow_succ_r' in Hn. lia. }
      destruct (IH _ Hq) as (V & d & ds & E1 & D1 & D2 & Z).
      assert (Hd : is_digit (48 + n mod 10) = true) by (unfold is_digit, in_rng; lia).
      rewrite dec_digits_acc. split.
      * rewrite digits_val_aux_snoc by assumption. rewrite V. cbn [option_map]. f_equal. lia.
      * rewrite E1. exists d, (ds ++ [48 + n mod 10]).
        split; [reflexivity|]. split; [assumption|]. split.
        -- rewrite forallb_app, D2. cbn [forallb]. now rewrite Hd.
        -- intros D0. destruct (Z D0) as [Z0 _]. exfalso. lia.
Qed.

Lemma print_N_spec n :
  digits_val (print_N n) = Some n
  /\ exists d ds, print_N n = d :: ds /\ is_digit d = true /\ forallb is_digit ds = true
                  /\ (d = 48 -> n = 0 /\ ds = []).
Proof.
  unfold print_N.
  destruct (dec_digits_spec (N.to_nat (N.size n)) n) as (V & d & ds & E & R).
  { rewrite N2Nat.id. apply N.size_gt. }
  split; [|eauto]. rewrite E in *. exact V.
Qed.

Theorem print_N_roundtrip n : digits_val (print_N n) = Some n.
Proof. apply print_N_spec. Qed.

Lemma skip_digits_all ds : forallb is_digit ds = true -> skip_digits ds = [].
Proof. induction ds as [|d ds IH]; cbn [forallb skip_digits]; [reflexivity|]. intros H. apply andb_prop in H as [-> H]. auto. Qed.

Lemma digits_ascii ds : forallb is_digit ds = true -> Forall (fun c => c < 128) ds.
Proof.
  induction ds as [|d ds IH]; cbn [forallb]; intros H; constructor; apply andb_prop in H as [H1 H2].
  - unfold is_digit, in_rng in H1. lia.
  - now apply IH.
Qed.

(** a digit string without a leading zero is an RFC 8259 number *)
Lemma p_number_digits d ds : is_digit d = true -> forallb is_digit ds = true -> (d = 48 -> ds = []) ->
  p_number (d :: ds) = Some [] /\ p_number (45 :: d :: ds) = Some [].
Proof.
  intros Hd Hds Z. unfold p_number. cbn [N.eqb Pos.eqb].
  assert (E : (d =? 45) = false) by (unfold is_digit, in_rng in Hd; lia). rewrite E.
  destruct (d =? 48) eqn:E0.
  - apply N.eqb_eq in E0. rewrite (Z E0). split; reflexivity.
  - replace (in_rng 49 57 d) with true by (unfold is_digit, in_rng in *; lia).
    rewrite (skip_digits_all _ Hds). split; reflexivity.
Qed.

(** a text that [p_number] accepts completely and that is ASCII is a valid JSON text *)
Lemma number_valid_json t : p_number t = Some [] -> Forall (fun c => c < 128) t -> valid_json_text t = true.
Proof.
  intros P A. unfold valid_json_text. apply andb_true_intro. split.
  - apply utf8_valid_iff. now apply Utf8_ascii.
  - unfold json_grammar_ok. destruct (fuel_S t) as [f ->].
    destruct t as [|c r]; [discriminate|].
    assert (C : c = 45 \/ is_digit c = true).
    { unfold p_number in P. destruct (c =? 45) eqn:E; [lia|right].
      destruct (c =? 48) eqn:E0; [unfold is_digit, in_rng; lia|].
      destruct (in_rng 49 57 c) eqn:E1; [|discriminate]. unfold is_digit, in_rng in *. lia. }
    assert (W : is_ws c = false) by (unfold is_ws, is_digit, in_rng in *; lia).
    cbn [p_value skip_ws]. rewrite W.
    assert (N1 : (c =? 34) = false) by (unfold is_digit, in_rng in *; lia).
    assert (N2 : (c =? 123) = false) by (unfold is_digit, in_rng in *; lia).
    assert (N3 : (c =? 91) = false) by (unfold is_digit, in_rng in *; lia).
    assert (N4 : (c =? 116) = false) by (unfold is_digit, in_rng in *; lia).
    assert (N5 : (c =? 102) = false) by (unfold is_digit, in_rng in *; lia).
    assert (N6 : (c =? 110) = false) by (unfold is_digit, in_rng in *; lia).
    rewrite N1, N2, N3, N4, N5, N6, P. reflexivity.
Qed.

Theorem jw_uint_valid n : valid_json_text (jw_uint n) = true.
Proof.
  unfold jw_uint. destruct (print_N_spec n) as (_ & d & ds & E & D1 & D2 & Z). rewrite E.
  apply number_valid_json.
  - apply p_number_digits; auto. intros H. now destruct (Z H).
  - apply (digits_ascii (d :: ds)). cbn [forallb]. now rewrite D1.
Qed.

Theorem jw_int_valid z : valid_json_text (jw_int z) = true.
Proof.
  unfold jw_int, print_Z. destruct (z <? 0)%Z.
  - destruct (print_N_spec (Z.to_N (- z))) as (_ & d & ds & E & D1 & D2 & Z). rewrite E.
    apply number_valid_json.
    + apply p_number_digits; auto. intros H. now destruct (Z H).
    + constructor; [lia|]. apply (digits_ascii (d :: ds)). cbn [forallb]. now rewrite D1.
  - apply jw_uint_valid.
Qed.

(** ** integer readers *)
Theorem jr_uint_roundtrip bits n : n < 2 ^ bits -> jr_uint bits (jw_uint n) = Some n.
Proof.
  intros Hn. unfold jw_uint, jr_uint.
  destruct (print_N_spec n) as (V & d & ds & E & D1 & _). rewrite E in *.
  replace (d =? 34) with false by (unfold is_digit, in_rng in D1; lia).
  unfold parse_uint. rewrite V. now replace (n <? 2 ^ bits) with true by lia.
Qed.

Theorem jr_uint_out_of_range bits n : 2 ^ bits <= n -> jr_uint bits (print_N n) = None.
Proof.
  intros Hn. unfold jr_uint.
  destruct (print_N_spec n) as (V & d & ds & E & D1 & _). rewrite E in *.
  replace (d =? 34) with false by (unfold is_digit, in_rng in D1; lia).
  unfold parse_uint. rewrite V. now replace (n <? 2 ^ bits) with false by lia.
Qed.

Theorem jr_int_roundtrip bits z : 0 < bits ->
  (- Z.of_N (2 ^ (bits - 1)) <= z < Z.of_N (2 ^ (bits - 1)))%Z -> jr_int bits (jw_int z) = Some z.
Proof.
  intros Hb Hz. unfold jw_int, print_Z, jr_int.
  destruct (z <? 0)%Z eqn:S.
  - cbn [N.eqb Pos.eqb]. unfold parse_int. cbn [N.eqb Pos.eqb].
    rewrite print_N_roundtrip.
    replace (Z.to_N (- z) <=? 2 ^ (bits - 1)) with true by lia. f_equal. lia.
  - destruct (print_N_spec (Z.to_N z)) as (V & d & ds & E & D1 & _). rewrite E in *.
    replace (d =? 34) with false by (unfold is_digit, in_rng in D1; lia).
    replace (d =? 43) with false by (unfold is_digit, in_rng in D1; lia).
    unfold parse_int.
    replace (d =? 45) with false by (unfold is_digit, in_rng in D1; lia).
    replace (d =? 43) with false by (unfold is_digit, in_rng in D1; lia).
    rewrite V. replace (Z.to_N z <? 2 ^ (bits - 1)) with true by lia. f_equal. lia.
Qed.

Theorem jr_int_out_of_range bits z : 0 < bits ->
  (z < - Z.of_N (2 ^ (bits - 1)) \/ Z.of_N (2 ^ (bits - 1)) <= z)%Z -> jr_int bits (print_Z z) = None.
Proof.
  intros Hb Hz. unfold print_Z, jr_int.
  destruct (z <? 0)%Z eqn:S.
  - cbn [N.eqb Pos.eqb]. unfold parse_int. cbn [N.eqb Pos.eqb].
    rewrite print_N_roundtrip.
    now replace (Z.to_N (- z) <=? 2 ^ (bits - 1)) with false by lia.
  - destruct (print_N_spec (Z.to_N z)) as (V & d & ds & E & D1 & _). rewrite E in *.
    replace (d =? 34) with false by (unfold is_digit, in_rng in D1; lia).
    replace (d =? 43) with false by (unfold is_digit, in_rng in D1; lia).
    unfold parse_int.
    replace (d =? 45) with false by (unfold is_digit, in_rng in D1; lia).
    replace (d =? 43) with false by (unfold is_digit, in_rng in D1; lia).
    rewrite V. now replace (Z.to_N z <? 2 ^ (bits - 1)) with false by lia.
Qed.

(** ** bool *)
Theorem jw_bool_ok b : jr_bool (jw_bool b) = Some b /\ valid_json_text (jw_bool b) = true.
Proof. destruct b; split; vm_compute; reflexivity. Qed.

(** ** floats *)
Definition fl_finite (eb mb b : N) : bool := negb (fl_exp eb mb b =? 2 ^ eb - 1).
Definition fl_canon (eb mb b : N) : N := if fl_is_nan eb mb b then fl_nan eb mb else b.

Theorem jw_float_special_text eb mb fmt b :
  (fl_is_nan eb mb b = true -> jw_float eb mb fmt b = str_NaN) /\
  (fl_is_inf eb mb b = true -> fl_neg eb mb b = false -> jw_float eb mb fmt b = str_pInf) /\
  (fl_is_inf eb mb b = true -> fl_neg eb mb b = true -> jw_float eb mb fmt b = str_nInf) /\
  (fl_finite eb mb b = true -> jw_float eb mb fmt b = fmt b).
Proof.
  unfold jw_float, fl_is_nan, fl_is_inf, fl_finite. repeat split; intros.
  - now rewrite H.
  - destruct (fl_man mb b =? 0) eqn:M; [|lia]. rewrite H0.
    replace ((fl_exp eb mb b =? 2 ^ eb - 1) && negb true) with false by lia. now rewrite H.
  - destruct (fl_man mb b =? 0) eqn:M; [|lia]. rewrite H0.
    replace ((fl_exp eb mb b =? 2 ^ eb - 1) && negb true) with false by lia. now rewrite H.
  - destruct (fl_exp eb mb b =? 2 ^ eb - 1); [discriminate|]. reflexivity.
Qed.

Theorem float_special_strings_valid :
  valid_json_text str_NaN = true /\ valid_json_text str_pInf = true /\ valid_json_text str_nInf = true.
Proof. repeat split; vm_compute; reflexivity. Qed.

Theorem jr_float_special eb mb parse :
  jr_float eb mb parse str_NaN = Some (fl_nan eb mb) /\
  jr_float eb mb parse str_pInf = Some (fl_pinf eb mb) /\
  jr_float eb mb parse str_nInf = Some (fl_ninf eb mb).
Proof. repeat split; reflexivity. Qed.

(** infinities are the bit patterns [fl_pinf] / [fl_ninf] *)
Lemma fl_inf_bits eb mb b : b < 2 ^ (1 + eb + mb) -> fl_is_inf eb mb b = true ->
  b = if fl_neg eb mb b then fl_ninf eb mb else fl_pinf eb mb.
Proof.
  unfold fl_is_inf, fl_neg, fl_exp, fl_man, fl_ninf, fl_pinf. intros Hb H.
  apply andb_prop in H as [H1 H2]. apply N.eqb_eq in H1, H2.
  assert (P1 : 2 ^ mb <> 0) by (apply N.pow_nonzero; lia).
  assert (P2 : 2 ^ eb <> 0) by (apply N.pow_nonzero; lia).
  pose proof (N.div_mod b (2 ^ mb) P1) as D1. rewrite H2 in D1.
  pose proof (N.div_mod (b / 2 ^ mb) (2 ^ eb) P2) as D2. rewrite H1 in D2.
  rewrite N.div_div in D2 by assumption. rewrite <- N.pow_add_r in D2.
  replace (mb + eb) with (eb + mb) in D2 by lia.
  assert (Q : b / 2 ^ (eb + mb) < 2).
  { apply N.div_lt_upper_bound; [apply N.pow_nonzero; lia|].
    replace (1 + eb + mb) with (N.succ (eb + mb)) in Hb by lia. rewrite N.pow_succ_r' in Hb. lia. }
  remember (b / 2 ^ (eb + mb)) as q eqn:Eq. clear Eq.
  remember (b / 2 ^ mb) as e eqn:Ee. clear Ee.
  rewrite N.pow_add_r in *.
  remember (2 ^ eb) as pe eqn:Epe. clear Epe. remember (2 ^ mb) as pm eqn:Epm. clear Epm.
  assert (C : q = 0 \/ q = 1) by lia.
  destruct C as [-> | ->]; cbn [N.modulo N.div_eucl N.eqb negb snd] in *.
  all: try (change (1 mod 2) with 1; cbn [N.eqb negb]).
  all: clear H1 H2 Hb; subst e; subst b; remember (pe - 1) as k; ring.
Qed.

Section StrconvOracle.
  (** [fmt b] = strconv.AppendFloat(nil, v, 'f', -1, bitSize) and [parse t] = the bits of
      strconv.ParseFloat(t, bitSize), for the finite value v with bit pattern b.  The three
      hypotheses are NOT proved (strconv's shortest-decimal printer and its parser are not
      modelled); the correspondence run validates them on structured and random bit patterns. *)
  Variables (eb mb : N) (fmt : N -> bytes) (parse : bytes -> option N).
  Hypothesis H_fmt_number : forall b, fl_finite eb mb b = true -> p_number (fmt b) = Some [].
  Hypothesis H_fmt_ascii : forall b, fl_finite eb mb b = true -> Forall (fun c => c < 128) (fmt b).
  Hypothesis H_parse_fmt : forall b, fl_finite eb mb b = true -> parse (fmt b) = Some b.

  Theorem jw_float_valid_partial b : valid_json_text (jw_float eb mb fmt b) = true.
  Proof using H_fmt_number H_fmt_ascii.
    destruct (jw_float_special_text eb mb fmt b) as (A & B & C & D).
    destruct float_special_strings_valid as (V1 & V2 & V3).
    destruct (fl_is_nan eb mb b) eqn:E1; [now rewrite A|].
    destruct (fl_is_inf eb mb b) eqn:E2.
    { destruct (fl_neg eb mb b); [rewrite C|rewrite B]; auto. }
    assert (F : fl_finite eb mb b = true).
    { clear - E1 E2. unfold fl_finite, fl_is_nan, fl_is_inf in *. destruct (fl_man mb b =? 0); lia. }
    rewrite (D F). apply number_valid_json; auto.
  Qed.

  Theorem jr_float_roundtrip_partial b : b < 2 ^ (1 + eb + mb) ->
    jr_float eb mb parse (jw_float eb mb fmt b) = Some (fl_canon eb mb b).
  Proof using H_fmt_number H_parse_fmt.
    clear H_fmt_ascii. intros Hb.
    destruct (jw_float_special_text eb mb fmt b) as (A & B & C & D).
    destruct (jr_float_special eb mb parse) as (R1 & R2 & R3).
    unfold fl_canon.
    destruct (fl_is_nan eb mb b) eqn:E1; [now rewrite A|].
    destruct (fl_is_inf eb mb b) eqn:E2.
    { pose proof (fl_inf_bits eb mb b Hb E2) as I.
      destruct (fl_neg eb mb b); [rewrite C, R3|rewrite B, R2]; auto; now f_equal. }
    assert (F : fl_finite eb mb b = true).
    { clear - E1 E2. unfold fl_finite, fl_is_nan, fl_is_inf in *. destruct (fl_man mb b =? 0); lia. }
    rewrite (D F). pose proof (H_fmt_number b F) as P.
    unfold jr_float. destruct (fmt b) as [|c r] eqn:E; [discriminate|].
    replace (c =? 34) with false.
    - rewrite <- E. now apply H_parse_fmt.
    - unfold p_number in P. destruct (c =? 45) eqn:X; [lia|].
      destruct (c =? 48) eqn:X0; [lia|]. destruct (in_rng 49 57 c) eqn:X1; [|discriminate].
      unfold in_rng in X1. lia.
  Qed.
End StrconvOracle.

(** the concrete widths of the Go writers *)
Theorem integer_widths :
  (forall n, n <= 255 -> jr_uint 8 (jw_uint n) = Some n) /\
  (forall n, n <= 4294967295 -> jr_uint 32 (jw_uint n) = Some n) /\
  (forall n, n <= 18446744073709551615 -> jr_uint 64 (jw_uint n) = Some n) /\
  (forall z, (-2147483648 <= z <= 2147483647)%Z -> jr_int 32 (jw_int z) = Some z) /\
  (forall z, (-9223372036854775808 <= z <= 9223372036854775807)%Z -> jr_int 64 (jw_int z) = Some z).
Proof.
  repeat split; intros.
  - apply jr_uint_roundtrip. change (2 ^ 8) with 256. lia.
  - apply jr_uint_roundtrip. change (2 ^ 32) with 4294967296. lia.
  - apply jr_uint_roundtrip. change (2 ^ 64) with 18446744073709551616. lia.
  - apply jr_int_roundtrip; [lia|]. change (2 ^ (32 - 1)) with 2147483648. lia.
  - apply jr_int_roundtrip; [lia|]. change (2 ^ (64 - 1)) with 9223372036854775808. lia.
Qed.
