(** Proofs about [Jprim], part 3: base64 and the string theorems. *)
From Coq Require Import ZArith Lia ZifyN ZifyNat ZifyBool.
From TLV Require Import Prim.PrimProofs Jprim.JprimModel Jprim.JprimUtf8 Jprim.JprimEsc.
Ltac Zify.zify_post_hook ::= Z.div_mod_to_equations.
Open Scope N_scope.

(** ** base64 *)
Lemma b64c_ok i : i < 64 -> b64i (b64c i) = Some i /\ plainb (b64c i) = true /\ b64c i < 128 /\ b64c i <> 61.
Proof.
  intros Hi.
  assert (T : forallb (fun i => match b64i (b64c i) with Some j => j =? i | None => false end
                                && plainb (b64c i) && (b64c i <? 128) && negb (b64c i =? 61)) (rangeN 64) = true)
    by (vm_compute; reflexivity).
  pose proof (rangeN_forall 64 _ T i ltac:(lia)) as H. cbn beta in H.
  apply andb_prop in H as [H H4]. apply andb_prop in H as [H H3]. apply andb_prop in H as [H1 H2].
  destruct (b64i (b64c i)) as [j|]; [|discriminate]. apply N.eqb_eq in H1. subst j.
  repeat split; auto; lia.
Qed.

Lemma b64_enc_nonnil s : s <> [] -> exists x t, b64_enc s = x :: t.
Proof. destruct s as [|a [|b [|c r]]]; [congruence|..]; intros _; cbn [b64_enc]; eauto. Qed.

Lemma b64_roundtrip_len n : forall s, (length s <= n)%nat -> bytes_ok s -> b64_dec (b64_enc s) = Some s.
Proof.
  induction n as [|n IH]; intros s L Hs.
  { destruct s; [reflexivity|cbn in L; lia]. }
  destruct s as [|a [|b [|c r]]]; [reflexivity|..].
  - apply bytes_ok_cons_inv in Hs as [Ha _].
    cbn [b64_enc b64_dec].
    destruct (b64c_ok (a / 4) ltac:(lia)) as (-> & _).
    destruct (b64c_ok (a mod 4 * 16) ltac:(lia)) as (-> & _).
    cbn [N.eqb Pos.eqb]. f_equal. f_equal. lia.
  - apply bytes_ok_cons_inv in Hs as [Ha Hs]. apply bytes_ok_cons_inv in Hs as [Hb _].
    cbn [b64_enc b64_dec].
    destruct (b64c_ok (a / 4) ltac:(lia)) as (-> & _).
    destruct (b64c_ok (a mod 4 * 16 + b / 16) ltac:(lia)) as (-> & _).
    destruct (b64c_ok (b mod 16 * 4) ltac:(lia)) as (-> & _ & _ & N3).
    destruct (b64c (b mod 16 * 4) =? 61) eqn:E; [lia|].
    cbn [N.eqb Pos.eqb]. f_equal. f_equal; [lia|f_equal; lia].
  - apply bytes_ok_cons_inv in Hs as [Ha Hs]. apply bytes_ok_cons_inv in Hs as [Hb Hs].
    apply bytes_ok_cons_inv in Hs as [Hc Hr].
    cbn [b64_enc b64_dec].
    destruct (b64c_ok (a / 4) ltac:(lia)) as (-> & _).
    destruct (b64c_ok (a mod 4 * 16 + b / 16) ltac:(lia)) as (-> & _).
    destruct (b64c_ok (b mod 16 * 4 + c / 64) ltac:(lia)) as (-> & _ & _ & N3).
    destruct (b64c_ok (c mod 64) ltac:(lia)) as (-> & _ & _ & N4).
    assert (O1 : a / 4 * 4 + (a mod 4 * 16 + b / 16) / 16 = a) by lia.
    assert (O2 : (a mod 4 * 16 + b / 16) mod 16 * 16 + (b mod 16 * 4 + c / 64) / 4 = b) by lia.
    assert (O3 : (b mod 16 * 4 + c / 64) mod 4 * 64 + c mod 64 = c) by lia.
    rewrite O1, O2, O3.
    destruct r as [|d r'].
    + cbn [b64_enc].
      destruct (b64c (b mod 16 * 4 + c / 64) =? 61) eqn:E3; [lia|].
      destruct (b64c (c mod 64) =? 61) eqn:E4; [lia|]. reflexivity.
    + destruct (b64_enc_nonnil (d :: r') ltac:(congruence)) as (x & t & E). rewrite E, <- E.
      rewrite IH; [reflexivity| |assumption]. cbn [length] in *. lia.
Qed.

Theorem b64_roundtrip s : bytes_ok s -> b64_dec (b64_enc s) = Some s.
Proof. apply (b64_roundtrip_len (length s)). lia. Qed.

Lemma b64_enc_plain_len n : forall s, (length s <= n)%nat -> bytes_ok s ->
  forallb plainb (b64_enc s) = true /\ Forall (fun c => c < 128) (b64_enc s).
Proof.
  induction n as [|n IH]; intros s L Hs.
  { destruct s; [split; [reflexivity|constructor]|cbn in L; lia]. }
  destruct s as [|a [|b [|c r]]]; [split; [reflexivity|constructor]|..].
  - apply bytes_ok_cons_inv in Hs as [Ha _]. cbn [b64_enc forallb].
    destruct (b64c_ok (a / 4) ltac:(lia)) as (_ & -> & ? & _).
    destruct (b64c_ok (a mod 4 * 16) ltac:(lia)) as (_ & -> & ? & _).
    split; [reflexivity|repeat constructor; lia].
  - apply bytes_ok_cons_inv in Hs as [Ha Hs]. apply bytes_ok_cons_inv in Hs as [Hb _].
    cbn [b64_enc forallb].
    destruct (b64c_ok (a / 4) ltac:(lia)) as (_ & -> & ? & _).
    destruct (b64c_ok (a mod 4 * 16 + b / 16) ltac:(lia)) as (_ & -> & ? & _).
    destruct (b64c_ok (b mod 16 * 4) ltac:(lia)) as (_ & -> & ? & _).
    split; [reflexivity|repeat constructor; lia].
  - apply bytes_ok_cons_inv in Hs as [Ha Hs]. apply bytes_ok_cons_inv in Hs as [Hb Hs].
    apply bytes_ok_cons_inv in Hs as [Hc Hr].
    cbn [b64_enc forallb].
    destruct (b64c_ok (a / 4) ltac:(lia)) as (_ & -> & ? & _).
    destruct (b64c_ok (a mod 4 * 16 + b / 16) ltac:(lia)) as (_ & -> & ? & _).
    destruct (b64c_ok (b mod 16 * 4 + c / 64) ltac:(lia)) as (_ & -> & ? & _).
    destruct (b64c_ok (c mod 64) ltac:(lia)) as (_ & -> & ? & _).
    destruct (IH r) as [I1 I2]; [cbn [length] in L; lia|assumption|].
    rewrite I1. split; [reflexivity|repeat constructor; auto].
Qed.

Lemma b64_enc_plain s : bytes_ok s ->
  forallb plainb (b64_enc s) = true /\ Forall (fun c => c < 128) (b64_enc s).
Proof. apply (b64_enc_plain_len (length s)). lia. Qed.

(** ** strip_prefix *)
Lemma strip_prefix_app p s : strip_prefix p (p ++ s) = Some s.
Proof. induction p; cbn [strip_prefix app]; [reflexivity|]. now rewrite N.eqb_refl. Qed.

(** ** JSONWriteString *)
Lemma jws_valid_form s : utf8_valid s = true -> json_write_string s = 34 :: esc_loop (length s) s ++ [34].
Proof. unfold json_write_string. now intros ->. Qed.
Lemma jws_invalid_form s : utf8_valid s = false ->
  json_write_string s = binaryJSONStringStart ++ b64_enc s ++ binaryJSONStringEnd.
Proof. unfold json_write_string. now intros ->. Qed.

Theorem jws_unescape s : utf8_valid s = true -> json_unescape (json_write_string s) = Some s.
Proof.
  intros H. rewrite (jws_valid_form _ H). apply utf8_valid_iff in H.
  destruct (esc_loop_correct s H (length s) [] ltac:(lia)) as (A & _).
  unfold json_unescape. cbn [N.eqb Pos.eqb]. now rewrite A.
Qed.

Lemma fuel_S (t : bytes) : exists f, (2 * length t + 2 = S (S f))%nat.
Proof. exists (2 * length t)%nat. lia. Qed.

Lemma is_ws_false c : c <> 32 -> c <> 9 -> c <> 10 -> c <> 13 -> is_ws c = false.
Proof. unfold is_ws. lia. Qed.

Theorem jws_valid_json s : bytes_ok s -> valid_json_text (json_write_string s) = true.
Proof.
  intros Hs. unfold valid_json_text. apply andb_true_intro.
  destruct (utf8_valid s) eqn:V.
  - rewrite (jws_valid_form _ V). apply utf8_valid_iff in V.
    destruct (esc_loop_correct s V (length s) [] ltac:(lia)) as (_ & B & C). split.
    + apply utf8_valid_iff. apply (Utf8_app [34]); [apply Utf8_ascii; repeat constructor; lia|].
      apply Utf8_app; [assumption|apply Utf8_ascii; repeat constructor; lia].
    + unfold json_grammar_ok. destruct (fuel_S (34 :: esc_loop (length s) s ++ [34])) as [f ->].
      cbn [p_value skip_ws is_ws N.eqb Pos.eqb orb]. rewrite B. reflexivity.
  - rewrite (jws_invalid_form _ V). destruct (b64_enc_plain s Hs) as [P A]. split.
    + apply utf8_valid_iff. apply Utf8_ascii. apply Forall_app; split; [|apply Forall_app; split; [assumption|]].
      * apply Forall_forall. intros x Hx.
        assert (T : forallb (fun c => c <? 128) binaryJSONStringStart = true) by (vm_compute; reflexivity).
        rewrite forallb_forall in T. specialize (T x Hx). lia.
      * apply Forall_forall. intros x Hx.
        assert (T : forallb (fun c => c <? 128) binaryJSONStringEnd = true) by (vm_compute; reflexivity).
        rewrite forallb_forall in T. specialize (T x Hx). lia.
    + unfold json_grammar_ok.
      destruct (fuel_S (binaryJSONStringStart ++ b64_enc s ++ binaryJSONStringEnd)) as [f E]. rewrite E.
      assert (exists f', f = S f') as [f' ->].
      { rewrite !app_length in E. change (length binaryJSONStringStart) with (11%nat) in E.
        exists (Nat.pred f). lia. }
      unfold binaryJSONStringStart, binaryJSONStringEnd.
      cbn [app p_value p_members skip_ws is_ws N.eqb Pos.eqb orb p_chars N.ltb N.compare Pos.compare Pos.compare_cont].
      rewrite (plains_p_chars _ _ P).
      cbn [app p_value p_members skip_ws is_ws N.eqb Pos.eqb orb p_chars N.ltb N.compare Pos.compare Pos.compare_cont is_nil].
      reflexivity.
Qed.

Theorem jws_read_back s : bytes_ok s -> jstr_read (json_write_string s) = Some s.
Proof.
  intros Hs. destruct (utf8_valid s) eqn:V.
  - pose proof (jws_unescape s V) as U. rewrite (jws_valid_form _ V) in *.
    unfold jstr_read. cbn [N.eqb Pos.eqb]. exact U.
  - rewrite (jws_invalid_form _ V). unfold jstr_read.
    assert (E : exists c t, binaryJSONStringStart = c :: t /\ (c =? 34) = false)
      by (eexists; eexists; split; [reflexivity|vm_compute; reflexivity]).
    destruct E as (c & t & E1 & E2). rewrite E1 at 1. cbn [app]. rewrite E2.
    rewrite strip_prefix_app.
    replace (length (b64_enc s ++ binaryJSONStringEnd) - length binaryJSONStringEnd)%nat with (length (b64_enc s))
      by (rewrite app_length; lia).
    rewrite skipn_app_len, firstn_app_len.
    replace (is_nil binaryJSONStringEnd) with false by reflexivity.
    rewrite <- (app_nil_r binaryJSONStringEnd) at 2. rewrite strip_prefix_app.
    now apply b64_roundtrip.
Qed.
