(** Proofs about [Jprim], part 2: the escaping loop of JSONWriteString against the RFC 8259 string grammar and unescaper. *)
From Coq Require Import ZArith Lia ZifyN ZifyNat ZifyBool.
From TLV Require Import Jprim.JprimModel Jprim.JprimUtf8.
Ltac Zify.zify_post_hook ::= Z.div_mod_to_equations.
Open Scope N_scope.

(** ** bytes that stand for themselves inside a JSON string *)
Definition plainb (c : N) : bool := (32 <=? c) && negb (c =? 34) && negb (c =? 92).

Lemma plain_unesc c t : plainb c = true -> unesc_chars (c :: t) = ucons [c] (unesc_chars t).
Proof.
  unfold plainb. intros H. cbn [unesc_chars].
  destruct (c =? 34) eqn:E1; [lia|]. destruct (c =? 92) eqn:E2; [lia|].
  destruct (c <? 32) eqn:E3; [lia|]. reflexivity.
Qed.
Lemma plain_p_chars c t : plainb c = true -> p_chars (c :: t) = p_chars t.
Proof.
  unfold plainb. intros H. cbn [p_chars].
  destruct (c =? 34) eqn:E1; [lia|]. destruct (c =? 92) eqn:E2; [lia|].
  destruct (c <? 32) eqn:E3; [lia|]. reflexivity.
Qed.

Lemma ucons_app a b x : ucons (a ++ b) x = ucons a (ucons b x).
Proof. destruct x as [[o r]|]; cbn; [now rewrite app_assoc|reflexivity]. Qed.

Lemma plains_unesc l t : forallb plainb l = true -> unesc_chars (l ++ t) = ucons l (unesc_chars t).
Proof.
  induction l as [|c l IH]; cbn [forallb app]; intros H.
  - destruct (unesc_chars t) as [[o r]|]; reflexivity.
  - apply andb_prop in H as [H1 H2]. rewrite plain_unesc by assumption. rewrite IH by assumption.
    now rewrite <- ucons_app.
Qed.
Lemma plains_p_chars l t : forallb plainb l = true -> p_chars (l ++ t) = p_chars t.
Proof.
  induction l as [|c l IH]; cbn [forallb app]; intros H; [reflexivity|].
  apply andb_prop in H as [H1 H2]. rewrite plain_p_chars by assumption. auto.
Qed.

Lemma high_plain l : Forall (fun b => 128 <= b < 256) l -> forallb plainb l = true.
Proof. induction 1; cbn [forallb]; [reflexivity|]. rewrite IHForall. unfold plainb. lia. Qed.

(** ** escapes *)
Lemma simple_unesc e d t : simple_esc e = Some d ->
  unesc_chars (92 :: e :: t) = ucons [d] (unesc_chars t) /\ p_chars (92 :: e :: t) = p_chars t.
Proof.
  intros H. cbn [unesc_chars p_chars]. cbn [N.eqb Pos.eqb].
  destruct (e =? 117) eqn:E.
  - apply N.eqb_eq in E; subst e. discriminate H.
  - rewrite H. split; reflexivity.
Qed.

Lemma u_unesc h1 h2 h3 h4 t :
  is_hex h1 && is_hex h2 && is_hex h3 && is_hex h4 = true ->
  in_rng 55296 56319 (hex4 h1 h2 h3 h4) = false ->
  unesc_chars (92 :: 117 :: h1 :: h2 :: h3 :: h4 :: t) = ucons (utf8_enc (hex4 h1 h2 h3 h4)) (unesc_chars t)
  /\ p_chars (92 :: 117 :: h1 :: h2 :: h3 :: h4 :: t) = p_chars t.
Proof.
  intros H R. cbn [unesc_chars p_chars]. cbn [N.eqb Pos.eqb]. rewrite H, R. split; reflexivity.
Qed.

(** ** facts about the constants taken from the source (each a finite sweep computed by the kernel) *)
Lemma safe_plain b : b < 128 -> safe b = true -> plainb b = true.
Proof.
  intros Hb Hs.
  assert (T : forallb (fun b => implb (safe b) (plainb b)) (rangeN 128) = true) by (vm_compute; reflexivity).
  pose proof (rangeN_forall 128 _ T b ltac:(lia)) as H. cbn beta in H. now rewrite Hs in H.
Qed.

Lemma hexd_ok i : i < 16 -> is_hex (hexd i) = true /\ hexv (hexd i) = i /\ hexd i < 128.
Proof.
  intros Hi.
  assert (T : forallb (fun i => is_hex (hexd i) && (hexv (hexd i) =? i) && (hexd i <? 128)) (rangeN 16) = true)
    by (vm_compute; reflexivity).
  pose proof (rangeN_forall 16 _ T i ltac:(lia)) as H. cbn beta in H.
  apply andb_prop in H as [H H3]. apply andb_prop in H as [H1 H2].
  apply N.eqb_eq in H2. apply N.ltb_lt in H3. auto.
Qed.

(** the escape of a non-safe byte below 0x80 decodes to that byte *)
Lemma esc_ascii_unesc b t : b < 128 ->
  unesc_chars (92 :: esc_ascii b ++ t) = ucons [b] (unesc_chars t)
  /\ p_chars (92 :: esc_ascii b ++ t) = p_chars t
  /\ Forall (fun c => c < 128) (esc_ascii b).
Proof.
  intros Hb. unfold esc_ascii.
  destruct ((b =? 92) || (b =? 34)) eqn:E1.
  { cbn [app]. assert (S : simple_esc b = Some b).
    { apply orb_prop in E1 as [E|E]; apply N.eqb_eq in E; subst; reflexivity. }
    destruct (simple_unesc b b t S) as [A B]. repeat split; auto; repeat constructor; lia. }
  destruct (b =? 10) eqn:E2.
  { apply N.eqb_eq in E2; subst. cbn [app]. destruct (simple_unesc 110 10 t eq_refl). repeat split; auto; repeat constructor; lia. }
  destruct (b =? 13) eqn:E3.
  { apply N.eqb_eq in E3; subst. cbn [app]. destruct (simple_unesc 114 13 t eq_refl). repeat split; auto; repeat constructor; lia. }
  destruct (b =? 9) eqn:E4.
  { apply N.eqb_eq in E4; subst. cbn [app]. destruct (simple_unesc 116 9 t eq_refl). repeat split; auto; repeat constructor; lia. }
  cbn [app].
  destruct (hexd_ok (b / 16) ltac:(lia)) as (X1 & X2 & X3).
  destruct (hexd_ok (b mod 16) ltac:(lia)) as (Y1 & Y2 & Y3).
  assert (V : hex4 48 48 (hexd (b / 16)) (hexd (b mod 16)) = b).
  { unfold hex4. rewrite X2, Y2. change (hexv 48) with 0. lia. }
  destruct (u_unesc 48 48 (hexd (b / 16)) (hexd (b mod 16)) t) as [A B].
  - rewrite X1, Y1. reflexivity.
  - rewrite V. unfold in_rng. lia.
  - rewrite V in A. unfold utf8_enc in A. destruct (b <? 128) eqn:E; [|lia].
    repeat split; auto. repeat constructor; auto.
Qed.

(** U+2028 / U+2029 *)
Lemma wf_seq_2028 ch c : wf_seq ch c -> (c =? 8232) || (c =? 8233) = true ->
  ch = utf8_enc c /\ c mod 16 < 16 /\ hex4 50 48 50 (hexd (c mod 16)) = c.
Proof.
  intros W H.
  assert (C : c = 8232 \/ c = 8233) by lia.
  destruct W as [b0 b1 H0 H1|b0 b1 b2 H0 H1 H2|b0 b1 b2 b3 H0 H1 H2 H3]; unfold in_rng in *.
  - exfalso. lia.
  - assert (b0 = 226) by (destruct (b0 =? 224); destruct (b0 =? 237); lia). subst b0.
    cbn [N.eqb Pos.eqb] in H1.
    assert (b1 = 128) by lia. subst b1.
    destruct C as [C|C]; [assert (b2 = 168) by lia|assert (b2 = 169) by lia]; subst b2;
      (split; [vm_compute; reflexivity|split; [vm_compute; reflexivity|vm_compute; reflexivity]]).
  - exfalso. destruct (b0 =? 240) eqn:E; destruct (b0 =? 244); lia.
Qed.

(** ** the escaping loop *)
Lemma esc_loop_nil f : esc_loop f [] = [].
Proof. destruct f; reflexivity. Qed.

Lemma wf_seq_head ch c r : wf_seq ch c -> exists b0 t, ch ++ r = b0 :: t /\ 194 <= b0.
Proof. destruct 1; cbn [app]; eexists; eexists; (split; [reflexivity|lia]). Qed.

Lemma esc_loop_seq f ch c r : wf_seq ch c ->
  esc_loop (S f) (ch ++ r) =
    if (c =? 8232) || (c =? 8233)
    then [92; 117; 50; 48; 50; hexd (c mod 16)] ++ esc_loop f r
    else ch ++ esc_loop f r.
Proof.
  intros W. destruct (wf_seq_head ch c r W) as (b0 & t & E & Hb).
  cbn [esc_loop]. rewrite E. destruct (b0 <? 128) eqn:E1; [lia|]. rewrite <- E.
  rewrite (decode_rune_seq _ _ r W), (wf_seq_not_bad _ _ W), skipn_app_len, firstn_app_len.
  reflexivity.
Qed.

(** main lemma: for well-formed UTF-8 the escaped text is (1) a grammatical JSON string body,
    (2) decoded by the RFC 8259 unescaper to the input, (3) well-formed UTF-8 itself *)
Lemma esc_loop_correct s : Utf8 s -> forall f t, (length s <= f)%nat ->
  unesc_chars (esc_loop f s ++ 34 :: t) = Some (s, t)
  /\ p_chars (esc_loop f s ++ 34 :: t) = Some t
  /\ Utf8 (esc_loop f s).
Proof.
  induction 1 as [|b r Hb _ IH|ch c r W _ IH]; intros f t Hf.
  - rewrite esc_loop_nil. cbn. repeat split; constructor.
  - destruct f as [|f]; [cbn in Hf; lia|]. cbn [length] in Hf.
    destruct (IH f t ltac:(lia)) as (I1 & I2 & I3).
    cbn [esc_loop]. destruct (b <? 128) eqn:E; [|lia].
    destruct (safe b) eqn:S.
    + pose proof (safe_plain b Hb S) as P. cbn [app].
      rewrite plain_unesc, plain_p_chars, I1, I2 by assumption. cbn. repeat split. now constructor.
    + destruct (esc_ascii_unesc b (esc_loop f r ++ 34 :: t) Hb) as (A & B & C).
      cbn [app]. rewrite <- app_assoc, A, B, I1, I2. cbn. repeat split.
      apply (Utf8_app (92 :: esc_ascii b)); [|assumption].
      apply Utf8_ascii. constructor; [lia|assumption].
  - pose proof (wf_seq_len _ _ W) as L. rewrite app_length in Hf.
    destruct f as [|f]; [lia|].
    destruct (IH f t ltac:(lia)) as (I1 & I2 & I3).
    rewrite (esc_loop_seq _ _ _ _ W).
    destruct ((c =? 8232) || (c =? 8233)) eqn:E.
    + destruct (wf_seq_2028 _ _ W E) as (X & Y & Z).
      destruct (hexd_ok (c mod 16) Y) as (H1 & H2 & H3).
      destruct (u_unesc 50 48 50 (hexd (c mod 16)) (esc_loop f r ++ 34 :: t)) as [A B].
      * rewrite H1. reflexivity.
      * rewrite Z. unfold in_rng. lia.
      * cbn [app] in *. rewrite A, B, I1, I2, Z, <- X. cbn. repeat split.
        apply (Utf8_app [92; 117; 50; 48; 50; hexd (c mod 16)]); [|assumption].
        apply Utf8_ascii. repeat constructor; lia.
    + rewrite <- app_assoc.
      pose proof (high_plain _ (wf_seq_high _ _ W)) as P.
      rewrite plains_unesc, plains_p_chars, I1, I2 by assumption. cbn. repeat split.
      econstructor; eauto.
Qed.
