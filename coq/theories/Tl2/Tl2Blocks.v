(** Presence blocks and object bodies of the TL2 reader: which byte layouts the reader accepts
    for a list of field payloads (including non-minimal ones: explicit zero blocks, free bits
    beyond the known fields, bytes after the last known field, both spellings of a size), and
    that the writer's layout (trailing empty blocks trimmed) is one of them. *)
From Coq Require Import ZArith Lia ZifyN ZifyNat ZifyBool.
From TLV Require Import Prim.PrimModel Prim.PrimProofs Tl1.Tl1Model Tl1.Tl1Proofs Tl2.Tl2Model.
Ltac Zify.zify_post_hook ::= Z.div_mod_to_equations.
Open Scope N_scope.

(** * sizes: both accepted spellings of a size *)
Definition size_enc (n : N) (sb : bytes) : Prop :=
  n <= maxInt /\ (sb = size2_w n \/ sb = hugeStringMarker :: le_bytes 8 n).

Lemma size_enc_canon n : n <= maxInt -> size_enc n (size2_w n).
Proof. intros H. split; [exact H|now left]. Qed.

Lemma size_enc_r n sb r : size_enc n sb -> size2_r (sb ++ r) = Ok (n, r).
Proof.
  intros [Hn [->| ->]].
  - now apply size2_roundtrip.
  - rewrite <- app_comm_cons. now apply size2_huge_accepted.
Qed.

Lemma size_enc_nonempty n sb : size_enc n sb -> sb <> [].
Proof.
  intros [_ [->| ->]]; [|discriminate].
  unfold size2_w. destruct (n <? mediumStringMarker); [discriminate|].
  destruct (n <? mediumStringMarker + 65536); discriminate.
Qed.

(** * one block of fields *)
Section Items.
  Variable rec : nat -> bytes -> d2.
  Variable dfl : nat -> option value.
  Variable empt : nat -> bool.
  Variable bitf : nat -> bool.

  (** [items_ok i g its nvs]: field by field, reading field [g_j] (index [i+j]) with its bit
      = [is_some its_j] from [payload its_j ++ tail] yields [nvs_j] and leaves [tail] *)
  Inductive items_ok : nat -> list field -> list (option bytes) -> list (option value) -> Prop :=
  | io_nil i : items_ok i [] [] []
  | io_cons i fd g it its nv nvs :
      (forall tail, dec_item rec dfl empt bitf fd i (is_some it) (payload it ++ tail) = Some (Ok (nv, tail))) ->
      items_ok (S i) g its nvs ->
      items_ok i (fd :: g) (it :: its) (nv :: nvs).

  Lemma items_ok_length i g its nvs : items_ok i g its nvs -> length g = length its /\ length g = length nvs.
  Proof. induction 1; cbn [length]; [split; reflexivity|]. destruct IHitems_ok. split; congruence. Qed.

  Lemma items_ok_firstn n : forall i g its nvs, items_ok i g its nvs ->
    items_ok i (firstn n g) (firstn n its) (firstn n nvs).
  Proof.
    induction n as [|n IH]; intros i g its nvs H; [constructor|].
    destruct H; cbn [firstn]; [constructor|]. constructor; [assumption|]. now apply IH.
  Qed.

  Lemma items_ok_skipn n : forall i g its nvs, items_ok i g its nvs ->
    items_ok (i + Nat.min n (length g)) (skipn n g) (skipn n its) (skipn n nvs).
  Proof.
    induction n as [|n IH]; intros i g its nvs H.
    - cbn [skipn Nat.min]. now rewrite Nat.add_0_r.
    - destruct H; cbn [skipn length Nat.min].
      + rewrite Nat.add_0_r. constructor.
      + replace (i + S (Nat.min n (length g)))%nat with (S i + Nat.min n (length g))%nat by lia. now apply IH.
  Qed.

  (** the bits of [block] from [k] on say which items are present; other bits are free *)
  Definition bits_match (block : N) (k : N) (its : list (option bytes)) : Prop :=
    forall j, (j < length its)%nat -> N.testbit block (k + N.of_nat j) = is_some (nth j its None).

  Lemma bits_match_tail block k it its :
    bits_match block k (it :: its) -> N.testbit block k = is_some it /\ bits_match block (k + 1) its.
  Proof.
    intros H. split.
    - specialize (H 0%nat ltac:(cbn; lia)). cbn [nth N.of_nat] in H. now rewrite N.add_0_r in H.
    - intros j Hj. specialize (H (S j) ltac:(cbn [length]; lia)). cbn [nth] in H.
      rewrite <- H. f_equal. lia.
  Qed.

  Lemma items_rt : forall g i its nvs k block tail,
    items_ok i g its nvs -> bits_match block k its ->
    dec_items rec dfl empt bitf g k i block (concat (map payload its) ++ tail) = Some (Ok (nvs, tail)).
  Proof.
    induction g as [|fd g IH]; intros i its nvs k block tail H Hb;
      inversion H as [|i' fd' g' it its' nv nvs' Hstep Hrest]; subst.
    - reflexivity.
    - apply bits_match_tail in Hb as [Hb0 Hb1].
      cbn [dec_items map concat]. rewrite Hb0, <- app_assoc, Hstep.
      now rewrite (IH _ _ _ _ _ _ Hrest Hb1).
  Qed.

  (** * the blocks after the first *)
  (** admissible layouts of the remaining blocks [gs] (items per block): everything written
      (then anything may follow: fields of a newer schema), or cut where all remaining blocks are
      empty, or one more block: its byte (bits beyond the block's fields are free) and payloads *)
  Inductive gcode : list (list (option bytes)) -> bytes -> Prop :=
  | gc_done junk : gcode [] junk
  | gc_cut gs : Forall (fun g => group_empty g = true) gs -> gcode gs []
  | gc_cons g gs blk tail : bits_match blk 0 g -> gcode gs tail ->
      gcode (g :: gs) (blk :: concat (map payload g) ++ tail).

  Inductive groups_ok : nat -> list (list field) -> list (list (option bytes)) -> list (list (option value)) -> Prop :=
  | go_nil i : groups_ok i [] [] []
  | go_cons i g gs its itss nvs nvss :
      items_ok i g its nvs -> groups_ok (i + length g) gs itss nvss ->
      groups_ok i (g :: gs) (its :: itss) (nvs :: nvss).

  Lemma group_empty_payload g : group_empty g = true -> concat (map payload g) = [].
  Proof.
    induction g as [|o g IH]; [reflexivity|]. cbn [group_empty forallb map concat].
    intros H. apply andb_true_iff in H as [Ho Hg]. destruct o; [discriminate|]. now apply IH.
  Qed.

  Lemma group_empty_bits g : group_empty g = true -> bits_match 0 0 g.
  Proof.
    intros H j Hj. rewrite N.bits_0. unfold group_empty in H. rewrite forallb_forall in H.
    specialize (H (nth j g None) (nth_In _ _ Hj)). now destruct (nth j g None).
  Qed.

  Lemma groups_rt : forall gs i itss nvss cur,
    groups_ok i gs itss nvss -> gcode itss cur ->
    dec_groups rec dfl empt bitf gs i cur = Some (Ok (concat nvss)).
  Proof.
    induction gs as [|g gs IH]; intros i itss nvss cur H Hc;
      inversion H as [|i' g' gs' its itss' nvs nvss' Hit Hrest]; subst; [reflexivity|].
    cbn [dec_groups concat].
    inversion Hc as [|gs0 Hall|g0 gs0 blk tail Hbits Htail]; subst.
    - (* cut: nothing left, this and all later blocks are empty *)
      apply Forall_cons_iff in Hall as [He Hr]. cbn [fst snd].
      pose proof (items_rt g i its nvs 0 0 [] Hit (group_empty_bits _ He)) as Hi.
      rewrite (group_empty_payload _ He) in Hi. cbn [app] in Hi. rewrite Hi.
      now rewrite (IH _ _ _ [] Hrest (gc_cut _ Hr)).
    - cbn [fst snd]. rewrite (items_rt g i its nvs 0 blk tail Hit Hbits).
      now rewrite (IH _ _ _ tail Hrest Htail).
  Qed.
End Items.

(** the writer's trimming is one of the admissible layouts *)
Lemma bits_match_bits_val g : bits_match (bits_val (map is_some g)) 0 g.
Proof.
  intros j Hj. rewrite N.add_0_l, testbit_bits_val.
  rewrite <- (map_nth is_some g None j). reflexivity.
Qed.

Lemma trim_nil gs : trim gs = [] -> Forall (fun g => group_empty g = true) gs.
Proof.
  induction gs as [|g gs IH]; [constructor|]. cbn [trim].
  destruct (trim gs) eqn:E; [|discriminate].
  destruct (group_empty g) eqn:Eg; [|discriminate]. intros _. constructor; auto.
Qed.

Lemma trim_gcode gs : gcode gs (concat (map enc_group (trim gs))).
Proof.
  induction gs as [|g gs IH]; [constructor|].
  cbn [trim]. destruct (trim gs) as [|g1 r1] eqn:E.
  - destruct (group_empty g) eqn:Eg.
    + cbn [map concat]. apply gc_cut. constructor; [exact Eg|now apply trim_nil].
    + cbn [map concat]. unfold enc_group at 1. rewrite app_nil_r.
      replace (concat (map payload g)) with (concat (map payload g) ++ []) by apply app_nil_r.
      apply gc_cons; [apply bits_match_bits_val|]. apply gc_cut. now apply trim_nil.
  - cbn [map concat] in *. unfold enc_group at 1. rewrite <- app_comm_cons.
    apply gc_cons; [apply bits_match_bits_val|exact IH].
Qed.

(** * chunking *)
Lemma chunk8_nil {A} fuel : @chunk8 A fuel [] = [].
Proof. destruct fuel; reflexivity. Qed.

Lemma chunk8_concat {A} : forall fuel (l : list A), (length l <= fuel)%nat -> concat (chunk8 fuel l) = l.
Proof.
  induction fuel as [|f IH]; intros l H.
  - destruct l; [reflexivity|cbn in H; lia].
  - destruct l as [|a l]; [reflexivity|].
    cbn [chunk8 concat]. rewrite IH.
    + apply firstn_skipn.
    + rewrite skipn_length. cbn [length] in *. lia.
Qed.

Lemma chunk8_all_empty fuel : forall l, (length l <= fuel)%nat ->
  Forall (fun g => group_empty g = true) (chunk8 fuel l) -> forallb (fun o => negb (is_some o)) l = true.
Proof.
  induction fuel as [|f IH]; intros l H HF.
  - destruct l; [reflexivity|cbn in H; lia].
  - destruct l as [|a l]; [reflexivity|].
    cbn [chunk8] in HF. apply Forall_cons_iff in HF as [H1 H2].
    rewrite <- (firstn_skipn 8 (a :: l)), forallb_app. apply andb_true_iff. split; [exact H1|].
    apply IH; [|exact H2]. rewrite skipn_length. cbn [length] in *. lia.
Qed.

Section Body.
  Variable rec : nat -> bytes -> d2.
  Variable dfl : nat -> option value.
  Variable empt : nat -> bool.

  Lemma chunk_groups_ok bitf : forall fuel i g its nvs,
    items_ok rec dfl empt bitf i g its nvs ->
    groups_ok rec dfl empt bitf i (chunk8 fuel g) (chunk8 fuel its) (chunk8 fuel nvs).
  Proof.
    induction fuel as [|f IH]; intros i g its nvs H; [constructor|].
    destruct H as [i|i fd g it its nv nvs Hs Hr]; [constructor|].
    cbn [chunk8]. constructor.
    - apply items_ok_firstn. now constructor.
    - rewrite firstn_length. apply IH. apply (items_ok_skipn rec dfl empt bitf 8 i (fd :: g) (it :: its) (nv :: nvs)).
      now constructor.
  Qed.

  (** admissible layouts of a non-empty object body: first block, optional index, the first
      7 fields, then the remaining blocks *)
  Definition bcode (oi : option N) (g0 : list (option bytes)) (gs : list (list (option bytes))) (body : bytes) : Prop :=
    exists blk ib tail,
      body = blk :: ib ++ concat (map payload g0) ++ tail /\
      match oi with
      | None => N.testbit blk 0 = false /\ ib = []
      | Some i => N.testbit blk 0 = true /\ size_enc i ib
      end /\
      bits_match blk 1 g0 /\ gcode gs tail.

  Lemma body_rt get oi idx fds bitf items nvs body :
    items_ok rec dfl empt bitf 0 fds items nvs ->
    get oi = Some (idx, fds, bitf) ->
    bcode oi (firstn 7 items) (chunk8 (length (skipn 7 items)) (skipn 7 items)) body ->
    dec_body rec dfl empt get body = Some (Ok (idx, nvs)).
  Proof.
    intros Hit Hget (blk & ib & tail & -> & Hoi & Hbits & Hg).
    unfold dec_body.
    assert (Hhead : (if N.testbit blk 0
                     then match size2_r (ib ++ concat (map payload (firstn 7 items)) ++ tail) with
                          | Ok (i, r) => Ok (Some i, r) | _ => Reject end
                     else Ok (None, ib ++ concat (map payload (firstn 7 items)) ++ tail))
                    = Ok (oi, concat (map payload (firstn 7 items)) ++ tail)).
    { destruct oi as [i|]; destruct Hoi as [Hb Hi]; rewrite Hb.
      - now rewrite (size_enc_r _ _ _ Hi).
      - now subst ib. }
    rewrite Hhead, Hget.
    pose proof (items_ok_length _ _ _ _ _ _ _ _ Hit) as [Hl1 Hl2].
    rewrite (items_rt rec dfl empt bitf _ 0 _ (firstn 7 nvs) 1 blk tail (items_ok_firstn _ _ _ _ 7 _ _ _ _ Hit) Hbits).
    pose proof (items_ok_skipn rec dfl empt bitf 7 _ _ _ _ Hit) as Hsk.
    pose proof (chunk_groups_ok bitf (length (skipn 7 fds)) _ _ _ _ Hsk) as Hgr.
    assert (Hlen : length (skipn 7 items) = length (skipn 7 fds)) by (rewrite !skipn_length; lia).
    assert (Hlen2 : length (skipn 7 nvs) = length (skipn 7 fds)) by (rewrite !skipn_length; lia).
    rewrite Hlen in Hg.
    assert (Hidx : (0 + Nat.min 7 (length fds))%nat = 7%nat \/ skipn 7 fds = []).
    { destruct (Nat.le_gt_cases 7 (length fds)); [left; lia|right; apply skipn_all2; lia]. }
    destruct Hidx as [Hidx|Hnil].
    - rewrite Hidx in Hgr. rewrite (groups_rt rec dfl empt bitf _ 7 _ _ tail Hgr Hg).
      rewrite chunk8_concat by lia. now rewrite firstn_skipn.
    - rewrite Hnil in *. cbn [length chunk8] in *.
      assert (skipn 7 nvs = []) as Hn by (apply length_zero_iff_nil; exact Hlen2).
      cbn [dec_groups]. rewrite <- (firstn_skipn 7 nvs) at 2. now rewrite Hn.
  Qed.
End Body.

(** the body the writer produces is admissible, or empty when nothing is present *)
Lemma trim_cons g gs : trim (g :: gs) = [] \/ trim (g :: gs) = g :: trim gs.
Proof.
  cbn [trim]. destruct (trim gs) eqn:E; [|now right].
  destruct (group_empty g); [now left|now right].
Qed.

Lemma body_of_cases idx items :
  idx <= maxInt ->
  (body_of idx items = [] /\ idx = 0 /\ forallb (fun o => negb (is_some o)) items = true) \/
  (body_of idx items <> [] /\
   bcode (if idx =? 0 then None else Some idx) (firstn 7 items)
         (chunk8 (length (skipn 7 items)) (skipn 7 items)) (body_of idx items)).
Proof.
  intros Hidx. unfold body_of.
  set (g0 := idx_slot idx :: firstn 7 items). set (tl := skipn 7 items).
  destruct (trim_cons g0 (chunk8 (length tl) tl)) as [E|E]; rewrite E.
  - left. split; [reflexivity|].
    apply trim_nil in E. apply Forall_cons_iff in E as [E0 Er].
    unfold g0 in E0. cbn [group_empty forallb] in E0. apply andb_true_iff in E0 as [Ei E7].
    unfold idx_slot in Ei. destruct (idx =? 0) eqn:Ez; [|discriminate]. split; [lia|].
    rewrite <- (firstn_skipn 7 items), forallb_app. apply andb_true_iff. split; [exact E7|].
    apply (chunk8_all_empty (length tl) tl); [lia|exact Er].
  - right. split; [discriminate|].
    cbn [map concat]. unfold enc_group at 1. unfold g0 at 1 2. cbn [map concat].
    exists (bits_val (is_some (idx_slot idx) :: map is_some (firstn 7 items))), (payload (idx_slot idx)),
           (concat (map enc_group (trim (chunk8 (length tl) tl)))).
    split; [cbn [app]; now rewrite <- app_assoc|]. split; [|split].
    + unfold idx_slot. destruct (idx =? 0) eqn:Ez; cbn [is_some payload bits_val].
      * split; [|reflexivity]. rewrite N.add_0_l. apply N.testbit_even_0.
      * split; [rewrite N.add_comm; apply N.testbit_odd_0|]. apply size_enc_canon. exact Hidx.
    + intros j Hj.
      replace (1 + N.of_nat j) with (N.of_nat (S j)) by lia.
      rewrite testbit_bits_val. cbn [nth]. rewrite <- (map_nth is_some (firstn 7 items) None j). reflexivity.
    + apply trim_gcode.
Qed.
