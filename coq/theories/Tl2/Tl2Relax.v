(** C13 -- the admissible (non-minimal / evolved) TL2 encodings of a value as a relation [R],
    that the reader decodes every one of them to the normal form of the value ([R_dec_all]) and
    that what the writer produces is one of them ([enc2_R_all]). *)
From Coq Require Import ZArith Lia ZifyN ZifyNat ZifyBool.
From TLV Require Import Prim.PrimModel Prim.PrimProofs Tl1.Tl1Model Tl1.Tl1Proofs Tl2.Tl2Model Tl2.Tl2Blocks Tl2.Tl2Proofs.
Ltac Zify.zify_post_hook ::= Z.div_mod_to_equations.
Open Scope N_scope.

(** * The encodings the TL2 reader accepts for a value ("admissible re-encodings"), as a
    relation defined by recursion on the value.  At every nesting level independently:
    either spelling of every size (object size, variant index, element count, string length);
    a non-optional field written although it holds the default; presence blocks written
    although empty (instead of trimming); an explicit variant index 0; bits and bytes of
    unknown (newer) fields after the last known field of an object and after the last element of
    an array; trailing default elements of a fixed-size tuple cut; any non-zero byte for true. *)

Definition prim_R (p : prim) (v : value) (b : bytes) : Prop :=
  match p, v with
  | PNat, VNum n | PInt, VNum n | PFloat, VNum n => n < 4294967296 /\ b = le_bytes 4 n
  | PLong, VNum n | PDouble, VNum n => n < 18446744073709551616 /\ b = le_bytes 8 n
  | PString, VStr str => exists sb, size_enc (lenN str) sb /\ b = sb ++ str
  | PBool _ _, VBool bv => exists y, b = [y] /\ bv = negb (y =? 0)
  | _, _ => False
  end.

Section Renc.
  Variable s : schema.
  Variable x : tl2x.

  Section Items.
    Variable rrec : nat -> bool -> value -> bytes -> Prop.
    Variable bitf : nat -> bool.

    Definition ritem (i : nat) (fd : field) (ov : option value) (it : option bytes) : Prop :=
      if masked fd then
        match ov with
        | None => it = None
        | Some v =>
            if bitf i then v = VStruct [] /\ it = Some []
            else exists p, it = Some p /\ rrec (f_ty fd) false v p
        end
      else
        match ov with
        | None => False
        | Some v =>
            if is_empty_struct s (f_ty fd) then
              v = VStruct [] /\ (it = None \/ exists sb blob, it = Some (sb ++ blob) /\ size_enc (lenN blob) sb)
            else (it = None /\ enc2 s x (f_ty fd) true v = Some []) \/ (exists p, it = Some p /\ rrec (f_ty fd) true v p)
        end.

    Fixpoint ritems (i : nat) (fds : list field) (vs : list (option value)) (items : list (option bytes)) {struct vs} : Prop :=
      match fds, vs, items with
      | [], [], [] => True
      | fd :: fds', ov :: vs', it :: its' => ritem i fd ov it /\ ritems (S i) fds' vs' its'
      | _, _, _ => False
      end.
  End Items.

  (** body of an object with variant index [idx] *)
  Definition obody (idx : N) (items : list (option bytes)) (body : bytes) : Prop :=
    idx <= maxInt /\
    ((body = [] /\ idx = 0 /\ forallb (fun o => negb (is_some o)) items = true) \/
     exists oi, (oi = Some idx \/ (idx = 0 /\ oi = None)) /\
                bcode oi (firstn 7 items) (chunk8 (length (skipn 7 items)) (skipn 7 items)) body).

  Section Elems.
    Variable rrec : value -> bytes -> Prop.
    Fixpoint relems (es : list value) (ebs : list bytes) {struct es} : Prop :=
      match es, ebs with
      | [], [] => True
      | e :: es', eb :: ebs' => rrec e eb /\ relems es' ebs'
      | _, _ => False
      end.

    (** fixed tuples: [None] = element not written (allowed for a suffix of default elements) *)
    Variable isdef : value -> Prop.
    Fixpoint relems_opt (es : list value) (obs : list (option bytes)) {struct es} : Prop :=
      match es, obs with
      | [], [] => True
      | e :: es', ob :: obs' =>
          (match ob with Some eb => rrec e eb | None => isdef e end) /\ relems_opt es' obs'
      | _, _ => False
      end.
  End Elems.

  (** element count, elements, then anything *)
  Definition abody (n : N) (ebs : list bytes) (body : bytes) : Prop :=
    (body = [] /\ n = 0) \/
    exists cb junk, size_enc n cb /\ body = cb ++ concat ebs ++ junk.

  Fixpoint R (t : nat) (ze : bool) (v : value) (b : bytes) {struct v} : Prop :=
    match nth_error s t with
    | None => False
    | Some (TPrim p) => prim_R p (norm_prim p ze v) b
    | Some (TStruct _ fds) =>
        match v with
        | VStruct fs =>
            if x_alias x t then
              match fds, fs with
              | [fd], [Some v'] => R (f_ty fd) ze v' b
              | _, _ => False
              end
            else
              exists items sb body,
                ritems (fun t' ze' v' b' => R t' ze' v' b') (x_bit x t) 0 fds fs items /\
                obody (x_uidx x t) items body /\ size_enc (lenN body) sb /\ b = sb ++ body
        | _ => False
        end
    | Some (TUnion vars) =>
        match v with
        | VUnion idx fs =>
            match nth_error vars idx with
            | Some vt =>
                match nth_error s vt with
                | Some (TStruct _ fds) =>
                    exists items sb body,
                      ritems (fun t' ze' v' b' => R t' ze' v' b') (x_bit x vt) 0 fds fs items /\
                      obody (N.of_nat idx) items body /\ size_enc (lenN body) sb /\ b = sb ++ body
                | _ => False
                end
            | None => False
            end
        | _ => False
        end
    | Some (TArray k ef) =>
        match v with
        | VArr es =>
            exists sb body, size_enc (lenN body) sb /\ b = sb ++ body /\
              match k with
              | ATupleFixed c =>
                  lenN es = c /\
                  exists ebs1 k0,
                    relems_opt (fun e eb => R (f_ty ef) false e eb)
                               (fun e => exists d, dflt s (f_ty ef) = Some d /\ norm2 s x (f_ty ef) false e = d)
                               es (map Some ebs1 ++ repeat None k0) /\
                    abody (lenN ebs1) ebs1 body
              | _ => exists ebs, relems (fun e eb => R (f_ty ef) false e eb) es ebs /\ abody (lenN es) ebs body
              end
        | _ => False
        end
    | Some (TDict kp ef) =>
        match v with
        | VArr es =>
            keys_sorted kp es = true /\
            exists sb body ebs, size_enc (lenN body) sb /\ b = sb ++ body /\
              relems (fun e eb => R (f_ty ef) false e eb) es ebs /\ abody (lenN es) ebs body
        | _ => False
        end
    end.
End Renc.

Lemma le_bytes_nonempty k n : (0 < k)%nat -> le_bytes k n <> [].
Proof. destruct k; [lia|]. discriminate. Qed.

Lemma prim_R_dec p v b : prim_R p v b ->
  b <> [] /\ forall rest, dec_prim2 p (b ++ rest) = Ok (v, rest).
Proof.
  destruct p as [| | | | | |ft tt|]; destruct v as [n|str|bv|fs|ix fs|es]; cbn [prim_R]; try tauto.
  1-3: (intros [Hn ->]; split; [discriminate|]; intros rest; cbn [dec_prim2];
        pose proof (nat_roundtrip n rest ltac:(cbn; lia)) as Hr; unfold nat_w in Hr; now rewrite Hr).
  1-2: (intros [Hn ->]; split; [discriminate|]; intros rest; cbn [dec_prim2];
        pose proof (long_roundtrip n rest ltac:(cbn; lia)) as Hr; unfold long_w in Hr; now rewrite Hr).
  - intros (sb & Hs & ->). split.
    + intros E. apply app_eq_nil in E as [E _]. exact (size_enc_nonempty _ _ Hs E).
    + intros rest. cbn [dec_prim2]. unfold str2_r. rewrite <- app_assoc, (size_enc_r _ _ _ Hs).
      rewrite lenN_app. destruct (lenN str + lenN rest <? lenN str) eqn:E; [lia|].
      now rewrite firstn_lenN_app, skipn_lenN_app.
  - intros (y & -> & ->). split; [discriminate|]. intros rest. reflexivity.
Qed.

Lemma skip_blob sb blob tail : size_enc (lenN blob) sb -> skip_sized ((sb ++ blob) ++ tail) = Ok tail.
Proof.
  intros Hs. unfold skip_sized. rewrite <- app_assoc, (size_enc_r _ _ _ Hs).
  rewrite lenN_app. destruct (lenN blob + lenN tail <? lenN blob) eqn:E; [lia|]. now rewrite skipn_lenN_app.
Qed.

Lemma default2_empty_struct s t f d : is_empty_struct s t = true -> default2 f s t = Some d -> d = VStruct [].
Proof.
  unfold is_empty_struct. intros He H. destruct f; [discriminate|]. cbn [default2] in H.
  destruct (nth_error s t) as [[| tag [|]| | |]|]; try discriminate. cbn in H. now injection H as <-.
Qed.

Section RDec.
  Variable s : schema.
  Variable x : tl2x.
  Hypothesis Hwf : wf2 s x = true.
  Notation Rr := (fun t' ze' v' b' => R s x t' ze' v' b').
  Notation nrm := (fun t' ze' v' => norm2 s x t' ze' v').

  Definition PR (v : value) : Prop := forall t ze b, R s x t ze v b ->
    b <> [] /\ forall fuel rest, (vdepth v <= fuel)%nat ->
      dec2 fuel s x t (b ++ rest) = Some (Ok (norm2 s x t ze v, rest)).

  Lemma rfield_step fuel bitf i fd ov it :
    Popt PR ov ->
    match ov with Some v => (vdepth v <= fuel)%nat | None => True end ->
    bitf i = masked fd && is_empty_struct s (f_ty fd) ->
    ritem s x Rr bitf i fd ov it ->
    forall tail, dec_item (dec2 fuel s x) (dflt s) (is_empty_struct s) bitf fd i (is_some it) (payload it ++ tail)
                 = Some (Ok (nv_of s x fd ov, tail)).
  Proof.
    intros HP Hd Hbit Hr tail. unfold ritem in Hr. unfold dec_item, nv_of.
    destruct (masked fd) eqn:Em; cbn [andb negb] in *.
    - destruct ov as [v|].
      + destruct (bitf i) eqn:Eb.
        * destruct Hr as [-> ->]. cbn [is_some payload app]. now rewrite norm_empty_value.
        * rewrite <- Hbit. destruct Hr as (p & -> & Hp). cbn [is_some payload].
          cbn [Popt] in HP. destruct (HP _ _ _ Hp) as [_ H2]. now rewrite (H2 fuel tail Hd).
      + subst it. cbn [is_some payload app]. destruct (bitf i); [reflexivity|]. now rewrite <- Hbit.
    - rewrite Hbit. destruct ov as [v|]; [|destruct Hr].
      destruct (is_empty_struct s (f_ty fd)) eqn:Ee.
      + destruct Hr as [-> [->|(sb & blob & -> & Hs)]]; rewrite norm_empty_value; cbn [is_some payload].
        * reflexivity.
        * now rewrite (skip_blob _ _ tail Hs).
      + destruct Hr as [[-> He]|(p & -> & Hp)]; cbn [is_some payload].
        * cbn [app]. destruct (enc2_dec2_all s x Hwf v _ _ _ He) as [H1 _]. destruct (H1 eq_refl) as [_ Hdf].
          destruct (enc2_dflt s x Hwf _ _ _ _ He) as [d Hd0]. rewrite Hd0. now rewrite (Hdf _ _ Hd0).
        * cbn [Popt] in HP. destruct (HP _ _ _ Hp) as [_ H2]. now rewrite (H2 fuel tail Hd).
  Qed.

  Lemma rfields_rt fuel bitf : forall vs fds i items,
    Forall (Popt PR) vs ->
    (forall v, In (Some v) vs -> (vdepth v <= fuel)%nat) ->
    bits_ok s bitf i fds = true ->
    ritems s x Rr bitf i fds vs items ->
    items_ok (dec2 fuel s x) (dflt s) (is_empty_struct s) bitf i fds items (norm_fields nrm fds vs).
  Proof.
    induction vs as [|ov vs IH]; intros fds i items HF Hd Hb H.
    - destruct fds; [|destruct H]. destruct items; [|destruct H]. constructor.
    - destruct fds as [|fd fds]; [destruct H|]. destruct items as [|it its]; [destruct H|].
      destruct H as [Hi Hr].
      apply Forall_cons_iff in HF as [HP HF].
      cbn [bits_ok] in Hb. apply andb_true_iff in Hb as [Hb0 Hb1]. apply Bool.eqb_prop in Hb0.
      cbn [norm_fields]. constructor.
      + apply (rfield_step fuel bitf i fd ov it HP); [|exact Hb0|exact Hi].
        destruct ov as [v|]; [|exact I]. apply Hd. now left.
      + apply IH; auto. intros v Hv. apply Hd. now right.
  Qed.

  Lemma rfields_absent bitf : forall vs fds i items f l,
    ritems s x Rr bitf i fds vs items ->
    forallb (fun o => negb (is_some o)) items = true ->
    default_fields (default2 f s) fds = Some l ->
    norm_fields nrm fds vs = l.
  Proof.
    induction vs as [|ov vs IH]; intros fds i items f l H Hall Hdf.
    - destruct fds; [|destruct H]. cbn [default_fields] in Hdf. now injection Hdf as <-.
    - destruct fds as [|fd fds]; [destruct H|]. destruct items as [|it its]; [destruct H|].
      destruct H as [Hi Hr].
      cbn [forallb] in Hall. apply andb_true_iff in Hall as [Hit Hall].
      destruct it; [discriminate|].
      cbn [default_fields] in Hdf.
      destruct (default_fields (default2 f s) fds) as [l'|] eqn:El.
      2:{ destruct (masked fd); [discriminate|]. destruct (default2 f s (f_ty fd)); discriminate. }
      cbn [norm_fields]. rewrite (IH fds (S i) its f l' Hr Hall El).
      unfold ritem in Hi. destruct (masked fd) eqn:Em.
      + cbn [bind_opt] in Hdf. injection Hdf as <-.
        destruct ov as [v|]; [|reflexivity].
        destruct (bitf i); [destruct Hi; discriminate|]. destruct Hi as (p & Hp & _). discriminate.
      + destruct ov as [v|]; [|destruct Hi].
        destruct (default2 f s (f_ty fd)) as [d|] eqn:Ed; [|discriminate].
        cbn [bind_opt] in Hdf. injection Hdf as <-. cbn [negb].
        destruct (is_empty_struct s (f_ty fd)) eqn:Ee.
        * destruct Hi as [-> _]. rewrite norm_empty_value. now rewrite (default2_empty_struct s _ f d Ee Ed).
        * destruct Hi as [[_ He]|(p & Hp & _)]; [|discriminate].
          destruct (enc2_dec2_all s x Hwf v _ _ _ He) as [H1 _]. destruct (H1 eq_refl) as [_ Hd].
          now rewrite (Hd _ _ Ed).
  Qed.

  (** object level *)
  Lemma robj_P (mk : N -> list (option value) -> value) fds fs bitf idx items sb body get idx' dv :
    Forall (Popt PR) fs -> bits_ok s bitf 0 fds = true ->
    ritems s x Rr bitf 0 fds fs items -> obody idx items body -> size_enc (lenN body) sb ->
    (forall oi, oi = Some idx \/ (idx = 0 /\ oi = None) -> get oi = Some (idx', fds, bitf)) ->
    (forall d0, dv = Some d0 -> idx = 0 ->
        (forall f l, default_fields (default2 f s) fds = Some l -> norm_fields nrm fds fs = l) ->
        mk idx' (norm_fields nrm fds fs) = d0) ->
    is_some dv = true ->
    forall fuel rest, (forall v, In (Some v) fs -> (vdepth v <= fuel)%nat) ->
      dec_obj (dec2 fuel s x) (dflt s) (is_empty_struct s) get dv mk ((sb ++ body) ++ rest)
      = Some (Ok (mk idx' (norm_fields nrm fds fs), rest)).
  Proof.
    intros HF Hb Hr [Hi [(-> & Ez & Hall)|(oi & Hoi & Hc)]] Hs Hg Hdv Hsome fuel rest Hd.
    - unfold dec_obj. rewrite app_nil_r, (size_enc_r _ _ _ Hs). cbn [lenN length N.of_nat]. rewrite N.eqb_refl.
      destruct dv as [d0|]; [|discriminate].
      rewrite (Hdv d0 eq_refl Ez (fun f l Hl => rfields_absent bitf fs fds 0%nat items f l Hr Hall Hl)). reflexivity.
    - assert (Hne : body <> []) by (destruct Hc as (blk & ib & tail & -> & _); discriminate).
      unfold dec_obj. rewrite <- app_assoc, (size_enc_r _ _ _ Hs).
      rewrite lenN_nonzero by exact Hne. rewrite hdr_len, firstn_lenN_app, skipn_lenN_app.
      now rewrite (body_rt _ _ _ get _ idx' fds bitf items _ _
                     (rfields_rt fuel bitf fs fds 0%nat items HF Hd Hb Hr) (Hg oi Hoi) Hc).
  Qed.
End RDec.

(** elements *)
Lemma relems_rt (rr : value -> bytes -> Prop) (drec : bytes -> d2) (nf : value -> value) : forall es ebs tail,
  Forall (fun e => forall b, rr e b -> forall rest, drec (b ++ rest) = Some (Ok (nf e, rest))) es ->
  relems rr es ebs ->
  dec_elems2 drec (length es) (concat ebs ++ tail) = Some (Ok (map nf es, tail)).
Proof.
  induction es as [|e es IH]; intros ebs tail HF H.
  - destruct ebs; [reflexivity|destruct H].
  - destruct ebs as [|eb ebs]; [destruct H|]. destruct H as [He Hr].
    apply Forall_cons_iff in HF as [H1 HF].
    cbn [length dec_elems2 map concat]. rewrite <- app_assoc, (H1 _ He), (IH _ _ HF Hr). reflexivity.
Qed.

Lemma relems_len (rr : value -> bytes -> Prop) : forall es ebs,
  (forall e b, In e es -> rr e b -> b <> []) -> relems rr es ebs ->
  lenN es <= lenN (concat ebs) /\ length ebs = length es.
Proof.
  induction es as [|e es IH]; intros ebs Hne H.
  - destruct ebs; [|destruct H]. split; [unfold lenN; cbn; lia|reflexivity].
  - destruct ebs as [|eb ebs]; [destruct H|]. destruct H as [He Hr].
    assert (eb <> []) by (apply (Hne e); [now left|exact He]).
    destruct (IH ebs (fun e' b' Hi => Hne e' b' (or_intror Hi)) Hr) as [I1 I2].
    cbn [concat length]. rewrite lenN_app, lenN_cons. destruct eb; [congruence|]. rewrite lenN_cons. split; lia.
Qed.

(** fixed tuples: written prefix, cut suffix *)
Lemma relems_opt_split (rr : value -> bytes -> Prop) (isdef : value -> Prop) : forall ebs1 es k0,
  relems_opt rr isdef es (map Some ebs1 ++ repeat None k0) ->
  exists es1 pad, es = es1 ++ pad /\ relems rr es1 ebs1 /\ length pad = k0 /\ Forall isdef pad.
Proof.
  induction ebs1 as [|eb ebs1 IH]; intros es k0 H.
  - cbn [map app] in H. exists [], es. split; [reflexivity|]. split; [exact I|].
    revert k0 H. induction es as [|e es IHe]; intros k0 H.
    + destruct k0; [split; [reflexivity|constructor]|destruct H].
    + destruct k0 as [|k0]; [destruct H|]. cbn [repeat] in H. destruct H as [Hd Hr].
      destruct (IHe k0 Hr) as [Hl HF]. split; [cbn [length]; lia|constructor; assumption].
  - destruct es as [|e es]; [destruct H|]. cbn [map app] in H. destruct H as [He Hr].
    destruct (IH es k0 Hr) as (es1 & pad & -> & H1 & H2 & H3).
    exists (e :: es1), pad. split; [reflexivity|]. split; [split; assumption|]. split; assumption.
Qed.

Section RMain.
  Variable s : schema.
  Variable x : tl2x.
  Hypothesis Hwf : wf2 s x = true.
  Notation Rr := (fun t' ze' v' b' => R s x t' ze' v' b').
  Notation nrm := (fun t' ze' v' => norm2 s x t' ze' v').
  Notation PR := (PR s x).

  Lemma own_fields_get' t fds oi :
    oi = Some (x_uidx x t) \/ (x_uidx x t = 0 /\ oi = None) ->
    own_fields x t fds oi = Some (x_uidx x t, fds, x_bit x t).
  Proof. intros [->|[_ ->]]; unfold own_fields; [now rewrite N.eqb_refl|reflexivity]. Qed.

  Lemma variant_fields_get' vars idx vt tag fds oi :
    nth_error vars idx = Some vt -> nth_error s vt = Some (TStruct tag fds) ->
    oi = Some (N.of_nat idx) \/ (N.of_nat idx = 0 /\ oi = None) ->
    variant_fields s x vars oi = Some (N.of_nat idx, fds, x_bit x vt).
  Proof.
    intros Hv Hs Hoi. assert (Hlt : (idx < length vars)%nat) by (apply nth_error_Some; congruence).
    unfold variant_fields.
    destruct Hoi as [->|[Hz ->]].
    - destruct (lenN vars <=? N.of_nat idx) eqn:El; [unfold lenN in El; lia|]. now rewrite Nat2N.id, Hv, Hs.
    - assert (idx = 0%nat) by lia. subst idx.
      destruct (lenN vars <=? 0) eqn:El; [unfold lenN in El; lia|]. cbn [N.to_nat N.of_nat]. now rewrite Hv, Hs.
  Qed.

  Lemma rdict_entry_key t kp ef e b :
    nth_error s t = Some (TDict kp ef) -> R s x (f_ty ef) false e b ->
    entry_key (norm2 s x (f_ty ef) false e) = entry_key e.
  Proof.
    intros Et He. destruct (wf2_lookup s x t _ Hwf Et) as [Hok _]. cbn [tydef_ok2] in Hok.
    destruct (nth_error s (f_ty ef)) as [[p|tag [|kf fds]|vars|k ef'|kp' ef']|] eqn:Ee; try discriminate.
    apply andb_true_iff in Hok as [Hok Hk]. apply andb_true_iff in Hok as [Ha Hm].
    apply negb_true_iff in Ha. apply negb_true_iff in Hm.
    destruct (nth_error s (f_ty kf)) as [[p| | | |]|] eqn:Ek; try discriminate.
    destruct e as [n|str|bv|fs|ix fs|es]; cbn [R] in He; rewrite Ee in He; try (destruct He; fail).
    rewrite Ha in He. cbn [norm2]. rewrite Ee, Ha.
    destruct He as (items & sb & body & Hri & _).
    destruct fs as [|[k|] fs]; cbn [ritems] in Hri.
    - destruct items; destruct Hri.
    - cbn [norm_fields entry_key]. rewrite Hm. cbn [negb].
      destruct k; cbn [norm2]; rewrite Ek; unfold norm_prim; destruct p; try discriminate;
        repeat match goal with |- context [if ?c then _ else _] => destruct c end; reflexivity.
    - destruct items as [|it its]; [destruct Hri|]. destruct Hri as [Hi _]. unfold ritem in Hi. rewrite Hm in Hi. destruct Hi.
  Qed.

  Theorem R_dec_all : forall v, PR v.
  Proof.
    induction v as [n|str|bv|fs IH|idx fs IH|es IH] using value_ind'; intros t ze b H.
    1-3: (cbn [R] in H; destruct (nth_error s t) as [[p|tag fds|vars|k ef|kp ef]|] eqn:Et; try (destruct H; fail);
          destruct (prim_R_dec _ _ _ H) as [Hne Hdec]; split; [exact Hne|];
          intros fuel rest Hd; (destruct fuel; [cbn in Hd; lia|]); cbn [dec2 norm2]; rewrite Et; now rewrite Hdec).
    - (* VStruct *)
      cbn [R] in H. destruct (nth_error s t) as [[p|tag fds|vars|k ef|kp ef]|] eqn:Et; try (destruct H; fail).
      { destruct (prim_R_dec _ _ _ H) as [Hne Hdec]. split; [exact Hne|].
        intros fuel rest Hd. destruct fuel; [cbn in Hd; lia|]. cbn [dec2 norm2]. rewrite Et. now rewrite Hdec. }
      destruct (wf2_lookup s x t _ Hwf Et) as [Hok Hdf]. cbn [tydef_ok2] in Hok.
      apply andb_true_iff in Hok as [Hbits Hal].
      destruct (x_alias x t) eqn:Ea.
      + destruct fds as [|fd [|]]; try (destruct H; fail). destruct fs as [|[v'|] [|]]; try (destruct H; fail).
        apply Forall_cons_iff in IH as [IH _]. cbn [Popt] in IH. destruct (IH _ _ _ H) as [Hne H2].
        split; [exact Hne|]. intros fuel rest Hd. destruct fuel; [cbn in Hd; lia|].
        cbn [dec2 norm2]. rewrite Et, Ea. rewrite (H2 fuel rest); [reflexivity|].
        apply (depth_fields [Some v'] fuel Hd). now left.
      + destruct H as (items & sb & body & Hri & Hob & Hs & ->). split.
        * intros E. apply app_eq_nil in E as [E _]. exact (size_enc_nonempty _ _ Hs E).
        * intros fuel rest Hd. destruct fuel; [cbn in Hd; lia|]. cbn [dec2 norm2]. rewrite Et, Ea.
          apply (robj_P s x Hwf (fun _ vs => VStruct vs) fds fs (x_bit x t) (x_uidx x t) items sb body
                        (own_fields x t fds) (x_uidx x t) (dflt s t) IH Hbits Hri Hob Hs).
          -- intros oi Hoi. now apply own_fields_get'.
          -- intros d0 Hd0 _ Hl. unfold dflt in Hd0. cbn [default2] in Hd0. rewrite Et in Hd0.
             destruct (default_fields (default2 (length s) s) fds) as [l|] eqn:El; [|discriminate].
             cbn [bind_opt] in Hd0. injection Hd0 as <-. now rewrite (Hl _ _ El).
          -- destruct Hdf as [Hdf|Hdf]; [exact Hdf|discriminate].
          -- exact (depth_fields fs fuel Hd).
    - (* VUnion *)
      cbn [R] in H. destruct (nth_error s t) as [[p|tag fds0|vars|k ef|kp ef]|] eqn:Et; try (destruct H; fail).
      { destruct (prim_R_dec _ _ _ H) as [Hne Hdec]. split; [exact Hne|].
        intros fuel rest Hd. destruct fuel; [cbn in Hd; lia|]. cbn [dec2 norm2]. rewrite Et. now rewrite Hdec. }
      destruct (wf2_lookup s x t _ Hwf Et) as [Hok Hdf].
      destruct (nth_error vars idx) as [vt|] eqn:Ev; [|destruct H].
      destruct (nth_error s vt) as [[p|tag fds|vars'|k ef|kp ef]|] eqn:Es; try (destruct H; fail).
      destruct (wf2_lookup s x vt _ Hwf Es) as [Hokv _]. cbn [tydef_ok2] in Hokv.
      apply andb_true_iff in Hokv as [Hbits _].
      destruct H as (items & sb & body & Hri & Hob & Hs & ->). split.
      + intros E. apply app_eq_nil in E as [E _]. exact (size_enc_nonempty _ _ Hs E).
      + intros fuel rest Hd. destruct fuel; [cbn in Hd; lia|]. cbn [dec2 norm2]. rewrite Et, Ev, Es.
        pose proof (robj_P s x Hwf (fun i vs => VUnion (N.to_nat i) vs) fds fs (x_bit x vt) (N.of_nat idx) items sb body
                      (variant_fields s x vars) (N.of_nat idx) (dflt s t) IH Hbits Hri Hob Hs) as O.
        cbv beta in O. rewrite Nat2N.id in O. apply O.
        * intros oi Hoi. now apply (variant_fields_get' vars idx vt tag fds).
        * intros d0 Hd0 Hz Hl. assert (idx = 0%nat) by lia. subst idx.
          unfold dflt in Hd0. cbn [default2] in Hd0. rewrite Et in Hd0.
          destruct vars as [|vt0 vars0]; [discriminate|]. cbn [nth_error] in Ev. injection Ev as ->.
          rewrite Es in Hd0.
          destruct (default_fields (default2 (length s) s) fds) as [l|] eqn:El; [|discriminate].
          cbn [bind_opt] in Hd0. injection Hd0 as <-. now rewrite (Hl _ _ El).
        * destruct Hdf as [Hdf|Hdf]; [exact Hdf|discriminate].
        * exact (depth_fields_u idx fs fuel Hd).
    - (* VArr *)
      cbn [R] in H. destruct (nth_error s t) as [[p|tag fds0|vars|k ef|kp ef]|] eqn:Et; try (destruct H; fail).
      { destruct (prim_R_dec _ _ _ H) as [Hne Hdec]. split; [exact Hne|].
        intros fuel rest Hd. destruct fuel; [cbn in Hd; lia|]. cbn [dec2 norm2]. rewrite Et. now rewrite Hdec. }
      + (* array *)
        destruct H as (sb & body & Hs & -> & Hk). split.
        { intros E. apply app_eq_nil in E as [E _]. exact (size_enc_nonempty _ _ Hs E). }
        intros fuel rest Hd. destruct fuel; [cbn in Hd; lia|]. cbn [dec2 norm2]. rewrite Et.
        rewrite <- app_assoc, (size_enc_r _ _ _ Hs), hdr_len, firstn_lenN_app, skipn_lenN_app.
        assert (HFe : forall es', (forall e, In e es' -> In e es) ->
                  Forall (fun e => forall b0, R s x (f_ty ef) false e b0 -> forall rest0,
                             dec2 fuel s x (f_ty ef) (b0 ++ rest0) = Some (Ok (norm2 s x (f_ty ef) false e, rest0))) es').
        { intros es' Hsub. rewrite Forall_forall in *. intros e He b0 Hb0 rest0.
          destruct (IH e (Hsub e He) _ _ _ Hb0) as [_ H2]. apply H2.
          cbn [vdepth] in Hd. pose proof (depth_elems_le es e (Hsub e He)). lia. }
        assert (Hne : forall e b0, In e es -> R s x (f_ty ef) false e b0 -> b0 <> []).
        { intros e b0 He Hb0. rewrite Forall_forall in IH. exact (proj1 (IH e He _ _ _ Hb0)). }
        destruct k as [| |c].
        * destruct Hk as (ebs & Hre & [[-> Hz]|(cb & junk & Hc & ->)]).
          -- assert (es = []) by (destruct es; [reflexivity|unfold lenN in Hz; cbn in Hz; lia]). subst es.
             cbn [lenN length N.of_nat N.eqb N.ltb N.compare N.to_nat dec_elems2 map]. reflexivity.
          -- rewrite lenN_nonzero by (intros E; apply app_eq_nil in E as [E _]; exact (size_enc_nonempty _ _ Hc E)).
             rewrite (size_enc_r _ _ _ Hc).
             destruct (relems_len _ es ebs Hne Hre) as [Hge _].
             destruct (lenN (concat ebs ++ junk) <? lenN es) eqn:E1; [rewrite lenN_app in E1; lia|].
             unfold lenN at 1. rewrite Nat2N.id.
             now rewrite (relems_rt _ _ _ es ebs junk (HFe es (fun e H => H)) Hre).
        * destruct Hk as (ebs & Hre & [[-> Hz]|(cb & junk & Hc & ->)]).
          -- assert (es = []) by (destruct es; [reflexivity|unfold lenN in Hz; cbn in Hz; lia]). subst es.
             cbn [lenN length N.of_nat N.eqb N.ltb N.compare N.to_nat dec_elems2 map]. reflexivity.
          -- rewrite lenN_nonzero by (intros E; apply app_eq_nil in E as [E _]; exact (size_enc_nonempty _ _ Hc E)).
             rewrite (size_enc_r _ _ _ Hc).
             destruct (relems_len _ es ebs Hne Hre) as [Hge _].
             destruct (lenN (concat ebs ++ junk) <? lenN es) eqn:E1; [rewrite lenN_app in E1; lia|].
             unfold lenN at 1. rewrite Nat2N.id.
             now rewrite (relems_rt _ _ _ es ebs junk (HFe es (fun e H => H)) Hre).
        * destruct Hk as (Hlen & ebs1 & k0 & Hro & Hab).
          destruct (relems_opt_split _ _ ebs1 es k0 Hro) as (es1 & pad & -> & Hre & Hpl & Hpd). subst k0.
          assert (Hsub1 : forall e, In e es1 -> In e (es1 ++ pad)) by (intros e He; apply in_or_app; now left).
          destruct (relems_len _ es1 ebs1 (fun e b0 He => Hne e b0 (Hsub1 e He)) Hre) as [Hge Hl1].
          assert (Hn1 : lenN ebs1 = lenN es1) by (unfold lenN; now rewrite Hl1).
          assert (Hc : c = lenN es1 + N.of_nat (length pad)) by (rewrite <- Hlen, lenN_app; unfold lenN; reflexivity).
          assert (Hpadn : map (fun e => norm2 s x (f_ty ef) false e) pad =
                          match dflt s (f_ty ef) with Some d => repeat d (length pad) | None => [] end /\
                          (length pad <> 0%nat -> exists d, dflt s (f_ty ef) = Some d)).
          { clear - Hpd. induction pad as [|e pad IHp].
            - split; [destruct (dflt s (f_ty ef)); reflexivity|]. cbn. congruence.
            - apply Forall_cons_iff in Hpd as [(d & Hd & Hn) Hpd]. destruct (IHp Hpd) as [I1 _].
              rewrite Hd in *. split; [|intros _; now exists d]. cbn [map length repeat]. now rewrite Hn, I1. }
          destruct Hpadn as [Hpadn Hdex]. rewrite map_app, Hpadn.
          destruct Hab as [[-> Hz]|(cb & junk & Hcb & ->)].
          -- rewrite Hn1 in Hz. assert (es1 = []) by (destruct es1; [reflexivity|unfold lenN in Hz; cbn in Hz; lia]). subst es1.
             cbn [lenN length N.of_nat] in Hc. cbn [lenN length N.of_nat N.eqb firstn N.to_nat map app].
             replace (N.min 0 c) with 0 by lia. cbn [N.to_nat dec_elems2].
             destruct (0 =? c) eqn:E0.
             ++ assert (pad = []) by (destruct pad; [reflexivity|cbn [length] in *; lia]). subst pad.
                destruct (dflt s (f_ty ef)); reflexivity.
             ++ destruct (Hdex ltac:(lia)) as [d Hd0]. rewrite Hd0. rewrite N.sub_0_r, Hc.
                cbn [N.add]. now rewrite Nat2N.id.
          -- rewrite lenN_nonzero by (intros E; apply app_eq_nil in E as [E _]; exact (size_enc_nonempty _ _ Hcb E)).
             rewrite (size_enc_r _ _ _ Hcb). rewrite Hn1.
             replace (N.min (lenN es1) c) with (lenN es1) by lia.
             unfold lenN at 1. rewrite Nat2N.id.
             rewrite (relems_rt _ _ _ es1 ebs1 junk (HFe es1 Hsub1) Hre).
             destruct (lenN es1 =? c) eqn:E0.
             ++ assert (pad = []) by (destruct pad; [reflexivity|cbn [length] in *; lia]). subst pad.
                destruct (dflt s (f_ty ef)); cbn [repeat length]; now rewrite app_nil_r.
             ++ destruct (Hdex ltac:(lia)) as [d Hd0]. rewrite Hd0.
                replace (c - lenN es1) with (N.of_nat (length pad)) by lia. now rewrite Nat2N.id.
      + (* dict *)
        destruct H as (Hsort & sb & body & ebs & Hs & -> & Hre & Hab). split.
        { intros E. apply app_eq_nil in E as [E _]. exact (size_enc_nonempty _ _ Hs E). }
        intros fuel rest Hd. destruct fuel; [cbn in Hd; lia|]. cbn [dec2 norm2]. rewrite Et.
        rewrite <- app_assoc, (size_enc_r _ _ _ Hs), hdr_len, firstn_lenN_app, skipn_lenN_app.
        assert (HFe : Forall (fun e => forall b0, R s x (f_ty ef) false e b0 -> forall rest0,
                             dec2 fuel s x (f_ty ef) (b0 ++ rest0) = Some (Ok (norm2 s x (f_ty ef) false e, rest0))) es).
        { rewrite Forall_forall in *. intros e He b0 Hb0 rest0.
          destruct (IH e He _ _ _ Hb0) as [_ H2]. apply H2.
          cbn [vdepth] in Hd. pose proof (depth_elems_le es e He). lia. }
        assert (Hne : forall e b0, In e es -> R s x (f_ty ef) false e b0 -> b0 <> []).
        { intros e b0 He Hb0. rewrite Forall_forall in IH. exact (proj1 (IH e He _ _ _ Hb0)). }
        assert (Hfold : fold_left (fun acc e => dict_insert kp e acc) (map (fun e => norm2 s x (f_ty ef) false e) es) []
                        = map (fun e => norm2 s x (f_ty ef) false e) es).
        { rewrite (dict_fold_sorted kp _ []); [reflexivity|]. cbn [app].
          rewrite keys_sorted_map; [exact Hsort|].
          intros e He. clear - Hre He Et Hwf. revert ebs Hre. induction es as [|e1 es1 IHe]; intros ebs Hre; [destruct He|].
          destruct ebs as [|eb ebs]; [destruct Hre|]. destruct Hre as [H1 Hr].
          destruct He as [->|He]; [exact (rdict_entry_key t kp ef e eb Et H1)|exact (IHe He ebs Hr)]. }
        destruct Hab as [[-> Hz]|(cb & junk & Hc & ->)].
        * assert (es = []) by (destruct es; [reflexivity|unfold lenN in Hz; cbn in Hz; lia]). subst es.
          cbn [lenN length N.of_nat N.eqb N.ltb N.compare N.to_nat dec_elems2 map fold_left]. reflexivity.
        * rewrite lenN_nonzero by (intros E; apply app_eq_nil in E as [E _]; exact (size_enc_nonempty _ _ Hc E)).
          rewrite (size_enc_r _ _ _ Hc).
          destruct (relems_len _ es ebs Hne Hre) as [Hge _].
          destruct (lenN (concat ebs ++ junk) <? lenN es) eqn:E1; [rewrite lenN_app in E1; lia|].
          unfold lenN at 1. rewrite Nat2N.id.
          rewrite (relems_rt _ _ _ es ebs junk HFe Hre). do 4 f_equal. exact Hfold.
  Qed.
End RMain.

Lemma enc_prim2_R p ze v b : enc_prim2 p ze v = Some b -> b <> [] -> prim_R p (norm_prim p ze v) b.
Proof.
  intros H Hb. unfold norm_prim.
  destruct p as [| | | | | |ft tt|]; destruct v as [n|str|bv|fs|ix fs|es]; cbn [enc_prim2] in H; try discriminate.
  1-3: (destruct (n <? 4294967296) eqn:En; [|discriminate]; injection H as <-;
        destruct (ze && _) eqn:Ez; [congruence|]; cbn [prim_R]; split; [lia|reflexivity]).
  1-2: (destruct (n <? 18446744073709551616) eqn:En; [|discriminate]; injection H as <-;
        destruct (ze && _) eqn:Ez; [congruence|]; cbn [prim_R]; split; [lia|reflexivity]).
  - destruct (lenN str <=? maxInt) eqn:En; [|discriminate]. injection H as <-.
    destruct (ze && _) eqn:Ez; [congruence|]. cbn [prim_R]. exists (size2_w (lenN str)).
    split; [apply size_enc_canon; lia|reflexivity].
  - injection H as <-. cbn [prim_zero]. destruct (ze && negb bv) eqn:Ez; [congruence|]. cbn [prim_R].
    exists (if bv then 1 else 0). split; [reflexivity|]. destruct bv; reflexivity.
Qed.

Lemma enc_elems_split (rec : value -> option bytes) : forall es body,
  enc_elems rec es = Some body ->
  exists ebs, body = concat ebs /\ relems (fun e eb => rec e = Some eb) es ebs.
Proof.
  induction es as [|e es IH]; intros body H; cbn [enc_elems] in H.
  - injection H as <-. exists []. split; [reflexivity|exact I].
  - destruct (rec e) as [b1|] eqn:E1; [|discriminate]. cbn [bind_opt] in H.
    destruct (enc_elems rec es) as [b2|] eqn:E2; [|discriminate]. cbn [bind_opt] in H. injection H as <-.
    destruct (IH b2 eq_refl) as (ebs & -> & Hr). exists (b1 :: ebs). split; [reflexivity|]. split; assumption.
Qed.

Lemma relems_impl (r1 r2 : value -> bytes -> Prop) : forall es ebs,
  (forall e eb, In e es -> r1 e eb -> r2 e eb) -> relems r1 es ebs -> relems r2 es ebs.
Proof.
  induction es as [|e es IH]; intros ebs Hi H; destruct ebs as [|eb ebs]; try exact H; try (destruct H; fail).
  destruct H as [H1 Hr]. split; [apply Hi; [now left|exact H1]|].
  apply IH; [|exact Hr]. intros e' eb' He'. apply Hi. now right.
Qed.

Lemma relems_to_opt (rr : value -> bytes -> Prop) (isdef : value -> Prop) : forall es ebs,
  relems rr es ebs -> relems_opt rr isdef es (map Some ebs ++ repeat None 0).
Proof.
  induction es as [|e es IH]; intros ebs H; destruct ebs as [|eb ebs]; try exact H; try (destruct H; fail).
  destruct H as [H1 Hr]. cbn [map app]. split; [exact H1|]. now apply IH.
Qed.

Lemma relems_length (rr : value -> bytes -> Prop) : forall es ebs, relems rr es ebs -> length ebs = length es.
Proof.
  induction es as [|e es IH]; intros ebs H; destruct ebs as [|eb ebs]; try reflexivity; try (destruct H; fail).
  destruct H as [_ Hr]. cbn [length]. now rewrite (IH ebs Hr).
Qed.

Section EncR.
  Variable s : schema.
  Variable x : tl2x.
  Hypothesis Hwf : wf2 s x = true.
  Notation enc := (fun t' ze' v' => enc2 s x t' ze' v').
  Notation Rr := (fun t' ze' v' b' => R s x t' ze' v' b').

  Definition PE (v : value) : Prop := forall t ze b, enc2 s x t ze v = Some b -> b <> [] -> R s x t ze v b.

  Lemma enc_items_R bitf : forall vs fds i items,
    Forall (Popt PE) vs ->
    enc_items enc bitf i fds vs = Some items ->
    ritems s x Rr bitf i fds vs items.
  Proof.
    induction vs as [|ov vs IH]; intros fds i items HF H.
    - destruct fds; [|discriminate]. injection H as <-. exact I.
    - destruct fds as [|fd fds]; [discriminate|]. rewrite enc_items_cons in H.
      destruct (enc_item enc bitf i fd ov) as [it|] eqn:Ei; [|discriminate]. cbn [bind_opt] in H.
      destruct (enc_items enc bitf (S i) fds vs) as [its|] eqn:Er; [|discriminate]. cbn [bind_opt] in H.
      injection H as <-. apply Forall_cons_iff in HF as [HP HF].
      split; [|exact (IH _ _ _ HF Er)].
      unfold enc_item in Ei. unfold ritem. destruct (masked fd) eqn:Em.
      + destruct ov as [v|]; [|now injection Ei as <-].
        destruct (bitf i).
        * destruct v as [| | |[|]| |]; try discriminate. injection Ei as <-. now split.
        * destruct (enc2 s x (f_ty fd) false v) as [p|] eqn:Ep; [|discriminate].
          cbn [bind_opt] in Ei. injection Ei as <-. exists p. split; [reflexivity|].
          cbn [Popt] in HP. exact (HP _ _ _ Ep (enc2_false_nonempty s x v _ _ Ep)).
      + destruct ov as [v|]; [|discriminate].
        destruct (enc2 s x (f_ty fd) true v) as [p|] eqn:Ep; [|discriminate].
        cbn [bind_opt] in Ei. injection Ei as <-.
        destruct (is_empty_struct s (f_ty fd)) eqn:Ee.
        * destruct (empty_struct_enc s x Hwf _ _ _ _ Ee Ep) as [-> Hw]. split; [reflexivity|].
          destruct p as [|a p]; [now left|right].
          apply wrap_obj_some in Hw as [[_ Hp]|(_ & Hl & Hp)]; [discriminate|].
          exists (size2_w (lenN (body_of (x_uidx x (f_ty fd)) []))), (body_of (x_uidx x (f_ty fd)) []).
          split; [now rewrite Hp|]. now apply size_enc_canon.
        * destruct p as [|a p]; [left; now split|right].
          exists (a :: p). split; [reflexivity|]. cbn [Popt] in HP. apply (HP _ _ _ Ep). discriminate.
  Qed.

  Lemma wrap_obody ze idx items b : idx <= maxInt -> wrap_obj ze (body_of idx items) = Some b -> b <> [] ->
    exists sb, obody idx items (body_of idx items) /\ size_enc (lenN (body_of idx items)) sb /\ b = sb ++ body_of idx items.
  Proof.
    intros Hi Hw Hb.
    destruct (body_of_cases idx items Hi) as [(E & Ez & Hall)|(E & Hc)].
    - rewrite E in *. cbn [wrap_obj] in Hw. injection Hw as <-. destruct ze; [congruence|].
      exists [0]. split; [|split; [|reflexivity]].
      + split; [exact Hi|]. left. auto.
      + change [0] with (size2_w 0). apply size_enc_canon. unfold maxInt. lia.
    - apply wrap_obj_some in Hw as [[Hn _]|(_ & Hl & ->)]; [congruence|].
      exists (size2_w (lenN (body_of idx items))). split; [|split; [now apply size_enc_canon|reflexivity]].
      split; [exact Hi|]. right. exists (if idx =? 0 then None else Some idx). split; [|exact Hc].
      destruct (idx =? 0) eqn:Ez; [right; split; [lia|reflexivity]|now left].
  Qed.

  Theorem enc2_R_all : forall v, PE v.
  Proof.
    induction v as [n|str|bv|fs IH|idx fs IH|es IH] using value_ind'; intros t ze b H Hb.
    1-3: (cbn [enc2 R] in *; destruct (nth_error s t) as [[p|tag fds|vars|k ef|kp ef]|] eqn:Et; try discriminate;
          now apply enc_prim2_R).
    - cbn [enc2 R] in *. destruct (nth_error s t) as [[p|tag fds|vars|k ef|kp ef]|] eqn:Et; try discriminate.
      { destruct p; discriminate. }
      destruct (x_alias x t) eqn:Ea.
      + destruct fds as [|fd [|]]; try discriminate. destruct fs as [|[v'|] [|]]; try discriminate.
        apply Forall_cons_iff in IH as [IH _]. cbn [Popt] in IH. now apply IH.
      + destruct (x_uidx x t <=? maxInt) eqn:Eu; [|discriminate].
        destruct (enc_items enc (x_bit x t) 0 fds fs) as [items|] eqn:Ei; [|discriminate].
        cbn [bind_opt] in H.
        destruct (wrap_obody ze (x_uidx x t) items b ltac:(lia) H Hb) as (sb & Ho & Hs & ->).
        exists items, sb, (body_of (x_uidx x t) items). split; [exact (enc_items_R _ fs fds 0%nat items IH Ei)|]. auto.
    - cbn [enc2 R] in *. destruct (nth_error s t) as [[p|tag fds0|vars|k ef|kp ef]|] eqn:Et; try discriminate.
      { destruct p; discriminate. }
      destruct (nth_error vars idx) as [vt|] eqn:Ev; [|discriminate].
      destruct (nth_error s vt) as [[p|tag fds|vars'|k ef|kp ef]|] eqn:Es; try discriminate.
      destruct (N.of_nat idx <=? maxInt) eqn:Eu; [|discriminate].
      destruct (enc_items enc (x_bit x vt) 0 fds fs) as [items|] eqn:Ei; [|discriminate].
      cbn [bind_opt] in H.
      destruct (wrap_obody ze (N.of_nat idx) items b ltac:(lia) H Hb) as (sb & Ho & Hs & ->).
      exists items, sb, (body_of (N.of_nat idx) items). split; [exact (enc_items_R _ fs fds 0%nat items IH Ei)|]. auto.
    - cbn [enc2 R] in *. destruct (nth_error s t) as [[p|tag fds0|vars|k ef|kp ef]|] eqn:Et; try discriminate.
      { destruct p; discriminate. }
      + destruct (fixed_len_ok k (lenN es) && (lenN es <=? maxInt)) eqn:Ec; [|discriminate].
        apply andb_true_iff in Ec as [Efix Elen].
        assert (Hsz0 : size_enc 0 [0]) by (change [0] with (size2_w 0); apply size_enc_canon; unfold maxInt; lia).
        destruct es as [|e0 es0] eqn:Ees.
        * injection H as <-. destruct ze; [congruence|].
          exists [0], []. split; [exact Hsz0|]. split; [reflexivity|].
          destruct k as [| |c].
          -- exists []. split; [exact I|]. left. split; reflexivity.
          -- exists []. split; [exact I|]. left. split; reflexivity.
          -- unfold fixed_len_ok in Efix. apply N.eqb_eq in Efix. split; [exact Efix|].
             exists [], 0%nat. split; [exact I|]. left. split; reflexivity.
        * rewrite <- Ees in *.
          destruct (enc_elems (fun e => enc2 s x (f_ty ef) false e) es) as [ebody|] eqn:Ee.
          2:{ rewrite Ees in H. discriminate. }
          assert (H' : wrap_obj ze (size2_w (lenN es) ++ ebody) = Some b) by (rewrite Ees in *; exact H).
          clear H. apply wrap_obj_some in H' as [[Hnil _]|(_ & Hl & ->)].
          { apply app_eq_nil in Hnil as [Hnil _]. now apply size2_w_nonempty in Hnil. }
          destruct (enc_elems_split _ es ebody Ee) as (ebs & -> & Hre).
          assert (Hre' : relems (fun e eb => R s x (f_ty ef) false e eb) es ebs).
          { apply (relems_impl _ (fun e eb => R s x (f_ty ef) false e eb) es ebs) in Hre; [exact Hre|].
            intros e eb He Heb. rewrite Forall_forall in IH. apply (IH e He _ _ _ Heb).
            exact (enc2_false_nonempty s x e _ _ Heb). }
          exists (size2_w (lenN (size2_w (lenN es) ++ concat ebs))), (size2_w (lenN es) ++ concat ebs).
          split; [now apply size_enc_canon|]. split; [reflexivity|].
          assert (Hab : forall n, n = lenN es -> abody n ebs (size2_w (lenN es) ++ concat ebs)).
          { intros n ->. right. exists (size2_w (lenN es)), []. split; [apply size_enc_canon; lia|]. now rewrite app_nil_r. }
          destruct k as [| |c].
          -- exists ebs. split; [exact Hre'|]. now apply Hab.
          -- exists ebs. split; [exact Hre'|]. now apply Hab.
          -- unfold fixed_len_ok in Efix. apply N.eqb_eq in Efix. split; [exact Efix|].
             exists ebs, 0%nat. split; [now apply relems_to_opt|]. apply Hab.
             unfold lenN. now rewrite (relems_length _ _ _ Hre').
      + destruct (keys_sorted kp es && (lenN es <=? maxInt)) eqn:Ec; [|discriminate].
        apply andb_true_iff in Ec as [Esort Elen]. split; [exact Esort|].
        assert (Hsz0 : size_enc 0 [0]) by (change [0] with (size2_w 0); apply size_enc_canon; unfold maxInt; lia).
        destruct es as [|e0 es0] eqn:Ees.
        * injection H as <-. destruct ze; [congruence|].
          exists [0], [], []. split; [exact Hsz0|]. split; [reflexivity|]. split; [exact I|]. left. split; reflexivity.
        * rewrite <- Ees in *.
          destruct (enc_elems (fun e => enc2 s x (f_ty ef) false e) es) as [ebody|] eqn:Ee.
          2:{ rewrite Ees in H. discriminate. }
          assert (H' : wrap_obj ze (size2_w (lenN es) ++ ebody) = Some b) by (rewrite Ees in *; exact H).
          clear H. apply wrap_obj_some in H' as [[Hnil _]|(_ & Hl & ->)].
          { apply app_eq_nil in Hnil as [Hnil _]. now apply size2_w_nonempty in Hnil. }
          destruct (enc_elems_split _ es ebody Ee) as (ebs & -> & Hre).
          assert (Hre' : relems (fun e eb => R s x (f_ty ef) false e eb) es ebs).
          { apply (relems_impl _ (fun e eb => R s x (f_ty ef) false e eb) es ebs) in Hre; [exact Hre|].
            intros e eb He Heb. rewrite Forall_forall in IH. apply (IH e He _ _ _ Heb).
            exact (enc2_false_nonempty s x e _ _ Heb). }
          exists (size2_w (lenN (size2_w (lenN es) ++ concat ebs))), (size2_w (lenN es) ++ concat ebs), ebs.
          split; [now apply size_enc_canon|]. split; [reflexivity|]. split; [exact Hre'|].
          right. exists (size2_w (lenN es)), []. split; [apply size_enc_canon; lia|]. now rewrite app_nil_r.
  Qed.
End EncR.

(** types whose encoding starts with a byte size: objects and arrays (not primitives, not aliases) *)
Definition sized_type (s : schema) (x : tl2x) (t : nat) : bool :=
  match nth_error s t with
  | Some (TPrim _) | None => false
  | Some (TStruct _ _) => negb (x_alias x t)
  | _ => true
  end.

Lemma R_sized_swap s x t ze v b : R s x t ze v b -> sized_type s x t = true ->
  exists sb body, b = sb ++ body /\ size_enc (lenN body) sb /\
                  forall sb', size_enc (lenN body) sb' -> R s x t ze v (sb' ++ body).
Proof.
  unfold sized_type. intros H Ht.
  destruct (nth_error s t) as [[p|tag fds|vars|k ef|kp ef]|] eqn:Et; try discriminate.
  - apply negb_true_iff in Ht.
    destruct v as [n|str|bv|fs|ix fs|es]; cbn [R] in H; rewrite Et in H; try (destruct H; fail).
    rewrite Ht in H. destruct H as (items & sb & body & H1 & H2 & H3 & ->).
    exists sb, body. split; [reflexivity|]. split; [exact H3|]. intros sb' Hs'.
    cbn [R]. rewrite Et, Ht. exists items, sb', body. auto.
  - destruct v as [n|str|bv|fs|ix fs|es]; cbn [R] in H; rewrite Et in H; try (destruct H; fail).
    destruct (nth_error vars ix) as [vt|] eqn:Ev; [|destruct H].
    destruct (nth_error s vt) as [[p|tag fds|vars'|k ef|kp ef]|] eqn:Es; try (destruct H; fail).
    destruct H as (items & sb & body & H1 & H2 & H3 & ->).
    exists sb, body. split; [reflexivity|]. split; [exact H3|]. intros sb' Hs'.
    cbn [R]. rewrite Et, Ev, Es. exists items, sb', body. auto.
  - destruct v as [n|str|bv|fs|ix fs|es]; cbn [R] in H; rewrite Et in H; try (destruct H; fail).
    destruct H as (sb & body & H1 & -> & H3).
    exists sb, body. split; [reflexivity|]. split; [exact H1|]. intros sb' Hs'.
    cbn [R]. rewrite Et. exists sb', body. auto.
  - destruct v as [n|str|bv|fs|ix fs|es]; cbn [R] in H; rewrite Et in H; try (destruct H; fail).
    destruct H as (Hk & sb & body & ebs & H1 & -> & H3).
    exists sb, body. split; [reflexivity|]. split; [exact H1|]. intros sb' Hs'.
    cbn [R]. rewrite Et. split; [exact Hk|]. exists sb', body, ebs. auto.
Qed.

(** a declared size that exceeds what follows is rejected, whatever the type with a size *)
Lemma oversize_rejected s x t b n r fuel :
  sized_type s x t = true -> size2_r b = Ok (n, r) -> lenN r < n ->
  dec2 (S fuel) s x t b = Some Reject.
Proof.
  unfold sized_type. intros Ht Hs Hlt.
  assert (Hz : (n =? 0) = false) by lia. assert (Hl : (lenN r <? n) = true) by lia.
  cbn [dec2]. destruct (nth_error s t) as [[p|tag fds|vars|k ef|kp ef]|]; try discriminate.
  - apply negb_true_iff in Ht. rewrite Ht. unfold dec_obj. now rewrite Hs, Hz, Hl.
  - unfold dec_obj. now rewrite Hs, Hz, Hl.
  - now rewrite Hs, Hl.
  - now rewrite Hs, Hl.
Qed.

(** an empty object (declared size 0, in either spelling) is the default object *)
Lemma empty_object_default s x t sb rest fuel d :
  match nth_error s t with
  | Some (TStruct _ _) => x_alias x t = false
  | Some (TUnion _) => True
  | _ => False
  end ->
  size_enc 0 sb -> dflt s t = Some d ->
  dec2 (S fuel) s x t (sb ++ rest) = Some (Ok (d, rest)).
Proof.
  intros Ht Hs Hd. cbn [dec2].
  destruct (nth_error s t) as [[p|tag fds|vars|k ef|kp ef]|]; try (destruct Ht; fail).
  - rewrite Ht. unfold dec_obj. rewrite (size_enc_r _ _ _ Hs), N.eqb_refl, Hd. reflexivity.
  - unfold dec_obj. rewrite (size_enc_r _ _ _ Hs), N.eqb_refl, Hd. reflexivity.
Qed.

(** * Schema evolution: fields appended to a struct.  What the writer of the extended struct
    produces is an admissible encoding, for the original struct, of the value without the
    appended fields. *)

(** block lists of the shorter item list vs the longer one *)
Inductive gpre : list (list (option bytes)) -> list (list (option bytes)) -> Prop :=
| gp_nil gn : gpre [] gn
| gp_cons go ext ro rn : (ext = [] -> gpre ro rn) -> (ext <> [] -> ro = []) -> gpre (go :: ro) ((go ++ ext) :: rn).

Lemma bits_match_prefix blk k g ext : bits_match blk k (g ++ ext) -> bits_match blk k g.
Proof.
  intros H j Hj. specialize (H j ltac:(rewrite app_length; lia)). now rewrite app_nth1 in H by exact Hj.
Qed.

Lemma group_empty_prefix g ext : group_empty (g ++ ext) = true -> group_empty g = true.
Proof. unfold group_empty. rewrite forallb_app. intros H. now apply andb_true_iff in H as [H _]. Qed.

Lemma gcode_prefix : forall gn tail, gcode gn tail -> forall go, gpre go gn -> gcode go tail.
Proof.
  induction 1 as [junk|gs Hall|g gs blk tail Hb Hg IH]; intros go Hp.
  - inversion Hp; subst. constructor.
  - apply gc_cut. revert go Hp. induction Hall as [|g gs Hg Hall IHa]; intros go Hp.
    + inversion Hp; subst. constructor.
    + inversion Hp as [|go0 ext ro rn H1 H2]; subst; constructor.
      * now apply group_empty_prefix in Hg.
      * destruct ext as [|e ext].
        -- apply IHa. now apply H1.
        -- rewrite (H2 ltac:(discriminate)). constructor.
  - inversion Hp as [|go0 ext ro rn H1 H2]; subst; [constructor|].
    rewrite map_app, concat_app, <- app_assoc.
    apply gc_cons; [now apply bits_match_prefix in Hb|].
    destruct ext as [|e ext].
    + cbn [map concat app]. apply IH. now apply H1.
    + rewrite (H2 ltac:(discriminate)). constructor.
Qed.

Lemma chunk8_gpre : forall fuel (l l' : list (option bytes)),
  (length l <= fuel)%nat -> forall fuel', (length (l ++ l') <= fuel')%nat ->
  gpre (chunk8 fuel l) (chunk8 fuel' (l ++ l')).
Proof.
  induction fuel as [|f IH]; intros l l' Hl fuel' Hl'.
  - destruct l; [constructor|cbn in Hl; lia].
  - destruct l as [|a l]; [constructor|].
    destruct fuel' as [|f']; [cbn in Hl'; lia|].
    cbn [chunk8 app].
    change (a :: l ++ l') with ((a :: l) ++ l').
    rewrite (firstn_app 8 (a :: l) l'), (skipn_app 8 (a :: l) l').
    apply gp_cons.
    + intros Hext. apply IH.
      * rewrite skipn_length. cbn [length] in *. lia.
      * rewrite app_length, !skipn_length. rewrite app_length in Hl'. cbn [length] in *. lia.
    + intros Hext.
      assert (Hlt : (length (a :: l) < 8)%nat).
      { destruct (Nat.le_gt_cases 8 (length (a :: l))) as [Hge|]; [|assumption].
        exfalso. apply Hext. replace (8 - length (a :: l))%nat with 0%nat by lia. reflexivity. }
      rewrite skipn_all2 by lia. apply chunk8_nil.
Qed.

Lemma bcode_prefix oi items items' body :
  bcode oi (firstn 7 (items ++ items')) (chunk8 (length (skipn 7 (items ++ items'))) (skipn 7 (items ++ items'))) body ->
  bcode oi (firstn 7 items) (chunk8 (length (skipn 7 items)) (skipn 7 items)) body.
Proof.
  intros (blk & ib & tail & -> & Hoi & Hb & Hg).
  unfold bcode. rewrite firstn_app in Hb. rewrite firstn_app, map_app, concat_app, <- !app_assoc.
  exists blk, ib, (concat (map payload (firstn (7 - length items) items')) ++ tail).
  split; [reflexivity|]. split; [exact Hoi|]. split; [now apply bits_match_prefix in Hb|].
  destruct (Nat.le_gt_cases 7 (length items)) as [Hge|Hlt].
  - replace (7 - length items)%nat with 0%nat by lia. cbn [firstn map concat app].
    apply (gcode_prefix _ _ Hg). rewrite skipn_app. replace (7 - length items)%nat with 0%nat by lia. cbn [skipn].
    apply chunk8_gpre; lia.
  - rewrite (skipn_all2 items) by lia. cbn [length chunk8]. constructor.
Qed.

Section Evolution.
  Variable s : schema.
  Variable x : tl2x.
  Hypothesis Hwf : wf2 s x = true.
  Notation enc := (fun t' ze' v' => enc2 s x t' ze' v').
  Notation Rr := (fun t' ze' v' b' => R s x t' ze' v' b').
  Notation nrm := (fun t' ze' v' => norm2 s x t' ze' v').

  Lemma enc_items_app bitf : forall vs fds i items vs' fds',
    length vs = length fds ->
    enc_items enc bitf i (fds ++ fds') (vs ++ vs') = Some items ->
    exists it1 it2, items = it1 ++ it2 /\ enc_items enc bitf i fds vs = Some it1 /\ length it1 = length fds.
  Proof.
    induction vs as [|ov vs IH]; intros fds i items vs' fds' Hl H.
    - destruct fds; [|discriminate]. exists [], items. auto.
    - destruct fds as [|fd fds]; [discriminate|]. cbn [app] in H. rewrite enc_items_cons in H.
      destruct (enc_item enc bitf i fd ov) as [it|] eqn:Ei; [|discriminate]. cbn [bind_opt] in H.
      destruct (enc_items enc bitf (S i) (fds ++ fds') (vs ++ vs')) as [its|] eqn:Er; [|discriminate].
      cbn [bind_opt] in H. injection H as <-.
      destruct (IH fds (S i) its vs' fds' ltac:(cbn in Hl; lia) Er) as (it1 & it2 & -> & H1 & H2).
      exists (it :: it1), it2. split; [reflexivity|]. rewrite enc_items_cons, Ei, H1. cbn [bind_opt length]. split; [reflexivity|lia].
  Qed.

  Lemma norm_fields_app (rec : nat -> bool -> value -> value) : forall vs fds vs' fds',
    length vs = length fds ->
    norm_fields rec (fds ++ fds') (vs ++ vs') = norm_fields rec fds vs ++ norm_fields rec fds' vs'.
  Proof.
    induction vs as [|ov vs IH]; intros fds vs' fds' Hl; destruct fds as [|fd fds]; try discriminate; [reflexivity|].
    cbn [app norm_fields]. now rewrite IH by (cbn in Hl; lia).
  Qed.

  Lemma enc_items_ext (bo bn : nat -> bool) : forall vs fds i items,
    (forall j, (j < length fds)%nat -> bo (i + j)%nat = bn (i + j)%nat) ->
    enc_items enc bn i fds vs = Some items -> enc_items enc bo i fds vs = Some items.
  Proof.
    induction vs as [|ov vs IH]; intros fds i items Hbit H; destruct fds as [|fd fds]; try exact H; try discriminate.
    rewrite enc_items_cons in *.
    assert (E : enc_item enc bo i fd ov = enc_item enc bn i fd ov).
    { unfold enc_item. specialize (Hbit 0%nat ltac:(cbn; lia)). rewrite Nat.add_0_r in Hbit. now rewrite Hbit. }
    rewrite E. destruct (enc_item enc bn i fd ov) as [it|]; [|discriminate]. cbn [bind_opt] in *.
    destruct (enc_items enc bn (S i) fds vs) as [its|] eqn:Er; [|discriminate].
    rewrite (IH fds (S i) its); [exact H| |exact Er].
    intros j Hj. specialize (Hbit (S j) ltac:(cbn; lia)). now replace (i + S j)%nat with (S i + j)%nat in Hbit by lia.
  Qed.

  (** [told] = the original struct, [tnew] = the same with fields appended *)
  Theorem evolution_appended_fields told tnew tag tag' fds ext fs fs' ze b :
    nth_error s told = Some (TStruct tag fds) -> nth_error s tnew = Some (TStruct tag' (fds ++ ext)) ->
    x_alias x told = false -> x_alias x tnew = false -> x_uidx x told = x_uidx x tnew ->
    (forall i, (i < length fds)%nat -> x_bit x told i = x_bit x tnew i) ->
    length fs = length fds ->
    enc2 s x tnew ze (VStruct (fs ++ fs')) = Some b -> b <> [] ->
    R s x told ze (VStruct fs) b /\
    norm2 s x tnew ze (VStruct (fs ++ fs')) =
      VStruct (norm_fields nrm fds fs ++ norm_fields nrm ext fs') /\
    norm2 s x told ze (VStruct fs) = VStruct (norm_fields nrm fds fs).
  Proof.
    intros Eo En Ao An Hu Hbit Hl H Hb.
    split; [|split; [cbn [norm2]; rewrite En, An; now rewrite norm_fields_app|cbn [norm2]; now rewrite Eo, Ao]].
    cbn [enc2] in H. rewrite En, An in H.
    destruct (x_uidx x tnew <=? maxInt) eqn:Eu; [|discriminate].
    destruct (enc_items enc (x_bit x tnew) 0 (fds ++ ext) (fs ++ fs')) as [items|] eqn:Ei; [|discriminate].
    cbn [bind_opt] in H.
    destruct (enc_items_app _ fs fds 0%nat items fs' ext Hl Ei) as (it1 & it2 & -> & H1 & Hl1).
    apply (enc_items_ext (x_bit x told) (x_bit x tnew)) in H1; [|intros j Hj; now apply Hbit].
    destruct (wrap_obody s x ze (x_uidx x tnew) (it1 ++ it2) b ltac:(lia) H Hb) as (sb & Ho & Hs & ->).
    assert (HIH : Forall (Popt (PE s x)) fs).
    { rewrite Forall_forall. intros [v|] _; [|exact I]. exact (enc2_R_all s x Hwf v). }
    cbn [R]. rewrite Eo, Ao. exists it1, sb, (body_of (x_uidx x tnew) (it1 ++ it2)).
    split; [exact (enc_items_R s x Hwf _ fs fds 0%nat it1 HIH H1)|]. split; [|auto].
    rewrite Hu. destruct Ho as [Hi [(E & Ez & Hall)|(oi & Hoi & Hc)]]; split; try exact Hi.
    - left. split; [exact E|]. split; [exact Ez|]. rewrite forallb_app in Hall. now apply andb_true_iff in Hall as [Hall _].
    - right. exists oi. split; [exact Hoi|]. now apply bcode_prefix in Hc.
  Qed.

  (** hence: the old reader reads what the new writer wrote as the value without the appended fields *)
  Theorem old_reader_new_writer told tnew tag tag' fds ext fs fs' b fuel rest :
    nth_error s told = Some (TStruct tag fds) -> nth_error s tnew = Some (TStruct tag' (fds ++ ext)) ->
    x_alias x told = false -> x_alias x tnew = false -> x_uidx x told = x_uidx x tnew ->
    (forall i, (i < length fds)%nat -> x_bit x told i = x_bit x tnew i) ->
    length fs = length fds ->
    enc2 s x tnew false (VStruct (fs ++ fs')) = Some b -> (vdepth (VStruct fs) <= fuel)%nat ->
    dec2 fuel s x told (b ++ rest) = Some (Ok (VStruct (norm_fields nrm fds fs), rest)) /\
    exists fs2, norm2 s x tnew false (VStruct (fs ++ fs')) = VStruct (norm_fields nrm fds fs ++ fs2).
  Proof.
    intros Eo En Ao An Hu Hbit Hl H Hd.
    destruct (evolution_appended_fields told tnew tag tag' fds ext fs fs' false b Eo En Ao An Hu Hbit Hl H
                (enc2_false_nonempty s x _ _ _ H)) as (HR & Hn1 & Hn2).
    split; [|eexists; exact Hn1].
    rewrite <- Hn2. exact (proj2 (R_dec_all s x Hwf _ told false b HR) fuel rest Hd).
  Qed.
End Evolution.
