(** Proofs about the schema-IR TL2 codec: for every well-formed schema, type, value the writer
    accepts and continuation of the input, the reader returns the normal form of the value and
    the continuation ([enc2_dec2_all]); writing the normal form gives the same bytes
    ([enc2_norm_all]). *)
From Coq Require Import ZArith Lia ZifyN ZifyNat ZifyBool.
From TLV Require Import Prim.PrimModel Prim.PrimProofs Tl1.Tl1Model Tl1.Tl1Proofs Tl2.Tl2Model.
From TLV Require Import Tl2.Tl2Blocks.
Ltac Zify.zify_post_hook ::= Z.div_mod_to_equations.
Open Scope N_scope.

(** * object headers *)
Lemma wrap_obj_some ze body p : wrap_obj ze body = Some p ->
  (body = [] /\ p = if ze then [] else [0]) \/
  (body <> [] /\ lenN body <= maxInt /\ p = size2_w (lenN body) ++ body).
Proof.
  unfold wrap_obj. destruct body as [|a body]; intros H.
  - left. split; [reflexivity|]. now injection H as <-.
  - right. destruct (lenN (a :: body) <=? maxInt) eqn:E; [|discriminate].
    injection H as <-. split; [discriminate|]. split; [lia|reflexivity].
Qed.

Lemma hdr_read body rest : lenN body <= maxInt ->
  size2_r ((size2_w (lenN body) ++ body) ++ rest) = Ok (lenN body, body ++ rest).
Proof. intros H. rewrite <- app_assoc. now apply size2_roundtrip. Qed.

Lemma hdr_len (body rest : bytes) : (lenN (body ++ rest) <? lenN body) = false.
Proof. rewrite lenN_app. lia. Qed.

Lemma lenN_zero_nil {A} (l : list A) : (lenN l =? 0) = true -> l = [].
Proof. destruct l; [reflexivity|]. unfold lenN. cbn [length]. lia. Qed.

Lemma lenN_nonzero {A} (l : list A) : l <> [] -> (lenN l =? 0) = false.
Proof. destruct l; [congruence|]. unfold lenN. cbn [length]. lia. Qed.

Lemma skip_wrap ze body p tail : wrap_obj ze body = Some p -> p <> [] -> skip_sized (p ++ tail) = Ok tail.
Proof.
  intros H Hp. apply wrap_obj_some in H as [[-> ->]|(Hb & Hl & ->)].
  - destruct ze; [congruence|]. unfold skip_sized.
    change ([0] ++ tail) with (size2_w 0 ++ tail). rewrite size2_roundtrip by (unfold maxInt; lia).
    destruct (lenN tail <? 0) eqn:E; [lia|]. reflexivity.
  - unfold skip_sized. rewrite hdr_read by exact Hl. rewrite hdr_len. now rewrite skipn_lenN_app.
Qed.

Lemma size2_w_nonempty n : size2_w n <> [].
Proof.
  unfold size2_w. destruct (n <? mediumStringMarker); [discriminate|].
  destruct (n <? mediumStringMarker + 65536); discriminate.
Qed.

Lemma wrap_obj_false_nonempty body p : wrap_obj false body = Some p -> p <> [].
Proof.
  intros H. apply wrap_obj_some in H as [[_ ->]|(_ & _ & ->)]; [discriminate|].
  intros E. apply app_eq_nil in E as [E _]. now apply size2_w_nonempty in E.
Qed.

(** * primitives *)
Lemma prim2_rt p ze v b :
  enc_prim2 p ze v = Some b ->
  (b = [] -> ze = true /\ prim_default p = Some (norm_prim p ze v)) /\
  (b <> [] -> forall rest, dec_prim2 p (b ++ rest) = Ok (norm_prim p ze v, rest)).
Proof.
  destruct p as [| | | | | |ft tt|]; destruct v as [n|str|bv|fs|ix fs|es]; cbn [enc_prim2 prim_zero]; try discriminate; intros H;
    unfold norm_prim; cbn [prim_zero].
  - destruct (n <? 4294967296) eqn:En; [|discriminate]. injection H as <-.
    match goal with |- context [?a && ?c] => destruct (a && c) eqn:Ez end.
    + split; intros Hb; [|congruence].
      apply andb_true_iff in Ez as [-> Ez]. split; [reflexivity|]. cbn [prim_default]. repeat f_equal; lia.
    + split; intros Hb; [cbn [le_bytes] in Hb; discriminate|].
      intros rest. cbn [dec_prim2]. pose proof (nat_roundtrip n rest ltac:(cbn; lia)) as Hr.
      unfold nat_w in Hr. cbn [le_bytes] in Hr |- *. rewrite Hr. reflexivity.
  - destruct (n <? 4294967296) eqn:En; [|discriminate]. injection H as <-.
    match goal with |- context [?a && ?c] => destruct (a && c) eqn:Ez end.
    + split; intros Hb; [|congruence].
      apply andb_true_iff in Ez as [-> Ez]. split; [reflexivity|]. cbn [prim_default]. repeat f_equal; lia.
    + split; intros Hb; [cbn [le_bytes] in Hb; discriminate|].
      intros rest. cbn [dec_prim2]. pose proof (nat_roundtrip n rest ltac:(cbn; lia)) as Hr.
      unfold nat_w in Hr. cbn [le_bytes] in Hr |- *. rewrite Hr. reflexivity.
  - destruct (n <? 4294967296) eqn:En; [|discriminate]. injection H as <-.
    match goal with |- context [?a && ?c] => destruct (a && c) eqn:Ez end.
    + split; intros Hb; [|congruence].
      apply andb_true_iff in Ez as [-> Ez]. split; [reflexivity|]. cbn [prim_default]. repeat f_equal; lia.
    + split; intros Hb; [cbn [le_bytes] in Hb; discriminate|].
      intros rest. cbn [dec_prim2]. pose proof (nat_roundtrip n rest ltac:(cbn; lia)) as Hr.
      unfold nat_w in Hr. cbn [le_bytes] in Hr |- *. rewrite Hr. reflexivity.
  - destruct (n <? 18446744073709551616) eqn:En; [|discriminate]. injection H as <-.
    match goal with |- context [?a && ?c] => destruct (a && c) eqn:Ez end.
    + split; intros Hb; [|congruence].
      apply andb_true_iff in Ez as [-> Ez]. split; [reflexivity|]. cbn [prim_default]. repeat f_equal; lia.
    + split; intros Hb; [cbn [le_bytes] in Hb; discriminate|].
      intros rest. cbn [dec_prim2]. pose proof (long_roundtrip n rest ltac:(cbn; lia)) as Hr.
      unfold long_w in Hr. cbn [le_bytes] in Hr |- *. rewrite Hr. reflexivity.
  - destruct (n <? 18446744073709551616) eqn:En; [|discriminate]. injection H as <-.
    match goal with |- context [?a && ?c] => destruct (a && c) eqn:Ez end.
    + split; intros Hb; [|congruence].
      apply andb_true_iff in Ez as [-> Ez]. split; [reflexivity|]. cbn [prim_default]. repeat f_equal; lia.
    + split; intros Hb; [cbn [le_bytes] in Hb; discriminate|].
      intros rest. cbn [dec_prim2]. pose proof (long_roundtrip n rest ltac:(cbn; lia)) as Hr.
      unfold long_w in Hr. cbn [le_bytes] in Hr |- *. rewrite Hr. reflexivity.
  - destruct (lenN str <=? maxInt) eqn:En; [|discriminate]. injection H as <-.
    match goal with |- context [?a && ?c] => destruct (a && c) eqn:Ez end; split; intros Hb; try congruence.
    + apply andb_true_iff in Ez as [-> Ez]. split; [reflexivity|]. cbn [prim_default].
      destruct str; [reflexivity|discriminate].
    + exfalso. unfold str2_w in Hb. apply app_eq_nil in Hb as [Hb _]. now apply size2_w_nonempty in Hb.
    + intros rest. cbn [dec_prim2]. rewrite str2_roundtrip by lia. reflexivity.
  - injection H as <-. split; intros Hb.
    + destruct (ze && negb bv) eqn:E2; [|destruct bv; discriminate].
      apply andb_true_iff in E2 as [-> E2]. split; [reflexivity|]. destruct bv; [discriminate|reflexivity].
    + intros rest. destruct (ze && negb bv) eqn:E2; [congruence|].
      cbn [dec_prim2]. destruct bv; cbn; reflexivity.
Qed.

(** * what wf2 gives for a looked-up instance *)
Lemma tydefs_ok2_nth s x : forall l k j d,
  tydefs_ok2 s x k l = true -> nth_error l j = Some d ->
  tydef_ok2 s x (k + j) d = true /\ (is_some (dflt s (k + j)) = true \/ d = TPrim PNoTL1).
Proof.
  induction l as [|d0 l IH]; intros k j d H Hn; [destruct j; discriminate|].
  cbn [tydefs_ok2] in H. apply andb_true_iff in H as [H Hr]. apply andb_true_iff in H as [H1 H2].
  destruct j as [|j]; cbn [nth_error] in Hn.
  - injection Hn as <-. rewrite Nat.add_0_r. split; [exact H1|].
    apply orb_true_iff in H2 as [H2|H2]; [now left|right].
    destruct d0 as [[]| | | |]; try discriminate. reflexivity.
  - replace (k + S j)%nat with (S k + j)%nat by lia. now apply IH.
Qed.

Lemma wf2_lookup s x t d : wf2 s x = true -> nth_error s t = Some d ->
  tydef_ok2 s x t d = true /\ (is_some (dflt s t) = true \/ d = TPrim PNoTL1).
Proof.
  unfold wf2. intros H Hn. apply andb_true_iff in H as [_ H].
  exact (tydefs_ok2_nth s x s 0 t d H Hn).
Qed.

Lemma wf2_wf1 s x : wf2 s x = true -> wf_schema s = true.
Proof. unfold wf2. intros H. now apply andb_true_iff in H as [H _]. Qed.

(** * values *)
Lemma norm_empty_value s x t ze : norm2 s x t ze (VStruct []) = VStruct [].
Proof.
  cbn [norm2]. destruct (nth_error s t) as [[p|tag fds|vars|k ef|kp ef]|]; try reflexivity.
  - unfold norm_prim. destruct p; cbn [prim_zero]; rewrite ?andb_false_r; reflexivity.
  - destruct (x_alias x t); [destruct fds as [|fd [|]]; reflexivity|].
    destruct fds; reflexivity.
Qed.

Section Enc.
  Variable s : schema.
  Variable x : tl2x.
  Hypothesis Hwf : wf2 s x = true.

  Lemma enc2_dflt t ze v b : enc2 s x t ze v = Some b -> exists d, dflt s t = Some d.
  Proof.
    intros H.
    destruct (nth_error s t) as [d0|] eqn:Et.
    - destruct (wf2_lookup s x t d0 Hwf Et) as [_ [Hd| ->]].
      + destruct (dflt s t) as [d|]; [now exists d|discriminate].
      + destruct v; cbn [enc2] in H; rewrite Et in H; discriminate.
    - destruct v; cbn [enc2] in H; rewrite Et in H; discriminate.
  Qed.

  Lemma enc2_false_nonempty : forall v t b, enc2 s x t false v = Some b -> b <> [].
  Proof.
    induction v as [n|str|bv|fs IH|idx fs IH|es IH] using value_ind'; intros t b H;
      cbn [enc2] in H; destruct (nth_error s t) as [d|] eqn:Et; try discriminate;
      destruct d as [p|tag fds|vars|k ef|kp ef]; try discriminate.
    1-3: destruct (prim2_rt p false _ b H) as [H1 _]; intros E; destruct (H1 E); discriminate.
    - destruct p; discriminate.
    - destruct (x_alias x t).
      + destruct fds as [|fd [|]]; try discriminate. destruct fs as [|[v'|] [|]]; try discriminate.
        apply Forall_cons_iff in IH as [IH _]. cbn [Popt] in IH. eapply IH; eauto.
      + destruct (x_uidx x t <=? maxInt); [|discriminate].
        destruct (enc_items _ _ _ _ _); [|discriminate]. cbn [bind_opt] in H.
        now apply wrap_obj_false_nonempty in H.
    - destruct p; discriminate.
    - destruct (nth_error vars idx) as [vt|]; [|discriminate].
      destruct (nth_error s vt) as [[p|tag fds|vars'|k ef|kp ef]|]; try discriminate.
      destruct (N.of_nat idx <=? maxInt); [|discriminate].
      destruct (enc_items _ _ _ _ _); [|discriminate]. cbn [bind_opt] in H.
      now apply wrap_obj_false_nonempty in H.
    - destruct p; discriminate.
    - destruct (fixed_len_ok k (lenN es) && (lenN es <=? maxInt)); [|discriminate].
      destruct es as [|e es]; [injection H as <-; discriminate|].
      destruct (enc_elems _ _); [|discriminate]. cbn [bind_opt] in H.
      now apply wrap_obj_false_nonempty in H.
    - destruct (keys_sorted kp es && (lenN es <=? maxInt)); [|discriminate].
      destruct es as [|e es]; [injection H as <-; discriminate|].
      destruct (enc_elems _ _); [|discriminate]. cbn [bind_opt] in H.
      now apply wrap_obj_false_nonempty in H.
  Qed.
End Enc.

Definition enc_item (rec : nat -> bool -> value -> option bytes) (bitf : nat -> bool) (i : nat) (fd : field) (ov : option value)
  : option (option bytes) :=
  if masked fd then
    match ov with
    | None => Some None
    | Some v =>
        if bitf i then match v with VStruct [] => Some (Some []) | _ => None end
        else bind_opt (rec (f_ty fd) false v) (fun p => Some (Some p))
    end
  else
    match ov with
    | None => None
    | Some v => bind_opt (rec (f_ty fd) true v) (fun p => Some (match p with [] => None | _ => Some p end))
    end.

Lemma enc_items_cons rec bitf i fd fds ov vs :
  enc_items rec bitf i (fd :: fds) (ov :: vs) =
  bind_opt (enc_item rec bitf i fd ov) (fun x => bind_opt (enc_items rec bitf (S i) fds vs) (fun r => Some (x :: r))).
Proof. reflexivity. Qed.

Lemma depth_fields fs fuel : (vdepth (VStruct fs) <= S fuel)%nat -> forall v, In (Some v) fs -> (vdepth v <= fuel)%nat.
Proof. cbn [vdepth]. intros H v Hv. pose proof (depth_opts_le fs v Hv). lia. Qed.

Lemma depth_fields_u i fs fuel : (vdepth (VUnion i fs) <= S fuel)%nat -> forall v, In (Some v) fs -> (vdepth v <= fuel)%nat.
Proof. cbn [vdepth]. intros H v Hv. pose proof (depth_opts_le fs v Hv). lia. Qed.

Lemma read_zero rest : size2_r ([0] ++ rest) = Ok (0, rest).
Proof. change ([0] ++ rest) with (size2_w 0 ++ rest). apply size2_roundtrip. unfold maxInt. lia. Qed.

(** ** array elements *)
Lemma elems_rt2 (rec : value -> option bytes) (drec : bytes -> d2) (nf : value -> value) : forall es body tail,
  Forall (fun e => forall b rest, rec e = Some b -> drec (b ++ rest) = Some (Ok (nf e, rest))) es ->
  enc_elems rec es = Some body ->
  dec_elems2 drec (length es) (body ++ tail) = Some (Ok (map nf es, tail)).
Proof.
  induction es as [|e es IH]; intros body tail HF H; cbn [enc_elems] in H.
  - injection H as <-. reflexivity.
  - apply Forall_cons_iff in HF as [He HF].
    destruct (rec e) as [b1|] eqn:E1; [|discriminate]. cbn [bind_opt] in H.
    destruct (enc_elems rec es) as [b2|] eqn:E2; [|discriminate]. cbn [bind_opt] in H. injection H as <-.
    cbn [length dec_elems2 map]. rewrite <- app_assoc, (He _ _ eq_refl), (IH _ _ HF eq_refl). reflexivity.
Qed.

Lemma elems_len (rec : value -> option bytes) : forall es body,
  (forall e b, In e es -> rec e = Some b -> b <> []) ->
  enc_elems rec es = Some body -> lenN es <= lenN body.
Proof.
  induction es as [|e es IH]; intros body Hne H; cbn [enc_elems] in H.
  - injection H as <-. unfold lenN. cbn. lia.
  - destruct (rec e) as [b1|] eqn:E1; [|discriminate]. cbn [bind_opt] in H.
    destruct (enc_elems rec es) as [b2|] eqn:E2; [|discriminate]. cbn [bind_opt] in H. injection H as <-.
    assert (b1 <> []) by (apply (Hne e); [now left|reflexivity || exact E1]).
    assert (lenN es <= lenN b2) by (apply IH; [intros e' b' Hin; apply Hne; now right|reflexivity]).
    rewrite lenN_app, lenN_cons. destruct b1; [congruence|]. rewrite lenN_cons. lia.
Qed.

Lemma keys_sorted_map kp (f : value -> value) : forall es,
  (forall e, In e es -> entry_key (f e) = entry_key e) ->
  keys_sorted kp (map f es) = keys_sorted kp es.
Proof.
  induction es as [|e es IH]; intros H; [reflexivity|].
  cbn [map keys_sorted]. destruct es as [|e' es']; [reflexivity|].
  cbn [map]. rewrite (H e), (H e') by (cbn; auto).
  f_equal. apply IH. intros e0 H0. apply H. now right.
Qed.

Section Main.
  Variable s : schema.
  Variable x : tl2x.
  Hypothesis Hwf : wf2 s x = true.

  Notation enc := (fun t' ze' v' => enc2 s x t' ze' v').
  Notation nrm := (fun t' ze' v' => norm2 s x t' ze' v').

  Definition Pv (v : value) : Prop := forall t ze b, enc2 s x t ze v = Some b ->
    (b = [] -> ze = true /\ forall f d, default2 f s t = Some d -> norm2 s x t ze v = d) /\
    (b <> [] -> forall fuel rest, (vdepth v <= fuel)%nat ->
                dec2 fuel s x t (b ++ rest) = Some (Ok (norm2 s x t ze v, rest))).

  Lemma empty_struct_enc t ze v p : is_empty_struct s t = true -> enc2 s x t ze v = Some p ->
    v = VStruct [] /\ wrap_obj ze (body_of (x_uidx x t) []) = Some p.
  Proof.
    unfold is_empty_struct. intros He H.
    destruct (nth_error s t) as [[p0|tag [|fd fds]|vars|k ef|kp ef]|] eqn:Et; try discriminate.
    destruct (wf2_lookup s x t _ Hwf Et) as [Hok _]. cbn [tydef_ok2] in Hok.
    apply andb_true_iff in Hok as [_ Hal].
    destruct v as [n|str|bv|fs|ix fs|es]; cbn [enc2] in H; rewrite Et in H; try discriminate.
    destruct (x_alias x t); [discriminate|].
    destruct (x_uidx x t <=? maxInt); [|discriminate].
    destruct fs; [|discriminate]. cbn [enc_items bind_opt] in H. now split.
  Qed.

  Definition nv_of (fd : field) (ov : option value) : option value :=
    match ov with Some v => Some (norm2 s x (f_ty fd) (negb (masked fd)) v) | None => None end.

  Lemma field_step fuel bitf i fd ov it :
    Popt Pv ov ->
    match ov with Some v => (vdepth v <= fuel)%nat | None => True end ->
    bitf i = masked fd && is_empty_struct s (f_ty fd) ->
    enc_item enc bitf i fd ov = Some it ->
    forall tail, dec_item (dec2 fuel s x) (dflt s) (is_empty_struct s) bitf fd i (is_some it) (payload it ++ tail)
                 = Some (Ok (nv_of fd ov, tail)).
  Proof.
    intros HP Hd Hbit He tail. unfold enc_item in He. unfold dec_item, nv_of.
    destruct (masked fd) eqn:Em; cbn [andb negb] in *.
    - destruct ov as [v|].
      + destruct (bitf i) eqn:Eb.
        * destruct v as [| | |[|]| |]; try discriminate. injection He as <-.
          cbn [is_some payload app]. now rewrite norm_empty_value.
        * rewrite <- Hbit.
          destruct (enc2 s x (f_ty fd) false v) as [p|] eqn:Ep; [|discriminate].
          cbn [bind_opt] in He. injection He as <-. cbn [is_some payload].
          cbn [Popt] in HP. destruct (HP _ _ _ Ep) as [_ H2].
          rewrite (H2 (enc2_false_nonempty s x v _ _ Ep) fuel tail Hd). reflexivity.
      + injection He as <-. cbn [is_some payload app].
        destruct (bitf i); [reflexivity|]. rewrite <- Hbit. reflexivity.
    - rewrite Hbit. destruct ov as [v|]; [|discriminate].
      destruct (enc2 s x (f_ty fd) true v) as [p|] eqn:Ep; [|discriminate].
      cbn [bind_opt] in He. injection He as <-.
      cbn [Popt] in HP. destruct (HP _ _ _ Ep) as [H1 H2].
      destruct (is_empty_struct s (f_ty fd)) eqn:Ee.
      + destruct (empty_struct_enc _ _ _ _ Ee Ep) as [-> Hw]. rewrite norm_empty_value.
        destruct p as [|a p]; cbn [is_some payload]; [reflexivity|].
        rewrite (skip_wrap _ _ _ tail Hw) by discriminate. reflexivity.
      + destruct p as [|a p]; cbn [is_some payload].
        * destruct (H1 eq_refl) as [_ Hdf]. destruct (enc2_dflt s x Hwf _ _ _ _ Ep) as [d Hd0].
          rewrite Hd0. now rewrite (Hdf _ _ Hd0).
        * rewrite (H2 ltac:(discriminate) fuel tail Hd). reflexivity.
  Qed.

  Lemma fields_rt2 fuel bitf : forall vs fds i items,
    Forall (Popt Pv) vs ->
    (forall v, In (Some v) vs -> (vdepth v <= fuel)%nat) ->
    bits_ok s bitf i fds = true ->
    enc_items enc bitf i fds vs = Some items ->
    items_ok (dec2 fuel s x) (dflt s) (is_empty_struct s) bitf i fds items (norm_fields nrm fds vs).
  Proof.
    induction vs as [|ov vs IH]; intros fds i items HF Hd Hb H.
    - destruct fds; [|discriminate]. injection H as <-. constructor.
    - destruct fds as [|fd fds]; [discriminate|]. rewrite enc_items_cons in H.
      destruct (enc_item enc bitf i fd ov) as [it|] eqn:Ei; [|discriminate]. cbn [bind_opt] in H.
      destruct (enc_items enc bitf (S i) fds vs) as [its|] eqn:Er; [|discriminate]. cbn [bind_opt] in H.
      injection H as <-.
      apply Forall_cons_iff in HF as [HP HF].
      cbn [bits_ok] in Hb. apply andb_true_iff in Hb as [Hb0 Hb1]. apply Bool.eqb_prop in Hb0.
      cbn [norm_fields]. constructor.
      + apply (field_step fuel bitf i fd ov it HP); [|exact Hb0|exact Ei].
        destruct ov as [v|]; [|exact I]. apply Hd. now left.
      + apply IH; auto. intros v Hv. apply Hd. now right.
  Qed.

  Lemma fields_absent bitf : forall vs fds i items f l,
    Forall (Popt Pv) vs ->
    enc_items enc bitf i fds vs = Some items ->
    forallb (fun o => negb (is_some o)) items = true ->
    default_fields (default2 f s) fds = Some l ->
    norm_fields nrm fds vs = l.
  Proof.
    induction vs as [|ov vs IH]; intros fds i items f l HF H Hall Hdf.
    - destruct fds; [|discriminate]. cbn [default_fields] in Hdf. now injection Hdf as <-.
    - destruct fds as [|fd fds]; [discriminate|]. rewrite enc_items_cons in H.
      destruct (enc_item enc bitf i fd ov) as [it|] eqn:Ei; [|discriminate]. cbn [bind_opt] in H.
      destruct (enc_items enc bitf (S i) fds vs) as [its|] eqn:Er; [|discriminate]. cbn [bind_opt] in H.
      injection H as <-.
      apply Forall_cons_iff in HF as [HP HF].
      cbn [forallb] in Hall. apply andb_true_iff in Hall as [Hit Hall].
      destruct it; [discriminate|].
      cbn [default_fields] in Hdf.
      destruct (default_fields (default2 f s) fds) as [l'|] eqn:El.
      2:{ destruct (masked fd); [discriminate|]. destruct (default2 f s (f_ty fd)); discriminate. }
      cbn [norm_fields]. rewrite (IH fds (S i) its f l' HF Er Hall El).
      unfold enc_item in Ei. destruct (masked fd) eqn:Em.
      + cbn [bind_opt] in Hdf. injection Hdf as <-.
        destruct ov as [v|]; [|reflexivity].
        destruct (bitf i); [destruct v as [| | |[|]| |]; discriminate|].
        destruct (enc2 s x (f_ty fd) false v); discriminate.
      + destruct ov as [v|]; [|discriminate].
        destruct (enc2 s x (f_ty fd) true v) as [p|] eqn:Ep; [|discriminate].
        cbn [bind_opt] in Ei. destruct p; [|discriminate].
        destruct (default2 f s (f_ty fd)) as [d|] eqn:Ed; [|discriminate].
        cbn [bind_opt] in Hdf. injection Hdf as <-.
        cbn [Popt] in HP. destruct (HP _ _ _ Ep) as [H1 _]. destruct (H1 eq_refl) as [_ Hd].
        cbn [negb]. now rewrite (Hd _ _ Ed).
  Qed.

  Lemma obj_cases fuel bitf fds fs idx items :
    Forall (Popt Pv) fs ->
    (forall v, In (Some v) fs -> (vdepth v <= fuel)%nat) ->
    bits_ok s bitf 0 fds = true -> idx <= maxInt ->
    enc_items enc bitf 0 fds fs = Some items ->
    (body_of idx items = [] /\ idx = 0 /\
     forall f l, default_fields (default2 f s) fds = Some l -> norm_fields nrm fds fs = l) \/
    (body_of idx items <> [] /\
     forall get idx', get (if idx =? 0 then None else Some idx) = Some (idx', fds, bitf) ->
       dec_body (dec2 fuel s x) (dflt s) (is_empty_struct s) get (body_of idx items)
       = Some (Ok (idx', norm_fields nrm fds fs))).
  Proof.
    intros HF Hd Hb Hi He.
    destruct (body_of_cases idx items Hi) as [(E & Ez & Hall)|(E & Hc)].
    - left. split; [exact E|]. split; [exact Ez|]. intros f l Hl.
      exact (fields_absent bitf fs fds 0%nat items f l HF He Hall Hl).
    - right. split; [exact E|]. intros get idx' Hg.
      apply (body_rt _ _ _ get _ idx' fds bitf items _ _ (fields_rt2 fuel bitf fs fds 0%nat items HF Hd Hb He) Hg Hc).
  Qed.

End Main.

Lemma vdepth_pos v : (1 <= vdepth v)%nat.
Proof. destruct v; cbn [vdepth]; lia. Qed.

Section Main5.
  Variable s : schema.
  Variable x : tl2x.
  Hypothesis Hwf : wf2 s x = true.

  Notation enc := (fun t' ze' v' => enc2 s x t' ze' v').
  Notation nrm := (fun t' ze' v' => norm2 s x t' ze' v').
  Notation Pv := (Pv s x).

  Lemma prim_P t p v ze b : nth_error s t = Some (TPrim p) -> enc2 s x t ze v = Some b ->
    (b = [] -> ze = true /\ forall f d, default2 f s t = Some d -> norm2 s x t ze v = d) /\
    (b <> [] -> forall fuel rest, (vdepth v <= fuel)%nat ->
                dec2 fuel s x t (b ++ rest) = Some (Ok (norm2 s x t ze v, rest))).
  Proof.
    intros Et H.
    assert (He : enc_prim2 p ze v = Some b) by (destruct v; cbn [enc2] in H; rewrite Et in H; exact H).
    assert (Hn : norm2 s x t ze v = norm_prim p ze v) by (destruct v; cbn [norm2]; rewrite Et; reflexivity).
    rewrite Hn. destruct (prim2_rt p ze v b He) as [H1 H2]. split.
    - intros Hb. destruct (H1 Hb) as [Hz Hd]. split; [exact Hz|].
      intros f d Hf. destruct f; [discriminate|]. cbn [default2] in Hf. rewrite Et in Hf. congruence.
    - intros Hb fuel rest Hd. pose proof (vdepth_pos v). destruct fuel; [lia|].
      cbn [dec2]. rewrite Et. now rewrite (H2 Hb rest).
  Qed.

  (** object level, shared by structs and unions *)
  Lemma obj_P (mk : N -> list (option value) -> value) fds fs bitf idx items ze b get idx' dv :
    Forall (Popt Pv) fs -> bits_ok s bitf 0 fds = true -> idx <= maxInt ->
    enc_items enc bitf 0 fds fs = Some items -> wrap_obj ze (body_of idx items) = Some b ->
    get (if idx =? 0 then None else Some idx) = Some (idx', fds, bitf) ->
    (b = [] -> ze = true /\ idx = 0 /\
               forall f l, default_fields (default2 f s) fds = Some l -> norm_fields nrm fds fs = l) /\
    (b <> [] ->
     (forall d0, dv = Some d0 -> idx = 0 ->
        (forall f l, default_fields (default2 f s) fds = Some l -> norm_fields nrm fds fs = l) ->
        mk idx' (norm_fields nrm fds fs) = d0) ->
     is_some dv = true ->
     forall fuel rest, (forall v, In (Some v) fs -> (vdepth v <= fuel)%nat) ->
       dec_obj (dec2 fuel s x) (dflt s) (is_empty_struct s) get dv mk (b ++ rest)
       = Some (Ok (mk idx' (norm_fields nrm fds fs), rest))).
  Proof.
    intros HF Hb Hi He Hw Hg.
    destruct (body_of_cases idx items Hi) as [(E & Ez & Hall)|(E & Hc)].
    - rewrite E in Hw. cbn [wrap_obj] in Hw. injection Hw as <-.
      assert (Hdef : forall f l, default_fields (default2 f s) fds = Some l -> norm_fields nrm fds fs = l)
        by (intros f l Hl; exact (fields_absent s x bitf fs fds 0%nat items f l HF He Hall Hl)).
      split.
      + intros Hbe. destruct ze; [|discriminate]. auto.
      + intros Hbe Hdv Hsome fuel rest Hd. destruct ze; [congruence|].
        unfold dec_obj. rewrite read_zero. rewrite N.eqb_refl.
        destruct dv as [d0|]; [|discriminate]. rewrite (Hdv d0 eq_refl Ez Hdef). reflexivity.
    - apply wrap_obj_some in Hw as [[Hbody _]|(_ & Hl & ->)]; [congruence|]. split.
      + intros Hbe. apply app_eq_nil in Hbe as [Hbe _]. now apply size2_w_nonempty in Hbe.
      + intros _ _ _ fuel rest Hd. unfold dec_obj.
        rewrite hdr_read by exact Hl. rewrite lenN_nonzero by exact E. rewrite hdr_len.
        rewrite firstn_lenN_app, skipn_lenN_app.
        now rewrite (body_rt _ _ _ get _ idx' fds bitf items _ _
                       (fields_rt2 s x Hwf fuel bitf fs fds 0%nat items HF Hd Hb He) Hg Hc).
  Qed.

  Lemma own_fields_get t fds :
    own_fields x t fds (if x_uidx x t =? 0 then None else Some (x_uidx x t)) = Some (x_uidx x t, fds, x_bit x t).
  Proof. unfold own_fields. destruct (x_uidx x t =? 0); [reflexivity|]. now rewrite N.eqb_refl. Qed.

  Lemma variant_fields_get vars idx vt tag fds :
    nth_error vars idx = Some vt -> nth_error s vt = Some (TStruct tag fds) ->
    variant_fields s x vars (if N.of_nat idx =? 0 then None else Some (N.of_nat idx)) = Some (N.of_nat idx, fds, x_bit x vt).
  Proof.
    intros Hv Hs. assert (Hlt : (idx < length vars)%nat) by (apply nth_error_Some; congruence).
    unfold variant_fields.
    destruct (N.of_nat idx =? 0) eqn:Ez.
    - assert (idx = 0%nat) by lia. subst idx.
      destruct (lenN vars <=? 0) eqn:El; [unfold lenN in El; lia|].
      cbn [N.to_nat]. now rewrite Hv, Hs.
    - destruct (lenN vars <=? N.of_nat idx) eqn:El; [unfold lenN in El; lia|].
      now rewrite Nat2N.id, Hv, Hs.
  Qed.

  Lemma dict_entry_key t kp ef e b :
    nth_error s t = Some (TDict kp ef) -> enc2 s x (f_ty ef) false e = Some b ->
    entry_key (norm2 s x (f_ty ef) false e) = entry_key e.
  Proof.
    intros Et He. destruct (wf2_lookup s x t _ Hwf Et) as [Hok _]. cbn [tydef_ok2] in Hok.
    destruct (nth_error s (f_ty ef)) as [[p|tag [|kf fds]|vars|k ef'|kp' ef']|] eqn:Ee; try discriminate.
    apply andb_true_iff in Hok as [Hok Hk]. apply andb_true_iff in Hok as [Ha Hm].
    apply negb_true_iff in Ha. apply negb_true_iff in Hm.
    destruct (nth_error s (f_ty kf)) as [[p| | | |]|] eqn:Ek; try discriminate.
    destruct e as [n|str|bv|fs|ix fs|es]; cbn [enc2] in He; rewrite Ee in He; try discriminate.
    rewrite Ha in He. cbn [norm2]. rewrite Ee, Ha.
    destruct fs as [|[k|] fs]; cbn [enc_items] in *.
    - destruct (x_uidx x (f_ty ef) <=? maxInt); discriminate.
    - cbn [norm_fields entry_key]. rewrite Hm. cbn [negb].
      destruct k; cbn [norm2]; rewrite Ek; unfold norm_prim; destruct p; try discriminate;
        repeat match goal with |- context [if ?c then _ else _] => destruct c end; reflexivity.
    - rewrite Hm in He. destruct (x_uidx x (f_ty ef) <=? maxInt); discriminate.
  Qed.

  Theorem enc2_dec2_all : forall v, Pv v.
  Proof.
    induction v as [n|str|bv|fs IH|idx fs IH|es IH] using value_ind'; intros t ze b H.
    1-3: (pose proof H as H0; cbn [enc2] in H0; destruct (nth_error s t) as [[p|tag fds|vars|k ef|kp ef]|] eqn:Et; try discriminate;
          exact (prim_P t p _ ze b Et H)).
    - (* VStruct *)
      pose proof H as H0. cbn [enc2] in H0.
      destruct (nth_error s t) as [[p|tag fds|vars|k ef|kp ef]|] eqn:Et; try discriminate.
      { exact (prim_P t p _ ze b Et H). }
      clear H. rename H0 into H.
      destruct (wf2_lookup s x t _ Hwf Et) as [Hok Hdf]. cbn [tydef_ok2] in Hok.
      apply andb_true_iff in Hok as [Hbits Hal].
      assert (Hnorm : norm2 s x t ze (VStruct fs) =
                      if x_alias x t then match fds, fs with
                                          | [fd], [Some v'] => VStruct [Some (norm2 s x (f_ty fd) ze v')]
                                          | _, _ => VStruct fs end
                      else VStruct (norm_fields nrm fds fs)) by (cbn [norm2]; rewrite Et; reflexivity).
      destruct (x_alias x t) eqn:Ea.
      + destruct fds as [|fd [|]]; try discriminate. destruct fs as [|[v'|] [|]]; try discriminate.
        apply negb_true_iff in Hal.
        apply Forall_cons_iff in IH as [IH _]. cbn [Popt] in IH. destruct (IH _ _ _ H) as [H1 H2].
        rewrite Hnorm. split.
        * intros Hb. destruct (H1 Hb) as [Hz Hd]. split; [exact Hz|].
          intros f d Hf. destruct f; [discriminate|]. cbn [default2] in Hf. rewrite Et in Hf.
          cbn [default_fields] in Hf. rewrite Hal in Hf.
          destruct (default2 f s (f_ty fd)) as [d'|] eqn:Ed; [|discriminate].
          cbn [bind_opt] in Hf. injection Hf as <-. now rewrite (Hd _ _ Ed).
        * intros Hb fuel rest Hd. destruct fuel; [cbn in Hd; lia|].
          cbn [dec2]. rewrite Et, Ea.
          rewrite (H2 Hb fuel rest); [reflexivity|].
          apply (depth_fields [Some v'] fuel Hd). now left.
      + destruct (x_uidx x t <=? maxInt) eqn:Eu; [|discriminate].
        destruct (enc_items enc (x_bit x t) 0 fds fs) as [items|] eqn:Ei; [|discriminate].
        cbn [bind_opt] in H. rewrite Hnorm.
        destruct (obj_P (fun _ vs => VStruct vs) fds fs (x_bit x t) (x_uidx x t) items ze b
                        (own_fields x t fds) (x_uidx x t) (dflt s t) IH Hbits ltac:(lia) Ei H (own_fields_get t fds)) as [O1 O2].
        assert (Hdef : (forall f l, default_fields (default2 f s) fds = Some l -> norm_fields nrm fds fs = l) ->
                       forall f d, default2 f s t = Some d -> VStruct (norm_fields nrm fds fs) = d).
        { intros Hl f d Hf. destruct f; [discriminate|]. cbn [default2] in Hf. rewrite Et in Hf.
          destruct (default_fields (default2 f s) fds) as [l|] eqn:El; [|discriminate].
          cbn [bind_opt] in Hf. injection Hf as <-. now rewrite (Hl _ _ El). }
        split.
        * intros Hb. destruct (O1 Hb) as (Hz & _ & Hl). split; [exact Hz|]. now apply Hdef.
        * intros Hb fuel rest Hd. destruct fuel; [cbn in Hd; lia|].
          cbn [dec2]. rewrite Et, Ea. apply O2; [exact Hb| | |exact (depth_fields fs fuel Hd)].
          -- intros d0 Hd0 _ Hl. exact (Hdef Hl _ _ Hd0).
          -- destruct Hdf as [Hdf|Hdf]; [exact Hdf|discriminate].
    - (* VUnion *)
      pose proof H as H0. cbn [enc2] in H0.
      destruct (nth_error s t) as [[p|tag fds0|vars|k ef|kp ef]|] eqn:Et; try discriminate.
      { exact (prim_P t p _ ze b Et H). }
      clear H. rename H0 into H.
      destruct (wf2_lookup s x t _ Hwf Et) as [Hok Hdf].
      destruct (nth_error vars idx) as [vt|] eqn:Ev; [|discriminate].
      destruct (nth_error s vt) as [[p|tag fds|vars'|k ef|kp ef]|] eqn:Es; try discriminate.
      destruct (N.of_nat idx <=? maxInt) eqn:Eu; [|discriminate].
      destruct (enc_items enc (x_bit x vt) 0 fds fs) as [items|] eqn:Ei; [|discriminate].
      cbn [bind_opt] in H.
      destruct (wf2_lookup s x vt _ Hwf Es) as [Hokv _]. cbn [tydef_ok2] in Hokv.
      apply andb_true_iff in Hokv as [Hbits _].
      assert (Hnorm : norm2 s x t ze (VUnion idx fs) = VUnion idx (norm_fields nrm fds fs))
        by (cbn [norm2]; rewrite Et, Ev, Es; reflexivity).
      rewrite Hnorm.
      destruct (obj_P (fun i vs => VUnion (N.to_nat i) vs) fds fs (x_bit x vt) (N.of_nat idx) items ze b
                      (variant_fields s x vars) (N.of_nat idx) (dflt s t) IH Hbits ltac:(lia) Ei H
                      (variant_fields_get vars idx vt tag fds Ev Es)) as [O1 O2].
      rewrite Nat2N.id in O2.
      assert (Hdef : N.of_nat idx = 0 -> (forall f l, default_fields (default2 f s) fds = Some l -> norm_fields nrm fds fs = l) ->
                     forall f d, default2 f s t = Some d -> VUnion idx (norm_fields nrm fds fs) = d).
      { intros Hz Hl f d Hf. assert (idx = 0%nat) by lia. subst idx.
        destruct f; [discriminate|]. cbn [default2] in Hf. rewrite Et in Hf.
        destruct vars as [|vt0 vars0]; [discriminate|]. cbn [nth_error] in Ev. injection Ev as ->.
        rewrite Es in Hf.
        destruct (default_fields (default2 f s) fds) as [l|] eqn:El; [|discriminate].
        cbn [bind_opt] in Hf. injection Hf as <-. now rewrite (Hl _ _ El). }
      split.
      + intros Hb. destruct (O1 Hb) as (Hz & Hi0 & Hl). split; [exact Hz|]. now apply Hdef.
      + intros Hb fuel rest Hd. destruct fuel; [cbn in Hd; lia|].
        cbn [dec2]. rewrite Et. apply O2; [exact Hb| | |exact (depth_fields_u idx fs fuel Hd)].
        * intros d0 Hd0 Hz Hl. exact (Hdef Hz Hl _ _ Hd0).
        * destruct Hdf as [Hdf|Hdf]; [exact Hdf|discriminate].
    - (* VArr *)
      pose proof H as H0. cbn [enc2] in H0.
      destruct (nth_error s t) as [[p|tag fds0|vars|k ef|kp ef]|] eqn:Et; try discriminate.
      { exact (prim_P t p _ ze b Et H). }
      + (* array *)
        clear H. rename H0 into H.
        destruct (fixed_len_ok k (lenN es) && (lenN es <=? maxInt)) eqn:Ec; [|discriminate].
        apply andb_true_iff in Ec as [Efix Elen].
        assert (Hnorm : norm2 s x t ze (VArr es) = VArr (map (fun e => norm2 s x (f_ty ef) false e) es))
          by (cbn [norm2]; rewrite Et; reflexivity).
        rewrite Hnorm.
        destruct es as [|e0 es0] eqn:Ees.
        * injection H as <-. split.
          -- intros Hb. destruct ze; [|discriminate]. split; [reflexivity|].
             intros f d Hf. destruct f; [discriminate|]. cbn [default2] in Hf. rewrite Et in Hf.
             destruct k as [| |c]; try (injection Hf as <-; reflexivity).
             unfold fixed_len_ok in Efix. assert (c = 0) by (apply N.eqb_eq in Efix; unfold lenN in Efix; cbn [length N.of_nat] in Efix; lia). subst c.
             cbn in Hf. now injection Hf as <-.
          -- intros Hb fuel rest Hd. destruct ze; [congruence|]. destruct fuel; [cbn in Hd; lia|].
             cbn [dec2]. rewrite Et, read_zero. cbn [map].
             destruct (lenN rest <? 0) eqn:E0; [lia|]. rewrite N.eqb_refl. cbn [N.to_nat firstn skipn].
             destruct k as [| |c].
             ++ cbn [lenN length]. reflexivity.
             ++ cbn [lenN length]. reflexivity.
             ++ unfold fixed_len_ok in Efix. assert (c = 0) by (apply N.eqb_eq in Efix; unfold lenN in Efix; cbn [length N.of_nat] in Efix; lia). subst c.
                reflexivity.
        * rewrite <- Ees in *.
          destruct (enc_elems (fun e => enc2 s x (f_ty ef) false e) es) as [body|] eqn:Ee; [|discriminate].
          assert (Hne : es <> []) by (rewrite Ees; discriminate).
          assert (H' : wrap_obj ze (size2_w (lenN es) ++ body) = Some b) by (rewrite Ees in *; exact H).
          clear H. apply wrap_obj_some in H' as [[Hnil _]|(_ & Hl & ->)].
          { apply app_eq_nil in Hnil as [Hnil _]. now apply size2_w_nonempty in Hnil. }
          split.
          -- intros Hb. apply app_eq_nil in Hb as [Hb _]. now apply size2_w_nonempty in Hb.
          -- intros _ fuel rest Hd. destruct fuel; [cbn in Hd; lia|].
             cbn [dec2]. rewrite Et. rewrite hdr_read by exact Hl. rewrite hdr_len.
             rewrite firstn_lenN_app, skipn_lenN_app.
             rewrite lenN_nonzero by (intros E; apply app_eq_nil in E as [E _]; now apply size2_w_nonempty in E).
             rewrite size2_roundtrip by lia.
             assert (HFe : Forall (fun e => forall b0 rest0, enc2 s x (f_ty ef) false e = Some b0 ->
                             dec2 fuel s x (f_ty ef) (b0 ++ rest0) = Some (Ok (norm2 s x (f_ty ef) false e, rest0))) es).
             { rewrite Forall_forall in *. intros e He b0 rest0 Hb0.
               destruct (IH e He _ _ _ Hb0) as [_ H2]. apply H2; [exact (enc2_false_nonempty s x e _ _ Hb0)|].
               cbn [vdepth] in Hd. pose proof (depth_elems_le es e He). lia. }
             pose proof (elems_rt2 _ _ _ es body [] HFe Ee) as Hel. rewrite app_nil_r in Hel.
             assert (Hge : lenN es <= lenN body).
             { apply (elems_len (fun e => enc2 s x (f_ty ef) false e)); [|exact Ee].
               intros e b0 _ Hb0. exact (enc2_false_nonempty s x e _ _ Hb0). }
             destruct k as [| |c].
             ++ destruct (lenN body <? lenN es) eqn:E1; [lia|]. unfold lenN at 1. rewrite Nat2N.id, Hel. reflexivity.
             ++ destruct (lenN body <? lenN es) eqn:E1; [lia|]. unfold lenN at 1. rewrite Nat2N.id, Hel. reflexivity.
             ++ unfold fixed_len_ok in Efix. apply N.eqb_eq in Efix. subst c.
                rewrite N.min_id. unfold lenN at 1. rewrite Nat2N.id, Hel. now rewrite N.eqb_refl.
      + (* dict *)
        clear H. rename H0 into H.
        destruct (keys_sorted kp es && (lenN es <=? maxInt)) eqn:Ec; [|discriminate].
        apply andb_true_iff in Ec as [Esort Elen].
        assert (Hnorm : norm2 s x t ze (VArr es) = VArr (map (fun e => norm2 s x (f_ty ef) false e) es))
          by (cbn [norm2]; rewrite Et; reflexivity).
        rewrite Hnorm.
        destruct es as [|e0 es0] eqn:Ees.
        * injection H as <-. split.
          -- intros Hb. destruct ze; [|discriminate]. split; [reflexivity|].
             intros f d Hf. destruct f; [discriminate|]. cbn [default2] in Hf. rewrite Et in Hf. now injection Hf as <-.
          -- intros Hb fuel rest Hd. destruct ze; [congruence|]. destruct fuel; [cbn in Hd; lia|].
             cbn [dec2]. rewrite Et, read_zero. cbn [map].
             destruct (lenN rest <? 0) eqn:E0; [lia|]. rewrite N.eqb_refl. cbn [N.to_nat firstn skipn]. reflexivity.
        * rewrite <- Ees in *.
          destruct (enc_elems (fun e => enc2 s x (f_ty ef) false e) es) as [body|] eqn:Ee; [|discriminate].
          assert (H' : wrap_obj ze (size2_w (lenN es) ++ body) = Some b) by (rewrite Ees in *; exact H).
          clear H. apply wrap_obj_some in H' as [[Hnil _]|(_ & Hl & ->)].
          { apply app_eq_nil in Hnil as [Hnil _]. now apply size2_w_nonempty in Hnil. }
          split.
          -- intros Hb. apply app_eq_nil in Hb as [Hb _]. now apply size2_w_nonempty in Hb.
          -- intros _ fuel rest Hd. destruct fuel; [cbn in Hd; lia|].
             cbn [dec2]. rewrite Et. rewrite hdr_read by exact Hl. rewrite hdr_len.
             rewrite firstn_lenN_app, skipn_lenN_app.
             rewrite lenN_nonzero by (intros E; apply app_eq_nil in E as [E _]; now apply size2_w_nonempty in E).
             rewrite size2_roundtrip by lia.
             assert (HFe : Forall (fun e => forall b0 rest0, enc2 s x (f_ty ef) false e = Some b0 ->
                             dec2 fuel s x (f_ty ef) (b0 ++ rest0) = Some (Ok (norm2 s x (f_ty ef) false e, rest0))) es).
             { rewrite Forall_forall in *. intros e He b0 rest0 Hb0.
               destruct (IH e He _ _ _ Hb0) as [_ H2]. apply H2; [exact (enc2_false_nonempty s x e _ _ Hb0)|].
               cbn [vdepth] in Hd. pose proof (depth_elems_le es e He). lia. }
             pose proof (elems_rt2 _ _ _ es body [] HFe Ee) as Hel. rewrite app_nil_r in Hel.
             assert (Hge : lenN es <= lenN body).
             { apply (elems_len (fun e => enc2 s x (f_ty ef) false e)); [|exact Ee].
               intros e b0 _ Hb0. exact (enc2_false_nonempty s x e _ _ Hb0). }
             destruct (lenN body <? lenN es) eqn:E1; [lia|]. unfold lenN at 1. rewrite Nat2N.id, Hel.
             rewrite (dict_fold_sorted kp _ []); [reflexivity|]. cbn [app].
             rewrite keys_sorted_map; [exact Esort|].
             intros e He. 
             assert (exists b0, enc2 s x (f_ty ef) false e = Some b0) as [b0 Hb0].
             { clear - Ee He. revert body Ee. induction es as [|e1 es1 IHe]; intros body Ee; [destruct He|].
               cbn [enc_elems] in Ee. destruct (enc2 s x (f_ty ef) false e1) as [b1|] eqn:E1; [|discriminate].
               cbn [bind_opt] in Ee. destruct (enc_elems _ es1) as [b2|] eqn:E2; [|discriminate].
               destruct He as [->|He]; [now exists b1|]. exact (IHe He _ eq_refl). }
             exact (dict_entry_key t kp ef e b0 Et Hb0).
  Qed.
End Main5.

Lemma enc_prim2_norm p ze v b : enc_prim2 p ze v = Some b -> enc_prim2 p ze (norm_prim p ze v) = Some b.
Proof.
  unfold norm_prim. destruct (ze && prim_zero p v) eqn:Ez; [|auto].
  apply andb_true_iff in Ez as [-> Ez].
  destruct p; auto; destruct v as [n| | | | |]; cbn [enc_prim2 prim_zero] in *; try discriminate;
    rewrite Ez; cbn [andb]; (destruct (n <? _); [|discriminate]); intros H; injection H as <-; reflexivity.
Qed.

Lemma enc_elems_map (rec : value -> option bytes) (f : value -> value) : forall es body,
  (forall e b, In e es -> rec e = Some b -> rec (f e) = Some b) ->
  enc_elems rec es = Some body -> enc_elems rec (map f es) = Some body.
Proof.
  induction es as [|e es IH]; intros body Hf H; [exact H|].
  cbn [enc_elems map] in *. destruct (rec e) as [b1|] eqn:E1; [|discriminate]. cbn [bind_opt] in H.
  destruct (enc_elems rec es) as [b2|] eqn:E2; [|discriminate]. cbn [bind_opt] in H.
  rewrite (Hf e b1 (or_introl eq_refl) E1). cbn [bind_opt].
  rewrite (IH b2 (fun e' b' Hi => Hf e' b' (or_intror Hi)) eq_refl). exact H.
Qed.

Lemma enc_elems_each (rec : value -> option bytes) : forall es body e,
  enc_elems rec es = Some body -> In e es -> exists b, rec e = Some b.
Proof.
  induction es as [|e1 es IH]; intros body e H Hi; [destruct Hi|].
  cbn [enc_elems] in H. destruct (rec e1) as [b1|] eqn:E1; [|discriminate]. cbn [bind_opt] in H.
  destruct (enc_elems rec es) as [b2|] eqn:E2; [|discriminate].
  destruct Hi as [->|Hi]; [now exists b1|]. exact (IH _ _ eq_refl Hi).
Qed.

Lemma enc2_prim s x t p ze v : nth_error s t = Some (TPrim p) -> enc2 s x t ze v = enc_prim2 p ze v.
Proof. intros Et. destruct v; cbn [enc2]; rewrite Et; reflexivity. Qed.

Section Rewrite.
  Variable s : schema.
  Variable x : tl2x.
  Hypothesis Hwf : wf2 s x = true.
  Notation enc := (fun t' ze' v' => enc2 s x t' ze' v').
  Notation nrm := (fun t' ze' v' => norm2 s x t' ze' v').

  Definition Qv (v : value) : Prop := forall t ze b, enc2 s x t ze v = Some b -> enc2 s x t ze (norm2 s x t ze v) = Some b.

  Lemma enc_items_norm bitf : forall vs fds i items,
    Forall (Popt Qv) vs ->
    enc_items enc bitf i fds vs = Some items ->
    enc_items enc bitf i fds (norm_fields nrm fds vs) = Some items.
  Proof.
    induction vs as [|ov vs IH]; intros fds i items HF H.
    - destruct fds; [exact H|discriminate].
    - destruct fds as [|fd fds]; [discriminate|]. cbn [norm_fields]. rewrite enc_items_cons in *.
      apply Forall_cons_iff in HF as [HQ HF].
      destruct (enc_item enc bitf i fd ov) as [it|] eqn:Ei; [|discriminate]. cbn [bind_opt] in H.
      destruct (enc_items enc bitf (S i) fds vs) as [its|] eqn:Er; [|discriminate].
      rewrite (IH fds (S i) its HF Er).
      assert (Hit : enc_item enc bitf i fd (match ov with Some v => Some (norm2 s x (f_ty fd) (negb (masked fd)) v) | None => None end) = Some it).
      { unfold enc_item in *. destruct (masked fd); cbn [negb]; destruct ov as [v|]; try exact Ei.
        - destruct (bitf i).
          + destruct v as [| | |[|]| |]; try discriminate. now rewrite norm_empty_value.
          + destruct (enc2 s x (f_ty fd) false v) as [p|] eqn:Ep; [|discriminate].
            cbn [Popt] in HQ. now rewrite (HQ _ _ _ Ep).
        - destruct (enc2 s x (f_ty fd) true v) as [p|] eqn:Ep; [|discriminate].
          cbn [Popt] in HQ. now rewrite (HQ _ _ _ Ep). }
      rewrite Hit. exact H.
  Qed.

  Theorem enc2_norm_all : forall v, Qv v.
  Proof.
    induction v as [n|str|bv|fs IH|idx fs IH|es IH] using value_ind'; intros t ze b H.
    1-3: (cbn [enc2 norm2] in *; destruct (nth_error s t) as [[p|tag fds|vars|k ef|kp ef]|] eqn:Et; try discriminate;
          rewrite (enc2_prim s x t p ze _ Et); now apply enc_prim2_norm).
    - cbn [enc2 norm2] in *. destruct (nth_error s t) as [[p|tag fds|vars|k ef|kp ef]|] eqn:Et; try discriminate.
      { destruct p; discriminate. }
      destruct (x_alias x t) eqn:Ea.
      + destruct fds as [|fd [|]]; try discriminate. destruct fs as [|[v'|] [|]]; try discriminate.
        apply Forall_cons_iff in IH as [IH _]. cbn [Popt] in IH.
        cbn [enc2]. rewrite Et, Ea. now apply IH.
      + destruct (x_uidx x t <=? maxInt) eqn:Eu; [|discriminate].
        destruct (enc_items enc (x_bit x t) 0 fds fs) as [items|] eqn:Ei; [|discriminate].
        cbn [enc2]. rewrite Et, Ea, Eu. now rewrite (enc_items_norm _ fs fds 0%nat items IH Ei).
    - cbn [enc2 norm2] in *. destruct (nth_error s t) as [[p|tag fds0|vars|k ef|kp ef]|] eqn:Et; try discriminate.
      { destruct p; discriminate. }
      destruct (nth_error vars idx) as [vt|] eqn:Ev; [|discriminate].
      destruct (nth_error s vt) as [[p|tag fds|vars'|k ef|kp ef]|] eqn:Es; try discriminate.
      destruct (N.of_nat idx <=? maxInt) eqn:Eu; [|discriminate].
      destruct (enc_items enc (x_bit x vt) 0 fds fs) as [items|] eqn:Ei; [|discriminate].
      cbn [enc2]. rewrite Et, Ev, Es, Eu. now rewrite (enc_items_norm _ fs fds 0%nat items IH Ei).
    - cbn [enc2 norm2] in *. destruct (nth_error s t) as [[p|tag fds0|vars|k ef|kp ef]|] eqn:Et; try discriminate.
      { destruct p; discriminate. }
      + cbn [enc2]. rewrite Et. unfold lenN in *. rewrite map_length.
        destruct (fixed_len_ok k (N.of_nat (length es)) && (N.of_nat (length es) <=? maxInt)); [|discriminate].
        destruct es as [|e0 es0]; [exact H|]. cbn [map].
        change (norm2 s x (f_ty ef) false e0 :: map (fun e => norm2 s x (f_ty ef) false e) es0)
          with (map (fun e => norm2 s x (f_ty ef) false e) (e0 :: es0)).
        destruct (enc_elems (fun e => enc2 s x (f_ty ef) false e) (e0 :: es0)) as [body|] eqn:Ee; [|discriminate].
        rewrite (enc_elems_map _ _ _ body); [exact H| |exact Ee].
        intros e b0 Hi Hb0. rewrite Forall_forall in IH. exact (IH e Hi _ _ _ Hb0).
      + cbn [enc2]. rewrite Et. unfold lenN in *. rewrite map_length.
        destruct (keys_sorted kp es) eqn:Ek; [|discriminate]. cbn [andb] in *.
        destruct (N.of_nat (length es) <=? maxInt); [|discriminate].
        destruct es as [|e0 es0]; [exact H|].
        destruct (enc_elems (fun e => enc2 s x (f_ty ef) false e) (e0 :: es0)) as [body|] eqn:Ee; [|discriminate].
        rewrite keys_sorted_map.
        2:{ intros e Hi. destruct (enc_elems_each _ _ _ e Ee Hi) as [b0 Hb0].
            exact (dict_entry_key s x Hwf t kp ef e b0 Et Hb0). }
        rewrite Ek. cbn [andb map].
        change (norm2 s x (f_ty ef) false e0 :: map (fun e => norm2 s x (f_ty ef) false e) es0)
          with (map (fun e => norm2 s x (f_ty ef) false e) (e0 :: es0)).
        rewrite (enc_elems_map _ _ _ body); [exact H| |exact Ee].
        intros e b0 Hi Hb0. rewrite Forall_forall in IH. exact (IH e Hi _ _ _ Hb0).
  Qed.
End Rewrite.

(** * top-level statements *)
Theorem enc2_dec2 s x : wf2 s x = true ->
  forall v t b fuel rest, enc2 s x t false v = Some b -> (vdepth v <= fuel)%nat ->
    dec2 fuel s x t (b ++ rest) = Some (Ok (norm2 s x t false v, rest)).
Proof.
  intros Hwf v t b fuel rest H Hd.
  destruct (enc2_dec2_all s x Hwf v t false b H) as [_ H2].
  exact (H2 (enc2_false_nonempty s x v t b H) fuel rest Hd).
Qed.

(** * values without a float/double are their own normal form *)
Definition no_float (s : schema) : bool :=
  forallb (fun d => match d with TPrim PFloat | TPrim PDouble => false | _ => true end) s.

Lemma norm_fields_id (rec : nat -> bool -> value -> value) : forall vs fds,
  Forall (Popt (fun v => forall t ze, rec t ze v = v)) vs -> norm_fields rec fds vs = vs.
Proof.
  induction vs as [|ov vs IH]; intros fds HF; destruct fds as [|fd fds]; try reflexivity.
  apply Forall_cons_iff in HF as [Ho HF]. cbn [norm_fields]. rewrite (IH fds HF).
  destruct ov as [v|]; [|reflexivity]. cbn [Popt] in Ho. now rewrite Ho.
Qed.

Lemma norm2_no_float s x : no_float s = true -> forall v t ze, norm2 s x t ze v = v.
Proof.
  intros Hnf.
  assert (Hp : forall t p ze v, nth_error s t = Some (TPrim p) -> norm_prim p ze v = v).
  { intros t p ze v Et. unfold no_float in Hnf. rewrite forallb_forall in Hnf.
    specialize (Hnf _ (nth_error_In _ _ Et)). unfold norm_prim.
    destruct p; try discriminate; destruct (ze && _); reflexivity. }
  induction v as [n|str|bv|fs IH|idx fs IH|es IH] using value_ind'; intros t ze; cbn [norm2];
    destruct (nth_error s t) as [[p|tag fds|vars|k ef|kp ef]|] eqn:Et; try reflexivity; try (now apply (Hp t)).
  - destruct (x_alias x t).
    + destruct fds as [|fd [|]]; try reflexivity. destruct fs as [|[v'|] [|]]; try reflexivity.
      apply Forall_cons_iff in IH as [IH _]. cbn [Popt] in IH. now rewrite IH.
    + now rewrite norm_fields_id.
  - destruct (nth_error vars idx) as [vt|]; [|reflexivity].
    destruct (nth_error s vt) as [[p|tag fds|vars'|k ef|kp ef]|]; try reflexivity.
    now rewrite norm_fields_id.
  - f_equal. rewrite <- (map_id es) at 2. apply map_ext_in. intros e He.
    rewrite Forall_forall in IH. now apply IH.
  - f_equal. rewrite <- (map_id es) at 2. apply map_ext_in. intros e He.
    rewrite Forall_forall in IH. now apply IH.
Qed.

(** * TL1 -> TL2 -> TL1 *)
Theorem tl1_tl2_tl1 san s x : wf2 s x = true ->
  forall v t bare ps b1 fuel, enc1 san s t bare ps v = Some b1 -> (vdepth v <= fuel)%nat ->
    dec1 fuel san s t bare ps b1 = Some (Ok (v, [])) /\
    forall b2, enc2 s x t false v = Some b2 -> norm2 s x t false v = v ->
      dec2 fuel s x t b2 = Some (Ok (v, [])).
Proof.
  intros Hwf v t bare ps b1 fuel H1 Hd. split.
  - pose proof (enc1_dec1 san s (wf2_wf1 s x Hwf) v fuel Hd t bare ps b1 [] H1) as R.
    now rewrite app_nil_r in R.
  - intros b2 H2 Hn. pose proof (enc2_dec2 s x Hwf v t b2 fuel [] H2 Hd) as R.
    now rewrite app_nil_r, Hn in R.
Qed.
