(** M4 -- the TL2 codec of the generated Go code over the resolved schema IR of Tl1Model
    (TL1-origin schemas generated with --tl2WhiteList), executable definitions only.

    Mirrors: internal/puregen/gengo/qt_struct.qtpl (CalculateLayout / InternalWriteTL2 /
    InternalReadTL2), qt_union.qtpl, qt_maybe.qtpl (a Maybe is the union [resultFalse; resultTrue]),
    qt_brackets.qtpl (vector / dynamic tuple / fixed tuple), qt_dict.qtpl (map-backed),
    type_rw_*_tl2.go (per-type call shapes: zeroIfEmpty, alias/unwrap transparency, the
    true-type special cases, Bool as a byte), pkg/basictl/basictl2.go (sizes, SkipSizedValue).

    Values are Tl1Model.value: the Go object state observable through the generated API.
    [VStruct fs]: one entry per field; [None] = the field's tl2mask presence bit is clear (only
    fields with a TL1 field mask have such a bit, and ReadTL1 / ReadTL2 / FillRandom / setters
    keep the stored Go value reset when the bit is clear).  The TL1 mask field itself is an
    ordinary nat field.  TL2 does not use nat parameters at all (array lengths are on the wire).

    The writer is modelled in one pass: the body of an object is built first and prefixed by
    its size (this is what internal/pure/onthefly FinishSize does).  The generated code computes
    the same sizes in a first pass (CalculateLayout) and consumes them in the second
    (InternalWriteTL2); the two passes are NOT modelled separately -- their disagreement shows as
    a Go panic ("mismatch between calculate and write", "did not consume all size data"), which
    the checks treat as a violation. *)
From Coq Require Export List NArith ZArith Bool.
From TLV Require Export Prim.PrimModel Tl1.Tl1Model.
Export ListNotations.
Open Scope N_scope.

(** * TL2 side information of the IR (not needed by TL1):
    [x_alias t]: struct instance [t] is an alias/typedef/unwrap (IsAlias(): a single anonymous
    unmasked field, not a union element, not a function) -- transparent in TL2;
    [x_bit t i]: field [i] of struct [t] IsBit() (a masked field of type [true]): presence bit only;
    [x_uidx t]: UnionIndex() of struct [t] (0 when it is not a union element) -- a union element
    is also an object of its own whose WriteTL2 writes this index and whose ReadTL2 checks it. *)
Record tl2x := mkX { x_alias : nat -> bool; x_bit : nat -> nat -> bool; x_uidx : nat -> N }.

Definition masked (fd : field) : bool :=
  match f_mask fd with Some _ => true | None => false end.

(** TypeRWWrapper.IsTrueType(): a struct without fields *)
Definition is_empty_struct (s : schema) (t : nat) : bool :=
  match nth_error s t with Some (TStruct _ []) => true | _ => false end.

(** * Primitives *)
(** the generated test [if item.F != 0] / [len(item.F) != 0] / [if item.F]; for floats Go's
    [!=] compares numerically: -0.0 == 0 (and NaN != 0) *)
Definition prim_zero (p : prim) (v : value) : bool :=
  match p, v with
  | PNat, VNum n | PInt, VNum n | PLong, VNum n => n =? 0
  | PFloat, VNum n => (n =? 0) || (n =? 2147483648)
  | PDouble, VNum n => (n =? 0) || (n =? 9223372036854775808)
  | PString, VStr s => match s with [] => true | _ => false end
  | PBool _ _, VBool b => negb b
  | _, _ => false
  end.

(** [ze] = zeroIfEmpty / optimizeEmpty: the value is a non-optional struct field and is
    omitted when it is the default *)
Definition enc_prim2 (p : prim) (ze : bool) (v : value) : option bytes :=
  match p, v with
  | PNat, VNum n | PInt, VNum n | PFloat, VNum n =>
      if n <? 4294967296 then Some (if ze && prim_zero p v then [] else le_bytes 4 n) else None
  | PLong, VNum n | PDouble, VNum n =>
      if n <? 18446744073709551616 then Some (if ze && prim_zero p v then [] else le_bytes 8 n) else None
  | PString, VStr str =>
      if lenN str <=? maxInt then Some (if ze && prim_zero p v then [] else str2_w str) else None
  | PBool _ _, VBool b => Some (if ze && negb b then [] else [if b then 1 else 0])
  | _, _ => None
  end.

Definition prim_default (p : prim) : option value :=
  match p with
  | PNat | PInt | PFloat | PLong | PDouble => Some (VNum 0)
  | PString => Some (VStr [])
  | PBool _ _ => Some (VBool false)
  | PNoTL1 => None
  end.

(** errors are not classified in this model: every read error is [Reject] *)
Definition dec_prim2 (p : prim) (b : bytes) : res (value * bytes) :=
  match p with
  | PNat | PInt | PFloat =>
      match nat_r b with Ok (n, r) => Ok (VNum n, r) | _ => Reject end
  | PLong | PDouble =>
      match long_r b with Ok (n, r) => Ok (VNum n, r) | _ => Reject end
  | PString =>
      match str2_r b with Ok (str, r) => Ok (VStr str, r) | _ => Reject end
  | PBool _ _ =>                                  (* ByteBoolReadTL2: any non-zero byte is true *)
      match b with [] => Reject | x :: r => Ok (VBool (negb (x =? 0)), r) end
  | PNoTL1 => Reject
  end.

(** SkipSizedValue *)
Definition skip_sized (b : bytes) : res bytes :=
  match size2_r b with
  | Ok (l, r) => if lenN r <? l then Reject else Ok (skipn (N.to_nat l) r)
  | _ => Reject
  end.

(** * Writer *)
(** FinishSize / the size bookkeeping of CalculateLayout: an empty body is the one byte 0, or
    nothing at all when the object is a non-optional field ([ze]).  Sizes above MaxInt do not
    exist in Go ([None]). *)
Definition wrap_obj (ze : bool) (body : bytes) : option bytes :=
  match body with
  | [] => Some (if ze then [] else [0])
  | _ => if lenN body <=? maxInt then Some (size2_w (lenN body) ++ body) else None
  end.

Definition is_some {A} (o : option A) : bool := match o with Some _ => true | None => false end.
Definition payload (o : option bytes) : bytes := match o with Some p => p | None => [] end.

(** presence blocks: [chunk8] cuts the slot list (slot 0 = variant-index flag, then the
    fields) into groups of 8; a group is its block byte followed by the payloads; trailing
    groups without any present slot are not written (lastUsedByte), inner ones are explicit 0 *)
Fixpoint chunk8 {A} (fuel : nat) (l : list A) : list (list A) :=
  match fuel with
  | O => []
  | S f => match l with [] => [] | _ => firstn 8 l :: chunk8 f (skipn 8 l) end
  end.

Definition enc_group (g : list (option bytes)) : bytes :=
  bits_val (map is_some g) :: concat (map payload g).

Definition group_empty (g : list (option bytes)) : bool := forallb (fun o => negb (is_some o)) g.

Fixpoint trim (gs : list (list (option bytes))) : list (list (option bytes)) :=
  match gs with
  | [] => []
  | g :: r => match trim r with
              | [] => if group_empty g then [] else [g]
              | r' => g :: r'
              end
  end.

Definition idx_slot (idx : N) : option bytes := if idx =? 0 then None else Some (size2_w idx).

(** the first block has the index flag and 7 field bits, every later block 8 field bits *)
Definition body_of (idx : N) (items : list (option bytes)) : bytes :=
  let g0 := idx_slot idx :: firstn 7 items in
  let tl := skipn 7 items in
  concat (map enc_group (trim (g0 :: chunk8 (length tl) tl))).

Section EncItems.
  Variable rec : nat -> bool -> value -> option bytes.
  Variable bitf : nat -> bool.

  (** one entry per field: [None] = absent (block bit clear), [Some p] = present with payload [p] *)
  Fixpoint enc_items (i : nat) (fds : list field) (vs : list (option value)) {struct vs}
    : option (list (option bytes)) :=
    match fds, vs with
    | [], [] => Some []
    | fd :: fds', ov :: vs' =>
        let it :=
          if masked fd then
            match ov with
            | None => Some None
            | Some v =>
                if bitf i then match v with VStruct [] => Some (Some []) | _ => None end
                else bind_opt (rec (f_ty fd) false v) (fun p => Some (Some p))
            end
          else
            match ov with
            | None => None                      (* a non-optional field always has a value *)
            | Some v => bind_opt (rec (f_ty fd) true v)
                          (fun p => Some (match p with [] => None | _ => Some p end))
            end in
        bind_opt it (fun x => bind_opt (enc_items (S i) fds' vs') (fun r => Some (x :: r)))
    | _, _ => None
    end.
End EncItems.

Definition fixed_len_ok (k : arrkind) (n : N) : bool :=
  match k with ATupleFixed c => n =? c | _ => true end.

Fixpoint enc2 (s : schema) (x : tl2x) (t : nat) (ze : bool) (v : value) {struct v} : option bytes :=
  match nth_error s t with
  | None => None
  | Some (TPrim p) => enc_prim2 p ze v
  | Some (TStruct _ fds) =>
      match v with
      | VStruct fs =>
          if x_alias x t then
            match fds, fs with
            | [fd], [Some v'] => enc2 s x (f_ty fd) ze v'
            | _, _ => None
            end
          else
            if x_uidx x t <=? maxInt then
              bind_opt (enc_items (fun t' ze' v' => enc2 s x t' ze' v') (x_bit x t) 0 fds fs)
                       (fun items => wrap_obj ze (body_of (x_uidx x t) items))
            else None
      | _ => None
      end
  | Some (TUnion vars) =>
      match v with
      | VUnion idx fs =>
          match nth_error vars idx with
          | Some vt =>
              match nth_error s vt with
              | Some (TStruct _ fds) =>
                  if N.of_nat idx <=? maxInt then
                    bind_opt (enc_items (fun t' ze' v' => enc2 s x t' ze' v') (x_bit x vt) 0 fds fs)
                             (fun items => wrap_obj ze (body_of (N.of_nat idx) items))
                  else None
              | _ => None
              end
          | None => None
          end
      | _ => None
      end
  | Some (TArray k ef) =>
      match v with
      | VArr es =>
          if fixed_len_ok k (lenN es) && (lenN es <=? maxInt) then
            match es with
            | [] => Some (if ze then [] else [0])
            | _ => bind_opt (enc_elems (fun e => enc2 s x (f_ty ef) false e) es)
                            (fun body => wrap_obj ze (size2_w (lenN es) ++ body))
            end
          else None
      | _ => None
      end
  | Some (TDict kp ef) =>
      match v with
      | VArr es =>
          if keys_sorted kp es && (lenN es <=? maxInt) then
            match es with
            | [] => Some (if ze then [] else [0])
            | _ => bind_opt (enc_elems (fun e => enc2 s x (f_ty ef) false e) es)
                            (fun body => wrap_obj ze (size2_w (lenN es) ++ body))
            end
          else None
      | _ => None
      end
  end.

(** * Defaults (Reset / TypeResettingCode); [None] = the default object is infinite
    (a union whose first variant contains the union again without a mask/array in between)
    or the type is not a TL1-origin type *)
Section DefaultFields.
  Variable rec : nat -> option value.
  Fixpoint default_fields (fds : list field) : option (list (option value)) :=
    match fds with
    | [] => Some []
    | fd :: r =>
        bind_opt (if masked fd then Some None else bind_opt (rec (f_ty fd)) (fun d => Some (Some d)))
                 (fun o => bind_opt (default_fields r) (fun l => Some (o :: l)))
    end.
End DefaultFields.

Fixpoint default2 (fuel : nat) (s : schema) (t : nat) : option value :=
  match fuel with
  | O => None
  | S f =>
      match nth_error s t with
      | None => None
      | Some (TPrim p) => prim_default p
      | Some (TStruct _ fds) => bind_opt (default_fields (default2 f s) fds) (fun l => Some (VStruct l))
      | Some (TUnion vars) =>
          match vars with
          | vt :: _ =>
              match nth_error s vt with
              | Some (TStruct _ fds) => bind_opt (default_fields (default2 f s) fds) (fun l => Some (VUnion 0 l))
              | _ => None
              end
          | [] => None
          end
      | Some (TArray k ef) =>
          match k with
          | ATupleFixed c =>
              if c =? 0 then Some (VArr [])
              else bind_opt (default2 f s (f_ty ef)) (fun d => Some (VArr (repeat d (N.to_nat c))))
          | _ => Some (VArr [])
          end
      | Some (TDict _ _) => Some (VArr [])
      end
  end.

Definition dflt (s : schema) (t : nat) : option value := default2 (S (length s)) s t.

(** * Reader, on fuel ([None] = out of fuel) *)
Definition d2 := option (res (value * bytes)).

Section DecItems.
  Variable rec : nat -> bytes -> d2.
  Variable dfl : nat -> option value.
  Variable empt : nat -> bool.
  Variable bitf : nat -> bool.

  (** one field: [set] = its bit in the current block, [i] = its index in the struct *)
  Definition dec_item (fd : field) (i : nat) (set : bool) (cur : bytes)
    : option (res (option value * bytes)) :=
    if bitf i then Some (Ok (if set then Some (VStruct []) else None, cur))
    else if empt (f_ty fd) then
      (* field.IsTL2Omitted() || field.t.IsTrueType(): skipped, no presence bit is recorded *)
      let o := if masked fd then None else Some (VStruct []) in
      if set then match skip_sized cur with Ok cur' => Some (Ok (o, cur')) | _ => Some Reject end
      else Some (Ok (o, cur))
    else if set then
      match rec (f_ty fd) cur with
      | Some (Ok (v, cur')) => Some (Ok (Some v, cur'))
      | Some _ => Some Reject
      | None => None
      end
    else if masked fd then Some (Ok (None, cur))
    else match dfl (f_ty fd) with Some d => Some (Ok (Some d, cur)) | None => Some Reject end.

  (** fields [g] of one block; [k] = bit number of the first one, [i] = its field index *)
  Fixpoint dec_items (g : list field) (k : N) (i : nat) (block : N) (cur : bytes)
    : option (res (list (option value) * bytes)) :=
    match g with
    | [] => Some (Ok ([], cur))
    | fd :: g' =>
        match dec_item fd i (N.testbit block k) cur with
        | Some (Ok (o, cur')) =>
            match dec_items g' (k + 1) (S i) block cur' with
            | Some (Ok (vs, cur'')) => Some (Ok (o :: vs, cur''))
            | Some _ => Some Reject
            | None => None
            end
        | Some _ => Some Reject
        | None => None
        end
    end.

  (** the blocks after the first one: "start the next block" reads a byte when one is left *)
  Fixpoint dec_groups (gs : list (list field)) (i : nat) (cur : bytes)
    : option (res (list (option value))) :=
    match gs with
    | [] => Some (Ok [])
    | g :: gs' =>
        let bc := match cur with [] => (0, []) | b :: r => (b, r) end in
        match dec_items g 0 i (fst bc) (snd bc) with
        | Some (Ok (vs, cur2)) =>
            match dec_groups gs' (i + length g)%nat cur2 with
            | Some (Ok vs') => Some (Ok (vs ++ vs'))
            | e => e
            end
        | Some _ => Some Reject
        | None => None
        end
    end.
End DecItems.

(** body of an object: first block, optional variant index, the fields of the variant *)
Definition dec_body (rec : nat -> bytes -> d2) (dfl : nat -> option value) (empt : nat -> bool)
           (get : option N -> option (N * list field * (nat -> bool))) (cur : bytes)
  : option (res (N * list (option value))) :=
  match cur with
  | [] => Some Reject
  | block :: cur1 =>
      match (if N.testbit block 0 then
               match size2_r cur1 with Ok (i, r) => Ok (Some i, r) | _ => Reject end
             else Ok (None, cur1)) with
      | Ok (oi, cur2) =>
          match get oi with
          | None => Some Reject
          | Some (idx, fds, bitf) =>
              match dec_items rec dfl empt bitf (firstn 7 fds) 1 0 block cur2 with
              | Some (Ok (vs, cur3)) =>
                  let tl := skipn 7 fds in
                  match dec_groups rec dfl empt bitf (chunk8 (length tl) tl) 7 cur3 with
                  | Some (Ok vs') => Some (Ok (idx, vs ++ vs'))
                  | Some _ => Some Reject
                  | None => None
                  end
              | Some _ => Some Reject
              | None => None
              end
          end
      | _ => Some Reject
      end
  end.

(** an object (struct or union) on the wire: size, then the body; size 0 = Reset() *)
Definition dec_obj (rec : nat -> bytes -> d2) (dfl : nat -> option value) (empt : nat -> bool)
           (get : option N -> option (N * list field * (nat -> bool)))
           (dv : option value) (mk : N -> list (option value) -> value) (b : bytes) : d2 :=
  match size2_r b with
  | Ok (sz, r1) =>
      if sz =? 0 then match dv with Some d => Some (Ok (d, r1)) | None => Some Reject end
      else if lenN r1 <? sz then Some Reject
      else
        match dec_body rec dfl empt get (firstn (N.to_nat sz) r1) with
        | Some (Ok (idx, vs)) => Some (Ok (mk idx vs, skipn (N.to_nat sz) r1))
        | Some _ => Some Reject
        | None => None
        end
  | _ => Some Reject
  end.

Section DecElems2.
  Variable rec : bytes -> d2.
  Fixpoint dec_elems2 (n : nat) (cur : bytes) : option (res (list value * bytes)) :=
    match n with
    | O => Some (Ok ([], cur))
    | S n' =>
        match rec cur with
        | Some (Ok (v, cur')) =>
            match dec_elems2 n' cur' with
            | Some (Ok (vs, cur'')) => Some (Ok (v :: vs, cur''))
            | e => e
            end
        | Some _ => Some Reject
        | None => None
        end
    end.
End DecElems2.

(** union: no index on the wire = variant 0 *)
Definition variant_fields (s : schema) (x : tl2x) (vars : list nat) (oi : option N)
  : option (N * list field * (nat -> bool)) :=
  let idx := match oi with Some i => i | None => 0 end in
  if lenN vars <=? idx then None else          (* ErrorInvalidUnionIndex *)
  match nth_error vars (N.to_nat idx) with
  | Some vt => match nth_error s vt with
               | Some (TStruct _ fds) => Some (idx, fds, x_bit x vt)
               | _ => None
               end
  | None => None
  end.

(** struct read on its own: an index on the wire must be the struct's own union index (0 for
    a struct that is not a union element); without an index on the wire nothing is checked *)
Definition own_fields (x : tl2x) (t : nat) (fds : list field) (oi : option N)
  : option (N * list field * (nat -> bool)) :=
  match oi with
  | None => Some (x_uidx x t, fds, x_bit x t)
  | Some i => if i =? x_uidx x t then Some (i, fds, x_bit x t) else None
  end.

Fixpoint dec2 (fuel : nat) (s : schema) (x : tl2x) (t : nat) (b : bytes) : d2 :=
  match fuel with
  | O => None
  | S f =>
      match nth_error s t with
      | None => Some Reject
      | Some (TPrim p) => Some (dec_prim2 p b)
      | Some (TStruct _ fds) =>
          if x_alias x t then
            match fds with
            | [fd] => match dec2 f s x (f_ty fd) b with
                      | Some (Ok (v, r)) => Some (Ok (VStruct [Some v], r))
                      | e => e
                      end
            | _ => Some Reject
            end
          else
            dec_obj (dec2 f s x) (dflt s) (is_empty_struct s) (own_fields x t fds) (dflt s t)
                    (fun _ vs => VStruct vs) b
      | Some (TUnion vars) =>
          dec_obj (dec2 f s x) (dflt s) (is_empty_struct s) (variant_fields s x vars) (dflt s t)
                  (fun idx vs => VUnion (N.to_nat idx) vs) b
      | Some (TArray k ef) =>
          match size2_r b with
          | Ok (sz, r1) =>
              if lenN r1 <? sz then Some Reject
              else
                let cur := firstn (N.to_nat sz) r1 in
                let rest := skipn (N.to_nat sz) r1 in
                match (if sz =? 0 then Ok (0, cur) else size2_r cur) with
                | Ok (n, cur1) =>
                    match k with
                    | ATupleFixed c =>
                        let last := N.min n c in
                        match dec_elems2 (dec2 f s x (f_ty ef)) (N.to_nat last) cur1 with
                        | Some (Ok (es, _)) =>
                            if last =? c then Some (Ok (VArr es, rest))
                            else match dflt s (f_ty ef) with
                                 | Some d => Some (Ok (VArr (es ++ repeat d (N.to_nat (c - last))), rest))
                                 | None => Some Reject
                                 end
                        | Some _ => Some Reject
                        | None => None
                        end
                    | _ =>
                        if lenN cur1 <? n then Some Reject
                        else match dec_elems2 (dec2 f s x (f_ty ef)) (N.to_nat n) cur1 with
                             | Some (Ok (es, _)) => Some (Ok (VArr es, rest))
                             | Some _ => Some Reject
                             | None => None
                             end
                    end
                | _ => Some Reject
                end
          | _ => Some Reject
          end
      | Some (TDict kp ef) =>
          match size2_r b with
          | Ok (sz, r1) =>
              if lenN r1 <? sz then Some Reject
              else
                let cur := firstn (N.to_nat sz) r1 in
                let rest := skipn (N.to_nat sz) r1 in
                match (if sz =? 0 then Ok (0, cur) else size2_r cur) with
                | Ok (n, cur1) =>
                    if lenN cur1 <? n then Some Reject
                    else match dec_elems2 (dec2 f s x (f_ty ef)) (N.to_nat n) cur1 with
                         | Some (Ok (es, _)) =>
                             Some (Ok (VArr (fold_left (fun acc e => dict_insert kp e acc) es []), rest))
                         | Some _ => Some Reject
                         | None => None
                         end
                | _ => Some Reject
                end
          | _ => Some Reject
          end
      end
  end.

(** * Normal form of a value: what the reader yields for what the writer wrote.  The only
    change: a non-optional float/double field holding -0.0 is omitted by the writer
    ([item.F != 0] is false) and read back as +0.0. *)
Definition norm_prim (p : prim) (ze : bool) (v : value) : value :=
  if ze && prim_zero p v then
    match p with
    | PFloat | PDouble => VNum 0
    | _ => v
    end
  else v.

Section NormFields.
  Variable rec : nat -> bool -> value -> value.
  Fixpoint norm_fields (fds : list field) (vs : list (option value)) {struct vs} : list (option value) :=
    match fds, vs with
    | fd :: fds', ov :: vs' =>
        (match ov with
         | Some v => Some (rec (f_ty fd) (negb (masked fd)) v)
         | None => None
         end) :: norm_fields fds' vs'
    | _, _ => vs
    end.
End NormFields.

Fixpoint norm2 (s : schema) (x : tl2x) (t : nat) (ze : bool) (v : value) {struct v} : value :=
  match nth_error s t with
  | Some (TPrim p) => norm_prim p ze v
  | Some (TStruct _ fds) =>
      match v with
      | VStruct fs =>
          if x_alias x t then
            match fds, fs with
            | [fd], [Some v'] => VStruct [Some (norm2 s x (f_ty fd) ze v')]
            | _, _ => v
            end
          else VStruct (norm_fields (fun t' ze' v' => norm2 s x t' ze' v') fds fs)
      | _ => v
      end
  | Some (TUnion vars) =>
      match v with
      | VUnion idx fs =>
          match nth_error vars idx with
          | Some vt =>
              match nth_error s vt with
              | Some (TStruct _ fds) => VUnion idx (norm_fields (fun t' ze' v' => norm2 s x t' ze' v') fds fs)
              | _ => v
              end
          | None => v
          end
      | _ => v
      end
  | Some (TArray _ ef) | Some (TDict _ ef) =>
      match v with
      | VArr es => VArr (map (fun e => norm2 s x (f_ty ef) false e) es)
      | _ => v
      end
  | None => v
  end.

(** * Well-formedness of the TL2 side information (boolean; evaluated on every kernel dump) *)
Fixpoint bits_ok (s : schema) (bitf : nat -> bool) (i : nat) (fds : list field) : bool :=
  match fds with
  | [] => true
  | fd :: r => Bool.eqb (bitf i) (masked fd && is_empty_struct s (f_ty fd)) && bits_ok s bitf (S i) r
  end.

Definition is_plain_struct (s : schema) (x : tl2x) (t : nat) : bool :=
  match nth_error s t with Some (TStruct _ _) => negb (x_alias x t) | _ => false end.

Fixpoint variants_ok (s : schema) (x : tl2x) (i : N) (vars : list nat) : bool :=
  match vars with
  | [] => true
  | vt :: r => is_plain_struct s x vt && (x_uidx x vt =? i) && variants_ok s x (i + 1) r
  end.

Definition tydef_ok2 (s : schema) (x : tl2x) (t : nat) (d : tydef) : bool :=
  match d with
  | TPrim _ => true
  | TStruct _ fds =>
      bits_ok s (x_bit x t) 0 fds &&
      (if x_alias x t then match fds with [fd] => negb (masked fd) | _ => false end else true)
  | TUnion vars =>
      negb (match vars with [] => true | _ => false end) && variants_ok s x 0 vars
  | TArray _ _ => true
  | TDict kp ef =>
      (* the entry is a plain struct whose first field is the key primitive itself *)
      match nth_error s (f_ty ef) with
      | Some (TStruct _ (kf :: _)) =>
          negb (x_alias x (f_ty ef)) && negb (masked kf) &&
          match nth_error s (f_ty kf) with Some (TPrim p) => key_prim_ok p | _ => false end
      | _ => false
      end
  end.

Fixpoint tydefs_ok2 (s : schema) (x : tl2x) (t : nat) (l : list tydef) : bool :=
  match l with
  | [] => true
  | d :: r =>
      (* byte / uint64 / bit exist in every dump but are not used by TL1-origin types *)
      tydef_ok2 s x t d && (is_some (dflt s t) || match d with TPrim PNoTL1 => true | _ => false end)
      && tydefs_ok2 s x (S t) r
  end.

Definition wf2 (s : schema) (x : tl2x) : bool := wf_schema s && tydefs_ok2 s x 0 s.

(** fuel that suffices to read [b]: every nested object costs at least one byte; alias chains
    cost none but are bounded by the schema *)
Definition fuel2 (s : schema) (b : bytes) : nat := ((length b + 2) * (length s + 1))%nat.
