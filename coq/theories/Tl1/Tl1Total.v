(** C08 -- proofs about the TL1 reader [dec1] of Tl1Model.v:
    (A) fuel monotonicity, (B) consumption (the unread rest is a suffix of the input, for every
    schema, dictionaries included; strict for every call that is not a bare struct / tuple and
    for bare structs certified by [dc]), (C) termination for ranked schemas with an explicit fuel
    bound and the divergence of the F1 schema, (D) boundedness of sequence lengths under the
    length-sanity check and what is not bounded. *)
From Coq Require Import ZArith Lia ZifyN ZifyNat ZifyBool.
From TLV Require Import Prim.PrimModel Prim.PrimProofs Tl1.Tl1Model Tl1.Tl1Proofs Tl1.Tl1TotalModel.
Ltac Zify.zify_post_hook ::= Z.div_mod_to_equations.
Open Scope N_scope.

(** * suffixes *)
Definition SUF (strict : bool) (b rest : bytes) : Prop :=
  exists pfx, b = pfx ++ rest /\ (strict = true -> pfx <> []).

Lemma SUF_refl b : SUF false b b.
Proof. exists []. split; [reflexivity|discriminate]. Qed.

Lemma SUF_weaken st b r : SUF st b r -> SUF false b r.
Proof. intros [p [-> _]]. exists p. split; [reflexivity|discriminate]. Qed.

Lemma SUF_trans s1 s2 b b1 b2 : SUF s1 b b1 -> SUF s2 b1 b2 -> SUF (s1 || s2) b b2.
Proof.
  intros [p1 [-> H1]] [p2 [-> H2]]. exists (p1 ++ p2). split; [now rewrite app_assoc|].
  intros H. destruct s1; cbn in H.
  - specialize (H1 eq_refl). destruct p1; [contradiction|discriminate].
  - specialize (H2 H). destruct p1; cbn; [exact H2|discriminate].
Qed.

Lemma SUF_true_l s2 b b1 b2 : SUF true b b1 -> SUF s2 b1 b2 -> SUF true b b2.
Proof. intros H1 H2. exact (SUF_trans true s2 _ _ _ H1 H2). Qed.

Lemma SUF_len st b r : SUF st b r -> (length r <= length b)%nat /\ (st = true -> (length r < length b)%nat).
Proof.
  intros [p [-> H]]. rewrite app_length. split; [lia|].
  intros E. specialize (H E). destruct p; [contradiction|cbn [length]; lia].
Qed.

Lemma SUF_any (st : bool) b r : SUF true b r -> SUF st b r.
Proof. intros [p [-> H]]. exists p. split; [reflexivity|]. intros _. now apply H. Qed.

(** * primitives consume *)
Lemma nat_r_suffix b n r : nat_r b = Ok (n, r) -> SUF true b r.
Proof.
  unfold nat_r. destruct b as [|b0 [|b1 [|b2 [|b3 r']]]]; try discriminate.
  intros H. injection H as _ <-. exists [b0; b1; b2; b3]. split; [reflexivity|discriminate].
Qed.

Lemma long_r_suffix b n r : long_r b = Ok (n, r) -> SUF true b r.
Proof.
  unfold long_r. destruct b as [|b0 [|b1 [|b2 [|b3 [|b4 [|b5 [|b6 [|b7 r']]]]]]]]; try discriminate.
  intros H. injection H as _ <-. exists [b0; b1; b2; b3; b4; b5; b6; b7]. split; [reflexivity|discriminate].
Qed.

Lemma str1_body_suffix l p r s rest : str1_body l p r = Ok (s, rest) -> SUF false r rest.
Proof.
  unfold str1_body. destruct (lenN r <? l); [discriminate|].
  destruct (lenN r <? l + padding_len p); [discriminate|].
  destruct (all_zero _); [|discriminate]. intros H. injection H as _ <-.
  exists (firstn (N.to_nat l) r ++ firstn (N.to_nat (padding_len p)) (skipn (N.to_nat l) r)).
  split; [|discriminate].
  rewrite <- app_assoc, firstn_skipn, firstn_skipn. reflexivity.
Qed.

Lemma SUF_cons x b r : SUF false b r -> SUF true (x :: b) r.
Proof. intros [p [-> _]]. exists (x :: p). split; [reflexivity|discriminate]. Qed.

Lemma SUF_app p b r : SUF false b r -> SUF false (p ++ b) r.
Proof. intros [q [-> _]]. exists (p ++ q). split; [now rewrite app_assoc|discriminate]. Qed.

Lemma str1_r_suffix b s rest : str1_r b = Ok (s, rest) -> SUF true b rest.
Proof.
  unfold str1_r. destruct b as [|b0 r1]; [discriminate|].
  destruct (b0 <=? tinyStringLen).
  - intros H. apply SUF_cons. eapply str1_body_suffix; eauto.
  - destruct (b0 =? mediumStringMarker).
    + destruct r1 as [|x1 [|x2 [|x3 r4]]]; try discriminate.
      destruct (_ <=? tinyStringLen); [discriminate|]. intros H.
      apply SUF_cons. apply (SUF_app [x1; x2; x3]). eapply str1_body_suffix; eauto.
    + destruct r1 as [|x1 [|x2 [|x3 [|x4 [|x5 [|x6 [|x7 r8]]]]]]]; try discriminate.
      destruct (maxInt <? _); [discriminate|].
      destruct (_ <=? maxMediumStringLen); [discriminate|]. intros H.
      apply SUF_cons. apply (SUF_app [x1; x2; x3; x4; x5; x6; x7]). eapply str1_body_suffix; eauto.
Qed.

Lemma dec_prim_suffix p b v rest : dec_prim p b = Ok (v, rest) -> SUF true b rest.
Proof.
  destruct p; cbn [dec_prim]; intros H.
  1-3: destruct (nat_r b) as [[n r]| |] eqn:E; try discriminate; injection H as _ <-; eapply nat_r_suffix; eauto.
  1-2: destruct (long_r b) as [[n r]| |] eqn:E; try discriminate; injection H as _ <-; eapply long_r_suffix; eauto.
  - destruct (str1_r b) as [[n r]| |] eqn:E; try discriminate; injection H as _ <-; eapply str1_r_suffix; eauto.
  - unfold bool1_r in H. destruct (nat_r b) as [[n r]| |] eqn:E; try discriminate.
    destruct (n =? ftag); [|destruct (n =? ttag); [|discriminate]]; injection H as _ <-; eapply nat_r_suffix; eauto.
  - discriminate.
Qed.

Lemma read_count_suffix san b n r : read_count san b = Ok (n, r) -> SUF true b r.
Proof.
  unfold read_count. destruct (nat_r b) as [[n' r']| |] eqn:E; try discriminate.
  destruct (san && _); [discriminate|]. intros H. injection H as _ <-. eapply nat_r_suffix; eauto.
Qed.

(** * fields and elements consume whatever their reader consumes *)
Lemma dec_fields_suffix rec ps :
  (forall t bare ps b v r, rec t bare ps b = Some (Ok (v, r)) -> SUF false b r) ->
  forall fds acc b fs rest, dec_fields rec ps fds acc b = Some (Ok (fs, rest)) -> SUF false b rest.
Proof.
  intros Hrec. induction fds as [|fd fds IH]; intros acc b fs rest H; cbn [dec_fields] in H.
  - injection H as _ <-. apply SUF_refl.
  - destruct (field_present ps acc fd).
    + destruct (rec (f_ty fd) (f_bare fd) (eval_args ps acc (f_args fd)) b) as [[[v b']| |]|] eqn:Ed; try discriminate.
      exact (SUF_trans false false _ _ _ (Hrec _ _ _ _ _ _ Ed) (IH _ _ _ _ H)).
    + eapply IH; eauto.
Qed.

Lemma nat_iter_suffix (rec : bytes -> dres) :
  (forall b v r, rec b = Some (Ok (v, r)) -> SUF false b r) ->
  forall n acc b acc' rest, nat_iter (estep rec) n (acc, b) = Some (Ok (acc', rest)) ->
    SUF false b rest /\ length acc' = (n + length acc)%nat.
Proof.
  intros Hrec. induction n as [|n IH]; intros acc b acc' rest H; cbn [nat_iter] in H.
  - injection H as <- <-. split; [apply SUF_refl|reflexivity].
  - unfold estep at 1 in H. cbn [fst snd] in H.
    destruct (rec b) as [[[v b']| |]|] eqn:Ed; try discriminate. cbn [obind] in H.
    destruct (IH _ _ _ _ H) as [H1 H2]. split.
    + exact (SUF_trans false false _ _ _ (Hrec _ _ _ Ed) H1).
    + rewrite H2. cbn [length]. lia.
Qed.

Lemma dec_elems_suffix (rec : bytes -> dres) :
  (forall b v r, rec b = Some (Ok (v, r)) -> SUF false b r) ->
  forall n b es rest, dec_elems rec n b = Some (Ok (es, rest)) -> SUF false b rest /\ lenN es = n.
Proof.
  intros Hrec n b es rest H. unfold dec_elems in H. destruct n as [|p].
  - injection H as <- <-. split; [apply SUF_refl|reflexivity].
  - rewrite pos_iter_nat in H.
    destruct (nat_iter (estep rec) (Pos.to_nat p) ([], b)) as [[[acc b']| |]|] eqn:E; try discriminate.
    injection H as <- <-. destruct (nat_iter_suffix rec Hrec _ _ _ _ _ E) as [H1 H2].
    split; [exact H1|]. unfold lenN. rewrite rev_length, H2. cbn [length]. lia.
Qed.

Lemma dc_ok_from_lookup s dc : forall l k i d,
  dc_ok_from s dc k l = true -> nth_error l i = Some d -> nth (k + i) dc false = true -> dc_witness s dc d = true.
Proof.
  induction l as [|d0 l IH]; intros k i d H Hn Hdc; [destruct i; discriminate|].
  cbn [dc_ok_from] in H. apply andb_true_iff in H as [H0 Hr].
  destruct i as [|i]; cbn [nth_error] in Hn.
  - injection Hn as <-. rewrite Nat.add_0_r in Hdc. now rewrite Hdc in H0.
  - replace (k + S i)%nat with (S k + i)%nat in Hdc by lia. eapply IH; eauto.
Qed.

Lemma dc_ok_lookup s dc t d :
  dc_ok s dc = true -> nth_error s t = Some d -> nth t dc false = true -> dc_witness s dc d = true.
Proof. intros H Hn Hdc. exact (dc_ok_from_lookup s dc s 0%nat t d H Hn Hdc). Qed.

Lemma dc_ok_from_nil s : forall l k, dc_ok_from s [] k l = true.
Proof.
  induction l as [|d l IH]; intros k; cbn [dc_ok_from]; [reflexivity|].
  replace (nth k [] false) with false by (destruct k; reflexivity). cbn [andb]. apply IH.
Qed.

Lemma dc_ok_nil s : dc_ok s [] = true.
Proof. apply dc_ok_from_nil. Qed.

Lemma dcall_not_nc s dc t bare : nc s t bare = false -> dcall s dc t bare = true.
Proof. intros H. unfold dcall. now rewrite H. Qed.

Lemma dec_fields_suffix_strict s dc rec ps :
  (forall t bare ps b v r, rec t bare ps b = Some (Ok (v, r)) -> SUF (dcall s dc t bare) b r) ->
  forall fds acc b fs rest, existsb (def_consumes s dc) fds = true ->
    dec_fields rec ps fds acc b = Some (Ok (fs, rest)) -> SUF true b rest.
Proof.
  intros Hrec.
  assert (Hw : forall t bare ps b v r, rec t bare ps b = Some (Ok (v, r)) -> SUF false b r)
    by (intros; eapply SUF_weaken; eauto).
  induction fds as [|fd fds IH]; intros acc b fs rest He H; [discriminate|].
  cbn [existsb] in He. cbn [dec_fields] in H.
  destruct (def_consumes s dc fd) eqn:Ed.
  - unfold def_consumes in Ed. unfold field_present in H.
    destruct (f_mask fd); [discriminate|].
    destruct (rec (f_ty fd) (f_bare fd) (eval_args ps acc (f_args fd)) b) as [[[v b']| |]|] eqn:Er; try discriminate.
    pose proof (Hrec _ _ _ _ _ _ Er) as H1. rewrite Ed in H1.
    eapply SUF_true_l; [exact H1|]. eapply dec_fields_suffix; eauto.
  - cbn [orb] in He. destruct (field_present ps acc fd).
    + destruct (rec (f_ty fd) (f_bare fd) (eval_args ps acc (f_args fd)) b) as [[[v b']| |]|] eqn:Er; try discriminate.
      exact (SUF_trans false true _ _ _ (Hw _ _ _ _ _ _ Er) (IH _ _ _ _ He H)).
    + eapply IH; eauto.
Qed.

(** * (B) consumption: for EVERY schema (dictionaries included, no well-formedness needed) *)
Theorem dec1_consumes san s dc : dc_ok s dc = true -> forall fuel t bare ps b v rest,
  dec1 fuel san s t bare ps b = Some (Ok (v, rest)) -> SUF (dcall s dc t bare) b rest.
Proof.
  intros Hdc. induction fuel as [|fuel IH]; intros t bare ps b v rest H; [discriminate|].
  assert (IHw : forall t bare ps b v r, dec1 fuel san s t bare ps b = Some (Ok (v, r)) -> SUF false b r)
    by (intros; eapply SUF_weaken; eauto).
  cbn [dec1] in H.
  destruct (nth_error s t) as [d|] eqn:Et; [|discriminate].
  destruct d as [p|tag fds|vars|k ef|kp ef].
  - injection H as H. rewrite dcall_not_nc by (unfold nc; now rewrite Et). eapply dec_prim_suffix; eauto.
  - destruct bare.
    + destruct (dec_fields _ ps fds [] b) as [[[fs r]| |]|] eqn:Ed; try discriminate.
      injection H as _ <-. unfold dcall. replace (nc s t true) with true by (unfold nc; now rewrite Et).
      cbn [negb orb]. destruct (nth t dc false) eqn:Edc.
      * pose proof (dc_ok_lookup s dc t _ Hdc Et Edc) as Hw. cbn [dc_witness] in Hw.
        eapply (dec_fields_suffix_strict s dc); eauto.
      * eapply dec_fields_suffix; eauto.
    + destruct (nat_r b) as [[tg b']| |] eqn:En; try discriminate.
      destruct (tg =? tag); [|discriminate].
      destruct (dec_fields _ ps fds [] b') as [[[fs r]| |]|] eqn:Ed; try discriminate.
      injection H as _ <-. rewrite dcall_not_nc by (unfold nc; now rewrite Et).
      eapply SUF_true_l; [eapply nat_r_suffix; eauto|eapply dec_fields_suffix; eauto].
  - destruct bare; [discriminate|].
    destruct (nat_r b) as [[tg b']| |] eqn:En; try discriminate.
    destruct (find_variant s vars tg 0) as [[idx fds]|]; [|discriminate].
    destruct (dec_fields _ ps fds [] b') as [[[fs r]| |]|] eqn:Ed; try discriminate.
    injection H as _ <-. rewrite dcall_not_nc by (unfold nc; now rewrite Et).
    eapply SUF_true_l; [eapply nat_r_suffix; eauto|eapply dec_fields_suffix; eauto].
  - destruct bare; [|discriminate]. cbn [negb] in H.
    assert (Hel : forall n b',
      match dec_elems (dec1 fuel san s (f_ty ef) (f_bare ef) (eval_args ps [] (f_args ef))) n b' with
      | Some (Ok (es, r)) => Some (Ok (VArr es, r)) | Some Eof => Some Eof | Some Reject => Some Reject | None => None
      end = Some (Ok (v, rest)) -> SUF false b' rest).
    { intros n b' Hd. destruct (dec_elems _ n b') as [[[es r]| |]|] eqn:Ed; try discriminate.
      injection Hd as _ <-. eapply (dec_elems_suffix _ (fun b0 v0 r0 => IHw _ _ _ b0 v0 r0)); eauto. }
    assert (Htup : k <> AVector -> dcall s dc t true = false).
    { intros Hk. unfold dcall. replace (nc s t true) with true by (unfold nc; rewrite Et; destruct k; congruence).
      cbn [negb orb]. destruct (nth t dc false) eqn:Edc; [|reflexivity].
      pose proof (dc_ok_lookup s dc t _ Hdc Et Edc) as Hw. discriminate. }
    destruct k as [| |c].
    + destruct (read_count san b) as [[n b']| |] eqn:Ec; try discriminate.
      rewrite dcall_not_nc by (unfold nc; now rewrite Et).
      eapply SUF_true_l; [eapply read_count_suffix; eauto|eapply Hel; eauto].
    + destruct (san && _); [discriminate|]. rewrite Htup by discriminate. eapply Hel; eauto.
    + rewrite Htup by discriminate. eapply Hel; eauto.
  - destruct bare; [|discriminate]. cbn [negb] in H.
    destruct (read_count san b) as [[n b']| |] eqn:Ec; try discriminate.
    destruct (dec_elems _ n b') as [[[es r]| |]|] eqn:Ed; try discriminate.
    injection H as _ <-. rewrite dcall_not_nc by (unfold nc; now rewrite Et).
    eapply SUF_true_l; [eapply read_count_suffix; eauto|].
    eapply (dec_elems_suffix _ (fun b0 v0 r0 => IHw _ _ _ b0 v0 r0)); eauto.
Qed.
(** * (A) fuel monotonicity *)
Lemma dec_fields_mono (rec1 rec2 : nat -> bool -> list N -> bytes -> dres) ps :
  (forall t bare ps b r, rec1 t bare ps b = Some r -> rec2 t bare ps b = Some r) ->
  forall fds acc b r, dec_fields rec1 ps fds acc b = Some r -> dec_fields rec2 ps fds acc b = Some r.
Proof.
  intros Hm. induction fds as [|fd fds IH]; intros acc b r H; cbn [dec_fields] in *; [exact H|].
  destruct (field_present ps acc fd); [|now apply IH].
  destruct (rec1 (f_ty fd) (f_bare fd) (eval_args ps acc (f_args fd)) b) as [x|] eqn:E; [|discriminate].
  rewrite (Hm _ _ _ _ _ E). destruct x as [[v b']| |]; try exact H. now apply IH.
Qed.

Lemma nat_iter_mono (f1 f2 : estate -> option (res estate)) :
  (forall st r, f1 st = Some r -> f2 st = Some r) ->
  forall n st r, nat_iter f1 n st = Some r -> nat_iter f2 n st = Some r.
Proof.
  intros Hm. induction n as [|n IH]; intros st r H; cbn [nat_iter] in *; [exact H|].
  destruct (f1 st) as [x|] eqn:E; [|discriminate]. rewrite (Hm _ _ E).
  destruct x as [st'| |]; cbn [obind] in *; try exact H. now apply IH.
Qed.

Lemma estep_mono (rec1 rec2 : bytes -> dres) :
  (forall b r, rec1 b = Some r -> rec2 b = Some r) ->
  forall st r, estep rec1 st = Some r -> estep rec2 st = Some r.
Proof.
  intros Hm st r H. unfold estep in *.
  destruct (rec1 (snd st)) as [x|] eqn:E; [|discriminate]. rewrite (Hm _ _ E). exact H.
Qed.

Lemma dec_elems_mono (rec1 rec2 : bytes -> dres) :
  (forall b r, rec1 b = Some r -> rec2 b = Some r) ->
  forall n b r, dec_elems rec1 n b = Some r -> dec_elems rec2 n b = Some r.
Proof.
  intros Hm n b r H. unfold dec_elems in *. destruct n as [|p]; [exact H|].
  rewrite pos_iter_nat in *.
  destruct (nat_iter (estep rec1) (Pos.to_nat p) ([], b)) as [x|] eqn:E; [|discriminate].
  rewrite (nat_iter_mono _ _ (estep_mono _ _ Hm) _ _ _ E). exact H.
Qed.

Theorem dec1_fuel_mono san s : forall fuel fuel', (fuel <= fuel')%nat ->
  forall t bare ps b r, dec1 fuel san s t bare ps b = Some r -> dec1 fuel' san s t bare ps b = Some r.
Proof.
  induction fuel as [|fuel IH]; intros fuel' Hle t bare ps b r H; [discriminate|].
  destruct fuel' as [|fuel']; [lia|].
  assert (Hm : forall t bare ps b r, dec1 fuel san s t bare ps b = Some r -> dec1 fuel' san s t bare ps b = Some r)
    by (apply IH; lia).
  cbn [dec1] in *.
  destruct (nth_error s t) as [d|]; [|exact H].
  destruct d as [p|tag fds|vars|k ef|kp ef].
  - exact H.
  - assert (Hgo : forall b',
      match dec_fields (dec1 fuel san s) ps fds [] b' with
      | Some (Ok (fs, r)) => Some (Ok (VStruct fs, r)) | Some Eof => Some Eof | Some Reject => Some Reject | None => None
      end = Some r ->
      match dec_fields (dec1 fuel' san s) ps fds [] b' with
      | Some (Ok (fs, r)) => Some (Ok (VStruct fs, r)) | Some Eof => Some Eof | Some Reject => Some Reject | None => None
      end = Some r).
    { intros b' Hd. destruct (dec_fields (dec1 fuel san s) ps fds [] b') as [x|] eqn:E; [|discriminate].
      now rewrite (dec_fields_mono _ _ ps Hm _ _ _ _ E). }
    destruct bare; [now apply Hgo|].
    destruct (nat_r b) as [[tg b']| |]; try exact H.
    destruct (tg =? tag); [now apply Hgo|exact H].
  - destruct bare; [exact H|].
    destruct (nat_r b) as [[tg b']| |]; try exact H.
    destruct (find_variant s vars tg 0) as [[idx fds]|]; [|exact H].
    destruct (dec_fields (dec1 fuel san s) ps fds [] b') as [x|] eqn:E; [|discriminate].
    now rewrite (dec_fields_mono _ _ ps Hm _ _ _ _ E).
  - destruct (negb bare); [exact H|].
    assert (Hel : forall n b',
      match dec_elems (dec1 fuel san s (f_ty ef) (f_bare ef) (eval_args ps [] (f_args ef))) n b' with
      | Some (Ok (es, r)) => Some (Ok (VArr es, r)) | Some Eof => Some Eof | Some Reject => Some Reject | None => None
      end = Some r ->
      match dec_elems (dec1 fuel' san s (f_ty ef) (f_bare ef) (eval_args ps [] (f_args ef))) n b' with
      | Some (Ok (es, r)) => Some (Ok (VArr es, r)) | Some Eof => Some Eof | Some Reject => Some Reject | None => None
      end = Some r).
    { intros n b' Hd. destruct (dec_elems (dec1 fuel san s _ _ _) n b') as [x|] eqn:E; [|discriminate].
      apply (dec_elems_mono _ (dec1 fuel' san s (f_ty ef) (f_bare ef) (eval_args ps [] (f_args ef)))) in E; [|intros; now apply Hm].
      now rewrite E. }
    destruct k as [| |c].
    + destruct (read_count san b) as [[n b']| |]; try exact H. now apply Hel.
    + destruct (san && _); [exact H|now apply Hel].
    + now apply Hel.
  - destruct (negb bare); [exact H|].
    destruct (read_count san b) as [[n b']| |]; try exact H.
    destruct (dec_elems (dec1 fuel san s _ _ _) n b') as [x|] eqn:E; [|discriminate].
    apply (dec_elems_mono _ (dec1 fuel' san s (f_ty ef) (f_bare ef) (eval_args ps [] (f_args ef)))) in E; [|intros; now apply Hm].
    now rewrite E.
Qed.

(** * (C) termination *)
Lemma rk_le_max rank t : (rk rank t <= max_rank rank)%nat.
Proof.
  unfold rk, max_rank. revert t. induction rank as [|x rank IH]; intros t; cbn [fold_right].
  - destruct t; cbn; lia.
  - destruct t as [|t]; cbn [nth]; [lia|]. specialize (IH t). lia.
Qed.

Lemma phi_lt_shorter s rank t bare b t' bare' b' :
  (length b' < length b)%nat -> (phi s rank t' bare' b' < phi s rank t bare b)%nat.
Proof.
  intros H. unfold phi. pose proof (rk_le_max rank t').
  destruct (nc s t' bare'), (nc s t bare); nia.
Qed.

Lemma phi_lt_same s rank t bare b fd b' :
  nc s t bare = true -> (length b' <= length b)%nat -> child_ok s rank (rk rank t) fd = true ->
  (phi s rank (f_ty fd) (f_bare fd) b' < phi s rank t bare b)%nat.
Proof.
  intros Hnc Hlen Hc.
  destruct (Nat.eq_dec (length b') (length b)) as [E|E]; [|apply phi_lt_shorter; lia].
  unfold phi. rewrite Hnc, E. unfold child_ok in Hc.
  destruct (nc s (f_ty fd) (f_bare fd)); [apply Nat.ltb_lt in Hc; lia|lia].
Qed.

Lemma phi_lt_bound s rank t bare b : (phi s rank t bare b < fuel_bound rank b)%nat.
Proof.
  unfold phi, fuel_bound. pose proof (rk_le_max rank t). destruct (nc s t bare); nia.
Qed.

Section FieldsTotal.
  Variable s : schema.
  Variable dc : list bool.
  Variable rec : nat -> bool -> list N -> bytes -> dres.
  Variable L : nat.
  Hypothesis Hsuf : forall t bare ps b v r, rec t bare ps b = Some (Ok (v, r)) -> SUF (dcall s dc t bare) b r.
  Hypothesis Hshort : forall t bare ps b, (length b < L)%nat -> rec t bare ps b <> None.

  (** calls that can happen with [L] bytes left, i.e. with nothing consumed since the entry *)
  Fixpoint ZOK (fds : list field) : Prop :=
    match fds with
    | [] => True
    | fd :: r => (forall ps b, length b = L -> rec (f_ty fd) (f_bare fd) ps b <> None)
                 /\ (def_consumes s dc fd = false -> ZOK r)
    end.

  Lemma dec_fields_total ps : forall fds acc b,
    (length b <= L)%nat -> (length b = L -> ZOK fds) -> dec_fields rec ps fds acc b <> None.
  Proof.
    induction fds as [|fd fds IH]; intros acc b Hle Hz; cbn [dec_fields]; [discriminate|].
    assert (Hcall : forall ps', rec (f_ty fd) (f_bare fd) ps' b <> None).
    { intros ps'. destruct (Nat.eq_dec (length b) L) as [E|E].
      - destruct (Hz E) as [H1 _]. now apply H1.
      - apply Hshort. lia. }
    destruct (field_present ps acc fd) eqn:Ep.
    - destruct (rec (f_ty fd) (f_bare fd) (eval_args ps acc (f_args fd)) b) as [[[v b']| |]|] eqn:Ed;
        try discriminate; [|exfalso; eapply Hcall; eauto].
      pose proof (SUF_len _ _ _ (Hsuf _ _ _ _ _ _ Ed)) as [Hl1 Hl2].
      apply IH; [lia|]. intros E.
      assert (Eb : length b = L) by lia. destruct (Hz Eb) as [_ H2]. apply H2.
      unfold def_consumes. destruct (f_mask fd); [reflexivity|].
      destruct (dcall s dc (f_ty fd) (f_bare fd)) eqn:En; [|reflexivity].
      specialize (Hl2 eq_refl). lia.
    - apply IH; [exact Hle|]. intros E. destruct (Hz E) as [_ H2]. apply H2.
      unfold def_consumes. unfold field_present in Ep. destruct (f_mask fd); [reflexivity|discriminate].
  Qed.
End FieldsTotal.

Lemma nat_iter_total (rec : bytes -> dres) (L : nat) :
  (forall b v r, rec b = Some (Ok (v, r)) -> SUF false b r) ->
  (forall b, (length b <= L)%nat -> rec b <> None) ->
  forall n acc b, (length b <= L)%nat -> nat_iter (estep rec) n (acc, b) <> None.
Proof.
  intros Hsuf Htot. induction n as [|n IH]; intros acc b Hle; cbn [nat_iter]; [discriminate|].
  unfold estep at 1. cbn [fst snd].
  destruct (rec b) as [[[v b']| |]|] eqn:Ed; cbn [obind]; try discriminate.
  - apply IH. pose proof (SUF_len _ _ _ (Hsuf _ _ _ Ed)) as [Hl _]. lia.
  - exfalso. eapply Htot; eauto.
Qed.

Lemma dec_elems_total (rec : bytes -> dres) (L : nat) :
  (forall b v r, rec b = Some (Ok (v, r)) -> SUF false b r) ->
  (forall b, (length b <= L)%nat -> rec b <> None) ->
  forall n b, (length b <= L)%nat -> dec_elems rec n b <> None.
Proof.
  intros Hsuf Htot n b Hle. unfold dec_elems. destruct n as [|p]; [discriminate|].
  rewrite pos_iter_nat.
  pose proof (nat_iter_total rec L Hsuf Htot (Pos.to_nat p) [] b Hle) as H.
  revert H. destruct (nat_iter _ _ _) as [[[acc b']| |]|]; intros H; try discriminate; congruence.
Qed.

Lemma ranked_from_lookup s dc rank : forall l k i d,
  ranked_from s dc rank k l = true -> nth_error l i = Some d -> tydef_ranked s dc rank (k + i) d = true.
Proof.
  induction l as [|d0 l IH]; intros k i d H Hn; [destruct i; discriminate|].
  cbn [ranked_from] in H. apply andb_true_iff in H as [H0 Hr].
  destruct i as [|i]; cbn [nth_error] in Hn.
  - injection Hn as <-. now rewrite Nat.add_0_r.
  - replace (k + S i)%nat with (S k + i)%nat by lia. eapply IH; eauto.
Qed.

Lemma ranked_lookup s dc rank t d : ranked s dc rank = true -> nth_error s t = Some d -> tydef_ranked s dc rank t d = true.
Proof. intros H Hn. apply andb_true_iff in H as [_ H]. exact (ranked_from_lookup s dc rank s 0%nat t d H Hn). Qed.

Lemma ZOK_of_ranked s dc rank (rec : nat -> bool -> list N -> bytes -> dres) t bare b :
  nc s t bare = true ->
  (forall t' bare' ps' b', (phi s rank t' bare' b' < phi s rank t bare b)%nat -> rec t' bare' ps' b' <> None) ->
  forall fds, fields_ranked s dc rank (rk rank t) fds = true -> ZOK s dc rec (length b) fds.
Proof.
  intros Hnc Hrec. induction fds as [|fd fds IH]; intros H; cbn [ZOK]; [exact I|].
  cbn [fields_ranked] in H. apply andb_true_iff in H as [Hc Hr]. split.
  - intros ps' b' E. apply Hrec. apply phi_lt_same; [exact Hnc|lia|exact Hc].
  - intros Ed. rewrite Ed in Hr. now apply IH.
Qed.

Theorem dec1_total_phi san s dc rank : ranked s dc rank = true ->
  forall fuel t bare ps b, (phi s rank t bare b < fuel)%nat -> dec1 fuel san s t bare ps b <> None.
Proof.
  intros Hr. induction fuel as [|fuel IH]; intros t bare ps b Hphi; [lia|].
  assert (IHphi : forall t' bare' ps' b', (phi s rank t' bare' b' < phi s rank t bare b)%nat ->
                                         dec1 fuel san s t' bare' ps' b' <> None)
    by (intros; apply IH; lia).
  assert (IHshort : forall t' bare' ps' b', (length b' < length b)%nat -> dec1 fuel san s t' bare' ps' b' <> None)
    by (intros; apply IHphi; now apply phi_lt_shorter).
  assert (Hdc : dc_ok s dc = true) by (now apply andb_true_iff in Hr as [? _]).
  pose proof (dec1_consumes san s dc Hdc fuel) as Hsuf.
  assert (Hsufw : forall t bare ps b v r, dec1 fuel san s t bare ps b = Some (Ok (v, r)) -> SUF false b r)
    by (intros; eapply SUF_weaken; eauto).
  (* fields read after at least one byte was consumed *)
  assert (Hafter : forall fds b', (length b' < length b)%nat -> dec_fields (dec1 fuel san s) ps fds [] b' <> None).
  { intros fds b' Hl. apply (dec_fields_total s dc _ (length b) Hsuf IHshort); lia. }
  assert (Helafter : forall ef n b', (length b' < length b)%nat ->
            dec_elems (dec1 fuel san s (f_ty ef) (f_bare ef) (eval_args ps [] (f_args ef))) n b' <> None).
  { intros ef n b' Hl. apply (dec_elems_total _ (length b') (fun b0 v0 r0 => Hsufw _ _ _ b0 v0 r0)); [|lia].
    intros b0 Hb0. apply IHshort. lia. }
  cbn [dec1]. destruct (nth_error s t) as [d|] eqn:Et; [|discriminate].
  pose proof (ranked_lookup s dc rank t d Hr Et) as Hd.
  destruct d as [p|tag fds|vars|k ef|kp ef].
  - discriminate.
  - cbn [tydef_ranked] in Hd. destruct bare.
    + assert (Hnc : nc s t true = true) by (unfold nc; now rewrite Et).
      pose proof (dec_fields_total s dc _ (length b) Hsuf IHshort ps fds [] b (le_n _)
                   (fun _ => ZOK_of_ranked s dc rank _ t true b Hnc IHphi fds Hd)) as Hf.
      destruct (dec_fields _ ps fds [] b) as [[[fs r]| |]|]; try discriminate; congruence.
    + destruct (nat_r b) as [[tg b']| |] eqn:En; try discriminate.
      destruct (tg =? tag); [|discriminate].
      pose proof (SUF_len _ _ _ (nat_r_suffix _ _ _ En)) as [_ Hl]. specialize (Hl eq_refl).
      pose proof (Hafter fds b' Hl) as Hf.
      destruct (dec_fields _ ps fds [] b') as [[[fs r]| |]|]; try discriminate; congruence.
  - destruct bare; [discriminate|].
    destruct (nat_r b) as [[tg b']| |] eqn:En; try discriminate.
    destruct (find_variant s vars tg 0) as [[idx fds]|]; [|discriminate].
    pose proof (SUF_len _ _ _ (nat_r_suffix _ _ _ En)) as [_ Hl]. specialize (Hl eq_refl).
    pose proof (Hafter fds b' Hl) as Hf.
    destruct (dec_fields _ ps fds [] b') as [[[fs r]| |]|]; try discriminate; congruence.
  - destruct bare; [|discriminate]. cbn [negb].
    assert (Htup : k <> AVector ->
      forall n, dec_elems (dec1 fuel san s (f_ty ef) (f_bare ef) (eval_args ps [] (f_args ef))) n b <> None).
    { intros Hk n. apply (dec_elems_total _ (length b) (fun b0 v0 r0 => Hsufw _ _ _ b0 v0 r0)); [|lia].
      intros b0 Hb0. apply IHphi. apply phi_lt_same; [|exact Hb0|].
      - unfold nc. rewrite Et. destruct k; [contradiction|reflexivity|reflexivity].
      - destruct k; [contradiction|exact Hd|exact Hd]. }
    destruct k as [| |c].
    + destruct (read_count san b) as [[n b']| |] eqn:Ec; try discriminate.
      pose proof (SUF_len _ _ _ (read_count_suffix _ _ _ _ Ec)) as [_ Hl]. specialize (Hl eq_refl).
      pose proof (Helafter ef n b' Hl) as Hf.
      destruct (dec_elems _ n b') as [[[es r]| |]|]; try discriminate; congruence.
    + destruct (san && _); [discriminate|].
      pose proof (Htup ltac:(discriminate) (nth 0 ps 0)) as Hf.
      destruct (dec_elems _ _ b) as [[[es r]| |]|]; try discriminate; congruence.
    + pose proof (Htup ltac:(discriminate) c) as Hf.
      destruct (dec_elems _ _ b) as [[[es r]| |]|]; try discriminate; congruence.
  - destruct bare; [|discriminate]. cbn [negb].
    destruct (read_count san b) as [[n b']| |] eqn:Ec; try discriminate.
    pose proof (SUF_len _ _ _ (read_count_suffix _ _ _ _ Ec)) as [_ Hl]. specialize (Hl eq_refl).
    pose proof (Helafter ef n b' Hl) as Hf.
    destruct (dec_elems _ n b') as [[[es r]| |]|]; try discriminate; congruence.
Qed.

Theorem dec1_total_ranked san s dc rank : ranked s dc rank = true ->
  forall t bare ps b fuel, (fuel_bound rank b <= fuel)%nat -> dec1 fuel san s t bare ps b <> None.
Proof.
  intros Hr t bare ps b fuel Hf. apply (dec1_total_phi san s dc rank Hr).
  pose proof (phi_lt_bound s rank t bare b). lia.
Qed.

Theorem dec1_total_productive san s : productive s = true ->
  forall t bare ps b, dec1 (fuel_bound (auto_rank s) b) san s t bare ps b <> None.
Proof. intros Hp t bare ps b. apply (dec1_total_ranked san s (auto_dc s) (auto_rank s) Hp). lia. Qed.
(** * F1: a well-formed schema (accepted by the kernel) whose reader diverges *)
Lemma dec1_struct_bare fuel san s t tag fds ps b :
  nth_error s t = Some (TStruct tag fds) ->
  dec1 (S fuel) san s t true ps b =
  match dec_fields (dec1 fuel san s) ps fds [] b with
  | Some (Ok (fs, r)) => Some (Ok (VStruct fs, r)) | Some Eof => Some Eof | Some Reject => Some Reject | None => None
  end.
Proof. intros H. cbn [dec1]. now rewrite H. Qed.

Lemma f1_inner_fields (rec : nat -> bool -> list N -> bytes -> dres) b :
  rec 3%nat true [1] b = None ->
  dec_fields rec [1] [mkField 3 true (Some (NParam 0, 0)) [NParam 0]; mkField 1 true None []] [] b = None.
Proof. intros H. cbn. now rewrite H. Qed.

Lemma f1_inner_diverges : forall fuel, dec1 fuel true f1_schema 3 true [1] [5; 0; 0; 0] = None.
Proof.
  induction fuel as [|fuel IH]; [reflexivity|].
  rewrite (dec1_struct_bare fuel true f1_schema 3 0 _ [1] _ eq_refl).
  now rewrite (f1_inner_fields _ _ IH).
Qed.

Lemma f1_outer_fields (rec : nat -> bool -> list N -> bytes -> dres) :
  rec 0%nat true [] f1_input = Some (Ok (VNum 1, [5; 0; 0; 0])) ->
  rec 3%nat true [1] [5; 0; 0; 0] = None ->
  dec_fields rec [] [mkField 0 true None []; mkField 3 true None [NField 0]] [] f1_input = None.
Proof. intros H0 H. cbn. rewrite H0. cbn. now rewrite H. Qed.

Theorem f1_diverges : forall fuel, dec1 fuel true f1_schema 2 true [] f1_input = None.
Proof.
  destruct fuel as [|fuel]; [reflexivity|].
  rewrite (dec1_struct_bare fuel true f1_schema 2 _ _ [] _ eq_refl).
  destruct fuel as [|fuel]; [reflexivity|].
  rewrite f1_outer_fields; [reflexivity|reflexivity|apply f1_inner_diverges].
Qed.

Theorem f1_wf : wf_schema f1_schema = true.
Proof. reflexivity. Qed.

Theorem f1_not_productive : productive f1_schema = false.
Proof. vm_compute. reflexivity. Qed.

Theorem f1_no_ranking : forall dc rank, ranked f1_schema dc rank = false.
Proof.
  intros dc rank. destruct (ranked f1_schema dc rank) eqn:E; [exfalso|reflexivity].
  pose proof (ranked_lookup _ _ _ 3%nat _ E eq_refl) as H.
  cbn [tydef_ranked fields_ranked] in H. apply andb_true_iff in H as [H _].
  unfold child_ok in H. cbn [f_ty f_bare] in H. change (nc f1_schema 3 true) with true in H.
  cbv iota in H. apply Nat.ltb_lt in H. lia.
Qed.

(** * (D) boundedness with the length-sanity check on *)
Lemma sanity_bound r n : check_length_sanity r n 4 = true -> 4 * n <= lenN r.
Proof. unfold check_length_sanity. intros H. lia. Qed.

Theorem read_count_bounded b n r : read_count true b = Ok (n, r) -> 4 * n <= lenN r /\ 4 * n + 4 <= lenN b.
Proof.
  unfold read_count. destruct (nat_r b) as [[n' r']| |] eqn:E; try discriminate.
  cbn [andb]. destruct (check_length_sanity r' n' 4) eqn:Es; cbn [negb]; [|discriminate].
  intros H. injection H as <- <-. pose proof (sanity_bound _ _ Es).
  unfold nat_r in E. destruct b as [|b0 [|b1 [|b2 [|b3 r'']]]]; try discriminate. injection E as _ <-.
  split; [assumption|]. unfold lenN in *. cbn [length]. lia.
Qed.

(** number of elements a sequence reader sets out to materialise *)
Theorem elems_requested_bounded s t bare ps b n :
  elems_requested true s t bare ps b = Some n ->
  (forall ef c, nth_error s t <> Some (TArray (ATupleFixed c) ef)) ->
  4 * n <= lenN b.
Proof.
  unfold elems_requested. intros H Hnf.
  destruct (nth_error s t) as [[p|tag fds|vars|k ef|kp ef]|] eqn:Et; try discriminate.
  - destruct (negb bare); [discriminate|]. destruct k as [| |c].
    + destruct (read_count true b) as [[n' r]| |] eqn:Ec; try discriminate. injection H as <-.
      pose proof (read_count_bounded _ _ _ Ec). lia.
    + cbn [andb] in H. destruct (check_length_sanity b (nth 0 ps 0) 4) eqn:Es; cbn [negb] in H; [|discriminate].
      injection H as <-. now apply sanity_bound.
    + exfalso. eapply Hnf; eauto.
  - destruct (negb bare); [discriminate|].
    destruct (read_count true b) as [[n' r]| |] eqn:Ec; try discriminate. injection H as <-.
    pose proof (read_count_bounded _ _ _ Ec). lia.
Qed.

(** [elems_requested] is exactly the iteration count [dec1] hands to [dec_elems]:
    when it is [None] no element reader is called at all *)
Theorem dec1_no_elems san s fuel t bare ps b :
  (exists k ef, nth_error s t = Some (TArray k ef)) \/ (exists kp ef, nth_error s t = Some (TDict kp ef)) ->
  elems_requested san s t bare ps b = None ->
  dec1 (S fuel) san s t bare ps b = Some Eof \/ dec1 (S fuel) san s t bare ps b = Some Reject.
Proof.
  unfold elems_requested. cbn [dec1]. intros [[k [ef Et]]|[kp [ef Et]]] H; rewrite Et in *.
  - destruct (negb bare); [now right|]. destruct k as [| |c].
    + destruct (read_count san b) as [[n r]| |]; [discriminate|now left|now right].
    + destruct (san && _); [now left|discriminate].
    + discriminate.
  - destruct (negb bare); [now right|].
    destruct (read_count san b) as [[n r]| |]; [discriminate|now left|now right].
Qed.

(** every element loop runs at most [n] times and on success yields exactly [n] elements *)
Lemma dec_elems_count (rec : bytes -> dres) n b es rest :
  (forall b v r, rec b = Some (Ok (v, r)) -> SUF false b r) ->
  dec_elems rec n b = Some (Ok (es, rest)) -> lenN es = n.
Proof. intros Hs H. now destruct (dec_elems_suffix rec Hs _ _ _ _ H). Qed.

Lemma dict_insert_length kp e l : (length (dict_insert kp e l) <= S (length l))%nat.
Proof.
  induction l as [|e' l IH]; cbn [dict_insert length]; [lia|].
  destruct (key_lt kp (entry_key e) (entry_key e')); cbn [length]; [lia|].
  destruct (key_lt kp (entry_key e') (entry_key e)); cbn [length]; lia.
Qed.

Lemma dict_fold_length kp : forall es acc,
  (length (fold_left (fun a e => dict_insert kp e a) es acc) <= length es + length acc)%nat.
Proof.
  induction es as [|e es IH]; intros acc; cbn [fold_left length]; [lia|].
  specialize (IH (dict_insert kp e acc)). pose proof (dict_insert_length kp e acc). lia.
Qed.

(** success side: every vector / dictionary / dynamic tuple the reader returns (at any nesting
    level: the statement is about every call) has at most (input length)/4 elements *)
Theorem dec1_seq_length_bounded s fuel t bare ps b v rest :
  dec1 fuel true s t bare ps b = Some (Ok (v, rest)) ->
  match nth_error s t with
  | Some (TArray AVector _) | Some (TArray ATupleDyn _) | Some (TDict _ _) =>
      exists es, v = VArr es /\ 4 * lenN es <= lenN b
  | _ => True
  end.
Proof.
  intros H. destruct fuel as [|fuel]; [discriminate|].
  pose proof (dec1_consumes true s [] (dc_ok_nil s) fuel) as Hsuf.
  assert (Hsufw : forall t bare ps b v r, dec1 fuel true s t bare ps b = Some (Ok (v, r)) -> SUF false b r)
    by (intros; eapply SUF_weaken; eauto).
  cbn [dec1] in H.
  destruct (nth_error s t) as [[p|tag fds|vars|k ef|kp ef]|] eqn:Et; try exact I.
  - destruct k as [| |c]; try exact I; destruct (negb bare); try discriminate.
    + destruct (read_count true b) as [[n b']| |] eqn:Ec; try discriminate.
      destruct (dec_elems _ n b') as [[[es r]| |]|] eqn:Ed; try discriminate. injection H as <- <-.
      exists es. split; [reflexivity|].
      rewrite (dec_elems_count _ _ _ _ _ (fun b0 v0 r0 => Hsufw _ _ _ b0 v0 r0) Ed).
      pose proof (read_count_bounded _ _ _ Ec). lia.
    + cbn [andb] in H. destruct (check_length_sanity b (nth 0 ps 0) 4) eqn:Es; cbn [negb] in H; [|discriminate].
      destruct (dec_elems _ _ b) as [[[es r]| |]|] eqn:Ed; try discriminate. injection H as <- <-.
      exists es. split; [reflexivity|].
      rewrite (dec_elems_count _ _ _ _ _ (fun b0 v0 r0 => Hsufw _ _ _ b0 v0 r0) Ed). now apply sanity_bound.
  - destruct (negb bare); try discriminate.
    destruct (read_count true b) as [[n b']| |] eqn:Ec; try discriminate.
    destruct (dec_elems _ n b') as [[[es r]| |]|] eqn:Ed; try discriminate. injection H as <- <-.
    eexists. split; [reflexivity|].
    pose proof (dec_elems_count _ _ _ _ _ (fun b0 v0 r0 => Hsufw _ _ _ b0 v0 r0) Ed) as Hn.
    pose proof (dict_fold_length kp es []) as Hl. cbn [length] in Hl.
    pose proof (read_count_bounded _ _ _ Ec). unfold lenN in *. lia.
Qed.

(** * what is NOT bounded *)
(** an always-succeeding element reader that consumes nothing is iterated [n] times *)
Lemma nat_iter_const (rec : bytes -> dres) v b :
  rec b = Some (Ok (v, b)) ->
  forall n acc, nat_iter (estep rec) n (acc, b) = Some (Ok (repeat v n ++ acc, b)).
Proof.
  intros Hrec. induction n as [|n IH]; intros acc; cbn [nat_iter repeat app]; [reflexivity|].
  unfold estep at 1. cbn [fst snd]. rewrite Hrec. cbn [obind]. rewrite IH.
  replace (repeat v n ++ v :: acc) with ((repeat v n ++ [v]) ++ acc) by now rewrite <- app_assoc.
  now rewrite <- repeat_cons.
Qed.

Lemma rev_repeat {A} (v : A) n : rev (repeat v n) = repeat v n.
Proof.
  induction n as [|n IH]; cbn [repeat rev]; [reflexivity|]. rewrite IH. symmetry. apply repeat_cons.
Qed.

Lemma dec_elems_const (rec : bytes -> dres) v b n :
  rec b = Some (Ok (v, b)) -> dec_elems rec n b = Some (Ok (repeat v (N.to_nat n), b)).
Proof.
  intros Hrec. unfold dec_elems. destruct n as [|p]; [reflexivity|].
  rewrite pos_iter_nat, (nat_iter_const rec v b Hrec), app_nil_r, rev_repeat. reflexivity.
Qed.

(** schema: 0 = empty struct, 1 = vector of it, 2 = fixed array [c] of it *)
Definition zs_schema (c : N) : schema :=
  [ TStruct 0 []; TArray AVector (mkField 0 true None []); TArray (ATupleFixed c) (mkField 0 true None []) ].

(** without the sanity check a 4-byte input makes the vector reader materialise any number
    (< 2^32) of elements *)
Theorem unbounded_without_sanity c n : n < 2 ^ 32 ->
  dec1 2 false (zs_schema c) 1 true [] (nat_w n) = Some (Ok (VArr (repeat (VStruct []) (N.to_nat n)), [])).
Proof.
  intros Hn. cbn [dec1 zs_schema nth_error negb]. unfold read_count. cbn [andb].
  pose proof (nat_roundtrip n [] Hn) as Hr. rewrite app_nil_r in Hr. rewrite Hr.
  cbn [f_ty f_bare f_args eval_args map].
  now rewrite (dec_elems_const _ (VStruct []) [] n eq_refl).
Qed.

(** with the sanity check on the same input is refused unless 4*n bytes follow *)
Theorem bounded_with_sanity c n : 0 < n < 2 ^ 32 ->
  dec1 2 true (zs_schema c) 1 true [] (nat_w n) = Some Eof.
Proof.
  intros Hn. cbn [dec1 zs_schema nth_error negb]. unfold read_count. cbn [andb].
  pose proof (nat_roundtrip n [] ltac:(lia)) as Hr. rewrite app_nil_r in Hr. rewrite Hr.
  unfold check_length_sanity. destruct (@lenN N [] <? n * 4) eqn:E; [reflexivity|unfold lenN in E; cbn [length] in E; lia].
Qed.

(** fixed-size arrays are allocated by type, whatever the input and the sanity option *)
Theorem fixed_array_unbounded_by_input san c :
  dec1 2 san (zs_schema c) 2 true [] [] = Some (Ok (VArr (repeat (VStruct []) (N.to_nat c)), [])).
Proof.
  cbn [dec1 zs_schema nth_error negb]. cbn [f_ty f_bare f_args eval_args map].
  now rewrite (dec_elems_const _ (VStruct []) [] c eq_refl).
Qed.
