(** The dictionary clause of C02: what a map-backed dictionary decodes to is the received
    entry list sorted by key with duplicate keys removed, the LAST entry of a key winning
    (Go map assignment), and it is exactly what the writer's key order accepts. *)
From Coq Require Import ZArith Lia ZifyN ZifyNat ZifyBool.
From TLV Require Import Prim.PrimModel Tl1.Tl1Model Tl1.Tl1Proofs.
Open Scope N_scope.

(** keys of the right shape for a key primitive (what [dec_prim kp] produces) *)
Definition key_shape (kp : prim) (k : value) : Prop :=
  match kp, k with
  | PNat, VNum x => x < 4294967296
  | PInt, VNum x => x < 4294967296
  | PLong, VNum x => x < 18446744073709551616
  | PString, VStr _ => True
  | PBool _ _, VBool _ => True
  | _, _ => False
  end.

Lemma bytes_lt_tricho a : forall b, bytes_lt a b = false -> bytes_lt b a = false -> a = b.
Proof.
  induction a as [|x a IH]; intros [|y b]; cbn [bytes_lt]; intros H1 H2; try reflexivity; try discriminate.
  destruct (x <? y) eqn:E1; [discriminate|]. destruct (y <? x) eqn:E2; [discriminate|].
  assert (x = y) by lia. subst y. f_equal. now apply IH.
Qed.

Lemma key_lt_tricho kp a b :
  key_shape kp a -> key_shape kp b -> key_lt kp a b = false -> key_lt kp b a = false -> a = b.
Proof.
  destruct kp, a, b; cbn [key_shape key_lt]; intros Ha Hb H1 H2; try contradiction.
  - f_equal. lia.
  - f_equal. unfold sgn32 in *.
    destruct (n <? 2147483648) eqn:E1; destruct (n0 <? 2147483648) eqn:E2; lia.
  - f_equal. unfold sgn64 in *.
    destruct (n <? 9223372036854775808) eqn:E1; destruct (n0 <? 9223372036854775808) eqn:E2; lia.
  - f_equal. now apply bytes_lt_tricho.
  - destruct b, b0; cbn in *; congruence.
Qed.

Definition shaped (kp : prim) (l : list value) : Prop := Forall (fun e => key_shape kp (entry_key e)) l.

(** lookup of the entry stored for a key (keys compared by [key_lt] both ways) *)
Definition same_key (kp : prim) (k : value) (e : value) : bool :=
  negb (key_lt kp k (entry_key e)) && negb (key_lt kp (entry_key e) k).

Fixpoint find_key (kp : prim) (k : value) (l : list value) : option value :=
  match l with
  | [] => None
  | e :: r => if same_key kp k e then Some e else find_key kp k r
  end.

(** the last entry with that key in arrival order *)
Definition find_last (kp : prim) (k : value) (l : list value) : option value := find_key kp k (rev l).

Lemma keys_sorted_cons kp e l :
  keys_sorted kp (e :: l) = true <->
  (match l with [] => True | e' :: _ => key_lt kp (entry_key e) (entry_key e') = true end) /\ keys_sorted kp l = true.
Proof.
  cbn [keys_sorted]. destruct l as [|e' l]; [tauto|]. rewrite andb_true_iff. tauto.
Qed.

(** insertion keeps the list strictly sorted *)
Lemma dict_insert_sorted kp e : forall l,
  key_shape kp (entry_key e) -> shaped kp l -> keys_sorted kp l = true ->
  keys_sorted kp (dict_insert kp e l) = true /\
  (forall x, match l with [] => True | h :: _ => key_lt kp x (entry_key h) = true end ->
             key_lt kp x (entry_key e) = true ->
             match dict_insert kp e l with [] => True | h :: _ => key_lt kp x (entry_key h) = true end).
Proof.
  induction l as [|e' l IH]; intros He Hl Hs.
  - cbn [dict_insert]. split; [reflexivity|]. intros x _ Hx. exact Hx.
  - cbn [dict_insert].
    apply Forall_cons_iff in Hl as [He' Hl].
    apply keys_sorted_cons in Hs as [Hhd Hs].
    destruct (key_lt kp (entry_key e) (entry_key e')) eqn:E1.
    + split.
      * apply keys_sorted_cons. split; [exact E1|]. apply keys_sorted_cons. split; assumption.
      * intros x _ Hx. exact Hx.
    + destruct (key_lt kp (entry_key e') (entry_key e)) eqn:E2.
      * destruct (IH He Hl Hs) as [IH1 IH2]. split.
        -- apply keys_sorted_cons. split; [|exact IH1].
           specialize (IH2 (entry_key e') Hhd E2).
           destruct (dict_insert kp e l); [exact I|exact IH2].
        -- intros x Hx _. exact Hx.
      * (* equal keys: replace *)
        assert (Heq : entry_key e = entry_key e') by (apply (key_lt_tricho kp); assumption).
        split.
        -- apply keys_sorted_cons. split; [|exact Hs]. rewrite Heq. exact Hhd.
        -- intros x Hx _. rewrite Heq. exact Hx.
Qed.

Lemma dict_insert_shaped kp e l : key_shape kp (entry_key e) -> shaped kp l -> shaped kp (dict_insert kp e l).
Proof.
  intros He. induction l as [|e' l IH]; intros Hl; cbn [dict_insert].
  - constructor; [exact He|constructor].
  - apply Forall_cons_iff in Hl as [He' Hl].
    destruct (key_lt kp (entry_key e) (entry_key e')); [constructor; [exact He|constructor; assumption]|].
    destruct (key_lt kp (entry_key e') (entry_key e)); [constructor; [exact He'|now apply IH]|].
    constructor; assumption.
Qed.

Theorem dict_fold_is_sorted kp : forall es acc,
  shaped kp es -> shaped kp acc -> keys_sorted kp acc = true ->
  keys_sorted kp (fold_left (fun a e => dict_insert kp e a) es acc) = true /\
  shaped kp (fold_left (fun a e => dict_insert kp e a) es acc).
Proof.
  induction es as [|e es IH]; intros acc Hes Hacc Hs; cbn [fold_left]; [split; assumption|].
  apply Forall_cons_iff in Hes as [He Hes].
  apply IH; [exact Hes|now apply dict_insert_shaped|].
  now apply (dict_insert_sorted kp e acc He Hacc Hs).
Qed.

(** lookup after insertion: the inserted entry for its own key, unchanged for other keys *)
Lemma find_key_insert kp e k : forall l,
  key_shape kp (entry_key e) -> key_shape kp k -> shaped kp l -> keys_sorted kp l = true ->
  find_key kp k (dict_insert kp e l) = if same_key kp k e then Some e else find_key kp k l.
Proof.
  induction l as [|e' l IH]; intros He Hk Hl Hs; cbn [dict_insert find_key]; [reflexivity|].
  apply Forall_cons_iff in Hl as [He' Hl].
  apply keys_sorted_cons in Hs as [Hhd Hs].
  destruct (key_lt kp (entry_key e) (entry_key e')) eqn:E1; [reflexivity|].
  destruct (key_lt kp (entry_key e') (entry_key e)) eqn:E2.
  - cbn [find_key]. rewrite (IH He Hk Hl Hs).
    destruct (same_key kp k e') eqn:Sk'; [|reflexivity].
    (* k = key e' < key e, so k is not e's key *)
    unfold same_key in Sk'. apply andb_true_iff in Sk' as [S1 S2].
    apply negb_true_iff in S1, S2.
    assert (Hke' : k = entry_key e') by (apply (key_lt_tricho kp); assumption).
    unfold same_key. rewrite Hke', E2. cbn. reflexivity.
  - assert (Heq : entry_key e = entry_key e') by (apply (key_lt_tricho kp); assumption).
    cbn [find_key]. unfold same_key. rewrite Heq.
    destruct (negb (key_lt kp k (entry_key e')) && negb (key_lt kp (entry_key e') k)); reflexivity.
Qed.

(** the decoded dictionary holds, for every key, the LAST received entry with that key *)
Theorem dict_fold_last_wins kp k : forall es acc,
  key_shape kp k -> shaped kp es -> shaped kp acc -> keys_sorted kp acc = true ->
  find_key kp k (fold_left (fun a e => dict_insert kp e a) es acc) =
  match find_last kp k es with Some e => Some e | None => find_key kp k acc end.
Proof.
  unfold find_last. induction es as [|e es IH]; intros acc Hk Hes Hacc Hs; cbn [fold_left rev]; [reflexivity|].
  apply Forall_cons_iff in Hes as [He Hes].
  rewrite (IH (dict_insert kp e acc) Hk Hes (dict_insert_shaped kp e acc He Hacc)
              (proj1 (dict_insert_sorted kp e acc He Hacc Hs))).
  rewrite (find_key_insert kp e k acc He Hk Hacc Hs).
  assert (Happ : forall a b, find_key kp k (a ++ b) = match find_key kp k a with Some x => Some x | None => find_key kp k b end).
  { induction a as [|x a IHa]; intros b; cbn [app find_key]; [reflexivity|]. destruct (same_key kp k x); [reflexivity|apply IHa]. }
  rewrite Happ. cbn [find_key].
  destruct (find_key kp k (rev es)); [reflexivity|]. destruct (same_key kp k e); reflexivity.
Qed.
