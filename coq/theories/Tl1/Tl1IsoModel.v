(** Executable checker: two schema IRs are the same up to a renumbering [r] of type instances.
    [s1] is the IR derived independently from the schema text (lib/indep_ir.py: every instance is
    reachable from a closed declaration by construction), [s2] the kernel dump, [r] maps an index of
    [s1] to the index of [s2] found by walking both IRs in lockstep from the top-level declarations.
    Executable definitions only (extracted into ocaml/drv_tl1iso.ml); soundness: Tl1Resolve.v. *)
From TLV Require Export Tl1.Tl1Model.
Open Scope N_scope.

Definition natarg_eqb (a b : natarg) : bool :=
  match a, b with
  | NNum x, NNum y => x =? y
  | NField i, NField j => Nat.eqb i j
  | NParam i, NParam j => Nat.eqb i j
  | _, _ => false
  end.

Definition prim_eqb (p q : prim) : bool :=
  match p, q with
  | PNat, PNat | PInt, PInt | PFloat, PFloat | PLong, PLong | PDouble, PDouble
  | PString, PString | PNoTL1, PNoTL1 => true
  | PBool f t, PBool f' t' => (f =? f') && (t =? t')
  | _, _ => false
  end.

Definition arrkind_eqb (k l : arrkind) : bool :=
  match k, l with
  | AVector, AVector | ATupleDyn, ATupleDyn => true
  | ATupleFixed n, ATupleFixed m => n =? m
  | _, _ => false
  end.

Definition mask_eqb (a b : option (natarg * N)) : bool :=
  match a, b with
  | None, None => true
  | Some (x, i), Some (y, j) => natarg_eqb x y && (i =? j)
  | _, _ => false
  end.

Fixpoint list_eqb {A} (eqb : A -> A -> bool) (l1 l2 : list A) : bool :=
  match l1, l2 with
  | [], [] => true
  | a :: l1', b :: l2' => eqb a b && list_eqb eqb l1' l2'
  | _, _ => false
  end.

(** the renumbering, as a list: index of [s1] |-> index of [s2] *)
Definition rn (r : list nat) (t : nat) : nat := nth t r 0%nat.

(** [n1] = number of instances of [s1]: every reference must stay inside [s1] *)
Definition field_iso (r : list nat) (n1 : nat) (f g : field) : bool :=
  Nat.ltb (f_ty f) n1 && Nat.eqb (rn r (f_ty f)) (f_ty g) && Bool.eqb (f_bare f) (f_bare g)
  && mask_eqb (f_mask f) (f_mask g) && list_eqb natarg_eqb (f_args f) (f_args g).

Fixpoint fields_iso (r : list nat) (n1 : nat) (fs gs : list field) : bool :=
  match fs, gs with
  | [], [] => true
  | f :: fs', g :: gs' => field_iso r n1 f g && fields_iso r n1 fs' gs'
  | _, _ => false
  end.

Definition tydef_iso (r : list nat) (n1 : nat) (d e : tydef) : bool :=
  match d, e with
  | TPrim p, TPrim q => prim_eqb p q
  | TStruct t fs, TStruct u gs => (t =? u) && fields_iso r n1 fs gs
  | TUnion vs, TUnion ws => forallb (fun v => Nat.ltb v n1) vs && list_eqb Nat.eqb (map (rn r) vs) ws
  | TArray k f, TArray l g => arrkind_eqb k l && field_iso r n1 f g
  | TDict kp f, TDict kq g => prim_eqb kp kq && field_iso r n1 f g
  | _, _ => false
  end.

(** instances [t, t+1, ...] of [s1] (the list [l]) against their images in [s2] *)
Fixpoint all_iso (r : list nat) (n1 : nat) (s2 : schema) (t : nat) (l : list tydef) : bool :=
  match l with
  | [] => true
  | d :: l' =>
      match nth_error s2 (rn r t) with
      | Some e => tydef_iso r n1 d e
      | None => false
      end && all_iso r n1 s2 (S t) l'
  end.

(** simulation: every instance of [s1] has the same shape as its image *)
Definition ir_sim (r : list nat) (s1 s2 : schema) : bool := all_iso r (length s1) s2 0 s1.

Fixpoint nodupb (l : list nat) : bool :=
  match l with
  | [] => true
  | x :: l' => negb (existsb (Nat.eqb x) l') && nodupb l'
  end.

(** the renumbering is one-to-one on the instances of [s1] *)
Definition injb (r : list nat) (n : nat) : bool := nodupb (map (rn r) (seq 0 n)).

(** isomorphism onto the part of [s2] that [r] reaches *)
Definition ir_iso (r : list nat) (s1 s2 : schema) : bool := ir_sim r s1 s2 && injb r (length s1).

(** identical numbering *)
Definition schema_eqb (s1 s2 : schema) : bool :=
  Nat.eqb (length s1) (length s2) && ir_sim (seq 0 (length s1)) s1 s2.
