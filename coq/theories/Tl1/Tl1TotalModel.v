(** C08 -- totality / boundedness of the TL1 reader [dec1]: executable definitions only
    (extracted by coq/extract/Extract_total.v; proofs in Tl1Total.v).

    A reader call (type [t], [bare]) is *non-consuming* ([nc]) when it may make a nested reader
    call at its own input position: a bare struct (first fields) or a bare tuple (first element).
    Every other call either makes no nested call at all (primitives, calls rejected at once) or
    reads at least one byte first (boxed struct / union: tag; vector / dictionary: count).

    Certificates (found by the check, VERIFIED by the boolean functions below):
    - [dc : list bool]: bare structs that *definitely consume* (>= 1 byte whenever they succeed)
      because one of their unmasked fields does ([dc_ok]; the justification may be circular --
      "success implies consumption" is proved by induction on fuel);
    - [rank : list nat]: strictly decreases along every edge "non-consuming call -> non-consuming
      nested call that can happen with zero bytes consumed since the parent's entry" ([ranked]).
      A field can be reached with zero bytes consumed only while no earlier field definitely
      consumes; a field definitely consumes iff it is unmasked and its call is [dcall]. *)
From TLV Require Export Tl1.Tl1Model.
Open Scope N_scope.

Definition nc (s : schema) (t : nat) (bare : bool) : bool :=
  match nth_error s t with
  | Some (TStruct _ _) => bare
  | Some (TArray ATupleDyn _) => bare
  | Some (TArray (ATupleFixed _) _) => bare
  | _ => false
  end.

(** calls that consume at least one byte whenever they succeed *)
Definition dcall (s : schema) (dc : list bool) (t : nat) (bare : bool) : bool :=
  negb (nc s t bare) || nth t dc false.

Definition def_consumes (s : schema) (dc : list bool) (fd : field) : bool :=
  match f_mask fd with
  | None => dcall s dc (f_ty fd) (f_bare fd)
  | Some _ => false
  end.

Definition dc_witness (s : schema) (dc : list bool) (d : tydef) : bool :=
  match d with
  | TStruct _ fds => existsb (def_consumes s dc) fds
  | _ => false
  end.

Fixpoint dc_ok_from (s : schema) (dc : list bool) (t : nat) (l : list tydef) : bool :=
  match l with
  | [] => true
  | d :: r => (if nth t dc false then dc_witness s dc d else true) && dc_ok_from s dc (S t) r
  end.

Definition dc_ok (s : schema) (dc : list bool) : bool := dc_ok_from s dc 0%nat s.

Definition rk (rank : list nat) (t : nat) : nat := nth t rank 0%nat.

(** nested call [fd] made by a parent of rank [p] at the parent's own input position *)
Definition child_ok (s : schema) (rank : list nat) (p : nat) (fd : field) : bool :=
  if nc s (f_ty fd) (f_bare fd) then Nat.ltb (rk rank (f_ty fd)) p else true.

Fixpoint fields_ranked (s : schema) (dc : list bool) (rank : list nat) (p : nat) (fds : list field) : bool :=
  match fds with
  | [] => true
  | fd :: r => child_ok s rank p fd && (if def_consumes s dc fd then true else fields_ranked s dc rank p r)
  end.

Definition tydef_ranked (s : schema) (dc : list bool) (rank : list nat) (t : nat) (d : tydef) : bool :=
  match d with
  | TStruct _ fds => fields_ranked s dc rank (rk rank t) fds
  | TArray AVector _ => true
  | TArray _ ef => child_ok s rank (rk rank t) ef
  | _ => true
  end.

Fixpoint ranked_from (s : schema) (dc : list bool) (rank : list nat) (t : nat) (l : list tydef) : bool :=
  match l with
  | [] => true
  | d :: r => tydef_ranked s dc rank t d && ranked_from s dc rank (S t) r
  end.

(** the checked certificate *)
Definition ranked (s : schema) (dc : list bool) (rank : list nat) : bool :=
  dc_ok s dc && ranked_from s dc rank 0%nat s.

(** ** certificates computed inside the model *)
Fixpoint bool_list_eqb (a b : list bool) : bool :=
  match a, b with
  | [], [] => true
  | x :: a', y :: b' => Bool.eqb x y && bool_list_eqb a' b'
  | _, _ => false
  end.

Fixpoint dc_step_from (s : schema) (dc : list bool) (t : nat) (l : list tydef) : list bool :=
  match l with
  | [] => []
  | d :: r => (nth t dc false && dc_witness s dc d) :: dc_step_from s dc (S t) r
  end.

(** greatest fixpoint, from "every struct" downwards *)
Fixpoint dc_iter (s : schema) (n : nat) (dc : list bool) : list bool :=
  match n with
  | O => dc
  | S n' => let dc' := dc_step_from s dc 0%nat s in if bool_list_eqb dc' dc then dc else dc_iter s n' dc'
  end.

Definition auto_dc (s : schema) : list bool :=
  dc_iter s (S (length s)) (map (fun d => match d with TStruct _ _ => true | _ => false end) s).

(** least fixpoint of "1 + max over zero-consumption non-consuming children", by at most |s|+1
    rounds of relaxation from the all-zero ranking *)
Fixpoint fields_rank (s : schema) (dc : list bool) (rank : list nat) (fds : list field) : nat :=
  match fds with
  | [] => 0%nat
  | fd :: r =>
      Nat.max (if nc s (f_ty fd) (f_bare fd) then S (rk rank (f_ty fd)) else 0%nat)
              (if def_consumes s dc fd then 0%nat else fields_rank s dc rank r)
  end.

Definition tydef_rank (s : schema) (dc : list bool) (rank : list nat) (d : tydef) : nat :=
  match d with
  | TStruct _ fds => fields_rank s dc rank fds
  | TArray AVector _ => 0%nat
  | TArray _ ef => if nc s (f_ty ef) (f_bare ef) then S (rk rank (f_ty ef)) else 0%nat
  | _ => 0%nat
  end.

Definition relax (s : schema) (dc : list bool) (rank : list nat) : list nat := map (tydef_rank s dc rank) s.

Fixpoint nat_list_eqb (a b : list nat) : bool :=
  match a, b with
  | [], [] => true
  | x :: a', y :: b' => Nat.eqb x y && nat_list_eqb a' b'
  | _, _ => false
  end.

Fixpoint relax_iter (s : schema) (dc : list bool) (n : nat) (rank : list nat) : list nat :=
  match n with
  | O => rank
  | S n' => let r' := relax s dc rank in if nat_list_eqb r' rank then rank else relax_iter s dc n' r'
  end.

Definition auto_rank (s : schema) : list nat :=
  relax_iter s (auto_dc s) (S (length s)) (map (fun _ => 0%nat) s).

Definition productive (s : schema) : bool := ranked s (auto_dc s) (auto_rank s).

(** ** the fuel that always suffices for a ranked schema *)
Definition max_rank (rank : list nat) : nat := fold_right Nat.max 0%nat rank.

Definition fuel_bound (rank : list nat) (b : bytes) : nat := ((max_rank rank + 2) * (length b + 1))%nat.

(** potential of a reader call: strictly decreases along every nested call *)
Definition phi (s : schema) (rank : list nat) (t : nat) (bare : bool) (b : bytes) : nat :=
  ((max_rank rank + 2) * length b + (if nc s t bare then S (rk rank t) else 0))%nat.

(** ** boundedness: number of elements a sequence reader is about to materialise
    ([None]: the call fails or is not a sequence before any element is read).  With sanity
    checks on it is at most (remaining input)/4 except for fixed-size arrays. *)
Definition elems_requested (san : bool) (s : schema) (t : nat) (bare : bool) (ps : list N) (b : bytes) : option N :=
  match nth_error s t with
  | Some (TArray k _) =>
      if negb bare then None else
      match k with
      | AVector => match read_count san b with Ok (n, _) => Some n | _ => None end
      | ATupleDyn => let n := nth 0 ps 0 in if san && negb (check_length_sanity b n 4) then None else Some n
      | ATupleFixed c => Some c
      end
  | Some (TDict _ _) =>
      if negb bare then None else
      match read_count san b with Ok (n, _) => Some n | _ => None end
  | _ => None
  end.

(** ** the F1 schema (kernel dump of
      rec.a {n:#} x:n.0?(rec.a n) y:int = rec.A n;   rec.b m:# v:(rec.a m) = rec.B;
    reduced to the four instances involved) and the 8 bytes that make its reader diverge *)
Definition f1_schema : schema :=
  [ TPrim PNat;
    TPrim PInt;
    TStruct 1340756578 (* rec.b *)
      [ mkField 0 true None [];
        mkField 3 true None [NField 0] ];
    TStruct 0 (* rec.a<n> *)
      [ mkField 3 true (Some (NParam 0, 0)) [NParam 0];
        mkField 1 true None [] ] ].

Definition f1_input : bytes := [1; 0; 0; 0; 5; 0; 0; 0].
