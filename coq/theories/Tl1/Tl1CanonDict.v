(** Canonicity of the TL1 reader for ALL well-formed schemas, map-backed dictionaries included
    (C02 / C11).  The reader accepts dictionary entries in any order and with duplicate keys and
    the writer re-emits them sorted by key, the last entry of a key winning; so the accepted
    bytes [pfx] and the re-emitted bytes [pfx'] differ -- but ONLY inside dictionaries, at any
    nesting depth.  This file proves
      (A) [dec1_reencodable]        every accepted input decodes to a value the writer accepts,
      (B) [dec1_canonical_form_fixed] the re-emitted bytes are a fixed point of read-then-write,
      (C) [dec1_canonical_modulo_dict] [pfx] and [pfx'] are related by [dict_equiv], an inductive
          relation that allows a difference only in the order / shadowed duplicates of dictionary
          entries, and that is equality on schemas without dictionaries ([dict_equiv_no_dict]),
          so that [dec1_canonical] of Tl1Canon.v is a corollary ([dec1_canonical_from_modulo_dict]). *)
From Coq Require Import ZArith Lia ZifyN ZifyNat ZifyBool.
From TLV Require Import Prim.PrimModel Prim.PrimProofs Tl1.Tl1Model Tl1.Tl1Proofs Tl1.Tl1Canon Tl1.Tl1Dict
                        Tl1.Tl1TotalModel Tl1.Tl1Total.
Ltac Zify.zify_post_hook ::= Z.div_mod_to_equations.
Open Scope N_scope.

(** * 1. the key order is a strict weak order on keys of one constructor class *)
(** What a reader call returns has a constructor fixed by the type; all entries of one dictionary
    are read by the same call, so their keys are in one class.  No assumption is made that the
    entry type is a struct whose first field has the key primitive: [wf_schema] does not say so. *)
Definition kclass (v : value) : nat :=
  match v with VNum _ => 0%nat | VStr _ => 1%nat | VBool _ => 2%nat | _ => 3%nat end.

Lemma sgn32_cases n : (n < 2147483648 /\ sgn32 n = Z.of_N n) \/ (2147483648 <= n /\ sgn32 n = (Z.of_N n - 4294967296)%Z).
Proof. unfold sgn32. destruct (n <? 2147483648) eqn:E; [left|right]; split; try reflexivity; lia. Qed.

Lemma sgn64_cases n : (n < 9223372036854775808 /\ sgn64 n = Z.of_N n) \/
                      (9223372036854775808 <= n /\ sgn64 n = (Z.of_N n - 18446744073709551616)%Z).
Proof. unfold sgn64. destruct (n <? 9223372036854775808) eqn:E; [left|right]; split; try reflexivity; lia. Qed.

(** incomparable keys of one class are interchangeable on the left of [<] *)
Lemma key_lt_incomp kp a b c :
  kclass a = kclass b -> kclass b = kclass c ->
  key_lt kp a b = false -> key_lt kp b a = false -> key_lt kp b c = true -> key_lt kp a c = true.
Proof.
  intros Hab Hbc.
  destruct a as [x|x|x|x|i x|x], b as [y|y|y|y|j y|y]; cbn [kclass] in Hab; try discriminate;
  destruct c as [z|z|z|z|k z|z]; cbn [kclass] in Hbc; try discriminate;
  destruct kp; cbn [key_lt]; intros H1 H2 H3; try discriminate.
  - lia.
  - pose proof (sgn32_cases x); pose proof (sgn32_cases y); pose proof (sgn32_cases z); lia.
  - pose proof (sgn64_cases x); pose proof (sgn64_cases y); pose proof (sgn64_cases z); lia.
  - rewrite (bytes_lt_tricho x y H1 H2). exact H3.
  - destruct x, y, z; cbn in *; congruence.
Qed.

Definition kc_uniform (c : nat) (l : list value) : Prop := Forall (fun e => kclass (entry_key e) = c) l.

Definition hd_gt (kp : prim) (x : value) (l : list value) : Prop :=
  match l with [] => True | h :: _ => key_lt kp x (entry_key h) = true end.

(** insertion keeps a class-uniform list strictly sorted (generalises [dict_insert_sorted] of
    Tl1Dict.v, which asks for keys of the key primitive's shape) *)
Lemma dict_insert_sorted_c kp c e : forall l,
  kclass (entry_key e) = c -> kc_uniform c l -> keys_sorted kp l = true ->
  keys_sorted kp (dict_insert kp e l) = true /\
  (forall x, hd_gt kp x l -> key_lt kp x (entry_key e) = true -> hd_gt kp x (dict_insert kp e l)).
Proof.
  induction l as [|e' l IH]; intros He Hl Hs.
  - cbn [dict_insert]. split; [reflexivity|]. intros x _ Hx. exact Hx.
  - cbn [dict_insert].
    apply Forall_cons_iff in Hl as [He' Hl].
    apply keys_sorted_cons in Hs as [Hhd Hs].
    destruct (key_lt kp (entry_key e) (entry_key e')) eqn:E1.
    + split.
      * apply keys_sorted_cons. split; [exact E1|]. apply keys_sorted_cons. split; assumption.
      * intros x _ Hx. exact Hx.
    + destruct (key_lt kp (entry_key e') (entry_key e)) eqn:E2.
      * destruct (IH He Hl Hs) as [IH1 IH2]. split.
        -- apply keys_sorted_cons. split; [|exact IH1].
           specialize (IH2 (entry_key e') Hhd E2). exact IH2.
        -- intros x Hx _. exact Hx.
      * split.
        -- apply keys_sorted_cons. split; [|exact Hs].
           destruct l as [|h l']; [exact I|].
           apply Forall_cons_iff in Hl as [Hh _].
           apply (key_lt_incomp kp _ (entry_key e')); congruence.
        -- intros x _ Hx. exact Hx.
Qed.

Lemma dict_insert_In kp e x : forall l, In x (dict_insert kp e l) -> x = e \/ In x l.
Proof.
  induction l as [|e' l IH]; cbn [dict_insert]; intros H.
  - destruct H as [<-|[]]. now left.
  - destruct (key_lt kp (entry_key e) (entry_key e')).
    + destruct H as [<-|H]; [now left|now right].
    + destruct (key_lt kp (entry_key e') (entry_key e)).
      * destruct H as [<-|H]; [right; now left|]. destruct (IH H) as [->|H']; [now left|right; now right].
      * destruct H as [<-|H]; [now left|right; now right].
Qed.

Lemma dict_fold_In kp x : forall es acc,
  In x (fold_left (fun a e => dict_insert kp e a) es acc) -> In x es \/ In x acc.
Proof.
  induction es as [|e es IH]; intros acc H; cbn [fold_left] in H; [now right|].
  destruct (IH _ H) as [H'|H']; [left; now right|].
  destruct (dict_insert_In _ _ _ _ H') as [->|H'']; [left; now left|now right].
Qed.

Definition dict_norm (kp : prim) (es : list value) : list value :=
  fold_left (fun a e => dict_insert kp e a) es [].

Lemma dict_norm_In kp x es : In x (dict_norm kp es) -> In x es.
Proof. intros H. destruct (dict_fold_In kp x es [] H) as [H'|[]]. exact H'. Qed.

Lemma dict_fold_sorted_c kp c : forall es acc,
  kc_uniform c es -> kc_uniform c acc -> keys_sorted kp acc = true ->
  keys_sorted kp (fold_left (fun a e => dict_insert kp e a) es acc) = true.
Proof.
  induction es as [|e es IH]; intros acc Hes Hacc Hs; cbn [fold_left]; [exact Hs|].
  apply Forall_cons_iff in Hes as [He Hes].
  apply IH; [exact Hes| |exact (proj1 (dict_insert_sorted_c kp c e acc He Hacc Hs))].
  unfold kc_uniform. rewrite Forall_forall. intros x Hx.
  destruct (dict_insert_In _ _ _ _ Hx) as [->|Hx']; [exact He|].
  unfold kc_uniform in Hacc. rewrite Forall_forall in Hacc. now apply Hacc.
Qed.

(** whatever was received: the decoded dictionary is strictly sorted, provided all received
    keys are in one constructor class *)
Theorem dict_norm_sorted kp c es : kc_uniform c es -> keys_sorted kp (dict_norm kp es) = true.
Proof. intros H. exact (dict_fold_sorted_c kp c es [] H (Forall_nil _) eq_refl). Qed.

Lemma dict_norm_length kp es : (length (dict_norm kp es) <= length es)%nat.
Proof. pose proof (dict_fold_length kp es []) as H. cbn [length] in H. unfold dict_norm. lia. Qed.

(** * 2. the constructor of what a reader call returns is fixed by the call's type *)
Lemma dec_fields_acc_prefix drec ps : forall fds acc b fs rest,
  dec_fields drec ps fds acc b = Some (Ok (fs, rest)) -> exists vs, fs = acc ++ vs.
Proof.
  induction fds as [|fd fds IH]; intros acc b fs rest H; cbn [dec_fields] in H.
  - injection H as <- _. exists []. now rewrite app_nil_r.
  - destruct (field_present ps acc fd).
    + destruct (drec (f_ty fd) (f_bare fd) (eval_args ps acc (f_args fd)) b) as [[[v b']| |]|]; try discriminate.
      destruct (IH _ _ _ _ H) as [vs ->]. exists (Some v :: vs). now rewrite <- app_assoc.
    + destruct (IH _ _ _ _ H) as [vs ->]. exists (None :: vs). now rewrite <- app_assoc.
Qed.

Lemma dec_fields_head drec ps fd fds b fs rest :
  dec_fields drec ps (fd :: fds) [] b = Some (Ok (fs, rest)) ->
  if field_present ps [] fd
  then exists v0 b' tl, drec (f_ty fd) (f_bare fd) (eval_args ps [] (f_args fd)) b = Some (Ok (v0, b')) /\ fs = Some v0 :: tl
  else exists tl, fs = None :: tl.
Proof.
  cbn [dec_fields]. destruct (field_present ps [] fd).
  - destruct (drec (f_ty fd) (f_bare fd) (eval_args ps [] (f_args fd)) b) as [[[v b']| |]|] eqn:Ed; try discriminate.
    intros H. destruct (dec_fields_acc_prefix _ _ _ _ _ _ _ H) as [vs ->]. exists v, b', vs. split; reflexivity.
  - intros H. destruct (dec_fields_acc_prefix _ _ _ _ _ _ _ H) as [vs ->]. exists vs. reflexivity.
Qed.

(** one case analysis of [dec1], used by the two class lemmas *)
Lemma dec1_shape fuel san s t bare ps b v rest :
  dec1 (S fuel) san s t bare ps b = Some (Ok (v, rest)) ->
  match nth_error s t with
  | Some (TPrim p) => dec_prim p b = Ok (v, rest)
  | Some (TStruct _ fds) => exists fs b', v = VStruct fs /\ dec_fields (dec1 fuel san s) ps fds [] b' = Some (Ok (fs, rest))
  | Some (TUnion _) => exists i fs, v = VUnion i fs
  | Some (TArray _ _) | Some (TDict _ _) => exists es, v = VArr es
  | None => False
  end.
Proof.
  cbn [dec1]. destruct (nth_error s t) as [[p|tag fds|vars|k ef|kp ef]|]; intros H; try discriminate.
  - now injection H.
  - assert (Hgo : forall b',
      match dec_fields (dec1 fuel san s) ps fds [] b' with
      | Some (Ok (fs, r)) => Some (Ok (VStruct fs, r)) | Some Eof => Some Eof | Some Reject => Some Reject | None => None
      end = Some (Ok (v, rest)) ->
      exists fs b'', v = VStruct fs /\ dec_fields (dec1 fuel san s) ps fds [] b'' = Some (Ok (fs, rest))).
    { intros b' Hd. destruct (dec_fields (dec1 fuel san s) ps fds [] b') as [[[fs r]| |]|] eqn:Ed; try discriminate.
      injection Hd as <- <-. exists fs, b'. split; [reflexivity|exact Ed]. }
    destruct bare; [now apply (Hgo b)|].
    destruct (nat_r b) as [[tg b']| |]; try discriminate.
    destruct (tg =? tag); [now apply (Hgo b')|discriminate].
  - destruct bare; [discriminate|].
    destruct (nat_r b) as [[tg b']| |]; try discriminate.
    destruct (find_variant s vars tg 0) as [[idx fds]|]; [|discriminate].
    destruct (dec_fields _ ps fds [] b') as [[[fs r]| |]|]; try discriminate.
    injection H as <- _. eauto.
  - destruct (negb bare); [discriminate|].
    assert (Hel : forall n b',
      match dec_elems (dec1 fuel san s (f_ty ef) (f_bare ef) (eval_args ps [] (f_args ef))) n b' with
      | Some (Ok (es, r)) => Some (Ok (VArr es, r)) | Some Eof => Some Eof | Some Reject => Some Reject | None => None
      end = Some (Ok (v, rest)) -> exists es, v = VArr es).
    { intros n b' Hd. destruct (dec_elems _ n b') as [[[es r]| |]|]; try discriminate. injection Hd as <- _. eauto. }
    destruct k as [| |c].
    + destruct (read_count san b) as [[n b']| |]; try discriminate. eapply Hel; eauto.
    + destruct (san && _); [discriminate|]. eapply Hel; eauto.
    + eapply Hel; eauto.
  - destruct (negb bare); [discriminate|].
    destruct (read_count san b) as [[n b']| |]; try discriminate.
    destruct (dec_elems _ n b') as [[[es r]| |]|]; try discriminate. injection H as <- _. eauto.
Qed.

Lemma dec_prim_class p : exists c, forall b v rest, dec_prim p b = Ok (v, rest) -> kclass v = c.
Proof.
  destruct p; cbn [dec_prim].
  1-3: exists 0%nat; intros b v rest H; destruct (nat_r b) as [[n r]| |]; try discriminate; now injection H as <- _.
  1-2: exists 0%nat; intros b v rest H; destruct (long_r b) as [[n r]| |]; try discriminate; now injection H as <- _.
  - exists 1%nat; intros b v rest H; destruct (str1_r b) as [[n r]| |]; try discriminate; now injection H as <- _.
  - exists 2%nat; intros b v rest H; destruct (bool1_r ftag ttag b) as [[n r]| |]; try discriminate; now injection H as <- _.
  - exists 0%nat; intros b v rest H; discriminate.
Qed.

Lemma dec1_val_class san s t bare ps : exists c, forall fuel b v rest,
  dec1 fuel san s t bare ps b = Some (Ok (v, rest)) -> kclass v = c.
Proof.
  destruct (nth_error s t) as [[p|tag fds|vars|k ef|kp ef]|] eqn:Et.
  1: destruct (dec_prim_class p) as [c Hc]; exists c.
  2-6: exists 3%nat.
  all: intros fuel b v rest H; (destruct fuel as [|fuel]; [discriminate|]);
       apply dec1_shape in H; rewrite Et in H.
  - eapply Hc; eauto.
  - destruct H as [fs [b' [-> _]]]. reflexivity.
  - destruct H as [i [fs ->]]. reflexivity.
  - destruct H as [es ->]. reflexivity.
  - destruct H as [es ->]. reflexivity.
  - contradiction.
Qed.

(** the key of an entry: class fixed by the entry type *)
Lemma dec1_key_class san s t bare ps : exists c, forall fuel b v rest,
  dec1 fuel san s t bare ps b = Some (Ok (v, rest)) -> kclass (entry_key v) = c.
Proof.
  destruct (nth_error s t) as [[p|tag fds|vars|k ef|kp ef]|] eqn:Et.
  2: { destruct fds as [|fd fds].
       - exists 0%nat. intros fuel b v rest H. destruct fuel as [|fuel]; [discriminate|].
         apply dec1_shape in H. rewrite Et in H. destruct H as [fs [b' [-> H]]].
         cbn [dec_fields] in H. injection H as <- _. reflexivity.
       - destruct (field_present ps [] fd) eqn:Ep.
         + destruct (dec1_val_class san s (f_ty fd) (f_bare fd) (eval_args ps [] (f_args fd))) as [c Hc].
           exists c. intros fuel b v rest H. destruct fuel as [|fuel]; [discriminate|].
           apply dec1_shape in H. rewrite Et in H. destruct H as [fs [b' [-> H]]].
           apply dec_fields_head in H. rewrite Ep in H. destruct H as [v0 [b'' [tl [Hd ->]]]].
           cbn [entry_key]. eapply Hc; eauto.
         + exists 0%nat. intros fuel b v rest H. destruct fuel as [|fuel]; [discriminate|].
           apply dec1_shape in H. rewrite Et in H. destruct H as [fs [b' [-> H]]].
           apply dec_fields_head in H. rewrite Ep in H. destruct H as [tl ->]. reflexivity. }
  all: exists 0%nat; intros fuel b v rest H; (destruct fuel as [|fuel]; [discriminate|]);
       apply dec1_shape in H; rewrite Et in H.
  - destruct p; cbn [dec_prim] in H.
    1-3: destruct (nat_r b) as [[n r]| |]; try discriminate; now injection H as <- _.
    1-2: destruct (long_r b) as [[n r]| |]; try discriminate; now injection H as <- _.
    + destruct (str1_r b) as [[n r]| |]; try discriminate; now injection H as <- _.
    + destruct (bool1_r ftag ttag b) as [[n r]| |]; try discriminate; now injection H as <- _.
    + discriminate.
  - destruct H as [i [fs ->]]. reflexivity.
  - destruct H as [es ->]. reflexivity.
  - destruct H as [es ->]. reflexivity.
  - contradiction.
Qed.

(** ** every element / field value a loop returns was returned by the element reader *)
Lemma nat_iter_Forall (P : value -> Prop) (drec : bytes -> dres) :
  (forall b v r, drec b = Some (Ok (v, r)) -> P v) ->
  forall n acc b acc' rest, Forall P acc ->
    nat_iter (estep drec) n (acc, b) = Some (Ok (acc', rest)) -> Forall P acc'.
Proof.
  intros HP. induction n as [|n IH]; intros acc b acc' rest Hacc H; cbn [nat_iter] in H.
  - now injection H as <- _.
  - unfold estep at 1 in H. cbn [fst snd] in H.
    destruct (drec b) as [[[v b']| |]|] eqn:Ed; try discriminate. cbn [obind] in H.
    eapply IH; [|exact H]. constructor; [eapply HP; eauto|exact Hacc].
Qed.

Lemma dec_elems_Forall (P : value -> Prop) (drec : bytes -> dres) :
  (forall b v r, drec b = Some (Ok (v, r)) -> P v) ->
  forall n b es rest, dec_elems drec n b = Some (Ok (es, rest)) -> Forall P es.
Proof.
  intros HP n b es rest H. unfold dec_elems in H. destruct n as [|p].
  - injection H as <- _. constructor.
  - rewrite pos_iter_nat in H.
    destruct (nat_iter (estep drec) (Pos.to_nat p) ([], b)) as [[[acc b']| |]|] eqn:E; try discriminate.
    injection H as <- _. apply Forall_rev. eapply nat_iter_Forall; eauto.
Qed.

Lemma dec_fields_Forall (P : value -> Prop) (drec : nat -> bool -> list N -> bytes -> dres) ps :
  (forall t bare ps b v r, drec t bare ps b = Some (Ok (v, r)) -> P v) ->
  forall fds acc b fs rest, Forall (Popt P) acc ->
    dec_fields drec ps fds acc b = Some (Ok (fs, rest)) -> Forall (Popt P) fs.
Proof.
  intros HP. induction fds as [|fd fds IH]; intros acc b fs rest Hacc H; cbn [dec_fields] in H.
  - now injection H as <- _.
  - destruct (field_present ps acc fd).
    + destruct (drec (f_ty fd) (f_bare fd) (eval_args ps acc (f_args fd)) b) as [[[v b']| |]|] eqn:Ed; try discriminate.
      eapply IH; [|exact H]. apply Forall_app. split; [exact Hacc|]. constructor; [|constructor].
      cbn [Popt]. eapply HP; eauto.
    + eapply IH; [|exact H]. apply Forall_app. split; [exact Hacc|]. constructor; [exact I|constructor].
Qed.

(** * 3. the relation: equal up to order / shadowed duplicates of dictionary entries *)
(** A [piece] is one element of a sequence: its decoded value, the bytes it was read from and the
    bytes the writer emits for it. *)
Definition piece := (value * (bytes * bytes))%type.
Definition pval (p : piece) : value := fst p.
Definition pin (p : piece) : bytes := fst (snd p).
Definition pout (p : piece) : bytes := snd (snd p).

(** [dict_insert] on pieces (same comparisons, on the key of the piece's value) *)
Fixpoint pinsert (kp : prim) (p : piece) (l : list piece) : list piece :=
  match l with
  | [] => [p]
  | q :: r =>
      if key_lt kp (entry_key (pval p)) (entry_key (pval q)) then p :: l
      else if key_lt kp (entry_key (pval q)) (entry_key (pval p)) then q :: pinsert kp p r
      else p :: r
  end.

(** the surviving entries in key order: what [dec1] keeps of the received entries *)
Definition pnorm (kp : prim) (l : list piece) : list piece := fold_left (fun a p => pinsert kp p a) l [].

Definition count_ok (k : arrkind) (ps : list N) (n : N) : bool :=
  match k with
  | AVector => n <? 4294967296
  | ATupleDyn => n =? nth 0 ps 0
  | ATupleFixed c => n =? c
  end.
Definition count_hdr (k : arrkind) (n : N) : bytes := match k with AVector => nat_w n | _ => [] end.
Definition box_hdr (bare : bool) (tag : N) : bytes := if bare then [] else nat_w tag.

(** [DEQ s t bare ps v x y]: [x] and [y] are two encodings of type [t] that both denote the value
    [v]; they have the same constructor tags, the same primitive values, the same element counts of
    vectors / tuples, and inside a dictionary [x] lists entries [l] in any order (count = number of
    received entries) where [y] lists [pnorm kp l]: the same entries sorted by key, an entry
    dropped iff a later entry of [l] has the same key.  The value index is what later field masks
    and nat arguments are evaluated on. *)
Inductive DEQ (s : schema) : nat -> bool -> list N -> value -> bytes -> bytes -> Prop :=
| DEQ_prim : forall t bare ps p v x,
    nth_error s t = Some (TPrim p) -> enc_prim p v = Some x -> DEQ s t bare ps v x x
| DEQ_struct : forall t bare ps tag fds fs x y,
    nth_error s t = Some (TStruct tag fds) -> DEQF s ps fs fds fs x y ->
    DEQ s t bare ps (VStruct fs) (box_hdr bare tag ++ x) (box_hdr bare tag ++ y)
| DEQ_union : forall t ps vars idx vt tag fds fs x y,
    nth_error s t = Some (TUnion vars) -> nth_error vars idx = Some vt -> nth_error s vt = Some (TStruct tag fds) ->
    DEQF s ps fs fds fs x y ->
    DEQ s t false ps (VUnion idx fs) (nat_w tag ++ x) (nat_w tag ++ y)
| DEQ_array : forall t ps k ef l,
    nth_error s t = Some (TArray k ef) ->
    DEQE s (f_ty ef) (f_bare ef) (eval_args ps [] (f_args ef)) l ->
    count_ok k ps (lenN l) = true ->
    DEQ s t true ps (VArr (map pval l))
        (count_hdr k (lenN l) ++ concat (map pin l)) (count_hdr k (lenN l) ++ concat (map pout l))
| DEQ_dict : forall t ps kp ef l,
    nth_error s t = Some (TDict kp ef) ->
    DEQE s (f_ty ef) (f_bare ef) (eval_args ps [] (f_args ef)) l ->
    lenN l < 4294967296 ->
    DEQ s t true ps (VArr (map pval (pnorm kp l)))
        (nat_w (lenN l) ++ concat (map pin l))
        (nat_w (lenN (pnorm kp l)) ++ concat (map pout (pnorm kp l)))
with DEQF (s : schema) : list N -> list (option value) -> list field -> list (option value) -> bytes -> bytes -> Prop :=
| DEQF_nil : forall ps all, DEQF s ps all [] [] [] []
| DEQF_some : forall ps all fd fds v vs x1 y1 x2 y2,
    field_present ps all fd = true ->
    DEQ s (f_ty fd) (f_bare fd) (eval_args ps all (f_args fd)) v x1 y1 ->
    DEQF s ps all fds vs x2 y2 ->
    DEQF s ps all (fd :: fds) (Some v :: vs) (x1 ++ x2) (y1 ++ y2)
| DEQF_none : forall ps all fd fds vs x y,
    field_present ps all fd = false ->
    DEQF s ps all fds vs x y ->
    DEQF s ps all (fd :: fds) (None :: vs) x y
with DEQE (s : schema) : nat -> bool -> list N -> list piece -> Prop :=
| DEQE_nil : forall t bare ps, DEQE s t bare ps []
| DEQE_cons : forall t bare ps e x y l,
    DEQ s t bare ps e x y -> DEQE s t bare ps l -> DEQE s t bare ps ((e, (x, y)) :: l).

Scheme DEQ_mut := Minimality for DEQ Sort Prop
  with DEQF_mut := Minimality for DEQF Sort Prop
  with DEQE_mut := Minimality for DEQE Sort Prop.
Combined Scheme DEQ_mutind from DEQ_mut, DEQF_mut, DEQE_mut.

Definition dict_equiv (s : schema) (t : nat) (bare : bool) (ps : list N) (x y : bytes) : Prop :=
  exists v, DEQ s t bare ps v x y.

(** ** without dictionaries the relation is equality *)
Lemma DEQ_no_dict_all s : no_dict s = true ->
  (forall t bare ps v x y, DEQ s t bare ps v x y -> x = y) /\
  (forall ps all fds vs x y, DEQF s ps all fds vs x y -> x = y) /\
  (forall t bare ps l, DEQE s t bare ps l -> map pin l = map pout l).
Proof.
  intros Hnd. apply DEQ_mutind.
  - reflexivity.
  - intros t bare ps tag fds fs x y _ _ ->. reflexivity.
  - intros t ps vars idx vt tag fds fs x y _ _ _ _ ->. reflexivity.
  - intros t ps k ef l _ _ -> _. reflexivity.
  - intros t ps kp ef l Et. exfalso. eapply no_dict_lookup; eauto.
  - reflexivity.
  - intros ps all fd fds v vs x1 y1 x2 y2 _ _ -> _ ->. reflexivity.
  - intros ps all fd fds vs x y _ _ ->. reflexivity.
  - reflexivity.
  - intros t bare ps e x y l _ -> _ IH. cbn [map]. unfold pin at 1, pout at 1. cbn [fst snd]. now rewrite IH.
Qed.

Theorem dict_equiv_no_dict s t bare ps x y : no_dict s = true -> dict_equiv s t bare ps x y -> x = y.
Proof. intros Hnd [v H]. exact (proj1 (DEQ_no_dict_all s Hnd) _ _ _ _ _ _ H). Qed.

(** ** pieces vs values *)
Lemma pinsert_val kp p : forall l, map pval (pinsert kp p l) = dict_insert kp (pval p) (map pval l).
Proof.
  induction l as [|q l IH]; cbn [pinsert map dict_insert]; [reflexivity|].
  destruct (key_lt kp (entry_key (pval p)) (entry_key (pval q))); [reflexivity|].
  destruct (key_lt kp (entry_key (pval q)) (entry_key (pval p))); cbn [map]; [now rewrite IH|reflexivity].
Qed.

Lemma pfold_val kp : forall l acc,
  map pval (fold_left (fun a p => pinsert kp p a) l acc) =
  fold_left (fun a e => dict_insert kp e a) (map pval l) (map pval acc).
Proof.
  induction l as [|p l IH]; intros acc; cbn [fold_left map]; [reflexivity|].
  now rewrite IH, pinsert_val.
Qed.

Lemma pnorm_val kp l : map pval (pnorm kp l) = dict_norm kp (map pval l).
Proof. unfold pnorm, dict_norm. now rewrite pfold_val. Qed.

Lemma pinsert_In kp p x : forall l, In x (pinsert kp p l) -> x = p \/ In x l.
Proof.
  induction l as [|q l IH]; cbn [pinsert]; intros H.
  - destruct H as [<-|[]]. now left.
  - destruct (key_lt kp (entry_key (pval p)) (entry_key (pval q))).
    + destruct H as [<-|H]; [now left|now right].
    + destruct (key_lt kp (entry_key (pval q)) (entry_key (pval p))).
      * destruct H as [<-|H]; [right; now left|]. destruct (IH H) as [->|H']; [now left|right; now right].
      * destruct H as [<-|H]; [now left|right; now right].
Qed.

Lemma pfold_In kp x : forall l acc, In x (fold_left (fun a p => pinsert kp p a) l acc) -> In x l \/ In x acc.
Proof.
  induction l as [|p l IH]; intros acc H; cbn [fold_left] in H; [now right|].
  destruct (IH _ H) as [H'|H']; [left; now right|].
  destruct (pinsert_In _ _ _ _ H') as [->|H'']; [left; now left|now right].
Qed.

Lemma pnorm_In kp x l : In x (pnorm kp l) -> In x l.
Proof. intros H. destruct (pfold_In kp x l [] H) as [H'|[]]. exact H'. Qed.

Lemma pnorm_length kp l : (length (pnorm kp l) <= length l)%nat.
Proof.
  rewrite <- (map_length pval (pnorm kp l)), pnorm_val, <- (map_length pval l). apply dict_norm_length.
Qed.

Lemma enc_elems_pieces (rec : value -> option bytes) : forall l,
  Forall (fun p => rec (pval p) = Some (pout p)) l -> enc_elems rec (map pval l) = Some (concat (map pout l)).
Proof.
  induction l as [|p l IH]; intros H; cbn [map enc_elems concat]; [reflexivity|].
  apply Forall_cons_iff in H as [Hp Hl]. rewrite Hp. cbn [bind_opt]. rewrite (IH Hl). reflexivity.
Qed.

Lemma lenN_map {A B} (f : A -> B) l : lenN (map f l) = lenN l.
Proof. unfold lenN. now rewrite map_length. Qed.

(** * 4. the invariant of the reader, as a predicate on decoders *)
Definition CAND (s : schema) (dec : nat -> bool -> list N -> bytes -> dres) : Prop :=
  forall t bare ps b v rest, bytes_ok b -> dec t bare ps b = Some (Ok (v, rest)) ->
    exists pfx pfx', b = pfx ++ rest /\ enc1 false s t bare ps v = Some pfx' /\ DEQ s t bare ps v pfx pfx'.

Lemma dec_fields_deq s drec ps : CAND s drec ->
  forall fds acc b fs rest,
    bytes_ok b ->
    fields_ok (length acc) fds = true ->
    dec_fields drec ps fds acc b = Some (Ok (fs, rest)) ->
    exists vs pfx pfx', fs = acc ++ vs /\ b = pfx ++ rest /\
      enc_fields (fun t' b0 ps' v' => enc1 false s t' b0 ps' v') ps fs fds vs = Some pfx' /\
      DEQF s ps fs fds vs pfx pfx'.
Proof.
  intros Hcan. induction fds as [|fd fds IH]; intros acc b fs rest Hb Hok H; cbn [dec_fields] in H.
  - injection H as <- <-. exists [], [], []. rewrite app_nil_r. repeat split; try reflexivity. constructor.
  - cbn [fields_ok] in Hok. apply andb_true_iff in Hok as [Hfd Hrest].
    destruct (field_present ps acc fd) eqn:Ep.
    + destruct (drec (f_ty fd) (f_bare fd) (eval_args ps acc (f_args fd)) b) as [[[v b']| |]|] eqn:Ed; try discriminate.
      destruct (Hcan _ _ _ _ _ _ Hb Ed) as [p1 [q1 [-> [He1 Hq1]]]].
      apply bytes_ok_app in Hb as [_ Hb'].
      assert (Hok' : fields_ok (length (acc ++ [Some v])) fds = true)
        by (rewrite app_length; cbn [length]; rewrite Nat.add_1_r; exact Hrest).
      destruct (IH (acc ++ [Some v]) b' fs rest Hb' Hok' H) as [vs [p2 [q2 [Hfs [-> [He2 Hq2]]]]]].
      exists (Some v :: vs), (p1 ++ p2), (q1 ++ q2). rewrite <- app_assoc in Hfs. cbn [app] in Hfs.
      split; [exact Hfs|]. split; [now rewrite app_assoc|].
      assert (E1 : field_present ps fs fd = field_present ps acc fd)
        by (rewrite Hfs; apply field_present_prefix; exact Hfd).
      assert (E2 : eval_args ps fs (f_args fd) = eval_args ps acc (f_args fd)).
      { rewrite Hfs. apply eval_args_prefix. unfold field_ok in Hfd. now apply andb_true_iff in Hfd as [_ ?]. }
      split.
      * cbn [enc_fields]. rewrite E1, Ep, E2, He1. cbn [bind_opt]. rewrite He2. reflexivity.
      * apply DEQF_some; [now rewrite E1|now rewrite E2|exact Hq2].
    + assert (Hok' : fields_ok (length (acc ++ [None])) fds = true)
        by (rewrite app_length; cbn [length]; rewrite Nat.add_1_r; exact Hrest).
      destruct (IH (acc ++ [None]) b fs rest Hb Hok' H) as [vs [p2 [q2 [Hfs [-> [He2 Hq2]]]]]].
      exists (None :: vs), p2, q2. rewrite <- app_assoc in Hfs. cbn [app] in Hfs.
      split; [exact Hfs|]. split; [reflexivity|].
      assert (E1 : field_present ps fs fd = field_present ps acc fd)
        by (rewrite Hfs; apply field_present_prefix; exact Hfd).
      split.
      * cbn [enc_fields]. rewrite E1, Ep. exact He2.
      * apply DEQF_none; [now rewrite E1|exact Hq2].
Qed.

Definition ECAN (s : schema) (t : nat) (bare : bool) (ps : list N) (drec : bytes -> dres) : Prop :=
  forall b v rest, bytes_ok b -> drec b = Some (Ok (v, rest)) ->
    exists pfx pfx', b = pfx ++ rest /\ enc1 false s t bare ps v = Some pfx' /\ DEQ s t bare ps v pfx pfx'.

Lemma nat_iter_deq s t bare ps (drec : bytes -> dres) : ECAN s t bare ps drec ->
  forall n acc b acc' rest,
    bytes_ok b ->
    nat_iter (estep drec) n (acc, b) = Some (Ok (acc', rest)) ->
    exists l, acc' = rev (map pval l) ++ acc /\ length l = n /\ b = concat (map pin l) ++ rest /\
      DEQE s t bare ps l /\ Forall (fun p => enc1 false s t bare ps (pval p) = Some (pout p)) l.
Proof.
  intros Hcan. induction n as [|n IH]; intros acc b acc' rest Hb H; cbn [nat_iter] in H.
  - injection H as <- <-. exists []. repeat split; try reflexivity; constructor.
  - unfold estep at 1 in H. cbn [snd fst] in H.
    destruct (drec b) as [[[v b']| |]|] eqn:Ed; try discriminate. cbn [obind] in H.
    destruct (Hcan _ _ _ Hb Ed) as [p1 [q1 [-> [He1 Hq1]]]].
    apply bytes_ok_app in Hb as [_ Hb'].
    destruct (IH (v :: acc) b' acc' rest Hb' H) as [l [Hacc [Hlen [-> [HE HF]]]]].
    exists ((v, (p1, q1)) :: l). cbn [map rev length concat]. unfold pval at 1, pin at 1. cbn [fst snd].
    split; [rewrite <- app_assoc; exact Hacc|]. split; [now rewrite Hlen|].
    split; [now rewrite app_assoc|]. split; [now constructor|].
    constructor; [exact He1|exact HF].
Qed.

Lemma dec_elems_deq s t bare ps (drec : bytes -> dres) : ECAN s t bare ps drec ->
  forall n b es rest,
    bytes_ok b ->
    dec_elems drec n b = Some (Ok (es, rest)) ->
    exists l, es = map pval l /\ lenN l = n /\ b = concat (map pin l) ++ rest /\
      DEQE s t bare ps l /\ Forall (fun p => enc1 false s t bare ps (pval p) = Some (pout p)) l.
Proof.
  intros Hcan n b es rest Hb H. unfold dec_elems in H. destruct n as [|p].
  - injection H as <- <-. exists []. repeat split; try reflexivity; constructor.
  - rewrite pos_iter_nat in H.
    destruct (nat_iter (estep drec) (Pos.to_nat p) ([], b)) as [[[acc b']| |]|] eqn:E; try discriminate.
    injection H as <- <-.
    destruct (nat_iter_deq s t bare ps drec Hcan _ _ _ _ _ Hb E) as [l [Hacc [Hlen [-> [HE HF]]]]].
    exists l. rewrite Hacc, app_nil_r, rev_involutive.
    split; [reflexivity|]. split; [unfold lenN; lia|]. split; [reflexivity|]. split; assumption.
Qed.

Local Opaque nat_w long_w.

(** ** the main induction: ALL well-formed schemas *)
Theorem dec1_deq san s : wf_schema s = true -> forall fuel, CAND s (dec1 fuel san s).
Proof.
  intros Hwf. induction fuel as [|fuel IH]; intros t bare ps b v rest Hb H; [discriminate|].
  cbn [dec1] in H.
  destruct (nth_error s t) as [d|] eqn:Et; [|discriminate].
  pose proof (wf_lookup s t d Hwf Et) as Hok.
  destruct d as [p|tag fds|vars|k ef|kp ef].
  - (* prim *)
    injection H as H. destruct (prim_canonical _ _ _ _ Hb H) as [pfx [-> He]].
    exists pfx, pfx. split; [reflexivity|]. split.
    + destruct v; cbn [enc1]; rewrite Et; exact He.
    + eapply DEQ_prim; eauto.
  - (* struct *)
    cbn [tydef_ok] in Hok. apply andb_true_iff in Hok as [Htag Hfds].
    assert (Hgo : forall b', bytes_ok b' ->
      match dec_fields (dec1 fuel san s) ps fds [] b' with
      | Some (Ok (fs, r)) => Some (Ok (VStruct fs, r)) | Some Eof => Some Eof | Some Reject => Some Reject | None => None
      end = Some (Ok (v, rest)) ->
      exists fs body body', v = VStruct fs /\ b' = body ++ rest /\
        enc_fields (fun t' b0 ps' v' => enc1 false s t' b0 ps' v') ps fs fds fs = Some body' /\
        DEQF s ps fs fds fs body body').
    { intros b' Hb' Hd.
      destruct (dec_fields (dec1 fuel san s) ps fds [] b') as [[[fs r]| |]|] eqn:Ed; try discriminate.
      injection Hd as <- <-.
      destruct (dec_fields_deq s _ ps IH fds [] b' fs r Hb' Hfds Ed) as [vs [pfx [pfx' [Hfs [-> [He Hq]]]]]].
      cbn [app] in Hfs. subst vs. exists fs, pfx, pfx'. repeat split; auto. }
    destruct bare.
    + destruct (Hgo b Hb H) as [fs [body [body' [-> [-> [He Hq]]]]]].
      exists body, body'. split; [reflexivity|]. split.
      * cbn [enc1]. rewrite Et, He. reflexivity.
      * exact (DEQ_struct s t true ps tag fds fs body body' Et Hq).
    + destruct (nat_r b) as [[tg b']| |] eqn:En; try discriminate.
      destruct (nat_canonical _ _ _ Hb En) as [-> _].
      destruct (tg =? tag) eqn:Etg; [|discriminate]. apply N.eqb_eq in Etg. subst tg.
      apply bytes_ok_app in Hb as [_ Hb'].
      destruct (Hgo b' Hb' H) as [fs [body [body' [-> [-> [He Hq]]]]]].
      exists (nat_w tag ++ body), (nat_w tag ++ body'). split; [now rewrite app_assoc|]. split.
      * cbn [enc1]. rewrite Et, He. reflexivity.
      * exact (DEQ_struct s t false ps tag fds fs body body' Et Hq).
  - (* union *)
    destruct bare; [discriminate|].
    destruct (nat_r b) as [[tg b']| |] eqn:En; try discriminate.
    destruct (nat_canonical _ _ _ Hb En) as [-> _].
    apply bytes_ok_app in Hb as [_ Hb'].
    destruct (find_variant s vars tg 0) as [[idx fds]|] eqn:Ef; [|discriminate].
    destruct (find_variant_sound _ _ _ _ _ _ Ef) as [vt [Hn [Hs _]]]. rewrite Nat.sub_0_r in Hn.
    pose proof (wf_lookup s vt _ Hwf Hs) as Hokv. cbn [tydef_ok] in Hokv.
    apply andb_true_iff in Hokv as [_ Hfds].
    destruct (dec_fields (dec1 fuel san s) ps fds [] b') as [[[fs r]| |]|] eqn:Ed; try discriminate.
    injection H as <- <-.
    destruct (dec_fields_deq s _ ps IH fds [] b' fs r Hb' Hfds Ed) as [vs [pfx [pfx' [Hfs [-> [He Hq]]]]]].
    cbn [app] in Hfs. subst vs.
    exists (nat_w tg ++ pfx), (nat_w tg ++ pfx'). split; [now rewrite app_assoc|]. split.
    + cbn [enc1]. rewrite Et, Hn, Hs, He. reflexivity.
    + exact (DEQ_union s t ps vars idx vt tg fds fs pfx pfx' Et Hn Hs Hq).
  - (* array *)
    destruct bare; [|discriminate]. cbn [negb] in H.
    assert (Hel : forall n b', bytes_ok b' ->
      match dec_elems (dec1 fuel san s (f_ty ef) (f_bare ef) (eval_args ps [] (f_args ef))) n b' with
      | Some (Ok (es, r)) => Some (Ok (VArr es, r)) | Some Eof => Some Eof | Some Reject => Some Reject | None => None
      end = Some (Ok (v, rest)) ->
      exists l, v = VArr (map pval l) /\ lenN l = n /\ b' = concat (map pin l) ++ rest /\
        DEQE s (f_ty ef) (f_bare ef) (eval_args ps [] (f_args ef)) l /\
        Forall (fun p => enc1 false s (f_ty ef) (f_bare ef) (eval_args ps [] (f_args ef)) (pval p) = Some (pout p)) l).
    { intros n b' Hb' Hd.
      destruct (dec_elems _ n b') as [[[es r]| |]|] eqn:Ed; try discriminate.
      injection Hd as <- <-.
      destruct (dec_elems_deq s _ _ _ _ (fun b0 v0 r0 Hb0 Hd0 => IH _ _ _ _ _ _ Hb0 Hd0) n b' es r Hb' Ed)
        as [l [-> [Hlen [-> [HE HF]]]]].
      exists l. repeat split; auto. }
    assert (Henc : forall l,
      Forall (fun p => enc1 false s (f_ty ef) (f_bare ef) (eval_args ps [] (f_args ef)) (pval p) = Some (pout p)) l ->
      enc_elems (fun e => enc1 false s (f_ty ef) (f_bare ef) (eval_args ps [] (f_args ef)) e) (map pval l)
      = Some (concat (map pout l))).
    { intros l HF. exact (enc_elems_pieces (fun e => enc1 false s (f_ty ef) (f_bare ef) (eval_args ps [] (f_args ef)) e) l HF). }
    destruct k as [| |c].
    + unfold read_count in H.
      destruct (nat_r b) as [[n b']| |] eqn:En; try discriminate.
      destruct (nat_canonical _ _ _ Hb En) as [-> Hn]. change (2 ^ 32) with 4294967296 in Hn.
      apply bytes_ok_app in Hb as [_ Hb'].
      destruct (san && negb (check_length_sanity b' n 4)); [discriminate|].
      destruct (Hel n b' Hb' H) as [l [-> [Hlen [-> [HE HF]]]]]. subst n.
      exists (nat_w (lenN l) ++ concat (map pin l)), (nat_w (lenN l) ++ concat (map pout l)).
      split; [now rewrite app_assoc|]. split.
      * cbn [enc1]. rewrite Et. cbn [negb]. rewrite (Henc l HF). cbn [bind_opt sane_ok]. rewrite lenN_map.
        destruct (lenN l <? 4294967296) eqn:E; [reflexivity|lia].
      * apply (DEQ_array s t ps AVector ef l Et HE). cbn [count_ok]. lia.
    + destruct (san && negb (check_length_sanity b (nth 0 ps 0) 4)); [discriminate|].
      destruct (Hel _ b Hb H) as [l [-> [Hlen [-> [HE HF]]]]].
      exists (concat (map pin l)), (concat (map pout l)). split; [reflexivity|]. split.
      * cbn [enc1]. rewrite Et. cbn [negb]. rewrite (Henc l HF). cbn [bind_opt sane_ok].
        rewrite lenN_map, Hlen, N.eqb_refl. reflexivity.
      * apply (DEQ_array s t ps ATupleDyn ef l Et HE). cbn [count_ok]. rewrite Hlen. apply N.eqb_refl.
    + destruct (Hel _ b Hb H) as [l [-> [Hlen [-> [HE HF]]]]].
      exists (concat (map pin l)), (concat (map pout l)). split; [reflexivity|]. split.
      * cbn [enc1]. rewrite Et. cbn [negb]. rewrite (Henc l HF). cbn [bind_opt sane_ok].
        rewrite lenN_map, Hlen, N.eqb_refl. reflexivity.
      * apply (DEQ_array s t ps (ATupleFixed c) ef l Et HE). cbn [count_ok]. rewrite Hlen. apply N.eqb_refl.
  - (* dictionary *)
    destruct bare; [|discriminate]. cbn [negb] in H.
    unfold read_count in H.
    destruct (nat_r b) as [[n b']| |] eqn:En; try discriminate.
    destruct (nat_canonical _ _ _ Hb En) as [-> Hn]. change (2 ^ 32) with 4294967296 in Hn.
    apply bytes_ok_app in Hb as [_ Hb'].
    destruct (san && negb (check_length_sanity b' n 4)); [discriminate|].
    destruct (dec_elems (dec1 fuel san s (f_ty ef) (f_bare ef) (eval_args ps [] (f_args ef))) n b')
      as [[[es r]| |]|] eqn:Ed; try discriminate.
    injection H as <- <-.
    destruct (dec_elems_deq s _ _ _ _ (fun b0 v0 r0 Hb0 Hd0 => IH _ _ _ _ _ _ Hb0 Hd0) n b' es r Hb' Ed)
      as [l [-> [Hlen [-> [HE HF]]]]]. subst n.
    (* all received keys are in one constructor class *)
    destruct (dec1_key_class san s (f_ty ef) (f_bare ef) (eval_args ps [] (f_args ef))) as [c Hc].
    assert (Hu : kc_uniform c (map pval l)).
    { eapply dec_elems_Forall; [|exact Ed]. intros b0 v0 r0 Hd0. eapply Hc; eauto. }
    change (fold_left (fun acc e => dict_insert kp e acc) (map pval l) []) with (dict_norm kp (map pval l)).
    rewrite <- pnorm_val.
    assert (HF' : Forall (fun p => enc1 false s (f_ty ef) (f_bare ef) (eval_args ps [] (f_args ef)) (pval p) = Some (pout p))
                         (pnorm kp l)).
    { rewrite Forall_forall in *. intros p Hp. apply HF. eapply pnorm_In; eauto. }
    exists (nat_w (lenN l) ++ concat (map pin l)), (nat_w (lenN (pnorm kp l)) ++ concat (map pout (pnorm kp l))).
    split; [now rewrite app_assoc|]. split.
    + cbn [enc1]. rewrite Et. cbn [negb].
      rewrite (enc_elems_pieces (fun e => enc1 false s (f_ty ef) (f_bare ef) (eval_args ps [] (f_args ef)) e) (pnorm kp l) HF').
      cbn [bind_opt sane_ok]. rewrite lenN_map.
      assert (E1 : (lenN (pnorm kp l) <? 4294967296) = true).
      { pose proof (pnorm_length kp l). unfold lenN in *. lia. }
      assert (E2 : keys_sorted kp (map pval (pnorm kp l)) = true).
      { rewrite pnorm_val. exact (dict_norm_sorted kp c _ Hu). }
      rewrite E1, E2. reflexivity.
    + exact (DEQ_dict s t ps kp ef l Et HE Hn).
Qed.

(** * 5. the decoded value is no deeper than the fuel that was enough to read it *)
Lemma dec_prim_depth p b v rest : dec_prim p b = Ok (v, rest) -> vdepth v = 1%nat.
Proof.
  destruct p; cbn [dec_prim]; intros H.
  1-3: destruct (nat_r b) as [[n r]| |]; try discriminate; now injection H as <- _.
  1-2: destruct (long_r b) as [[n r]| |]; try discriminate; now injection H as <- _.
  - destruct (str1_r b) as [[n r]| |]; try discriminate; now injection H as <- _.
  - destruct (bool1_r ftag ttag b) as [[n r]| |]; try discriminate; now injection H as <- _.
  - discriminate.
Qed.

Lemma depth_opts_bound n fs :
  Forall (Popt (fun x => (vdepth x <= n)%nat)) fs ->
  (fold_right (fun o m => Nat.max (match o with Some y => vdepth y | None => 0%nat end) m) 0%nat fs <= n)%nat.
Proof.
  induction fs as [|o fs IH]; intros H; cbn [fold_right]; [lia|].
  apply Forall_cons_iff in H as [Ho Hfs]. specialize (IH Hfs).
  destruct o as [x|]; cbn [Popt] in Ho; lia.
Qed.

Lemma depth_elems_bound n es :
  Forall (fun x => (vdepth x <= n)%nat) es ->
  (fold_right (fun y m => Nat.max (vdepth y) m) 0%nat es <= n)%nat.
Proof.
  induction es as [|x es IH]; intros H; cbn [fold_right]; [lia|].
  apply Forall_cons_iff in H as [Hx Hes]. specialize (IH Hes). lia.
Qed.

Theorem dec1_vdepth san s : forall fuel t bare ps b v rest,
  dec1 fuel san s t bare ps b = Some (Ok (v, rest)) -> (vdepth v <= fuel)%nat.
Proof.
  induction fuel as [|fuel IH]; intros t bare ps b v rest H; [discriminate|].
  cbn [dec1] in H.
  destruct (nth_error s t) as [d|] eqn:Et; [|discriminate].
  assert (HF : forall fds b' fs r, dec_fields (dec1 fuel san s) ps fds [] b' = Some (Ok (fs, r)) ->
            (fold_right (fun o m => Nat.max (match o with Some y => vdepth y | None => 0%nat end) m) 0%nat fs <= fuel)%nat).
  { intros fds b' fs r Ed. apply depth_opts_bound.
    eapply (dec_fields_Forall (fun x => (vdepth x <= fuel)%nat)); [|constructor|exact Ed].
    intros t0 bare0 ps0 b0 v0 r0 Hd0. eapply IH; eauto. }
  assert (HE : forall ef n b' es r,
            dec_elems (dec1 fuel san s (f_ty ef) (f_bare ef) (eval_args ps [] (f_args ef))) n b' = Some (Ok (es, r)) ->
            Forall (fun x => (vdepth x <= fuel)%nat) es).
  { intros ef n b' es r Ed. eapply dec_elems_Forall; [|exact Ed]. intros b0 v0 r0 Hd0. eapply IH; eauto. }
  destruct d as [p|tag fds|vars|k ef|kp ef].
  - injection H as H. rewrite (dec_prim_depth _ _ _ _ H). lia.
  - assert (Hgo : forall b',
      match dec_fields (dec1 fuel san s) ps fds [] b' with
      | Some (Ok (fs, r)) => Some (Ok (VStruct fs, r)) | Some Eof => Some Eof | Some Reject => Some Reject | None => None
      end = Some (Ok (v, rest)) -> (vdepth v <= S fuel)%nat).
    { intros b' Hd. destruct (dec_fields (dec1 fuel san s) ps fds [] b') as [[[fs r]| |]|] eqn:Ed; try discriminate.
      injection Hd as <- _. cbn [vdepth]. pose proof (HF _ _ _ _ Ed). lia. }
    destruct bare; [now apply (Hgo b)|].
    destruct (nat_r b) as [[tg b']| |]; try discriminate.
    destruct (tg =? tag); [now apply (Hgo b')|discriminate].
  - destruct bare; [discriminate|].
    destruct (nat_r b) as [[tg b']| |]; try discriminate.
    destruct (find_variant s vars tg 0) as [[idx fds]|]; [|discriminate].
    destruct (dec_fields (dec1 fuel san s) ps fds [] b') as [[[fs r]| |]|] eqn:Ed; try discriminate.
    injection H as <- _. cbn [vdepth]. pose proof (HF _ _ _ _ Ed). lia.
  - destruct (negb bare); [discriminate|].
    assert (Hel : forall n b',
      match dec_elems (dec1 fuel san s (f_ty ef) (f_bare ef) (eval_args ps [] (f_args ef))) n b' with
      | Some (Ok (es, r)) => Some (Ok (VArr es, r)) | Some Eof => Some Eof | Some Reject => Some Reject | None => None
      end = Some (Ok (v, rest)) -> (vdepth v <= S fuel)%nat).
    { intros n b' Hd. destruct (dec_elems _ n b') as [[[es r]| |]|] eqn:Ed; try discriminate.
      injection Hd as <- _. cbn [vdepth]. pose proof (depth_elems_bound _ _ (HE _ _ _ _ _ Ed)). lia. }
    destruct k as [| |c].
    + destruct (read_count san b) as [[n b']| |]; try discriminate. eapply Hel; eauto.
    + destruct (san && _); [discriminate|]. eapply Hel; eauto.
    + eapply Hel; eauto.
  - destruct (negb bare); [discriminate|].
    destruct (read_count san b) as [[n b']| |]; try discriminate.
    destruct (dec_elems _ n b') as [[[es r]| |]|] eqn:Ed; try discriminate.
    injection H as <- _. cbn [vdepth].
    assert (Hd : Forall (fun x => (vdepth x <= fuel)%nat) (dict_norm kp es)).
    { pose proof (HE _ _ _ _ _ Ed) as Hes. rewrite Forall_forall in *. intros x Hx. apply Hes. eapply dict_norm_In; eauto. }
    pose proof (depth_elems_bound _ _ Hd). unfold dict_norm in *. lia.
Qed.

(** * 6. the theorems *)
(** (C) for every well-formed schema -- dictionaries anywhere, nested at any depth -- whatever the
    reader accepts is, up to the order and the shadowed duplicates of dictionary entries, what the
    writer writes for the decoded value *)
Theorem dec1_canonical_modulo_dict san s : wf_schema s = true ->
  forall fuel t bare ps b v rest,
    bytes_ok b ->
    dec1 fuel san s t bare ps b = Some (Ok (v, rest)) ->
    exists pfx pfx', b = pfx ++ rest /\ enc1 false s t bare ps v = Some pfx' /\ dict_equiv s t bare ps pfx pfx'.
Proof.
  intros Hwf fuel t bare ps b v rest Hb H.
  destruct (dec1_deq san s Hwf fuel t bare ps b v rest Hb H) as [pfx [pfx' [E [He Hq]]]].
  exists pfx, pfx'. split; [exact E|]. split; [exact He|]. exists v. exact Hq.
Qed.

(** (A) every accepted input decodes to a value the writer accepts *)
Theorem dec1_reencodable san s : wf_schema s = true ->
  forall fuel t bare ps b v rest,
    bytes_ok b ->
    dec1 fuel san s t bare ps b = Some (Ok (v, rest)) ->
    exists pfx pfx', b = pfx ++ rest /\ enc1 false s t bare ps v = Some pfx'.
Proof.
  intros Hwf fuel t bare ps b v rest Hb H.
  destruct (dec1_deq san s Hwf fuel t bare ps b v rest Hb H) as [pfx [pfx' [E [He _]]]].
  exists pfx, pfx'. split; assumption.
Qed.

(** (B) the re-emitted bytes are a fixed point: followed by anything, they are read back -- with
    the fuel that read the original input -- to the same value, whose encoding they are.  With the
    reader's length-sanity option on ([san' = true]) this needs the strict writer to accept the
    value (a count followed by too few bytes is refused by that reader whatever wrote it). *)
Theorem dec1_canonical_form_fixed san s : wf_schema s = true ->
  forall fuel t bare ps b v rest,
    bytes_ok b ->
    dec1 fuel san s t bare ps b = Some (Ok (v, rest)) ->
    exists pfx pfx', b = pfx ++ rest /\ enc1 false s t bare ps v = Some pfx' /\
      forall san' fuel' rest', (fuel <= fuel')%nat ->
        (san' = true -> enc1 true s t bare ps v <> None) ->
        dec1 fuel' san' s t bare ps (pfx' ++ rest') = Some (Ok (v, rest')).
Proof.
  intros Hwf fuel t bare ps b v rest Hb H.
  destruct (dec1_deq san s Hwf fuel t bare ps b v rest Hb H) as [pfx [pfx' [E [He _]]]].
  exists pfx, pfx'. split; [exact E|]. split; [exact He|].
  intros san' fuel' rest' Hf Hs.
  pose proof (dec1_vdepth san s fuel t bare ps b v rest H) as Hd.
  assert (Hd' : (vdepth v <= fuel')%nat) by lia.
  destruct san'.
  - destruct (enc1 true s t bare ps v) as [q|] eqn:Eq; [|exfalso; now apply Hs].
    pose proof (enc1_strict_weaken s v t bare ps q Eq) as Hw. rewrite He in Hw. injection Hw as ->.
    exact (enc1_dec1 true s Hwf v fuel' Hd' t bare ps q rest' Eq).
  - exact (enc1_dec1 false s Hwf v fuel' Hd' t bare ps pfx' rest' He).
Qed.

(** [dec1_canonical] of Tl1Canon.v is the special case without dictionaries *)
Corollary dec1_canonical_from_modulo_dict san s : wf_schema s = true -> no_dict s = true ->
  forall fuel, CAN (enc1 false s) (dec1 fuel san s).
Proof.
  intros Hwf Hnd fuel t bare ps b v rest Hb H.
  destruct (dec1_canonical_modulo_dict san s Hwf fuel t bare ps b v rest Hb H) as [pfx [pfx' [E [He Hq]]]].
  rewrite <- (dict_equiv_no_dict s t bare ps pfx pfx' Hnd Hq) in He. exists pfx. split; assumption.
Qed.
