(** Format-description lemmas (C11): the model read as a specification of the documented TL1
    wire format.  Each is a direct consequence of the definitions; together with the round
    trip (Tl1Proofs) and canonicity (Tl1Canon) they make the extracted model an independent
    reference codec. *)
From Coq Require Import ZArith Lia ZifyN ZifyNat ZifyBool.
From TLV Require Import Prim.PrimModel Prim.PrimProofs Tl1.Tl1Model Tl1.Tl1Proofs.
Open Scope N_scope.

(** little-endian 32- and 64-bit primitives *)
Lemma nat_w_le v : nat_w v = [v mod 256; v / 256 mod 256; v / 65536 mod 256; v / 16777216 mod 256].
Proof.
  unfold nat_w. cbn [le_bytes].
  replace (v / 256 / 256) with (v / 65536) by (rewrite N.div_div by lia; reflexivity).
  replace (v / 65536 / 256) with (v / 16777216) by (rewrite N.div_div by lia; reflexivity).
  reflexivity.
Qed.

Lemma long_w_length v : length (long_w v) = 8%nat.
Proof. reflexivity. Qed.

(** boxed = constructor tag, then the bare encoding *)
Lemma enc1_boxed san s t tag fds ps v bare_body :
  nth_error s t = Some (TStruct tag fds) ->
  enc1 san s t true ps v = Some bare_body ->
  enc1 san s t false ps v = Some (nat_w tag ++ bare_body).
Proof.
  intros Ht H. destruct v; cbn [enc1] in *; rewrite Ht in *; try discriminate.
  destruct (enc_fields _ ps fs fds fs) as [body|]; [|discriminate].
  cbn [bind_opt] in *. injection H as <-. reflexivity.
Qed.

(** a union is written as the tag of the active variant followed by that variant's fields *)
Lemma enc1_union san s t vars idx fs ps vt tag fds b :
  nth_error s t = Some (TUnion vars) ->
  nth_error vars idx = Some vt -> nth_error s vt = Some (TStruct tag fds) ->
  enc1 san s t false ps (VUnion idx fs) = Some b ->
  exists body, b = nat_w tag ++ body /\
               enc_fields (fun t' b' ps' v' => enc1 san s t' b' ps' v') ps fs fds fs = Some body.
Proof.
  intros Ht Hv Hs H. cbn [enc1] in H. rewrite Ht, Hv, Hs in H.
  destruct (enc_fields _ ps fs fds fs) as [body|]; [|discriminate].
  cbn [bind_opt] in H. injection H as <-. exists body. split; reflexivity.
Qed.

(** fields are written in declaration order; a field under a field mask is written iff its bit is
    set in the mask value (taken from an earlier field or from a nat parameter) *)
Lemma enc_fields_present rec ps all fd fds v vs b :
  enc_fields rec ps all (fd :: fds) (Some v :: vs) = Some b ->
  field_present ps all fd = true /\
  exists b1 b2, rec (f_ty fd) (f_bare fd) (eval_args ps all (f_args fd)) v = Some b1 /\
                enc_fields rec ps all fds vs = Some b2 /\ b = b1 ++ b2.
Proof.
  cbn [enc_fields]. destruct (field_present ps all fd); [|discriminate]. intros H. split; [reflexivity|].
  destruct (rec _ _ _ v) as [b1|]; [|discriminate]. cbn [bind_opt] in H.
  destruct (enc_fields rec ps all fds vs) as [b2|]; [|discriminate]. cbn [bind_opt] in H.
  injection H as <-. eauto.
Qed.

Lemma enc_fields_absent rec ps all fd fds vs b :
  enc_fields rec ps all (fd :: fds) (None :: vs) = Some b ->
  field_present ps all fd = false /\ enc_fields rec ps all fds vs = Some b.
Proof. cbn [enc_fields]. destruct (field_present ps all fd); [discriminate|]. auto. Qed.

Lemma field_present_spec ps all fd a bit :
  f_mask fd = Some (a, bit) -> field_present ps all fd = N.testbit (eval_natarg ps all a) bit.
Proof. unfold field_present. now intros ->. Qed.

(** vectors: element count (32-bit little endian) then the elements; tuples: just the elements,
    their number being the size parameter *)
Lemma enc1_vector san s t ef ps es b :
  nth_error s t = Some (TArray AVector ef) ->
  enc1 san s t true ps (VArr es) = Some b ->
  exists body, b = nat_w (lenN es) ++ body /\
    enc_elems (fun e => enc1 san s (f_ty ef) (f_bare ef) (eval_args ps [] (f_args ef)) e) es = Some body.
Proof.
  intros Ht H. cbn [enc1] in H. rewrite Ht in H. cbn [negb] in H.
  destruct (enc_elems _ es) as [body|]; [|discriminate]. cbn [bind_opt] in H.
  destruct ((lenN es <? 4294967296) && sane_ok san (lenN es) body); [|discriminate].
  injection H as <-. exists body. split; reflexivity.
Qed.

Lemma enc1_tuple san s t ef ps es b :
  nth_error s t = Some (TArray ATupleDyn ef) ->
  enc1 san s t true ps (VArr es) = Some b ->
  lenN es = nth 0 ps 0 /\
  enc_elems (fun e => enc1 san s (f_ty ef) (f_bare ef) (eval_args ps [] (f_args ef)) e) es = Some b.
Proof.
  intros Ht H. cbn [enc1] in H. rewrite Ht in H. cbn [negb] in H.
  destruct (enc_elems _ es) as [body|]; [|discriminate]. cbn [bind_opt] in H.
  destruct (lenN es =? nth 0 ps 0) eqn:E; cbn [andb] in H; [|discriminate].
  destruct (sane_ok san (lenN es) body); [|discriminate]. injection H as <-.
  apply N.eqb_eq in E. auto.
Qed.

Lemma enc_elems_concat rec es b :
  enc_elems rec es = Some b ->
  exists bs, Forall2 (fun e be => rec e = Some be) es bs /\ b = concat bs.
Proof.
  revert b; induction es as [|e es IH]; intros b H; cbn [enc_elems] in H.
  - injection H as <-. exists []. split; [constructor|reflexivity].
  - destruct (rec e) as [b1|] eqn:E1; [|discriminate]. cbn [bind_opt] in H.
    destruct (enc_elems rec es) as [b2|]; [|discriminate]. cbn [bind_opt] in H. injection H as <-.
    destruct (IH b2 eq_refl) as [bs [HF ->]]. exists (b1 :: bs). split; [constructor; assumption|reflexivity].
Qed.

(** Bool is one of two constructor tags *)
Lemma enc1_bool ftag ttag x : enc_prim (PBool ftag ttag) (VBool x) = Some (nat_w (if x then ttag else ftag)).
Proof. reflexivity. Qed.
