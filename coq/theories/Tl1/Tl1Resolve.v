(** Soundness of the IR isomorphism checker (Tl1IsoModel.v).

    The TL1 codec model runs on a schema IR that the checks dump from the real kernel.  The leg
    corr:C11:resolution derives the IR a second time, independently of /repo, and compares the two up
    to renumbering of type instances.  This file proves what that comparison buys: when the boolean
    checker accepts, the reference writer and reader behave identically on corresponding types of
    the two IRs, for all values, byte strings, nat arguments and fuel.  Hence everything the codec
    theorems and correspondences establish over the kernel's IR also holds over the independently
    derived one (and vice versa). *)
From Coq Require Import ZArith Lia ZifyN ZifyNat ZifyBool.
From TLV Require Import Prim.PrimModel Tl1.Tl1Model Tl1.Tl1Proofs Tl1.Tl1IsoModel.
Open Scope N_scope.

(** * the boolean tests decide equality *)
Lemma natarg_eqb_eq a b : natarg_eqb a b = true -> a = b.
Proof.
  destruct a, b; cbn; try discriminate; intro H.
  - apply N.eqb_eq in H. now subst.
  - apply Nat.eqb_eq in H. now subst.
  - apply Nat.eqb_eq in H. now subst.
Qed.

Lemma prim_eqb_eq p q : prim_eqb p q = true -> p = q.
Proof.
  destruct p, q; cbn; try discriminate; try reflexivity.
  intro H. apply andb_prop in H as [H1 H2]. apply N.eqb_eq in H1. apply N.eqb_eq in H2. now subst.
Qed.

Lemma arrkind_eqb_eq k l : arrkind_eqb k l = true -> k = l.
Proof.
  destruct k, l; cbn; try discriminate; try reflexivity.
  intro H. apply N.eqb_eq in H. now subst.
Qed.

Lemma mask_eqb_eq a b : mask_eqb a b = true -> a = b.
Proof.
  destruct a as [[x i]|], b as [[y j]|]; cbn; try discriminate; try reflexivity.
  intro H. apply andb_prop in H as [H1 H2]. apply natarg_eqb_eq in H1. apply N.eqb_eq in H2. now subst.
Qed.

Lemma list_eqb_eq {A} (eqb : A -> A -> bool) :
  (forall a b, eqb a b = true -> a = b) -> forall l1 l2, list_eqb eqb l1 l2 = true -> l1 = l2.
Proof.
  intro He. induction l1 as [|a l1 IH]; destruct l2 as [|b l2]; cbn; try discriminate; [reflexivity|].
  intro H. apply andb_prop in H as [H1 H2]. f_equal; [now apply He|now apply IH].
Qed.

(** * what the checker establishes: [s2] contains the renumbered copy of every instance of [s1] *)
Definition rnf (r : list nat) (f : field) : field :=
  mkField (rn r (f_ty f)) (f_bare f) (f_mask f) (f_args f).

Definition rnd (r : list nat) (d : tydef) : tydef :=
  match d with
  | TPrim p => TPrim p
  | TStruct tag fs => TStruct tag (map (rnf r) fs)
  | TUnion vs => TUnion (map (rn r) vs)
  | TArray k f => TArray k (rnf r f)
  | TDict kp f => TDict kp (rnf r f)
  end.

Definition fclosed (n : nat) (f : field) : Prop := (f_ty f < n)%nat.

Definition closed (n : nat) (d : tydef) : Prop :=
  match d with
  | TPrim _ => True
  | TStruct _ fs => Forall (fclosed n) fs
  | TUnion vs => Forall (fun v => (v < n)%nat) vs
  | TArray _ f | TDict _ f => fclosed n f
  end.

(** the semantic relation: instance [t] of [s1] is instance [rn r t] of [s2], references renumbered *)
Definition REL (r : list nat) (s1 s2 : schema) : Prop :=
  forall t d, nth_error s1 t = Some d ->
              nth_error s2 (rn r t) = Some (rnd r d) /\ closed (length s1) d.

Lemma field_iso_spec r n f g : field_iso r n f g = true -> g = rnf r f /\ fclosed n f.
Proof.
  unfold field_iso. intro H.
  apply andb_prop in H as [H Ha]. apply andb_prop in H as [H Hm].
  apply andb_prop in H as [H Hb]. apply andb_prop in H as [Hlt Hty].
  apply Nat.ltb_lt in Hlt. apply Nat.eqb_eq in Hty. apply Bool.eqb_prop in Hb.
  apply mask_eqb_eq in Hm. apply (list_eqb_eq _ natarg_eqb_eq) in Ha.
  split; [|exact Hlt]. destruct g as [gt gb gm ga]; unfold rnf; cbn in *. now subst.
Qed.

Lemma fields_iso_spec r n : forall fs gs,
  fields_iso r n fs gs = true -> gs = map (rnf r) fs /\ Forall (fclosed n) fs.
Proof.
  induction fs as [|f fs IH]; destruct gs as [|g gs]; cbn [fields_iso]; try discriminate.
  - intros _. split; [reflexivity|constructor].
  - intro H. apply andb_prop in H as [H1 H2].
    apply field_iso_spec in H1 as [-> Hc]. apply IH in H2 as [-> HF].
    split; [reflexivity|constructor; assumption].
Qed.

Lemma tydef_iso_spec r n d e : tydef_iso r n d e = true -> e = rnd r d /\ closed n d.
Proof.
  destruct d as [p|tag fs|vs|k f|kp f], e as [q|tag' gs|ws|l g|kq g]; cbn [tydef_iso]; try discriminate; intro H.
  - apply prim_eqb_eq in H. subst. split; [reflexivity|exact I].
  - apply andb_prop in H as [H1 H2]. apply N.eqb_eq in H1. apply fields_iso_spec in H2 as [-> HF].
    subst. split; [reflexivity|exact HF].
  - apply andb_prop in H as [H1 H2].
    apply (list_eqb_eq _ (fun a b => proj1 (Nat.eqb_eq a b))) in H2. subst.
    split; [reflexivity|]. cbn [closed]. apply Forall_forall. intros v Hv.
    rewrite forallb_forall in H1. apply Nat.ltb_lt. now apply H1.
  - apply andb_prop in H as [H1 H2]. apply arrkind_eqb_eq in H1. apply field_iso_spec in H2 as [-> Hc].
    subst. split; [reflexivity|exact Hc].
  - apply andb_prop in H as [H1 H2]. apply prim_eqb_eq in H1. apply field_iso_spec in H2 as [-> Hc].
    subst. split; [reflexivity|exact Hc].
Qed.

Lemma all_iso_spec r n s2 : forall l t, all_iso r n s2 t l = true ->
  forall i d, nth_error l i = Some d ->
              nth_error s2 (rn r (t + i)) = Some (rnd r d) /\ closed n d.
Proof.
  induction l as [|d0 l IH]; intros t H i d Hi.
  - destruct i; discriminate.
  - cbn [all_iso] in H. apply andb_prop in H as [H1 H2]. destruct i as [|i]; cbn [nth_error] in Hi.
    + injection Hi as <-. replace (t + 0)%nat with t by lia.
      destruct (nth_error s2 (rn r t)) as [e|] eqn:E; [|discriminate].
      apply tydef_iso_spec in H1 as [-> Hc]. split; [reflexivity|exact Hc].
    + replace (t + S i)%nat with (S t + i)%nat by lia. exact (IH (S t) H2 i d Hi).
Qed.

Lemma ir_sim_rel r s1 s2 : ir_sim r s1 s2 = true -> REL r s1 s2.
Proof. intros H t d Ht. exact (all_iso_spec r (length s1) s2 s1 0%nat H t d Ht). Qed.

(** * extensionality of the element loop *)
Lemma obind_ext x f g : (forall st, f st = g st) -> obind x f = obind x g.
Proof. intro H. destruct x as [rr|]; [destruct rr|]; cbn [obind]; auto. Qed.

Lemma pos_iter_ext f g : (forall st, f st = g st) -> forall p st, pos_iter f p st = pos_iter g p st.
Proof.
  intro H. induction p as [p IH|p IH|]; intro st; cbn [pos_iter].
  - rewrite H. apply obind_ext. intro st1. rewrite IH. apply obind_ext. exact IH.
  - rewrite IH. apply obind_ext. exact IH.
  - apply H.
Qed.

Lemma dec_elems_ext (f g : bytes -> dres) : (forall b, f b = g b) -> forall n b, dec_elems f n b = dec_elems g n b.
Proof.
  intros H [|p] b; cbn [dec_elems]; [reflexivity|].
  rewrite (pos_iter_ext (estep f) (estep g)); [reflexivity|].
  intro st. unfold estep. now rewrite H.
Qed.

Lemma enc_elems_ext (f g : value -> option bytes) es :
  Forall (fun e => f e = g e) es -> enc_elems f es = enc_elems g es.
Proof. induction 1 as [|e es He _ IH]; cbn [enc_elems]; [reflexivity|]. now rewrite He, IH. Qed.

Lemma nth_error_map' {A B} (f : A -> B) : forall l i, nth_error (map f l) i = option_map f (nth_error l i).
Proof. induction l as [|a l IH]; destruct i; cbn; auto. Qed.

(** * the codec does not see the renumbering *)
Section Sound.
  Variables (r : list nat) (s1 s2 : schema).
  Hypothesis HR : REL r s1 s2.
  Let n := length s1.

  Lemma lookup t : (t < n)%nat ->
    exists d, nth_error s1 t = Some d /\ nth_error s2 (rn r t) = Some (rnd r d) /\ closed n d.
  Proof.
    intro Ht. destruct (nth_error s1 t) as [d|] eqn:E.
    - exists d. split; [reflexivity|]. exact (HR t d E).
    - apply nth_error_None in E. unfold n in Ht. lia.
  Qed.

  (** ** writer *)
  Definition EQV (v : value) : Prop :=
    forall san t bare ps, (t < n)%nat -> enc1 san s1 t bare ps v = enc1 san s2 (rn r t) bare ps v.

  Lemma enc_fields_rn san ps all : forall vs fds,
    Forall (Popt EQV) vs -> Forall (fclosed n) fds ->
    enc_fields (fun t' b' ps' v' => enc1 san s1 t' b' ps' v') ps all fds vs =
    enc_fields (fun t' b' ps' v' => enc1 san s2 t' b' ps' v') ps all (map (rnf r) fds) vs.
  Proof.
    induction vs as [|ov vs IH]; intros fds HV HF.
    - destruct fds; reflexivity.
    - destruct fds as [|fd fds]; [reflexivity|]. cbn [map enc_fields]. cbv zeta.
      inversion HV as [|? ? Hv HV']; subst. inversion HF as [|? ? Hf HF']; subst.
      change (field_present ps all (rnf r fd)) with (field_present ps all fd).
      destruct ov as [v|].
      + destruct (field_present ps all fd); [|reflexivity].
        cbn [rnf f_ty f_bare f_args]. cbn [Popt] in Hv.
        rewrite (Hv san (f_ty fd) (f_bare fd) (eval_args ps all (f_args fd)) Hf).
        rewrite (IH fds HV' HF'). reflexivity.
      + destruct (field_present ps all fd); [reflexivity|]. exact (IH fds HV' HF').
  Qed.

  Theorem enc1_rel : forall v, EQV v.
  Proof.
    induction v as [x|str|bv|fs IH|idx fs IH|es IH] using value_ind'; intros san t bare ps Ht;
      destruct (lookup t Ht) as [d [Hd [Hd2 Hc]]]; cbn [enc1]; rewrite Hd, Hd2;
      destruct d as [p|tag fds|vars|k ef|kp ef]; cbn [rnd]; try reflexivity.
    - rewrite (enc_fields_rn san ps fs fs fds IH Hc). reflexivity.
    - destruct bare; [reflexivity|]. rewrite nth_error_map'.
      destruct (nth_error vars idx) as [vt|] eqn:Ev; cbn [option_map]; [|reflexivity].
      assert (Hvt : (vt < n)%nat).
      { cbn [closed] in Hc. rewrite Forall_forall in Hc. apply Hc. eapply nth_error_In; eauto. }
      destruct (lookup vt Hvt) as [d' [Hd' [Hd2' Hc']]]. rewrite Hd', Hd2'.
      destruct d' as [p|tag fds|vars'|k ef|kp ef]; cbn [rnd]; try reflexivity.
      rewrite (enc_fields_rn san ps fs fs fds IH Hc'). reflexivity.
    - destruct (negb bare); [reflexivity|]. cbv zeta. cbn [rnf f_ty f_bare f_args].
      assert (HE : Forall (fun e => enc1 san s1 (f_ty ef) (f_bare ef) (eval_args ps [] (f_args ef)) e =
                                    enc1 san s2 (rn r (f_ty ef)) (f_bare ef) (eval_args ps [] (f_args ef)) e) es).
      { eapply Forall_impl; [|exact IH]. intros e He. apply He. exact Hc. }
      rewrite (enc_elems_ext (fun e => enc1 san s1 (f_ty ef) (f_bare ef) (eval_args ps [] (f_args ef)) e)
                             (fun e => enc1 san s2 (rn r (f_ty ef)) (f_bare ef) (eval_args ps [] (f_args ef)) e) es HE).
      reflexivity.
    - destruct (negb bare); [reflexivity|]. cbv zeta. cbn [rnf f_ty f_bare f_args].
      assert (HE : Forall (fun e => enc1 san s1 (f_ty ef) (f_bare ef) (eval_args ps [] (f_args ef)) e =
                                    enc1 san s2 (rn r (f_ty ef)) (f_bare ef) (eval_args ps [] (f_args ef)) e) es).
      { eapply Forall_impl; [|exact IH]. intros e He. apply He. exact Hc. }
      rewrite (enc_elems_ext (fun e => enc1 san s1 (f_ty ef) (f_bare ef) (eval_args ps [] (f_args ef)) e)
                             (fun e => enc1 san s2 (rn r (f_ty ef)) (f_bare ef) (eval_args ps [] (f_args ef)) e) es HE).
      reflexivity.
  Qed.

  (** ** reader *)
  Lemma dec_fields_rn (rec1 rec2 : nat -> bool -> list N -> bytes -> dres) ps :
    (forall t bare ps' b, (t < n)%nat -> rec1 t bare ps' b = rec2 (rn r t) bare ps' b) ->
    forall fds acc b, Forall (fclosed n) fds ->
      dec_fields rec1 ps fds acc b = dec_fields rec2 ps (map (rnf r) fds) acc b.
  Proof.
    intro H. induction fds as [|fd fds IH]; intros acc b HF; cbn [map dec_fields]; [reflexivity|].
    inversion HF as [|? ? Hf HF']; subst.
    change (field_present ps acc (rnf r fd)) with (field_present ps acc fd).
    destruct (field_present ps acc fd); [|exact (IH _ _ HF')].
    cbn [rnf f_ty f_bare f_args]. rewrite (H _ _ _ _ Hf).
    destruct (rec2 (rn r (f_ty fd)) (f_bare fd) (eval_args ps acc (f_args fd)) b) as [rr|]; [|reflexivity].
    destruct rr as [[v b']| |]; try reflexivity. exact (IH _ _ HF').
  Qed.

  Lemma find_variant_rn : forall vars tg idx, Forall (fun v => (v < n)%nat) vars ->
    find_variant s2 (map (rn r) vars) tg idx =
      option_map (fun x => (fst x, map (rnf r) (snd x))) (find_variant s1 vars tg idx)
    /\ (forall i fds, find_variant s1 vars tg idx = Some (i, fds) -> Forall (fclosed n) fds).
  Proof.
    induction vars as [|vt vars IH]; intros tg idx HF; cbn [map find_variant].
    - split; [reflexivity|discriminate].
    - inversion HF as [|? ? Hvt HF']; subst.
      destruct (lookup vt Hvt) as [d [Hd [Hd2 Hc]]]. rewrite Hd, Hd2.
      destruct d as [p|tag fds|vars'|k ef|kp ef]; cbn [rnd]; try exact (IH tg (S idx) HF').
      destruct (tag =? tg); [|exact (IH tg (S idx) HF')].
      split; [reflexivity|]. intros i fds' E. injection E as <- <-. exact Hc.
  Qed.

  Theorem dec1_rel : forall fuel san t bare ps b, (t < n)%nat ->
    dec1 fuel san s1 t bare ps b = dec1 fuel san s2 (rn r t) bare ps b.
  Proof.
    induction fuel as [|fuel IH]; intros san t bare ps b Ht; [reflexivity|].
    destruct (lookup t Ht) as [d [Hd [Hd2 Hc]]]. cbn [dec1]. rewrite Hd, Hd2.
    destruct d as [p|tag fds|vars|k ef|kp ef]; cbn [rnd].
    - reflexivity.
    - assert (E : forall b', dec_fields (dec1 fuel san s1) ps fds [] b' =
                             dec_fields (dec1 fuel san s2) ps (map (rnf r) fds) [] b').
      { intro b'. apply dec_fields_rn; [|exact Hc]. intros; now apply IH. }
      cbv zeta. destruct bare; [now rewrite E|].
      destruct (nat_r b) as [[tg b']| |]; try reflexivity.
      destruct (tg =? tag); [now rewrite E|reflexivity].
    - destruct bare; [reflexivity|].
      destruct (nat_r b) as [[tg b']| |]; try reflexivity.
      destruct (find_variant_rn vars tg 0%nat Hc) as [E Hcl]. rewrite E.
      destruct (find_variant s1 vars tg 0) as [[i fds]|] eqn:Ef; cbn [option_map fst snd]; [|reflexivity].
      rewrite (dec_fields_rn (dec1 fuel san s1) (dec1 fuel san s2) ps (fun t0 b0 p0 x0 H0 => IH san t0 b0 p0 x0 H0) fds [] b' (Hcl i fds eq_refl)).
      reflexivity.
    - destruct (negb bare); [reflexivity|]. cbv zeta. cbn [rnf f_ty f_bare f_args].
      assert (E : forall c b', dec_elems (dec1 fuel san s1 (f_ty ef) (f_bare ef) (eval_args ps [] (f_args ef))) c b' =
                               dec_elems (dec1 fuel san s2 (rn r (f_ty ef)) (f_bare ef) (eval_args ps [] (f_args ef))) c b').
      { intros c b'. apply dec_elems_ext. intro b0. apply IH. exact Hc. }
      destruct k as [| |c].
      + destruct (read_count san b) as [[cnt b']| |]; try reflexivity. now rewrite E.
      + destruct (san && negb (check_length_sanity b (nth 0 ps 0) 4)); [reflexivity|]. now rewrite E.
      + now rewrite E.
    - destruct (negb bare); [reflexivity|]. cbv zeta. cbn [rnf f_ty f_bare f_args].
      destruct (read_count san b) as [[cnt b']| |]; try reflexivity.
      rewrite (dec_elems_ext _ (dec1 fuel san s2 (rn r (f_ty ef)) (f_bare ef) (eval_args ps [] (f_args ef)))); [reflexivity|].
      intro b0. apply IH. exact Hc.
  Qed.
End Sound.

(** * soundness of the executable checkers *)
Theorem ir_sim_sound r s1 s2 : ir_sim r s1 s2 = true ->
  forall t, (t < length s1)%nat ->
    (forall san bare ps v, enc1 san s1 t bare ps v = enc1 san s2 (rn r t) bare ps v) /\
    (forall fuel san bare ps b, dec1 fuel san s1 t bare ps b = dec1 fuel san s2 (rn r t) bare ps b).
Proof.
  intros H t Ht. apply ir_sim_rel in H. split.
  - intros san bare ps v. exact (enc1_rel r s1 s2 H v san t bare ps Ht).
  - intros fuel san bare ps b. exact (dec1_rel r s1 s2 H fuel san t bare ps b Ht).
Qed.

Lemma nodupb_NoDup l : nodupb l = true -> NoDup l.
Proof.
  induction l as [|a l IH]; cbn [nodupb]; [constructor|].
  intro H. apply andb_prop in H as [H1 H2]. constructor; [|now apply IH].
  intro Hin. apply Bool.negb_true_iff in H1.
  assert (E : existsb (Nat.eqb a) l = true).
  { apply existsb_exists. exists a. split; [exact Hin|apply Nat.eqb_refl]. }
  congruence.
Qed.

Lemma NoDup_map_inj {A B} (f : A -> B) : forall l, NoDup (map f l) ->
  forall x y, In x l -> In y l -> f x = f y -> x = y.
Proof.
  induction l as [|a l IH]; cbn [map In]; intros HN x y Hx Hy E; [contradiction|].
  inversion HN as [|? ? Hn HN']; subst.
  destruct Hx as [->|Hx], Hy as [->|Hy]; auto.
  - exfalso. apply Hn. rewrite E. now apply in_map.
  - exfalso. apply Hn. rewrite <- E. now apply in_map.
Qed.

Theorem injb_sound r n : injb r n = true ->
  forall t t', (t < n)%nat -> (t' < n)%nat -> rn r t = rn r t' -> t = t'.
Proof.
  intros H t t' Ht Ht' E. apply nodupb_NoDup in H.
  apply (NoDup_map_inj (rn r) (seq 0 n) H); [apply in_seq; lia|apply in_seq; lia|exact E].
Qed.

(** The lemma behind the leg corr:C11:resolution.  If the checker accepts the renumbering [r]
    between the independently derived IR [s1] and the kernel's IR [s2], then [r] is one-to-one on
    the instances of [s1] and writer and reader agree on corresponding types. *)
Theorem ir_iso_sound r s1 s2 : ir_iso r s1 s2 = true ->
  (forall t t', (t < length s1)%nat -> (t' < length s1)%nat -> rn r t = rn r t' -> t = t') /\
  forall t, (t < length s1)%nat ->
    (forall san bare ps v, enc1 san s1 t bare ps v = enc1 san s2 (rn r t) bare ps v) /\
    (forall fuel san bare ps b, dec1 fuel san s1 t bare ps b = dec1 fuel san s2 (rn r t) bare ps b).
Proof.
  unfold ir_iso. intro H. apply andb_prop in H as [H1 H2]. split.
  - exact (injb_sound r (length s1) H2).
  - exact (ir_sim_sound r s1 s2 H1).
Qed.

(** identical numbering: the two IRs have the same codec at EVERY index *)
Theorem schema_eqb_sound s1 s2 : schema_eqb s1 s2 = true ->
  forall t,
    (forall san bare ps v, enc1 san s1 t bare ps v = enc1 san s2 t bare ps v) /\
    (forall fuel san bare ps b, dec1 fuel san s1 t bare ps b = dec1 fuel san s2 t bare ps b).
Proof.
  unfold schema_eqb. intro H. apply andb_prop in H as [HL H]. apply Nat.eqb_eq in HL. intro t.
  destruct (Nat.lt_ge_cases t (length s1)) as [Ht|Ht].
  - destruct (ir_sim_sound _ _ _ H t Ht) as [He Hd].
    assert (E : rn (seq 0 (length s1)) t = t) by (unfold rn; rewrite seq_nth; [reflexivity|exact Ht]).
    rewrite E in He, Hd. split; assumption.
  - assert (E1 : nth_error s1 t = None) by (apply nth_error_None; exact Ht).
    assert (E2 : nth_error s2 t = None) by (apply nth_error_None; lia).
    split.
    + intros san bare ps v. destruct v; cbn [enc1]; now rewrite E1, E2.
    + intros fuel san bare ps b. destruct fuel; [reflexivity|]. cbn [dec1]. now rewrite E1, E2.
Qed.
