(** Proofs about the schema-IR TL1 codec: round trip for every well-formed schema,
    every type, every wire value, every continuation of the input. *)
From Coq Require Import ZArith Lia ZifyN ZifyNat ZifyBool.
From TLV Require Import Prim.PrimModel Prim.PrimProofs Tl1.Tl1Model.
Ltac Zify.zify_post_hook ::= Z.div_mod_to_equations.
Open Scope N_scope.

(** induction principle for the nested [value] type *)
Section ValueInd.
  Variable P : value -> Prop.
  Definition Popt (o : option value) : Prop := match o with Some v => P v | None => True end.
  Hypothesis HNum : forall n, P (VNum n).
  Hypothesis HStr : forall s, P (VStr s).
  Hypothesis HBool : forall b, P (VBool b).
  Hypothesis HStruct : forall fs, Forall Popt fs -> P (VStruct fs).
  Hypothesis HUnion : forall i fs, Forall Popt fs -> P (VUnion i fs).
  Hypothesis HArr : forall es, Forall P es -> P (VArr es).

  Fixpoint value_ind' (v : value) : P v :=
    match v with
    | VNum n => HNum n
    | VStr s => HStr s
    | VBool b => HBool b
    | VStruct fs =>
        HStruct fs ((fix go (l : list (option value)) : Forall Popt l :=
                       match l with
                       | [] => Forall_nil _
                       | o :: r => Forall_cons o (match o return Popt o with Some v => value_ind' v | None => I end) (go r)
                       end) fs)
    | VUnion i fs =>
        HUnion i fs ((fix go (l : list (option value)) : Forall Popt l :=
                       match l with
                       | [] => Forall_nil _
                       | o :: r => Forall_cons o (match o return Popt o with Some v => value_ind' v | None => I end) (go r)
                       end) fs)
    | VArr es =>
        HArr es ((fix go (l : list value) : Forall P l :=
                    match l with
                    | [] => Forall_nil _
                    | x :: r => Forall_cons x (value_ind' x) (go r)
                    end) es)
    end.
End ValueInd.

(** ** primitives *)
Lemma prim_roundtrip s p v b rest :
  tydef_ok s (TPrim p) = true -> enc_prim p v = Some b -> dec_prim p (b ++ rest) = Ok (v, rest).
Proof.
  intros Hok H. destruct p, v; cbn [enc_prim] in H; try discriminate.
  - destruct (n <? 4294967296) eqn:E; [|discriminate]. injection H as <-.
    cbn [dec_prim]. rewrite nat_roundtrip by (cbn; lia). reflexivity.
  - destruct (n <? 4294967296) eqn:E; [|discriminate]. injection H as <-.
    cbn [dec_prim]. rewrite nat_roundtrip by (cbn; lia). reflexivity.
  - destruct (n <? 4294967296) eqn:E; [|discriminate]. injection H as <-.
    cbn [dec_prim]. rewrite nat_roundtrip by (cbn; lia). reflexivity.
  - destruct (n <? 18446744073709551616) eqn:E; [|discriminate]. injection H as <-.
    cbn [dec_prim]. rewrite long_roundtrip by (cbn; lia). reflexivity.
  - destruct (n <? 18446744073709551616) eqn:E; [|discriminate]. injection H as <-.
    cbn [dec_prim]. rewrite long_roundtrip by (cbn; lia). reflexivity.
  - cbn [dec_prim]. rewrite (str1_roundtrip _ _ rest H). reflexivity.
  - injection H as <-. cbn [tydef_ok] in Hok. unfold tag_ok in Hok.
    cbn [dec_prim]. unfold bool1_r.
    destruct b0.
    + rewrite nat_roundtrip by (cbn; lia).
      destruct (ttag =? ftag) eqn:E1; [lia|]. rewrite N.eqb_refl. reflexivity.
    + rewrite nat_roundtrip by (cbn; lia). rewrite N.eqb_refl. reflexivity.
Qed.

(** ** struct fields *)
Definition RT (enc : nat -> bool -> list N -> value -> option bytes)
              (dec : nat -> bool -> list N -> bytes -> dres) (v : value) : Prop :=
  forall t bare ps b rest, enc t bare ps v = Some b -> dec t bare ps (b ++ rest) = Some (Ok (v, rest)).

Lemma field_nat_prefix acc vs i : (i < length acc)%nat -> field_nat (acc ++ vs) i = field_nat acc i.
Proof. intros H. unfold field_nat. now rewrite nth_error_app1. Qed.

Lemma eval_natarg_prefix ps acc vs a :
  natarg_ok (length acc) a = true -> eval_natarg ps (acc ++ vs) a = eval_natarg ps acc a.
Proof.
  destruct a as [n|i|i]; cbn [natarg_ok eval_natarg]; intros H; try reflexivity.
  apply field_nat_prefix. apply Nat.ltb_lt. exact H.
Qed.

Lemma eval_args_prefix ps acc vs l :
  forallb (natarg_ok (length acc)) l = true -> eval_args ps (acc ++ vs) l = eval_args ps acc l.
Proof.
  unfold eval_args. induction l as [|a l IH]; cbn [forallb map]; intros H; [reflexivity|].
  apply andb_true_iff in H as [Ha Hl]. now rewrite eval_natarg_prefix, IH.
Qed.

Lemma field_present_prefix ps acc vs fd :
  field_ok (length acc) fd = true -> field_present ps (acc ++ vs) fd = field_present ps acc fd.
Proof.
  unfold field_ok, field_present. intros H. apply andb_true_iff in H as [Hm _].
  destruct (f_mask fd) as [[a bit]|]; [|reflexivity]. now rewrite eval_natarg_prefix.
Qed.

Lemma fields_rt rec drec ps all :
  forall vs fds acc b rest,
    all = acc ++ vs ->
    fields_ok (length acc) fds = true ->
    Forall (Popt (RT rec drec)) vs ->
    enc_fields rec ps all fds vs = Some b ->
    dec_fields drec ps fds acc (b ++ rest) = Some (Ok (all, rest)).
Proof.
  induction vs as [|ov vs IH]; intros fds acc b rest Hall Hok HF H.
  - destruct fds as [|fd fds]; cbn [enc_fields] in H; [|discriminate].
    injection H as <-. cbn [dec_fields app]. rewrite Hall, app_nil_r. reflexivity.
  - destruct fds as [|fd fds]; cbn [enc_fields] in H; [discriminate|].
    cbn [fields_ok] in Hok. apply andb_true_iff in Hok as [Hfd Hrest].
    apply Forall_cons_iff in HF as [Hov HF'].
    assert (Hpres : field_present ps all fd = field_present ps acc fd)
      by (rewrite Hall; now apply field_present_prefix).
    assert (Hargs : eval_args ps all (f_args fd) = eval_args ps acc (f_args fd)).
    { rewrite Hall. apply eval_args_prefix. unfold field_ok in Hfd. now apply andb_true_iff in Hfd as [_ ?]. }
    cbn [dec_fields]. rewrite <- Hpres.
    destruct ov as [v|].
    + destruct (field_present ps all fd) eqn:Ep; [|discriminate].
      destruct (rec (f_ty fd) (f_bare fd) (eval_args ps all (f_args fd)) v) as [b1|] eqn:E1; [|discriminate].
      cbn [bind_opt] in H.
      destruct (enc_fields rec ps all fds vs) as [b2|] eqn:E2; [|discriminate].
      cbn [bind_opt] in H. injection H as <-.
      rewrite <- Hargs. rewrite <- app_assoc.
      cbn [Popt] in Hov. rewrite (Hov _ _ _ _ (b2 ++ rest) E1).
      apply IH with (acc := acc ++ [Some v]).
      * rewrite Hall, <- app_assoc. reflexivity.
      * rewrite app_length. cbn [length]. rewrite Nat.add_1_r. exact Hrest.
      * exact HF'.
      * exact E2.
    + destruct (field_present ps all fd) eqn:Ep; [discriminate|].
      apply IH with (acc := acc ++ [None]).
      * rewrite Hall, <- app_assoc. reflexivity.
      * rewrite app_length. cbn [length]. rewrite Nat.add_1_r. exact Hrest.
      * exact HF'.
      * exact H.
Qed.

(** ** array elements *)
Fixpoint nat_iter (f : estate -> option (res estate)) (n : nat) (st : estate) : option (res estate) :=
  match n with
  | O => Some (Ok st)
  | S n' => obind (f st) (nat_iter f n')
  end.

Lemma obind_assoc x f g : obind (obind x f) g = obind x (fun st => obind (f st) g).
Proof. destruct x as [[st| |]|]; reflexivity. Qed.

Lemma nat_iter_add f a b st : nat_iter f (a + b) st = obind (nat_iter f a st) (nat_iter f b).
Proof.
  revert st; induction a as [|a IH]; intros st; cbn [nat_iter Nat.add obind]; [reflexivity|].
  rewrite obind_assoc. destruct (f st) as [[st'| |]|]; cbn [obind]; auto.
Qed.

Lemma pos_iter_nat f p : forall st, pos_iter f p st = nat_iter f (Pos.to_nat p) st.
Proof.
  induction p as [p IH|p IH|]; intros st; cbn [pos_iter].
  - rewrite Pos2Nat.inj_xI. cbn [nat_iter].
    replace (2 * Pos.to_nat p)%nat with (Pos.to_nat p + Pos.to_nat p)%nat by lia.
    destruct (f st) as [[st1| |]|]; cbn [obind]; try reflexivity.
    rewrite nat_iter_add, IH.
    destruct (nat_iter f (Pos.to_nat p) st1) as [[st2| |]|]; cbn [obind]; try reflexivity. apply IH.
  - rewrite Pos2Nat.inj_xO.
    replace (2 * Pos.to_nat p)%nat with (Pos.to_nat p + Pos.to_nat p)%nat by lia.
    rewrite nat_iter_add, IH.
    destruct (nat_iter f (Pos.to_nat p) st) as [[st2| |]|]; cbn [obind]; try reflexivity. apply IH.
  - change (Pos.to_nat 1) with 1%nat. cbn [nat_iter]. destruct (f st) as [[st'| |]|]; reflexivity.
Qed.

Lemma elems_rt_iter (rec : value -> option bytes) (drec : bytes -> dres) :
  forall es acc b rest,
    Forall (fun e => forall b rest, rec e = Some b -> drec (b ++ rest) = Some (Ok (e, rest))) es ->
    enc_elems rec es = Some b ->
    nat_iter (estep drec) (length es) (acc, b ++ rest) = Some (Ok (rev es ++ acc, rest)).
Proof.
  induction es as [|e es IH]; intros acc b rest HF H; cbn [enc_elems] in H.
  - injection H as <-. reflexivity.
  - apply Forall_cons_iff in HF as [He HF'].
    destruct (rec e) as [b1|] eqn:E1; [|discriminate]. cbn [bind_opt] in H.
    destruct (enc_elems rec es) as [b2|] eqn:E2; [|discriminate]. cbn [bind_opt] in H.
    injection H as <-.
    cbn [length nat_iter]. unfold estep at 1. cbn [snd fst].
    rewrite <- app_assoc, (He b1 (b2 ++ rest) eq_refl). cbn [obind].
    cbn [rev]. rewrite <- app_assoc. cbn [app].
    apply (IH (e :: acc) b2 rest HF' eq_refl).
Qed.

Lemma elems_rt (rec : value -> option bytes) (drec : bytes -> dres) es b rest :
  Forall (fun e => forall b rest, rec e = Some b -> drec (b ++ rest) = Some (Ok (e, rest))) es ->
  enc_elems rec es = Some b ->
  dec_elems drec (lenN es) (b ++ rest) = Some (Ok (es, rest)).
Proof.
  intros HF H. unfold dec_elems, lenN.
  destruct es as [|e es'] eqn:Ees.
  - cbn [enc_elems] in H. injection H as <-. reflexivity.
  - rewrite <- Ees in *.
    assert (Hlen : length es <> 0%nat) by (rewrite Ees; cbn; lia).
    destruct (N.of_nat (length es)) as [|p] eqn:Ep; [lia|].
    rewrite pos_iter_nat.
    replace (Pos.to_nat p) with (length es) by lia.
    pose proof (elems_rt_iter rec drec es [] b rest HF H) as Hit.
    rewrite app_nil_r in Hit.
    match goal with |- match ?x with _ => _ end = _ => replace x with (Some (Ok (rev es, rest)) : option (res estate)) by (symmetry; exact Hit) end.
    rewrite rev_involutive. reflexivity.
Qed.

(** ** unions: the variant found by tag is the one that was written *)
Lemma tags_distinct_head_notin t l :
  tags_distinct (Some t :: l) = true ->
  forall k o, nth_error l k = Some o -> o <> Some t.
Proof.
  cbn [tags_distinct]. intros H k o Hn Heq. subst o.
  apply andb_true_iff in H as [H _]. apply negb_true_iff in H.
  assert (existsb (fun o => match o with Some t' => t' =? t | None => false end) l = true).
  { apply existsb_exists. exists (Some t). split; [eapply nth_error_In; eauto|apply N.eqb_refl]. }
  congruence.
Qed.

Lemma find_variant_spec s : forall vars idx vt tag fds k,
  tags_distinct (map (struct_tag s) vars) = true ->
  nth_error vars idx = Some vt ->
  nth_error s vt = Some (TStruct tag fds) ->
  find_variant s vars tag k = Some ((k + idx)%nat, fds).
Proof.
  induction vars as [|v0 vars IH]; intros idx vt tag fds k Hd Hn Hs.
  - destruct idx; discriminate.
  - destruct idx as [|idx]; cbn [nth_error] in Hn.
    + injection Hn as ->. cbn [find_variant]. rewrite Hs, N.eqb_refl, Nat.add_0_r. reflexivity.
    + cbn [find_variant].
      cbn [map] in Hd.
      destruct (struct_tag s v0) as [t0|] eqn:Et0; [|discriminate].
      assert (Hne : Some tag <> Some t0).
      { apply (tags_distinct_head_notin t0 _ Hd idx).
        rewrite nth_error_map, Hn. cbn [option_map]. unfold struct_tag. now rewrite Hs. }
      pose proof Hd as Hd'. cbn [tags_distinct] in Hd'. apply andb_true_iff in Hd' as [_ Hd'].
      unfold struct_tag in Et0.
      destruct (nth_error s v0) as [[| tg0 fds0 | | |]|] eqn:E0; try discriminate.
      injection Et0 as ->.
      destruct (t0 =? tag) eqn:Eeq; [apply N.eqb_eq in Eeq; congruence|].
      rewrite (IH idx vt tag fds (S k) Hd' Hn Hs). f_equal. f_equal. lia.
Qed.

(** ** dictionaries: inserting strictly sorted entries one by one rebuilds the list *)
Lemma bytes_lt_asym a : forall b, bytes_lt a b = true -> bytes_lt b a = false.
Proof.
  induction a as [|x a IH]; intros [|y b]; cbn [bytes_lt]; intros H; try reflexivity; try discriminate.
  destruct (x <? y) eqn:E1; destruct (y <? x) eqn:E2; try lia; try reflexivity; try discriminate.
  now apply IH.
Qed.

Lemma bytes_lt_trans a : forall b c, bytes_lt a b = true -> bytes_lt b c = true -> bytes_lt a c = true.
Proof.
  induction a as [|x a IH]; intros [|y b] [|z c]; cbn [bytes_lt]; intros H1 H2; try reflexivity; try discriminate.
  destruct (x <? y) eqn:E1; destruct (y <? x) eqn:E2; try lia; try discriminate;
  destruct (y <? z) eqn:E3; destruct (z <? y) eqn:E4; try lia; try discriminate;
  destruct (x <? z) eqn:E5; destruct (z <? x) eqn:E6; try lia; try reflexivity.
  eapply IH; eauto.
Qed.

Lemma key_lt_asym kp a b : key_lt kp a b = true -> key_lt kp b a = false.
Proof.
  destruct kp; try (cbn; discriminate);
    destruct a; try (cbn; discriminate); destruct b; try (cbn; discriminate); cbn [key_lt].
  - lia.
  - lia.
  - lia.
  - apply bytes_lt_asym.
  - destruct b, b0; cbn; congruence.
Qed.

Lemma key_lt_trans kp a b c : key_lt kp a b = true -> key_lt kp b c = true -> key_lt kp a c = true.
Proof.
  destruct kp; try (cbn; discriminate);
    destruct a; try (cbn; discriminate); destruct b; try (cbn; discriminate);
    destruct c; try (cbn; intros; discriminate); cbn [key_lt].
  - lia.
  - lia.
  - lia.
  - apply bytes_lt_trans.
  - destruct b, b0, b1; cbn; congruence.
Qed.

Definition all_lt (kp : prim) (l : list value) (e : value) : Prop :=
  Forall (fun e' => key_lt kp (entry_key e') (entry_key e) = true) l.

Lemma dict_insert_end kp e l : all_lt kp l e -> dict_insert kp e l = l ++ [e].
Proof.
  induction l as [|e' l IH]; intros H; cbn [dict_insert app]; [reflexivity|].
  apply Forall_cons_iff in H as [H1 H2].
  rewrite (key_lt_asym _ _ _ H1), H1, (IH H2). reflexivity.
Qed.

Lemma sorted_all_lt kp acc : forall e r, keys_sorted kp (acc ++ e :: r) = true -> all_lt kp acc e.
Proof.
  induction acc as [|a acc IH]; intros e r H; [constructor|].
  cbn [app keys_sorted] in H.
  destruct (acc ++ e :: r) as [|h tl] eqn:Eq; [destruct acc; discriminate|].
  apply andb_true_iff in H as [Hah Hs].
  rewrite <- Eq in Hs. pose proof (IH e r Hs) as Hall.
  constructor; [|exact Hall].
  destruct acc as [|a2 acc2].
  - cbn [app] in Eq. injection Eq as <- _. exact Hah.
  - cbn [app] in Eq. injection Eq as <- _.
    apply Forall_cons_iff in Hall as [Ha2 _].
    eapply key_lt_trans; eauto.
Qed.

Lemma keys_sorted_tail kp e r : keys_sorted kp (e :: r) = true -> keys_sorted kp r = true.
Proof. cbn [keys_sorted]. destruct r; [reflexivity|]. intros H. now apply andb_true_iff in H as [_ ?]. Qed.

Lemma dict_fold_sorted kp : forall es acc,
  keys_sorted kp (acc ++ es) = true ->
  fold_left (fun a e => dict_insert kp e a) es acc = acc ++ es.
Proof.
  induction es as [|e es IH]; intros acc H; cbn [fold_left].
  - now rewrite app_nil_r.
  - rewrite (dict_insert_end kp e acc (sorted_all_lt kp acc e es H)).
    rewrite IH; rewrite <- app_assoc; [reflexivity|exact H].
Qed.

(** ** auxiliary facts *)
Lemma wf_lookup s t d : wf_schema s = true -> nth_error s t = Some d -> tydef_ok s d = true.
Proof.
  unfold wf_schema. intros H Hn. rewrite forallb_forall in H. apply H. eapply nth_error_In; eauto.
Qed.

Lemma sanity_app body rest n m :
  check_length_sanity body n m = true -> check_length_sanity (body ++ rest) n m = true.
Proof.
  unfold check_length_sanity. rewrite lenN_app. intros H.
  destruct (lenN body <? n * m) eqn:E1; [discriminate|].
  destruct (lenN body + lenN rest <? n * m) eqn:E2; [lia|reflexivity].
Qed.

Lemma sane_ok_dec san n body rest :
  sane_ok san n body = true -> san && negb (check_length_sanity (body ++ rest) n 4) = false.
Proof.
  unfold sane_ok. destruct san; [|reflexivity]. intros H. cbn [andb].
  now rewrite (sanity_app _ rest _ _ H).
Qed.

Lemma depth_opts_le fs x :
  In (Some x) fs ->
  (vdepth x <= fold_right (fun o m => Nat.max (match o with Some y => vdepth y | None => 0%nat end) m) 0%nat fs)%nat.
Proof.
  induction fs as [|o fs IH]; cbn [In fold_right]; [tauto|].
  intros [->|H]; [lia|]. specialize (IH H). lia.
Qed.

Lemma depth_elems_le es x :
  In x es -> (vdepth x <= fold_right (fun y m => Nat.max (vdepth y) m) 0%nat es)%nat.
Proof.
  induction es as [|o es IH]; cbn [In fold_right]; [tauto|].
  intros [->|H]; [lia|]. specialize (IH H). lia.
Qed.

Lemma fields_ih (P : value -> Prop) (Q : value -> Prop) fs :
  Forall (Popt P) fs -> (forall x, In (Some x) fs -> P x -> Q x) -> Forall (Popt Q) fs.
Proof.
  intros HF HI. rewrite Forall_forall in *. intros o Ho. destruct o as [x|]; [|exact I].
  cbn [Popt]. apply HI; [exact Ho|]. exact (HF _ Ho).
Qed.

(** ** the round trip *)
Local Opaque nat_w long_w.
Theorem enc1_dec1 san s :
  wf_schema s = true ->
  forall v fuel, (vdepth v <= fuel)%nat -> RT (enc1 san s) (dec1 fuel san s) v.
Proof.
  intros Hwf v.
  induction v as [n|str|bv|fs IH|idx fs IH|es IH] using value_ind';
    intros fuel Hd t bare ps b rest H;
    (destruct fuel as [|fuel]; [cbn in Hd; lia|]);
    cbn [enc1] in H; cbn [dec1];
    destruct (nth_error s t) as [d|] eqn:Et; try discriminate;
    pose proof (wf_lookup s t d Hwf Et) as Hok.
  - (* VNum *)
    destruct d; try discriminate. now rewrite (prim_roundtrip s p _ _ rest Hok H).
  - destruct d; try discriminate. now rewrite (prim_roundtrip s p _ _ rest Hok H).
  - destruct d; try discriminate. now rewrite (prim_roundtrip s p _ _ rest Hok H).
  - (* VStruct *)
    destruct d as [p|tag fds|vars|k ef|kp ef]; try discriminate.
    { destruct p; discriminate. }
    all: cbv beta match.
    cbn [tydef_ok] in Hok. apply andb_true_iff in Hok as [Htag Hfds]. unfold tag_ok in Htag.
    destruct (enc_fields _ ps fs fds fs) as [body|] eqn:EF; [|discriminate].
    cbn [bind_opt] in H.
    assert (HF : Forall (Popt (RT (fun t' b' ps' v' => enc1 san s t' b' ps' v') (dec1 fuel san s))) fs).
    { apply (fields_ih _ _ fs IH). intros x Hx Hrt. apply Hrt.
      cbn [vdepth] in Hd. pose proof (depth_opts_le fs x Hx). lia. }
    pose proof (fields_rt _ _ ps fs fs fds [] body rest eq_refl Hfds HF EF) as Hdec.
    destruct bare; injection H as <-.
    + rewrite Hdec. reflexivity.
    + rewrite <- app_assoc, nat_roundtrip by (cbn; lia). rewrite N.eqb_refl, Hdec. reflexivity.
  - (* VUnion *)
    destruct d as [p|tag fds|vars|k ef|kp ef]; try discriminate.
    { destruct p; discriminate. }
    all: cbv beta match.
    cbn [tydef_ok] in Hok.
    destruct bare; [discriminate|].
    destruct (nth_error vars idx) as [vt|] eqn:Evt; [|discriminate].
    destruct (nth_error s vt) as [[p|tag fds|vars'|k ef|kp ef]|] eqn:Es; try discriminate.
    pose proof (wf_lookup s vt _ Hwf Es) as Hokv. cbn [tydef_ok] in Hokv.
    apply andb_true_iff in Hokv as [Htag Hfds]. unfold tag_ok in Htag.
    destruct (enc_fields _ ps fs fds fs) as [body|] eqn:EF; [|discriminate].
    cbn [bind_opt] in H. injection H as <-.
    assert (HF : Forall (Popt (RT (fun t' b' ps' v' => enc1 san s t' b' ps' v') (dec1 fuel san s))) fs).
    { apply (fields_ih _ _ fs IH). intros x Hx Hrt. apply Hrt.
      cbn [vdepth] in Hd. pose proof (depth_opts_le fs x Hx). lia. }
    pose proof (fields_rt _ _ ps fs fs fds [] body rest eq_refl Hfds HF EF) as Hdec.
    cbn [negb]. rewrite <- app_assoc, nat_roundtrip by (cbn; lia).
    rewrite (find_variant_spec s vars idx vt tag fds 0 Hok Evt Es). cbn [Nat.add].
    rewrite Hdec. reflexivity.
  - (* VArr *)
    assert (HFe : forall ty br args,
      Forall (fun e => forall b rest, enc1 san s ty br args e = Some b ->
                                      dec1 fuel san s ty br args (b ++ rest) = Some (Ok (e, rest))) es).
    { intros ty br args. rewrite Forall_forall in *. intros e He b0 rest0 Hb0.
      apply (IH e He fuel); [|exact Hb0].
      cbn [vdepth] in Hd. pose proof (depth_elems_le es e He). lia. }
    destruct d as [p|tag fds|vars|k ef|kp ef]; try discriminate.
    { destruct p; discriminate. }
    all: cbv beta match.
    + (* array *)
      destruct bare; [|discriminate]. cbn [negb] in *.
      destruct (enc_elems _ es) as [body|] eqn:EE; [|discriminate].
      cbn [bind_opt] in H.
      pose proof (elems_rt _ _ es body rest (HFe _ _ _) EE) as Hel.
      destruct k as [| |c].
      * destruct ((lenN es <? 4294967296) && sane_ok san (lenN es) body) eqn:Ec; [|discriminate].
        apply andb_true_iff in Ec as [Ec1 Ec2]. injection H as <-.
        unfold read_count. rewrite <- app_assoc, nat_roundtrip by (cbn; lia).
        rewrite (sane_ok_dec _ _ _ rest Ec2), Hel. reflexivity.
      * destruct ((lenN es =? nth 0 ps 0) && sane_ok san (lenN es) body) eqn:Ec; [|discriminate].
        apply andb_true_iff in Ec as [Ec1 Ec2]. injection H as <-.
        apply N.eqb_eq in Ec1. rewrite <- Ec1.
        rewrite (sane_ok_dec _ _ _ rest Ec2), Hel. reflexivity.
      * destruct (lenN es =? c) eqn:Ec1; [|discriminate]. injection H as <-.
        apply N.eqb_eq in Ec1. rewrite <- Ec1. rewrite Hel. reflexivity.
    + (* dict *)
      destruct bare; [|discriminate]. cbn [negb] in *.
      destruct (enc_elems _ es) as [body|] eqn:EE; [|discriminate].
      cbn [bind_opt] in H.
      pose proof (elems_rt _ _ es body rest (HFe _ _ _) EE) as Hel.
      destruct ((lenN es <? 4294967296) && keys_sorted kp es && sane_ok san (lenN es) body) eqn:Ec; [|discriminate].
      apply andb_true_iff in Ec as [Ec12 Ec3]. apply andb_true_iff in Ec12 as [Ec1 Ec2].
      injection H as <-.
      unfold read_count. rewrite <- app_assoc, nat_roundtrip by (cbn; lia).
      rewrite (sane_ok_dec _ _ _ rest Ec3), Hel.
      rewrite (dict_fold_sorted kp es [] Ec2). reflexivity.
Qed.

(** ** the strict encoder only refuses: whatever it writes, the plain writer writes too *)
Lemma enc_fields_mono rec1 rec2 ps all : forall vs fds b,
  Forall (Popt (fun v => forall t bare ps b, rec1 t bare ps v = Some b -> rec2 t bare ps v = Some b)) vs ->
  enc_fields rec1 ps all fds vs = Some b -> enc_fields rec2 ps all fds vs = Some b.
Proof.
  induction vs as [|ov vs IH]; intros fds b HF H; destruct fds as [|fd fds]; cbn [enc_fields] in *; try discriminate; [exact H|].
  apply Forall_cons_iff in HF as [Hov HF'].
  destruct ov as [v|].
  - destruct (field_present ps all fd); [|discriminate].
    destruct (rec1 (f_ty fd) (f_bare fd) (eval_args ps all (f_args fd)) v) as [b1|] eqn:E1; [|discriminate].
    cbn [bind_opt] in H. cbn [Popt] in Hov. rewrite (Hov _ _ _ b1 ltac:(first [exact E1|reflexivity])). cbn [bind_opt].
    destruct (enc_fields rec1 ps all fds vs) as [b2|] eqn:E2; [|discriminate].
    rewrite (IH fds b2 HF' ltac:(first [exact E2|reflexivity])). exact H.
  - destruct (field_present ps all fd); [discriminate|]. now apply IH.
Qed.

Lemma enc_elems_mono (rec1 rec2 : value -> option bytes) : forall es b,
  Forall (fun e => forall b, rec1 e = Some b -> rec2 e = Some b) es ->
  enc_elems rec1 es = Some b -> enc_elems rec2 es = Some b.
Proof.
  induction es as [|e es IH]; intros b HF H; cbn [enc_elems] in *; [exact H|].
  apply Forall_cons_iff in HF as [He HF'].
  destruct (rec1 e) as [b1|] eqn:E1; [|discriminate]. cbn [bind_opt] in H.
  rewrite (He b1 ltac:(first [exact E1|reflexivity])). cbn [bind_opt].
  destruct (enc_elems rec1 es) as [b2|] eqn:E2; [|discriminate].
  now rewrite (IH b2 HF' ltac:(first [exact E2|reflexivity])).
Qed.

Lemma sane_ok_false n body : sane_ok false n body = true.
Proof. reflexivity. Qed.

Theorem enc1_strict_weaken s : forall v t bare ps b,
  enc1 true s t bare ps v = Some b -> enc1 false s t bare ps v = Some b.
Proof.
  induction v as [n|str|bv|fs IH|idx fs IH|es IH] using value_ind'; intros t bare ps b H;
    cbn [enc1] in *; destruct (nth_error s t) as [d|] eqn:Et; try discriminate;
    destruct d as [p|tag fds|vars|k ef|kp ef]; try discriminate; try exact H.
  - destruct (enc_fields _ ps fs fds fs) as [body|] eqn:EF; [|discriminate].
    rewrite (enc_fields_mono _ (fun t' b' ps' v' => enc1 false s t' b' ps' v') ps fs fs fds body IH EF). exact H.
  - destruct bare; [discriminate|]. destruct (nth_error vars idx) as [vt|]; [|discriminate].
    destruct (nth_error s vt) as [[p|tag fds|vars'|k ef|kp ef]|]; try discriminate.
    destruct (enc_fields _ ps fs fds fs) as [body|] eqn:EF; [|discriminate].
    rewrite (enc_fields_mono _ (fun t' b' ps' v' => enc1 false s t' b' ps' v') ps fs fs fds body IH EF). exact H.
  - destruct (negb bare); [discriminate|].
    destruct (enc_elems _ es) as [body|] eqn:EE; [|discriminate].
    assert (HF : Forall (fun e => forall b0, enc1 true s (f_ty ef) (f_bare ef) (eval_args ps [] (f_args ef)) e = Some b0 ->
                                             enc1 false s (f_ty ef) (f_bare ef) (eval_args ps [] (f_args ef)) e = Some b0) es).
    { rewrite Forall_forall in *. intros e He b0 Hb0. now apply IH. }
    rewrite (enc_elems_mono _ (fun e => enc1 false s (f_ty ef) (f_bare ef) (eval_args ps [] (f_args ef)) e) es body HF EE). cbn [bind_opt] in *.
    destruct k; unfold sane_ok in *;
      repeat match goal with
             | H : (if ?c && ?d then _ else _) = Some _ |- _ => destruct c; cbn [andb] in *; [destruct d; [exact H|discriminate]|discriminate]
             end; try exact H.
  - destruct (negb bare); [discriminate|].
    destruct (enc_elems _ es) as [body|] eqn:EE; [|discriminate].
    assert (HF : Forall (fun e => forall b0, enc1 true s (f_ty ef) (f_bare ef) (eval_args ps [] (f_args ef)) e = Some b0 ->
                                             enc1 false s (f_ty ef) (f_bare ef) (eval_args ps [] (f_args ef)) e = Some b0) es).
    { rewrite Forall_forall in *. intros e He b0 Hb0. now apply IH. }
    rewrite (enc_elems_mono _ (fun e => enc1 false s (f_ty ef) (f_bare ef) (eval_args ps [] (f_args ef)) e) es body HF EE). cbn [bind_opt] in *.
    unfold sane_ok in *.
    destruct ((lenN es <? 4294967296) && keys_sorted kp es); cbn [andb] in *; [|discriminate].
    destruct (check_length_sanity body (lenN es) 4); [exact H|discriminate].
Qed.

(** ** length disagreement is a write error, never bytes *)
Theorem enc1_tuple_length_mismatch san s t ps es ef :
  nth_error s t = Some (TArray ATupleDyn ef) -> lenN es <> nth 0 ps 0 ->
  forall bare, enc1 san s t bare ps (VArr es) = None.
Proof.
  intros Ht Hne bare. cbn [enc1]. rewrite Ht. destruct (negb bare); [reflexivity|].
  destruct (enc_elems _ es); [|reflexivity]. cbn [bind_opt].
  destruct (lenN es =? nth 0 ps 0) eqn:E; [apply N.eqb_eq in E; contradiction|reflexivity].
Qed.

Theorem enc1_fixed_length_mismatch san s t ps es ef c :
  nth_error s t = Some (TArray (ATupleFixed c) ef) -> lenN es <> c ->
  forall bare, enc1 san s t bare ps (VArr es) = None.
Proof.
  intros Ht Hne bare. cbn [enc1]. rewrite Ht. destruct (negb bare); [reflexivity|].
  destruct (enc_elems _ es); [|reflexivity]. cbn [bind_opt].
  destruct (lenN es =? c) eqn:E; [apply N.eqb_eq in E; contradiction|reflexivity].
Qed.
