(** Canonicity of the TL1 reader (C02): whatever [dec1] accepts is exactly what [enc1] writes
    for the decoded value, for schemas without map-backed dictionaries; in general the
    accepted bytes are a prefix of the input. *)
From Coq Require Import ZArith Lia ZifyN ZifyNat ZifyBool.
From TLV Require Import Prim.PrimModel Prim.PrimProofs Tl1.Tl1Model Tl1.Tl1Proofs.
Ltac Zify.zify_post_hook ::= Z.div_mod_to_equations.
Open Scope N_scope.

Lemma bytes_ok_app a b : bytes_ok (a ++ b) -> bytes_ok a /\ bytes_ok b.
Proof. unfold bytes_ok. rewrite Forall_app. tauto. Qed.

Lemma long_canonical b v r : bytes_ok b -> long_r b = Ok (v, r) -> b = long_w v ++ r /\ v < 2 ^ 64.
Proof.
  intros Hb H. unfold long_r in H.
  destruct b as [|b0 [|b1 [|b2 [|b3 [|b4 [|b5 [|b6 [|b7 r']]]]]]]]; try discriminate.
  injection H as Hv Hr. subst r'.
  assert (Hk : bytes_ok [b0; b1; b2; b3; b4; b5; b6; b7]).
  { repeat (apply bytes_ok_cons_inv in Hb as [? Hb]). repeat constructor; assumption. }
  split.
  - unfold long_w. rewrite <- Hv.
    change 8%nat with (length [b0; b1; b2; b3; b4; b5; b6; b7]). rewrite le_bytes_le_val by exact Hk. reflexivity.
  - rewrite <- Hv. apply (le_val_bound _ Hk).
Qed.

(** ** primitives *)
Lemma prim_canonical p b v rest :
  bytes_ok b -> dec_prim p b = Ok (v, rest) -> exists pfx, b = pfx ++ rest /\ enc_prim p v = Some pfx.
Proof.
  intros Hb H. destruct p; cbn [dec_prim] in H.
  1-3: destruct (nat_r b) as [[n r]| |] eqn:E; try discriminate; injection H as <- <-;
       destruct (nat_canonical _ _ _ Hb E) as [-> Hn]; eexists; split; [reflexivity|];
       cbn [enc_prim]; destruct (n <? 4294967296) eqn:E2; [reflexivity|cbn in Hn; lia].
  1-2: destruct (long_r b) as [[n r]| |] eqn:E; try discriminate; injection H as <- <-;
       destruct (long_canonical _ _ _ Hb E) as [-> Hn]; eexists; split; [reflexivity|];
       cbn [enc_prim]; destruct (n <? 18446744073709551616) eqn:E2; [reflexivity|cbn in Hn; lia].
  - destruct (str1_r b) as [[s0 r]| |] eqn:E; try discriminate. injection H as <- <-.
    destruct (str1_canonical _ _ _ Hb E) as [pfx [Hw ->]]. exists pfx. split; [reflexivity|exact Hw].
  - unfold bool1_r in H. destruct (nat_r b) as [[n r]| |] eqn:E; try discriminate.
    destruct (nat_canonical _ _ _ Hb E) as [-> Hn].
    destruct (n =? ftag) eqn:E1.
    + injection H as <- <-. apply N.eqb_eq in E1. subst n. eexists; split; reflexivity.
    + destruct (n =? ttag) eqn:E2; [|discriminate]. injection H as <- <-.
      apply N.eqb_eq in E2. subst n. eexists; split; reflexivity.
  - discriminate.
Qed.

(** ** the canonicity statement, as a predicate on decoders *)
Definition CAN (enc : nat -> bool -> list N -> value -> option bytes)
               (dec : nat -> bool -> list N -> bytes -> dres) : Prop :=
  forall t bare ps b v rest, bytes_ok b -> dec t bare ps b = Some (Ok (v, rest)) ->
    exists pfx, b = pfx ++ rest /\ enc t bare ps v = Some pfx.

Lemma dec_fields_canonical rec drec ps : CAN rec drec ->
  forall fds acc b fs rest,
    bytes_ok b ->
    fields_ok (length acc) fds = true ->
    dec_fields drec ps fds acc b = Some (Ok (fs, rest)) ->
    exists vs pfx, fs = acc ++ vs /\ b = pfx ++ rest /\ enc_fields rec ps fs fds vs = Some pfx.
Proof.
  intros Hcan. induction fds as [|fd fds IH]; intros acc b fs rest Hb Hok H; cbn [dec_fields] in H.
  - injection H as <- <-. exists [], []. rewrite app_nil_r. repeat split; reflexivity.
  - cbn [fields_ok] in Hok. apply andb_true_iff in Hok as [Hfd Hrest].
    destruct (field_present ps acc fd) eqn:Ep.
    + destruct (drec (f_ty fd) (f_bare fd) (eval_args ps acc (f_args fd)) b) as [[[v b']| |]|] eqn:Ed; try discriminate.
      destruct (Hcan _ _ _ _ _ _ Hb Ed) as [p1 [-> He1]].
      apply bytes_ok_app in Hb as [_ Hb'].
      assert (Hok' : fields_ok (length (acc ++ [Some v])) fds = true)
        by (rewrite app_length; cbn [length]; rewrite Nat.add_1_r; exact Hrest).
      destruct (IH (acc ++ [Some v]) b' fs rest Hb' Hok' H) as [vs [p2 [Hfs [-> He2]]]].
      exists (Some v :: vs), (p1 ++ p2). rewrite <- app_assoc in Hfs. cbn [app] in Hfs.
      split; [exact Hfs|]. split; [now rewrite app_assoc|].
      cbn [enc_fields].
      assert (E1 : field_present ps fs fd = field_present ps acc fd)
        by (rewrite Hfs; apply field_present_prefix; exact Hfd).
      assert (E2 : eval_args ps fs (f_args fd) = eval_args ps acc (f_args fd)).
      { rewrite Hfs. apply eval_args_prefix. unfold field_ok in Hfd. now apply andb_true_iff in Hfd as [_ ?]. }
      rewrite E1, Ep, E2, He1. cbn [bind_opt]. rewrite He2. reflexivity.
    + assert (Hok' : fields_ok (length (acc ++ [None])) fds = true)
        by (rewrite app_length; cbn [length]; rewrite Nat.add_1_r; exact Hrest).
      destruct (IH (acc ++ [None]) b fs rest Hb Hok' H) as [vs [p2 [Hfs [-> He2]]]].
      exists (None :: vs), p2. rewrite <- app_assoc in Hfs. cbn [app] in Hfs.
      split; [exact Hfs|]. split; [reflexivity|].
      cbn [enc_fields].
      assert (E1 : field_present ps fs fd = field_present ps acc fd)
        by (rewrite Hfs; apply field_present_prefix; exact Hfd).
      rewrite E1, Ep. exact He2.
Qed.

(** ** elements *)
Lemma nat_iter_canonical (rec : value -> option bytes) (drec : bytes -> dres) :
  (forall b v rest, bytes_ok b -> drec b = Some (Ok (v, rest)) -> exists pfx, b = pfx ++ rest /\ rec v = Some pfx) ->
  forall n acc b acc' rest,
    bytes_ok b ->
    nat_iter (estep drec) n (acc, b) = Some (Ok (acc', rest)) ->
    exists es pfx, acc' = rev es ++ acc /\ length es = n /\ b = pfx ++ rest /\ enc_elems rec es = Some pfx.
Proof.
  intros Hcan. induction n as [|n IH]; intros acc b acc' rest Hb H; cbn [nat_iter] in H.
  - injection H as <- <-. exists [], []. repeat split; reflexivity.
  - unfold estep at 1 in H. cbn [snd fst] in H.
    destruct (drec b) as [[[v b']| |]|] eqn:Ed; try discriminate. cbn [obind] in H.
    destruct (Hcan _ _ _ Hb Ed) as [p1 [-> He1]].
    apply bytes_ok_app in Hb as [_ Hb'].
    destruct (IH (v :: acc) b' acc' rest Hb' H) as [es [p2 [Hacc [Hlen [-> He2]]]]].
    exists (v :: es), (p1 ++ p2). cbn [rev length enc_elems].
    split; [rewrite <- app_assoc; exact Hacc|]. split; [now rewrite Hlen|].
    split; [now rewrite app_assoc|]. rewrite He1. cbn [bind_opt]. rewrite He2. reflexivity.
Qed.

Lemma dec_elems_canonical (rec : value -> option bytes) (drec : bytes -> dres) :
  (forall b v rest, bytes_ok b -> drec b = Some (Ok (v, rest)) -> exists pfx, b = pfx ++ rest /\ rec v = Some pfx) ->
  forall n b es rest,
    bytes_ok b ->
    dec_elems drec n b = Some (Ok (es, rest)) ->
    exists pfx, lenN es = n /\ b = pfx ++ rest /\ enc_elems rec es = Some pfx.
Proof.
  intros Hcan n b es rest Hb H. unfold dec_elems in H. destruct n as [|p].
  - injection H as <- <-. exists []. repeat split; reflexivity.
  - rewrite pos_iter_nat in H.
    destruct (nat_iter (estep drec) (Pos.to_nat p) ([], b)) as [[[acc b']| |]|] eqn:E; try discriminate.
    injection H as <- <-.
    destruct (nat_iter_canonical rec drec Hcan _ _ _ _ _ Hb E) as [es [pfx [Hacc [Hlen [-> He]]]]].
    exists pfx. rewrite Hacc, app_nil_r, rev_involutive.
    split; [unfold lenN; lia|]. split; [reflexivity|exact He].
Qed.

(** ** unions *)
Lemma find_variant_sound s : forall vars tag k idx fds,
  find_variant s vars tag k = Some (idx, fds) ->
  exists vt, nth_error vars (idx - k) = Some vt /\ nth_error s vt = Some (TStruct tag fds) /\ (k <= idx)%nat.
Proof.
  induction vars as [|v0 vars IH]; intros tag k idx fds H; cbn [find_variant] in H; [discriminate|].
  destruct (nth_error s v0) as [[p|tg fds0|vs|kk ef|kp ef]|] eqn:E0.
  2: { destruct (tg =? tag) eqn:Et.
       - injection H as <- <-. apply N.eqb_eq in Et. subst tg. exists v0.
         rewrite Nat.sub_diag. cbn [nth_error]. repeat split; auto.
       - destruct (IH _ _ _ _ H) as [vt [Hn [Hs Hk]]]. exists vt.
         replace (idx - k)%nat with (S (idx - S k)) by lia. cbn [nth_error]. repeat split; auto. lia. }
  all: destruct (IH _ _ _ _ H) as [vt [Hn [Hs Hk]]]; exists vt;
       replace (idx - k)%nat with (S (idx - S k)) by lia; cbn [nth_error]; repeat split; auto; lia.
Qed.

(** ** schemas without map-backed dictionaries *)
Definition no_dict (s : schema) : bool :=
  forallb (fun d => match d with TDict _ _ => false | _ => true end) s.

Lemma no_dict_lookup s t kp ef : no_dict s = true -> nth_error s t = Some (TDict kp ef) -> False.
Proof.
  unfold no_dict. intros H Hn. rewrite forallb_forall in H.
  specialize (H _ (nth_error_In _ _ Hn)). discriminate.
Qed.

Lemma sanity_elim (san : bool) c (A : Type) (x y : A) r :
  (if san && negb c then x else y) = r -> (san && negb c = true /\ x = r) \/ (san && negb c = false /\ y = r).
Proof. destruct (san && negb c); auto. Qed.

Local Opaque nat_w long_w.

Theorem dec1_canonical san s : wf_schema s = true -> no_dict s = true ->
  forall fuel, CAN (enc1 false s) (dec1 fuel san s).
Proof.
  intros Hwf Hnd. induction fuel as [|fuel IH]; intros t bare ps b v rest Hb H; [discriminate|].
  cbn [dec1] in H.
  destruct (nth_error s t) as [d|] eqn:Et; [|discriminate].
  pose proof (wf_lookup s t d Hwf Et) as Hok.
  destruct d as [p|tag fds|vars|k ef|kp ef].
  - (* prim *)
    injection H as H. destruct (prim_canonical _ _ _ _ Hb H) as [pfx [-> He]].
    exists pfx. split; [reflexivity|]. destruct v; cbn [enc1]; rewrite Et; exact He.
  - (* struct *)
    cbn [tydef_ok] in Hok. apply andb_true_iff in Hok as [Htag Hfds].
    assert (Hgo : forall b', bytes_ok b' ->
      match dec_fields (dec1 fuel san s) ps fds [] b' with
      | Some (Ok (fs, r)) => Some (Ok (VStruct fs, r)) | Some Eof => Some Eof | Some Reject => Some Reject | None => None
      end = Some (Ok (v, rest)) ->
      exists fs body, v = VStruct fs /\ b' = body ++ rest /\ enc_fields (fun t' b0 ps' v' => enc1 false s t' b0 ps' v') ps fs fds fs = Some body).
    { intros b' Hb' Hd.
      destruct (dec_fields (dec1 fuel san s) ps fds [] b') as [[[fs r]| |]|] eqn:Ed; try discriminate.
      injection Hd as <- <-.
      destruct (dec_fields_canonical (fun t' b0 ps' v' => enc1 false s t' b0 ps' v') _ ps IH fds [] b' fs r Hb' Hfds Ed) as [vs [pfx [Hfs [-> He]]]].
      cbn [app] in Hfs. subst vs. exists fs, pfx. repeat split; auto. }
    destruct bare.
    + destruct (Hgo b Hb H) as [fs [body [-> [-> He]]]].
      exists body. split; [reflexivity|]. cbn [enc1]. rewrite Et, He. reflexivity.
    + destruct (nat_r b) as [[tg b']| |] eqn:En; try discriminate.
      destruct (nat_canonical _ _ _ Hb En) as [-> _].
      destruct (tg =? tag) eqn:Etg; [|discriminate]. apply N.eqb_eq in Etg. subst tg.
      apply bytes_ok_app in Hb as [_ Hb'].
      destruct (Hgo b' Hb' H) as [fs [body [-> [-> He]]]].
      exists (nat_w tag ++ body). split; [now rewrite app_assoc|]. cbn [enc1]. rewrite Et, He. reflexivity.
  - (* union *)
    destruct bare; [discriminate|].
    destruct (nat_r b) as [[tg b']| |] eqn:En; try discriminate.
    destruct (nat_canonical _ _ _ Hb En) as [-> _].
    apply bytes_ok_app in Hb as [_ Hb'].
    destruct (find_variant s vars tg 0) as [[idx fds]|] eqn:Ef; [|discriminate].
    destruct (find_variant_sound _ _ _ _ _ _ Ef) as [vt [Hn [Hs _]]]. rewrite Nat.sub_0_r in Hn.
    pose proof (wf_lookup s vt _ Hwf Hs) as Hokv. cbn [tydef_ok] in Hokv.
    apply andb_true_iff in Hokv as [_ Hfds].
    destruct (dec_fields (dec1 fuel san s) ps fds [] b') as [[[fs r]| |]|] eqn:Ed; try discriminate.
    injection H as <- <-.
    destruct (dec_fields_canonical (fun t' b0 ps' v' => enc1 false s t' b0 ps' v') _ ps IH fds [] b' fs r Hb' Hfds Ed) as [vs [pfx [Hfs [-> He]]]].
    cbn [app] in Hfs. subst vs.
    exists (nat_w tg ++ pfx). split; [now rewrite app_assoc|].
    cbn [enc1]. rewrite Et, Hn, Hs, He. reflexivity.
  - (* array *)
    destruct bare; [|discriminate]. cbn [negb] in H.
    assert (Hel : forall n b', bytes_ok b' ->
      match dec_elems (dec1 fuel san s (f_ty ef) (f_bare ef) (eval_args ps [] (f_args ef))) n b' with
      | Some (Ok (es, r)) => Some (Ok (VArr es, r)) | Some Eof => Some Eof | Some Reject => Some Reject | None => None
      end = Some (Ok (v, rest)) ->
      exists es body, v = VArr es /\ lenN es = n /\ b' = body ++ rest /\
        enc_elems (fun e => enc1 false s (f_ty ef) (f_bare ef) (eval_args ps [] (f_args ef)) e) es = Some body).
    { intros n b' Hb' Hd.
      destruct (dec_elems _ n b') as [[[es r]| |]|] eqn:Ed; try discriminate.
      injection Hd as <- <-.
      destruct (dec_elems_canonical (fun e => enc1 false s (f_ty ef) (f_bare ef) (eval_args ps [] (f_args ef)) e) _
                  (fun b0 v0 r0 Hb0 Hd0 => IH _ _ _ _ _ _ Hb0 Hd0) n b' es r Hb' Ed) as [pfx [Hlen [-> He]]].
      exists es, pfx. repeat split; auto. }
    destruct k as [| |c].
    + unfold read_count in H.
      destruct (nat_r b) as [[n b']| |] eqn:En; try discriminate.
      destruct (nat_canonical _ _ _ Hb En) as [-> Hn].
      apply bytes_ok_app in Hb as [_ Hb'].
      destruct (san && negb (check_length_sanity b' n 4)); [discriminate|].
      destruct (Hel n b' Hb' H) as [es [body [-> [Hlen [-> He]]]]].
      exists (nat_w n ++ body). split; [now rewrite app_assoc|].
      cbn [enc1]. rewrite Et. cbn [negb]. rewrite He. cbn [bind_opt sane_ok]. rewrite Hlen.
      destruct (n <? 4294967296) eqn:E; [reflexivity|cbn in Hn; lia].
    + destruct (san && negb (check_length_sanity b (nth 0 ps 0) 4)); [discriminate|].
      destruct (Hel _ b Hb H) as [es [body [-> [Hlen [-> He]]]]].
      exists body. split; [reflexivity|].
      cbn [enc1]. rewrite Et. cbn [negb]. rewrite He. cbn [bind_opt sane_ok]. rewrite Hlen, N.eqb_refl. reflexivity.
    + destruct (Hel _ b Hb H) as [es [body [-> [Hlen [-> He]]]]].
      exists body. split; [reflexivity|].
      cbn [enc1]. rewrite Et. cbn [negb]. rewrite He. cbn [bind_opt sane_ok]. rewrite Hlen, N.eqb_refl. reflexivity.
  - exfalso. eapply no_dict_lookup; eauto.
Qed.

(** ** named rejection lemmas used by Props/C02.v *)
Local Transparent nat_w long_w.
Lemma c02_unknown_union_tag_rejected : forall san s t vars tag fuel ps r,
  nth_error s t = Some (TUnion vars) -> tag < 4294967296 ->
  find_variant s vars tag 0 = None ->
  dec1 (S fuel) san s t false ps (nat_w tag ++ r) = Some Reject.
Proof.
  intros san s t vars tag fuel ps r Ht Htag Hf. cbn [dec1]. rewrite Ht. cbn [negb].
  rewrite nat_roundtrip by (cbn; lia). now rewrite Hf.
Qed.

Lemma c02_wrong_struct_tag_rejected : forall san s t tag fds x fuel ps r,
  nth_error s t = Some (TStruct tag fds) -> x < 4294967296 -> x <> tag ->
  dec1 (S fuel) san s t false ps (nat_w x ++ r) = Some Reject.
Proof.
  intros san s t tag fds x fuel ps r Ht Hx Hne. cbn [dec1]. rewrite Ht.
  rewrite nat_roundtrip by (cbn; lia).
  destruct (x =? tag) eqn:E; [apply N.eqb_eq in E; contradiction|reflexivity].
Qed.

Lemma c02_bad_bool_tag_rejected : forall ftag ttag x r,
  x < 4294967296 -> x <> ftag -> x <> ttag ->
  dec_prim (PBool ftag ttag) (nat_w x ++ r) = Reject.
Proof.
  intros ftag ttag x r Hx H1 H2. cbn [dec_prim]. unfold bool1_r.
  rewrite nat_roundtrip by (cbn; lia).
  destruct (x =? ftag) eqn:E1; [apply N.eqb_eq in E1; contradiction|].
  destruct (x =? ttag) eqn:E2; [apply N.eqb_eq in E2; contradiction|reflexivity].
Qed.

Lemma c02_string_nonminimal_medium_rejected : forall l r,
  l <= tinyStringLen -> dec_prim PString (mediumStringMarker :: le_bytes 3 l ++ r) = Reject.
Proof. intros l r H. cbn [dec_prim]. now rewrite str1_rejects_nonminimal_medium. Qed.

Lemma c02_string_nonminimal_huge_rejected : forall l r,
  l <= maxMediumStringLen -> dec_prim PString (hugeStringMarker :: le_bytes 7 l ++ r) = Reject.
Proof. intros l r H. cbn [dec_prim]. now rewrite str1_rejects_nonminimal_huge. Qed.

Lemma c02_string_bad_padding_rejected : forall s h p pad' rest,
  str1_hdr (lenN s) = Some (h, p) -> lenN pad' = padding_len p -> all_zero pad' = false ->
  dec_prim PString (h ++ s ++ pad' ++ rest) = Reject.
Proof. intros. cbn [dec_prim]. now rewrite (str1_bad_padding_rejected s h p pad' rest). Qed.
