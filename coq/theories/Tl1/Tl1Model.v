(** M2/M3 -- resolved schema IR (mirrors internal/pure type instances, obtained from the real
    kernel by the translator overlay/cmd/verifdump) and the TL1 codec over it
    (mirrors the generated ReadTL1/WriteTL1 of qt_struct/union/brackets/dict.qtpl and the
    dynamic interpreter internal/pure/onthefly).  Executable definitions only. *)
From Coq Require Export List NArith ZArith Bool.
From TLV Require Export Prim.PrimModel.
Export ListNotations.
Open Scope N_scope.

(** * Schema IR *)
Inductive natarg := NNum (n : N) | NField (i : nat) | NParam (i : nat).

Inductive prim :=
| PNat | PInt | PFloat          (* 4 bytes on the TL1 wire; values are raw 32-bit patterns *)
| PLong | PDouble               (* 8 bytes; raw 64-bit patterns *)
| PString
| PBool (ftag ttag : N)         (* TL1 Bool: one of two constructor tags *)
| PNoTL1.                       (* byte, bit, uint64: not representable in TL1 *)

Record field := mkField {
  f_ty : nat;                        (* index of the type instance *)
  f_bare : bool;
  f_mask : option (natarg * N);      (* field mask reference and bit number *)
  f_args : list natarg               (* nat arguments passed to the field type *)
}.

Inductive arrkind := AVector | ATupleDyn | ATupleFixed (n : N).

Inductive tydef :=
| TPrim (p : prim)
| TStruct (tag : N) (fields : list field)
| TUnion (variants : list nat)          (* indices of variant structs *)
| TArray (k : arrkind) (elem : field)
| TDict (kp : prim) (elem : field).      (* map-backed dictionary; elem type = struct [key; value]; kp = key primitive *)

Definition schema := list tydef.

(** * Values (what is on the wire; [None] = field absent because its mask bit is clear) *)
Inductive value :=
| VNum (n : N)
| VStr (s : bytes)
| VBool (b : bool)
| VStruct (fs : list (option value))
| VUnion (idx : nat) (fs : list (option value))
| VArr (es : list value).

(** nat argument evaluation: [ps] = nat parameters of the enclosing instance,
    [fs] = fields of the enclosing struct read/known so far *)
Definition field_nat (fs : list (option value)) (i : nat) : N :=
  match nth_error fs i with
  | Some (Some (VNum n)) => n
  | _ => 0                      (* absent optional # field counts as 0 *)
  end.

Definition eval_natarg (ps : list N) (fs : list (option value)) (a : natarg) : N :=
  match a with
  | NNum n => n
  | NField i => field_nat fs i
  | NParam i => nth i ps 0
  end.

Definition eval_args (ps : list N) (fs : list (option value)) (l : list natarg) : list N :=
  map (eval_natarg ps fs) l.

Definition field_present (ps : list N) (fs : list (option value)) (f : field) : bool :=
  match f_mask f with
  | None => true
  | Some (a, bit) => N.testbit (eval_natarg ps fs a) bit
  end.

(** * Primitive layer *)
Definition enc_prim (p : prim) (v : value) : option bytes :=
  match p, v with
  | PNat, VNum n | PInt, VNum n | PFloat, VNum n => if n <? 4294967296 then Some (nat_w n) else None
  | PLong, VNum n | PDouble, VNum n => if n <? 18446744073709551616 then Some (long_w n) else None
  | PString, VStr s => str1_w s
  | PBool ftg ttg, VBool b => Some (nat_w (if b then ttg else ftg))
  | _, _ => None
  end.

Definition dec_prim (p : prim) (b : bytes) : res (value * bytes) :=
  match p with
  | PNat | PInt | PFloat =>
      match nat_r b with Ok (n, r) => Ok (VNum n, r) | Eof => Eof | Reject => Reject end
  | PLong | PDouble =>
      match long_r b with Ok (n, r) => Ok (VNum n, r) | Eof => Eof | Reject => Reject end
  | PString =>
      match str1_r b with Ok (s, r) => Ok (VStr s, r) | Eof => Eof | Reject => Reject end
  | PBool ftg ttg =>
      match bool1_r ftg ttg b with Ok (x, r) => Ok (VBool x, r) | Eof => Eof | Reject => Reject end
  | PNoTL1 => Reject
  end.

(** * Dictionary keys: order used by the generated writers (sort.Strings / native <) *)
Definition sgn32 (n : N) : Z := if n <? 2147483648 then Z.of_N n else (Z.of_N n - 4294967296)%Z.
Definition sgn64 (n : N) : Z := if n <? 9223372036854775808 then Z.of_N n else (Z.of_N n - 18446744073709551616)%Z.

Fixpoint bytes_lt (a b : bytes) : bool :=
  match a, b with
  | _, [] => false
  | [], _ :: _ => true
  | x :: a', y :: b' => if x <? y then true else if y <? x then false else bytes_lt a' b'
  end.

Definition key_lt (kp : prim) (a b : value) : bool :=
  match kp, a, b with
  | PNat, VNum x, VNum y => x <? y
  | PInt, VNum x, VNum y => (sgn32 x <? sgn32 y)%Z
  | PLong, VNum x, VNum y => (sgn64 x <? sgn64 y)%Z
  | PString, VStr x, VStr y => bytes_lt x y
  | PBool _ _, VBool x, VBool y => negb x && y
  | _, _, _ => false
  end.

Definition entry_key (e : value) : value :=
  match e with
  | VStruct (Some k :: _) => k
  | _ => VNum 0
  end.

(** insertion into the key-sorted entry list; an equal key replaces (Go map assignment) *)
Fixpoint dict_insert (kp : prim) (e : value) (l : list value) : list value :=
  match l with
  | [] => [e]
  | e' :: r =>
      if key_lt kp (entry_key e) (entry_key e') then e :: l
      else if key_lt kp (entry_key e') (entry_key e) then e' :: dict_insert kp e r
      else e :: r
  end.

Fixpoint keys_sorted (kp : prim) (l : list value) : bool :=
  match l with
  | [] => true
  | e :: r =>
      match r with
      | [] => true
      | e' :: _ => key_lt kp (entry_key e) (entry_key e') && keys_sorted kp r
      end
  end.

(** * TL1 writer *)
Definition bind_opt {A B} (o : option A) (f : A -> option B) : option B :=
  match o with Some a => f a | None => None end.

(** fields of a struct, in order; [all] is the complete field list (for NField lookups).
    [rec] is a parameter outside the [fix] so that the guard checker sees through it. *)
Section EncHelpers.
  Variable rec : nat -> bool -> list N -> value -> option bytes.
  Variable ps : list N.
  Variable all : list (option value).

  Fixpoint enc_fields (fds : list field) (vs : list (option value)) {struct vs} : option bytes :=
    match fds, vs with
    | [], [] => Some []
    | fd :: fds', ov :: vs' =>
        let present := field_present ps all fd in
        match ov with
        | Some v =>
            if present then
              bind_opt (rec (f_ty fd) (f_bare fd) (eval_args ps all (f_args fd)) v) (fun b1 =>
              bind_opt (enc_fields fds' vs') (fun b2 => Some (b1 ++ b2)))
            else None                      (* value for a field whose bit is clear: not a wire value *)
        | None =>
            if present then None else enc_fields fds' vs'
        end
    | _, _ => None
    end.
End EncHelpers.

Section EncElems.
  Variable rec : value -> option bytes.
  Fixpoint enc_elems (es : list value) : option bytes :=
    match es with
    | [] => Some []
    | e :: es' => bind_opt (rec e) (fun b1 => bind_opt (enc_elems es') (fun b2 => Some (b1 ++ b2)))
    end.
End EncElems.

(** [san]: the writer itself has no length-sanity check; with [san = true] the encoder
    additionally refuses arrays the *reader's* CheckLengthSanity(w, n, 4) would refuse when
    nothing follows the elements (used to state the round trip under the default option). *)
Definition sane_ok (san : bool) (n : N) (elems : bytes) : bool :=
  if san then check_length_sanity elems n 4 else true.

Fixpoint enc1 (san : bool) (s : schema) (t : nat) (bare : bool) (ps : list N) (v : value) {struct v} : option bytes :=
  match nth_error s t with
  | None => None
  | Some (TPrim p) => enc_prim p v
  | Some (TStruct tag fds) =>
      match v with
      | VStruct fs =>
          bind_opt (enc_fields (fun t' b' ps' v' => enc1 san s t' b' ps' v') ps fs fds fs) (fun body =>
          Some (if bare then body else nat_w tag ++ body))
      | _ => None
      end
  | Some (TUnion vars) =>
      match v with
      | VUnion idx fs =>
          if bare then None else
          match nth_error vars idx with
          | Some vt =>
              match nth_error s vt with
              | Some (TStruct tag fds) =>
                  bind_opt (enc_fields (fun t' b' ps' v' => enc1 san s t' b' ps' v') ps fs fds fs) (fun body => Some (nat_w tag ++ body))
              | _ => None
              end
          | None => None
          end
      | _ => None
      end
  | Some (TArray k ef) =>
      match v with
      | VArr es =>
          if negb bare then None else
          let n := lenN es in
          let eargs := eval_args ps [] (f_args ef) in
          bind_opt (enc_elems (fun e => enc1 san s (f_ty ef) (f_bare ef) eargs e) es) (fun body =>
          match k with
          | AVector => if (n <? 4294967296) && sane_ok san n body then Some (nat_w n ++ body) else None
          | ATupleDyn => if (n =? nth 0 ps 0) && sane_ok san n body then Some body else None
          | ATupleFixed c => if n =? c then Some body else None   (* Go array [c]T: no sanity check on read *)
          end)
      | _ => None
      end
  | Some (TDict kp ef) =>
      match v with
      | VArr es =>
          if negb bare then None else
          let n := lenN es in
          let eargs := eval_args ps [] (f_args ef) in
          bind_opt (enc_elems (fun e => enc1 san s (f_ty ef) (f_bare ef) eargs e) es) (fun body =>
          if (n <? 4294967296) && keys_sorted kp es && sane_ok san n body then Some (nat_w n ++ body) else None)
      | _ => None
      end
  end.

(** * TL1 reader, on fuel.  [None] = out of fuel. *)
Definition dres := option (res (value * bytes)).

Fixpoint dec_fields (rec : nat -> bool -> list N -> bytes -> dres)
         (ps : list N) (fds : list field) (acc : list (option value)) (b : bytes)
  : option (res (list (option value) * bytes)) :=
  match fds with
  | [] => Some (Ok (acc, b))
  | fd :: fds' =>
      if field_present ps acc fd then
        match rec (f_ty fd) (f_bare fd) (eval_args ps acc (f_args fd)) b with
        | None => None
        | Some (Ok (v, b')) => dec_fields rec ps fds' (acc ++ [Some v]) b'
        | Some Eof => Some Eof
        | Some Reject => Some Reject
        end
      else dec_fields rec ps fds' (acc ++ [None]) b
  end.

(** [n] elements; the count is a binary number (it comes from the wire) so iteration is
    structural on [positive] with early exit on error *)
Definition estate := (list value * bytes)%type.
Definition estep (rec : bytes -> dres) (st : estate) : option (res estate) :=
  match rec (snd st) with
  | None => None
  | Some (Ok (v, b')) => Some (Ok (v :: fst st, b'))
  | Some Eof => Some Eof
  | Some Reject => Some Reject
  end.

Definition obind (x : option (res estate)) (f : estate -> option (res estate)) : option (res estate) :=
  match x with
  | None => None
  | Some (Ok st) => f st
  | Some Eof => Some Eof
  | Some Reject => Some Reject
  end.

Fixpoint pos_iter (f : estate -> option (res estate)) (p : positive) (st : estate) : option (res estate) :=
  match p with
  | xH => f st
  | xO p' => obind (pos_iter f p' st) (pos_iter f p')
  | xI p' => obind (f st) (fun st1 => obind (pos_iter f p' st1) (pos_iter f p'))
  end.

Definition dec_elems (rec : bytes -> dres) (n : N) (b : bytes) : option (res (list value * bytes)) :=
  match n with
  | N0 => Some (Ok ([], b))
  | Npos p =>
      match pos_iter (estep rec) p ([], b) with
      | None => None
      | Some (Ok (acc, b')) => Some (Ok (rev acc, b'))
      | Some Eof => Some Eof
      | Some Reject => Some Reject
      end
  end.

Fixpoint find_variant (s : schema) (vars : list nat) (tag : N) (idx : nat) : option (nat * list field) :=
  match vars with
  | [] => None
  | vt :: vars' =>
      match nth_error s vt with
      | Some (TStruct tg fds) => if tg =? tag then Some (idx, fds) else find_variant s vars' tag (S idx)
      | _ => find_variant s vars' tag (S idx)
      end
  end.

Definition read_count (san : bool) (b : bytes) : res (N * bytes) :=
  match nat_r b with
  | Ok (n, r) => if san && negb (check_length_sanity r n 4) then Eof else Ok (n, r)
  | Eof => Eof
  | Reject => Reject
  end.

Fixpoint dec1 (fuel : nat) (san : bool) (s : schema) (t : nat) (bare : bool) (ps : list N) (b : bytes) : dres :=
  match fuel with
  | O => None
  | S fuel' =>
      match nth_error s t with
      | None => Some Reject
      | Some (TPrim p) => Some (dec_prim p b)
      | Some (TStruct tag fds) =>
          let go b' :=
            match dec_fields (dec1 fuel' san s) ps fds [] b' with
            | None => None
            | Some (Ok (fs, r)) => Some (Ok (VStruct fs, r))
            | Some Eof => Some Eof
            | Some Reject => Some Reject
            end in
          if bare then go b
          else match nat_r b with
               | Ok (tg, b') => if tg =? tag then go b' else Some Reject
               | Eof => Some Eof
               | Reject => Some Reject
               end
      | Some (TUnion vars) =>
          if bare then Some Reject else
          match nat_r b with
          | Ok (tg, b') =>
              match find_variant s vars tg O with
              | Some (idx, fds) =>
                  match dec_fields (dec1 fuel' san s) ps fds [] b' with
                  | None => None
                  | Some (Ok (fs, r)) => Some (Ok (VUnion idx fs, r))
                  | Some Eof => Some Eof
                  | Some Reject => Some Reject
                  end
              | None => Some Reject
              end
          | Eof => Some Eof
          | Reject => Some Reject
          end
      | Some (TArray k ef) =>
          if negb bare then Some Reject else
          let eargs := eval_args ps [] (f_args ef) in
          let elems n b' :=
            match dec_elems (dec1 fuel' san s (f_ty ef) (f_bare ef) eargs) n b' with
            | None => None
            | Some (Ok (es, r)) => Some (Ok (VArr es, r))
            | Some Eof => Some Eof
            | Some Reject => Some Reject
            end in
          match k with
          | AVector =>
              match read_count san b with
              | Ok (n, b') => elems n b'
              | Eof => Some Eof
              | Reject => Some Reject
              end
          | ATupleDyn =>
              let n := nth 0 ps 0 in
              if san && negb (check_length_sanity b n 4) then Some Eof else elems n b
          | ATupleFixed c => elems c b     (* constant size: generated as a Go array, no length-sanity check *)
          end
      | Some (TDict kp ef) =>
          if negb bare then Some Reject else
          let eargs := eval_args ps [] (f_args ef) in
          match read_count san b with
          | Ok (n, b') =>
              match dec_elems (dec1 fuel' san s (f_ty ef) (f_bare ef) eargs) n b' with
              | None => None
              | Some (Ok (es, r)) => Some (Ok (VArr (fold_left (fun acc e => dict_insert kp e acc) es []), r))
              | Some Eof => Some Eof
              | Some Reject => Some Reject
              end
          | Eof => Some Eof
          | Reject => Some Reject
          end
      end
  end.

(** nesting depth of a value: enough fuel for its decoding *)
Fixpoint vdepth (v : value) : nat :=
  match v with
  | VNum _ | VStr _ | VBool _ => 1%nat
  | VStruct fs | VUnion _ fs =>
      S (fold_right (fun o m => Nat.max (match o with Some x => vdepth x | None => 0%nat end) m) 0%nat fs)
  | VArr es => S (fold_right (fun x m => Nat.max (vdepth x) m) 0%nat es)
  end.

(** * Well-formedness of a schema IR (boolean; evaluated on every kernel dump by the checks) *)
Definition natarg_ok (j : nat) (a : natarg) : bool :=
  match a with NField i => Nat.ltb i j | _ => true end.

Definition field_ok (j : nat) (f : field) : bool :=
  (match f_mask f with Some (a, _) => natarg_ok j a | None => true end)
  && forallb (natarg_ok j) (f_args f).

(** a field may only refer (mask, nat arguments) to fields declared before it *)
Fixpoint fields_ok (j : nat) (fds : list field) : bool :=
  match fds with
  | [] => true
  | f :: r => field_ok j f && fields_ok (S j) r
  end.

Definition tag_ok (t : N) : bool := t <? 4294967296.

Definition struct_tag (s : schema) (vt : nat) : option N :=
  match nth_error s vt with
  | Some (TStruct tag _) => Some tag
  | _ => None
  end.

Fixpoint tags_distinct (l : list (option N)) : bool :=
  match l with
  | [] => true
  | None :: _ => false
  | Some t :: r =>
      negb (existsb (fun o => match o with Some t' => t' =? t | None => false end) r) && tags_distinct r
  end.

Definition key_prim_ok (kp : prim) : bool :=
  match kp with
  | PNat | PInt | PLong | PString | PBool _ _ => true
  | _ => false
  end.

Definition tydef_ok (s : schema) (d : tydef) : bool :=
  match d with
  | TPrim (PBool f t) => tag_ok f && tag_ok t && negb (f =? t)
  | TPrim _ => true
  | TStruct tag fds => tag_ok tag && fields_ok 0 fds
  | TUnion vars => tags_distinct (map (struct_tag s) vars)
  | TArray _ _ => true
  | TDict kp _ => key_prim_ok kp
  end.

Definition wf_schema (s : schema) : bool := forallb (tydef_ok s) s.
