(** C27 -- TL1-to-TL2 migration preserves the TL2 wire format and JSON.  Property theorems only.
    Technique: certified checker + per-instance validation.  Model: coq/theories/Tlo/TloMigModel.v.
    [tl2_equiv A B phi] is evaluated (extracted) on the kernel dumps of the original schema (A, with --tl2WhiteList) and of
    the migrated schema (B) for every migration run of lib/checks/C27.py; [roots_covered] checks that every migrated type
    is paired with its origin.

    PARTIAL on one axis: the theorem is about every encoder that is a compositional function of the compared attributes
    ([enc_abs] for an arbitrary algebra).  That the generated TL2 writer and JSON writer are such encoders is the subject of
    the Tl2 / Json families' models, not of this file; the run ties it per instance (both packages are generated, built and
    compared on shared values, TL2 bytes and JSON text).  Values are total here: the original JSON writer's refusal of arrays
    whose length differs from a TL1 size parameter is not an attribute-only behaviour (see the reverse-direction oracle). *)
From Coq Require Import List NArith Bool.
From TLV Require Import Prim.PrimModel Tl1.Tl1Model Tlo.TloMigModel Tlo.TloMigProofs.
Import ListNotations.
Open Scope N_scope.

(** Soundness of the checker, for every pair of schemas, every correspondence it accepts, every algebra, every related pair
    of types and every value (no bound on schema size, value size or nesting). *)
Theorem C27_tl2_equiv_sound_partial : forall (O : Type) aprim astruct aunion aarray adict (abad : O) A B phi,
  tl2_equiv A B phi = true ->
  forall v a b, relb A B phi a b = true ->
    enc_abs O aprim astruct aunion aarray adict abad A a v = enc_abs O aprim astruct aunion aarray adict abad B b v.
Proof. exact tl2_equiv_sound. Qed.
Print Assumptions C27_tl2_equiv_sound_partial.

(** ... hence at every migrated type (the roots the run checks to be covered) *)
Theorem C27_every_migrated_type_partial : forall (O : Type) aprim astruct aunion aarray adict (abad : O) A B phi roots,
  tl2_equiv A B phi = true -> roots_covered A B phi roots = true ->
  forall a b, In (a, b) roots -> forall v,
    enc_abs O aprim astruct aunion aarray adict abad A a v = enc_abs O aprim astruct aunion aarray adict abad B b v.
Proof. exact tl2_equiv_sound_roots. Qed.
Print Assumptions C27_every_migrated_type_partial.

(** the diagnostic the run prints when the checker rejects is complete: no bad pair => accepted *)
Theorem C27_first_bad_complete : forall A B phi, first_bad A B phi phi = None -> tl2_equiv A B phi = true.
Proof. intros A B phi H. exact (first_bad_none A B phi phi H). Qed.
Print Assumptions C27_first_bad_complete.

Theorem C27_all_bad_complete : forall A B phi, all_bad A B phi = [] -> tl2_equiv A B phi = true.
Proof. exact all_bad_nil. Qed.
Print Assumptions C27_all_bad_complete.

(** * Non-vacuity: a TL1-origin view with an alias (vector<int>), a dynamically sized tuple and a masked [true], against
    its migrated form; a printing algebra distinguishes what the checker must reject. *)
Definition nm (l : list N) : bytes := l.
Definition exA : mschema :=
  [ MPrim (nm [117]);                                                  (* 0 uint32 *)
    MPrim (nm [105]);                                                  (* 1 int32 *)
    MStruct (mkSA (nm [116]) 0 None) [] None;                          (* 2 true *)
    MArray None 1;                                                     (* 3 [*]int32, sized by n *)
    MAlias 3;                                                          (* 4 vector<int32> *)
    MStruct (mkSA (nm [97]) 0 None)
            [ mkMF (mkFA (nm [110]) None false) 0;                     (*   n:# *)
              mkMF (mkFA (nm [120]) (Some 0) false) 4;                 (*   x:n.0?(vector int) *)
              mkMF (mkFA (nm [121]) (Some 1) true) 2;                  (*   y:n.1?true *)
              mkMF (mkFA (nm [122]) None false) 3 ] None;              (*   z:n*[int] *)
    MStruct (mkSA (nm [98]) 0 None) [] None;                           (* 6 variant b0 *)
    MStruct (mkSA (nm [99]) 1 None) [ mkMF (mkFA (nm [118]) None false) 5 ] None;   (* 7 variant b1 v:a *)
    MUnion (mkUA false false [nm [48]; nm [49]]) [6%nat; 7%nat] ].     (* 8 *)
Definition exB : mschema :=
  [ MPrim (nm [105]);                                                  (* 0 int32 *)
    MPrim (nm [117]);                                                  (* 1 uint32 *)
    MPrim (nm [98; 105; 116]);                                         (* 2 bit *)
    MArray None 0;                                                     (* 3 []int32 *)
    MStruct (mkSA (nm [97]) 0 None)
            [ mkMF (mkFA (nm [110]) None false) 1;
              mkMF (mkFA (nm [120]) (Some 0) false) 3;
              mkMF (mkFA (nm [121]) (Some 1) true) 2;
              mkMF (mkFA (nm [122]) None false) 3 ] None;              (* 4 a = n:uint32 x?:[]int32 y:bit z:[]int32 *)
    MStruct (mkSA (nm [98]) 0 None) [] None;                           (* 5 *)
    MStruct (mkSA (nm [99]) 1 None) [ mkMF (mkFA (nm [118]) None false) 4 ] None;   (* 6 *)
    MUnion (mkUA false false [nm [48]; nm [49]]) [5%nat; 6%nat] ].     (* 7 *)
Definition exPhi : list (nat * nat) := [ (8, 7); (6, 5); (7, 6); (5, 4); (0, 1); (3, 3); (1, 0) ]%nat.

Example C27_ex_accepts : tl2_equiv exA exB exPhi = true /\ roots_covered exA exB exPhi [(8, 7); (5, 4)]%nat = true.
Proof. vm_compute. split; reflexivity. Qed.

(** a printing algebra: every compared attribute shows up in the output *)
Definition p_prim (n : bytes) (v : value) : bytes := n ++ match v with VNum x => [x] | _ => [] end.
Definition p_struct (sa : sattr) (items : list (fattr * option (option bytes))) : bytes :=
  sa_name sa ++ [sa_uidx sa] ++
  concat (map (fun it => fa_name (fst it) ++ match snd it with None => [0] | Some None => [1] | Some (Some x) => 2 :: x end) items).
Definition p_union (ua : uattr) (idx : nat) (o : bytes) : bytes := concat (ua_names ua) ++ N.of_nat idx :: o.
Definition p_array (c : option N) (l : list bytes) : bytes := match c with Some k => [k] | None => [] end ++ lenN l :: concat l.
Definition p_dict (l : list bytes) : bytes := lenN l :: concat l.
Definition p_enc := enc_abs bytes p_prim p_struct p_union p_array p_dict [255].

Definition exV : value :=
  VUnion 1 [Some (VStruct [Some (VNum 3); Some (VArr [VNum 7; VNum 8]); Some (VStruct []); Some (VArr [VNum 1; VNum 2; VNum 3])])].

Example C27_ex_same_output : p_enc exA 8 exV = p_enc exB 7 exV /\ lenN (p_enc exA 8 exV) = 31.
Proof. vm_compute. split; reflexivity. Qed.

(** the checker rejects a migration that reorders two fields, and the printing algebra tells the two schemas apart *)
Definition exB_reordered : mschema :=
  [ MPrim (nm [105]); MPrim (nm [117]); MPrim (nm [98; 105; 116]); MArray None 0;
    MStruct (mkSA (nm [97]) 0 None)
            [ mkMF (mkFA (nm [110]) None false) 1;
              mkMF (mkFA (nm [121]) (Some 1) true) 2;
              mkMF (mkFA (nm [120]) (Some 0) false) 3;
              mkMF (mkFA (nm [122]) None false) 3 ] None;
    MStruct (mkSA (nm [98]) 0 None) [] None;
    MStruct (mkSA (nm [99]) 1 None) [ mkMF (mkFA (nm [118]) None false) 4 ] None;
    MUnion (mkUA false false [nm [48]; nm [49]]) [5%nat; 6%nat] ].
Example C27_ex_rejects_reordering :
  tl2_equiv exA exB_reordered exPhi = false /\ first_bad exA exB_reordered exPhi exPhi = Some (5, 4)%nat.
Proof. vm_compute. split; reflexivity. Qed.

(** the checker rejects a fixed-size array turned into a vector (what the real migration does for constant size arguments,
    finding reported by lib/checks/C27.py), and the printing algebra tells them apart *)
Example C27_ex_rejects_fixed_vs_vector :
  tl2_equiv [MPrim (nm [105]); MArray (Some 4) 0] [MPrim (nm [105]); MArray None 0] [(1, 1); (0, 0)]%nat = false /\
  p_enc [MPrim (nm [105]); MArray (Some 4) 0] 1 (VArr []) <> p_enc [MPrim (nm [105]); MArray None 0] 1 (VArr []).
Proof. split; [vm_compute; reflexivity|vm_compute; discriminate]. Qed.
