(** C03 -- TL2 binary round trip of generated Go code.  Property theorems only.
    The model: coq/theories/Tl2/Tl2Model.v ([enc2] = generated CalculateLayout + InternalWriteTL2,
    [dec2] = generated InternalReadTL2, over the schema IR dumped from the real kernel on every
    run; values = the Go object state: field values plus the tl2mask presence bits). *)
From TLV Require Import Prim.PrimModel Tl1.Tl1Model Tl1.Tl1Proofs Tl2.Tl2Model Tl2.Tl2Blocks Tl2.Tl2Proofs.
Open Scope N_scope.

(** For every well-formed TL2-enabled schema, every type, every object state [v] the writer
    accepts ([enc2] is a total function on Go objects; [None] only for terms that are not objects
    of the type or whose size exceeds MaxInt) and whatever follows the written bytes: reading
    succeeds, consumes exactly the written bytes, and yields the normal form of [v] ([norm2]: a
    non-optional float/double field holding -0.0 comes back as +0.0, nothing else changes).
    No bound on schema size, value size or depth. *)
Theorem C03_roundtrip : forall s x, wf2 s x = true ->
  forall v t b fuel rest, enc2 s x t false v = Some b -> (vdepth v <= fuel)%nat ->
    dec2 fuel s x t (b ++ rest) = Some (Ok (norm2 s x t false v, rest)).
Proof. exact enc2_dec2. Qed.
Print Assumptions C03_roundtrip.

(** ... and writing what was read yields identical bytes (in every position, optional or not) *)
Theorem C03_rewrite_identical : forall s x, wf2 s x = true ->
  forall v t ze b, enc2 s x t ze v = Some b -> enc2 s x t ze (norm2 s x t ze v) = Some b.
Proof. intros s x Hwf v. exact (enc2_norm_all s x Hwf v). Qed.
Print Assumptions C03_rewrite_identical.

(** the two together, in the words of the property *)
Theorem C03_write_read_write : forall s x, wf2 s x = true ->
  forall v t b fuel rest, enc2 s x t false v = Some b -> (vdepth v <= fuel)%nat ->
    exists v', dec2 fuel s x t (b ++ rest) = Some (Ok (v', rest)) /\ enc2 s x t false v' = Some b.
Proof.
  intros s x Hwf v t b fuel rest H Hd. exists (norm2 s x t false v). split.
  - exact (enc2_dec2 s x Hwf v t b fuel rest H Hd).
  - exact (enc2_norm_all s x Hwf v t false b H).
Qed.
Print Assumptions C03_write_read_write.

(** a written object occupies at least one byte (a reader never loops on a vector of them) *)
Theorem C03_written_nonempty : forall s x v t b, enc2 s x t false v = Some b -> b <> [].
Proof. exact enc2_false_nonempty. Qed.
Print Assumptions C03_written_nonempty.

(** schemas without float/double: the reader returns exactly the value that was written *)
Theorem C03_exact_without_floats : forall s x, wf2 s x = true -> no_float s = true ->
  forall v t b fuel rest, enc2 s x t false v = Some b -> (vdepth v <= fuel)%nat ->
    dec2 fuel s x t (b ++ rest) = Some (Ok (v, rest)).
Proof.
  intros s x Hwf Hnf v t b fuel rest H Hd.
  pose proof (enc2_dec2 s x Hwf v t b fuel rest H Hd) as H1.
  now rewrite (norm2_no_float s x Hnf v t false) in H1.
Qed.
Print Assumptions C03_exact_without_floats.

(** The full statement ("for every accepted schema writing never fails") is FALSE: the kernel
    accepts [l.cons head:int tail:l.List = l.List; l.nil = l.List; l.box x:l.List = l.Box], whose
    default object is infinite (the first variant contains the union again) -- [wf2] excludes
    it, and the generated writer (EnsureRecursive) does not terminate on a freshly created / Reset
    l.box: fatal stack overflow (replayed by the check's probe unit). *)
Definition reclist_schema : schema :=
  [ TPrim PInt;                                                         (* 0 *)
    TUnion [2%nat; 3%nat];                                              (* 1: l.List *)
    TStruct 1 [mkField 0 true None []; mkField 1 false None []];        (* 2: l.cons head tail *)
    TStruct 2 [];                                                       (* 3: l.nil *)
    TStruct 3 [mkField 1 false None []] ].                              (* 4: l.box x *)
Definition reclist_x : tl2x := mkX (fun _ => false) (fun _ _ => false) (fun t => if Nat.eqb t 3 then 1 else 0).

Theorem C03_refuted_infinite_default :
  wf_schema reclist_schema = true /\ wf2 reclist_schema reclist_x = false /\
  forall fuel, default2 fuel reclist_schema 1 = None /\ default2 fuel reclist_schema 4 = None.
Proof.
  split; [vm_compute; reflexivity|]. split; [vm_compute; reflexivity|].
  assert (H1 : forall fuel, default2 fuel reclist_schema 1 = None).
  { induction fuel as [|f IH]; [reflexivity|].
    cbn [default2 nth_error reclist_schema default_fields masked f_mask f_ty bind_opt]. rewrite IH.
    destruct (default2 f reclist_schema 0); reflexivity. }
  intros fuel. split; [apply H1|].
  destruct fuel as [|f]; [reflexivity|].
  cbn [default2 nth_error reclist_schema default_fields masked f_mask f_ty bind_opt]. now rewrite H1.
Qed.
Print Assumptions C03_refuted_infinite_default.

(** Non-vacuity: field masks (a bit field, a masked int), a union, a fixed tuple, a dictionary,
    an alias, more than 7 fields (second presence block), trailing-zero trimming. *)
Definition ex_schema : schema :=
  [ TPrim PNat;                                                        (* 0 *)
    TPrim PString;                                                     (* 1 *)
    TStruct 100 [];                                                    (* 2: true *)
    TArray (ATupleFixed 2) (mkField 0 true None []);                   (* 3 *)
    TStruct 21 []; TStruct 22 [mkField 1 true None []];                (* 4, 5: variants *)
    TUnion [4%nat; 5%nat];                                             (* 6 *)
    TStruct 31 [mkField 1 true None []; mkField 0 true None []];       (* 7: key:string value:# *)
    TDict PString (mkField 7 true None []);                            (* 8 *)
    TStruct 40 [mkField 8 true None []];                               (* 9: alias of the dictionary *)
    TPrim PFloat;                                                      (* 10 *)
    TStruct 41 [mkField 0 true None []; mkField 2 true (Some (NField 0, 0)) []; mkField 0 true (Some (NField 0, 1)) [];
                mkField 6 false None []; mkField 3 true None []; mkField 9 true None []; mkField 10 true None [];
                mkField 1 true None []; mkField 0 true None []; mkField 1 true None []] ].   (* 11 *)
Definition ex_x : tl2x :=
  mkX (fun t => Nat.eqb t 9) (fun t i => Nat.eqb t 11 && Nat.eqb i 1) (fun t => if Nat.eqb t 5 then 1 else 0).
Definition ex_value : value :=
  VStruct [Some (VNum 3); Some (VStruct []); Some (VNum 7); Some (VUnion 1 [Some (VStr [104; 105])]);
           Some (VArr [VNum 1; VNum 0]);
           Some (VStruct [Some (VArr [VStruct [Some (VStr [97]); Some (VNum 1)]; VStruct [Some (VStr [98]); Some (VNum 0)]])]);
           Some (VNum 2147483648); Some (VStr []); Some (VNum 9); Some (VStr [])].

Example C03_ex_wf : wf2 ex_schema ex_x = true.
Proof. vm_compute. reflexivity. Qed.
Example C03_ex_roundtrip :
  match enc2 ex_schema ex_x 11 false ex_value with
  | Some b => dec2 20 ex_schema ex_x 11 (b ++ [7; 7]) = Some (Ok (norm2 ex_schema ex_x 11 false ex_value, [7; 7]))
              /\ norm2 ex_schema ex_x 11 false ex_value <> ex_value /\ lenN b = 45
  | None => False
  end.
Proof. vm_compute. repeat split; try reflexivity. intros E; inversion E. Qed.
