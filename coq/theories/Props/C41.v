(** C41 -- Ordered tree map and circular slice match reference containers
    (/repo/internal/vkgo/pkg/algo/tree_map.go, circular_slice.go).
    Property theorems only; each is closed by [exact] of a lemma from Algo/AlgoTreeProofs.v or
    Algo/AlgoRingProofs.v and followed by [Print Assumptions].  The model (Algo/AlgoModel.v) is
    tied to the Go code by T-const (the height given to a new node) and by corr:C41:algo. *)
From Coq Require Import ZArith List.
From TLV Require Import Algo.AlgoModel Algo.AlgoTreeProofs Algo.AlgoRingProofs.
Import ListNotations.
Open Scope Z_scope.

(* ------------------------------------------------------------------------- *)
(** * Tree map *)

(** Every history of Set / Delete / assignment through GetPtr / Get / Front / Back / Empty /
    LenMoreThan1 from the empty map: the tree code never panics (no nil dereference in a
    rotation, no "invariant violated"), every observation is the one a sorted association list
    gives (Front/Back on an empty map: the documented panic on both sides), the in-order
    contents are that list, keys are strictly increasing (BST order), and the balance
    invariant on cached heights holds. *)
Theorem C41_tree_refines_sorted_map : forall (V : Type) (ops : list (top V)),
  exists t obs, tree_run go_new_height Leaf ops = Some (t, obs) /\
                ref_run [] ops = (abs t, obs) /\ sorted (abs t) /\ avl_cached go_new_height t.
Proof. exact tree_refines_sorted_map. Qed.
Print Assumptions C41_tree_refines_sorted_map.

Theorem C41_tree_bst : forall (V : Type) (t : tree V), reachable go_new_height t -> sorted (abs t).
Proof. exact tree_bst. Qed.
Print Assumptions C41_tree_bst.

(** The reference is an ordered map: lookup after update / removal, smallest / largest entry. *)
Theorem C41_ref_find_after_set : forall (V : Type) (m : list (Z * V)) k v k',
  al_find (al_set m k v) k' = if k' =? k then Some v else al_find m k'.
Proof. exact al_find_set. Qed.
Print Assumptions C41_ref_find_after_set.

Theorem C41_ref_find_after_del : forall (V : Type) (m : list (Z * V)) k k', sorted m ->
  al_find (al_del m k) k' = if k' =? k then None else al_find m k'.
Proof. exact al_find_del. Qed.
Print Assumptions C41_ref_find_after_del.

Theorem C41_ref_find_is_membership : forall (V : Type) (m : list (Z * V)) k v, sorted m ->
  (al_find m k = Some v <-> In (k, v) m).
Proof. exact al_find_in. Qed.
Print Assumptions C41_ref_find_is_membership.

Theorem C41_ref_front_is_min : forall (V : Type) (m : list (Z * V)) e, sorted m -> hd_error m = Some e ->
  In e m /\ forall e', In e' m -> fst e <= fst e'.
Proof. exact al_front_min. Qed.
Print Assumptions C41_ref_front_is_min.

Theorem C41_ref_back_is_max : forall (V : Type) (m : list (Z * V)) e, sorted m -> al_last m = Some e ->
  In e m /\ forall e', In e' m -> fst e' <= fst e.
Proof. exact al_back_max. Qed.
Print Assumptions C41_ref_back_is_max.

Theorem C41_ref_stays_sorted : forall (V : Type) (m : list (Z * V)) k v, sorted m ->
  sorted (al_set m k v) /\ sorted (al_del m k).
Proof. intros V m k v H. split; [exact (al_set_sorted V m k v H)|exact (al_del_sorted V m k H)]. Qed.
Print Assumptions C41_ref_stays_sorted.

Theorem C41_tree_size_is_length : forall (V : Type) (t : tree V), size t = Z.of_nat (length (abs t)).
Proof. exact size_abs. Qed.
Print Assumptions C41_tree_size_is_length.

(** Balance.  FULL STATEMENT of the design (strict AVL):
      forall t, reachable go_new_height t -> true_balance_le 1 t /\ heights_exact t.
    It is FALSE of the faithful model: [insert] gives a new node the cached height 0, the same
    as nil, so a node with a single fresh child looks balanced (finding F10). *)
Theorem C41_avl_refuted : go_new_height = 0 ->
  exists (ops : list (top Z)) t obs,
    tree_run go_new_height Leaf ops = Some (t, obs) /\ ~ true_balance_le 1 t.
Proof. exact avl_refuted. Qed.
Print Assumptions C41_avl_refuted.

(** What the code does maintain: the AVL conditions on the *cached* heights, where a childless
    node may still carry the height it was created with ... *)
Theorem C41_tree_cached_balance : forall (V : Type) (t : tree V),
  reachable go_new_height t -> avl_cached go_new_height t.
Proof. exact tree_cached_balance. Qed.
Print Assumptions C41_tree_cached_balance.

(** ... hence true heights of siblings differ by at most [2 - go_new_height] (2 for the
    current code, 1 = AVL as soon as new nodes get height 1) ... *)
Theorem C41_tree_true_balance : forall (V : Type) (t : tree V),
  reachable go_new_height t -> true_balance_le (2 - go_new_height) t.
Proof. exact tree_true_balance. Qed.
Print Assumptions C41_tree_true_balance.

(** ... and heights stay logarithmic: true height <= 2 log2 (n + 1) + 2; the cached height is
    the true height or one less. *)
Theorem C41_height_logarithmic : forall (V : Type) (t : tree V),
  reachable go_new_height t ->
  2 ^ ((theight t - 1) / 2) <= size t + 1 /\ 2 ^ (getHeight t / 2) <= size t + 1 /\
  getHeight t <= theight t <= getHeight t + 1.
Proof. exact tree_height_log. Qed.
Print Assumptions C41_height_logarithmic.

(** The one-line repair [n.height = 1] gives a strict AVL tree with exact cached heights. *)
Theorem C41_repaired_is_avl : forall (V : Type) (t : tree V),
  reachable 1 t -> true_balance_le 1 t /\ heights_exact t /\ sorted (abs t).
Proof. exact repaired_is_avl. Qed.
Print Assumptions C41_repaired_is_avl.

(* ------------------------------------------------------------------------- *)
(** * Circular slice *)

(** Every history of PushBack / PopFront / Front / Index / Reserve / Clear / Swap / DeepAssign /
    Len,Cap / Slices on two slices starting empty: no internal panic ("invariant violated in
    Reserve / PushBack", index or slice bounds), the invariant holds (positions in range, unused
    slots zeroed), contents are the FIFO lists and every observation matches the FIFO's
    ([obs_match]: PopFront/Front on empty and negative index panic as documented; an index
    past the length either panics or -- the incomplete check -- returns the zero value). *)
Theorem C41_ring_refines_fifo : forall (T : Type) (zero : T) (ops : list (rop T)),
  exists st obs,
    ring_run zero (empty_ring T, empty_ring T) ops = Ok (st, obs) /\
    ring_inv zero (fst st) /\ ring_inv zero (snd st) /\
    fst (fifo_run ([], []) ops) = (rabs (fst st), rabs (snd st)) /\
    Forall2 (obs_match zero) (snd (fifo_run ([], []) ops)) obs.
Proof. exact ring_refines_fifo. Qed.
Print Assumptions C41_ring_refines_fifo.

Theorem C41_ring_panics_unreachable : forall (T : Type) (zero : T) (ops : list (rop T)) p,
  ring_run zero (empty_ring T, empty_ring T) ops <> Panic p.
Proof. exact ring_no_internal_panic. Qed.
Print Assumptions C41_ring_panics_unreachable.

(** Per operation, under the invariant. *)
Theorem C41_ring_operations : forall (T : Type) (zero : T) (s : ring T), ring_inv zero s ->
  (forall x, exists s', PushBack zero s x = Ok s' /\ ring_inv zero s' /\ rabs s' = rabs s ++ [x]) /\
  (forall n, exists s', Reserve zero s n = Ok s' /\ ring_inv zero s' /\ rabs s' = rabs s /\
                        lenZ (elements s') = Z.max n (lenZ (elements s))) /\
  (exists s', Clear zero s = Ok s' /\ ring_inv zero s' /\ rabs s' = [] /\
              lenZ (elements s') = lenZ (elements s)) /\
  (exists s1 s2, Slices s = Ok (s1, s2) /\ s1 ++ s2 = rabs s) /\
  match rabs s with
  | [] => PopFront zero s = Panic PEmpty /\ Front s = Panic PEmpty
  | x :: q => Front s = Ok x /\
              exists s', PopFront zero s = Ok (s', x) /\ ring_inv zero s' /\ rabs s' = q
  end /\
  (forall pos, pos < 0 -> Index s pos = Panic PIndexNeg) /\
  (forall pos x, 0 <= pos -> nth_error (rabs s) (Z.to_nat pos) = Some x -> Index s pos = Ok x) /\
  (forall pos, lenZ (rabs s) <= pos -> Index s pos = Panic PIndexRange \/ Index s pos = Ok zero).
Proof. exact ring_ops_safe. Qed.
Print Assumptions C41_ring_operations.

(** FULL STATEMENT one would want for Index: [lenZ (rabs s) <= pos -> Index s pos = Panic PIndexRange].
    It is FALSE of the faithful model (and of the Go code): after one PushBack, Index(1) returns
    the zero value of an unused slot. *)
Theorem C41_index_bounds_refuted :
  exists (ops : list (rop Z)) st obs,
    ring_run 0 (empty_ring Z, empty_ring Z) ops = Ok (st, obs) /\
    lenZ (rabs (fst st)) = 1 /\ Index (fst st) 1 = Ok 0.
Proof. exact index_bounds_refuted. Qed.
Print Assumptions C41_index_bounds_refuted.

(* ------------------------------------------------------------------------- *)
(** * Non-vacuity: the statements compute on concrete histories *)

Example C41_ex_f10_shape :
  tree_run 0 Leaf [TSet 3 10; TSet 2 20; TSet 1 30; TFront; TBack; TGet 2; TMore1] =
  Some (Node (Node (Node Leaf 1 30 0 Leaf) 2 20 1 Leaf) 3 10 2 Leaf,
        [OUnit; OUnit; OUnit; OEntry (Some (1, 30)); OEntry (Some (3, 10)); OVal (Some 20); OBool true]).
Proof. vm_compute. reflexivity. Qed.

Example C41_ex_repaired_shape :
  tree_run 1 Leaf [TSet 3 10; TSet 2 20; TSet 1 30] =
  Some (Node (Node Leaf 1 30 1 Leaf) 2 20 2 (Node Leaf 3 10 1 Leaf), [@OUnit Z; OUnit; OUnit]).
Proof. vm_compute. reflexivity. Qed.

Example C41_ex_delete_two_children :
  exists t, tree_run 0 Leaf [TSet 4 0; TSet 2 0; TSet 6 0; TSet 1 0; TSet 3 0; TSet 5 0; TSet 7 0; TDel 4; TDel 9; TUpd 5 55; TUpd 4 44]
            = Some (t, [OUnit; OUnit; OUnit; OUnit; OUnit; OUnit; OUnit; OUnit; OUnit; OBool true; OBool false])
            /\ abs t = [(1, 0); (2, 0); (3, 0); (5, 55); (6, 0); (7, 0)].
Proof. eexists. split; vm_compute; reflexivity. Qed.

Example C41_ex_ring_wraps :
  exists st, ring_run 0 (empty_ring Z, empty_ring Z)
               [RReserve 3; RPush 1; RPush 2; RPush 3; RPop; RPush 4; RSlices; RIndex 2; RIndex 3; RPush 5; RLenCap]
             = Ok (st, [RUnit; RUnit; RUnit; RUnit; RVal 1; RUnit; RSl [2; 3] [4]; RVal 4; RMisuse PIndexRange; RUnit; RLC 4 8])
             /\ elements (fst st) = [2; 3; 4; 5; 0; 0; 0; 0].
Proof. eexists. split; vm_compute; reflexivity. Qed.
