(** C13 -- TL2 readers tolerate schema evolution and non-minimal encodings.  Property theorems only.
    [R s x t ze v b] (Tl2/Tl2Relax.v): [b] is an admissible encoding of the object state [v] of type
    [t] -- defined by recursion on [v], so that every choice below is made independently at every
    nesting level ("closure under sequences" of re-encodings is built in):
    either spelling of every size (object size, variant index, element count, string length: the
    1/3-byte form or the 9-byte form); a non-optional field written although it holds the default;
    presence blocks written although zero (no trimming), or trimmed; an explicit variant index 0;
    presence bits and bytes of unknown (newer) fields after the last known field of an object; bytes
    after the last element of an array; trailing default elements of a fixed tuple cut; any non-zero
    byte for true. *)
From TLV Require Import Prim.PrimModel Tl1.Tl1Model Tl1.Tl1Proofs Tl2.Tl2Model Tl2.Tl2Blocks Tl2.Tl2Proofs Tl2.Tl2Relax.
Open Scope N_scope.

(** every admissible encoding is read as the (normal form of the) value, consuming exactly it *)
Theorem C13_admissible_reencoding : forall s x, wf2 s x = true ->
  forall v t b' fuel rest, R s x t false v b' -> (vdepth v <= fuel)%nat ->
    dec2 fuel s x t (b' ++ rest) = Some (Ok (norm2 s x t false v, rest)).
Proof. intros s x Hwf v t b' fuel rest H Hd. exact (proj2 (R_dec_all s x Hwf v t false b' H) fuel rest Hd). Qed.
Print Assumptions C13_admissible_reencoding.

(** what the generated writer produces is admissible ... *)
Theorem C13_canonical_is_admissible : forall s x, wf2 s x = true ->
  forall v t b, enc2 s x t false v = Some b -> R s x t false v b.
Proof.
  intros s x Hwf v t b H. exact (enc2_R_all s x Hwf v t false b H (enc2_false_nonempty s x v t b H)).
Qed.
Print Assumptions C13_canonical_is_admissible.

(** ... hence every admissible re-encoding decodes to the same value as the minimal encoding *)
Theorem C13_same_value_as_minimal : forall s x, wf2 s x = true ->
  forall v t b b' fuel rest, enc2 s x t false v = Some b -> R s x t false v b' -> (vdepth v <= fuel)%nat ->
    dec2 fuel s x t (b' ++ rest) = dec2 fuel s x t (b ++ rest).
Proof.
  intros s x Hwf v t b b' fuel rest H H' Hd.
  rewrite (C13_admissible_reencoding s x Hwf v t b' fuel rest H' Hd).
  now rewrite (enc2_dec2 s x Hwf v t b fuel rest H Hd).
Qed.
Print Assumptions C13_same_value_as_minimal.

(** instance: the size prefix of any object / array may be spelled in the 9-byte form *)
Theorem C13_any_size_spelling : forall s x, wf2 s x = true ->
  forall v t b fuel rest, sized_type s x t = true -> enc2 s x t false v = Some b -> (vdepth v <= fuel)%nat ->
    exists sb body, b = sb ++ body /\ size_enc (lenN body) sb /\
      dec2 fuel s x t ((hugeStringMarker :: le_bytes 8 (lenN body)) ++ body ++ rest) = dec2 fuel s x t (b ++ rest).
Proof.
  intros s x Hwf v t b fuel rest Ht H Hd.
  destruct (R_sized_swap s x t false v b (C13_canonical_is_admissible s x Hwf v t b H) Ht) as (sb & body & -> & Hs & Hsw).
  exists sb, body. split; [reflexivity|]. split; [exact Hs|].
  rewrite app_assoc.
  apply (C13_same_value_as_minimal s x Hwf v t (sb ++ body) _ fuel rest H); [|exact Hd].
  apply Hsw. destruct Hs as [Hn _]. split; [exact Hn|now right].
Qed.
Print Assumptions C13_any_size_spelling.

(** an object whose declared size exceeds the remaining input is rejected *)
Theorem C13_oversize_rejected : forall s x t b n r fuel,
  sized_type s x t = true -> size2_r b = Ok (n, r) -> lenN r < n -> dec2 (S fuel) s x t b = Some Reject.
Proof. exact oversize_rejected. Qed.
Print Assumptions C13_oversize_rejected.

(** fields missing at the end of a body are empty; in the extreme, size 0 is the default object *)
Theorem C13_empty_object_is_default : forall s x t sb rest fuel d,
  match nth_error s t with
  | Some (TStruct _ _) => x_alias x t = false
  | Some (TUnion _) => True
  | _ => False
  end ->
  size_enc 0 sb -> dflt s t = Some d -> dec2 (S fuel) s x t (sb ++ rest) = Some (Ok (d, rest)).
Proof. exact empty_object_default. Qed.
Print Assumptions C13_empty_object_is_default.

(** Schema evolution: [tnew] = the struct [told] with fields appended (same schema table, the
    common fields have the same types).  What the generated writer of [tnew] writes is read by the
    generated reader of [told] -- the unknown presence bits, blocks and payloads are skipped -- as
    the value without the appended fields.
    NOT PROVED (hence _partial): simultaneous extension of several nested struct types (the old
    and the new field types are then different instances) and of union variants; the check
    exercises those with pairs of freshly generated Go packages and the model under the old schema. *)
Theorem C13_old_reader_new_writer_partial : forall s x, wf2 s x = true ->
  forall told tnew tag tag' fds ext fs fs' b fuel rest,
    nth_error s told = Some (TStruct tag fds) -> nth_error s tnew = Some (TStruct tag' (fds ++ ext)) ->
    x_alias x told = false -> x_alias x tnew = false -> x_uidx x told = x_uidx x tnew ->
    (forall i, (i < length fds)%nat -> x_bit x told i = x_bit x tnew i) ->
    length fs = length fds ->
    enc2 s x tnew false (VStruct (fs ++ fs')) = Some b -> (vdepth (VStruct fs) <= fuel)%nat ->
    dec2 fuel s x told (b ++ rest)
      = Some (Ok (VStruct (norm_fields (fun t' ze' v' => norm2 s x t' ze' v') fds fs), rest)) /\
    exists fs2, norm2 s x tnew false (VStruct (fs ++ fs'))
                = VStruct (norm_fields (fun t' ze' v' => norm2 s x t' ze' v') fds fs ++ fs2).
Proof. intros s x Hwf. exact (old_reader_new_writer s x Hwf). Qed.
Print Assumptions C13_old_reader_new_writer_partial.

(** Reader level, in full generality: after the fields the reader knows, anything may follow in
    the body -- unknown presence bits in the last known block, further blocks, their payloads
    ([gcode]'s [gc_done]); and a body may stop after any block when all later fields are absent
    ([gc_cut]: fields missing at the end are empty). *)
Theorem C13_unknown_tail_ignored :
  forall rec dfl empt get oi idx fds bitf items nvs body,
    items_ok rec dfl empt bitf 0 fds items nvs ->
    get oi = Some (idx, fds, bitf) ->
    bcode oi (firstn 7 items) (chunk8 (length (skipn 7 items)) (skipn 7 items)) body ->
    dec_body rec dfl empt get body = Some (Ok (idx, nvs)).
Proof. intros. eapply body_rt; eauto. Qed.
Print Assumptions C13_unknown_tail_ignored.

(** Non-vacuity: one value, its minimal encoding and a re-encoding using a 9-byte object size, an
    explicitly written default field, a second (zero) presence block, an unknown field after the
    known ones, a 9-byte element count and junk after the last array element. *)
Definition ex_schema : schema :=
  [ TPrim PNat; TPrim PString;
    TArray AVector (mkField 0 true None []);                                  (* 2 *)
    TStruct 41 [mkField 0 true None []; mkField 1 true None []; mkField 2 true None []] ].   (* 3 *)
Definition ex_x : tl2x := mkX (fun _ => false) (fun _ _ => false) (fun _ => 0).
Definition ex_value : value := VStruct [Some (VNum 0); Some (VStr [104]); Some (VArr [VNum 5])].
Definition ex_minimal : bytes := [9; 12; 1; 104; 5; 1; 5; 0; 0; 0].
Definition ex_reencoded : bytes :=
  [255; 35; 0; 0; 0; 0; 0; 0; 0;            (* object size 35, 9-byte form *)
   30;                                      (* block: fields 0 (explicit default), 1, 2 and an unknown field (bit 4) *)
   0; 0; 0; 0;                              (* field 0 = 0 written explicitly *)
   255; 1; 0; 0; 0; 0; 0; 0; 0; 104;        (* string, 9-byte length *)
   15; 255; 1; 0; 0; 0; 0; 0; 0; 0; 5; 0; 0; 0; 9; 9;   (* vector: size 15, count in 9-byte form, element, junk *)
   1; 2; 3; 4].                             (* bytes of the unknown field *)

Example C13_ex :
  wf2 ex_schema ex_x = true /\
  enc2 ex_schema ex_x 3 false ex_value = Some ex_minimal /\
  dec2 9 ex_schema ex_x 3 (ex_reencoded ++ [7]) = dec2 9 ex_schema ex_x 3 (ex_minimal ++ [7]) /\
  dec2 9 ex_schema ex_x 3 (ex_minimal ++ [7]) = Some (Ok (ex_value, [7])) /\
  dec2 9 ex_schema ex_x 3 [10; 12; 1; 104; 5; 1; 5; 0; 0; 0] = Some Reject.
Proof. vm_compute. repeat split; reflexivity. Qed.
