(** C13 -- placeholder while the pipeline is being built; replaced by the property theorems. *)
From TLV Require Import Tl2.Tl2Model.
Example C13_placeholder : wf2 [] (mkX (fun _ => false) (fun _ _ => false) (fun _ => 0%N)) = true.
Proof. reflexivity. Qed.
