(** C20 -- TL2 parser is total with in-range error positions.
    Property theorems only; each is closed by [exact] of a lemma of Lex/LexProofs.v and followed
    by [Print Assumptions].  The lexer model (Lex/LexModel.v) is a case-by-case transcription of
    internal/tlast/tllexer.go with LexerLanguage = TL2 (AllowBuiltin / AllowDirty arbitrary); it is
    compared token by token with the Go lexer on every run (corr:C20:lex).

    What is proved, for ALL byte strings [s] (no length bound):
    - the tokenizer never panics (no slice/index out of range) and fuel |s|+1 is never exhausted;
    - recombination: the values of l.tokens followed by the unread rest are exactly [s]
      (the check whose violation makes ParseTL2File call log.Panicf);
    - progress: every nextToken call consumes at least one byte; the only empty token is the final eof;
    - positions: every token's Position is the true (line, column, startLineOffset, offset) of the byte
      where the token starts, and offset + len(val) <= len(s);
    - the front end of ParseTL2File never panics; a tokenizer error carries positions inside the text
      for which ParseError.consolePrint slices nothing out of range (anyCorrupted stays false).

    Parser proper (tlparser_tl2_code.go): transcribed function by function, reduced to its control flow
    (OptionalState bookkeeping, named results and deferred resets included), in Lex/LexParse2Model.v
    ([parseTL2File] = tokenizer + [parseTokens2]); the model is compared with the real ParseTL2File on every
    run (corr:C20:lex, field PM: ok / error class, outer, begin and end position).
    Proved for ALL inputs ([C20_parser_total]): the parser model terminates within its structural fuel
    (10 * (tokens + 2); every recursive call or loop iteration happens after a consumed token or goes down
    the acyclic order Type -> TypeApplication / BracketType, TypeArgument -> Type of non-consuming calls),
    never reaches one of the panic sites of the Go code (tokenIterator.front/popFront out of range -- eof is
    only popped by the final expectLazy(eof) --, log.Panicf in skipWS, val[1:] on an empty value,
    value[:dotIndex] with dotIndex = -1, the "unexpected token in whitespace" panic and the fileContent[a:b]
    slices of parseCommentBefore / parseCommentRight), and every error it records is located at a token of
    the input with the first token of the combinator as outer context, hence lies inside the text and is
    printed by consolePrint without any out-of-range slice.
    The AST construction is outside the model; for it the implementation-side oracle applies (recover(),
    error offsets, ConsolePrint/Error() do not panic).
    [C20_admissible_error_in_range] is the same in-range statement for the abstract error model
    [admissibleErr]. *)
From Coq Require Import List NArith ZArith.
From TLV Require Import Lex.LexModel Lex.LexProofs Lex.LexParse1Model Lex.LexParse2Model Lex.LexParse2Proofs Lex.LexParse2Fuel.
Import ListNotations.
Open Scope N_scope.

Definition opt (builtin dirty : bool) : opts := mkOpts builtin dirty TL2.

Theorem C20_lex_total : forall builtin dirty s, exists r, generateTokens (opt builtin dirty) s = Ok r.
Proof. exact (fun b d => lex_total (opt b d)). Qed.
Print Assumptions C20_lex_total.

Theorem C20_lex_recombine : forall builtin dirty s r,
  generateTokens (opt builtin dirty) s = Ok r -> concat (map t_val (r_all r)) ++ r_rest r = s.
Proof. exact (fun b d => lex_recombine (opt b d)). Qed.
Print Assumptions C20_lex_recombine.

Theorem C20_lex_progress : forall builtin dirty s,
  good s (newLexer s) /\
  forall st, good s st -> l_str st <> [] ->
    exists st' e, nextToken (opt builtin dirty) st = Some (st', e) /\ good s st' /\
                  (length (l_str st') < length (l_str st))%nat.
Proof. exact (fun b d => lex_progress (opt b d)). Qed.
Print Assumptions C20_lex_progress.

Theorem C20_lex_only_eof_empty : forall builtin dirty s r a t b,
  generateTokens (opt builtin dirty) s = Ok r -> r_all r = a ++ t :: b -> t_val t = [] ->
  b = [] /\ t_type t = T_eof /\ r_rest r = [].
Proof. exact (fun b d => lex_only_eof_empty (opt b d)). Qed.
Print Assumptions C20_lex_only_eof_empty.

Theorem C20_lex_pos_ok : forall builtin dirty s r a t b,
  generateTokens (opt builtin dirty) s = Ok r -> r_all r = a ++ t :: b ->
  t_pos t = pos_spec (vals a) /\
  p_off (t_pos t) = lenN (vals a) /\
  p_off (t_pos t) + lenN (t_val t) <= lenN s /\
  p_slo (t_pos t) <= p_off (t_pos t) /\
  p_col (t_pos t) = p_off (t_pos t) - p_slo (t_pos t) + 1 /\
  p_line (t_pos t) = 1 + count10 (vals a) /\
  exists post, s = vals a ++ t_val t ++ post.
Proof. exact (fun b d => lex_pos_ok (opt b d)). Qed.
Print Assumptions C20_lex_pos_ok.

Theorem C20_front_total : forall builtin dirty s,
  (exists e, parseFront (opt builtin dirty) s = Ok (F_tokerr e)) \/
  (exists toks, parseFront (opt builtin dirty) s = Ok (F_tokens toks)).
Proof. exact (fun b d => front_total (opt b d)). Qed.
Print Assumptions C20_front_total.

Theorem C20_front_tokens_end_with_eof : forall builtin dirty s toks,
  parseFront (opt builtin dirty) s = Ok (F_tokens toks) ->
  exists init p, toks = init ++ [mkTok T_eof [] p] /\ Forall (fun t => t_val t <> []) init /\ vals toks = s.
Proof. exact (fun b d => front_tokens_end_with_eof (opt b d)). Qed.
Print Assumptions C20_front_tokens_end_with_eof.

Theorem C20_tokenizer_error_in_range : forall builtin dirty s e,
  parseFront (opt builtin dirty) s = Ok (F_tokerr e) ->
  errCorrupted (lenN s) e = false /\
  p_off (e_begin e) <= p_off (e_end e) <= lenN s /\
  p_off (e_outer e) <= p_off (e_begin e) /\
  (exists pre, e_begin e = pos_spec pre /\ exists post, s = pre ++ t_val (e_tok e) ++ post) /\
  (exists pre, e_outer e = pos_spec pre /\ exists post, s = pre ++ post).
Proof. exact (fun b d => tokenizer_error_in_range (opt b d)). Qed.
Print Assumptions C20_tokenizer_error_in_range.

(** the abstract error model: any error located at a token with an earlier-or-equal token as outer context is in
    range (used by the parser theorem above; also what the implementation-side oracle checks on Go's own errors) *)
Theorem C20_admissible_error_in_range : forall builtin dirty s toks e,
  parseFront (opt builtin dirty) s = Ok (F_tokens toks) -> admissibleErr toks e ->
  errCorrupted (lenN s) e = false /\
  p_off (e_begin e) <= p_off (e_end e) <= lenN s /\
  p_off (e_outer e) <= p_off (e_begin e) /\
  (exists pre, e_begin e = pos_spec pre /\ exists post, s = pre ++ t_val (e_tok e) ++ post) /\
  (exists pre, e_outer e = pos_spec pre /\ exists post, s = pre ++ post).
Proof. exact (fun b d => parser_error_in_range (opt b d)). Qed.
Print Assumptions C20_admissible_error_in_range.

(** tokenizer + transcribed parser: terminates within the fuel, no panic site reachable, every error in range *)
Theorem C20_parser_total : forall builtin dirty s,
  match parseTL2File (opt builtin dirty) s with
  | PR_ok => True
  | PR_err _ e =>
      errCorrupted (lenN s) e = false /\
      p_off (e_begin e) <= p_off (e_end e) <= lenN s /\
      p_off (e_outer e) <= p_off (e_begin e) /\
      (exists pre, e_begin e = pos_spec pre /\ exists post, s = pre ++ t_val (e_tok e) ++ post) /\
      (exists pre, e_outer e = pos_spec pre /\ exists post, s = pre ++ post)
  | PR_panic => False
  | PR_nofuel => False
  end.
Proof. exact (fun b d => parseTL2File_total (opt b d)). Qed.
Print Assumptions C20_parser_total.

(** Non-vacuity: the model really tokenizes, reports errors, and the hypotheses are satisfiable. *)
(* "a#1a2b3c4d <=> _x:Type;\r\n" *)
Definition sample : list N :=
  [97; 35; 49; 97; 50; 98; 51; 99; 52; 100; 32; 60; 61; 62; 32; 95; 120; 58; 84; 121; 112; 101; 59; 13; 10].

Example ex_tokens :
  match generateTokens (opt false false) sample with
  | Ok r => map (fun t => (t_type t, lenN (t_val t), p_line (t_pos t), p_col (t_pos t), p_off (t_pos t))) (r_toks r)
  | _ => []
  end =
  [(T_lcIdent, 1, 1, 1, 0); (T_crc32hash, 9, 1, 2, 1); (32%Z, 1, 1, 11, 10); (T_tl2alias, 3, 1, 12, 11); (32%Z, 1, 1, 15, 14);
   (T_tl2depName, 2, 1, 16, 15); (58%Z, 1, 1, 18, 17); (T_tl2typeSign, 4, 1, 19, 18); (59%Z, 1, 1, 23, 22);
   (T_newLine, 2, 1, 24, 23); (T_eof, 0, 2, 1, 25)].
Proof. vm_compute. reflexivity. Qed.

(* "a\n(" : '(' is lexed, then rejected by validateTokens for TL2; position line 2, column 1, offset 2 *)
Example ex_illegal :
  match parseFront (opt false false) [97; 10; 40] with
  | Ok (F_tokerr e) => Some (e_kind e, p_line (e_begin e), p_col (e_begin e), p_off (e_begin e), p_off (e_end e))
  | _ => None
  end = Some (E_illegalTL2, 2, 1, 2, 3).
Proof. vm_compute. reflexivity. Qed.

(* "\r" alone is an error in both languages *)
Example ex_cr :
  match generateTokens (opt false false) [97; 13; 98] with
  | Ok r => (map (fun t => (t_type t, t_val t)) (r_toks r), option_map e_kind (r_err r), r_rest r)
  | _ => ([], None, [])
  end = ([(T_lcIdent, [97]); (T_undefined, [13])], Some E_cr, [98]).
Proof. vm_compute. reflexivity. Qed.

(* an admissible parser error exists for the sample (error at the ';' token, outer = first token) and the
   conclusion of the partial theorem is not trivially true: a position beyond the text is reported corrupted *)
Example ex_admissible :
  match parseFront (opt false false) sample with
  | Ok (F_tokens toks) =>
      match nth_error toks 0, nth_error toks 8 with
      | Some t0, Some t => admissibleErr toks (mkErr E_undefined t (t_pos t0)) /\ t_val t = [59]
      | _, _ => False
      end
  | _ => False
  end.
Proof. vm_compute. split; [|reflexivity]. exists 8%nat, 0%nat. eexists. repeat split. apply Nat.le_0_l. Qed.

Example ex_corrupted_detects :
  errCorrupted 5 (mkErr E_undefined (mkTok 59%Z [59] (mkPos 1 6 0 5)) (mkPos 1 1 0 0)) = true.
Proof. vm_compute. reflexivity. Qed.


(* the sample parses; a truncated one fails at the eof token with the first token as outer context *)
(* "a = x:int;\n" *)
Definition sample2 : list N := [97; 32; 61; 32; 120; 58; 105; 110; 116; 59; 10].

Example ex_parse_ok : parseTL2File (opt false false) sample2 = PR_ok.
Proof. vm_compute. reflexivity. Qed.

Example ex_parse_err :
  match parseTL2File (opt false false) (firstn 9 sample2) with
  | PR_err false e => Some (e_kind e, t_type (e_tok e), p_off (e_begin e), p_off (e_end e), p_off (e_outer e))
  | _ => None
  end = Some (E2_semicolon, T_eof, 9, 9, 0).
Proof. vm_compute. reflexivity. Qed.

(* "a = x:" ++ "[" * 40 ++ "]" * 40 ++ "int;" : nesting within the fuel budget *)
Example ex_parse_nested :
  parseTL2File (opt false false) ([97; 32; 61; 32; 120; 58] ++ flat_map (fun _ => [91; 93]) (repeat 0 40) ++ [105; 110; 116; 59]) = PR_ok.
Proof. vm_compute. reflexivity. Qed.
