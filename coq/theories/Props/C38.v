(** C38 -- placeholder while the pipeline is brought up *)
From Coq Require Import NArith.
From TLV Require Import Rpc.RpcModel.
Open Scope N_scope.
Example C38_ex_alloc : alloc_qid 1000 = (1001, 1001).
Proof. vm_compute. reflexivity. Qed.
