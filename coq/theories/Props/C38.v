(** C38 -- RPC calls receive exactly their own responses; close drains.  (partial)

    What is PROVED here is the pending-calls logic of pkg/rpc/client_conn.go + client.go, transcribed in
    Rpc/RpcModel.v, composed with an unordered, duplicating network and a server that answers a request
    under the query ID it arrived with: for ALL event lists (arbitrary interleavings of call / write /
    server receive / server reply / client receive / stale packet / cancel / timeout / connect / disconnect /
    ServerWantsFin / Client.Close, subject to causality only).
    What is NOT proved (and therefore only observed by the correspondence runs): goroutine scheduling, sockets,
    timers, the server side of the query-ID plumbing, and the absence of data races.
    Property theorems only; each is closed by [exact] of a lemma of Rpc/RpcProofs.v. *)
From Coq Require Import NArith ZArith List Bool.
From TLV Require Import Rpc.RpcModel Rpc.RpcProofs.
Import ListNotations.
Open Scope N_scope.

(** Query IDs (ClientImpl.GetRequest, incl. the wrap-around of the 64-bit counter and the skipped 0):
    the first 2^62 IDs allocated by a client are non-zero, positive int64 and pairwise distinct. *)
Theorem C38_alloc_distinct : forall n last qs l',
  last < two64 -> N.of_nat n <= 4611686018427387904 ->
  alloc_many n last = (qs, l') ->
  NoDup qs /\ Forall (fun q => q <> 0 /\ q < two63) qs /\ l' < two64.
Proof. exact alloc_distinct. Qed.
Print Assumptions C38_alloc_distinct.

(** own_response: whatever the interleaving, a call [q] that was completed with a handler result or a
    handler error holds the answer computed from the body [b] of its OWN request (the unique call with
    query ID [q] was started with body [b]); all other completions are the call's own local errors. *)
Theorem C38_own_response : forall evs s q o b,
  run sys_init evs = SOk s -> In (q, o) (done s) -> out_body o = Some b ->
  (exists fail, In (ECall q b fail) evs) /\ (forall b' fail', In (ECall q b' fail') evs -> b' = b).
Proof. exact own_response. Qed.
Print Assumptions C38_own_response.

(** complete_once: no call is completed twice, a completed call is not pending, and no started call is lost
    (it is pending or completed). *)
Theorem C38_complete_once : forall evs s, run sys_init evs = SOk s ->
  NoDup (keys (done s)) /\
  (forall q, In q (keys (done s)) -> ~ In q (keys (cs_calls (cl s)))) /\
  (forall q b fail, In (ECall q b fail) evs -> In q (keys (cs_calls (cl s))) \/ In q (keys (done s))).
Proof. exact complete_once. Qed.
Print Assumptions C38_complete_once.

(** a delivered result is never replaced by a later packet (duplicates, stale packets, late responses). *)
Theorem C38_completion_stable : forall e1 e2 s1 s2 q o,
  run sys_init e1 = SOk s1 -> run s1 e2 = SOk s2 -> In (q, o) (done s1) ->
  In (q, o) (done s2) /\ forall o', In (q, o') (done s2) -> o' = o.
Proof. exact completion_stable. Qed.
Print Assumptions C38_completion_stable.

(** close_drains (client): after Client.Close and the next pass of the connection goroutine, no call is
    pending -- then or ever after -- and every call ever started has been completed. *)
Theorem C38_close_drains : forall e1 e2 e3 g ex s,
  run sys_init (e1 ++ ECloseClient :: e2 ++ EDisconnect g ex :: e3) = SOk s ->
  cs_calls (cl s) = [] /\
  forall q b fail, In (ECall q b fail) (e1 ++ ECloseClient :: e2 ++ EDisconnect g ex :: e3) -> In q (keys (done s)).
Proof. exact close_drains. Qed.
Print Assumptions C38_close_drains.

(** close_drains (server / connection loss): after a disconnect no pending call is sent, has
    FailIfNoConnection or an expired deadline; unsent calls stay queued for the next connection (the
    documented life cycle of client.go: they end by their own deadline/cancel if the server never returns). *)
Theorem C38_disconnect_drains_sent : forall evs g ex s,
  run sys_init (evs ++ [EDisconnect g ex]) = SOk s ->
  forall q c, In (q, c) (cs_calls (cl s)) -> c_sent c = false /\ c_fail c = false /\ ~ In q ex.
Proof. exact disconnect_drains_sent. Qed.
Print Assumptions C38_disconnect_drains_sent.

(** none of the "rpc.Client invariant violation" panics (inFlight < 0, double sent) is reachable,
    and inFlight is exactly the number of sent pending calls. *)
Theorem C38_no_panic : forall evs, run sys_init evs <> SPanic.
Proof. exact no_panic. Qed.
Print Assumptions C38_no_panic.

Theorem C38_inflight_exact : forall evs s, run sys_init evs = SOk s ->
  cs_inFlight (cl s) = count_sent (cs_calls (cl s)).
Proof. exact inflight_exact. Qed.
Print Assumptions C38_inflight_exact.

(** recycled Responses: once Do has returned for a call -- with its result, or with ctx.Err() after
    cancelCall + draining the channel -- the result channel of its Response is empty and nothing can be delivered
    to it any more, so a Response taken from the pool never carries another call's result.
    ([rrun]: the events of [run] with doWait's two select cases as separate events.) *)
Theorem C38_pool_clean : forall evs r, rrun rsys_init evs = Some r ->
  forall q, In q (r_ret r) -> ~ In q (r_chan r) /\ ~ In q (keys (cs_calls (cl (r_sys r)))).
Proof. exact pool_clean. Qed.
Print Assumptions C38_pool_clean.

(** soundness of the extracted monitor: a history accepted by [accepts] is a run of the model in which every
    observed answer of a call is that call's completion in the model, carries the body id the call was started
    with (in the history and in the model run), and every observed call returned. *)
Theorem C38_monitor_sound : forall h, accepts h = true ->
  exists evs s, run sys_init evs = SOk s /\
    (forall q k b, In (ODone q k b) h -> k = KOk \/ k = KSrvErr ->
       (exists f t, In (OCall q b f t) h) /\
       (exists o, In (q, o) (done s) /\ outcome_class o = k /\ outcome_body o = b) /\
       (exists fail, In (ECall q b fail) evs)) /\
    (forall q b f t, In (OCall q b f t) h -> exists k b', In (ODone q k b') h).
Proof. exact accepts_sound. Qed.
Print Assumptions C38_monitor_sound.

(** Non-vacuity: concrete runs computed by the kernel. *)
Example C38_ex_alloc_wrap : fst (alloc_many 4 18446744073709551613) = [9223372036854775806; 9223372036854775807; 1; 2].
Proof. vm_compute. reflexivity. Qed.

(* two calls, answers arrive in the opposite order, a duplicate of the first answer arrives late *)
Example C38_ex_run :
  match run sys_init [EConnect; ECall 7 100 false; ECall 8 200 false; EWrite; ESrvRecv 8; ESrvRecv 7;
                      ESrvReply 8 0; ESrvReply 7 1; ECliRecv 8 (ROk 200); ECliRecv 7 (RErr 100);
                      ECliRecv 8 (ROk 200); ECliRecvUnknown 9] with
  | SOk s => done s = [(8, ORespOk 200); (7, OSrvErr 100)] /\ cs_calls (cl s) = [] /\ cs_inFlight (cl s) = 0%Z
  | _ => False
  end.
Proof. vm_compute. auto. Qed.

(* the answer to call 8 cannot be delivered to call 7: the event is not enabled *)
Example C38_ex_causality :
  run sys_init [EConnect; ECall 7 100 false; ECall 8 200 false; EWrite; ESrvRecv 8; ESrvReply 8 0; ECliRecv 7 (ROk 200)] = SDisabled.
Proof. vm_compute. reflexivity. Qed.

(* a query ID cannot be reused *)
Example C38_ex_fresh : run sys_init [ECall 7 100 false; ECall 7 200 false] = SDisabled.
Proof. vm_compute. reflexivity. Qed.

(* close drains: sent -> SideEffect, unsent -> NoSideEffect, later calls -> ErrClientClosed *)
Example C38_ex_close :
  match run sys_init [EConnect; ECall 7 1 false; EWrite; ECall 8 2 false; ECloseClient; EDisconnect true []; ECall 9 3 false] with
  | SOk s => done s = [(7, OClosedSideEffect); (8, OClosedNoSideEffect); (9, OClientClosed)] /\ cs_calls (cl s) = []
  | _ => False
  end.
Proof. vm_compute. auto. Qed.

(* monitor: accepts a real-looking history, rejects the same history with the two answers swapped,
   a call completed twice, and a call that never returns *)
Example C38_ex_monitor_accepts :
  accepts [OCall 7 1 false false; OCall 8 2 false true; OSrv 8 2; OSrv 7 1; ODone 8 KOk 2; ODone 7 KSrvErr 1] = true.
Proof. vm_compute. reflexivity. Qed.
Example C38_ex_monitor_rejects_swap :
  accepts [OCall 7 1 false false; OCall 8 2 false true; OSrv 8 2; OSrv 7 1; ODone 8 KOk 1; ODone 7 KSrvErr 2] = false.
Proof. vm_compute. reflexivity. Qed.
Example C38_ex_monitor_rejects_twice :
  accepts [OCall 7 1 false false; OSrv 7 1; ODone 7 KOk 1; ODone 7 KOk 1] = false.
Proof. vm_compute. reflexivity. Qed.
Example C38_ex_monitor_rejects_lost :
  accepts [OCall 7 1 false false; OCall 8 2 false false; OSrv 7 1; ODone 7 KOk 1] = false.
Proof. vm_compute. reflexivity. Qed.

(* the response arrives, then the context is cancelled and doWait takes the ctx.Done() case: the channel is drained *)
Example C38_ex_cancel_after_delivery :
  match rrun rsys_init [RStep EConnect; RStep (ECall 7 1 false); RStep EWrite; RStep (ESrvRecv 7); RStep (ESrvReply 7 0);
                        RStep (ECliRecv 7 (ROk 1))] with
  | Some r => r_chan r = [7] /\
              match rstep r (RReturnCtx 7 false false) with Some r' => r_chan r' = [] /\ r_ret r' = [7] | None => False end
  | None => False
  end.
Proof. vm_compute. auto. Qed.

(** Outside the property (the server breaks the protocol): a response that carries the query ID of a call which
    was not written yet makes finishCall decrement inFlight below zero -- the Go code panics
    ("rpc.Client invariant violation: pc.inFlight < 0"); replayed on the real clientConn by the op "pc s:0:n f:0". *)
Example C38_ex_response_before_send_panics :
  cl_finish (fst (cl_setup cs_init 7 false 1)) 7 = None.
Proof. vm_compute. reflexivity. Qed.
