(** C01 -- TL1 binary round trip of generated Go code.  Property theorems only.
    The model: coq/theories/Tl1/Tl1Model.v (schema IR = resolved kernel instances, dumped from
    the real kernel on every run; [enc1]/[dec1] = generated WriteTL1/ReadTL1). *)
From TLV Require Import Prim.PrimModel Tl1.Tl1Model Tl1.Tl1Proofs.
Open Scope N_scope.

(** For every well-formed schema, every type of it (bare and boxed), every nat-parameter
    environment and every value the writer accepts: reading the written bytes back succeeds,
    consumes exactly the written bytes (whatever follows), and yields the same value -- hence
    writing it again yields identical bytes.  No bound on schema size, value size or depth.
    [san] = the generator's --checkLengthSanity option: with [san = true] the statement is
    about the values the strict encoder accepts (see C01_strict_weaken, C01_refuted_sanity). *)
Theorem C01_roundtrip : forall san s, wf_schema s = true ->
  forall v fuel t bare ps b rest,
    (vdepth v <= fuel)%nat ->
    enc1 san s t bare ps v = Some b ->
    dec1 fuel san s t bare ps (b ++ rest) = Some (Ok (v, rest)).
Proof. intros san s Hwf v fuel t bare ps b rest Hd H. exact (enc1_dec1 san s Hwf v fuel Hd t bare ps b rest H). Qed.
Print Assumptions C01_roundtrip.

(** whatever the strict encoder writes, the generated writer (which has no sanity check) writes *)
Theorem C01_strict_weaken : forall s v t bare ps b,
  enc1 true s t bare ps v = Some b -> enc1 false s t bare ps v = Some b.
Proof. exact enc1_strict_weaken. Qed.
Print Assumptions C01_strict_weaken.

(** values whose array lengths disagree with the size parameter are write errors, never bytes *)
Theorem C01_dynamic_length_mismatch_is_error : forall san s t ps es ef,
  nth_error s t = Some (TArray ATupleDyn ef) -> lenN es <> nth 0 ps 0 ->
  forall bare, enc1 san s t bare ps (VArr es) = None.
Proof. exact enc1_tuple_length_mismatch. Qed.
Print Assumptions C01_dynamic_length_mismatch_is_error.

Theorem C01_fixed_length_mismatch_is_error : forall san s t ps es ef c,
  nth_error s t = Some (TArray (ATupleFixed c) ef) -> lenN es <> c ->
  forall bare, enc1 san s t bare ps (VArr es) = None.
Proof. exact enc1_fixed_length_mismatch. Qed.
Print Assumptions C01_fixed_length_mismatch_is_error.

(** F6: with the default --checkLengthSanity=true the full statement is FALSE of the faithful
    model: [z.t v:(vector true)] with two elements is written as 02 00 00 00 and the reader
    refuses it (CheckLengthSanity(w, 2, 4) although elements occupy 0 bytes). *)
Definition f6_schema : schema :=
  [ TStruct 1072550713 [];                                   (* true *)
    TArray AVector (mkField 0 true None []);                 (* vector<true> *)
    TStruct 305419896 [mkField 1 true None []] ].            (* z.t v:(vector true) *)
Definition f6_value : value := VStruct [Some (VArr [VStruct []; VStruct []])].

Theorem C01_refuted_sanity : exists s t v b,
  wf_schema s = true /\ enc1 false s t true [] v = Some b /\
  dec1 10 false s t true [] b = Some (Ok (v, [])) /\
  dec1 10 true s t true [] b = Some Eof.
Proof. exists f6_schema, 2%nat, f6_value, [2; 0; 0; 0]. vm_compute. repeat split; reflexivity. Qed.
Print Assumptions C01_refuted_sanity.

(** Non-vacuity: a schema with a field mask, a size parameter passed down, a union and a
    dictionary; hypotheses hold and the round trip computes. *)
Definition ex_schema : schema :=
  [ TPrim PNat;                                                        (* 0 *)
    TPrim PString;                                                     (* 1 *)
    TArray ATupleDyn (mkField 0 true None []);                         (* 2: n*[#] *)
    TStruct 11 [mkField 0 true None []; mkField 1 true (Some (NField 0, 3)) [];
                mkField 2 true None [NField 0]];                       (* 3: m:# s:m.3?string t:m*[#] *)
    TStruct 21 []; TStruct 22 [mkField 3 false None []];               (* 4, 5: variants *)
    TUnion [4%nat; 5%nat];                                             (* 6 *)
    TStruct 31 [mkField 1 true None []; mkField 0 true None []];       (* 7: key:string value:# *)
    TDict PString (mkField 7 true None []);                            (* 8 *)
    TStruct 41 [mkField 6 false None []; mkField 8 true None []] ].    (* 9 *)
Definition ex_value : value :=
  VStruct [Some (VUnion 1 [Some (VStruct [Some (VNum 8); Some (VStr [104; 105]);
                                         Some (VArr [VNum 1; VNum 2; VNum 3; VNum 4; VNum 5; VNum 6; VNum 7; VNum 8])])]);
           Some (VArr [VStruct [Some (VStr [97]); Some (VNum 1)]; VStruct [Some (VStr [98]); Some (VNum 2)]])].

Example C01_ex_wf : wf_schema ex_schema = true.
Proof. vm_compute. reflexivity. Qed.
Example C01_ex_roundtrip :
  match enc1 true ex_schema 9 false [] ex_value with
  | Some b => dec1 20 true ex_schema 9 false [] (b ++ [7; 7]) = Some (Ok (ex_value, [7; 7])) /\ lenN b = 72
  | None => False
  end.
Proof. vm_compute. split; reflexivity. Qed.
