(** C16 -- output directory management is exact and safe.
    Property theorems only; each is closed by [exact] of a lemma from Outdir/OutdirProofs.v and
    followed by [Print Assumptions].

    Model (Outdir/OutdirModel.v): [outdir_write keep root out gen marker now] is OutDir.Write of
    internal/puregen/outdir.go on a file-system tree [root]; [out] the output directory, [gen] the
    generated files (name relative to out, content), [marker] the marker file name, [now] the stamp
    a written file receives, [keep] the predicate of stale files that are spared (none for tl2gen;
    "*.o" for the legacy cpp writer).  [legacy_write] is Gen2.WriteToDir of internal/tlcodegen/tlgen.go.
    [look fs p] is what a stat of [p] shows: [Some (EFile content stamp)], [Some EDir] or [None].

    Hypotheses used throughout: [wf root] (names unique per directory, no entry called ".."),
    [~ In dotdot out], and [gen_ok out gen]: the joined target paths are pairwise different and every
    generated name is free of ".." components or starts with ".." and resolves outside [out]. *)
From TLV Require Import Outdir.OutdirModel Outdir.OutdirBase Outdir.OutdirProofs.
Open Scope N_scope.

(** ** After a successful generation the files under [out] are exactly the generated ones *)

(** unchanged files are not rewritten: same content before => same stamp after *)
Theorem C16_unchanged_not_rewritten : forall keep root out gen marker now root',
  wf root -> ~ In dotdot out -> gen_ok out gen ->
  outdir_write keep root out gen marker now = Ok root' ->
  forall nm c st0, In (nm, c) gen -> ~ In dotdot nm ->
  look root (out ++ nm) = Some (EFile c st0) -> look root' (out ++ nm) = Some (EFile c st0).
Proof. exact ow_unchanged_not_rewritten. Qed.
Print Assumptions C16_unchanged_not_rewritten.

(** every other generated file is present with the generated content, freshly written *)
Theorem C16_changed_or_new_written : forall keep root out gen marker now root',
  wf root -> ~ In dotdot out -> gen_ok out gen ->
  outdir_write keep root out gen marker now = Ok root' ->
  forall nm c, In (nm, c) gen -> ~ In dotdot nm ->
  (forall st0, look root (out ++ nm) <> Some (EFile c st0)) -> look root' (out ++ nm) = Some (EFile c now).
Proof. exact ow_changed_or_new_written. Qed.
Print Assumptions C16_changed_or_new_written.

(** nothing else: a file under [out] is generated, or a spared stale file that is untouched *)
Theorem C16_nothing_else : forall keep root out gen marker now root',
  wf root -> ~ In dotdot out -> gen_ok out gen ->
  outdir_write keep root out gen marker now = Ok root' ->
  forall rel c st, rel <> [] -> look root' (out ++ rel) = Some (EFile c st) ->
  In (rel, c) gen \/ (keep rel = true /\ ~ In rel (map fst gen) /\ look root (out ++ rel) = Some (EFile c st)).
Proof. exact ow_nothing_else. Qed.
Print Assumptions C16_nothing_else.

(** in particular stale files of earlier generations (and foreign files) are removed *)
Theorem C16_stale_removed : forall keep root out gen marker now root',
  wf root -> ~ In dotdot out -> gen_ok out gen ->
  outdir_write keep root out gen marker now = Ok root' ->
  forall rel, rel <> [] -> ~ In rel (map fst gen) -> keep rel = false ->
  forall c st, look root' (out ++ rel) <> Some (EFile c st).
Proof. exact ow_stale_removed. Qed.
Print Assumptions C16_stale_removed.

(** spared stale files ("*.o" for the legacy cpp writer) survive untouched *)
Theorem C16_spared_untouched : forall keep root out gen marker now root',
  wf root -> ~ In dotdot out -> gen_ok out gen ->
  outdir_write keep root out gen marker now = Ok root' ->
  forall rel c st, keep rel = true -> ~ In rel (map fst gen) ->
  look root (out ++ rel) = Some (EFile c st) -> look root' (out ++ rel) = Some (EFile c st).
Proof. exact ow_kept. Qed.
Print Assumptions C16_spared_untouched.

(** no directory is left without a file below it (empty and stale directories are pruned) *)
Theorem C16_no_empty_dirs : forall keep root out gen marker now root',
  wf root -> ~ In dotdot out -> gen_ok out gen ->
  outdir_write keep root out gen marker now = Ok root' ->
  forall rel, rel <> [] -> look root' (out ++ rel) = Some EDir ->
  exists r c st, r <> [] /\ look root' (out ++ rel ++ r) = Some (EFile c st).
Proof. exact ow_no_empty_dirs. Qed.
Print Assumptions C16_no_empty_dirs.

Theorem C16_outdir_exists : forall keep root out gen marker now root',
  wf root -> ~ In dotdot out -> gen_ok out gen ->
  outdir_write keep root out gen marker now = Ok root' -> look root' out = Some EDir.
Proof. exact ow_outdir_exists. Qed.
Print Assumptions C16_outdir_exists.

(** ** Refusal: a non-empty outdir without the marker is refused and left unmodified *)
Theorem C16_refuses_unmarked_nonempty : forall keep root out gen marker now,
  wf root -> ~ In dotdot out ->
  forall f c st, f <> [] -> look root (out ++ f) = Some (EFile c st) ->
  (forall c st, look root (out ++ marker) <> Some (EFile c st)) ->
  outdir_write keep root out gen marker now = Refused root.
Proof. exact outdir_write_refuses. Qed.
Print Assumptions C16_refuses_unmarked_nonempty.

(** ... and only then; the returned tree is the input tree *)
Theorem C16_refused_only_then : forall keep root out gen marker now,
  wf root -> ~ In dotdot out ->
  forall fs, outdir_write keep root out gen marker now = Refused fs ->
  fs = root /\ (exists f c st, f <> [] /\ look root (out ++ f) = Some (EFile c st)) /\
  (forall c st, look root (out ++ marker) <> Some (EFile c st)).
Proof. exact outdir_write_refused_inv. Qed.
Print Assumptions C16_refused_only_then.

(** ** Nothing outside the outdir is touched -- whatever the outcome (success, refusal, I/O failure) --
    except the files addressed by generated names that resolve outside (runtime library location) *)
Theorem C16_outside_untouched : forall keep root out gen marker now,
  wf root -> ~ In dotdot out -> gen_ok out gen ->
  forall q, ~ is_prefix out q -> (forall nm, In nm (map fst gen) -> q <> join out nm) ->
  look (fs_of (outdir_write keep root out gen marker now)) q = look root q.
Proof. exact outdir_write_frame. Qed.
Print Assumptions C16_outside_untouched.

(** the runtime-library files (names starting with "..") are written on every generation -- for
    them "unchanged files are not rewritten" does NOT hold (relativeFiles never contains them) *)
Theorem C16_runtime_files_always_written : forall keep root out gen marker now root',
  wf root -> ~ In dotdot out -> gen_ok out gen ->
  outdir_write keep root out gen marker now = Ok root' ->
  forall nm c, In (nm, c) gen -> has_dotdot_prefix nm = true -> ~ is_prefix out (join out nm) ->
  look root' (join out nm) = Some (EFile c now).
Proof. exact ow_runtime_files_always_written. Qed.
Print Assumptions C16_runtime_files_always_written.

Theorem C16_tree_stays_wellformed : forall keep root out gen marker now,
  wf root -> ~ In dotdot out -> wf (fs_of (outdir_write keep root out gen marker now)).
Proof. exact outdir_write_wf. Qed.
Print Assumptions C16_tree_stays_wellformed.

(** ** All histories of generations into one directory.
    [hist_ok]: at every step the result is never [Refused], and every successful step satisfies
    [exact] (the conjunction of the statements above) with respect to the tree before that step.
    Induction over the list of generations; an I/O failure ends what is claimed. *)
Theorem C16_history : forall keep out marker steps root,
  wf root -> ~ In dotdot out -> marked_or_empty out marker root -> Forall (step_ok out marker) steps ->
  hist_ok keep out marker root steps.
Proof. exact history_exact. Qed.
Print Assumptions C16_history.

Theorem C16_history_outside_untouched : forall keep out marker steps root q,
  wf root -> ~ In dotdot out -> Forall (fun s => gen_ok out (st_gen s)) steps -> ~ is_prefix out q ->
  (forall s nm, In s steps -> In nm (map fst (st_gen s)) -> q <> join out nm) ->
  look (final_fs keep out marker root steps) q = look root q.
Proof. exact history_frame. Qed.
Print Assumptions C16_history_outside_untouched.

(** ** The legacy writer (tlgen: cpp, php) is the same algorithm with its marker appended *)
Theorem C16_legacy_same_algorithm : forall keep root out gen mc now, ~ In legacy_marker (map fst gen) ->
  legacy_write keep root out gen mc now =
  outdir_write keep root out (gen ++ [(legacy_marker, mc)]) legacy_marker now.
Proof. exact legacy_write_eq. Qed.
Print Assumptions C16_legacy_same_algorithm.

(** ** Non-vacuity: concrete runs computed by the kernel (names: a=97 b=98 g=103 m=109 o=111 p=112) *)
Definition ex_out : path := [[112]; [103]].                       (* p/g *)
Definition ex_root0 : node := Dir [([107], File [1] 0); ([112], Dir [])].   (* k (a foreign file), p/ *)
Definition ex_gen1 : list (path * str) := [([[109]], [7]); ([[97]; [98]], [8])].   (* m, a/b *)
Definition ex_gen2 : list (path * str) := [([[109]], [7]); ([[98]], [9])].         (* m, b   *)

Ltac nodup := repeat constructor; simpl; intros H; repeat (destruct H as [H|H]; try discriminate H); auto.
Example C16_ex_gen_ok : gen_ok ex_out ex_gen1 /\ gen_ok ex_out ex_gen2 /\ wf ex_root0.
Proof.
  split; [|split].
  - split. vm_compute. nodup.
    intros nm I. left. vm_compute in I. destruct I as [I|[I|[]]]; subst; nodup.
  - split. vm_compute. nodup.
    intros nm I. left. vm_compute in I. destruct I as [I|[I|[]]]; subst; nodup.
  - constructor. nodup. nodup. repeat constructor; simpl; try nodup.
Qed.

(** first generation into a missing directory, second one: "m" unchanged keeps stamp 1, a/b and the
    directory a are gone, b is new (stamp 2), the foreign file k next to p is untouched *)
Example C16_ex_two_generations :
  map (fun r => match r with Ok fs => Some fs | _ => None end)
      (run_hist keep_none ex_out [[109]] ex_root0 [{| st_gen := ex_gen1; st_now := 1 |}; {| st_gen := ex_gen2; st_now := 2 |}]) =
  [ Some (Dir [([107], File [1] 0); ([112], Dir [([103], Dir [([97], Dir [([98], File [8] 1)]); ([109], File [7] 1)])])]);
    Some (Dir [([107], File [1] 0); ([112], Dir [([103], Dir [([98], File [9] 2); ([109], File [7] 1)])])]) ].
Proof. vm_compute. reflexivity. Qed.

(** a foreign non-empty directory is refused and returned as it is *)
Example C16_ex_refused :
  let r := Dir [([112], Dir [([103], Dir [([120], File [5] 0)])])] in
  outdir_write keep_none r ex_out ex_gen1 [[109]] 1 = Refused r.
Proof. vm_compute. reflexivity. Qed.

(** a stale FILE where a directory is needed is an I/O failure, not a success *)
Example C16_ex_failed :
  let r := Dir [([112], Dir [([103], Dir [([97], File [5] 0); ([109], File [7] 0)])])] in
  match outdir_write keep_none r ex_out ex_gen1 [[109]] 1 with Failed _ => True | _ => False end.
Proof. vm_compute. exact I. Qed.

(** the legacy cpp writer spares "x.o" (120 46 111) and removes the other stale file *)
Example C16_ex_legacy_keeps_o :
  let r := Dir [([103], Dir [([115], File [5] 0); (legacy_markerFile, File [1] 0); ([120; 46; 111], File [6] 0)])] in
  legacy_write keep_cpp r [[103]] [([[98]], [9])] [2] 3 =
  Ok (Dir [([103], Dir [([98], File [9] 3); (legacy_markerFile, File [2] 3); ([120; 46; 111], File [6] 0)])]).
Proof. vm_compute. reflexivity. Qed.

(** an unchanged runtime-library file addressed through ".." is rewritten all the same (stamp 5) *)
Example C16_ex_runtime_file_rewritten :
  let r := Dir [([112], Dir [([103], Dir [([109], File [7] 0)]); ([108], Dir [([114], File [4] 0)])])] in
  option_map (fun fs => look fs [[112]; [108]; [114]])
    (match outdir_write keep_none r ex_out [([[109]], [7]); ([dotdot; [108]; [114]], [4])] [[109]] 5 with Ok fs => Some fs | _ => None end)
  = Some (Some (EFile [4] 5)).
Proof. vm_compute. reflexivity. Qed.
