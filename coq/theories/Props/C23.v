(** C23 -- implicit constructor tags follow the canonical-form CRC32 rule.
    Property theorems only; each is closed by [exact] of a lemma of Canon/CanonProofs.v.

    Layout independence.  [tag], [canon] are functions of the parsed AST ([comb]) alone: whitespace, comments,
    line breaks and the bracket style of type applications ([vector<int>] / [(vector int)]) do not exist at that
    level.  That the real lexer+parser map all layout/syntax variants of a combinator to the same AST is
    established by the correspondence run of lib/checks/C23.py (same AST dump and same tag for 6 variants of
    every generated combinator), not by a theorem: the lexer/parser model belongs to another family. *)
From TLV Require Import Canon.CanonModel Canon.CanonProofs.
Open Scope N_scope.

(** explicit tags are used verbatim; implicit tags are the CRC32 of the canonical form *)
Theorem C23_tag_explicit_verbatim : forall c, c_explicit c = true -> tag c = c_id c.
Proof. exact tag_explicit_verbatim. Qed.
Print Assumptions C23_tag_explicit_verbatim.

Theorem C23_tag_implicit : forall c, c_explicit c = false -> tag c = crc32 (canon c).
Proof. exact tag_implicit. Qed.
Print Assumptions C23_tag_implicit.

(** Combinator.Crc32() returns the stored ID; for what the parser stores ([parsed_id]) that is [tag] *)
Theorem C23_stored_id_is_tag : forall c, parsed_id c = true -> c_id c = tag c.
Proof. exact parsed_id_tag. Qed.
Print Assumptions C23_stored_id_is_tag.

Theorem C23_tag_fits_uint32 : forall s, Forall (fun b => b < 256) s -> crc32 s < 4294967296.
Proof. exact crc32_range. Qed.
Print Assumptions C23_tag_fits_uint32.

(** shape of the canonical form of every well-formed (= parser-produced) combinator *)
Theorem C23_canon_charset : forall c, wf_comb c = true -> forallb is_canon_char (canon c) = true.
Proof. exact canon_chars. Qed.
Print Assumptions C23_canon_charset.

Theorem C23_canon_no_braces : forall c, wf_comb c = true -> ~ In ch_lcur (canon c) /\ ~ In ch_rcur (canon c).
Proof. exact canon_no_braces. Qed.
Print Assumptions C23_canon_no_braces.

Theorem C23_canon_one_line : forall c, wf_comb c = true ->
  ~ In 10 (canon c) /\ ~ In 13 (canon c) /\ ~ In 9 (canon c).
Proof. exact canon_one_line. Qed.
Print Assumptions C23_canon_one_line.

(** not empty, no leading or trailing space, never two spaces in a row *)
Theorem C23_canon_single_spaces : forall c, wf_comb c = true ->
  canon c <> [] /\ hd 0 (canon c) <> ch_space /\ last (canon c) 0 <> ch_space /\
  (forall a b, canon c <> a ++ ch_space :: ch_space :: b).
Proof. exact canon_single_spaces. Qed.
Print Assumptions C23_canon_single_spaces.

(** repetitions are printed as "[ " ... " ]" *)
Theorem C23_canon_brackets : forall f, exists pre mid,
  crc_rws f = pre ++ [ch_lsq] ++ mid ++ [ch_space; ch_rsq] /\ (mid = [] \/ exists m, mid = ch_space :: m).
Proof. exact crc_rws_brackets. Qed.
Print Assumptions C23_canon_brackets.

(** arithmetic is replaced by its value: outside repetition brackets only the value of an expression matters *)
Theorem C23_canon_arith_value : forall c, canon (comb_map_arith arith_value c) = canon c.
Proof. exact canon_arith_value. Qed.
Print Assumptions C23_canon_arith_value.

Theorem C23_tag_arith_by_value : forall f, (forall a, a_res (f a) = a_res a) ->
  forall c, tag (comb_map_arith f c) = tag c.
Proof. exact tag_arith_by_value. Qed.
Print Assumptions C23_tag_arith_by_value.

(** ... refuted inside repetition brackets, where the template prints plain fields with Field.String():
    [foo n:# a:n*[(tuple int 2+3)] = Foo] and [... (tuple int 5) ...] get different tags (finding) *)
Theorem C23_canon_arith_in_repeat_refuted :
  exists c c', wf_comb c = true /\ wf_comb c' = true /\
    c' = w_rep_comb [5] (c_id c') /\ c = w_rep_comb [2; 3] (c_id c) /\
    canon c <> canon c' /\ tag c <> tag c'.
Proof. exact canon_arith_in_repeat_refuted. Qed.
Print Assumptions C23_canon_arith_in_repeat_refuted.

(** bare-marker rule: '%' only in front of names that do not start with a lower-case letter *)
Theorem C23_bare_marker_rule : forall ty args bare,
  crc_tr (TypeRef ty args bare) = (if bare_marker ty bare then [ch_pct] else []) ++ crc_tr (TypeRef ty args false).
Proof. exact bare_marker_rule. Qed.
Print Assumptions C23_bare_marker_rule.

Theorem C23_bare_marker_spec : forall ty bare,
  bare_marker ty bare = true <->
  bare = true /\ (n_name ty = [] \/ exists b r, n_name ty = b :: r /\ is_lower b = false).
Proof. exact bare_marker_spec. Qed.
Print Assumptions C23_bare_marker_spec.

Theorem C23_excl_not_in_canon : forall e f, canon_field (set_excl e f) = canon_field f.
Proof. exact canon_field_ignores_excl. Qed.
Print Assumptions C23_excl_not_in_canon.

(** CRC-32/IEEE: the tags asserted in internal/tlast/tlcrc32_test.go and the builtin tags *)
Definition ex_builtin (nm ty : str) : comb :=
  Comb true false [] (Name [] nm) 0 false [] [] (TypeDecl (Name [] ty) []) w_empty_tr.
Example crc_int : tag (ex_builtin s_int [73; 110; 116]) = 2823855066.            (* a8509bda *)
Proof. vm_compute. reflexivity. Qed.
Example crc_long : tag (ex_builtin s_long [76; 111; 110; 103]) = 570911930.      (* 22076cba *)
Proof. vm_compute. reflexivity. Qed.
Example crc_float : tag (ex_builtin s_float [70; 108; 111; 97; 116]) = 2186128162.  (* 824dab22 *)
Proof. vm_compute. reflexivity. Qed.
Example crc_double : tag (ex_builtin s_double [68; 111; 117; 98; 108; 101]) = 571523412.  (* 2210c154 *)
Proof. vm_compute. reflexivity. Qed.
Example crc_string : tag (ex_builtin s_string [83; 116; 114; 105; 110; 103]) = 3039325732.  (* b5286e24 *)
Proof. vm_compute. reflexivity. Qed.

(* @any get_arrays n:# a:n*[int] b:5*[int] = Tuple int 5;   ->  90658cdb *)
Definition ex_int_field : field := Field [] None false false false w_nofield_rep [] w_int.
Definition ex_get_arrays (id : N) (explicit : bool) : comb :=
  Comb false true [s_any] (Name [] [103; 101; 116; 95; 97; 114; 114; 97; 121; 115]) id explicit []
    [Field [110] None false false false w_nofield_rep [] w_nat;
     Field [97] None false true true (ScaleFactor false (Arith [] 0) [110]) [ex_int_field] w_empty_tr;
     Field [98] None false true true (ScaleFactor true (Arith [5] 5) []) [ex_int_field] w_empty_tr]
    (TypeDecl (Name [] []) [])
    (TypeRef (Name [] [84; 117; 112; 108; 101]) [Aot false (Arith [] 0) w_int; Aot true (Arith [5] 5) w_empty_tr] false).
Example crc_get_arrays : tag (ex_get_arrays 0 false) = 2422574299.               (* 90658cdb *)
Proof. vm_compute. reflexivity. Qed.
Example crc_get_arrays_explicit : tag (ex_get_arrays 305419896 true) = 305419896.  (* 12345678 *)
Proof. vm_compute. reflexivity. Qed.
Example canon_get_arrays_wf : wf_comb (ex_get_arrays 2422574299 false) = true.
Proof. vm_compute. reflexivity. Qed.
