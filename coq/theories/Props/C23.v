(** C23 -- implicit constructor tags follow the canonical-form CRC32 rule. *)
From TLV Require Import Canon.CanonModel Canon.CanonProofs.
Open Scope N_scope.

Theorem C23_tag_explicit_verbatim : forall c, c_explicit c = true -> tag c = c_id c.
Proof. exact tag_explicit_verbatim. Qed.
Print Assumptions C23_tag_explicit_verbatim.

Theorem C23_tag_implicit : forall c, c_explicit c = false -> tag c = crc32 (canon c).
Proof. exact tag_implicit. Qed.
Print Assumptions C23_tag_implicit.
