(** C28 -- the backward-compatibility linter is sound for TL1 wire compatibility.  PARTIAL.

    Full statement (not proved, and false of the code as it is -- see below):
      lint old new = Accept ->
      forall constructor c of old, forall value v of c whose field masks set only bits that old
      gives meaning to:  enc1 new c (lift v) = enc1 old c v  /\  dec1 new c (enc1 old c v) = Ok (lift v, []).
    where enc1/dec1 are the TL1 codecs of the resolved schemas.

    What is proved here is the field-list level of it, with the per-field encoders abstracted:
    [enc_fields mp env fs vals] concatenates the (given) encoded bytes [vals_i] of the fields
    that are present, a masked field [m.b?] being present iff bit [b] of [env (index of m)] is
    set, the index of [m] being resolved the way the linter does (the combinator's [mapping]).
    Abstracted: the encoders of the field types themselves (the proof shows that every old field
    keeps its position, its resolved mask and bit, and a type the linter's compareTypes accepts
    -- it does NOT show that accepted types encode alike: that is exactly where F2 (bare flag)
    and the repetition blind spot break the property), function arguments/results, and decoding.
    The rest of the property is checked per instance on generated Go code by lib/checks/C28.py. *)
From Coq Require Import String List NArith ZArith Bool.
From TLV Require Import Lint.LintModel Lint.LintProofs Lint.LintEdits.
Import ListNotations.
Open Scope string_scope.
Open Scope list_scope.

(** acceptance of a pair of schemas gives, for every old constructor, an accepted new constructor
    of the same name and type *)
Theorem C28_accept_gives_constructor_checks_partial : forall fx a a' oc,
  lint_with fx a a' = Accept -> In oc a -> is_type oc = true ->
  exists nc, find_last (fun c => String.eqb (c_name c) (c_name oc)) (types_of a' (c_tname oc)) = Some nc /\
             check_comb fx (check_nat_usages a) (check_nat_usages a') nc oc = Accept.
Proof. exact lint_accept_inv_type. Qed.
Print Assumptions C28_accept_gives_constructor_checks_partial.

(** every old field keeps its position, its mask (after name resolution) and bit, and has a type
    compareTypes accepts *)
Theorem C28_old_fields_preserved_partial : forall fx oi ni nc oc q of nf,
  check_comb fx oi ni nc oc = Accept ->
  nth_error (c_fields oc) q = Some of -> nth_error (c_fields nc) q = Some nf ->
  compare_types fx (mapping nc) (mapping oc) (f_ty nf) (f_ty of) = Accept /\
  match f_mask nf, f_mask of with
  | None, None => True
  | Some (m', b'), Some (m, b) => mask_get (mapping nc) m' = mask_get (mapping oc) m /\ b' = b
  | _, _ => False
  end.
Proof.
  intros fx oi ni nc oc q of nf H HO HN. apply check_comb_accept_old_fields in H. destruct H as [_ H].
  apply check_old_field_accept_mask. exact (check_old_fields_nth _ _ _ _ _ _ _ _ H HO HN).
Qed.
Print Assumptions C28_old_fields_preserved_partial.

(** the field list of an accepted new constructor encodes, for every value that leaves the bits
    of the appended fields clear, to exactly the bytes of the old field list *)
Theorem C28_fields_encode_equal_partial : forall fx oi ni nc oc env vals,
  c_fun oc = false ->
  check_comb fx oi ni nc oc = Accept ->
  exists extra, c_fields nc = firstn (length (c_fields oc)) (c_fields nc) ++ extra /\
    Forall (fun f => has_mask f = true) extra /\
    ((forall f, In f extra -> field_present (mapping nc) env f = false) ->
     enc_fields (mapping nc) env (c_fields nc) vals =
     enc_fields (mapping oc) env (c_fields oc) (firstn (length (c_fields oc)) vals)).
Proof. exact lint_accept_fields_encode_equal. Qed.
Print Assumptions C28_fields_encode_equal_partial.

(** the bits of appended fields under a local mask are outside what the analysis of the old
    schema lists for that mask -- "old values do not set them" is therefore satisfiable *)
Theorem C28_appended_bits_are_new_partial : forall oi ni nc fid f m b j,
  nth_error (c_fields nc) fid = Some f -> f_mask f = Some (m, b) ->
  find_index (fun a => String.eqb (ta_name a) m) (c_targs nc) = None ->
  find_index (fun g => String.eqb (f_name g) m) (c_fields nc) = Some j ->
  bit_check oi ni nc fid b = Accept -> ~ In b (infoC oi (c_name nc) j).
Proof.
  intros oi ni nc fid f m b j HN HM HT HF H HI. exact (bit_check_used oi ni nc fid f m b j HN HM HT HF HI H).
Qed.
Print Assumptions C28_appended_bits_are_new_partial.

(** the bridge "lint accepts => encodings agree" is refuted for the code as it is: the accepted
    pair of F2 changes a field from bare to boxed (4 more bytes on the wire) *)
Definition f2_old : schema :=
  [mkComb "int" 2823855066 true false [] [] "Int" (TRef "" false []);
   mkComb "foo" 286331153 false false [] [mkField "a" None "" (TRef "int" false [])] "Foo" (TRef "" false []);
   mkComb "bar" 572662306 false false [] [mkField "x" None "" (TRef "Foo" true []); mkField "y" None "" (TRef "int" false [])] "Bar" (TRef "" false [])].
Definition f2_new : schema :=
  [mkComb "int" 2823855066 false false [] [mkField "" None "" (TRef "int" true [])] "Int" (TRef "" false []);
   mkComb "foo" 286331153 false false [] [mkField "a" None "" (TRef "int" false [])] "Foo" (TRef "" false []);
   mkComb "bar" 572662306 false false [] [mkField "x" None "" (TRef "Foo" false []); mkField "y" None "" (TRef "int" false [])] "Bar" (TRef "" false [])].
Theorem C28_bridge_refuted_bare_flag :
  lint f2_old f2_new = Accept /\
  exists oc nc of nf, In oc f2_old /\ In nc f2_new /\ c_name nc = c_name oc /\
    nth_error (c_fields oc) 0 = Some of /\ nth_error (c_fields nc) 0 = Some nf /\ ty_bare (f_ty of) <> ty_bare (f_ty nf).
Proof.
  split; [vm_compute; reflexivity|].
  eexists _, _, _, _. split; [right; right; left; reflexivity|]. split; [right; right; left; reflexivity|].
  split; [reflexivity|]. split; [reflexivity|]. split; [reflexivity|]. cbn. discriminate.
Qed.
Print Assumptions C28_bridge_refuted_bare_flag.

(** New finding: the linter never compares constructor tags.  An explicit tag may change
    ([foo#11111111] -> [foo#22222222]), and appending a (correctly masked) field to a combinator
    WITHOUT explicit tag moves its CRC32-derived tag ([bar]: a5e7 -> 405c below): both accepted,
    both change every boxed encoding / every function call.  Witness = dump of a real pair. *)
Definition tag_old : schema :=
  [mkComb "int" 2823855066 true false [] [] "Int" (TRef "" false []);
   mkComb "foo" 286331153 false false [] [mkField "m" None "" (TRef "#" false []); mkField "a" (Some ("m", 0%N)) "" (TRef "int" false [])] "Foo" (TRef "" false []);
   mkComb "bar" 2783424951 false false [] [mkField "m" None "" (TRef "#" false []); mkField "a" (Some ("m", 0%N)) "" (TRef "int" false [])] "Bar" (TRef "" false [])].
Definition tag_new : schema :=
  [mkComb "int" 2823855066 false false [] [mkField "" None "" (TRef "int" true [])] "Int" (TRef "" false []);
   mkComb "foo" 572662306 false false [] [mkField "m" None "" (TRef "#" false []); mkField "a" (Some ("m", 0%N)) "" (TRef "int" false [])] "Foo" (TRef "" false []);
   mkComb "bar" 1079810354 false false [] [mkField "m" None "" (TRef "#" false []); mkField "a" (Some ("m", 0%N)) "" (TRef "int" false []); mkField "b" (Some ("m", 1%N)) "" (TRef "int" false [])] "Bar" (TRef "" false [])].
Theorem C28_bridge_refuted_tag :
  lint tag_old tag_new = Accept /\ lint_fixed tag_old tag_new = Accept /\
  exists oc nc, In oc tag_old /\ In nc tag_new /\ c_name nc = c_name oc /\ c_tag nc <> c_tag oc.
Proof.
  split; [vm_compute; reflexivity|]. split; [vm_compute; reflexivity|].
  eexists _, _. split; [right; left; reflexivity|]. split; [right; left; reflexivity|]. split; [reflexivity|]. cbn. discriminate.
Qed.
Print Assumptions C28_bridge_refuted_tag.

(* ---- non-vacuity *)
Definition ex_o : comb :=
  mkComb "t" 1 false false [] [mkField "m" None "" (TRef "#" false []); mkField "x" (Some ("m", 0%N)) "" (TRef "int" false [])] "T" (TRef "" false []).
Definition ex_n : comb := add_field ex_o (mkField "y" (Some ("m", 1%N)) "" (TRef "int" false [])).
Example C28_ex_accept : check_comb no_fixes (check_nat_usages [ex_o]) (check_nat_usages [ex_n]) ex_n ex_o = Accept.
Proof. vm_compute. reflexivity. Qed.
(** mask value 1 (only the old bit): the new field list gives the old bytes *)
Example C28_ex_encode :
  enc_fields (mapping ex_n) (fun _ => 1%N) (c_fields ex_n) [[1;0;0;0]; [7;0;0;0]; [9;9;9;9]]%N =
  enc_fields (mapping ex_o) (fun _ => 1%N) (c_fields ex_o) [[1;0;0;0]; [7;0;0;0]]%N.
Proof. vm_compute. reflexivity. Qed.
(** mask value 3 (the new bit set): the encodings differ -- the restriction on values is needed *)
Example C28_ex_encode_new_bit :
  enc_fields (mapping ex_n) (fun _ => 3%N) (c_fields ex_n) [[3;0;0;0]; [7;0;0;0]; [9;9;9;9]]%N <>
  enc_fields (mapping ex_o) (fun _ => 3%N) (c_fields ex_o) [[3;0;0;0]; [7;0;0;0]]%N.
Proof. vm_compute. discriminate. Qed.
