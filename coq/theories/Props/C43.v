(** C43 -- generated field accessors control presence consistently.  Property theorems only.
    Model: coq/theories/Reg/RegAccModel.v -- the Go object state of one struct ([o_vals]: the value every Go
    field holds, [o_tl2]: the tl2mask bits) plus the caller's nat parameters [ps]; [acc_set] / [acc_setbit] /
    [acc_clear] / [acc_isset] = the generated SetX / SetX(bool) / ClearX / IsSetX; [wire_of] = what the
    generated WriteTL1 emits ([tl1_present]: its test on the TL1 mask); IsSetX, the JSON writer and the TL2
    writer test the TL2 bit when TL2 code is generated, else the TL1 mask ([acc_isset] = [json_present]).
    Hypotheses: [mask_wf] -- the field exists and a local mask is an EARLIER field (kernel rule, [fields_ok]);
    "observable" -- the field has a TL2 bit, or its TL1 mask is a local field, or it is a parameter passed by a
    non-nil pointer (with a nil pointer and no TL2 code an accessor CANNOT record presence: that is the
    generated code's documented behaviour, and the model has it too). *)
From TLV Require Import Prim.PrimModel Tl1.Tl1Model Reg.RegAccModel Reg.RegAccProofs.
Open Scope N_scope.

Theorem C43_set_then_isset : forall afs i af x ext o ps,
  nth_error afs i = Some af -> mask_wf af i o ->
  (af_tl2bit af <> None \/ tl1_reachable af ext ps) ->
  acc_isset afs i (acc_set afs i x ext (o, ps)) = true.
Proof. exact isset_after_set. Qed.
Print Assumptions C43_set_then_isset.

Theorem C43_clear_then_not_isset : forall afs i af ext o ps,
  nth_error afs i = Some af -> mask_wf af i o ->
  (af_tl2bit af <> None \/ tl1_reachable af ext ps) ->
  acc_isset afs i (acc_clear afs i ext (o, ps)) = false.
Proof. exact isset_after_clear. Qed.
Print Assumptions C43_clear_then_not_isset.

(** `true` fields: SetX(v) makes IsSetX report v *)
Theorem C43_setbit_then_isset : forall afs i af v ext o ps,
  nth_error afs i = Some af -> mask_wf af i o ->
  (af_tl2bit af <> None \/ tl1_reachable af ext ps) ->
  acc_isset afs i (acc_setbit afs i v ext (o, ps)) = v.
Proof. exact isset_after_setbit. Qed.
Print Assumptions C43_setbit_then_isset.

(** JSON and TL2 writers test exactly what IsSetX tests (by definition of the model; the correspondence run
    checks this against the generated writers) -- so Set makes the field emitted, Clear omitted, in both. *)
Theorem C43_json_tl2_follow_isset : forall afs i st, json_present afs i st = acc_isset afs i st.
Proof. reflexivity. Qed.
Print Assumptions C43_json_tl2_follow_isset.

(** TL1: after Set the writer sees [Some x] at the field, after Clear [None] ... *)
Theorem C43_set_emitted_tl1 : forall s afs i af x ext o ps,
  nth_error afs i = Some af -> length (o_vals o) = length afs -> mask_wf af i o -> tl1_reachable af ext ps ->
  let st' := acc_set afs i x ext (o, ps) in
  nth_error (wire_of s (snd st') afs (fst st')) i = Some (Some x).
Proof. exact wire_after_set. Qed.
Print Assumptions C43_set_emitted_tl1.

Theorem C43_clear_omitted_tl1 : forall s afs i af ext o ps,
  nth_error afs i = Some af -> length (o_vals o) = length afs -> mask_wf af i o -> tl1_reachable af ext ps ->
  let st' := acc_clear afs i ext (o, ps) in
  nth_error (wire_of s (snd st') afs (fst st')) i = Some None.
Proof. exact wire_after_clear. Qed.
Print Assumptions C43_clear_omitted_tl1.

(** ... and the bytes the struct's writer produces are the TL1 codec [enc1] (C01) applied to that wire value,
    for every mask-consistent state (every # field the writer skips holds 0). *)
Theorem C43_writer_is_enc1_of_wire_value : forall san s t tag bare ps afs o,
  nth_error s t = Some (TStruct tag (map af_field afs)) -> nat_consistent s ps afs o ->
  enc_obj san s tag bare ps afs o = enc1 san s t bare ps (VStruct (wire_of s ps afs o)).
Proof. exact enc_obj_is_enc1. Qed.
Print Assumptions C43_writer_is_enc1_of_wire_value.

(** Frame conditions, for all three accessors at once ([acc_step]; see C43_accessors_are_steps):
    (1) stored values: nothing but field i and the local mask field changes; *)
Theorem C43_frame_values : forall on store af i ext o ps g,
  g <> i -> (forall m bit, f_mask (af_field af) = Some (NField m, bit) -> g <> m) ->
  nth_error (o_vals (fst (acc_step on store af i ext (o, ps)))) g = nth_error (o_vals o) g.
Proof. exact frame_values. Qed.
Print Assumptions C43_frame_values.

(** (2) in the local mask field exactly bit [bit] may change; *)
Theorem C43_frame_mask_field : forall on store af i ext o ps m bit j,
  f_mask (af_field af) = Some (NField m, bit) -> m <> i -> (m < length (o_vals o))%nat -> j <> bit ->
  N.testbit (stored_nat (fst (acc_step on store af i ext (o, ps))) m) j = N.testbit (stored_nat o m) j.
Proof. exact frame_mask_field. Qed.
Print Assumptions C43_frame_mask_field.

(** (3) in the TL2 mask exactly bit [tl2bit] may change; *)
Theorem C43_frame_tl2mask : forall on store af i ext o ps j,
  (forall b, af_tl2bit af = Some b -> j <> b) ->
  N.testbit (o_tl2 (fst (acc_step on store af i ext (o, ps)))) j = N.testbit (o_tl2 o) j.
Proof. exact frame_tl2. Qed.
Print Assumptions C43_frame_tl2mask.

(** (4) in the caller's nat parameters exactly bit [bit] of the mask parameter may change, and only through a
    non-nil pointer. *)
Theorem C43_frame_params : forall on store af i ext o ps k j,
  (forall k0 bit, f_mask (af_field af) = Some (NParam k0, bit) -> ext = true -> k = k0 -> j <> bit) ->
  N.testbit (nth k (snd (acc_step on store af i ext (o, ps))) 0) j = N.testbit (nth k ps 0) j.
Proof. exact frame_params. Qed.
Print Assumptions C43_frame_params.

Theorem C43_accessors_are_steps : forall afs i af x v ext st, nth_error afs i = Some af ->
  acc_set afs i x ext st = acc_step true (Some (Some x)) af i ext st /\
  acc_clear afs i ext st = acc_step false (Some None) af i ext st /\
  acc_setbit afs i v ext st = acc_step v None af i ext st.
Proof.
  intros. repeat split; [now apply acc_set_step|now apply acc_clear_step|now apply acc_setbit_step].
Qed.
Print Assumptions C43_accessors_are_steps.

(** a uint32 mask stays a uint32 *)
Theorem C43_mask_stays_uint32 : forall on n b, n < 2 ^ 32 -> b < 32 -> bit_op on n b < 2 ^ 32.
Proof. exact bit_op_bound. Qed.
Print Assumptions C43_mask_stays_uint32.

(** Non-vacuity: m:# a:m.0?int t:m.1?true c:outer.3?string with TL2 bits 0,1,2 (cf. cases.testAllPossibleFieldConfigs) *)
Definition ex_schema : schema :=
  [ TPrim PNat; TPrim PInt; TStruct 1072550713 []; TPrim PString;
    TStruct 99 [mkField 0 true None []; mkField 1 true (Some (NField 0, 0)) [];
                mkField 2 true (Some (NField 0, 1)) []; mkField 3 true (Some (NParam 0, 3)) []] ].
Definition ex_afs : list afield :=
  [ mkAF (mkField 0 true None []) false None false;
    mkAF (mkField 1 true (Some (NField 0, 0)) []) false (Some 0) false;
    mkAF (mkField 2 true (Some (NField 0, 1)) []) true (Some 1) false;
    mkAF (mkField 3 true (Some (NParam 0, 3)) []) false (Some 2) false ].

Example C43_ex_accessors : map has_acc ex_afs = [false; true; true; true].
Proof. reflexivity. Qed.

Example C43_ex_run :
  let st0 := (fresh_obj ex_afs, [0]) in
  let st1 := acc_set ex_afs 1 (VNum 7) true st0 in
  let st2 := acc_set ex_afs 3 (VStr [104; 105]) true st1 in
  let st3 := acc_setbit ex_afs 2 true true st2 in
  let st4 := acc_clear ex_afs 1 true st3 in
  let st5 := acc_set ex_afs 3 (VStr [104; 105]) false st0 in       (* nil pointer: TL2 bit only *)
  map (fun st => (map (fun i => acc_isset ex_afs i st) [1; 2; 3]%nat, snd st,
                  enc_obj false ex_schema 99 true (snd st) ex_afs (fst st))) [st0; st1; st2; st3; st4; st5]
  = [ ([false; false; false], [0], Some [0; 0; 0; 0]);
      ([true; false; false], [0], Some [1; 0; 0; 0; 7; 0; 0; 0]);
      ([true; false; true], [8], Some [1; 0; 0; 0; 7; 0; 0; 0; 2; 104; 105; 0]);
      ([true; true; true], [8], Some [3; 0; 0; 0; 7; 0; 0; 0; 2; 104; 105; 0]);
      ([false; true; true], [8], Some [2; 0; 0; 0; 2; 104; 105; 0]);
      ([false; false; true], [0], Some [0; 0; 0; 0]) ].
Proof. vm_compute. reflexivity. Qed.

Example C43_ex_consistent_writer :
  let st := acc_set ex_afs 1 (VNum 7) true (fresh_obj ex_afs, [0]) in
  enc_obj false ex_schema 99 false (snd st) ex_afs (fst st)
  = enc1 false ex_schema 4 false (snd st) (VStruct (wire_of ex_schema (snd st) ex_afs (fst st))).
Proof. vm_compute. reflexivity. Qed.
