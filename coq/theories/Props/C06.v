(** C06 -- JSON reader accepts documented alternative forms and rejects invalid ones.  Property theorems only;
    each is closed by [exact] of a lemma from Json/JsonAltProofs.v and followed by [Print Assumptions].
    Model: [jsonr] of Json/JsonModel.v = the generated ReadJSONGeneral (JSONReadContext{}: legacy type names off) read
    through WriteTL1; the helpers Json2ReadUnion / Json2ReadMaybe / Json2ReadString / Json2ReadInt32... are
    [jr_union_parts] / [jr_maybe_parts] / [jr_string_t] / [jr_prim].

    Full statement: for every tree j' reachable from jsonw v by the documented rewrites, jsonr j' = jsonr (jsonw v).
    The rewrites are the generator [jsonw_alt] of Json/JsonAltModel.v: every seed = some combination of them at
    every node (number as decimal string, string as base64 object, empty-valued member written / omitted, explicit
    mask member with implied bits dropped or omitted, members reordered, enum / union / Maybe forms, variant names).
    Proved: [C06_alternative_forms] for all seeds, all types, all values (same side conditions as C05), including the
    reordering of dictionary members ([rot] = true); plus each rewrite as an equation of the reader on ARBITRARY
    input, and the rejection rules. *)
From TLV Require Import Prim.PrimModel Tl1.Tl1Model Jprim.JprimModel
  Json.JsonModel Json.JsonAltModel Json.JsonProofs Json.JsonRoundtrip Json.JsonAltProofs Json.JsonAltRt.
From Coq Require Import Permutation.
Open Scope N_scope.

(** ** alternative forms *)
(** a number as a decimal string (Json2ReadUint32 / Int32 / Int64 / Float32 / Float64) *)
Theorem C06_number_as_decimal_string : forall fparse p t, num_ok t = true ->
  match p with PString | PBool _ _ | PNoTL1 => True
  | _ => jr_prim fparse p (Some (JStr t)) = jr_prim fparse p (Some (JNum t)) end.
Proof. exact alt_number_as_string. Qed.
Print Assumptions C06_number_as_decimal_string.

(** a string as {"base64": standard padded base64} -- for every byte string, valid UTF-8 or not *)
Theorem C06_string_as_base64_object : forall s, bytes_ok s ->
  jr_string_t (Some (JObj [(JStr s_base64, JStr (b64_enc s))])) = JOk s.
Proof. exact alt_string_as_base64. Qed.
Print Assumptions C06_string_as_base64_object.

(** Maybe: {"value":x} = {"ok":true,"value":x} (either order);  {"ok":false} = {} = omitted *)
Theorem C06_maybe_ok_optional : forall x,
  jr_maybe_parts (Some (JObj [(JStr s_value, x)])) = jr_maybe_parts (Some (JObj [(JStr s_ok, JBool true); (JStr s_value, x)]))
  /\ jr_maybe_parts (Some (JObj [(JStr s_value, x); (JStr s_ok, JBool true)])) = jr_maybe_parts (Some (JObj [(JStr s_ok, JBool true); (JStr s_value, x)])).
Proof. exact alt_maybe_ok_optional. Qed.
Print Assumptions C06_maybe_ok_optional.

Theorem C06_maybe_empty_forms :
  jr_maybe_parts (Some (JObj [(JStr s_ok, JBool false)])) = jr_maybe_parts (Some (JObj []))
  /\ jr_maybe_parts None = jr_maybe_parts (Some (JObj [])).
Proof. exact alt_maybe_empty. Qed.
Print Assumptions C06_maybe_empty_forms.

(** enum "T" = {"type":"T"};  union with a value-less variant {"type":"T"} = "T";  member order *)
Theorem C06_union_type_string : forall nm,
  jr_union_parts (Some (JStr nm)) = jr_union_parts (Some (JObj [(JStr s_type, JStr nm)])).
Proof. exact alt_union_type_string. Qed.
Print Assumptions C06_union_type_string.

Theorem C06_union_member_order : forall nm x,
  jr_union_parts (Some (JObj [(JStr s_value, x); (JStr s_type, JStr nm)]))
  = jr_union_parts (Some (JObj [(JStr s_type, JStr nm); (JStr s_value, x)])).
Proof. exact alt_union_member_order. Qed.
Print Assumptions C06_union_member_order.

(** members of a struct in any order: every permutation of ANY member list is read alike (accepted or not) *)
Theorem C06_struct_member_order : forall fparse js f t ps tag fds tl2 fis ms ms',
  nth_error js t = Some (TStruct tag fds, AStruct tl2 false fis) ->
  Permutation ms ms' ->
  jsonr fparse js (S f) t ps (Some (JObj ms')) = jsonr fparse js (S f) t ps (Some (JObj ms)).
Proof. exact alt_member_order_struct. Qed.
Print Assumptions C06_struct_member_order.

(** all combinations: whatever spelling the generator makes of a value (any seed), the reader returns the value --
    the same as for the canonical spelling *)
Theorem C06_alternative_forms : forall ffmt fparse js,
  (forall is64 b, ffinite is64 b = true -> num_ok (ffmt is64 b) = true) ->
  (forall is64 b, ffinite is64 b = true -> fparse is64 (ffmt is64 b) = Some b) ->
  wf_jschema js = true ->
  forall rot c t ps v j0 j fuel, (vdepth v < fuel)%nat ->
    jsonw ffmt js t ps v = Some j0 -> jsonw_alt ffmt js rot c t ps v = Some j -> jdiag js t ps false v = [] ->
    jsonr fparse js fuel t ps (Some j) = JOk v
    /\ jsonr fparse js fuel t ps (Some j) = jsonr fparse js fuel t ps (Some j0).
Proof. exact jsonw_alt_jsonr. Qed.
Print Assumptions C06_alternative_forms.

(** the canonical spelling itself is read back as the value (C05): the reference point of all of the above *)
Theorem C06_canonical_form_read_back : forall ffmt fparse js,
  (forall is64 b, ffinite is64 b = true -> num_ok (ffmt is64 b) = true) ->
  (forall is64 b, ffinite is64 b = true -> fparse is64 (ffmt is64 b) = Some b) ->
  wf_jschema js = true ->
  forall t ps v j fuel, (vdepth v < fuel)%nat ->
    jsonw ffmt js t ps v = Some j -> jdiag js t ps false v = [] ->
    jsonr fparse js fuel t ps (Some j) = JOk v.
Proof. exact jsonw_jsonr. Qed.
Print Assumptions C06_canonical_form_read_back.

(** ** rejections *)
Theorem C06_reject_unknown_key : forall fparse js f t ps tag fds tl2 fis ms,
  nth_error js t = Some (TStruct tag fds, AStruct tl2 false fis) ->
  keys_known (map jf_name fis) ms = false ->
  jsonr fparse js (S f) t ps (Some (JObj ms)) = JReject.
Proof. exact reject_unknown_key. Qed.
Print Assumptions C06_reject_unknown_key.

(** ([keys_known] is false as soon as one member's name is no field name) *)
Theorem C06_unknown_key_characterised : forall names ms k x,
  In (k, x) ms -> (forall nm, In nm names -> key_is nm k = false) -> keys_known names ms = false.
Proof. exact keys_known_false. Qed.
Print Assumptions C06_unknown_key_characterised.

Theorem C06_reject_duplicate_key : forall fparse js f t ps tag fds tl2 fis ms,
  nth_error js t = Some (TStruct tag fds, AStruct tl2 false fis) ->
  keys_nodup ms = false ->
  jsonr fparse js (S f) t ps (Some (JObj ms)) = JReject.
Proof. exact reject_duplicate_key. Qed.
Print Assumptions C06_reject_duplicate_key.

Theorem C06_duplicate_key_characterised : forall k x y a b c,
  keys_nodup (a ++ (JStr k, x) :: b ++ (JStr k, y) :: c) = false.
Proof. exact keys_nodup_dup. Qed.
Print Assumptions C06_duplicate_key_characterised.

Theorem C06_reject_array_length : forall fparse js f t ps k ef a l,
  nth_error js t = Some (TArray k ef, a) ->
  match k with
  | AVector => False
  | ATupleDyn => lenN l <> nth 0 ps 0
  | ATupleFixed c => lenN l <> c
  end ->
  jsonr fparse js (S f) t ps (Some (JArr l)) = JReject.
Proof. exact reject_array_length. Qed.
Print Assumptions C06_reject_array_length.

Theorem C06_reject_omitted_tuple : forall fparse js f t ps k ef a,
  nth_error js t = Some (TArray k ef, a) ->
  match k with
  | AVector => False
  | ATupleDyn => nth 0 ps 0 <> 0
  | ATupleFixed c => c <> 0
  end ->
  jsonr fparse js (S f) t ps None = JReject.
Proof. exact reject_omitted_tuple. Qed.
Print Assumptions C06_reject_omitted_tuple.

Theorem C06_reject_maybe_ok_false_with_value : forall fparse js f t ps vars tl2 is_enum vns ms x,
  nth_error js t = Some (TUnion vars, AUnion tl2 is_enum true vns) ->
  jfind s_ok ms = Some (JBool false) -> jfind s_value ms = Some x ->
  jsonr fparse js (S f) t ps (Some (JObj ms)) = JReject.
Proof. exact reject_maybe_ok_false_value. Qed.
Print Assumptions C06_reject_maybe_ok_false_with_value.

(** types without TL2: a true-typed member given false while its mask bit is set.  Field step, any kind of mask: *)
Theorem C06_reject_true_false_field : forall js recr rst ps allfds allfis ms sets adds fd fi idx acc,
  jf_bit fi = true -> jfind (jf_name fi) ms = Some (JBool false) -> nth idx sets false = false ->
  field_present ps acc fd = true ->
  jr_field js recr rst false ps allfds allfis ms sets adds fd fi idx acc = JReject.
Proof. exact reject_true_false_field. Qed.
Print Assumptions C06_reject_true_false_field.

(** ... whole object, for an outer / constant mask whose bit is set: never accepted *)
Theorem C06_reject_true_false_outer_mask : forall fparse js f t ps tag fds fis ms k fd fi a bit,
  nth_error js t = Some (TStruct tag fds, AStruct false false fis) ->
  nth_error fds k = Some fd -> nth_error fis k = Some fi ->
  jf_bit fi = true -> jfind (jf_name fi) ms = Some (JBool false) ->
  f_mask fd = Some (a, bit) -> (forall g, a <> NField g) -> N.testbit (eval_natarg ps [] a) bit = true ->
  forall r, jsonr fparse js (S f) t ps (Some (JObj ms)) <> JOk r.
Proof. exact reject_true_false_outer_mask. Qed.
Print Assumptions C06_reject_true_false_outer_mask.

(** ** the statements are not vacuous: cases.testLocalFieldmask-like struct  f1:# f3:f1.1?true *)
Definition n_f1 : bytes := [102; 49].
Definition n_f3 : bytes := [102; 51].
Definition js_mask : jschema :=
  [ (TPrim PNat, ANone);
    (TStruct 1072550713 [], AStruct false false []);
    (TStruct 7 [mkField 0 true None []; mkField 1 true (Some (NField 0, 1)) []],
     AStruct false false [mkJF n_f1 false; mkJF n_f3 true]) ].
Definition no_parse (_ : bool) (_ : bytes) : option N := None.
Definition no_fmt (_ : bool) (_ : N) : bytes := [48].
Definition v_mask : value := VStruct [Some (VNum 2); Some (VStruct [])].

(** four seeds, four spellings of f1=2, f3 present: {"f3":true,"f1":"2"}  {"f3":true}  {"f1":"0","f3":true}  {"f1":2,"f3":true} *)
Example ex_generator_spellings :
  map (fun c => option_map jprint (jsonw_alt no_fmt js_mask true c 2 [] v_mask)) [0; 1; 2; 3]
  = [Some [123; 34; 102; 51; 34; 58; 116; 114; 117; 101; 44; 34; 102; 49; 34; 58; 34; 50; 34; 125];
     Some [123; 34; 102; 51; 34; 58; 116; 114; 117; 101; 125];
     Some [123; 34; 102; 49; 34; 58; 34; 48; 34; 44; 34; 102; 51; 34; 58; 116; 114; 117; 101; 125];
     Some [123; 34; 102; 49; 34; 58; 50; 44; 34; 102; 51; 34; 58; 116; 114; 117; 101; 125]]
  /\ jsonw no_fmt js_mask 2 [] v_mask = jsonw_alt no_fmt js_mask true 3 2 [] v_mask
  /\ jdiag js_mask 2 [] false v_mask = [].
Proof. repeat split; vm_compute; reflexivity. Qed.

Example ex_mask_forms :
  wf_jschema js_mask = true
  (* {"f1":2,"f3":true} and {"f3":true} (mask bit implied) read alike *)
  /\ jsonr no_parse js_mask 5 2 [] (Some (JObj [(JStr n_f3, JBool true)]))
     = jsonr no_parse js_mask 5 2 [] (Some (JObj [(JStr n_f1, JNum [50]); (JStr n_f3, JBool true)]))
  /\ jsonr no_parse js_mask 5 2 [] (Some (JObj [(JStr n_f3, JBool true)])) = JOk (VStruct [Some (VNum 2); Some (VStruct [])])
  (* {"f1":2,"f3":false}: explicitly false while the bit is set *)
  /\ jsonr no_parse js_mask 5 2 [] (Some (JObj [(JStr n_f1, JNum [50]); (JStr n_f3, JBool false)])) = JReject
  (* {"f1":"2"}: number as string; unknown key; duplicate key *)
  /\ jsonr no_parse js_mask 5 2 [] (Some (JObj [(JStr n_f1, JStr [50])])) = JOk (VStruct [Some (VNum 2); Some (VStruct [])])
  /\ jsonr no_parse js_mask 5 2 [] (Some (JObj [(JStr [120], JNum [50])])) = JReject
  /\ jsonr no_parse js_mask 5 2 [] (Some (JObj [(JStr n_f1, JNum [50]); (JStr n_f1, JNum [50])])) = JReject.
Proof. repeat split; vm_compute; reflexivity. Qed.

(** the Maybe rule does not depend on the member order: cases.testMaybe value:(Maybe int), ok:false with a value *)
Definition js_maybe : jschema :=
  [ (TPrim PInt, ANone);
    (TStruct 663947899 [], AStruct false false []);
    (TStruct 1067224824 [mkField 0 true None []], AStruct false true [mkJF [] false]);
    (TUnion [1%nat; 2%nat], AUnion false false true [mkVN [114] [114]; mkVN [116] [116]]);
    (TStruct 3596625427 [mkField 3 false None []], AStruct false false [mkJF s_value false]) ].

Example ex_maybe_both_orders :
  wf_jschema js_maybe = true
  /\ jsonr no_parse js_maybe 6 4 [] (Some (JObj [(JStr s_value, JObj [(JStr s_ok, JBool false); (JStr s_value, JNum [49])])])) = JReject
  /\ jsonr no_parse js_maybe 6 4 [] (Some (JObj [(JStr s_value, JObj [(JStr s_value, JNum [49]); (JStr s_ok, JBool false)])])) = JReject
  /\ jsonr no_parse js_maybe 6 4 [] (Some (JObj [(JStr s_value, JObj [(JStr s_value, JNum [49]); (JStr s_ok, JBool true)])]))
     = JOk (VStruct [Some (VUnion 1 [Some (VNum 1)])])
  (* the exhaustive generator of the correspondence run produces both orders *)
  /\ In (JObj [(JStr s_value, JObj [(JStr s_value, JNum [49]); (JStr s_ok, JBool false)])])
        (jvariants (JObj [(JStr s_value, JObj [(JStr s_ok, JBool true); (JStr s_value, JNum [49])])]))
  /\ In (JObj [(JStr s_value, JObj [(JStr s_ok, JBool false); (JStr s_value, JNum [49])])])
        (jvariants (JObj [(JStr s_value, JObj [(JStr s_ok, JBool true); (JStr s_value, JNum [49])])])).
Proof. repeat split; try (vm_compute; reflexivity); vm_compute; tauto. Qed.
