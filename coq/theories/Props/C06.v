(** C06 -- JSON reader: alternative forms and rejections.  Property theorems only (placeholder). *)
From TLV Require Import Json.JsonModel Json.JsonAltModel.
Open Scope N_scope.

Theorem C06_placeholder : jprint (JObj []) = [123; 125].
Proof. reflexivity. Qed.
Print Assumptions C06_placeholder.
