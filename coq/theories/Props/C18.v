(** C18 -- random value generation yields valid, reproducible values.  Property theorems only.
    Model: coq/theories/Obj/ObjRandModel.v ([fill_random] = generated FillRandom + basictl.RandGenerator
    over the schema IR and the generator facts dumped from the real generator on every run; the
    random source is an arbitrary stream of 64-bit words).  TL2 and JSON writers are covered by the
    Go-side oracle of lib/checks/C18.py only: the Coq statements are TL1-level (partial). *)
From Coq Require Import Lia.
From TLV Require Import Prim.PrimModel Tl1.Tl1Model Tl1.Tl1Proofs Obj.ObjRandModel Obj.ObjRandProofs.
Open Scope N_scope.

(** Validity.  For every dump satisfying the (checked on every run) conditions [xwf], every type,
    every nat-parameter environment, every random stream and every fuel: a value FillRandom
    produces is accepted by the TL1 writer (array lengths agree with the size parameters, field
    masks agree with the present fields, dictionary keys are strictly sorted, numbers fit) ... *)
Theorem C18_valid : forall s x, xwf s x = true ->
  forall r fuel t ps v st', fill_random fuel s x t ps r = FOk (v, st') ->
  forall bare, bare_fits s t bare = true -> exists b, enc1 false s t bare ps v = Some b.
Proof. intros s x Hwf r fuel t ps v st' H. exact (fill_valid r (new_maxd r) s x Hwf fuel t ps _ v st' H). Qed.
Print Assumptions C18_valid.

(** ... and the bytes read back to the same value (with C01's round trip). *)
Theorem C18_valid_roundtrip : forall s x, xwf s x = true ->
  forall r fuel t ps v st', fill_random fuel s x t ps r = FOk (v, st') ->
  forall bare, bare_fits s t bare = true ->
  exists b, enc1 false s t bare ps v = Some b /\ dec1 (vdepth v) false s t bare ps b = Some (Ok (v, [])).
Proof.
  intros s x Hwf r fuel t ps v st' H bare Hb.
  destruct (C18_valid s x Hwf r fuel t ps v st' H bare Hb) as [b E]. exists b. split; [exact E|].
  assert (Hw : wf_schema s = true) by (unfold xwf in Hwf; now apply andb_true_iff in Hwf as [? _]).
  rewrite <- (app_nil_r b) at 1. exact (enc1_dec1 false s Hw v (vdepth v) (le_n _) t bare ps b [] E).
Qed.
Print Assumptions C18_valid_roundtrip.

(** Reproducibility: the result is a function of the words of the stream (same seed, same value) ... *)
Theorem C18_deterministic : forall fuel s x t ps r1 r2, (forall i, r1 i = r2 i) ->
  fill_random fuel s x t ps r1 = fill_random fuel s x t ps r2.
Proof. exact fill_random_ext. Qed.
Print Assumptions C18_deterministic.

(** ... and does not depend on the fuel once the fuel suffices. *)
Theorem C18_fuel_independent : forall s x t ps r fuel fuel' res,
  fill_random fuel s x t ps r = res -> res <> FFuel -> (fuel <= fuel')%nat -> fill_random fuel' s x t ps r = res.
Proof. intros s x t ps r fuel fuel' res. unfold fill_random. apply fill_fuel_stable. Qed.
Print Assumptions C18_fuel_independent.

(** Termination.  Full statement wanted: "for every accepted schema and every stream FillRandom returns".
    It is FALSE of the faithful model (C18_fill_random_refuted below, finding F7), and for recursive
    types it depends on the stream (a union draws its variant freely below the depth limit).
    Proved: every type of the non-recursive part of a schema (positive rank in a rank certificate
    accepted by [ranked], computed and checked for every dump) terminates for EVERY stream, with
    fuel = its rank. *)
Theorem C18_terminates_partial : forall s x rk, ranked s rk = true ->
  forall t fuel, (0 < rank_of rk t <= fuel)%nat ->
  forall r ps, fill_random fuel s x t ps r <> FFuel.
Proof. intros s x rk Hrk t fuel Ht r ps. unfold fill_random. exact (fill_terminates r (new_maxd r) s x rk Hrk fuel t Ht ps _). Qed.
Print Assumptions C18_terminates_partial.

(** F7: a schema the kernel accepts ([f7_schema] = dump of
      l.cons head:int tail:l.List = l.List;  l.nil = l.List;
      f7.top a:(tuple (tuple (tuple (tuple (tuple l.List 1) 1) 1) 1) 1) = f7.Top;)
    on which FillRandom of f7.top never returns, for EVERY stream and EVERY fuel: five nested
    fixed-size tuples saturate the depth counter (maxDepth <= 5), at the limit RandomUint is 0, unions
    do not touch the counter and take variant 0 = l.cons, whose tail is the union again. *)
Theorem C18_fill_random_refuted : exists s x t,
  xwf s x = true /\ forall r fuel, fill_random fuel s x t [] r = FFuel.
Proof. exists f7_schema, [], 14%nat. split; [vm_compute; reflexivity|exact f7_fill_random_diverges]. Qed.
Print Assumptions C18_fill_random_refuted.

(** The second way past the limiter (goldmaster's cycleTuple): IncreaseDepth is a no-op at the limit but the
    matching DecreaseDepth still decrements, so after a saturated subtree the siblings run below the limit. *)
Theorem C18_depth_unbalanced : forall maxd pos, 0 < maxd ->
  rs_cur (dec_depth (inc_depth maxd (mkRs pos maxd))) = maxd - 1.
Proof. exact depth_unbalanced. Qed.
Print Assumptions C18_depth_unbalanced.

(** The second mechanism at work (shape of goldmaster's cycleTuple: n:# ns:# a:n.0?(Tuple T 2) b:(Tuple T ns)): although
    maxDepth <= 5, on the splitmix stream of seed 5 the recursion is still going at nesting depth 150. *)
Definition ct_schema : schema :=
  [ TPrim PNat;
    TStruct 99 [mkField 0 true None []; mkField 0 true None [];
                mkField 2 true (Some (NField 0, 0)) [];
                mkField 3 true None [NField 1]];
    TArray (ATupleFixed 2) (mkField 1 true None []);
    TArray ATupleDyn (mkField 1 true None []) ].
Definition ct_x : xschema :=
  [ XPlain; XStruct [mkX false (UMask 1 false); mkX false USize; mkX true UNone; mkX false UNone]; XPlain; XPlain ].
Example ct_xwf : xwf ct_schema ct_x = true.
Proof. vm_compute. reflexivity. Qed.
Example ct_recursion_past_the_limit : fill_random 150 ct_schema ct_x 1 [] (splitmix 5) = FFuel.
Proof. vm_compute. reflexivity. Qed.

(** Non-vacuity: a schema with a field mask, a size field, a vector, a Maybe and a dictionary. *)
Definition ex_schema : schema :=
  [ TPrim PNat;                                                         (* 0 # *)
    TPrim PString;                                                      (* 1 string *)
    TPrim PInt;                                                         (* 2 int *)
    TArray AVector (mkField 2 true None []);                            (* 3 vector int *)
    TArray ATupleDyn (mkField 1 true None []);                          (* 4 tuple string n *)
    TStruct 11 [];                                                      (* 5 nothing *)
    TStruct 12 [mkField 3 true None []];                                (* 6 just (vector int) *)
    TUnion [5; 6]%nat;                                                  (* 7 Maybe (vector int) *)
    TStruct 13 [mkField 1 true None []; mkField 2 true None []];        (* 8 entry key:string value:int *)
    TDict PString (mkField 8 true None []);                             (* 9 dictionary *)
    TStruct 14 [mkField 0 true None []; mkField 0 true None [];         (* 10 top m:# n:# a:m.0?(tuple string n) b:(Maybe ..) c:m.1?dict *)
                mkField 4 true (Some (NField 0, 0)) [NField 1];
                mkField 7 false None [];
                mkField 9 true (Some (NField 0, 1)) []] ].
Definition ex_x : xschema :=
  [ XPlain; XPlain; XPlain; XPlain; XPlain; XStruct []; XStruct [mkX false UNone]; XMaybe; XStruct [mkX false UNone; mkX false UNone]; XPlain;
    XStruct [mkX false (UMask 3 false); mkX false USize; mkX false UNone; mkX false UNone; mkX false UNone] ].

Example ex_xwf : xwf ex_schema ex_x = true.
Proof. vm_compute. reflexivity. Qed.
Example ex_ranked : ranked ex_schema [1; 1; 1; 2; 2; 1; 3; 4; 2; 3; 5]%nat = true.
Proof. vm_compute. reflexivity. Qed.
Example ex_fill :
  match fill_random 5 ex_schema ex_x 10 [] (splitmix 7) with
  | FOk (v, _) => match enc1 false ex_schema 10 false [] v with Some (_ :: _) => true | _ => false end
  | _ => false
  end = true.
Proof. vm_compute. reflexivity. Qed.
