(** C22 -- the TL2 formatter (TL2File.Print / TL2Combinator.Print, default and canonical options) round-trips
    through ParseTL2File and is idempotent.

    Statement:  for every file a in the image of ParseTL2File and both option sets o:
        parse2 (fmt2 o a) = Ok a'  /\  erase a' = erase a        and        fmt2 o a' = fmt2 o a
    where [erase] drops positions and comments.

    Models (all tied to /repo's current source by the correspondence run of lib/checks/C22.py): [fmt2] = the Go
    printers, [lex2] = the TL2 lexer (significant tokens), [parse2] = lexer + ParseTL2File on those tokens with
    comments erased (Fmt2ParseModel; OptionalState transcribed).

    Proved, over all ASTs and every option record (so: default, canonical, any line widths):
      - [C22_roundtrip]: parse2 (fmt2 o a) = Some (erase a) for every well-formed a.  The hypotheses are the
        lexical ones ([wf_comb]: identifiers are identifiers, no type called Type, no bare marker, every trimmed
        comment line is a TL2 comment) and the structural ones ([wf2_file]: fields are named -- except the single
        anonymous result of a function --, a field is marked ignored exactly when its name starts with `_` and is
        then not optional, magic fits 32 bits and is non-zero for functions, unions are non-empty);
        lib/checks/C22.py evaluates them on every AST the real parser returns (ops of kind hypotheses): they hold
        for all of them (the one exception is the degenerate `f#00000001 => <=> ;`, accepted with an empty alias).
      - [C22_idempotent_ignoring_comments]: for an option set that ignores comments (the canonical one)
        fmt2 o (parse2 (fmt2 o a)) = fmt2 o a;  [C22_roundtrip_exact]: a comment-free file comes back exactly, with
        any option set (hence idempotence there too).
      - [C22_lex_fmt2]: the layout never loses, splits, merges or invents a token; the only thing it decides is
        whether the first variant of a union carries its bar ([comb_bar]); [C22_options_same_tokens].
      - the type-expression sub-grammar on its own: [C22_parse_print_typeref], [C22_print_typeref_injective].
    Refuted historically, both repaired in /repo and followed by the model: one-variant unions lost their bar
    ([C22_fmt2_old_single_variant_refuted], finding F8, commit 3b6a30bc); deprecated field names `_name` were printed
    `_` ([C22_old_dep_name_refuted], finding F19, commit 2301fcd1).
    Partial ([_partial]): with the default options the comments are part of the text; the parser model erases
    them, so idempotence with comments present (CommentBefore attachment) is observed on the Go side by every run
    of the check (print, re-parse, print again: texts compared), not proved. *)
From TLV Require Import Fmt2.Fmt2Model Fmt2.Fmt2LexModel Fmt2.Fmt2ParseModel Fmt2.Fmt2Proofs Fmt2.Fmt2PrintProofs Fmt2.Fmt2ParseProofs.
Open Scope N_scope.

Theorem C22_roundtrip : forall o f, forallb (wf_comb o) f = true -> wf2_file o f = true ->
  parse2 (fmt2 o f) = Some (map erase_comb f).
Proof. exact parse2_fmt2. Qed.
Print Assumptions C22_roundtrip.

Theorem C22_roundtrip_exact : forall o f, forallb nocm_comb f = true -> forallb (wf_comb o) f = true -> wf2_file o f = true ->
  parse2 (fmt2 o f) = Some f.
Proof. exact parse2_fmt2_exact. Qed.
Print Assumptions C22_roundtrip_exact.

Theorem C22_idempotent_ignoring_comments : forall o f, o_ignore o = true -> forallb (wf_comb o) f = true -> wf2_file o f = true ->
  exists f', parse2 (fmt2 o f) = Some f' /\ fmt2 o f' = fmt2 o f.
Proof. exact fmt2_idempotent_ignore. Qed.
Print Assumptions C22_idempotent_ignoring_comments.

(* with comments and the default options: only the erased round trip is proved; the text-level idempotence
   fmt2 default (parse (fmt2 default a)) = fmt2 default a needs the comment attachment of the parser *)
Theorem C22_idempotent_default_partial : forall f, forallb nocm_comb f = true ->
  forallb (wf_comb default_options) f = true -> wf2_file default_options f = true ->
  exists f', parse2 (fmt2 default_options f) = Some f' /\ fmt2 default_options f' = fmt2 default_options f.
Proof. intros f H1 H2 H3. exists f. split; [now apply parse2_fmt2_exact|reflexivity]. Qed.
Print Assumptions C22_idempotent_default_partial.

(** Historical (explains a regression; finding F19, repaired in /repo by commit 2301fcd1 and followed by the model):
    TL2Field.Print as it was ([print_field_old]: `_` for every ignored field) printed the deprecated field
    `_foo:A` like `_:A`, so its name could not come back; the current printer keeps them apart. *)
Theorem C22_old_dep_name_refuted :
  exists f f', f_name f <> f_name f' /\ wf_field_core f = true /\ wf_field_core f' = true /\
    print_field_old f = print_field_old f' /\ print_field f <> print_field f'.
Proof. exact fmt2_old_dep_name_refuted. Qed.
Print Assumptions C22_old_dep_name_refuted.

Theorem C22_lex_fmt2 : forall o f, forallb (wf_comb o) f = true -> lex2 (fmt2 o f) = Some (toks_file o f).
Proof. exact lex_fmt2. Qed.
Print Assumptions C22_lex_fmt2.

Theorem C22_lex_print_comb : forall o c, wf_comb o c = true ->
  lex2 (print_comb o c) = Some (toks_comb (comb_bar o c) c).
Proof. exact lex_print_comb. Qed.
Print Assumptions C22_lex_print_comb.

Theorem C22_options_same_tokens : forall c, wf_comb default_options c = true ->
  lex2 (print_comb default_options c) = Some (toks_comb (comb_bar default_options c) c) /\
  lex2 (print_comb canonical_options c) = Some (toks_comb (comb_bar canonical_options c) c) /\
  (is_union c = false -> lex2 (print_comb default_options c) = lex2 (print_comb canonical_options c)).
Proof. exact fmt2_options_same_tokens. Qed.
Print Assumptions C22_options_same_tokens.

Theorem C22_parse_print_typeref : forall t, wf_tref t = true ->
  parse_ty_bytes (print_tref t) = Some (POk t []).
Proof. exact parse_print_tref. Qed.
Print Assumptions C22_parse_print_typeref.

Theorem C22_parse_print_typeref_tail : forall t tail rest,
  wf_tref t = true -> nid tail -> lex2 tail = Some rest -> hd_is 60 rest = false ->
  parse_ty_bytes (print_tref t ++ tail) = Some (POk t rest).
Proof. exact parse_print_tref_tail. Qed.
Print Assumptions C22_parse_print_typeref_tail.

Theorem C22_print_typeref_injective : forall t1 t2,
  wf_tref t1 = true -> wf_tref t2 = true -> print_tref t1 = print_tref t2 -> t1 = t2.
Proof. exact print_tref_inj. Qed.
Print Assumptions C22_print_typeref_injective.

(* the lexer model is total: its fuel never runs out *)
Theorem C22_lex2_fuel_irrelevant : forall s f, (length s <= f)%nat -> lex_fuel f s = lex2 s.
Proof. intros s f H. unfold lex2. apply (lex_fuel_enough (length s)); auto. Qed.
Print Assumptions C22_lex2_fuel_irrelevant.

(** F8, repaired in /repo by commit 3b6a30bc and followed by the model: a union with exactly one variant is always
    written with its bar, whatever the layout, so its token stream starts like a union ([toks_def true]). *)
Theorem C22_single_variant_keeps_bar : forall o c, single_union c = true -> comb_bar o c = true.
Proof. exact single_variant_keeps_bar. Qed.
Print Assumptions C22_single_variant_keeps_bar.

(** Historical (explains a regression): the union loop as it was before the repair ([print_def_nl_old], the loop
    without its `len(Variants) == 1` disjunct) printed the one-variant union `| A` as `A`, the text of a struct
    with one anonymous field -- `f#00000001 => | A;` came back as `f#00000001 => A;`, `a = | A;` was rejected --
    while the current printer keeps the two apart. *)
Theorem C22_fmt2_old_single_variant_refuted :
  exists v f, forall o isret, o = default_options \/ o = canonical_options ->
    fst (print_def_nl_old o (DUnion [v]) false isret) = fst (print_def_nl o (DStruct [f]) false isret) /\
    fst (print_def_nl o (DUnion [v]) false isret) <> fst (print_def_nl o (DStruct [f]) false isret).
Proof. exact fmt2_old_single_variant_refuted. Qed.
Print Assumptions C22_fmt2_old_single_variant_refuted.

(** Non-vacuity and sanity, by computation. *)
Definition s (l : list N) : str := l.
Definition n_int : tname := TName [] [105; 110; 116].
Definition t_int : tref := TApp n_int false [].
(* testNs.testName#09abcdef<x:#,y:Type> = Green x:int | Red | SomeStr string;   (tlparser_tl2_code_test.go "check print") *)
Definition ex_union : comb :=
  Comb [] [] (DType (TName [116; 101; 115; 116; 78; 115] [116; 101; 115; 116; 78; 97; 109; 101]) 162254319
    [TParam [120] true; TParam [121] false]
    (DUnion [Variant [71; 114; 101; 101; 110] [] (VFields [Field [120] false false [] t_int]);
             Variant [82; 101; 100] [] (VFields []);
             Variant [83; 111; 109; 101; 83; 116; 114] [] (VAlias (TApp (TName [] [115; 116; 114; 105; 110; 103]) false []))])).
Example ex_union_text : print_comb default_options ex_union =
  [116; 101; 115; 116; 78; 115; 46; 116; 101; 115; 116; 78; 97; 109; 101; 35; 48; 57; 97; 98; 99; 100; 101; 102; 60; 120; 58; 35; 44;
   121; 58; 84; 121; 112; 101; 62; 32; 61; 32; 71; 114; 101; 101; 110; 32; 120; 58; 105; 110; 116; 32; 124; 32; 82; 101; 100; 32; 124;
   32; 83; 111; 109; 101; 83; 116; 114; 32; 115; 116; 114; 105; 110; 103; 59].
Proof. vm_compute. reflexivity. Qed.
Example ex_union_wf : wf_comb default_options ex_union = true.
Proof. vm_compute. reflexivity. Qed.
Example ex_union_lex : lex2 (print_comb default_options ex_union) = Some (toks_comb false ex_union).
Proof. vm_compute. reflexivity. Qed.
(* with a comment on a variant the union is laid out on several lines and the first bar appears *)
Definition ex_union_cm : comb :=
  Comb [47; 47; 32; 99] [[120]] (DType (TName [] [97]) 0 []
    (DUnion [Variant [65] [47; 47; 32; 118; 32; 32; 10; 32; 47; 47; 119] (VFields []); Variant [66] [] (VAlias (TIdx (ANum 3) t_int))])).
Example ex_union_cm_text : print_comb default_options ex_union_cm =
  [47; 47; 32; 99; 10; 64; 120; 32; 97; 32; 61; 32; 10; 9; 47; 47; 32; 118; 10; 9; 47; 47; 119; 10; 9; 124; 32; 65; 10; 9; 124; 32; 66; 32;
   91; 51; 93; 105; 110; 116; 59].
Proof. vm_compute. reflexivity. Qed.
Example ex_union_cm_bar : comb_bar default_options ex_union_cm = true /\ comb_bar canonical_options ex_union_cm = false.
Proof. split; vm_compute; reflexivity. Qed.
Example ex_union_cm_lex : wf_comb default_options ex_union_cm = true /\
  lex2 (print_comb default_options ex_union_cm) = Some (toks_comb true ex_union_cm).
Proof. split; vm_compute; reflexivity. Qed.
(* [[]list<[]int>]array<2,[][]string> *)
Definition ex_ty : tref :=
  TIdx (ATy (TArr (TApp (TName [] [108; 105; 115; 116]) false [ATy (TArr t_int)])))
       (TApp (TName [] [97; 114; 114; 97; 121]) false [ANum 2; ATy (TArr (TArr (TApp (TName [] [115; 116; 114; 105; 110; 103]) false [])))]).
Example ex_ty_roundtrip : wf_tref ex_ty = true /\ parse_ty_bytes (print_tref ex_ty) = Some (POk ex_ty []).
Proof. split; vm_compute; reflexivity. Qed.
(* the hypotheses exclude what the lexer would not give back: a type called Type, a bare marker *)
Example ex_not_wf : wf_tref (TApp (TName [] s_Type) false []) = false /\ wf_tref (TApp n_int true []) = false.
Proof. split; vm_compute; reflexivity. Qed.
(* F8 repaired: `a = | A;` is printed `a =  | A;`, `f#00000001 => | A;` as `f#00000001 =>  | A;` and both lex to a
   token stream with the bar *)
Example ex_f8_type : print_comb canonical_options f8_type_union = [97; 32; 61; 32; 32; 124; 32; 65; 59] /\
  print_comb canonical_options f8_union = [102; 35; 48; 48; 48; 48; 48; 48; 48; 49; 32; 61; 62; 32; 32; 124; 32; 65; 59] /\
  lex2 (print_comb canonical_options f8_union) = Some (toks_comb true f8_union) /\
  toks_comb true f8_union <> toks_comb true f8_struct.
Proof. repeat split; vm_compute; congruence. Qed.

(* the whole round trip on the examples: the hypotheses hold and the parser model gives the declarations back *)
Example ex_roundtrip : wf2_file default_options [ex_union; ex_union_cm; f8_union; f8_type_union] = true /\
  parse2 (fmt2 default_options [ex_union; ex_union_cm; f8_union; f8_type_union]) =
    Some (map erase_comb [ex_union; ex_union_cm; f8_union; f8_type_union]) /\
  parse2 (fmt2 canonical_options [ex_union; ex_union_cm]) = Some (map erase_comb [ex_union; ex_union_cm]).
Proof. repeat split; vm_compute; reflexivity. Qed.
(* function with two arguments and an anonymous result; `a = ;`; alias *)
Definition ex_func : comb :=
  Comb [] [[114]] (DFunc (TName [110] [102]) 3735928559 [Field [120] true false [] t_int; Field [95] false true [] ex_ty]
                         (DStruct [Field [] false false [] (TArr t_int)])).
Example ex_func_roundtrip : wf_comb default_options ex_func = true /\ wf2_file default_options [ex_func] = true /\
  fmt2 default_options [ex_func] =
    [64; 114; 32; 110; 46; 102; 35; 100; 101; 97; 100; 98; 101; 101; 102; 32; 120; 63; 58; 105; 110; 116; 32; 95; 58; 91; 91; 93; 108; 105;
     115; 116; 60; 91; 93; 105; 110; 116; 62; 93; 97; 114; 114; 97; 121; 60; 50; 44; 91; 93; 91; 93; 115; 116; 114; 105; 110; 103; 62; 32;
     61; 62; 32; 91; 93; 105; 110; 116; 59; 10] /\
  parse2 (fmt2 default_options [ex_func]) = Some [ex_func].
Proof. repeat split; vm_compute; reflexivity. Qed.
(* the structural hypotheses exclude what the parser cannot give back *)
Example ex_not_wf2 : wf2_file default_options [Comb [] [] (DFunc (TName [] [102]) 0 [] (DStruct []))] = false /\
  wf2_field (Field [95; 120] false false [] t_int) = false /\ wf2_field (Field [120] false true [] t_int) = false.
Proof. repeat split; vm_compute; reflexivity. Qed.
(* F19 repaired: `a = _foo:int;` comes back with its name *)
Example ex_f19 : wf_comb default_options f19_comb = true /\ wf2_file default_options [f19_comb] = true /\
  fmt2 canonical_options [f19_comb] = [97; 32; 61; 32; 95; 102; 111; 111; 58; 105; 110; 116; 59; 10] /\
  parse2 (fmt2 canonical_options [f19_comb]) = Some [f19_comb].
Proof. repeat split; vm_compute; reflexivity. Qed.
