(** C22 -- placeholder while the pipeline is brought up *)
From TLV Require Import Fmt2.Fmt2Model Fmt2.Fmt2LexModel Fmt2.Fmt2Proofs.
Open Scope N_scope.
