(** C22 -- the TL2 formatter (TL2File.Print / TL2Combinator.Print, default and canonical options) round-trips
    through ParseTL2File and is idempotent.

    Full statement (not proved: it needs a Gallina model of the whole TL2 parser):
      for every file a in the image of ParseTL2File and both option sets o:
        parse2 (fmt2 o a) = Ok a'  /\  erase a' = erase a   and   fmt2 o a' = fmt2 o a
    where [erase] drops positions and comments.  It is observed on the Go side by every run of lib/checks/C22.py
    (ParseTL2File -> Print -> ParseTL2File, AST dumps and texts compared), and it is FALSE as stated: see
    the deprecated-field-name finding (F19) of the check; finding F8 (one-variant unions) was repaired in /repo and
    is kept as [C22_fmt2_old_single_variant_refuted].

    Proved here, over all ASTs / all byte strings (the model [fmt2] is tied to the Go printers, [lex2] to the Go
    lexer and [parse_ty] to parseTL2Type by the correspondence run):
      - [C22_lex_fmt2_partial]: for every option record whatsoever (so: default, canonical, any line widths) the
        text printed for a well-formed file lexes -- comments, blanks, line breaks and indentation skipped -- to
        exactly the token stream [toks_file] of the AST: no token is lost, split, merged or invented by the layout
        (names next to names are separated, '<' is never followed by '=>', magic is exactly 8 hex digits, every
        comment line the printer writes is closed by a line feed before the next token, ...).  The only thing the
        layout decides is whether the first variant of a union carries its bar ([comb_bar]).
      - [C22_options_same_tokens]: hence default and canonical output carry the same tokens (identical for
        everything but unions, where they may differ in that one leading '|').
      - [C22_parse_print_typeref_partial], [C22_parse_print_typeref_tail_partial]: for the type-expression
        sub-grammar the round trip itself: lexing then parseTL2Type on a printed type reference returns that
        reference and stops exactly at its end; so [C22_print_typeref_injective].
    [_partial]: what is missing for the full statement is the parser above type expressions (fields, unions,
    declarations) and the comment attachment. *)
From TLV Require Import Fmt2.Fmt2Model Fmt2.Fmt2LexModel Fmt2.Fmt2Proofs Fmt2.Fmt2PrintProofs.
Open Scope N_scope.

Theorem C22_lex_fmt2_partial : forall o f, forallb (wf_comb o) f = true -> lex2 (fmt2 o f) = Some (toks_file o f).
Proof. exact lex_fmt2. Qed.
Print Assumptions C22_lex_fmt2_partial.

Theorem C22_lex_print_comb_partial : forall o c, wf_comb o c = true ->
  lex2 (print_comb o c) = Some (toks_comb (comb_bar o c) c).
Proof. exact lex_print_comb. Qed.
Print Assumptions C22_lex_print_comb_partial.

Theorem C22_options_same_tokens : forall c, wf_comb default_options c = true ->
  lex2 (print_comb default_options c) = Some (toks_comb (comb_bar default_options c) c) /\
  lex2 (print_comb canonical_options c) = Some (toks_comb (comb_bar canonical_options c) c) /\
  (is_union c = false -> lex2 (print_comb default_options c) = lex2 (print_comb canonical_options c)).
Proof. exact fmt2_options_same_tokens. Qed.
Print Assumptions C22_options_same_tokens.

Theorem C22_parse_print_typeref_partial : forall t, wf_tref t = true ->
  parse_ty_bytes (print_tref t) = Some (POk t []).
Proof. exact parse_print_tref. Qed.
Print Assumptions C22_parse_print_typeref_partial.

Theorem C22_parse_print_typeref_tail_partial : forall t tail rest,
  wf_tref t = true -> nid tail -> lex2 tail = Some rest -> hd_is 60 rest = false ->
  parse_ty_bytes (print_tref t ++ tail) = Some (POk t rest).
Proof. exact parse_print_tref_tail. Qed.
Print Assumptions C22_parse_print_typeref_tail_partial.

Theorem C22_print_typeref_injective : forall t1 t2,
  wf_tref t1 = true -> wf_tref t2 = true -> print_tref t1 = print_tref t2 -> t1 = t2.
Proof. exact print_tref_inj. Qed.
Print Assumptions C22_print_typeref_injective.

(* the lexer model is total: its fuel never runs out *)
Theorem C22_lex2_fuel_irrelevant : forall s f, (length s <= f)%nat -> lex_fuel f s = lex2 s.
Proof. intros s f H. unfold lex2. apply (lex_fuel_enough (length s)); auto. Qed.
Print Assumptions C22_lex2_fuel_irrelevant.

(** F8, repaired in /repo by commit 3b6a30bc and followed by the model: a union with exactly one variant is always
    written with its bar, whatever the layout, so its token stream starts like a union ([toks_def true]). *)
Theorem C22_single_variant_keeps_bar : forall o c, single_union c = true -> comb_bar o c = true.
Proof. exact single_variant_keeps_bar. Qed.
Print Assumptions C22_single_variant_keeps_bar.

(** Historical (explains a regression): the union loop as it was before the repair ([print_def_nl_old], the loop
    without its `len(Variants) == 1` disjunct) printed the one-variant union `| A` as `A`, the text of a struct
    with one anonymous field -- `f#00000001 => | A;` came back as `f#00000001 => A;`, `a = | A;` was rejected --
    while the current printer keeps the two apart. *)
Theorem C22_fmt2_old_single_variant_refuted :
  exists v f, forall o isret, o = default_options \/ o = canonical_options ->
    fst (print_def_nl_old o (DUnion [v]) false isret) = fst (print_def_nl o (DStruct [f]) false isret) /\
    fst (print_def_nl o (DUnion [v]) false isret) <> fst (print_def_nl o (DStruct [f]) false isret).
Proof. exact fmt2_old_single_variant_refuted. Qed.
Print Assumptions C22_fmt2_old_single_variant_refuted.

(** Non-vacuity and sanity, by computation. *)
Definition s (l : list N) : str := l.
Definition n_int : tname := TName [] [105; 110; 116].
Definition t_int : tref := TApp n_int false [].
(* testNs.testName#09abcdef<x:#,y:Type> = Green x:int | Red | SomeStr string;   (tlparser_tl2_code_test.go "check print") *)
Definition ex_union : comb :=
  Comb [] [] (DType (TName [116; 101; 115; 116; 78; 115] [116; 101; 115; 116; 78; 97; 109; 101]) 162254319
    [TParam [120] true; TParam [121] false]
    (DUnion [Variant [71; 114; 101; 101; 110] [] (VFields [Field [120] false false [] t_int]);
             Variant [82; 101; 100] [] (VFields []);
             Variant [83; 111; 109; 101; 83; 116; 114] [] (VAlias (TApp (TName [] [115; 116; 114; 105; 110; 103]) false []))])).
Example ex_union_text : print_comb default_options ex_union =
  [116; 101; 115; 116; 78; 115; 46; 116; 101; 115; 116; 78; 97; 109; 101; 35; 48; 57; 97; 98; 99; 100; 101; 102; 60; 120; 58; 35; 44;
   121; 58; 84; 121; 112; 101; 62; 32; 61; 32; 71; 114; 101; 101; 110; 32; 120; 58; 105; 110; 116; 32; 124; 32; 82; 101; 100; 32; 124;
   32; 83; 111; 109; 101; 83; 116; 114; 32; 115; 116; 114; 105; 110; 103; 59].
Proof. vm_compute. reflexivity. Qed.
Example ex_union_wf : wf_comb default_options ex_union = true.
Proof. vm_compute. reflexivity. Qed.
Example ex_union_lex : lex2 (print_comb default_options ex_union) = Some (toks_comb false ex_union).
Proof. vm_compute. reflexivity. Qed.
(* with a comment on a variant the union is laid out on several lines and the first bar appears *)
Definition ex_union_cm : comb :=
  Comb [47; 47; 32; 99] [[120]] (DType (TName [] [97]) 0 []
    (DUnion [Variant [65] [47; 47; 32; 118; 32; 32; 10; 32; 47; 47; 119] (VFields []); Variant [66] [] (VAlias (TIdx (ANum 3) t_int))])).
Example ex_union_cm_text : print_comb default_options ex_union_cm =
  [47; 47; 32; 99; 10; 64; 120; 32; 97; 32; 61; 32; 10; 9; 47; 47; 32; 118; 10; 9; 47; 47; 119; 10; 9; 124; 32; 65; 10; 9; 124; 32; 66; 32;
   91; 51; 93; 105; 110; 116; 59].
Proof. vm_compute. reflexivity. Qed.
Example ex_union_cm_bar : comb_bar default_options ex_union_cm = true /\ comb_bar canonical_options ex_union_cm = false.
Proof. split; vm_compute; reflexivity. Qed.
Example ex_union_cm_lex : wf_comb default_options ex_union_cm = true /\
  lex2 (print_comb default_options ex_union_cm) = Some (toks_comb true ex_union_cm).
Proof. split; vm_compute; reflexivity. Qed.
(* [[]list<[]int>]array<2,[][]string> *)
Definition ex_ty : tref :=
  TIdx (ATy (TArr (TApp (TName [] [108; 105; 115; 116]) false [ATy (TArr t_int)])))
       (TApp (TName [] [97; 114; 114; 97; 121]) false [ANum 2; ATy (TArr (TArr (TApp (TName [] [115; 116; 114; 105; 110; 103]) false [])))]).
Example ex_ty_roundtrip : wf_tref ex_ty = true /\ parse_ty_bytes (print_tref ex_ty) = Some (POk ex_ty []).
Proof. split; vm_compute; reflexivity. Qed.
(* the hypotheses exclude what the lexer would not give back: a type called Type, a bare marker *)
Example ex_not_wf : wf_tref (TApp (TName [] s_Type) false []) = false /\ wf_tref (TApp n_int true []) = false.
Proof. split; vm_compute; reflexivity. Qed.
(* F8 repaired: `a = | A;` is printed `a =  | A;`, `f#00000001 => | A;` as `f#00000001 =>  | A;` and both lex to a
   token stream with the bar *)
Example ex_f8_type : print_comb canonical_options f8_type_union = [97; 32; 61; 32; 32; 124; 32; 65; 59] /\
  print_comb canonical_options f8_union = [102; 35; 48; 48; 48; 48; 48; 48; 48; 49; 32; 61; 62; 32; 32; 124; 32; 65; 59] /\
  lex2 (print_comb canonical_options f8_union) = Some (toks_comb true f8_union) /\
  toks_comb true f8_union <> toks_comb true f8_struct.
Proof. repeat split; vm_compute; congruence. Qed.
