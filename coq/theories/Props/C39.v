(** C39 -- the RPC server enforces worker and request-memory limits.  (partial)

    PROVED: the worker pool of pkg/rpc/server_workerpool.go (Get / Put / GC / Close) and the request memory
    accounting of pkg/rpc/server.go (acquireRequestSema before a request is read and handled, releaseRequestBuf
    after; a counting semaphore used only through TryAcquire / Acquire / Release), transcribed in Rpc/RpcModel.v,
    for ALL operation sequences.
    NOT proved (observed by the concurrent bursts): goroutines, condition variables, the real semaphore
    (internal/vkgo/pkg/semaphore, property C42), handlers that run outside the pool (SyncHandler, MaxWorkers = 0).
    Property theorems only; each is closed by [exact] of a lemma of Rpc/RpcAdmProofs.v. *)
From Coq Require Import NArith ZArith List Bool.
From TLV Require Import Rpc.RpcModel Rpc.RpcAdmProofs.
Import ListNotations.
Open Scope Z_scope.

(** worker limit: after any sequence of Get / Put / GC / Close (Put only of workers handed out by Get, as
    server.go does), the workers handed out -- an upper bound of the handlers running on pool workers -- are
    at most [created], and [created] is at most max(1, MaxWorkers). *)
Theorem C39_worker_limit : forall dur create ops s, ws_run dur (ws_init create) ops = Some s ->
  Z.of_nat (length (ws_busy s)) <= wp_created (ws_pool s) /\
  wp_created (ws_pool s) <= wp_create (ws_pool s) /\
  wp_create (ws_pool s) = Z.max 1 create.
Proof. exact worker_limit. Qed.
Print Assumptions C39_worker_limit.

(** excess load waits: Get blocks exactly when the pool is open, no worker is free and the limit is reached. *)
Theorem C39_get_waits_iff : forall t, snd (wp_get t) = GWait <->
  wp_closed t = false /\ wp_free t = [] /\ wp_create t <= wp_created t.
Proof. exact get_waits_iff. Qed.
Print Assumptions C39_get_waits_iff.

(** ... and it does not wait for ever: a Put on an open pool lets the next Get through. *)
Theorem C39_put_enables_get : forall t w now dur, wp_closed t = false ->
  snd (wp_get (fst (wp_put t w now dur))) <> GWait.
Proof. exact put_enables_get. Qed.
Print Assumptions C39_put_enables_get.

(** memory limit: after any sequence of request arrivals, releases and cancelled waits, the accounted request
    memory equals the sum of max(body length, RequestBufSize) over the admitted requests, lies in [0, limit],
    and no admitted request is larger than the limit. *)
Theorem C39_memory_limit : forall limit buf ops a, 0 <= limit -> adm_run (adm_init limit buf) ops = Some a ->
  sm_cur (ad_sem a) = sum_held (ad_held a) /\ 0 <= sm_cur (ad_sem a) <= limit /\
  (forall id n, In (id, n) (ad_held a) -> 0 <= n <= limit) /\ sm_size (ad_sem a) = limit.
Proof. exact memory_limit. Qed.
Print Assumptions C39_memory_limit.

(** releasing what an admitted request holds never panics ("semaphore: released more than held"). *)
Theorem C39_release_never_panics : forall limit buf ops a id n, 0 <= limit ->
  adm_run (adm_init limit buf) ops = Some a -> find id (ad_held a) = Some n ->
  adm_step a (ARelease id) <> None.
Proof. exact release_never_panics. Qed.
Print Assumptions C39_release_never_panics.

(** Non-vacuity. *)
(* limit 2: two workers created, the third Get waits; after a Put the next Get reuses the worker *)
Example C39_ex_pool :
  match ws_run 60000 (ws_init 2) [WGet; WGet; WGet; WPut 1 1000; WGet] with
  | Some s => wp_created (ws_pool s) = 2 /\ ws_busy s = [1%N; 2%N] /\ wp_free (ws_pool s) = []
  | None => False
  end.
Proof. vm_compute. auto. Qed.
Example C39_ex_pool_waits : snd (wp_get (ws_pool (match ws_run 60000 (ws_init 2) [WGet; WGet] with Some s => s | None => ws_init 0 end))) = GWait.
Proof. vm_compute. reflexivity. Qed.
(* MaxWorkers = 0 still gives a pool of one worker (workerPoolNew) *)
Example C39_ex_pool_min : wp_create (wp_new 0) = 1.
Proof. vm_compute. reflexivity. Qed.

(* limit 10000, RequestBufSize 4096: 100-byte and 5000-byte requests are admitted (4096 + 5000), a 3000-byte one
   waits, a 20000-byte one is never admitted; releasing the first admits the waiter *)
Example C39_ex_memory :
  match adm_run (adm_init 10000 4096) [AArrive 1 100; AArrive 2 5000; AArrive 3 3000; AArrive 4 20000; ARelease 1] with
  | Some a => sm_cur (ad_sem a) = 9096 /\ ad_held a = [(2%N, 5000); (3%N, 4096)] /\ sm_wait (ad_sem a) = []
  | None => False
  end.
Proof. vm_compute. auto. Qed.

(* with the default RequestBufSize (regenerated from server.go on every run) a 100-byte request accounts for a whole buffer *)
Example C39_ex_default_buf :
  req_take (Z.of_N rpc_DefaultServerRequestBufSize) 100 = Z.max 100 (Z.of_N rpc_DefaultServerRequestBufSize).
Proof. reflexivity. Qed.
