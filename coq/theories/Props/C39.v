(** C39 -- placeholder while the pipeline is brought up *)
From Coq Require Import NArith ZArith.
From TLV Require Import Rpc.RpcModel.
Open Scope N_scope.
Example C39_ex_take : req_take 4096 100 = 4096%Z.
Proof. vm_compute. reflexivity. Qed.
