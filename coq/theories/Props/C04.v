(** C04 -- TL1-to-TL2 conversion preserves values.  Property theorems only.
    Models: Tl1/Tl1Model.v ([enc1]/[dec1] = generated WriteTL1/ReadTL1) and Tl2/Tl2Model.v
    ([enc2]/[dec2] = generated WriteTL2/ReadTL2) over the same schema IR and the same values
    (after ReadTL1 the tl2mask presence bits mirror the TL1 masks and absent fields are reset, so
    the TL1 wire value IS the Go object state the TL2 writer sees). *)
From TLV Require Import Prim.PrimModel Tl1.Tl1Model Tl1.Tl1Proofs Tl2.Tl2Model Tl2.Tl2Blocks Tl2.Tl2Proofs.
Open Scope N_scope.

(** For every well-formed schema, type, nat-parameter environment and TL1 bytes [b1] of a value [v]
    (exactly the inputs ReadTL1 decodes to [v], by C01): if [v] is its own TL2 normal form (no
    non-optional float/double field holds -0.0, see C04_refuted_negative_zero), then writing it in
    TL2, reading that back and writing TL1 again yields [b1]. *)
Theorem C04_conversion : forall san s x, wf2 s x = true ->
  forall v t bare ps b1 b2 fuel,
    enc1 san s t bare ps v = Some b1 -> (vdepth v <= fuel)%nat ->
    dec1 fuel san s t bare ps b1 = Some (Ok (v, [])) /\
    (enc2 s x t false v = Some b2 -> norm2 s x t false v = v ->
     exists v2, dec2 fuel s x t b2 = Some (Ok (v2, [])) /\ enc1 san s t bare ps v2 = Some b1).
Proof.
  intros san s x Hwf v t bare ps b1 b2 fuel H1 Hd.
  destruct (tl1_tl2_tl1 san s x Hwf v t bare ps b1 fuel H1 Hd) as [R1 R2].
  split; [exact R1|]. intros H2 Hn. exists v. split; [exact (R2 b2 H2 Hn)|exact H1].
Qed.
Print Assumptions C04_conversion.

(** the side condition holds for every value of a schema without float/double *)
Theorem C04_conversion_without_floats : forall san s x, wf2 s x = true -> no_float s = true ->
  forall v t bare ps b1 b2 fuel,
    enc1 san s t bare ps v = Some b1 -> (vdepth v <= fuel)%nat -> enc2 s x t false v = Some b2 ->
    exists v2, dec2 fuel s x t b2 = Some (Ok (v2, [])) /\ enc1 san s t bare ps v2 = Some b1.
Proof.
  intros san s x Hwf Hnf v t bare ps b1 b2 fuel H1 Hd H2.
  destruct (C04_conversion san s x Hwf v t bare ps b1 b2 fuel H1 Hd) as [_ R].
  exact (R H2 (norm2_no_float s x Hnf v t false)).
Qed.
Print Assumptions C04_conversion_without_floats.

(** in general the TL2 detour yields the TL1 bytes of the normal form *)
Theorem C04_conversion_normal_form : forall s x, wf2 s x = true ->
  forall v t b2 fuel, enc2 s x t false v = Some b2 -> (vdepth v <= fuel)%nat ->
    dec2 fuel s x t b2 = Some (Ok (norm2 s x t false v, [])).
Proof.
  intros s x Hwf v t b2 fuel H2 Hd. pose proof (enc2_dec2 s x Hwf v t b2 fuel [] H2 Hd) as R.
  now rewrite app_nil_r in R.
Qed.
Print Assumptions C04_conversion_normal_form.

(** The full statement (without the side condition) is FALSE of the faithful model and of the
    code: [f.fl a:float = f.Fl] with a = -0.0 (TL1 bytes 00 00 00 80): the generated TL2 writer
    tests [item.A != 0], which is false for -0.0, omits the field (TL2 bytes 00), the reader
    resets it, and TL1 written from that object is 00 00 00 00. *)
Definition negzero_schema : schema := [ TPrim PFloat; TStruct 1234 [mkField 0 true None []] ].
Definition negzero_x : tl2x := mkX (fun _ => false) (fun _ _ => false) (fun _ => 0).
Definition negzero_value : value := VStruct [Some (VNum 2147483648)].

Theorem C04_refuted_negative_zero :
  wf2 negzero_schema negzero_x = true /\
  enc1 true negzero_schema 1 true [] negzero_value = Some [0; 0; 0; 128] /\
  dec1 5 true negzero_schema 1 true [] [0; 0; 0; 128] = Some (Ok (negzero_value, [])) /\
  enc2 negzero_schema negzero_x 1 false negzero_value = Some [0] /\
  dec2 5 negzero_schema negzero_x 1 [0] = Some (Ok (VStruct [Some (VNum 0)], [])) /\
  enc1 true negzero_schema 1 true [] (VStruct [Some (VNum 0)]) = Some [0; 0; 0; 0].
Proof. vm_compute. repeat split; reflexivity. Qed.
Print Assumptions C04_refuted_negative_zero.

(** Non-vacuity: a struct with a local field mask (bit field + masked int), a union and a
    dynamic tuple sized by a field: TL1 -> TL2 -> TL1 computes to the original bytes. *)
Definition ex_schema : schema :=
  [ TPrim PNat;                                                        (* 0 *)
    TPrim PString;                                                     (* 1 *)
    TStruct 100 [];                                                    (* 2: true *)
    TArray ATupleDyn (mkField 0 true None []);                         (* 3: n*[#] *)
    TStruct 21 []; TStruct 22 [mkField 1 true None []];                (* 4, 5: variants *)
    TUnion [4%nat; 5%nat];                                             (* 6 *)
    TStruct 41 [mkField 0 true None []; mkField 2 true (Some (NField 0, 0)) []; mkField 0 true (Some (NField 0, 1)) [];
                mkField 6 false None []; mkField 3 true None [NField 0]] ].   (* 7 *)
Definition ex_x : tl2x :=
  mkX (fun _ => false) (fun t i => Nat.eqb t 7 && Nat.eqb i 1) (fun t => if Nat.eqb t 5 then 1 else 0).
Definition ex_value : value :=
  VStruct [Some (VNum 3); Some (VStruct []); Some (VNum 0); Some (VUnion 1 [Some (VStr [104; 105])]);
           Some (VArr [VNum 1; VNum 0; VNum 5])].

Example C04_ex_wf : wf2 ex_schema ex_x = true /\ no_float ex_schema = true.
Proof. vm_compute. split; reflexivity. Qed.
Example C04_ex_conversion :
  match enc1 true ex_schema 7 false [] ex_value, enc2 ex_schema ex_x 7 false ex_value with
  | Some b1, Some b2 =>
      dec1 9 true ex_schema 7 false [] b1 = Some (Ok (ex_value, [])) /\
      match dec2 9 ex_schema ex_x 7 b2 with
      | Some (Ok (v2, [])) => enc1 true ex_schema 7 false [] v2 = Some b1 /\ lenN b1 = 32 /\ lenN b2 = 30
      | _ => False
      end
  | _, _ => False
  end.
Proof. vm_compute. repeat split; reflexivity. Qed.
