(** C02 -- TL1 readers accept only canonical encodings.  Property theorems only. *)
From TLV Require Import Prim.PrimModel Prim.PrimProofs Tl1.Tl1Model Tl1.Tl1Proofs Tl1.Tl1Canon Tl1.Tl1Dict.
From TLV Require Import Tl1.Tl1CanonDict.
Open Scope N_scope.

(** THE property, for EVERY well-formed schema -- map-backed dictionaries anywhere, nested at any
    depth --, every type (bare or boxed), every nat environment, every byte string, every fuel and
    both settings of the length-sanity option: if the reader accepts, the input is
    (accepted prefix [pfx]) ++ (unread rest), the writer accepts the decoded value and writes
    [pfx'], and [pfx] and [pfx'] are related by [dict_equiv] (Tl1CanonDict.v, inductive [DEQ]):
    same constructor tags, same primitive values, same counts of vectors / tuples, and inside each
    dictionary [pfx] lists received entries [l] in any order where [pfx'] lists [pnorm kp l] --
    the same entries sorted by the writer's key order, an entry dropped iff a later received entry
    has the same key (count = number of survivors).  This is the property text including its
    dictionary exception; nothing is excluded. *)
Theorem C02_canonical_modulo_dict : forall san s, wf_schema s = true ->
  forall fuel t bare ps b v rest,
    bytes_ok b ->
    dec1 fuel san s t bare ps b = Some (Ok (v, rest)) ->
    exists pfx pfx', b = pfx ++ rest /\ enc1 false s t bare ps v = Some pfx' /\ dict_equiv s t bare ps pfx pfx'.
Proof. exact dec1_canonical_modulo_dict. Qed.
Print Assumptions C02_canonical_modulo_dict.

(** [dict_equiv] allows a difference ONLY inside dictionaries: on a schema without them it is equality *)
Theorem C02_dict_equiv_is_equality_without_dictionaries : forall s t bare ps x y,
  no_dict s = true -> dict_equiv s t bare ps x y -> x = y.
Proof. exact dict_equiv_no_dict. Qed.
Print Assumptions C02_dict_equiv_is_equality_without_dictionaries.

(** every accepted input decodes to a value the writer accepts (no accepted input is a dead end) *)
Theorem C02_accepted_input_reencodable : forall san s, wf_schema s = true ->
  forall fuel t bare ps b v rest,
    bytes_ok b ->
    dec1 fuel san s t bare ps b = Some (Ok (v, rest)) ->
    exists pfx pfx', b = pfx ++ rest /\ enc1 false s t bare ps v = Some pfx'.
Proof. exact dec1_reencodable. Qed.
Print Assumptions C02_accepted_input_reencodable.

(** the re-emitted bytes are canonical in the strict sense: followed by anything they are read back
    (the fuel that read the original input is enough) to the same value, and they are what the
    writer writes for it -- read-then-write is the identity on them.  With the reader's
    length-sanity option on, the strict writer must accept the value: a count followed by fewer
    than 4 bytes per element is refused by that reader whoever wrote it ([C02_ex_sanity_limit]). *)
Theorem C02_canonical_form_fixed : forall san s, wf_schema s = true ->
  forall fuel t bare ps b v rest,
    bytes_ok b ->
    dec1 fuel san s t bare ps b = Some (Ok (v, rest)) ->
    exists pfx pfx', b = pfx ++ rest /\ enc1 false s t bare ps v = Some pfx' /\
      forall san' fuel' rest', (fuel <= fuel')%nat ->
        (san' = true -> enc1 true s t bare ps v <> None) ->
        dec1 fuel' san' s t bare ps (pfx' ++ rest') = Some (Ok (v, rest')).
Proof. exact dec1_canonical_form_fixed. Qed.
Print Assumptions C02_canonical_form_fixed.

(** The special case without map-backed dictionaries: the accepted prefix IS what the writer
    writes.  Kept under its historical name; it is no longer the strongest statement -- it is the
    corollary [dec1_canonical_from_modulo_dict] of [C02_canonical_modulo_dict] and
    [C02_dict_equiv_is_equality_without_dictionaries] (and is still proved directly in Tl1Canon.v).
    Nothing of the property text is left PARTIAL: schemas with dictionaries are covered by
    [C02_canonical_modulo_dict]; the model's dictionary semantics [dict_insert] (Tl1Model.v) is
    compared with the generated code on every run (corr:C02:accept). *)
Theorem C02_canonical_partial : forall san s, wf_schema s = true -> no_dict s = true ->
  forall fuel t bare ps b v rest,
    bytes_ok b ->
    dec1 fuel san s t bare ps b = Some (Ok (v, rest)) ->
    exists pfx, b = pfx ++ rest /\ enc1 false s t bare ps v = Some pfx.
Proof. intros san s Hwf Hnd fuel t bare ps b v rest Hb H. exact (dec1_canonical san s Hwf Hnd fuel t bare ps b v rest Hb H). Qed.
Print Assumptions C02_canonical_partial.

Theorem C02_canonical_without_dictionaries_is_corollary : forall san s, wf_schema s = true -> no_dict s = true ->
  forall fuel t bare ps b v rest,
    bytes_ok b ->
    dec1 fuel san s t bare ps b = Some (Ok (v, rest)) ->
    exists pfx, b = pfx ++ rest /\ enc1 false s t bare ps v = Some pfx.
Proof. intros san s Hwf Hnd fuel t bare ps b v rest Hb H. exact (dec1_canonical_from_modulo_dict san s Hwf Hnd fuel t bare ps b v rest Hb H). Qed.
Print Assumptions C02_canonical_without_dictionaries_is_corollary.

(** whatever entries were received (any order, any duplicates, keys of ANY shape as long as they
    are all of one value constructor -- which is what one element reader returns): the decoded
    dictionary is strictly sorted by the writer's key order, so the writer accepts it *)
Theorem C02_dict_decoded_sorted_any_keys : forall kp c es,
  kc_uniform c es -> keys_sorted kp (fold_left (fun a e => dict_insert kp e a) es []) = true.
Proof. exact dict_norm_sorted. Qed.
Print Assumptions C02_dict_decoded_sorted_any_keys.

(** strictly sorted entries are rebuilt exactly *)
Theorem C02_dict_sorted_input_unchanged : forall kp es,
  keys_sorted kp es = true -> fold_left (fun a e => dict_insert kp e a) es [] = es.
Proof. intros kp es H. exact (dict_fold_sorted kp es [] H). Qed.
Print Assumptions C02_dict_sorted_input_unchanged.


(** the dictionary clause of the property, at the level of the decoded entry list: whatever entry
    list was received (any order, any duplicates; keys of the key primitive's shape, which is what
    [dec_prim kp] produces), the decoded dictionary is strictly sorted by the writer's key order --
    so the writer accepts it and re-emits it sorted with duplicates removed -- and holds for every
    key the LAST received entry with that key (Go map assignment). *)
Theorem C02_dict_reemitted_sorted_without_duplicates : forall kp es,
  shaped kp es ->
  keys_sorted kp (fold_left (fun a e => dict_insert kp e a) es []) = true.
Proof. intros kp es H. exact (proj1 (dict_fold_is_sorted kp es [] H (Forall_nil _) eq_refl)). Qed.
Print Assumptions C02_dict_reemitted_sorted_without_duplicates.

Theorem C02_dict_last_entry_wins : forall kp k es,
  key_shape kp k -> shaped kp es ->
  find_key kp k (fold_left (fun a e => dict_insert kp e a) es []) = find_last kp k es.
Proof.
  intros kp k es Hk H. rewrite (dict_fold_last_wins kp k es [] Hk H (Forall_nil _) eq_refl).
  destruct (find_last kp k es); reflexivity.
Qed.
Print Assumptions C02_dict_last_entry_wins.

(** unknown constructor tags are rejected *)
Theorem C02_unknown_union_tag_rejected : forall san s t vars tag fuel ps r,
  nth_error s t = Some (TUnion vars) -> tag < 4294967296 ->
  find_variant s vars tag 0 = None ->
  dec1 (S fuel) san s t false ps (nat_w tag ++ r) = Some Reject.
Proof. exact c02_unknown_union_tag_rejected. Qed.
Print Assumptions C02_unknown_union_tag_rejected.

Theorem C02_wrong_struct_tag_rejected : forall san s t tag fds x fuel ps r,
  nth_error s t = Some (TStruct tag fds) -> x < 4294967296 -> x <> tag ->
  dec1 (S fuel) san s t false ps (nat_w x ++ r) = Some Reject.
Proof. exact c02_wrong_struct_tag_rejected. Qed.
Print Assumptions C02_wrong_struct_tag_rejected.

(** non-boolean Bool tags are rejected *)
Theorem C02_bad_bool_tag_rejected : forall ftag ttag x r,
  x < 4294967296 -> x <> ftag -> x <> ttag ->
  dec_prim (PBool ftag ttag) (nat_w x ++ r) = Reject.
Proof. exact c02_bad_bool_tag_rejected. Qed.
Print Assumptions C02_bad_bool_tag_rejected.

(** non-minimal string length forms and non-zero padding (from C33's model, used by [dec_prim PString]) *)
Theorem C02_string_nonminimal_medium_rejected : forall l r,
  l <= tinyStringLen -> dec_prim PString (mediumStringMarker :: le_bytes 3 l ++ r) = Reject.
Proof. exact c02_string_nonminimal_medium_rejected. Qed.
Print Assumptions C02_string_nonminimal_medium_rejected.

Theorem C02_string_nonminimal_huge_rejected : forall l r,
  l <= maxMediumStringLen -> dec_prim PString (hugeStringMarker :: le_bytes 7 l ++ r) = Reject.
Proof. exact c02_string_nonminimal_huge_rejected. Qed.
Print Assumptions C02_string_nonminimal_huge_rejected.

Theorem C02_string_bad_padding_rejected : forall s h p pad' rest,
  str1_hdr (lenN s) = Some (h, p) -> lenN pad' = padding_len p -> all_zero pad' = false ->
  dec_prim PString (h ++ s ++ pad' ++ rest) = Reject.
Proof. exact c02_string_bad_padding_rejected. Qed.
Print Assumptions C02_string_bad_padding_rejected.

(** Non-vacuity: the reader accepts a prefix of a longer input and the theorem's conclusion computes. *)
Definition ex2_schema : schema :=
  [ TPrim PNat; TPrim PString;
    TStruct 21 []; TStruct 22 [mkField 1 true None []];
    TUnion [2%nat; 3%nat];
    TArray AVector (mkField 4 false None []) ].
Example C02_ex : wf_schema ex2_schema = true /\ no_dict ex2_schema = true /\
  dec1 9 true ex2_schema 5 true [] [2;0;0;0; 21;0;0;0; 22;0;0;0; 1;65;0;0; 9;9]
  = Some (Ok (VArr [VUnion 0 []; VUnion 1 [Some (VStr [65])]], [9;9])) /\
  dec1 9 true ex2_schema 5 true [] [1;0;0;0; 23;0;0;0] = Some Reject /\
  dec1 9 true ex2_schema 5 true [] [1;0;0;0; 22;0;0;0; 1;65;0;1] = Some Reject.
Proof. vm_compute. repeat split; reflexivity. Qed.

Example C02_ex_dict :
  fold_left (fun a e => dict_insert PInt e a)
    [VStruct [Some (VNum 5); Some (VNum 1)]; VStruct [Some (VNum 4294967295); Some (VNum 2)];
     VStruct [Some (VNum 5); Some (VNum 3)]] []
  = [VStruct [Some (VNum 4294967295); Some (VNum 2)]; VStruct [Some (VNum 5); Some (VNum 3)]].
Proof. vm_compute. reflexivity. Qed.

(** Non-vacuity with dictionaries, one nested in the other: 5 = map string -> (map int -> string).
    The input lists the outer keys in the order "b", "a" and the inner dictionary of "b" has the
    entries 5, -1, 5 (unsorted, duplicate key 5); [9] is not read. *)
Definition exd_schema : schema :=
  [ TPrim PInt; TPrim PString;
    TStruct 100 [mkField 0 true None []; mkField 1 true None []];
    TDict PInt (mkField 2 true None []);
    TStruct 101 [mkField 1 true None []; mkField 3 true None []];
    TDict PString (mkField 4 true None []) ].
Definition exd_in : bytes :=
  [2;0;0;0;  1;98;0;0;  3;0;0;0;  5;0;0;0; 1;120;0;0;  255;255;255;255; 1;121;0;0;  5;0;0;0; 1;122;0;0;
             1;97;0;0;  0;0;0;0].
Definition exd_val : value :=
  VArr [VStruct [Some (VStr [97]); Some (VArr [])];
        VStruct [Some (VStr [98]); Some (VArr [VStruct [Some (VNum 4294967295); Some (VStr [121])];
                                               VStruct [Some (VNum 5); Some (VStr [122])]])]].
Definition exd_out : bytes :=
  [2;0;0;0;  1;97;0;0;  0;0;0;0;
             1;98;0;0;  2;0;0;0;  255;255;255;255; 1;121;0;0;  5;0;0;0; 1;122;0;0].

Example C02_ex_nested_dict : wf_schema exd_schema = true /\ no_dict exd_schema = false /\
  dec1 9 true exd_schema 5 true [] (exd_in ++ [9]) = Some (Ok (exd_val, [9])) /\
  enc1 false exd_schema 5 true [] exd_val = Some exd_out /\
  enc1 true exd_schema 5 true [] exd_val = Some exd_out /\
  dec1 9 true exd_schema 5 true [] (exd_out ++ [7; 7]) = Some (Ok (exd_val, [7; 7])) /\
  lenN exd_out <? lenN exd_in = true.
Proof. vm_compute. repeat split; reflexivity. Qed.

(** the theorem instantiated: the accepted bytes and the re-emitted bytes of the example are related *)
Example C02_ex_dict_equiv : dict_equiv exd_schema 5 true [] exd_in exd_out.
Proof.
  destruct (C02_canonical_modulo_dict true exd_schema eq_refl 9 5%nat true [] (exd_in ++ [9]) exd_val [9])
    as [pfx [pfx' [E [He Hq]]]].
  - apply Forall_forall. intros x Hx. unfold byte_ok.
    assert (Hb : bytes_okb (exd_in ++ [9]) = true) by (vm_compute; reflexivity).
    unfold bytes_okb in Hb. rewrite forallb_forall in Hb. specialize (Hb x Hx). now apply N.ltb_lt.
  - vm_compute. reflexivity.
  - apply app_inv_tail in E. subst pfx. vm_compute in He. injection He as <-. exact Hq.
Qed.

(** why [C02_canonical_form_fixed] asks for the strict writer when the length-sanity option is on:
    6 = map nat -> vector of empty structs.  Received: key 1 -> [()] then key 0 -> []; accepted under
    the option because 8 bytes follow the inner count 1.  Re-emitted sorted, the count 1 is last:
    the plain writer writes it, the reader without the option reads it back, the reader with the
    option refuses it (as it refuses it whoever wrote it: C01's strict writer refuses too). *)
Definition exs_schema : schema :=
  [ TPrim PNat; TStruct 7 []; TArray AVector (mkField 1 true None []);
    TStruct 9 [mkField 0 true None []; mkField 2 true None []];
    TDict PNat (mkField 3 true None []) ].
Example C02_ex_sanity_limit :
  let v := VArr [VStruct [Some (VNum 0); Some (VArr [])]; VStruct [Some (VNum 1); Some (VArr [VStruct []])]] in
  let out := [2;0;0;0;  0;0;0;0; 0;0;0;0;  1;0;0;0; 1;0;0;0] in
  wf_schema exs_schema = true /\
  dec1 9 true exs_schema 4 true [] [2;0;0;0;  1;0;0;0; 1;0;0;0;  0;0;0;0; 0;0;0;0] = Some (Ok (v, [])) /\
  enc1 false exs_schema 4 true [] v = Some out /\
  enc1 true exs_schema 4 true [] v = None /\
  dec1 9 false exs_schema 4 true [] out = Some (Ok (v, [])) /\
  dec1 9 true exs_schema 4 true [] out = Some Eof.
Proof. vm_compute. repeat split; reflexivity. Qed.
