(** C02 -- TL1 readers accept only canonical encodings.  Property theorems only. *)
From TLV Require Import Prim.PrimModel Prim.PrimProofs Tl1.Tl1Model Tl1.Tl1Proofs Tl1.Tl1Canon Tl1.Tl1Dict.
Open Scope N_scope.

(** For every well-formed schema without map-backed dictionaries, every type (bare or boxed),
    every nat environment, every byte string and every fuel: if the reader accepts, the input
    is exactly (what the writer writes for the decoded value) ++ (the unread rest).
    PARTIAL with respect to the property text: types containing map-backed dictionaries are
    excluded here (their re-emission is sorted by key with duplicates removed); for those the
    model's dictionary semantics is [dict_insert] (Tl1Model.v), proved to rebuild sorted
    duplicate-free input exactly ([dict_fold_sorted]) and compared with the generated code on
    every run (corr:C02:accept). *)
Theorem C02_canonical_partial : forall san s, wf_schema s = true -> no_dict s = true ->
  forall fuel t bare ps b v rest,
    bytes_ok b ->
    dec1 fuel san s t bare ps b = Some (Ok (v, rest)) ->
    exists pfx, b = pfx ++ rest /\ enc1 false s t bare ps v = Some pfx.
Proof. intros san s Hwf Hnd fuel t bare ps b v rest Hb H. exact (dec1_canonical san s Hwf Hnd fuel t bare ps b v rest Hb H). Qed.
Print Assumptions C02_canonical_partial.

(** the dictionary part that is proved: strictly sorted entries are rebuilt exactly *)
Theorem C02_dict_sorted_input_unchanged : forall kp es,
  keys_sorted kp es = true -> fold_left (fun a e => dict_insert kp e a) es [] = es.
Proof. intros kp es H. exact (dict_fold_sorted kp es [] H). Qed.
Print Assumptions C02_dict_sorted_input_unchanged.


(** the dictionary clause of the property, at the level of the decoded entry list: whatever entry
    list was received (any order, any duplicates; keys of the key primitive's shape, which is what
    [dec_prim kp] produces), the decoded dictionary is strictly sorted by the writer's key order --
    so the writer accepts it and re-emits it sorted with duplicates removed -- and holds for every
    key the LAST received entry with that key (Go map assignment). *)
Theorem C02_dict_reemitted_sorted_without_duplicates : forall kp es,
  shaped kp es ->
  keys_sorted kp (fold_left (fun a e => dict_insert kp e a) es []) = true.
Proof. intros kp es H. exact (proj1 (dict_fold_is_sorted kp es [] H (Forall_nil _) eq_refl)). Qed.
Print Assumptions C02_dict_reemitted_sorted_without_duplicates.

Theorem C02_dict_last_entry_wins : forall kp k es,
  key_shape kp k -> shaped kp es ->
  find_key kp k (fold_left (fun a e => dict_insert kp e a) es []) = find_last kp k es.
Proof.
  intros kp k es Hk H. rewrite (dict_fold_last_wins kp k es [] Hk H (Forall_nil _) eq_refl).
  destruct (find_last kp k es); reflexivity.
Qed.
Print Assumptions C02_dict_last_entry_wins.

(** unknown constructor tags are rejected *)
Theorem C02_unknown_union_tag_rejected : forall san s t vars tag fuel ps r,
  nth_error s t = Some (TUnion vars) -> tag < 4294967296 ->
  find_variant s vars tag 0 = None ->
  dec1 (S fuel) san s t false ps (nat_w tag ++ r) = Some Reject.
Proof. exact c02_unknown_union_tag_rejected. Qed.
Print Assumptions C02_unknown_union_tag_rejected.

Theorem C02_wrong_struct_tag_rejected : forall san s t tag fds x fuel ps r,
  nth_error s t = Some (TStruct tag fds) -> x < 4294967296 -> x <> tag ->
  dec1 (S fuel) san s t false ps (nat_w x ++ r) = Some Reject.
Proof. exact c02_wrong_struct_tag_rejected. Qed.
Print Assumptions C02_wrong_struct_tag_rejected.

(** non-boolean Bool tags are rejected *)
Theorem C02_bad_bool_tag_rejected : forall ftag ttag x r,
  x < 4294967296 -> x <> ftag -> x <> ttag ->
  dec_prim (PBool ftag ttag) (nat_w x ++ r) = Reject.
Proof. exact c02_bad_bool_tag_rejected. Qed.
Print Assumptions C02_bad_bool_tag_rejected.

(** non-minimal string length forms and non-zero padding (from C33's model, used by [dec_prim PString]) *)
Theorem C02_string_nonminimal_medium_rejected : forall l r,
  l <= tinyStringLen -> dec_prim PString (mediumStringMarker :: le_bytes 3 l ++ r) = Reject.
Proof. exact c02_string_nonminimal_medium_rejected. Qed.
Print Assumptions C02_string_nonminimal_medium_rejected.

Theorem C02_string_nonminimal_huge_rejected : forall l r,
  l <= maxMediumStringLen -> dec_prim PString (hugeStringMarker :: le_bytes 7 l ++ r) = Reject.
Proof. exact c02_string_nonminimal_huge_rejected. Qed.
Print Assumptions C02_string_nonminimal_huge_rejected.

Theorem C02_string_bad_padding_rejected : forall s h p pad' rest,
  str1_hdr (lenN s) = Some (h, p) -> lenN pad' = padding_len p -> all_zero pad' = false ->
  dec_prim PString (h ++ s ++ pad' ++ rest) = Reject.
Proof. exact c02_string_bad_padding_rejected. Qed.
Print Assumptions C02_string_bad_padding_rejected.

(** Non-vacuity: the reader accepts a prefix of a longer input and the theorem's conclusion computes. *)
Definition ex2_schema : schema :=
  [ TPrim PNat; TPrim PString;
    TStruct 21 []; TStruct 22 [mkField 1 true None []];
    TUnion [2%nat; 3%nat];
    TArray AVector (mkField 4 false None []) ].
Example C02_ex : wf_schema ex2_schema = true /\ no_dict ex2_schema = true /\
  dec1 9 true ex2_schema 5 true [] [2;0;0;0; 21;0;0;0; 22;0;0;0; 1;65;0;0; 9;9]
  = Some (Ok (VArr [VUnion 0 []; VUnion 1 [Some (VStr [65])]], [9;9])) /\
  dec1 9 true ex2_schema 5 true [] [1;0;0;0; 23;0;0;0] = Some Reject /\
  dec1 9 true ex2_schema 5 true [] [1;0;0;0; 22;0;0;0; 1;65;0;1] = Some Reject.
Proof. vm_compute. repeat split; reflexivity. Qed.

Example C02_ex_dict :
  fold_left (fun a e => dict_insert PInt e a)
    [VStruct [Some (VNum 5); Some (VNum 1)]; VStruct [Some (VNum 4294967295); Some (VNum 2)];
     VStruct [Some (VNum 5); Some (VNum 3)]] []
  = [VStruct [Some (VNum 4294967295); Some (VNum 2)]; VStruct [Some (VNum 5); Some (VNum 3)]].
Proof. vm_compute. reflexivity. Qed.
