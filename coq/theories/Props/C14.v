(** C14 -- every accepted schema yields Go code that builds; the generator never panics.

    What is proved here is the naming mechanism that keeps generated Go identifiers apart
    (puregen.Deconflicter and the struct scope built on it), for ALL request sequences, and
    the refutation of the naming obligations that no Deconflicter protects (finding F11).
    That the emitted code type-checks is not a theorem (it would need a model of Go): it is
    observed end to end by lib/checks/C14.py (tl2gen, then `go build`, on repository, random
    and mutated schemas x generator options).  Property theorems only; each is closed by
    [exact] of a lemma from Build/BuildProofs.v and followed by [Print Assumptions]. *)
From Coq Require Import List NArith Bool.
From TLV Require Import Build.BuildModel Build.BuildProofs.
Import ListNotations.
Open Scope N_scope.

(** The names one Deconflicter returns are pairwise distinct, for any initial set of used
    names and any sequence of requests (repeats, names that already look suffixed, ...). *)
Theorem C14_deconflict_injective : forall reqs st, NoDup (snd (dec_run st reqs)).
Proof. exact deconflict_injective. Qed.
Print Assumptions C14_deconflict_injective.

(** ... and none of them was used before the sequence started. *)
Theorem C14_deconflict_fresh : forall reqs st r, In r (snd (dec_run st reqs)) -> ~ In r st.
Proof. exact dec_run_fresh. Qed.
Print Assumptions C14_deconflict_fresh.

(** The unbounded Go loop `for i := 0; used[s+suffix]; i++` terminates: within |used|+1
    candidates a free one exists (the model's fuel is never exhausted). *)
Theorem C14_deconflict_terminates : forall used s, search used s (S (length used)) 0 <> None.
Proof. exact search_total. Qed.
Print Assumptions C14_deconflict_terminates.

(** The returned name is the request when free, else request ++ decimal(i) for the least i
    whose candidate is free. *)
Theorem C14_deconflict_form : forall used s,
  (~ In s used /\ deconflict used s = s) \/
  (In s used /\ exists i, deconflict used s = s ++ itoa i /\ forall k, k < i -> In (s ++ itoa k) used).
Proof. exact deconflict_form. Qed.
Print Assumptions C14_deconflict_form.

(** Position by position, every returned name is the requested one plus decimal digits. *)
Theorem C14_deconflict_suffix : forall reqs st,
  Forall2 (fun s r => exists t, r = s ++ t /\ Forall (fun c => is_digit c = true) t) reqs (snd (dec_run st reqs)).
Proof. exact dec_run_suffix. Qed.
Print Assumptions C14_deconflict_suffix.

(** A request that is a Go identifier stays one. *)
Theorem C14_deconflict_go_ident : forall used s, go_ident s = true -> go_ident (deconflict used s) = true.
Proof. exact deconflict_go_ident. Qed.
Print Assumptions C14_deconflict_go_ident.

(** Struct scope: Go field names, Set/Clear/IsSet accessor names and the seeded
    Write/Read/WriteTL2/ReadTL2 never clash, whatever the TL field names are. *)
Theorem C14_struct_scope_nodup : forall fs,
  NoDup (struct_field_names fs ++ struct_accessor_names fs) /\
  forall n, In n (struct_field_names fs ++ struct_accessor_names fs) -> ~ In n golang_seeds.
Proof. exact struct_scope_nodup. Qed.
Print Assumptions C14_struct_scope_nodup.

(** The obligations outside any Deconflicter do NOT hold of the faithful model (F11): the
    full statements would be
      forall names, files_ok names = true          (a)   (dirs_ok with --split-internal)
      forall names, NoDup names -> consts_ok names = true   (b)
      forall fs, fields_ok ms fs = true            (c)  ms = the methods generated for the struct
      forall names, globals_ok names = true        (d)
      forall fs raccs, methods_ok fs raccs = true  (e)  raccs = the result-mask accessors of a function
    each witness is a schema the kernel accepts; replayed on the real generator by the check. *)
Theorem C14_files_case_distinct_refuted : exists names, files_ok names = false.
Proof. exact files_case_distinct_refuted. Qed.
Print Assumptions C14_files_case_distinct_refuted.

Theorem C14_dirs_case_distinct_refuted : exists names, dirs_ok names = false.
Proof. exact dirs_case_distinct_refuted. Qed.
Print Assumptions C14_dirs_case_distinct_refuted.

Theorem C14_consts_nodup_refuted : exists names, NoDup names /\ consts_ok names = false.
Proof. exact consts_nodup_refuted. Qed.
Print Assumptions C14_consts_nodup_refuted.

(** What WOULD make (b) hold: names that stay distinct once every non-alphanumeric character
    (the namespace dot included) and case are dropped.  The kernel's NameCollision keeps the dot,
    so a.foo / aFoo / a_foo pass it although they all normalise to "afoo". *)
Theorem C14_consts_ok_if_normalized_distinct : forall names,
  NoDup (map norm_name names) -> consts_ok names = true.
Proof. exact consts_ok_if_normalized_distinct. Qed.
Print Assumptions C14_consts_ok_if_normalized_distinct.

Theorem C14_fields_vs_methods_refuted :
  (exists fs, fields_ok struct_methods_closed fs = false) /\
  (exists fs, fields_ok struct_methods_always fs = false).
Proof. exact fields_vs_methods_refuted. Qed.
Print Assumptions C14_fields_vs_methods_refuted.

Theorem C14_methods_nodup_refuted : exists fs raccs, methods_ok fs raccs = false.
Proof. exact methods_nodup_refuted. Qed.
Print Assumptions C14_methods_nodup_refuted.

Theorem C14_globals_vs_helpers_refuted : exists names, globals_ok names = false.
Proof. exact globals_vs_helpers_refuted. Qed.
Print Assumptions C14_globals_vs_helpers_refuted.

(** Non-vacuity: concrete runs of the model. *)
From Coq Require Import String.
Example C14_ex_stream :
  snd (dec_run [] (map lit ["a"; "a"; "a0"; "a"; "a"; "a00"; "a0"]%string))
  = map lit ["a"; "a0"; "a00"; "a1"; "a2"; "a000"; "a01"]%string.
Proof. vm_compute. reflexivity. Qed.

Example C14_ex_seeded :
  snd (dec_run (fill_golang []) (map lit ["Write"; "Read"; "X"; "Write"]%string))
  = map lit ["Write0"; "Read0"; "X"; "Write1"]%string.
Proof. vm_compute. reflexivity. Qed.

Example C14_ex_camel :
  map camel (map lit ["tL_tag"; "marshalJSON"; "FOO_bar9_X_ABC"; "string"]%string)
  = map lit ["TLTag"; "MarshalJSON"; "FooBar9XAbc"; "String"]%string.
Proof. vm_compute. reflexivity. Qed.

Example C14_ex_struct :
  struct_scope [Field (lit "n") AccNone false; Field (lit "x") AccFull false; Field (lit "setX") AccNone false; Field (lit "write") AccBit true]
  = (map lit ["N"; "X"; "SetX"; "Write0"]%string,
     map lit ["SetX0"; "ClearX"; "IsSetX"; "SetWrite0"; "IsSetWrite0"]%string).
Proof. vm_compute. reflexivity. Qed.

Example C14_ex_norm :
  map norm_name [tl "a" "foo"; tl "" "aFoo"; tl "" "a_foo"; tl "a" "bar"] = map lit ["afoo"; "afoo"; "afoo"; "abar"]%string.
Proof. vm_compute. reflexivity. Qed.

Example C14_ex_ok_schema :
  files_ok [tl "a" "foo"; tl "a" "bar"] = true /\ consts_ok [tl "a" "foo"; tl "a" "bar"] = true /\
  fields_ok struct_methods [Field (lit "x") AccFull false; Field (lit "write") AccNone false; Field (lit "string") AccBit true] = true /\ globals_ok [tl "a" "foo"] = true.
Proof. vm_compute. repeat split; reflexivity. Qed.
