(** C05 -- JSON round trip and validity of generated Go code.  Property theorems only; each is closed by
    [exact] of a lemma from Json/Json*.v and followed by [Print Assumptions].
    Model: Json/JsonModel.v ([jsonw] = WriteJSONOpt, [jsonr] = ReadJSONGeneral observed through WriteTL1,
    [jprint] = the text; transcription of internal/puregen/gengo/qt_struct|union|maybe|brackets|dict|helpers.qtpl),
    over the schema IR and wire values of Tl1/Tl1Model.v; primitive texts from Jprim (C34).
    [valid_json_text] is the RFC 8259 recogniser of Jprim/JprimModel.v.
    strconv.AppendFloat / ParseFloat are NOT modelled: [ffmt] / [fparse] are parameters with the two hypotheses
    spelled out in the statements (validated by the correspondence run on every float that occurs). *)
From TLV Require Import Prim.PrimModel Tl1.Tl1Model Jprim.JprimModel
  Json.JsonModel Json.JsonText Json.JsonProofs Json.JsonRoundtrip.
Open Scope N_scope.

(** (a) tree to text: a well-formed tree (numbers follow the number grammar, strings and member names are valid
    UTF-8 strings) is printed as a valid JSON text *)
Theorem C05_wellformed_tree_prints_valid_json : forall j, jvalid j = true -> valid_json_text (jprint j) = true.
Proof. exact jvalid_text. Qed.
Print Assumptions C05_wellformed_tree_prints_valid_json.

(** (a) value to tree: whatever the writer emits for whatever value of whatever type of a well-formed schema is a
    well-formed tree -- except that with a string-keyed dictionary in the schema a member name may be an object *)
Theorem C05_written_tree_wellformed : forall ffmt js,
  (forall is64 b, ffinite is64 b = true -> num_ok (ffmt is64 b) = true) ->
  wf_jschema js = true ->
  forall v t ps j, jsonw ffmt js t ps v = Some j -> jvalidk (no_str_dict js) j = true.
Proof. exact jsonw_valid. Qed.
Print Assumptions C05_written_tree_wellformed.

Theorem C05_written_text_valid_json : forall ffmt js,
  (forall is64 b, ffinite is64 b = true -> num_ok (ffmt is64 b) = true) ->
  wf_jschema js = true ->
  forall t ps v j, no_str_dict js = true -> jsonw ffmt js t ps v = Some j -> valid_json_text (jprint j) = true.
Proof. exact jsonw_text_valid. Qed.
Print Assumptions C05_written_text_valid_json.

(** (b) round trip -- full statement wanted: for every value, reading the written JSON gives a value with the same
    TL1 / TL2 / JSON encodings.  That is FALSE of the faithful model (three refutations below); proved here for
    every value without the four constructs [jdiag] lists (-0.0 in an omittable position, NaN payload, dictionary
    string key that is not valid UTF-8 or that the escaper changes): the value read back is the value itself, so
    every re-encoding coincides.  Floats under the strconv oracle hypotheses. *)
Theorem C05_roundtrip_partial : forall ffmt fparse js,
  (forall is64 b, ffinite is64 b = true -> num_ok (ffmt is64 b) = true) ->
  (forall is64 b, ffinite is64 b = true -> fparse is64 (ffmt is64 b) = Some b) ->
  wf_jschema js = true ->
  forall t ps v j fuel, (vdepth v < fuel)%nat ->
    jsonw ffmt js t ps v = Some j -> jdiag js t ps false v = [] ->
    jsonr fparse js fuel t ps (Some j) = JOk v.
Proof. exact jsonw_jsonr. Qed.
Print Assumptions C05_roundtrip_partial.

(** ** refutations of the full statement (replayed on the generated code, see known_findings.json) *)
Definition n_dict : bytes := [100; 105; 99; 116].
Definition n_key : bytes := [107; 101; 121].
Definition no_fmt (_ : bool) (_ : N) : bytes := [48].
Definition no_parse (_ : bool) (_ : bytes) : option N := None.

(** cases.testDictString dict:(dictionary int) *)
Definition js_dict : jschema :=
  [ (TPrim PInt, ANone);
    (TPrim PString, ANone);
    (TStruct 0 [mkField 1 true None []; mkField 0 true None []], AStruct false false [mkJF n_key false; mkJF s_value false]);
    (TDict PString (mkField 2 true None []), ANone);
    (TStruct 3301230491 [mkField 3 true None []], AStruct false false [mkJF n_dict false]) ].

Definition dict1 (k : bytes) : value := VStruct [Some (VArr [VStruct [Some (VStr k); Some (VNum 7)]])].

(** F9: a key that is not valid UTF-8 is written as an object in key position: not JSON *)
Theorem jsonw_refuted_dict_key : exists js t v j,
  wf_jschema js = true /\ jsonw no_fmt js t [] v = Some j /\ valid_json_text (jprint j) = false
  /\ jsonr no_parse js 10 t [] (Some j) = JReject.
Proof. exists js_dict, 4%nat, (dict1 [255]). eexists. repeat split; vm_compute; reflexivity. Qed.
Print Assumptions jsonw_refuted_dict_key.

(** F17: a key the escaper changes (here the three bytes a, double quote, b) is read back as its escaped text: another value *)
Theorem jsonw_refuted_dict_key_escape : exists js t v j v',
  wf_jschema js = true /\ jsonw no_fmt js t [] v = Some j /\ valid_json_text (jprint j) = true
  /\ jsonr no_parse js 10 t [] (Some j) = JOk v' /\ enc1 false (sch js) t false [] v' <> enc1 false (sch js) t false [] v.
Proof.
  exists js_dict, 4%nat, (dict1 [97; 34; 98]). eexists. eexists.
  split; [vm_compute; reflexivity|]. split; [vm_compute; reflexivity|]. split; [vm_compute; reflexivity|].
  split; [vm_compute; reflexivity|]. vm_compute. discriminate.
Qed.
Print Assumptions jsonw_refuted_dict_key_escape.

(** F16: -0.0 in a non-optional field counts as empty, is omitted and comes back as +0.0 *)
Definition js_dbl : jschema :=
  [ (TPrim PDouble, ANone);
    (TStruct 1 [mkField 0 true None []], AStruct false false [mkJF n_key false]) ].

Theorem jsonw_refuted_negzero : exists js t v j v',
  wf_jschema js = true /\ jsonw no_fmt js t [] v = Some j /\ jsonr no_parse js 10 t [] (Some j) = JOk v'
  /\ enc1 false (sch js) t false [] v' <> enc1 false (sch js) t false [] v.
Proof.
  exists js_dbl, 1%nat, (VStruct [Some (VNum 9223372036854775808)]). eexists. eexists.
  split; [vm_compute; reflexivity|]. split; [vm_compute; reflexivity|]. split; [vm_compute; reflexivity|].
  vm_compute. discriminate.
Qed.
Print Assumptions jsonw_refuted_negzero.

(** ** the statements are not vacuous *)
Example ex_roundtrip_instance :
  jdiag js_dict 4 [] false (dict1 [97; 98]) = []
  /\ option_map jprint (jsonw no_fmt js_dict 4 [] (dict1 [97; 98]))
     = Some [123; 34; 100; 105; 99; 116; 34; 58; 123; 34; 97; 98; 34; 58; 55; 125; 125]      (* {"dict":{"ab":7}} *)
  /\ (forall j, jsonw no_fmt js_dict 4 [] (dict1 [97; 98]) = Some j -> jsonr no_parse js_dict 10 4 [] (Some j) = JOk (dict1 [97; 98])).
Proof. split; [reflexivity|]. split; [vm_compute; reflexivity|]. intros j H. vm_compute in H. injection H as <-. vm_compute. reflexivity. Qed.

Example ex_diag_names_the_defects :
  jdiag js_dict 4 [] false (dict1 [255]) = [3] /\ jdiag js_dict 4 [] false (dict1 [97; 34; 98]) = [4]
  /\ jdiag js_dbl 1 [] false (VStruct [Some (VNum 9223372036854775808)]) = [1].
Proof. repeat split; vm_compute; reflexivity. Qed.
