(** C05 -- JSON round trip and validity of generated Go code.  Property theorems only (placeholder while the
    proofs are being written). *)
From TLV Require Import Json.JsonModel.
Open Scope N_scope.

Theorem C05_placeholder : jprint (JObj []) = [123; 125].
Proof. reflexivity. Qed.
Print Assumptions C05_placeholder.
