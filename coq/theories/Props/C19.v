From TLV Require Import Lex.LexModel Lex.LexProofs.
Example placeholder : True. Proof. exact I. Qed.
