(** C19 -- TL1 parser is total with in-range error positions.
    Property theorems only; each is closed by [exact] of a lemma of Lex/LexProofs.v and followed
    by [Print Assumptions].  The lexer model (Lex/LexModel.v) is a case-by-case transcription of
    internal/tlast/tllexer.go with LexerLanguage = TL1 (AllowBuiltin / AllowDirty arbitrary); it is
    compared token by token with the Go lexer on every run (corr:C19:lex).

    What is proved, for ALL byte strings [s] (no length bound):
    - the tokenizer never panics (no slice/index out of range) and fuel |s|+1 is never exhausted;
    - recombination: the values of l.tokens followed by the unread rest are exactly [s]
      (the check whose violation makes ParseTLFile call log.Panicf);
    - progress: every nextToken call consumes at least one byte; the only empty token is the final eof;
    - positions: every token's Position is the true (line, column, startLineOffset, offset) of the byte
      where the token starts, and offset + len(val) <= len(s);
    - the front end of ParseTLFile never panics; a tokenizer error carries positions inside the text
      for which ParseError.consolePrint slices nothing out of range (anyCorrupted stays false).

    Parser proper (tlparser_code.go, tlparser_typeref.go): transcribed function by function, reduced to its
    control flow, in Lex/LexParse1Model.v ([parseTLFile] = tokenizer + [parseTokens]); the model is compared with
    the real ParseTLFile on every run (corr:C19:lex, field P1: ok / error class, outer, begin and end position).
    Proved for ALL inputs ([C19_parser_total]): the parser model terminates within its structural fuel
    (10 * (tokens + 2); the proof is the termination argument of the recursive-descent parser: every
    recursive call happens after a consumed token or goes down an acyclic order of non-consuming calls),
    never reaches one of the panic sites of the Go code (tokenIterator.front/popFront out of range -- eof is
    never popped --, the log.Panicf calls of skipWS / expectOrPanic / splitIdenNSFromToken, val[1:] on an
    empty value, the nil dereference in parseArithmetic, the "unexpected token in whitespace" panic and the
    fileContent[a:b] slices of parseCommentBefore / parseCommentRight / ParseTLFile), and every error it
    returns is located at a token of the input with the first token of the combinator as outer context,
    hence lies inside the text and is printed by consolePrint without any out-of-range slice.
    Not modelled: Combinator.crc32() (runs on the finished AST) and the AST construction itself; for those
    the implementation-side oracle applies (recover(), error offsets, ConsolePrint/Error() do not panic).
    [C19_admissible_error_in_range] is the same in-range statement for the abstract error model
    [admissibleErr] (the lemma behind the parser theorem, and what the oracle checks on Go's own errors). *)
From Coq Require Import List NArith ZArith.
From TLV Require Import Lex.LexModel Lex.LexProofs Lex.LexParse1Model Lex.LexParse1Proofs Lex.LexParse1Fuel.
Import ListNotations.
Open Scope N_scope.

Definition opt (builtin dirty : bool) : opts := mkOpts builtin dirty TL1.

Theorem C19_lex_total : forall builtin dirty s, exists r, generateTokens (opt builtin dirty) s = Ok r.
Proof. exact (fun b d => lex_total (opt b d)). Qed.
Print Assumptions C19_lex_total.

Theorem C19_lex_recombine : forall builtin dirty s r,
  generateTokens (opt builtin dirty) s = Ok r -> concat (map t_val (r_all r)) ++ r_rest r = s.
Proof. exact (fun b d => lex_recombine (opt b d)). Qed.
Print Assumptions C19_lex_recombine.

Theorem C19_lex_progress : forall builtin dirty s,
  good s (newLexer s) /\
  forall st, good s st -> l_str st <> [] ->
    exists st' e, nextToken (opt builtin dirty) st = Some (st', e) /\ good s st' /\
                  (length (l_str st') < length (l_str st))%nat.
Proof. exact (fun b d => lex_progress (opt b d)). Qed.
Print Assumptions C19_lex_progress.

Theorem C19_lex_only_eof_empty : forall builtin dirty s r a t b,
  generateTokens (opt builtin dirty) s = Ok r -> r_all r = a ++ t :: b -> t_val t = [] ->
  b = [] /\ t_type t = T_eof /\ r_rest r = [].
Proof. exact (fun b d => lex_only_eof_empty (opt b d)). Qed.
Print Assumptions C19_lex_only_eof_empty.

Theorem C19_lex_pos_ok : forall builtin dirty s r a t b,
  generateTokens (opt builtin dirty) s = Ok r -> r_all r = a ++ t :: b ->
  t_pos t = pos_spec (vals a) /\
  p_off (t_pos t) = lenN (vals a) /\
  p_off (t_pos t) + lenN (t_val t) <= lenN s /\
  p_slo (t_pos t) <= p_off (t_pos t) /\
  p_col (t_pos t) = p_off (t_pos t) - p_slo (t_pos t) + 1 /\
  p_line (t_pos t) = 1 + count10 (vals a) /\
  exists post, s = vals a ++ t_val t ++ post.
Proof. exact (fun b d => lex_pos_ok (opt b d)). Qed.
Print Assumptions C19_lex_pos_ok.

Theorem C19_front_total : forall builtin dirty s,
  (exists e, parseFront (opt builtin dirty) s = Ok (F_tokerr e)) \/
  (exists toks, parseFront (opt builtin dirty) s = Ok (F_tokens toks)).
Proof. exact (fun b d => front_total (opt b d)). Qed.
Print Assumptions C19_front_total.

Theorem C19_front_tokens_end_with_eof : forall builtin dirty s toks,
  parseFront (opt builtin dirty) s = Ok (F_tokens toks) ->
  exists init p, toks = init ++ [mkTok T_eof [] p] /\ Forall (fun t => t_val t <> []) init /\ vals toks = s.
Proof. exact (fun b d => front_tokens_end_with_eof (opt b d)). Qed.
Print Assumptions C19_front_tokens_end_with_eof.

Theorem C19_tokenizer_error_in_range : forall builtin dirty s e,
  parseFront (opt builtin dirty) s = Ok (F_tokerr e) ->
  errCorrupted (lenN s) e = false /\
  p_off (e_begin e) <= p_off (e_end e) <= lenN s /\
  p_off (e_outer e) <= p_off (e_begin e) /\
  (exists pre, e_begin e = pos_spec pre /\ exists post, s = pre ++ t_val (e_tok e) ++ post) /\
  (exists pre, e_outer e = pos_spec pre /\ exists post, s = pre ++ post).
Proof. exact (fun b d => tokenizer_error_in_range (opt b d)). Qed.
Print Assumptions C19_tokenizer_error_in_range.

(** the abstract error model: any error located at a token with an earlier-or-equal token as outer context is in
    range (used by the parser theorem above; also what the implementation-side oracle checks on Go's own errors) *)
Theorem C19_admissible_error_in_range : forall builtin dirty s toks e,
  parseFront (opt builtin dirty) s = Ok (F_tokens toks) -> admissibleErr toks e ->
  errCorrupted (lenN s) e = false /\
  p_off (e_begin e) <= p_off (e_end e) <= lenN s /\
  p_off (e_outer e) <= p_off (e_begin e) /\
  (exists pre, e_begin e = pos_spec pre /\ exists post, s = pre ++ t_val (e_tok e) ++ post) /\
  (exists pre, e_outer e = pos_spec pre /\ exists post, s = pre ++ post).
Proof. exact (fun b d => parser_error_in_range (opt b d)). Qed.
Print Assumptions C19_admissible_error_in_range.

(** tokenizer + transcribed parser: terminates within the fuel, no panic site reachable, every error in range *)
Theorem C19_parser_total : forall builtin dirty s,
  match parseTLFile (opt builtin dirty) s with
  | PR_ok => True
  | PR_err _ e =>
      errCorrupted (lenN s) e = false /\
      p_off (e_begin e) <= p_off (e_end e) <= lenN s /\
      p_off (e_outer e) <= p_off (e_begin e) /\
      (exists pre, e_begin e = pos_spec pre /\ exists post, s = pre ++ t_val (e_tok e) ++ post) /\
      (exists pre, e_outer e = pos_spec pre /\ exists post, s = pre ++ post)
  | PR_panic => False
  | PR_nofuel => False
  end.
Proof. exact (fun b d => parseTLFile_total (opt b d)). Qed.
Print Assumptions C19_parser_total.

(** Non-vacuity: the model really tokenizes, reports errors, and the hypotheses are satisfiable. *)
(* "a#1a2b3c4d x:int = A;\n" *)
Definition sample : list N :=
  [97; 35; 49; 97; 50; 98; 51; 99; 52; 100; 32; 120; 58; 105; 110; 116; 32; 61; 32; 65; 59; 10].

Example ex_tokens :
  match generateTokens (opt false false) sample with
  | Ok r => map (fun t => (t_type t, lenN (t_val t), p_line (t_pos t), p_col (t_pos t), p_off (t_pos t))) (r_toks r)
  | _ => []
  end =
  [(T_lcIdent, 1, 1, 1, 0); (T_crc32hash, 9, 1, 2, 1); (32%Z, 1, 1, 11, 10); (T_lcIdent, 1, 1, 12, 11); (58%Z, 1, 1, 13, 12);
   (T_lcIdent, 3, 1, 14, 13); (32%Z, 1, 1, 17, 16); (61%Z, 1, 1, 18, 17); (32%Z, 1, 1, 19, 18); (T_ucIdent, 1, 1, 20, 19);
   (59%Z, 1, 1, 21, 20); (T_newLine, 1, 1, 22, 21); (T_eof, 0, 2, 1, 22)].
Proof. vm_compute. reflexivity. Qed.

(* "a\n|" : '|' is lexed, then rejected by validateTokens for TL1; position line 2, column 1, offset 2 *)
Example ex_illegal :
  match parseFront (opt false false) [97; 10; 124] with
  | Ok (F_tokerr e) => Some (e_kind e, p_line (e_begin e), p_col (e_begin e), p_off (e_begin e), p_off (e_end e))
  | _ => None
  end = Some (E_illegalTL1, 2, 1, 2, 3).
Proof. vm_compute. reflexivity. Qed.

(* "//\xff\n": comment token "//" then the undefined token for the non-UTF-8 byte *)
Example ex_utf8 :
  match generateTokens (opt false false) [47; 47; 255; 10] with
  | Ok r => (map (fun t => (t_type t, t_val t)) (r_toks r), option_map e_kind (r_err r), r_rest r)
  | _ => ([], None, [])
  end = ([(T_comment, [47; 47]); (T_undefined, [255])], Some E_utf8, [10]).
Proof. vm_compute. reflexivity. Qed.

(* an admissible parser error exists for the sample (error at the ';' token, outer = first token) and the
   conclusion of the partial theorem is not trivially true: a position beyond the text is reported corrupted *)
Example ex_admissible :
  match parseFront (opt false false) sample with
  | Ok (F_tokens toks) =>
      match nth_error toks 0, nth_error toks 10 with
      | Some t0, Some t => admissibleErr toks (mkErr E_undefined t (t_pos t0)) /\ t_val t = [59]
      | _, _ => False
      end
  | _ => False
  end.
Proof. vm_compute. split; [|reflexivity]. exists 10%nat, 0%nat. eexists. repeat split. apply Nat.le_0_l. Qed.

Example ex_corrupted_detects :
  errCorrupted 5 (mkErr E_undefined (mkTok 59%Z [59] (mkPos 1 6 0 5)) (mkPos 1 1 0 0)) = true.
Proof. vm_compute. reflexivity. Qed.


(* the sample parses; a truncated one fails at the eof token with the first token as outer context *)
Example ex_parse_ok : parseTLFile (opt false false) sample = PR_ok.
Proof. vm_compute. reflexivity. Qed.

Example ex_parse_err :
  match parseTLFile (opt false false) (firstn 20 sample) with
  | PR_err false e => Some (e_kind e, t_type (e_tok e), p_off (e_begin e), p_off (e_end e), p_off (e_outer e))
  | _ => None
  end = Some (E1_semicolon, T_eof, 20, 20, 0).
Proof. vm_compute. reflexivity. Qed.

(* deep nesting within the fuel budget: "a x:" ++ "(" * 50 ++ "b" ++ ")" * 50 ++ " = A;" *)
Example ex_parse_nested :
  parseTLFile (opt false false) ([97; 32; 120; 58] ++ repeat 40 50 ++ [98] ++ repeat 41 50 ++ [32; 61; 32; 65; 59]) = PR_ok.
Proof. vm_compute. reflexivity. Qed.
