(** C07 -- function result transcoders are mutually consistent.  Property theorems only.
    Model: coq/theories/Obj/ObjResModel.v (the generated ReadResultX WriteResultY methods are typed read then
    typed write at the result type under [result_env q], the nat arguments taken from the request).
    Full statement wanted: all six transcoders between TL1, TL2 and JSON.  Proved: the TL1 leg (the other
    formats are compared on the Go side by lib/checks/C07.py only) -- hence the suffix _partial. *)
From TLV Require Import Prim.PrimModel Tl1.Tl1Model Tl1.Tl1Proofs Obj.ObjResModel Obj.ObjResProofs.
Open Scope N_scope.

(** For every well-formed schema, every function result description, every request value [q] and every
    result value the writer accepts under the request's environment: decoding the result bytes (whatever
    follows them) and re-encoding reproduces exactly those bytes and consumes exactly them. *)
Theorem C07_result_roundtrip_partial : forall san s, wf_schema s = true ->
  forall fr q v b rest fuel, (vdepth v <= fuel)%nat ->
    enc1 san s (fr_ty fr) (fr_bare fr) (result_env q fr) v = Some b ->
    tr11 fuel san s fr q (b ++ rest) = TrOk (length b) (Some b).
Proof. exact tr11_identity. Qed.
Print Assumptions C07_result_roundtrip_partial.

(** transcoder path = typed read followed by typed write (definitional in the model, as in the template) *)
Theorem C07_transcoder_is_typed_path : forall fuel san s fr q b,
  tr11 fuel san s fr q b =
  match read_result fuel san s fr q b with
  | Some (Ok (v, rest)) => TrOk (length b - length rest) (write_result s fr q v)
  | Some Eof => TrEof
  | Some Reject => TrReject
  | None => TrFuel
  end.
Proof. exact tr11_is_typed_path. Qed.
Print Assumptions C07_transcoder_is_typed_path.

(** only the request fields named by the result's nat arguments shape the result *)
Theorem C07_env_depends_on_named_fields : forall fr fs1 fs2,
  (forall i, In (NField i) (fr_args fr) -> field_nat fs1 i = field_nat fs2 i) ->
  result_env (VStruct fs1) fr = result_env (VStruct fs2) fr.
Proof. exact result_env_fields. Qed.
Print Assumptions C07_env_depends_on_named_fields.

(** Non-vacuity: f n:# x:int => Vector-like tuple of n ints; request n = 2 *)
Definition ex_schema : schema :=
  [ TPrim PNat; TPrim PInt;
    TArray ATupleDyn (mkField 1 true None []);                                 (* 2 tuple int n *)
    TStruct 51 [mkField 2 true None [NParam 0]];                               (* 3 box {n} t:(tuple int n) *)
    TStruct 52 [mkField 0 true None []; mkField 1 true None []] ].             (* 4 f n:# x:int *)
Definition ex_fr := mkRes 3 false [NField 0].
Example ex_tr : tr11 6 true ex_schema ex_fr (VStruct [Some (VNum 2); Some (VNum 9)]) [51;0;0;0; 1;0;0;0; 2;0;0;0; 99] = TrOk 12 (Some [51;0;0;0; 1;0;0;0; 2;0;0;0]).
Proof. vm_compute. reflexivity. Qed.
Example ex_tr_wrong_env : tr11 6 true ex_schema ex_fr (VStruct [Some (VNum 3); Some (VNum 9)]) [51;0;0;0; 1;0;0;0; 2;0;0;0] = TrEof.
Proof. vm_compute. reflexivity. Qed.
