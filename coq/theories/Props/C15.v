(** C15 -- code generation is deterministic.  Property theorems only.

    FULL STATEMENT (not provable in this form, see below):
      forall schema options, forall two runs of the generator (any GOMAXPROCS, any goroutine
      schedule, any map iteration order, any order/spelling of the input paths on the command line):
      the output trees are byte-identical.
    A proof of the full statement needs a model of the whole generator (tens of thousands of lines
    of Go) and of the Go runtime's scheduler and map iteration.  What is proved here are the three
    mechanisms by which the code makes its result independent of an arbitrary order, each stated
    for ALL inputs; they are named [_partial] for that reason.  Whether every place in the
    generators that iterates a map or runs concurrently goes through one of these mechanisms is NOT
    proved; it is observed by the repeated-run comparison in lib/checks/C15.py.

    1. input side: utils.WalkDeterministic (model [walk_deterministic]) returns the same list
       whatever order the directory entries are enumerated in and whatever order the roots are given;
    2. emission side: "collect, then sort by key, then emit" yields the same sequence for every
       collection order, PROVIDED the keys are unique -- and not otherwise (refuted variant);
    3. output side: the tree left by OutDir.Write (model [outdir_write]) does not depend on the
       order in which the generated files are processed (Go map order / worker pool). *)
From Coq Require Import List Permutation Sorted.
From TLV Require Import Outdir.OutdirModel Outdir.OutdirBase Outdir.OutdirProofs Outdir.OutdirWalk.
Open Scope N_scope.

(** ** 1. WalkDeterministic *)
(** [node_perm t t']: [t'] is [t] with the entries of every directory listed in another order *)
Theorem C15_walk_enumeration_independent_partial : forall ext root root' roots,
  wf root -> node_perm root root' ->
  walk_deterministic ext root roots = walk_deterministic ext root' roots.
Proof. exact walk_enumeration_independent. Qed.
Print Assumptions C15_walk_enumeration_independent_partial.

Theorem C15_walk_roots_order_independent_partial : forall ext root roots roots',
  Permutation roots roots' ->
  walk_deterministic ext root roots = walk_deterministic ext root roots'.
Proof. exact walk_roots_order_independent. Qed.
Print Assumptions C15_walk_roots_order_independent_partial.

Theorem C15_walk_output_sorted : forall ext root roots l,
  walk_deterministic ext root roots = Some l -> StronglySorted (fun a b => str_leb a b = true) l.
Proof. exact walk_sorted. Qed.
Print Assumptions C15_walk_output_sorted.

(** ** 2. collect-then-sort *)
Theorem C15_collect_then_sort_partial : forall (A : Type) (key : A -> str) (xs ys : list A),
  Permutation xs ys -> NoDup (map key xs) -> sort_by key xs = sort_by key ys.
Proof. exact @sort_by_order_independent. Qed.
Print Assumptions C15_collect_then_sort_partial.

(** the same for ANY sorting procedure (sort.Slice is not stable): two arrangements of the same
    elements that are both sorted by a key identifying the element are equal *)
Theorem C15_sorted_arrangement_unique : forall (A : Type) (key : A -> str) (l1 l2 : list A),
  (forall a b, In a l1 -> In b l1 -> key a = key b -> a = b) ->
  StronglySorted (kle key) l1 -> StronglySorted (kle key) l2 -> Permutation l1 l2 -> l1 = l2.
Proof. exact @sorted_perm_unique. Qed.
Print Assumptions C15_sorted_arrangement_unique.

(** the uniqueness hypothesis is necessary: with equal keys the collection order shows through *)
Theorem C15_collect_then_sort_without_unique_keys_refuted :
  exists (xs ys : list (str * N)), Permutation xs ys /\ sort_by fst xs <> sort_by fst ys.
Proof. exact sort_by_order_dependent_refuted. Qed.
Print Assumptions C15_collect_then_sort_without_unique_keys_refuted.

(** ** 3. OutDir.Write *)
Theorem C15_outdir_write_order_independent_partial : forall keep root out gen gen' marker now r r',
  wf root -> ~ In dotdot out -> gen_ok out gen -> Permutation gen gen' ->
  outdir_write keep root out gen marker now = Ok r ->
  outdir_write keep root out gen' marker now = Ok r' ->
  forall q, look r q = look r' q.
Proof. exact outdir_write_order_independent. Qed.
Print Assumptions C15_outdir_write_order_independent_partial.

(** ** Non-vacuity *)
(** "a/x.tl" < "a.b/y.tl" is false bytewise ('.' = 46 < '/' = 47): the result is sorted as strings,
    not component-wise; "n.txt" is filtered; the missing root gives an error *)
Definition c15_tree : node :=
  Dir [([97], Dir [([120; 46; 116; 108], File [] 0); ([110; 46; 116; 120; 116], File [] 0)]);
       ([97; 46; 98], Dir [([121; 46; 116; 108], File [] 0)])].
Example C15_ex_walk :
  walk_deterministic [46; 116; 108] c15_tree [[[97]]; [[97; 46; 98]]] =
  Some [[97; 46; 98; 47; 121; 46; 116; 108]; [97; 47; 120; 46; 116; 108]].
Proof. vm_compute. reflexivity. Qed.
Example C15_ex_walk_reordered :
  walk_deterministic [46; 116; 108] c15_tree [[[97; 46; 98]]; [[97]]] =
  walk_deterministic [46; 116; 108] c15_tree [[[97]]; [[97; 46; 98]]].
Proof. vm_compute. reflexivity. Qed.
Example C15_ex_walk_missing_root : walk_deterministic [46; 116; 108] c15_tree [[[122]]] = None.
Proof. vm_compute. reflexivity. Qed.
Example C15_ex_sort : sort_by (fun s : str => s) [[98]; [97; 98]; [97]] = [[97]; [97; 98]; [98]].
Proof. vm_compute. reflexivity. Qed.
