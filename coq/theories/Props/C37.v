(** C37 -- UDP acknowledgement bookkeeping is exact (pkg/rpc/udp/acks.go, [AcksToSend]).
    Property theorems only; each is closed by [exact] of a lemma from Acks/AcksProofs.v and followed
    by [Print Assumptions].

    Quantification: ALL finite sequences of [AddAckRange(from, to)] calls with
    [from <= to < 2^32-1] ([valid_op]), applied with [fold_left] ([run], [run_from]) to the empty
    [AcksToSend] or to any state satisfying the invariant.  Excluded inputs and why:
    - [to = 2^32-1]: the Go expression [ackTo+1] wraps to 0 (modelled by [succ32]); the property is
      then false of the code, see [C37_wrap_excluded_*] (witnesses replayed on the Go code by the
      correspondence run, kind wrap-excluded);
    - [from > to]: not a range. *)
From TLV Require Import Acks.AcksModel Acks.AcksProofs.
Open Scope N_scope.

(** The represented set equals the union of the recorded ranges. *)
Theorem C37_set_is_union : forall ops, Forall valid_op ops ->
  forall n, mem (run ops) n <-> exists op, In op ops /\ in_range op n.
Proof. exact run_mem. Qed.
Print Assumptions C37_set_is_union.

(** ... from any invariant-satisfying state (e.g. a non-zero initial [ackPrefix]). *)
Theorem C37_set_is_union_from : forall ops a, Inv a -> Forall valid_op ops ->
  forall n, mem (run_from a ops) n <-> (mem a n \/ exists op, In op ops /\ in_range op n).
Proof. exact run_from_mem. Qed.
Print Assumptions C37_set_is_union_from.

(** Every reachable state is a prefix plus sorted, disjoint, non-adjacent, non-empty ranges with
    [ackPrefix < firstRange.ackFrom] and every bound below 2^32-1 ([Inv], [chain]). *)
Theorem C37_invariant : forall ops, Forall valid_op ops -> Inv (run ops).
Proof. exact run_inv. Qed.
Print Assumptions C37_invariant.

Theorem C37_invariant_from : forall ops a, Inv a -> Forall valid_op ops -> Inv (run_from a ops).
Proof. exact run_from_inv. Qed.
Print Assumptions C37_invariant_from.

(** One step: [AddAckRange] preserves the invariant and adds exactly [from..to]. *)
Theorem C37_add_exact : forall a f t, Inv a -> f <= t -> t < M32 - 1 ->
  Inv (add f t a) /\ forall n, mem (add f t a) n <-> (f <= n <= t \/ mem a n).
Proof. exact add_spec. Qed.
Print Assumptions C37_add_exact.

(** What [Inv] says, spelled out on the first two ranges. *)
Theorem C37_invariant_meaning : forall p f1 t1 f2 t2 rest,
  Inv (mkAcks p ((f1, t1) :: (f2, t2) :: rest)) ->
  p < f1 /\ f1 <= t1 /\ t1 + 1 < f2 /\ f2 <= t2 /\ t2 < M32 - 1 /\ Inv (mkAcks (t1 + 1) ((f2, t2) :: rest)).
Proof. exact Inv_meaning. Qed.
Print Assumptions C37_invariant_meaning.

(** The ack header acknowledges only members, with at most [MaxAckSet] single numbers. *)
Theorem C37_ack_only_members : forall ops, Forall valid_op ops ->
  forall n, hdr_acks (build_ack (run ops)) n -> exists op, In op ops /\ in_range op n.
Proof. exact ack_only_recorded. Qed.
Print Assumptions C37_ack_only_members.

Theorem C37_ack_only_members_state : forall a, Inv a -> forall n, hdr_acks (build_ack a) n -> mem a n.
Proof. exact build_ack_sound. Qed.
Print Assumptions C37_ack_only_members_state.

Theorem C37_ack_set_bounded : forall a s, ah_set (build_ack a) = Some s ->
  (0 < length s <= N.to_nat MaxAckSet)%nat.
Proof. exact build_ack_bound. Qed.
Print Assumptions C37_ack_set_bounded.

(** The resend request names only non-members, in at most [MaxAckSet] well-formed ranges. *)
Theorem C37_nack_only_nonmembers : forall ops, Forall valid_op ops ->
  forall n, nack_requests (build_nack (run ops)) n -> ~ exists op, In op ops /\ in_range op n.
Proof. exact nack_only_unrecorded. Qed.
Print Assumptions C37_nack_only_nonmembers.

Theorem C37_nack_only_nonmembers_state : forall a, Inv a -> forall n, nack_requests (build_nack a) n -> ~ mem a n.
Proof. exact build_nack_sound. Qed.
Print Assumptions C37_nack_only_nonmembers_state.

Theorem C37_nack_bounded : forall a l, build_nack a = Some l -> (0 < length l <= N.to_nat MaxAckSet)%nat.
Proof. exact build_nack_bound. Qed.
Print Assumptions C37_nack_bounded.

Theorem C37_nack_wellformed : forall a l, Inv a -> build_nack a = Some l ->
  Forall (fun r => fst r <= snd r /\ snd r < M32 - 1) l.
Proof. exact build_nack_wf. Qed.
Print Assumptions C37_nack_wellformed.

(** Beyond the property text: when [MaxAckSet] truncates nothing the headers are complete. *)
Theorem C37_ack_complete_when_fits : forall a, Inv a -> (span (tl (ranges a)) <= N.to_nat MaxAckSet)%nat ->
  forall n, mem a n -> hdr_acks (build_ack a) n.
Proof. exact build_ack_complete. Qed.
Print Assumptions C37_ack_complete_when_fits.

Theorem C37_nack_complete_when_fits : forall a, Inv a -> (length (ranges a) <= N.to_nat MaxAckSet)%nat ->
  forall n, ~ mem a n -> (exists r, In r (ranges a) /\ n < fst r) -> nack_requests (build_nack a) n.
Proof. exact build_nack_complete. Qed.
Print Assumptions C37_nack_complete_when_fits.

(** The excluded input [ackTo = 2^32-1] really breaks the property (of the model, and -- replayed by the
    correspondence run -- of the Go code): a recorded range is lost, the chain becomes unsorted, and the
    resend request asks for a recorded number. *)
Theorem C37_wrap_excluded_set_refuted : exists ops n,
  (exists op, In op ops /\ in_range op n) /\ ~ mem (run ops) n.
Proof. exact wrap_set_refuted. Qed.
Print Assumptions C37_wrap_excluded_set_refuted.

Theorem C37_wrap_excluded_invariant_refuted : exists ops, Forall (fun op => fst op <= snd op) ops /\ ~ Inv (run ops).
Proof. exact wrap_inv_refuted. Qed.
Print Assumptions C37_wrap_excluded_invariant_refuted.

Theorem C37_wrap_excluded_nack_refuted : exists ops n,
  nack_requests (build_nack (run ops)) n /\ mem (run ops) n.
Proof. exact wrap_nack_refuted. Qed.
Print Assumptions C37_wrap_excluded_nack_refuted.

(** Non-vacuity: hypotheses are satisfiable and the statements talk about non-trivial states. *)
Example C37_ex_state : run [(3, 4); (6, 7); (1, 1); (0, 0); (12, 12)] = mkAcks 2 [(3, 4); (6, 7); (12, 12)].
Proof. vm_compute. reflexivity. Qed.
Example C37_ex_merge : run [(2, 2); (4, 4); (6, 6); (3, 5)] = mkAcks 0 [(2, 6)].
Proof. vm_compute. reflexivity. Qed.
Example C37_ex_ack : build_ack (run [(3, 4); (6, 7); (1, 1); (0, 0); (12, 12)])
  = mkAckHdr (Some 1) (Some (3, 4)) (Some [6; 7; 12]).
Proof. vm_compute. reflexivity. Qed.
Example C37_ex_nack : build_nack (run [(3, 4); (6, 7); (1, 1); (0, 0); (12, 12)]) = Some [(2, 2); (5, 5); (8, 11)].
Proof. vm_compute. reflexivity. Qed.
Example C37_ex_truncation :
  length (match ah_set (build_ack (run [(1, 1); (3, 200)])) with Some s => s | None => [] end) = N.to_nat MaxAckSet.
Proof. vm_compute. reflexivity. Qed.
Example C37_ex_valid : Forall valid_op [(3, 4); (0, 0); (4294967290, 4294967294)].
Proof. repeat constructor; cbn; discriminate. Qed.
