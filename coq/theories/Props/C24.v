(** C24 -- accepted schemas have unique non-zero constructor tags.  Property theorems only. *)
From Coq Require Import String List NArith.
From TLV Require Import Lint.LintModel Lint.LintProofs.
Import ListNotations.
Open Scope string_scope.
Open Scope list_scope.
Open Scope N_scope.

(** Kernel check (internal/pure/kernel.go checkTagCollisions), both directions: the walk over
    the TL1 combinators and then the TL2 declarations accepts exactly the lists whose tags that
    count (every TL1 tag, every non-zero TL2 magic) are pairwise distinct and whose TL1 tags
    are non-zero. *)
Theorem C24_kernel_accepts_iff_unique_nonzero : forall l,
  tags_ok l = true <->
  (NoDup (map te_tag (filter te_effective l)) /\ forall e, In e l -> te_kind e = K1 -> te_tag e <> 0).
Proof. exact tags_ok_iff. Qed.
Print Assumptions C24_kernel_accepts_iff_unique_nonzero.

(** ... which for lists of TL1 combinators and *explicit* TL2 magics is the plain statement. *)
Theorem C24_kernel_explicit : forall l,
  (forall e, In e l -> te_kind e = K2 -> te_tag e <> 0) ->
  (tags_ok l = true <-> (NoDup (map te_tag l) /\ forall e, In e l -> te_tag e <> 0)).
Proof. exact tags_ok_iff_explicit. Qed.
Print Assumptions C24_kernel_explicit.

(** Legacy generator check (internal/tlcodegen/tlgen.go checkTagCollisions). *)
Theorem C24_legacy_accepts_iff_unique_nonzero : forall l,
  tags_check_legacy l = TagsOk <-> (NoDup (map snd l) /\ forall p, In p l -> snd p <> 0).
Proof. exact tags_legacy_ok_iff. Qed.
Print Assumptions C24_legacy_accepts_iff_unique_nonzero.

(** The error that is reported names a real offender: a TL1 combinator with tag 0 ... *)
Theorem C24_zero_error_is_genuine : forall l name,
  tags_check l = TagZero name ->
  exists e, In e l /\ te_name e = name /\ te_kind e = K1 /\ te_tag e = 0.
Proof. intros l name; exact (tags_check_from_zero l [] name). Qed.
Print Assumptions C24_zero_error_is_genuine.

(** ... or an entry whose non-zero tag was already used by an earlier entry that counts. *)
Theorem C24_dup_error_is_genuine : forall l name tag,
  tags_check l = TagDup name tag ->
  exists l1 e l2, l = l1 ++ e :: l2 /\ te_name e = name /\ te_tag e = tag /\ tag <> 0 /\
                  In tag (map te_tag (filter te_effective l1)).
Proof.
  intros l name tag H. destruct (tags_check_from_dup l [] name tag H) as [l1 [e [l2 [E [A [B [C [[]|D]]]]]]]].
  exists l1, e, l2. repeat split; assumption.
Qed.
Print Assumptions C24_dup_error_is_genuine.

(** Non-vacuity: a clean list is accepted; each kind of collision is rejected. *)
Example C24_ex_clean :
  tags_check [mkTagEnt "a" 5 K1; mkTagEnt "f" 6 K1; mkTagEnt "t2.x" 0 K2; mkTagEnt "t2.y" 0 K2; mkTagEnt "t2.z" 7 K2] = TagsOk.
Proof. vm_compute. reflexivity. Qed.
Example C24_ex_zero : tags_check [mkTagEnt "a" 5 K1; mkTagEnt "b" 0 K1] = TagZero "b".
Proof. vm_compute. reflexivity. Qed.
Example C24_ex_dup_tl1 : tags_check [mkTagEnt "a" 5 K1; mkTagEnt "b" 5 K1] = TagDup "b" 5.
Proof. vm_compute. reflexivity. Qed.
Example C24_ex_dup_tl2_tl1 : tags_check [mkTagEnt "a" 5 K1; mkTagEnt "t2.x" 5 K2] = TagDup "t2.x" 5.
Proof. vm_compute. reflexivity. Qed.
Example C24_ex_dup_tl2_tl2 : tags_check [mkTagEnt "t2.x" 9 K2; mkTagEnt "t2.y" 9 K2] = TagDup "t2.y" 9.
Proof. vm_compute. reflexivity. Qed.
