(** C10 -- []byte variants (--generateByteVersions) behave like the string variants.
    Property theorems only.  Model: coq/theories/Reg/RegBytesModel.v.  On the wire a []byte is a string, so
    the only representation-dependent construct is the dictionary: the string variant keeps a Go map (the
    reader inserts, the LAST duplicate wins; the writer sorts by key: [TDict] of Tl1Model.v), the bytes variant
    keeps a slice of entries (order and duplicates preserved: a vector).  The bytes variant of type [t] of
    schema [s] is therefore [t] read in [to_slice s]; [norm s t v] is the content the map-backed variant holds
    for the content [v] of the slice-backed one (every dictionary, at any depth, sorted and de-duplicated). *)
From TLV Require Import Prim.PrimModel Tl1.Tl1Model Tl1.Tl1Proofs Reg.RegBytesModel Reg.RegBytesProofs.
Open Scope N_scope.

(** Same content, same bytes: whatever the string variant writes (its dictionaries are sorted and duplicate
    free by construction) the bytes variant holding that content writes identically.  All schemas, all types,
    all values, bare and boxed, with and without the length-sanity option. *)
Theorem C10_same_content_same_encoding : forall san s v t bare ps b,
  enc1 san s t bare ps v = Some b -> enc1 san (to_slice s) t bare ps v = Some b.
Proof. intros san s. exact (enc_slice_eq san s). Qed.
Print Assumptions C10_same_content_same_encoding.

(** Same input, equal content modulo sort + dedup: whenever the bytes variant accepts an input, the string
    variant accepts it too, consumes the same bytes, and holds the normalised content. *)
Theorem C10_decode_equal_modulo_sort_dedup : forall san s fuel t bare ps b v r,
  dec1 fuel san (to_slice s) t bare ps b = Some (Ok (v, r)) ->
  dec1 fuel san s t bare ps b = Some (Ok (norm s t v, r)).
Proof. intros san s. exact (dec_map_vs_slice san s). Qed.
Print Assumptions C10_decode_equal_modulo_sort_dedup.

(** ... and when the dictionaries of the input are sorted and duplicate free the content is simply equal. *)
Theorem C10_sorted_content_is_equal : forall s v t, dicts_sorted s t v = true -> norm s t v = v.
Proof. exact norm_sorted_id. Qed.
Print Assumptions C10_sorted_content_is_equal.

Theorem C10_decode_sorted_input_equal : forall san s fuel t bare ps b v r,
  dec1 fuel san (to_slice s) t bare ps b = Some (Ok (v, r)) -> dicts_sorted s t v = true ->
  dec1 fuel san s t bare ps b = Some (Ok (v, r)).
Proof.
  intros san s fuel t bare ps b v r H Hs. rewrite <- (norm_sorted_id s v t Hs) at 1.
  now apply dec_map_vs_slice.
Qed.
Print Assumptions C10_decode_sorted_input_equal.

(** one dictionary: the map holds [sort_dedup] of what the slice holds; sorted content is a fixed point *)
Theorem C10_dictionary_content : forall s t kp ef es,
  nth_error s t = Some (TDict kp ef) ->
  norm s t (VArr es) = VArr (sort_dedup kp (map (norm s (f_ty ef)) es)).
Proof. intros s t kp ef es H. cbn [norm]. now rewrite H. Qed.
Print Assumptions C10_dictionary_content.

Theorem C10_sort_dedup_fixes_sorted : forall kp es, keys_sorted kp es = true -> sort_dedup kp es = es.
Proof. exact sort_dedup_sorted. Qed.
Print Assumptions C10_sort_dedup_fixes_sorted.

(** Across the variants: what the string variant writes, the bytes variant reads back as the same content
    (with C01 for the bytes-variant schema, which is well formed when the schema is). *)
Theorem C10_cross_roundtrip : forall san s, wf_schema s = true ->
  forall v fuel t bare ps b rest, (vdepth v <= fuel)%nat ->
  enc1 san s t bare ps v = Some b ->
  dec1 fuel san (to_slice s) t bare ps (b ++ rest) = Some (Ok (v, rest)).
Proof. exact cross_roundtrip. Qed.
Print Assumptions C10_cross_roundtrip.

(** Non-vacuity: a dictionary string -> # inside a struct; an input with unsorted and repeated keys. *)
Definition ex_schema : schema :=
  [ TPrim PNat; TPrim PString;
    TStruct 31 [mkField 1 true None []; mkField 0 true None []];       (* 2: key:string value:# *)
    TDict PString (mkField 2 true None []);                            (* 3 *)
    TStruct 41 [mkField 3 true None []] ].                             (* 4 *)
Definition ent (k : N) (v : N) : value := VStruct [Some (VStr [k]); Some (VNum v)].
Definition ex_unsorted : value := VStruct [Some (VArr [ent 98 1; ent 97 2; ent 98 3])].
Definition ex_sorted : value := VStruct [Some (VArr [ent 97 2; ent 98 3])].

Example C10_ex_norm : norm ex_schema 4 ex_unsorted = ex_sorted /\ dicts_sorted ex_schema 4 ex_sorted = true
                      /\ dicts_sorted ex_schema 4 ex_unsorted = false.
Proof. vm_compute. repeat split; reflexivity. Qed.

Example C10_ex_variants :
  match enc1 true (to_slice ex_schema) 4 false [] ex_unsorted with
  | Some b =>
      enc1 true ex_schema 4 false [] ex_unsorted = None /\                       (* a map cannot hold it *)
      dec1 20 true (to_slice ex_schema) 4 false [] b = Some (Ok (ex_unsorted, [])) /\
      dec1 20 true ex_schema 4 false [] b = Some (Ok (ex_sorted, [])) /\
      enc1 true ex_schema 4 false [] ex_sorted = enc1 true (to_slice ex_schema) 4 false [] ex_sorted
  | None => False
  end.
Proof. vm_compute. repeat split; reflexivity. Qed.
