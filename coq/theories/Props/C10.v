(** C10 -- stub while the pipeline is brought up *)
From TLV Require Import Reg.RegBytesModel.
Theorem C10_stub : to_slice [] = [].
Proof. reflexivity. Qed.
Print Assumptions C10_stub.
