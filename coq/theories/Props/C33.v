(** C33 -- TL primitive codecs are exact.  Property theorems only; each is closed by
    [exact] of a lemma from Prim/Proofs.v and followed by [Print Assumptions]. *)
From TLV Require Import Prim.PrimModel Prim.PrimProofs.
Open Scope N_scope.

(** TL1 strings: every length the writer supports (< 2^56) is read back exactly,
    consuming exactly the written bytes. *)
Theorem C33_str1_roundtrip : forall s b rest,
  str1_w s = Some b -> str1_r (b ++ rest) = Ok (s, rest).
Proof. exact str1_roundtrip. Qed.
Print Assumptions C33_str1_roundtrip.

Theorem C33_str1_total_below_2_56 : forall s,
  lenN s <= maxHugeStringLen -> exists b, str1_w s = Some b.
Proof. exact str1_w_defined. Qed.
Print Assumptions C33_str1_total_below_2_56.

Theorem C33_str1_length : forall s b,
  str1_w s = Some b -> lenN b = str1_len (lenN s) /\ lenN b mod 4 = 0.
Proof. exact str1_w_length. Qed.
Print Assumptions C33_str1_length.

Theorem C33_str1_layout : forall s b, str1_w s = Some b ->
  let l := lenN s in
  (l <= 253 -> b = [l] ++ s ++ zeros (padding_len (l + 1))) /\
  (253 < l <= 16777215 -> tinyStringLen = 253 -> maxMediumStringLen = 16777215 ->
     b = [mediumStringMarker; l mod 256; l / 256 mod 256; l / 65536 mod 256] ++ s ++ zeros (padding_len l)).
Proof. exact str1_layout. Qed.
Print Assumptions C33_str1_layout.

(** The reader accepts only what the writer writes: non-minimal length forms and
    non-zero padding are rejected. *)
Theorem C33_str1_canonical : forall b s rest,
  bytes_ok b -> str1_r b = Ok (s, rest) -> exists p, str1_w s = Some p /\ b = p ++ rest.
Proof. exact str1_canonical. Qed.
Print Assumptions C33_str1_canonical.

Theorem C33_str1_rejects_nonminimal_medium : forall l r,
  l <= tinyStringLen -> str1_r (mediumStringMarker :: le_bytes 3 l ++ r) = Reject.
Proof. exact str1_rejects_nonminimal_medium. Qed.
Print Assumptions C33_str1_rejects_nonminimal_medium.

Theorem C33_str1_rejects_nonminimal_huge : forall l r,
  l <= maxMediumStringLen -> str1_r (hugeStringMarker :: le_bytes 7 l ++ r) = Reject.
Proof. exact str1_rejects_nonminimal_huge. Qed.
Print Assumptions C33_str1_rejects_nonminimal_huge.

Theorem C33_str1_bad_padding_rejected : forall s h p pad' rest,
  str1_hdr (lenN s) = Some (h, p) ->
  lenN pad' = padding_len p -> all_zero pad' = false ->
  str1_r (h ++ s ++ pad' ++ rest) = Reject.
Proof. exact str1_bad_padding_rejected. Qed.
Print Assumptions C33_str1_bad_padding_rejected.

(** Truncated input is an unexpected-EOF error: every proper prefix. *)
Theorem C33_str1_truncated : forall s b k,
  str1_w s = Some b -> (k < length b)%nat -> str1_r (firstn k b) = Eof.
Proof. exact str1_truncated. Qed.
Print Assumptions C33_str1_truncated.

(** TL2 varlen sizes. *)
Theorem C33_size2_roundtrip : forall n r, n <= maxInt -> size2_r (size2_w n ++ r) = Ok (n, r).
Proof. exact size2_roundtrip. Qed.
Print Assumptions C33_size2_roundtrip.

Theorem C33_size2_length : forall n, lenN (size2_w n) = size2_len n.
Proof. exact size2_w_length. Qed.
Print Assumptions C33_size2_length.

Theorem C33_size2_layout : forall n,
  (n < 254 -> mediumStringMarker = 254 -> size2_w n = [n]) /\
  (254 <= n < 254 + 65536 -> mediumStringMarker = 254 ->
     size2_w n = [254; (n - 254) mod 256; (n - 254) / 256 mod 256]).
Proof. exact size2_layout. Qed.
Print Assumptions C33_size2_layout.

Theorem C33_size2_huge_accepted : forall n r,
  n <= maxInt -> size2_r (hugeStringMarker :: le_bytes 8 n ++ r) = Ok (n, r).
Proof. exact size2_huge_accepted. Qed.
Print Assumptions C33_size2_huge_accepted.

Theorem C33_size2_truncated : forall n k,
  n <= maxInt -> (k < length (size2_w n))%nat -> size2_r (firstn k (size2_w n)) = Eof.
Proof. exact size2_truncated. Qed.
Print Assumptions C33_size2_truncated.

(** TL2 bit vectors: 8 per byte, least-significant bit first. *)
Theorem C33_bitvec2_roundtrip : forall v rest,
  bitvec2_r (length v) (bitvec2_w v ++ rest) = Ok (v, rest).
Proof. exact bitvec2_roundtrip. Qed.
Print Assumptions C33_bitvec2_roundtrip.

Theorem C33_bitvec2_length : forall v, lenN (bitvec2_w v) = (lenN v + 7) / 8.
Proof. exact bitvec2_w_length. Qed.
Print Assumptions C33_bitvec2_length.

Theorem C33_bitvec2_bit_layout : forall v i j, (j < 8)%nat ->
  N.testbit (nth i (bitvec2_w v) 0) (N.of_nat j) = nth (8 * i + j) v false.
Proof. exact bitvec2_bit_layout. Qed.
Print Assumptions C33_bitvec2_bit_layout.

(** Non-vacuity: concrete instances computed by the kernel. *)
Example C33_ex_tiny : str1_w [104; 105] = Some [2; 104; 105; 0].
Proof. vm_compute. reflexivity. Qed.
Example C33_ex_medium_hdr :
  option_map (firstn 4) (str1_w (repeat 7 300)) = Some [254; 44; 1; 0].
Proof. vm_compute. reflexivity. Qed.
Example C33_ex_size2 : size2_w 300 = [254; 46; 0] /\ size2_r [254; 46; 0; 9] = Ok (300, [9]).
Proof. vm_compute. split; reflexivity. Qed.
Example C33_ex_bits : bitvec2_w [true; false; true; true; false; false; false; false; true] = [13; 1].
Proof. vm_compute. reflexivity. Qed.
