(** C40 -- RPC request/response extras are transmitted unchanged (pkg/rpc/rpc_format.go and the
    generated TL1 codecs of rpcInvokeReqExtra / rpcReqResultExtra).  Property theorems only; each is
    closed by [exact] of a lemma from Frame/FrameHdrProofs.v and followed by [Print Assumptions].

    [prepare_request]/[parse_request] transcribe preparePacket/ParseInvokeReq, [prepare_response]/
    [parse_response] transcribe prepareResponseBody and the client's RpcReqResultHeader.ReadTL1 +
    parseResponseExtra.  Both body formats are covered: [tl2 = true] is the header followed by the
    rpcTL2Marker tag.  [req_extra_ok]/[resp_extra_ok]: every field within its wire range (uint32/uint64
    patterns, strings below 2^56 bytes, vectors/maps below 2^32 elements, map keys strictly increasing
    -- the order the Go writer emits a map in).  [norm_req]/[norm_resp]: fields whose flag bit is clear
    read back as their zero value (so an extra whose unset fields are zero is transmitted unchanged);
    every one of the 2^32 flag words is covered, including bits that guard no field. *)
From TLV Require Import Prim.PrimModel Frame.FrameHdrModel Frame.FrameHdrProofs.
(* the extraction of the "frame" family covers both models; keep the other one built with this file *)
From TLV Require Frame.FrameModel.
Open Scope N_scope.

Theorem C40_request_extra_codec_exact : forall e rest, req_extra_ok e ->
  req_extra_r (req_extra_w e ++ rest) = Ok (norm_req e, rest).
Proof. exact req_extra_roundtrip. Qed.
Print Assumptions C40_request_extra_codec_exact.

Theorem C40_response_extra_codec_exact : forall e rest, resp_extra_ok e ->
  resp_extra_r (resp_extra_w e ++ rest) = Ok (norm_resp (rs_flags e) e, rest).
Proof. exact resp_extra_roundtrip. Qed.
Print Assumptions C40_response_extra_codec_exact.

(** Request: query id, actor id, extra, body format and body arrive unchanged, for every combination of
    actor/extra wrappers, provided the user body starts with a tag that is not itself a wrapper tag. *)
Theorem C40_request_roundtrip : forall qid actor e tl2 body tag w,
  u64 qid -> u64 actor -> req_extra_ok e -> body_starts body tag -> ~ is_wrapper_tag tag ->
  prepare_request qid actor e tl2 body = Some w ->
  parse_request w = Ok {| q_id := qid; q_actor := actor; q_extra := norm_req e; q_tl2 := tl2;
                          q_tag := tag; q_body := body |}.
Proof. exact request_roundtrip. Qed.
Print Assumptions C40_request_roundtrip.

(** Response: query id, extra (restricted to the flags the request asked for) and body arrive
    unchanged; in TL2 format for every body, in TL1 format for bodies that start with a tag other than
    reqResultHeader and the three error tags. *)
Theorem C40_response_roundtrip : forall qid mask tl2 e body w,
  u64 qid -> resp_extra_ok e ->
  (tl2 = false -> exists tag, body_starts body tag /\ ~ is_resp_special tag) ->
  prepare_response qid mask tl2 e None body = PWire w ->
  parse_response tl2 w = Ok {| a_id := qid; a_extra := norm_resp (N.land (rs_flags e) mask) e;
                               a_out := OBody body |}.
Proof. exact response_roundtrip. Qed.
Print Assumptions C40_response_roundtrip.

(** Error responses: code and description arrive unchanged together with the extra (code 0 is replaced
    by tlerrorcodes.Unknown by design). *)
Theorem C40_response_error_roundtrip : forall qid mask tl2 e code desc body w,
  u64 qid -> resp_extra_ok e -> u32 code -> str_ok desc ->
  prepare_response qid mask tl2 e (Some (code, desc)) body = PWire w ->
  parse_response tl2 w = Ok {| a_id := qid; a_extra := norm_resp (N.land (rs_flags e) mask) e;
                               a_out := OError (if code =? 0 then unknown_code else code) desc [] |}.
Proof. exact response_error_roundtrip. Qed.
Print Assumptions C40_response_error_roundtrip.

Theorem C40_noresult_sends_nothing : forall qid mask tl2 e err body,
  bit mask 7 = true -> prepare_response qid mask tl2 e err body = PNoResult.
Proof. exact prepare_response_noresult. Qed.
Print Assumptions C40_noresult_sends_nothing.

(** Longpoll answers.  A SyncHandler may park a request (StartLongpoll) and answer later through a FRESH handler
    context (FinishLongpoll / SendEmptyResponse); only the struct handlerContextFields survives in between
    ([start_longpoll] = toLongpollContext, [finish_longpoll] = finishLongpoll2).  The restored context is the one a
    direct answer would use -- in particular its requestExtraFieldsmask is the flags word of the request -- so a
    longpoll answer is byte for byte the direct answer, and the client receives the response extra restricted
    to what its request asked for (result and error answers, both body formats). *)
Theorem C40_longpoll_preserves_request_mask : forall q,
  let '(qid, l) := start_longpoll (hctx_of_request q) in
  finish_longpoll qid l = hctx_of_request q /\
  hf_mask (h_fields (finish_longpoll qid l)) = rq_flags (q_extra q).
Proof. exact longpoll_preserves_request_mask. Qed.
Print Assumptions C40_longpoll_preserves_request_mask.

Theorem C40_longpoll_answer_is_direct_answer : forall q e err body,
  respond_longpoll q e err body = prepare_response (q_id q) (rq_flags (q_extra q)) (q_tl2 q) e err body.
Proof. exact respond_longpoll_eq. Qed.
Print Assumptions C40_longpoll_answer_is_direct_answer.

Theorem C40_longpoll_response_roundtrip : forall qid actor re tl2 rbody tag rw e body w,
  u64 qid -> u64 actor -> req_extra_ok re -> body_starts rbody tag -> ~ is_wrapper_tag tag ->
  prepare_request qid actor re tl2 rbody = Some rw ->
  resp_extra_ok e ->
  (tl2 = false -> exists t, body_starts body t /\ ~ is_resp_special t) ->
  match parse_request rw with
  | Ok q => respond_longpoll q e None body = PWire w ->
            parse_response tl2 w = Ok {| a_id := qid; a_extra := norm_resp (N.land (rs_flags e) (rq_flags re)) e;
                                         a_out := OBody body |}
  | _ => False
  end.
Proof. exact longpoll_response_roundtrip. Qed.
Print Assumptions C40_longpoll_response_roundtrip.

Theorem C40_longpoll_error_roundtrip : forall qid actor re tl2 rbody tag rw e code desc body w,
  u64 qid -> u64 actor -> req_extra_ok re -> body_starts rbody tag -> ~ is_wrapper_tag tag ->
  prepare_request qid actor re tl2 rbody = Some rw ->
  resp_extra_ok e -> u32 code -> str_ok desc ->
  match parse_request rw with
  | Ok q => respond_longpoll q e (Some (code, desc)) body = PWire w ->
            parse_response tl2 w = Ok {| a_id := qid; a_extra := norm_resp (N.land (rs_flags e) (rq_flags re)) e;
                                         a_out := OError (if code =? 0 then unknown_code else code) desc [] |}
  | _ => False
  end.
Proof. exact longpoll_error_roundtrip. Qed.
Print Assumptions C40_longpoll_error_roundtrip.

(** A map written in key order is read back as the same map. *)
Theorem C40_map_canonical : forall (V : Type) (m : list (bytes * V)),
  Sorted.StronglySorted key_lt m -> dict_of m = m.
Proof. exact @dict_of_sorted. Qed.
Print Assumptions C40_map_canonical.

(** The string codec used for the extras is the one of C33 (pkg/basictl and internal/vkgo/pkg/basictl
    are the same file; the constants of both copies are regenerated on every run). *)
Example C40_ex_basictl_copies_agree :
  vk_tinyStringLen = tinyStringLen /\ vk_mediumStringMarker = mediumStringMarker /\ vk_hugeStringMarker = hugeStringMarker
  /\ vk_maxMediumStringLen = maxMediumStringLen /\ vk_maxHugeStringLen = maxHugeStringLen.
Proof. vm_compute. repeat split; reflexivity. Qed.

(** Non-vacuity: a concrete request with actor, flags (requester_id, custom_timeout, a trace context and
    a bit that guards no field) in TL2 format; its premises hold; it parses back. *)
Definition ex_extra : req_extra :=
  {| rq_flags := 2 ^ 9 + 2 ^ 23 + 2 ^ 29 + 2 ^ 31; rq_requester_id := 2 ^ 64 - 5; rq_wait_shards := [];
     rq_wait_binlog_pos := 0; rq_string_forward_keys := []; rq_int_forward_keys := []; rq_string_forward := [];
     rq_int_forward := 0; rq_custom_timeout_ms := 1500; rq_supported_compression := 0; rq_random_delay := 0;
     rq_persistent := persistent0;
     rq_trace := {| tc_mask := 8; tc_id := {| u_lo := 1; u_hi := 2 |}; tc_parent := 0; tc_source := [97; 98] |};
     rq_exec_ctx := [] |}.

Example C40_ex_request :
  match prepare_request 77 5 ex_extra true [1; 2; 3; 4; 9] with
  | Some w => parse_request w = Ok {| q_id := 77; q_actor := 5; q_extra := ex_extra; q_tl2 := true;
                                      q_tag := 67305985; q_body := [1; 2; 3; 4; 9] |}
  | None => False
  end.
Proof. vm_compute. reflexivity. Qed.

Example C40_ex_response :
  match prepare_response 77 (2 ^ 0 + 2 ^ 27) false
          {| rs_flags := 2 ^ 0 + 2 ^ 1 + 2 ^ 27; rs_binlog_pos := 10; rs_binlog_time := 11; rs_engine_pid := pid0;
             rs_request_size := 0; rs_response_size := 0; rs_failed_subqueries := 0; rs_compression_version := 0;
             rs_stats := []; rs_shards_binlog_pos := []; rs_epoch_number := 7; rs_view_number := 2 ^ 64 - 1 |}
          None [1; 2; 3; 4] with
  | PWire w => match parse_response false w with
               | Ok a => a_id a = 77 /\ rs_flags (a_extra a) = 2 ^ 0 + 2 ^ 27 /\ rs_binlog_pos (a_extra a) = 10
                         /\ rs_binlog_time (a_extra a) = 0 /\ rs_view_number (a_extra a) = 2 ^ 64 - 1
                         /\ a_out a = OBody [1; 2; 3; 4]
               | _ => False
               end
  | _ => False
  end.
Proof. vm_compute. repeat split; reflexivity. Qed.

Example C40_ex_premises_satisfiable : req_extra_ok ex_extra /\ body_starts [1; 2; 3; 4; 9] 67305985 /\ ~ is_wrapper_tag 67305985.
Proof.
  split; [|split].
  - unfold req_extra_ok, dict_wf, persistent_ok, trace_ok, uuid_ok, u32, u64, str_ok. cbn.
    repeat split; try constructor; try (vm_compute; reflexivity); try (vm_compute; discriminate).
  - exists [9]. reflexivity.
  - unfold is_wrapper_tag. vm_compute. intros [H|[H|[H|H]]]; discriminate.
Qed.

(* a request that asks for binlog_pos and view_number (bits 0, 27) in TL2 format, parked and answered later:
   the client gets exactly these two of the three extras the handler set *)
Example C40_ex_longpoll :
  match prepare_request 77 0 {| rq_flags := 2 ^ 0 + 2 ^ 27; rq_requester_id := 0; rq_wait_shards := [];
     rq_wait_binlog_pos := 0; rq_string_forward_keys := []; rq_int_forward_keys := []; rq_string_forward := [];
     rq_int_forward := 0; rq_custom_timeout_ms := 0; rq_supported_compression := 0; rq_random_delay := 0;
     rq_persistent := persistent0; rq_trace := trace0; rq_exec_ctx := [] |} true [1; 2; 3; 4] with
  | Some rw =>
    match parse_request rw with
    | Ok q =>
      match respond_longpoll q {| rs_flags := 2 ^ 0 + 2 ^ 1 + 2 ^ 27; rs_binlog_pos := 10; rs_binlog_time := 11;
               rs_engine_pid := pid0; rs_request_size := 0; rs_response_size := 0; rs_failed_subqueries := 0;
               rs_compression_version := 0; rs_stats := []; rs_shards_binlog_pos := []; rs_epoch_number := 7;
               rs_view_number := 9 |} None [5; 6] with
      | PWire w => match parse_response true w with
                   | Ok a => rs_flags (a_extra a) = 2 ^ 0 + 2 ^ 27 /\ rs_binlog_pos (a_extra a) = 10 /\
                             rs_binlog_time (a_extra a) = 0 /\ rs_view_number (a_extra a) = 9 /\ a_out a = OBody [5; 6]
                   | _ => False
                   end
      | _ => False
      end
    | _ => False
    end
  | None => False
  end.
Proof. vm_compute. repeat split; reflexivity. Qed.
