(** C40 -- stub, replaced below *)
From TLV Require Import Frame.FrameHdrModel.
Open Scope N_scope.
Example C40_ex_stub : bit 5 0 = true.
Proof. vm_compute. reflexivity. Qed.
