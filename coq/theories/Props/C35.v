(** C35 -- stub, replaced below *)
From TLV Require Import Frame.FrameModel.
Open Scope N_scope.
Example C35_ex_crc : crc_update poly_ieee 0 [49;50;51;52;53;54;55;56;57] = 3421780262.
Proof. vm_compute. reflexivity. Qed.
