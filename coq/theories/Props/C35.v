(** C35 -- packet stream framing round-trips and detects corruption
    (pkg/rpc/packetconn.go, crypto.go).  Property theorems only; each is closed by [exact] of a lemma
    from Frame/FrameProofs.v, Frame/FrameCrc.v or Frame/FrameCrypt.v and followed by [Print Assumptions].

    Reading guide: [write_ops] is the transcription of the writer (WritePacket*/Flush), [frames] its
    closed form (length, seqNum, type, body, CRC32, zero alignment, padVal words at flushes),
    [read_stream]/[read_chunked]/[read_cchunked] the transcription of ReadPacket called until it fails,
    over the whole stream / over an arbitrary chunking / over an arbitrary chunking of the CBC-encrypted
    stream (cryptoReader).  [ops_ok] restricts the packets to what a user of PacketConn may send
    (body bytes are bytes, length within maxPacketLen, multiple of 4 under protocol version 0, type is
    not rpcPing/rpcPong, handshake-phase types and size for negative sequence numbers). *)
From Coq Require Import ZArith.
From TLV Require Import Prim.PrimModel Frame.FrameModel Frame.FrameCrc Frame.FrameProofs Frame.FrameCrypt.
(* the extraction of the "frame" family covers both models; keep the other one built with this file *)
From TLV Require Frame.FrameHdrModel.
Open Scope N_scope.

(** The writer emits exactly [frames]: CRC of a packet in front of the next header or at the flush. *)
Theorem C35_writer_is_frames : forall c seq pos ops out st',
  write_ops c {| w_seq := seq; w_pend := []; w_pos := pos |} (ops ++ [WFlush]) = Some (out, st') ->
  out = frames c seq pos (ops ++ [WFlush]).
Proof. exact write_ops_flushed. Qed.
Print Assumptions C35_writer_is_frames.

(** Round trip: every list of write operations (packets of any sizes/types, flushes anywhere) is read
    back as exactly the packets written, in order, ending in a clean EOF. *)
Theorem C35_roundtrip : forall c seq pos ops,
  cfg_ok c -> (startSeq <= seq)%Z -> (seq = startSeq -> c_enc c = false) ->
  (c_enc c = true -> pos mod 4 = 0) -> ops_ok c seq ops ->
  read_stream c seq (frames c seq pos ops) = (packets_of ops, VEof).
Proof. exact frames_roundtrip. Qed.
Print Assumptions C35_roundtrip.

Theorem C35_roundtrip_written : forall c seq pos ops out st',
  cfg_ok c -> (startSeq <= seq)%Z -> (seq = startSeq -> c_enc c = false) ->
  (c_enc c = true -> pos mod 4 = 0) -> ops_ok c seq ops ->
  write_ops c {| w_seq := seq; w_pend := []; w_pos := pos |} (ops ++ [WFlush]) = Some (out, st') ->
  read_stream c seq out = (packets_of ops, VEof).
Proof. exact write_read_roundtrip. Qed.
Print Assumptions C35_roundtrip_written.

(** Segmentation: the buffered reader fed by conn.Read calls that return arbitrary chunks (including
    empty ones) computes the same result as the reader on the concatenated stream -- for every byte
    stream, well-formed or not. *)
Theorem C35_chunking_irrelevant : forall c seq chunks,
  read_chunked c seq chunks = read_stream c seq (concat chunks).
Proof. exact chunking_irrelevant. Qed.
Print Assumptions C35_chunking_irrelevant.

Theorem C35_roundtrip_any_chunking : forall c seq pos ops chunks,
  cfg_ok c -> (startSeq <= seq)%Z -> (seq = startSeq -> c_enc c = false) ->
  (c_enc c = true -> pos mod 4 = 0) -> ops_ok c seq ops ->
  concat chunks = frames c seq pos ops ->
  read_chunked c seq chunks = (packets_of ops, VEof).
Proof. exact roundtrip_any_chunking. Qed.
Print Assumptions C35_roundtrip_any_chunking.

(** Encryption (CBC over any block cipher [E]/[D] with [D (E x) = x] on 16-byte blocks): the wire
    decrypts to the whole blocks of the plaintext stream; the decrypting reader, which only ever
    decrypts complete blocks of an arbitrarily chunked wire, sees the decrypted stream; hence the round
    trip holds through encryption for every chunking. *)
Theorem C35_cbc_decrypts : forall E D : bytes -> bytes,
  (forall x, block_ok x -> block_ok (E x)) -> (forall x, block_ok x -> D (E x) = x) ->
  forall iv plain, block_ok iv -> bytes_ok plain ->
  wire_dec D iv (wire_enc E iv plain) = concat (fst (blocks_of plain)).
Proof. exact wire_dec_enc. Qed.
Print Assumptions C35_cbc_decrypts.

Theorem C35_encrypted_chunking_irrelevant : forall (D : bytes -> bytes) c seq iv chunks,
  read_cchunked D c seq iv chunks
  = read_all bytes take_flat c (S (length (concat chunks))) seq (wire_dec D iv (concat chunks)).
Proof. exact cchunking_irrelevant. Qed.
Print Assumptions C35_encrypted_chunking_irrelevant.

Theorem C35_encrypted_roundtrip_any_chunking : forall E D : bytes -> bytes,
  (forall x, block_ok x -> block_ok (E x)) -> (forall x, block_ok x -> D (E x) = x) ->
  forall c seq pos ops iv chunks,
  block_ok iv -> cfg_ok c -> c_enc c = true -> (startSeq < seq)%Z -> pos mod blockSize = 0 ->
  ops_ok c seq ops ->
  concat chunks = wire_enc E iv (frames c seq pos (ops ++ [WFlush])) ->
  read_cchunked D c seq iv chunks = (packets_of ops, VEof).
Proof. exact enc_roundtrip. Qed.
Print Assumptions C35_encrypted_roundtrip_any_chunking.

(** CRC-32 (any reflected polynomial with the x^0 and x^32 terms, i.e. IEEE and Castagnoli): every
    error pattern confined to 32 consecutive bits of message ++ CRC -- [v * 2^t] with [0 < v < 2^32] on
    the stream read as a little-endian integer, which is the transmission bit order -- is detected. *)
Theorem C35_crc_detects_burst32 : forall P M M' C' v t,
  good_poly P -> bytes_ok M -> bytes_ok M' -> bytes_ok C' -> length C' = 4%nat -> length M' = length M ->
  N.lxor (le_val (M ++ nat_w (crc_update P 0 M))) (le_val (M' ++ C')) = v * 2 ^ t ->
  0 < v < 2 ^ 32 ->
  le_val C' <> crc_update P 0 M'.
Proof. exact crc_detects_burst. Qed.
Print Assumptions C35_crc_detects_burst32.

Theorem C35_polynomials_good : good_poly poly_ieee /\ good_poly poly_castagnoli.
Proof. exact (conj good_poly_ieee good_poly_castagnoli). Qed.
Print Assumptions C35_polynomials_good.

(** Corruption: a change confined to at most 4 consecutive bytes inside seqNum/type/body/CRC of one
    frame ([a ++ w ++ z] becomes [a ++ w' ++ z]; the length word and the alignment zeros untouched):
    all packets before that frame are delivered unchanged, then the reader reports an error -- it never
    delivers an altered packet and never reports a clean end.  Holds for the plaintext stream with or
    without alignment/padding (what the reader sees after decryption). *)
Theorem C35_corrupted_stream_rejected : forall c seq pos ops p a w w' z rest,
  cfg_ok c -> (startSeq <= seq)%Z -> (seq = startSeq -> c_enc c = false) ->
  (c_enc c = true -> pos mod 4 = 0) -> ops_ok c seq ops ->
  let seq' := (seq + Z.of_nat (length (packets_of ops)))%Z in
  good_poly (poly_at c seq') -> pkt_ok c seq' p ->
  frame c seq' p = a ++ w ++ z ->
  (4 <= length a)%nat -> align_of c (lenN (p_body p)) <= lenN z ->
  length w' = length w -> (length w <= 4)%nat -> w' <> w -> bytes_ok w' ->
  read_stream c seq (frames c seq pos ops ++ (a ++ w' ++ z) ++ rest) = (packets_of ops, VErr).
Proof. exact corrupted_stream_rejected. Qed.
Print Assumptions C35_corrupted_stream_rejected.

(** ... in particular any single byte of seqNum/type/body/CRC replaced by a different value. *)
Theorem C35_single_byte_corruption_rejected : forall c seq pos ops p i b' rest,
  cfg_ok c -> (startSeq <= seq)%Z -> (seq = startSeq -> c_enc c = false) ->
  (c_enc c = true -> pos mod 4 = 0) -> ops_ok c seq ops ->
  let seq' := (seq + Z.of_nat (length (packets_of ops)))%Z in
  let f := frame c seq' p in
  good_poly (poly_at c seq') -> pkt_ok c seq' p ->
  (4 <= i < 16 + length (p_body p))%nat -> b' < 256 -> b' <> nth i f 0 ->
  read_stream c seq (frames c seq pos ops ++ (firstn i f ++ [b'] ++ skipn (S i) f) ++ rest)
  = (packets_of ops, VErr).
Proof. exact single_byte_corruption_rejected. Qed.
Print Assumptions C35_single_byte_corruption_rejected.

Theorem C35_connection_polynomials_good : forall c seq,
  c_poly c = poly_ieee \/ c_poly c = poly_castagnoli -> good_poly (poly_at c seq).
Proof. exact good_poly_at. Qed.
Print Assumptions C35_connection_polynomials_good.

(** Not theorems (and not claimed): a corrupted *length* word, or any corrupted byte of the
    *encrypted* stream (which garbles a whole plaintext block), is caught by the CRC/sequence/size
    checks only with probability 1 - 2^-32; the check exercises these cases on the Go code. *)

(** Non-vacuity: the CRC is the standard one; a concrete encrypted-layout stream with flushes, a
    consumed ping and a wrap-around sequence number is read back; its premises are satisfiable. *)
Example C35_ex_crc_ieee : crc_update poly_ieee 0 [49; 50; 51; 52; 53; 54; 55; 56; 57] = 3421780262.
Proof. vm_compute. reflexivity. Qed.   (* crc32("123456789") = 0xCBF43926 *)
Example C35_ex_crc_castagnoli : crc_update poly_castagnoli 0 [49; 50; 51; 52; 53; 54; 55; 56; 57] = 3808858755.
Proof. vm_compute. reflexivity. Qed.   (* crc32c("123456789") = 0xE3069283 *)

Definition ex_cfg : cfg := {| c_pv := 1; c_enc := true; c_poly := poly_castagnoli |}.
Definition ex_ops : list wop :=
  [WPkt {| p_type := 7; p_body := [1; 2; 3] |}; WFlush; WPkt {| p_type := 9; p_body := [] |};
   WPkt {| p_type := 10; p_body := [5] |}; WFlush].

Example C35_ex_stream :
  frames ex_cfg 4294967295 0 ex_ops =
  [19; 0; 0; 0; 255; 255; 255; 255; 7; 0; 0; 0; 1; 2; 3; 207; 157; 132; 70; 0; 4; 0; 0; 0; 4; 0; 0; 0; 4; 0; 0; 0;
   16; 0; 0; 0; 0; 0; 0; 0; 9; 0; 0; 0; 16; 164; 72; 25;
   17; 0; 0; 0; 1; 0; 0; 0; 10; 0; 0; 0; 5; 95; 150; 20; 251; 0; 0; 0; 4; 0; 0; 0; 4; 0; 0; 0; 4; 0; 0; 0]
  /\ read_stream ex_cfg 4294967295 (frames ex_cfg 4294967295 0 ex_ops) = (packets_of ex_ops, VEof)
  /\ read_chunked ex_cfg 4294967295 (map (fun b => [b]) (frames ex_cfg 4294967295 0 ex_ops)) = (packets_of ex_ops, VEof).
Proof. vm_compute. repeat split; reflexivity. Qed.

Example C35_ex_premises_satisfiable : cfg_ok ex_cfg /\ ops_ok ex_cfg 4294967295 ex_ops.
Proof.
  split; [vm_compute; reflexivity|].
  cbn [ops_ok ex_ops]. unfold pkt_ok. cbn [p_body p_type].
  repeat split; try (vm_compute; (reflexivity || discriminate || (intros; discriminate))); try (repeat constructor; vm_compute; reflexivity).
Qed.

Example C35_ex_ping_consumed_pong_rejected :
  read_stream ex_cfg 0 (frames ex_cfg 0 0 [WPkt {| p_type := tag_rpcPing; p_body := [1; 2; 3; 4; 5; 6; 7; 8] |};
                                           WPkt {| p_type := 3; p_body := [] |}; WFlush])
  = ([{| p_type := 3; p_body := [] |}], VEof)
  /\ read_stream ex_cfg 0 (frames ex_cfg 0 0 [WPkt {| p_type := tag_rpcPong; p_body := [1; 2; 3; 4; 5; 6; 7; 8] |}; WFlush])
  = ([], VErr).
Proof. vm_compute. split; reflexivity. Qed.
