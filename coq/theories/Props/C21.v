(** C21 -- the TL1 printer round-trips through the parser. *)
From TLV Require Import Canon.CanonModel Canon.CanonProofs.
Open Scope N_scope.

Theorem C21_placeholder : forall c, c_explicit c = true -> tag c = c_id c.
Proof. exact tag_explicit_verbatim. Qed.
Print Assumptions C21_placeholder.
