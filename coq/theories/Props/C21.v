(** C21 -- the TL1 schema printer round-trips through the parser.

    Full statement (not proved here: the lexer/parser model belongs to another family):
      for every a in the image of parse1:  parse1 (lex (print_tl a)) = Ok a'  /\  erase a' = erase a
    where [erase] drops positions and comments; in this development the Gallina AST *is* the erased AST (the
    harness dump keeps every other field), and the full statement is checked on the Go side by the correspondence
    run of lib/checks/C21.py (ParseTLFile -> TL.String() -> ParseTLFile, AST dumps compared).
    Proved ([_partial]): for the expression sub-grammar the printed text determines the AST -- a verified parser
    inverts TypeRef.String on every well-formed type reference (nested applications, bare markers, arithmetic,
    namespaces, '#'), hence the printer is injective there; likewise names, numbers and arithmetic.
    Refuted: the statement itself, for combinators with an explicit zero tag (F5). *)
From TLV Require Import Canon.CanonModel Canon.CanonProofs Canon.CanonParse.
Open Scope N_scope.

Theorem C21_parse_print_typeref_partial : forall t, wf_tr t = true ->
  exists k, forall fuel r, (k <= fuel)%nat -> tstop r -> parse_tr fuel (print_tr t ++ r) = Some (t, r).
Proof. exact parse_print_tr. Qed.
Print Assumptions C21_parse_print_typeref_partial.

Theorem C21_print_typeref_injective : forall t1 t2,
  wf_tr t1 = true -> wf_tr t2 = true -> print_tr t1 = print_tr t2 -> t1 = t2.
Proof. exact print_tr_inj. Qed.
Print Assumptions C21_print_typeref_injective.

Theorem C21_parse_print_name : forall n r, wf_name n = true -> nstop r -> parse_name (print_name n ++ r) = Some (n, r).
Proof. exact parse_name_ok. Qed.
Print Assumptions C21_parse_print_name.

Theorem C21_print_name_injective : forall n1 n2,
  wf_name n1 = true -> wf_name n2 = true -> print_name n1 = print_name n2 -> n1 = n2.
Proof. exact print_name_inj. Qed.
Print Assumptions C21_print_name_injective.

Theorem C21_print_arith_injective : forall l1 l2, l1 <> [] -> l2 <> [] -> print_nums l1 = print_nums l2 -> l1 = l2.
Proof. exact print_nums_inj. Qed.
Print Assumptions C21_print_arith_injective.

Theorem C21_decimal_value : forall n, dec n <> [] /\ forallb is_digit (dec n) = true /\ dval (dec n) = n.
Proof. exact dec_spec. Qed.
Print Assumptions C21_decimal_value.

Theorem C21_tag_hex_value : forall n, n < 4294967296 -> hexval (hex8 n) = n.
Proof. exact hex8_value. Qed.
Print Assumptions C21_tag_hex_value.

(** the printed combinator is a single line of printable structure: no double spaces etc. are claimed only for
    the canonical form (C23); here: the refutation of the round trip *)
Theorem C21_print1_refuted_zero_tag :
  exists c1 c2, wf_comb c1 = true /\ wf_comb c2 = true /\ c_explicit c1 = true /\ c_id c1 = 0 /\
    c_explicit c2 = false /\ print1 c1 = print1 c2 /\ tag c1 = 0 /\ tag c2 = 135614071 /\ c1 <> c2.
Proof. exact print1_refuted_zero_tag. Qed.
Print Assumptions C21_print1_refuted_zero_tag.

(* non-vacuity: a nested type expression with every construct, printed and parsed back *)
Definition ex_tr : typeref :=
  TypeRef (Name [97] [86; 101; 99]) (* a.Vec *)
    [Aot false (Arith [] 0) (TypeRef (Name [] [116; 117; 112]) [Aot false (Arith [] 0) w_int; Aot true (Arith [2; 3] 5) w_empty_tr] true);
     Aot true (Arith [7] 7) w_empty_tr; Aot false (Arith [] 0) w_nat] true.
Example ex_tr_wf : wf_tr ex_tr = true.
Proof. vm_compute. reflexivity. Qed.
(* %(a.Vec %(tup int 2 + 3) 7 #) *)
Example ex_tr_text : print_tr ex_tr =
  [37; 40; 97; 46; 86; 101; 99; 32; 37; 40; 116; 117; 112; 32; 105; 110; 116; 32; 50; 32; 43; 32; 51; 41; 32; 55; 32; 35; 41].
Proof. vm_compute. reflexivity. Qed.
Example ex_tr_roundtrip : parse_tr 10 (print_tr ex_tr ++ [32; 120]) = Some (ex_tr, [32; 120]).
Proof. vm_compute. reflexivity. Qed.
(* foo = Foo; *)
Example ex_print1_zero_tag : print1 (w_foo [] 0 true) = [102; 111; 111; 32; 61; 32; 70; 111; 111; 59].
Proof. vm_compute. reflexivity. Qed.
