(** C29 -- placeholder, theorems follow. *)
From Coq Require Import String List NArith.
From TLV Require Import Lint.LintModel Lint.LintProofs.
Example C29_ex0 : lint nil nil = Accept.
Proof. vm_compute. reflexivity. Qed.
