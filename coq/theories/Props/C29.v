(** C29 -- the backward-compatibility linter accepts the documented safe schema evolutions.
    Property theorems only (model: Lint/LintModel.v, a transcription of
    internal/tlcodegen/tlgen.go CheckBackwardCompatibility and what it calls).
    Every theorem holds for the code as it is ([lint]) and for the repaired variant
    ([lint_fixed]): they are stated for [lint_with fx], any [fx]. *)
From Coq Require Import String List NArith ZArith Bool.
From TLV Require Import Lint.LintModel Lint.LintProofs Lint.LintEdits.
Import ListNotations.
Open Scope string_scope.
Open Scope list_scope.

(** Every schema whose constructor names are pairwise distinct is compatible with itself. *)
Theorem C29_lint_refl : forall fx a,
  NoDup (map c_name (filter is_type a)) -> lint_with fx a a = Accept.
Proof. exact lint_refl. Qed.
Print Assumptions C29_lint_refl.

(** The general shape: every old combinator still in place, possibly with appended fields that
    pass the linter's bit check, followed by new combinators (new functions start with a #
    argument; a one-constructor type that gains constructors is used only boxed). *)
Theorem C29_accepts_extension : forall fx a pre extras,
  wf (pre ++ extras) ->
  Forall2 (comb_ext (check_nat_usages a) (check_nat_usages (pre ++ extras))) a pre ->
  (forall x, In x extras -> c_fun x = true -> match c_fields x with f0 :: _ => is_nat_field f0 = true | [] => True end) ->
  (forall c0, types_of a (c_tname c0) = [c0] -> (1 < length (types_of (pre ++ extras) (c_tname c0)))%nat -> boxed_only a c0) ->
  lint_with fx a (pre ++ extras) = Accept.
Proof. exact lint_accept_pointwise. Qed.
Print Assumptions C29_accepts_extension.

(** Safe edit: add a new type, a new constructor of a boxed-only (or already polymorphic)
    type, or a new function whose first argument is a # (or that has no arguments). *)
Theorem C29_add_combinator : forall fx a x,
  wf a -> wf (a ++ [x]) -> new_fun_ok x ->
  (is_type x = true -> forall c0, types_of a (c_tname x) = [c0] -> boxed_only a c0) ->
  lint_with fx a (a ++ [x]) = Accept.
Proof. exact accept_add_combinator. Qed.
Print Assumptions C29_add_combinator.

(** Safe edit: append a field guarded by an unused bit of an existing local field mask, to
    the combinator at any position of the schema. *)
Theorem C29_append_masked_field : forall fx l1 c l2 f,
  wf (l1 ++ c :: l2) -> field_step_ok (l1 ++ c :: l2) (length l1) c f ->
  lint_with fx (l1 ++ c :: l2) (l1 ++ add_field c f :: l2) = Accept.
Proof. exact accept_append_field. Qed.
Print Assumptions C29_append_masked_field.

(** "unused bit of an existing mask" in syntactic terms (no reference to the linter's analysis). *)
Theorem C29_unused_bit_syntactic : forall a c j fj f m b,
  wfs a -> In c a -> is_type c || c_fun c = true ->
  f_mask f = Some (m, b) ->
  find_index (fun t => String.eqb (ta_name t) m) (c_targs c) = None ->
  find_index (fun g => String.eqb (f_name g) m) (c_fields c) = Some j ->
  nth_error (c_fields c) j = Some fj -> is_nat_field fj = true -> f_name fj = m ->
  (forall g, In g (c_fields c) -> ~ In m (ty_names (f_ty g))) -> ~ In m (ty_names (c_res c)) ->
  ~ In b (direct_bits c j fj) ->
  local_mask_ok (check_nat_usages a) (add_field c f) f.
Proof. exact local_mask_ok_syntactic. Qed.
Print Assumptions C29_unused_bit_syntactic.

(** Closed under sequences: any sequence of those edits, each judged against the base schema. *)
Theorem C29_safe_sequences : forall fx a0 a, wf a0 -> safe_seq a0 a -> lint_with fx a0 a = Accept.
Proof. exact lint_safe_seq. Qed.
Print Assumptions C29_safe_sequences.

(* ---- non-vacuity *)

Definition ex_t : comb :=
  mkComb "t" 1 false false [] [mkField "m" None "" (TRef "#" false []); mkField "x" (Some ("m", 0%N)) "" (TRef "int" false [])] "T" (TRef "" false []).
Definition ex_y : field := mkField "y" (Some ("m", 1%N)) "" (TRef "int" false []).
Definition ex_fn : comb :=
  mkComb "getT" 2 false true [] [mkField "fm" None "" (TRef "#" false [])] "" (TRef "T" false []).

Example C29_ex_step_ok : field_step_ok [ex_t] 0 ex_t ex_y.
Proof.
  unfold field_step_ok. cbn [nth_error]. split; [|split].
  - exists "m", 1%N, 0%nat. split; [reflexivity|]. split; [reflexivity|]. split; [reflexivity|].
    vm_compute. intros [H|[]]. discriminate.
  - intros s H. vm_compute in H. intros <-. repeat (destruct H as [H|H]; [discriminate|]). destruct H.
  - intros H. discriminate.
Qed.

Example C29_ex_sequence : safe_seq [ex_t] ([add_field ex_t ex_y] ++ [ex_fn]).
Proof.
  apply SS_add.
  - apply (SS_field [ex_t] [] ex_t [] ex_y); [apply SS_base|exact C29_ex_step_ok].
  - split; cbn; repeat constructor; intros [].
  - intros _. reflexivity.
  - intros H. discriminate.
Qed.

Example C29_ex_sequence_accepted : lint [ex_t] ([add_field ex_t ex_y] ++ [ex_fn]) = Accept.
Proof. vm_compute. reflexivity. Qed.

(** The premise "the appended field's name is none of the names the old combinator's types
    mention" ([field_step_ok], [comb_ext]) is about FULL type names ([Name.String()], the key of
    the linter's name map): a field called [point] next to an old field of type [geo.point] is
    fine (first example).  The premise cannot be dropped: compareTypes resolves an OLD field's type
    name among the NEW combinator's field names, so a correctly masked field that is merely CALLED
    like a non-namespaced type an old field mentions is refused, although nothing changes on the
    wire (second example; finding: replayed on the real linter by lib/checks/C29.py, class
    namecoll:unqualified-type-name). *)
Definition nc_old : comb :=
  mkComb "h" 3 false false [] [mkField "fm" None "" (TRef "#" false []); mkField "a" (Some ("fm", 0%N)) "" (TRef "int" false []);
                              mkField "c" None "" (TRef "geo.point" false [])] "H" (TRef "" false []).
Example C29_ex_field_named_like_namespaced_type :
  lint [nc_old] [add_field nc_old (mkField "point" (Some ("fm", 1%N)) "" (TRef "long" false []))] = Accept.
Proof. vm_compute. reflexivity. Qed.
Theorem C29_refuted_field_named_like_type :
  lint [nc_old] [add_field nc_old (mkField "int" (Some ("fm", 1%N)) "" (TRef "long" false []))] = Reject RRefChanged.
Proof. vm_compute. reflexivity. Qed.
Print Assumptions C29_refuted_field_named_like_type.
